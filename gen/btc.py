"""Independent Python encoder of the Bitcoin wire format + random structure generator.
Used by the generators (G2 structured-valid, G3 mutants) and by the oracles
(re-deriving the expected traversal / sizes from the structure, not from the crate)."""
import struct

U64MAX = (1 << 64) - 1


def cs(n):
    """minimal compact size"""
    if n < 0xFD:
        return bytes([n])
    if n <= 0xFFFF:
        return b"\xfd" + struct.pack("<H", n)
    if n <= 0xFFFFFFFF:
        return b"\xfe" + struct.pack("<I", n)
    return b"\xff" + struct.pack("<Q", n)


def cs_forms(n):
    """all encodings (minimal and non-minimal) of n"""
    out = []
    if n < 0x100:
        out.append(bytes([n])) if n < 0xFD else None
    if n <= 0xFFFF:
        out.append(b"\xfd" + struct.pack("<H", n))
    if n <= 0xFFFFFFFF:
        out.append(b"\xfe" + struct.pack("<I", n))
    out.append(b"\xff" + struct.pack("<Q", n))
    return out


BOUNDARY_VALUES = [0, 1, 2, 0xFC, 0xFD, 0xFE, 0xFF, 0x100, 0xFFFF, 0x10000, 0xFFFFFFFF, 0x100000000,
                   (1 << 63) - 1, 1 << 63, (1 << 63) + 1] + [U64MAX - k for k in range(0, 12)]

LEN_CHOICES = [0, 0, 1, 1, 2, 3, 5, 20, 22, 25, 34, 75, 76, 107, 252, 253, 254, 300]
BIG_LEN_CHOICES = [65535, 65536, 65537]


class Fields:
    """records (kind, offset, width) of every field while encoding, for the mutant generator"""

    def __init__(self):
        self.buf = bytearray()
        self.fields = []

    def put(self, kind, b):
        self.fields.append((kind, len(self.buf), len(b)))
        self.buf += b

    def cs(self, kind, n):
        self.put("cs:" + kind, cs(n))


def rand_bytes(rng, n):
    # asymmetric content so that offset / endianness slips change a value
    return bytes(rng.randrange(256) for _ in range(n))


def rand_len(rng, big=False):
    if big and rng.random() < 0.5:
        return rng.choice(BIG_LEN_CHOICES)
    return rng.choice(LEN_CHOICES)


def rand_txin(rng, big=False):
    return {"txid": rand_bytes(rng, 32), "vout": rng.choice([0, 1, 2, 0xFFFFFFFF, rng.randrange(1 << 32)]),
            "sig": rand_bytes(rng, rand_len(rng, big)), "seq": rng.choice([0xFFFFFFFE, 0xFFFFFFFD, 0, rng.randrange(1 << 32)])}


def rand_txout(rng, big=False):
    return {"value": rng.choice([0, 1, 546, 5000000000, 21 * 10**14, rng.randrange(1 << 64)]),
            "spk": rand_bytes(rng, rand_len(rng, big))}


def rand_witness(rng, shape, big=False):
    if shape == "empty":
        return []
    if shape == "empty_elems":
        return [b""] * rng.randrange(1, 4)
    n = rng.choice([1, 1, 2, 2, 3, 5])
    return [rand_bytes(rng, rand_len(rng, big)) if rng.random() < 0.8 else b"" for _ in range(n)]


def rand_tx(rng, segwit=None, nin=None, nout=None, big=False, allow_invalid_nowit=False):
    if segwit is None:
        segwit = rng.random() < 0.55
    if nin is None:
        nin = rng.choice([1, 1, 1, 2, 2, 3, 4, 6]) if rng.random() < 0.95 else rng.choice([0, 253, 260])
    if nout is None:
        nout = rng.choice([0, 1, 1, 2, 2, 3, 5]) if rng.random() < 0.95 else rng.choice([253, 300])
    if not segwit and nin == 0:
        nin = 1
    small = nin > 50 or nout > 50
    tx = {"version": rng.choice([1, 2, 2, -1, 0x7FFFFFFF, -0x80000000, rng.randrange(-(1 << 31), 1 << 31)]),
          "ins": [rand_txin(rng, big and i == 0) for i in range(nin)],
          "outs": [rand_txout(rng, big and i == 0) for i in range(nout)],
          "segwit": segwit,
          "locktime": rng.choice([0, 1, 499999999, 500000000, 0xFFFFFFFF, rng.randrange(1 << 32)])}
    if small:
        for i in tx["ins"]:
            i["sig"] = i["sig"][:2]
        for o in tx["outs"]:
            o["spk"] = o["spk"][:2]
    if segwit:
        shapes = [rng.choice(["empty", "normal", "normal", "empty_elems"]) for _ in range(nin)]
        wits = [rand_witness(rng, s, big and i == 0) for i, s in enumerate(shapes)]
        if small:
            wits = [w[:1] if i % 7 else [e[:3] for e in w] for i, w in enumerate(wits)]
            wits = [[e[:2] for e in w] for w in wits]
        if nin > 0 and all(len(w) == 0 for w in wits) and not allow_invalid_nowit:
            k = rng.randrange(nin)
            wits[k] = [rand_bytes(rng, rng.choice([0, 1, 33, 72]))]
        tx["wits"] = wits
    return tx


def enc_txin(f, i):
    f.put("txid", i["txid"])
    f.put("vout", struct.pack("<I", i["vout"]))
    f.cs("siglen", len(i["sig"]))
    f.put("sig", i["sig"])
    f.put("seq", struct.pack("<I", i["seq"]))


def enc_txout(f, o):
    f.put("value", struct.pack("<Q", o["value"]))
    f.cs("spklen", len(o["spk"]))
    f.put("spk", o["spk"])


def enc_txins(f, ins):
    f.cs("nin", len(ins))
    for i in ins:
        enc_txin(f, i)


def enc_txouts(f, outs):
    f.cs("nout", len(outs))
    for o in outs:
        enc_txout(f, o)


def enc_witness(f, w):
    f.cs("nwit", len(w))
    for e in w:
        f.cs("witlen", len(e))
        f.put("witel", e)


def enc_tx(f, tx):
    f.put("version", struct.pack("<i", tx["version"]))
    if tx["segwit"]:
        f.put("marker", b"\x00")
        f.put("flag", b"\x01")
    enc_txins(f, tx["ins"])
    enc_txouts(f, tx["outs"])
    if tx["segwit"]:
        for w in tx["wits"]:
            enc_witness(f, w)
    f.put("locktime", struct.pack("<I", tx["locktime"]))


def tx_bytes(tx):
    f = Fields()
    enc_tx(f, tx)
    return bytes(f.buf), f.fields


def tx_stripped(tx):
    f = Fields()
    f.put("version", struct.pack("<i", tx["version"]))
    enc_txins(f, tx["ins"])
    enc_txouts(f, tx["outs"])
    f.put("locktime", struct.pack("<I", tx["locktime"]))
    return bytes(f.buf)


def rand_header(rng):
    return {"version": rng.choice([1, 2, 0x20000000, -1, rng.randrange(-(1 << 31), 1 << 31)]),
            "prev": rand_bytes(rng, 32), "merkle": rand_bytes(rng, 32),
            "time": rng.randrange(1 << 32), "bits": rng.randrange(1 << 32), "nonce": rng.randrange(1 << 32)}


def enc_header(f, h):
    f.put("hversion", struct.pack("<i", h["version"]))
    f.put("prev", h["prev"])
    f.put("merkle", h["merkle"])
    f.put("time", struct.pack("<I", h["time"]))
    f.put("bits", struct.pack("<I", h["bits"]))
    f.put("nonce", struct.pack("<I", h["nonce"]))


def rand_block(rng, ntx=None):
    if ntx is None:
        ntx = rng.choice([0, 1, 1, 2, 3, 4])
    return {"header": rand_header(rng), "txs": [rand_tx(rng, nin=rng.choice([0, 1, 1, 2, 3]) if rng.random() < 0.9 else None) for _ in range(ntx)]}


def enc_block(f, b):
    enc_header(f, b["header"])
    f.cs("ntx", len(b["txs"]))
    for t in b["txs"]:
        enc_tx(f, t)


def block_bytes(b):
    f = Fields()
    enc_block(f, b)
    return bytes(f.buf), f.fields


def obj_bytes(kind, obj):
    f = Fields()
    {"txin": enc_txin, "txout": enc_txout, "txins": enc_txins, "txouts": enc_txouts, "witness": enc_witness,
     "header": enc_header, "transaction": enc_tx, "block": enc_block}[kind](f, obj)
    return bytes(f.buf), f.fields
