"""Case generators.  Every random choice derives from one PRNG seeded with
(VERIF_SEED, stream name); a case replays from its line alone.
Line formats (shared by harness/src/main.rs and ocaml/driver.ml):
  P <id> <entry> <hex|-> <param> <brk>      parser case (brk = -1: never break)
  K <id> <cap> <op>...                      cache history
  O <id> <hexa> <hexb>                      outpoint key order
  D <id> <kind> <hex>                       redb round trip (implementation only)
  F <id> <hex block> <hex id>               Block::visit with FindTransaction::new(id), then tx_found()
"""
import os
import random
import struct
import itertools
import glob

from . import btc

ALPHA12 = [0x00, 0x01, 0x02, 0x03, 0x7F, 0x80, 0xFC, 0xFD, 0xFE, 0xFF, 0x29, 0xAB]
BSL_ENTRIES = ["script", "outpoint", "txin", "txout", "txins", "txouts", "witness", "witnesses", "transaction", "header", "block"]
VISIT_ENTRIES = ["txins", "txouts", "witness", "witnesses", "transaction", "header", "block"]


def hx(b):
    return b.hex() if len(b) else "-"


def P(cid, entry, b, param=0, brk=-1):
    return "P %s %s %s %d %d" % (cid, entry, hx(b), param, brk)


def rng_for(seed, name):
    return random.Random("%d/%s" % (seed, name))


def mined_values(limit=None):
    """Integer literals of the crate's current source (string literals and comments stripped), each with
    its two neighbours: a special case keyed on a number (a width switch, a fast path, a cut-off)
    introduced by an edit gets cases on both sides of it without anybody listing the number by hand."""
    import re
    repo = os.environ.get("VERIF_REPO", "/repo")
    vals = set()
    for f in sorted(glob.glob(os.path.join(repo, "src", "**", "*.rs"), recursive=True)):
        try:
            src = open(f, errors="replace").read()
        except OSError:
            continue
        src = re.sub(r'"(?:\\.|[^"\\])*"', '""', src)
        src = re.sub(r"//[^\n]*", "", src)
        for m in re.finditer(r"(?<![\w.])(0x[0-9a-fA-F_]+|0b[01_]+|\d[\d_]*)(?:_?(?:usize|u8|u16|u32|u64|u128|i8|i16|i32|i64|isize))?\b", src):
            try:
                c = int(m.group(1).replace("_", ""), 0)
            except ValueError:
                continue
            for d in (-1, 0, 1):
                if 0 <= c + d <= btc.U64MAX:
                    vals.add(c + d)
    # constant expressions (`const X: usize = 4_000_000 / (4 * 60);`, `1 << 20`): their value is a number the code
    # compares against although it is written nowhere as a literal
    for f in sorted(glob.glob(os.path.join(repo, "src", "**", "*.rs"), recursive=True)):
        try:
            src = open(f, errors="replace").read()
        except OSError:
            continue
        src = re.sub(r"//[^\n]*", "", src)
        for m in re.finditer(r"(?:const|static|let)\s+\w+\s*(?::\s*[\w:<>]+)?\s*=\s*([^;{}\"']{3,80});", src):
            expr = re.sub(r"(?<=[0-9a-fA-F])_(?=[0-9a-fA-F])", "", m.group(1))
            expr = re.sub(r"\b(\d+|0x[0-9a-fA-F]+)(?:usize|u8|u16|u32|u64|u128|i32|i64|isize)\b", r"\1", expr)
            expr = re.sub(r"\bas\s+\w+", "", expr)
            if not re.fullmatch(r"[0-9a-fA-FxX\s+\-*/()<>%|&^]+", expr) or not re.search(r"[+\-*/<>%|&^]", expr):
                continue
            try:
                c = eval(expr.replace("/", "//"), {"__builtins__": {}}, {})
            except Exception:
                continue
            if isinstance(c, int):
                for d in (-1, 0, 1):
                    if 0 <= c + d <= btc.U64MAX:
                        vals.add(c + d)
    out = sorted(vals)
    if limit is not None:
        out = [v for v in out if v <= limit]
    return out


# ---------------------------------------------------------------- S_len
def stream_len(tier, seed):
    rng = rng_for(seed, "len")
    lines = []
    n = 0
    counters = [0, 1, 7, 1 << 32, (1 << 62) - 1]

    def add(b, counters_=(0,)):
        nonlocal n
        lines.append(P("len.%d" % n, "parse_len", b))
        n += 1
        for c in counters_:
            lines.append(P("len.%d" % n, "scan_len", b, c))
            n += 1
    add(b"")
    # all 1-byte forms, alone and followed by a byte
    for x in range(256):
        add(bytes([x]), counters)
        add(bytes([x, 0xAA]))
    # all 65536 3-byte fd forms
    for v in range(65536):
        add(b"\xfd" + struct.pack("<H", v), (rng.choice(counters),))
    # 5-byte and 9-byte forms: boundary dense + random
    vals = set()
    for base in btc.BOUNDARY_VALUES + [0xFFFE, 0xFFFF, 0x10000, 0x10001, 0xFFFFFFFE, 0xFFFFFFFF, 0x100000000, 0x100000001]:
        for d in (-2, -1, 0, 1, 2):
            v = base + d
            if 0 <= v <= btc.U64MAX:
                vals.add(v)
    nrand = 2000 if tier == "quick" else 200000
    for _ in range(nrand):
        vals.add(rng.randrange(1 << rng.choice([8, 16, 17, 24, 32, 33, 48, 63, 64])))
    vals.update(mined_values())
    for v in sorted(vals):
        if v <= 0xFFFFFFFF:
            add(b"\xfe" + struct.pack("<I", v), counters if v in (0xFFFF, 0x10000, 0xFFFFFFFF) else (rng.choice(counters),))
        add(b"\xff" + struct.pack("<Q", v), counters if v in (0xFFFFFFFF, 0x100000000, btc.U64MAX) else (rng.choice(counters),))
    # every boundary form followed by 8+ further bytes (zero / non-zero): a decoder that loads a whole
    # word after the marker must still judge minimality on its own width only
    for v in sorted(vals):
        for tail in (b"\xaa" * 9, b"\x00" * 9, b"\x00\x00\x00\x01" + b"\x00" * 5):
            if v <= 0xFFFF:
                add(b"\xfd" + struct.pack("<H", v) + tail, (rng.choice(counters),))
            if v <= 0xFFFFFFFF:
                add(b"\xfe" + struct.pack("<I", v) + tail, (rng.choice(counters),))
    for v in range(0, 65536, 257):
        add(b"\xfd" + struct.pack("<H", v) + b"\x55" * 8)
        add(b"\xfe" + struct.pack("<I", v) + b"\x55" * 8)
    # every width followed by 1..8, 9 and 16 further bytes that are all different from one another and from the
    # payload: a decoder that reads a word at some other offset (an aligned-load fast path, an off-by-one in the
    # sub-slice) then sees a different value; the start address of the input varies from case to case in the harness
    core_vals = [0, 1, 0xFC, 0xFD, 0xFE, 0xFF, 0x100, 0xFFFF, 0x10000, 0x10001, 0xFFFFFF, 0x1000000, 0xFFFFFFFF, 0x100000000,
                 0x100000001, 0xFFFFFFFFFF, 0x1000000000000, 0xFFFFFFFFFFFFFF, 0x100000000000000, 0x0123456789ABCDEF,
                 (1 << 63) - 1, 1 << 63, btc.U64MAX - 1, btc.U64MAX]
    distinct = bytes([0xA1, 0xB2, 0xC3, 0xD4, 0xE5, 0xF6, 0x17, 0x28, 0x39, 0x4A, 0x5B, 0x6C, 0x7D, 0x8E, 0x9F, 0x10])
    for v in core_vals:
        for tl in (1, 2, 3, 4, 5, 6, 7, 8, 9, 16):
            tail = distinct[:tl]
            if v <= 0xFFFF:
                add(b"\xfd" + struct.pack("<H", v) + tail, (rng.choice(counters),))
            if v <= 0xFFFFFFFF:
                add(b"\xfe" + struct.pack("<I", v) + tail, (rng.choice(counters),))
            add(b"\xff" + struct.pack("<Q", v) + tail, (rng.choice(counters),))
    # exhaustive 5-byte forms over a stripe in thorough
    if tier == "thorough":
        for v in range(0, 1 << 20):
            lines.append(P("len.%d" % n, "scan_len", b"\xfe" + struct.pack("<I", v * 4093 % (1 << 32)), 0))
            n += 1
    # truncated wide forms and wide forms followed by bytes
    for first, w in ((0xFD, 2), (0xFE, 4), (0xFF, 8)):
        for k in range(0, w + 3):
            for fill in (0x00, 0xFF, 0x01):
                add(bytes([first]) + bytes([fill]) * k, (0, 5))
    for fpath in sorted(glob.glob(os.path.join(os.path.dirname(os.path.dirname(os.path.abspath(__file__))), "corpus", "*.case"))):
        for ln in open(fpath):
            f = ln.strip().split(" ")
            if f[0] == "P" and len(f) >= 6 and f[2] in ("parse_len", "scan_len"):
                lines.append("P len.c%d %s %s %s %s" % (len(lines), f[2], f[3], f[4], f[5]))
    return lines


# ---------------------------------------------------------------- S_num
def stream_num(tier, seed):
    rng = rng_for(seed, "num")
    lines = []
    n = 0

    def add(entry, b, param=0):
        nonlocal n
        lines.append(P("num.%d" % n, entry, b, param))
        n += 1
    suffixes = [b"", b"\x00", b"\xff\x01"]
    for v in range(256):
        for s in suffixes:
            add("u8", bytes([v]) + s)
            add("read_u8", bytes([v]) + s)
    step16 = 1
    for v in range(0, 65536, step16):
        s = suffixes[v % 3]
        add("u16", struct.pack("<H", v) + s)
        if v % 7 == 0:
            add("read_u16", struct.pack("<H", v) + s)
    vals32 = set()
    vals64 = set()
    for base in btc.BOUNDARY_VALUES + [0x7FFFFFFF, 0x80000000, 0x01020304, 0xFCFDFEFF]:
        for d in (-1, 0, 1):
            v = base + d
            if 0 <= v < (1 << 32):
                vals32.add(v)
            if 0 <= v < (1 << 64):
                vals64.add(v)
    for v in mined_values():
        vals64.add(v)
        if v < (1 << 32):
            vals32.add(v)
    nr = 3000 if tier == "quick" else 300000
    for _ in range(nr):
        vals32.add(rng.randrange(1 << 32))
        vals64.add(rng.randrange(1 << rng.choice([16, 32, 33, 63, 64])))
    for v in sorted(vals32):
        s = rng.choice(suffixes)
        add("u32", struct.pack("<I", v) + s)
        add("i32", struct.pack("<I", v) + s)
        add("read_u32", struct.pack("<I", v) + s)
        add("read_i32", struct.pack("<I", v) + s)
    for v in sorted(vals64):
        s = rng.choice(suffixes)
        add("u64", struct.pack("<Q", v) + s)
        add("read_u64", struct.pack("<Q", v) + s)
    # trailing bytes as long as, and longer than, the value itself (a remainder computed from the wrong end or
    # by chunking shows only then)
    for entry, w in (("u8", 1), ("u16", 2), ("u32", 4), ("i32", 4), ("u64", 8),
                     ("read_u8", 1), ("read_u16", 2), ("read_u32", 4), ("read_i32", 4), ("read_u64", 8)):
        for k in range(12):
            val = btc.rand_bytes(rng, w)
            for extra in sorted(set(list(range(1, 10)) + [w - 1, w, w + 1, 2 * w, 2 * w + 1, 3 * w + 2])):
                if extra > 0:
                    add(entry, val + bytes(range(0x41, 0x41 + extra)))
    # shorter-than-width inputs
    for entry, w in (("u8", 1), ("u16", 2), ("u32", 4), ("i32", 4), ("u64", 8),
                     ("read_u8", 1), ("read_u16", 2), ("read_u32", 4), ("read_i32", 4), ("read_u64", 8)):
        for k in range(w):
            add(entry, bytes([0xFF]) * k)
            add(entry, bytes(range(1, k + 1)))
    # read_slice
    for ln in range(0, 6):
        for want in [0, 1, 2, 3, 5, 6, 7, 1 << 32, (1 << 63), btc.U64MAX]:
            add("read_slice", bytes(range(ln)), want)
    for fpath in sorted(glob.glob(os.path.join(os.path.dirname(os.path.dirname(os.path.abspath(__file__))), "corpus", "*.case"))):
        for ln in open(fpath):
            f = ln.strip().split(" ")
            if f[0] == "P" and len(f) >= 6 and f[2] in ("u8", "u16", "u32", "i32", "u64", "read_u8", "read_u16", "read_u32", "read_i32", "read_u64", "read_slice"):
                lines.append("P num.c%d %s %s %s %s" % (len(lines), f[2], f[3], f[4], f[5]))
    return lines


# ---------------------------------------------------------------- S_small (G1 exhaustive-small)
GEN_HEADER = bytes.fromhex("0100000000000000000000000000000000000000000000000000000000000000000000003ba3edfd7a7b12b27ac72c3e67768f617fc81bc3888a51323a9fb8aa4b1e5e4a29ab5f49ffff001d1dac2b7c")


def small_strings(tier):
    out = [b""]
    for a in range(256):
        out.append(bytes([a]))
    maxlen = 4 if tier == "quick" else 5
    for ln in range(2, maxlen + 1):
        for t in itertools.product(ALPHA12, repeat=ln):
            out.append(bytes(t))
    return out


def stream_small(tier, seed):
    lines = []
    n = 0
    strs = small_strings(tier)
    two = [bytes([a, b]) for a in range(256) for b in (0, 1, 2, 0xFC, 0xFD, 0xFE, 0xFF, 0x51)]
    for entry in BSL_ENTRIES:
        for s in strs + (two if entry in ("script", "witness", "txins", "txouts", "witnesses") else []):
            if entry == "block":
                b = GEN_HEADER + s
            elif entry == "header":
                if len(s) > 2:
                    continue
                b = GEN_HEADER[:80 - len(s)] + s if len(s) else GEN_HEADER
            elif entry == "transaction":
                b = b"\x02\x00\x00\x00" + s
            elif entry == "txin":
                b = bytes(range(36)) + s
            elif entry == "txout":
                b = bytes(range(8)) + s
            elif entry == "outpoint":
                if len(s) > 2:
                    continue
                b = bytes(range(36 - len(s))) + s + (b"\x07" if len(s) == 2 else b"")
            else:
                b = s
            params = [0]
            if entry == "witnesses":
                params = [0, 1, 2, 3] if len(s) <= 3 else [2]
                if len(s) <= 2:
                    params += [255, btc.U64MAX]
            for p in params:
                lines.append(P("sm.%d" % n, entry, b, p))
                n += 1
                if entry in VISIT_ENTRIES and len(s) <= 3:
                    lines.append(P("sm.%d" % n, entry, b, p, 0))
                    n += 1
    return lines


# ---------------------------------------------------------------- S_struct (G2 + G3 + G4)
def cut_points(rng, b, fields, tier):
    L = len(b)
    if L <= (96 if tier == "quick" else 400):
        return list(range(L))
    pts = set([0, 1, L - 1, L - 2, L - 4, L - 5])
    for (_, off, w) in fields:
        for d in (-1, 0, 1):
            pts.add(off + d)
            pts.add(off + w + d)
    pts = [p for p in pts if 0 <= p < L]
    rng.shuffle(pts)
    cap = 40 if tier == "quick" else 200
    pts = pts[:cap]
    pts += [rng.randrange(L) for _ in range(6)]
    return sorted(set(pts))


def mutate(rng, b, fields, nmut):
    """single-defect mutants of an encoding"""
    out = []
    csf = [f for f in fields if f[0].startswith("cs:")]
    fixed = [f for f in fields if not f[0].startswith("cs:")]
    kinds = []
    for f in csf:
        kinds.append(("widen", f))
        kinds.append(("boundary", f))
    for f in fields:
        if f[0] in ("marker", "flag"):
            kinds.append(("flag", f))
    kinds.append(("flip", None))
    kinds.append(("blank_witness", None))
    kinds.append(("drop_locktime", None))
    rng.shuffle(kinds)
    for kind, f in kinds[:nmut]:
        if kind == "widen":
            _, off, w = f
            v = decode_cs(b[off:off + w])
            forms = [x for x in btc.cs_forms(v) if len(x) > w]
            if not forms:
                continue
            out.append(("widen:" + f[0], b[:off] + rng.choice(forms) + b[off + w:]))
        elif kind == "boundary":
            _, off, w = f
            v = rng.choice(btc.BOUNDARY_VALUES)
            out.append(("boundary:" + f[0], b[:off] + btc.cs(v) + b[off + w:]))
        elif kind == "flag":
            _, off, w = f
            out.append(("flag", b[:off] + bytes([rng.choice([0, 2, 0xFF, 0x80])]) + b[off + w:]))
        elif kind == "flip" and len(b):
            p = rng.randrange(len(b))
            out.append(("flip", b[:p] + bytes([b[p] ^ (1 << rng.randrange(8))]) + b[p + 1:]))
        elif kind == "blank_witness":
            wl = [f for f in fields if f[0] == "cs:nwit"]
            if wl:
                # replace every witness by an empty one: cut from first nwit to locktime
                start = wl[0][1]
                lt = [f for f in fields if f[0] == "locktime" and f[1] > start]
                if lt:
                    end = lt[0][1]
                    out.append(("blank_witness", b[:start] + b"\x00" * len([1 for f in wl if f[1] < end]) + b[end:]))
        elif kind == "drop_locktime" and len(b) >= 4:
            out.append(("drop_locktime", b[:-rng.randrange(1, 5)]))
    return out


def decode_cs(b):
    if b[0] < 0xFD:
        return b[0]
    if b[0] == 0xFD:
        return struct.unpack("<H", b[1:3])[0]
    if b[0] == 0xFE:
        return struct.unpack("<I", b[1:5])[0]
    return struct.unpack("<Q", b[1:9])[0]


def stream_struct(tier, seed):
    rng = rng_for(seed, "struct")
    lines = []
    meta = {}
    g = 0
    quick = tier == "quick"

    def group(entry, b, fields, nbrk, param=0, tag="", prefixes=True, exts=True, maxbrk=None, big=False):
        nonlocal g
        gid = "g%d" % g
        g += 1
        meta[gid] = {"entry": entry, "tag": tag, "len": len(b)}
        lines.append(P(gid + ".full", entry, b, param))
        if exts:
            for k in range(2 if not big else 1):
                sfx = btc.rand_bytes(rng, rng.choice([1, 2, 5])) if k == 0 else b"\x00" * rng.choice([1, 4, 9])
                lines.append(P("%s.x%d" % (gid, k), entry, b + sfx, param))
            if len(b) < 1500:
                # a long extension: a decision that peeks at how many bytes follow shows up here
                lines.append(P("%s.x2" % gid, entry, b + b"\x5a" * 600, param))
        if prefixes:
            pts = cut_points(rng, b, fields, tier) if not big else [len(b) - 1, len(b) - 4, max(0, len(b) - 70000), 3]
            for j in pts:
                lines.append(P("%s.p%d" % (gid, j), entry, b[:j], param))
        if entry in VISIT_ENTRIES and prefixes and not big:
            # a Break on a truncated input: the Break must still win over the later "input ended"
            cuts = sorted(set([min(len(b), x) for x in (80, 81, 84)] + [off + w for (_, off, w) in fields[:40]]))
            rng.shuffle(cuts)
            for j in sorted(cuts[:5]):
                for i in (0, 1, 2):
                    lines.append(P("%s.q%d_%d" % (gid, j, i), entry, b[:j], param, i))
        if entry in VISIT_ENTRIES:
            cap = maxbrk if maxbrk is not None else (24 if quick else 120)
            idx = list(range(nbrk + 1))
            if len(idx) > cap:
                idx = sorted(set(idx[:max(1, cap // 2)] + idx[-2:] + rng.sample(idx, max(0, min(len(idx), cap // 2 - 2)))))
            for i in idx:
                lines.append(P("%s.b%d" % (gid, i), entry, b, param, i))
        return gid

    def nbreak_tx(tx):
        return len(tx["ins"]) + len(tx["outs"]) + (len(tx["ins"]) if tx["segwit"] else 0) + 1

    scale = 1 if quick else 8
    # transactions
    for k in range(150 * scale):
        tx = btc.rand_tx(rng)
        b, fields = btc.tx_bytes(tx)
        group("transaction", b, fields, nbreak_tx(tx), tag="valid")
        for why, m in mutate(rng, b, fields, 3 if quick else 8):
            group("transaction", m, fields, nbreak_tx(tx), tag="mut:" + why, prefixes=(k % 4 == 0), maxbrk=6)
    # marker followed by every kind of flag byte, on a complete body and on every truncation of it
    # (an unknown flag must win over any later defect)
    for flag in (0, 2, 3, 5, 0x81, 0xFF):
        tx = btc.rand_tx(rng, segwit=True, nin=rng.choice([1, 2]), nout=1)
        if flag in (3, 0x81):
            tx["wits"] = [[] for _ in tx["ins"]]
        b, fields = btc.tx_bytes(tx)
        off = [f for f in fields if f[0] == "flag"][0][1]
        m = b[:off] + bytes([flag]) + b[off + 1:]
        group("transaction", m, fields, nbreak_tx(tx), tag="flag%d" % flag, maxbrk=4)
        m2 = m[:60] + b"\xfd\x01\x00" + m[61:] if len(m) > 70 else m
        group("transaction", m2, [], nbreak_tx(tx), tag="flag%d+nonmin" % flag, prefixes=False, maxbrk=2)
    # degenerate shapes: zero-input segwit, zero-output, many empties
    for nin, nout, sw in [(0, 0, True), (0, 1, True), (1, 0, False), (1, 0, True), (2, 2, True), (3, 0, True)]:
        for _ in range(2 * scale):
            tx = btc.rand_tx(rng, segwit=sw, nin=nin, nout=nout)
            b, fields = btc.tx_bytes(tx)
            group("transaction", b, fields, nbreak_tx(tx), tag="degenerate")
    # segwit with all-empty witnesses (invalid by rule) and cut before lock time
    for _ in range(6 * scale):
        tx = btc.rand_tx(rng, segwit=True, nin=rng.choice([1, 2, 3]))
        tx["wits"] = [[] for _ in tx["ins"]]
        b, fields = btc.tx_bytes(tx)
        group("transaction", b, fields, nbreak_tx(tx), tag="nowit")
    # many inputs / outputs (compact-size boundary of the counts)
    for nin, nout in ([(253, 1), (1, 253), (252, 2), (1, 254), (2, 300), (254, 1)] if quick else [(253, 1), (1, 253), (252, 252), (300, 300), (1, 700), (1, 254), (254, 1)]):
        tx = btc.rand_tx(rng, nin=nin, nout=nout)
        for i in tx["ins"]:
            i["sig"] = i["sig"][:3]
        for o in tx["outs"]:
            o["spk"] = o["spk"][:3]
        if tx["segwit"]:
            tx["wits"] = [[b"\x01"]] + [[] for _ in range(nin - 1)]
        b, fields = btc.tx_bytes(tx)
        group("transaction", b, fields, nbreak_tx(tx), tag="many", maxbrk=10)
    # big scripts / witness elements across 65535/65536
    for k in range(3 if quick else 12):
        tx = btc.rand_tx(rng, nin=1, nout=1, big=True, segwit=(k % 2 == 0))
        b, fields = btc.tx_bytes(tx)
        group("transaction", b, fields, nbreak_tx(tx), tag="big", big=True, maxbrk=4)
    # blocks
    for k in range(40 * scale):
        blk = btc.rand_block(rng)
        b, fields = btc.block_bytes(blk)
        nb = 1 + sum(nbreak_tx(t) for t in blk["txs"])
        group("block", b, fields, nb, tag="valid")
        for why, m in mutate(rng, b, fields, 3 if quick else 8):
            group("block", m, fields, nb, tag="mut:" + why, prefixes=(k % 4 == 0), maxbrk=6)
    # degenerate objects: every field zero (amount 0, empty script, null id, index 0, sequence 0, version 0, lock
    # time 0), alone, repeated, and at the head / in the middle / at the tail of otherwise ordinary lists.  Random
    # field bytes never produce them, and "the rest is all zero bytes" is exactly what a padding or end-of-data
    # heuristic mistakes for nothing
    zin = {"txid": bytes(32), "vout": 0, "sig": b"", "seq": 0}
    zout = {"value": 0, "spk": b""}
    nin_ = {"txid": bytes([7]) * 32, "vout": 3, "sig": b"\x51", "seq": 0xFFFFFFFE}
    nout_ = {"value": 546, "spk": b"\x51"}
    for outs in ([zout], [zout, zout], [zout] * 3, [nout_, zout], [nout_, zout, zout], [zout, nout_], [zout, nout_, zout], [zout, zout, nout_], [zout] * 253):
        b, f = btc.obj_bytes("txouts", list(outs))
        group("txouts", b, f, len(outs), tag="zero", maxbrk=3)
    for ins in ([zin], [zin, zin], [nin_, zin], [zin, nin_], [nin_, zin, zin], [zin] * 253):
        b, f = btc.obj_bytes("txins", list(ins))
        group("txins", b, f, len(ins), tag="zero", maxbrk=3)
    group("txout", btc.obj_bytes("txout", zout)[0], [], 0, tag="zero")
    group("txin", btc.obj_bytes("txin", zin)[0], [], 0, tag="zero")
    group("outpoint", bytes(36), [], 0, tag="zero")
    group("script", b"\x00", [], 0, tag="zero")
    group("header", bytes(80), [], 1, tag="zero")
    for wit in ([], [b""], [b"", b""], [b"\x00"], [b"\x01", b""], [b"", b"\x01"]):
        b, f = btc.obj_bytes("witness", list(wit))
        group("witness", b, f, 0, tag="zero")
    ztxs = []
    for segwit, ins, outs, wits in ((False, [zin], [zout], []), (False, [zin], [], []), (False, [zin, zin], [zout, zout], []),
                                    (True, [zin], [zout], [[b"\x00"]]), (True, [zin, zin], [zout, zout], [[], [b""]]),
                                    (True, [], [zout], []), (True, [], [], []), (False, [nin_], [nout_, zout, zout], [])):
        tx = {"version": 0, "ins": list(ins), "outs": list(outs), "segwit": segwit, "wits": list(wits), "locktime": 0}
        tb, tf = btc.tx_bytes(tx)
        group("transaction", tb, tf, nbreak_tx(tx), tag="zero", maxbrk=4)
        ztxs.append(tx)
    for txs in ([], ztxs[:1], ztxs[:3], ztxs):
        blk = {"header": {"version": 0, "prev": bytes(32), "merkle": bytes(32), "time": 0, "bits": 0, "nonce": 0}, "txs": list(txs)}
        try:
            bb, bf = btc.block_bytes(blk)
        except KeyError:
            break
        group("block", bb, bf, 1 + sum(nbreak_tx(t) for t in txs), tag="zero", maxbrk=4)
    # the other degenerate extreme: every field at its maximum / every byte 0xff, and lists of identical elements
    # (a de-duplication or "same as the previous one" shortcut)
    fin = {"txid": b"\xff" * 32, "vout": 0xFFFFFFFF, "sig": b"\xff\xff", "seq": 0xFFFFFFFF}
    fout = {"value": btc.U64MAX, "spk": b"\xff" * 3}
    for outs in ([fout], [fout] * 3, [nout_] * 4, [nout_, fout, nout_, fout], [zout, fout, zout]):
        b, f = btc.obj_bytes("txouts", list(outs))
        group("txouts", b, f, len(outs), tag="ones", maxbrk=3)
    for ins in ([fin], [fin] * 3, [nin_] * 4, [zin, fin, zin]):
        b, f = btc.obj_bytes("txins", list(ins))
        group("txins", b, f, len(ins), tag="ones", maxbrk=3)
    for segwit, ins, outs, wits in ((False, [fin], [fout], []), (True, [fin, fin], [fout, fout], [[b"\xff"], [b"\xff"]]),
                                    (True, [nin_] * 3, [nout_] * 3, [[b"\x01"], [b"\x01"], [b"\x01"]])):
        tx = {"version": -1, "ins": list(ins), "outs": list(outs), "segwit": segwit, "wits": list(wits), "locktime": 0xFFFFFFFF}
        tb, tf = btc.tx_bytes(tx)
        group("transaction", tb, tf, nbreak_tx(tx), tag="ones", maxbrk=4)
        blk = {"header": {"version": -1, "prev": b"\xff" * 32, "merkle": b"\xff" * 32, "time": 0xFFFFFFFF, "bits": 0xFFFFFFFF, "nonce": 0xFFFFFFFF}, "txs": [tx, dict(tx), dict(tx)]}
        bb, bf = btc.block_bytes(blk)
        group("block", bb, bf, 1 + 3 * nbreak_tx(tx), tag="ones", maxbrk=4)
    group("header", b"\xff" * 80, [], 1, tag="ones")
    group("outpoint", b"\xff" * 36, [], 0, tag="ones")
    # every byte value as the FIRST byte of a script, of a script sig, and of the first / last element of a witness
    # stack (a rule keyed on an opcode or tag byte: 0x50 annex, 0x6a OP_RETURN, 0x00 / 0x51 witness versions ...)
    for bv in range(256):
        tx = btc.rand_tx(rng, nin=1, nout=1, segwit=True)
        tx["outs"][0]["spk"] = bytes([bv, 0x14]) + btc.rand_bytes(rng, 3)
        tx["ins"][0]["sig"] = bytes([bv]) + btc.rand_bytes(rng, 2)
        tx["wits"] = [[bytes([bv, 0x01]), b"\xaa", bytes([bv])]]
        tb, tf = btc.tx_bytes(tx)
        group("transaction", tb, tf, nbreak_tx(tx), tag="firstbyte", prefixes=False, exts=False, maxbrk=1)
        wb, wf = btc.obj_bytes("witness", [b"\xaa\xbb", bytes([bv, 0x02, 0x03])])
        group("witness", wb, wf, 0, tag="firstbyte", prefixes=False, exts=False)
    # blocks made of the smallest transactions the format allows (12-byte zero-input segwit, 51-byte one-input legacy
    # without outputs): any estimate of "how many transactions can fit" is wrong for them
    tiny_sw = {"version": 2, "ins": [], "outs": [], "segwit": True, "wits": [], "locktime": 0}
    tiny_lg = btc.rand_tx(rng, nin=1, nout=0, segwit=False)
    tiny_lg["ins"][0]["sig"] = b""
    for ntx, kind in [(1, "sw"), (3, "sw"), (7, "sw"), (40, "sw"), (1, "lg"), (2, "lg"), (9, "lg"), (5, "mix")]:
        txs = [dict(tiny_sw) if (kind == "sw" or (kind == "mix" and j % 2)) else dict(tiny_lg) for j in range(ntx)]
        blk = {"header": btc.rand_header(rng), "txs": txs}
        bb, bf = btc.block_bytes(blk)
        group("block", bb, bf, 1 + sum(nbreak_tx(t) for t in txs), tag="tinytx", maxbrk=4)
    # defect at depth: bad varint inside the third output of the second transaction
    for k in range(6 * scale):
        blk = btc.rand_block(rng, ntx=3)
        blk["txs"][1] = btc.rand_tx(rng, nin=2, nout=4)
        f = btc.Fields()
        btc.enc_block(f, blk)
        b = bytes(f.buf)
        spk = [x for x in f.fields if x[0] == "cs:spklen"]
        first_tx1 = len(blk["txs"][0]["outs"])
        _, off, w = spk[first_tx1 + 2]
        v = decode_cs(b[off:off + w])
        forms = [x for x in btc.cs_forms(v) if len(x) > w]
        m = b[:off] + forms[k % len(forms)] + b[off + w:]
        group("block", m, f.fields, 1 + sum(nbreak_tx(t) for t in blk["txs"]), tag="depth", maxbrk=8)
    # sub-objects
    for k in range(30 * scale):
        tx = btc.rand_tx(rng)
        for kind, obj, nb in (("txins", tx["ins"], len(tx["ins"])), ("txouts", tx["outs"], len(tx["outs"]))):
            b, fields = btc.obj_bytes(kind, obj)
            group(kind, b, fields, nb, tag="valid")
            for why, m in mutate(rng, b, fields, 2):
                group(kind, m, fields, nb, tag="mut:" + why, prefixes=False, maxbrk=4)
        if tx["ins"]:
            b, fields = btc.obj_bytes("txin", tx["ins"][0])
            group("txin", b, fields, 0, tag="valid")
            for why, m in mutate(rng, b, fields, 2):
                group("txin", m, fields, 0, tag="mut:" + why, prefixes=False)
        if tx["outs"]:
            b, fields = btc.obj_bytes("txout", tx["outs"][0])
            group("txout", b, fields, 0, tag="valid")
            for why, m in mutate(rng, b, fields, 2):
                group("txout", m, fields, 0, tag="mut:" + why, prefixes=False)
            sb = btc.cs(len(tx["outs"][0]["spk"])) + tx["outs"][0]["spk"]
            group("script", sb, [("cs:spklen", 0, len(btc.cs(len(tx["outs"][0]["spk"]))))], 0, tag="valid")
        w = btc.rand_witness(rng, rng.choice(["empty", "normal", "normal", "empty_elems"]))
        b, fields = btc.obj_bytes("witness", w)
        group("witness", b, fields, 0, tag="valid")
        for why, m in mutate(rng, b, fields, 2):
            group("witness", m, fields, 0, tag="mut:" + why, prefixes=False)
        # Witnesses(n): n witnesses back to back, parsed with n, n-1, n+1 and huge n
        nw = rng.choice([0, 1, 2, 3])
        ws = [btc.rand_witness(rng, rng.choice(["empty", "normal", "empty_elems"])) for _ in range(nw)]
        f = btc.Fields()
        for w_ in ws:
            btc.enc_witness(f, w_)
        b = bytes(f.buf)
        for cnt in sorted(set([nw, max(0, nw - 1), nw + 1, 255, btc.U64MAX])):
            group("witnesses", b, f.fields, nw, param=cnt, tag="valid" if cnt == nw else "count", prefixes=(cnt == nw), maxbrk=6)
        hdr = btc.rand_header(rng)
        b, fields = btc.obj_bytes("header", hdr)
        if k % 3 == 0:
            group("header", b, fields, 1, tag="valid")
        op = btc.rand_bytes(rng, 36)
        if k % 3 == 0:
            group("outpoint", op, [("txid", 0, 32), ("vout", 32, 4)], 0, tag="valid")
    # wide compact sizes with their full payload present: every (minimal and non-minimal) form of the
    # boundary lengths, as script length, witness element length and element count
    for ln in (252, 253, 65535, 65536):
        payload = btc.rand_bytes(rng, ln)
        for form in btc.cs_forms(ln):
            group("script", form + payload + b"\x99", [], 0, tag="wide", big=(ln > 1000), prefixes=(ln < 1000))
            group("txout", bytes(range(1, 9)) + form + payload, [], 0, tag="wide", big=(ln > 1000), prefixes=False)
            group("witness", b"\x02\x01\xaa" + form + payload, [], 0, tag="wide", big=(ln > 1000), prefixes=False)
    for shape in ([65536, 3], [2, 65535], [1, 65536, 2], [0, 65537]):
        w = [btc.rand_bytes(rng, n_) for n_ in shape]
        b, fields = btc.obj_bytes("witness", w)
        group("witness", b, fields, 0, tag="bigwit", big=True)
        tx = btc.rand_tx(rng, segwit=True, nin=2, nout=1)
        tx["wits"] = [[b"\x01\x02"], w]
        tb, tf = btc.tx_bytes(tx)
        group("transaction", tb, tf, nbreak_tx(tx), tag="bigwit", big=True, maxbrk=6)
        wb = bytes(btc.obj_bytes("witness", [b"\x05"])[0]) + b
        group("witnesses", wb, [], 2, param=2, tag="bigwit", big=True, maxbrk=3)
        blk = {"header": btc.rand_header(rng), "txs": [btc.rand_tx(rng, nin=1, nout=1), tx, btc.rand_tx(rng, nin=1, nout=1)]}
        bb, bf = btc.block_bytes(blk)
        group("block", bb, bf, 12, tag="bigwit", big=True, maxbrk=3)
    # valid lists at the 65535/65536 count boundary: implementation side judged by the independent
    # reference decoder only (id prefix "ro": the list-based Coq model is quadratic on such counts)
    for cnt in ((65535, 65536) if quick else (65534, 65535, 65536, 65537)):
        outs = [{"value": (7 * k + 1) % (1 << 40), "spk": b""} for k in range(cnt)]
        b, _ = btc.obj_bytes("txouts", outs)
        gid = "ro%d" % cnt
        meta[gid] = {"entry": "txouts", "tag": "bigcount", "len": len(b)}
        lines.append(P(gid + ".full", "txouts", b + b"\x77"))
        lines.append(P("%s.p%d" % (gid, len(b) - 1), "txouts", b[:-1]))
    # G5: a real 1.38 MB mainnet block (bitcoin-test-data crate, in the cargo registry), implementation +
    # reference decoder + rust-bitcoin only
    for path in glob.glob(os.path.expanduser("~/.cargo/registry/src/*/bitcoin-test-data-*/test_data/mainnet_block_*.raw"))[:1]:
        data = open(path, "rb").read()
        meta["robig"] = {"entry": "block", "tag": "mainnet", "len": len(data)}
        lines.append(P("robig.full", "block", data))
        lines.append(P("robig.b777", "block", data, 0, 777))
        lines.append(P("robig.p%d" % (len(data) - 3), "block", data[:-3]))
    # mined numbers too large for the model side (70 000 < v <= 8 000 000), as TOTAL INPUT LENGTH of a block with
    # trailing bytes, of a block made of one large transaction, and of a transaction: implementation + reference
    # decoder only (id prefix "ro")
    budget = (80 if quick else 300) * 1000000
    # limits that live in the libraries the crate talks to, not in its own source: rust-bitcoin's decoder refuses
    # vectors above 4 000 000 bytes, legacy blocks were 1 000 000 bytes
    library_limits = [4000000, 1000000]
    for v in library_limits:
        for slen in (v - 14, v):
            ob = struct.pack("<Q", 0x0102030405060708 % (1 << 64)) + btc.cs(slen) + bytes([0x6a]) * slen
            gid = "rotxo%d_%d" % (v, slen)
            meta[gid] = {"entry": "txout", "tag": "librarylimit", "len": len(ob)}
            lines.append(P(gid + ".full", "txout", ob + b"\x07"))
            budget -= len(ob)
    for v in sorted(set(mined_values(limit=8000000)) | set(library_limits), reverse=True):
        if v <= 70000 or 3 * v > budget:
            continue
        budget -= 3 * v
        blk = btc.rand_block(rng, ntx=2)
        bb, _ = btc.block_bytes(blk)
        gid = "rolen%d" % v
        meta[gid] = {"entry": "block", "tag": "mined:hugetotal", "len": v}
        lines.append(P(gid + ".full", "block", bb + bytes([0x6b]) * (v - len(bb))))
        tx = btc.rand_tx(rng, nin=1, nout=1, segwit=(v % 2 == 0))
        tx["outs"][0]["spk"] = b""
        base = len(btc.tx_bytes(tx)[0])
        for extra in (0, 2, 4):
            tx["outs"][0]["spk"] = bytes([0x51]) * (v - base - extra)
            tb, _ = btc.tx_bytes(tx)
            if len(tb) == v:
                gid = "rotx%d" % v
                meta[gid] = {"entry": "transaction", "tag": "mined:hugetotal", "len": v}
                lines.append(P(gid + ".full", "transaction", tb + b"\x01\x02\x03"))
                blk1 = {"header": btc.rand_header(rng), "txs": [tx]}
                b1, _ = btc.block_bytes(blk1)
                gid = "roblk%d" % v
                meta[gid] = {"entry": "block", "tag": "mined:hugetotal", "len": len(b1)}
                lines.append(P(gid + ".full", "block", b1 + b"\x09"))
                break
    # mined numbers between the model's reach and 70 000 as ELEMENT COUNTS of well-formed lists and blocks
    # (implementation + reference decoder only)
    cbudget = (12 if quick else 60) * 1000000
    for v in sorted(mined_values(limit=70000), reverse=True):
        if v <= (300 if quick else 1200) or 120 * v > cbudget:
            continue
        cbudget -= 120 * v
        outs = [{"value": (k * 7 + v) % 1000, "spk": b""} for k in range(v)]
        bb = btc.obj_bytes("txouts", outs)[0]
        gid = "rocnt%d" % v
        meta[gid + "o"] = {"entry": "txouts", "tag": "mined:hugecount", "len": len(bb)}
        lines.append(P(gid + "o.full", "txouts", bb + b"\x33"))
        ins = [{"txid": bytes([k % 251]) * 32, "vout": k, "sig": b"", "seq": k} for k in range(v)]
        bb = btc.obj_bytes("txins", ins)[0]
        meta[gid + "i"] = {"entry": "txins", "tag": "mined:hugecount", "len": len(bb)}
        lines.append(P(gid + "i.full", "txins", bb))
        tx = {"version": 1, "ins": [{"txid": bytes(32), "vout": 0, "sig": b"", "seq": 0}], "outs": [], "segwit": False, "wits": [], "locktime": 0}
        tb = btc.tx_bytes(tx)[0]
        hb = btc.obj_bytes("header", btc.rand_header(rng))[0]
        bb = hb + btc.cs(v) + tb * v
        meta[gid + "b"] = {"entry": "block", "tag": "mined:hugecount", "len": len(bb)}
        lines.append(P(gid + "b.full", "block", bb + b"\x01"))
        lines.append(P(gid + "w.full", "witnesses", bytes(v - 1) + b"\x01\x00" + b"\x55", v))
        meta[gid + "w"] = {"entry": "witnesses", "tag": "mined:hugecount", "len": v + 2}
    # outpoints: boundary indices with null / non-null ids (coinbase-looking shapes)
    for vout in (0, 1, 255, 256, 0x7FFFFFFF, 0x80000000, 0xFFFFFFFE, 0xFFFFFFFF):
        for txid in (bytes(32), btc.rand_bytes(rng, 32), b"\xff" * 32):
            op = txid + struct.pack("<I", vout)
            group("outpoint", op, [("txid", 0, 32), ("vout", 32, 4)], 0, tag="opboundary", prefixes=False)
            group("txin", op + b"\x00" + struct.pack("<I", 0xFFFFFFFF), [], 0, tag="opboundary", prefixes=False)
    # numbers mined from the current source (see mined_values): as payload length, element count, total
    # input length, output index, amount, version / lock time / sequence
    mined = mined_values()
    nbig = 0
    for v in mined:
        if v <= 70000 and (v <= 1500 or nbig < (16 if quick else 40)):
            isbig = v > 1500
            nbig += isbig
            payload = btc.rand_bytes(rng, v)
            group("script", btc.cs(v) + payload + b"\x31", [], 0, tag="mined:len", big=isbig, prefixes=not isbig)
            group("txout", struct.pack("<Q", v) + btc.cs(v) + payload, [], 0, tag="mined:len", big=isbig, prefixes=False)
            group("witness", b"\x01" + btc.cs(v) + payload, [], 0, tag="mined:len", big=isbig, prefixes=False)
            if v >= 12:
                # total input length exactly v
                outs = [{"value": v, "spk": b""}, {"value": 1, "spk": b""}]
                base = len(btc.obj_bytes("txouts", outs)[0])
                pad = v - base
                if pad >= 0:
                    for extra in (0, 1, 2, 3):
                        outs[1]["spk"] = bytes(max(0, pad - extra))
                        bb = btc.obj_bytes("txouts", outs)[0]
                        if len(bb) == v:
                            group("txouts", bb, [], 2, tag="mined:total", big=isbig, prefixes=False, maxbrk=2)
                            break
            if v >= 70:
                tx = btc.rand_tx(rng, nin=1, nout=1, segwit=(v % 2 == 0))
                tx["outs"][0]["spk"] = b""
                base = len(btc.tx_bytes(tx)[0])
                for extra in (0, 1, 2, 3):
                    tx["outs"][0]["spk"] = bytes(max(0, v - base - extra))
                    tb, tf = btc.tx_bytes(tx)
                    if len(tb) == v:
                        group("transaction", tb, tf, nbreak_tx(tx), tag="mined:total", big=isbig, prefixes=False, maxbrk=3)
                        break
        if v <= (300 if quick else 1200):
            outs = [{"value": (k * 3 + v) % 50, "spk": b""} for k in range(v)]
            group("txouts", btc.obj_bytes("txouts", outs)[0], [], v, tag="mined:count", prefixes=False, maxbrk=2)
            ins = [{"txid": bytes([k % 251]) * 32, "vout": k, "sig": b"", "seq": k} for k in range(v)]
            group("txins", btc.obj_bytes("txins", ins)[0], [], v, tag="mined:count", prefixes=False, maxbrk=2)
            group("witness", btc.cs(v) + bytes(v), [], 0, tag="mined:count", prefixes=False)
            group("witnesses", bytes(v) + b"\x01\x07", [], v, param=v, tag="mined:count", prefixes=False, maxbrk=2)
            group("witnesses", bytes(v) + b"\x01\x01\x07", [], v + 1, param=v + 1, tag="mined:count", prefixes=False, maxbrk=2)
            if 1 <= v <= 120:
                blk = btc.rand_block(rng, ntx=v)
                bb, bf = btc.block_bytes(blk)
                group("block", bb, bf, 1 + sum(nbreak_tx(t) for t in blk["txs"]), tag="mined:count", prefixes=False, maxbrk=3)
        if v < (1 << 32):
            op = btc.rand_bytes(rng, 32) + struct.pack("<I", v)
            group("outpoint", op, [], 0, tag="mined:val", prefixes=False, exts=False)
            tx = btc.rand_tx(rng, nin=1, nout=1)
            tx["version"] = v if v < (1 << 31) else v - (1 << 32)
            tx["locktime"] = v
            tx["ins"][0]["seq"] = v
            tx["ins"][0]["vout"] = v
            tx["outs"][0]["value"] = v
            tb, tf = btc.tx_bytes(tx)
            group("transaction", tb, tf, nbreak_tx(tx), tag="mined:val", prefixes=False, exts=False, maxbrk=2)
        group("txout", struct.pack("<Q", v) + b"\x01\x51", [], 0, tag="mined:val", prefixes=False, exts=False)
    # script lengths across the boundaries, and huge declared lengths
    for ln in [0, 1, 252, 253, 254, 255, 256, 65535, 65536]:
        sb = btc.cs(ln) + btc.rand_bytes(rng, ln)
        group("script", sb, [("cs:spklen", 0, len(btc.cs(ln)))], 0, tag="boundary", big=(ln > 1000))
    for v in btc.BOUNDARY_VALUES:
        if v > 70000:
            for entry in ("script", "txout", "txouts", "txins", "witness", "witnesses", "block", "transaction"):
                pre = {"txout": bytes(8), "block": GEN_HEADER, "transaction": b"\x01\x00\x00\x00"}.get(entry, b"")
                group(entry, pre + btc.cs(v) + b"\x01\x02\x03", [], 1, param=(v if entry == "witnesses" else 0), tag="hugecount", maxbrk=2)
    # G4: fuzz corpus of the repository
    corpus_map = {"block": "block", "block_header": "header", "out_point": "outpoint", "script": "script",
                  "transaction": "transaction", "tx_in": "txin", "tx_ins": "txins", "tx_out": "txout", "tx_outs": "txouts",
                  "witness": "witness", "witnesses": "witnesses"}
    for d, entry in sorted(corpus_map.items()):
        files = sorted(glob.glob(os.path.join(os.environ.get("VERIF_REPO", "/repo"), "fuzz/corpus/%s/*" % d)))
        if quick:
            files = [f for i, f in enumerate(files) if i % 2 == 0]
        for fpath in files:
            try:
                data = open(fpath, "rb").read()
            except OSError:
                continue
            if len(data) > 20000:
                continue
            param = 0
            if entry == "witnesses":
                if not data:
                    continue
                param, data = data[0], data[1:]
            group(entry, data, [], 3, param=param, tag="corpus", prefixes=(len(data) <= 64), maxbrk=4)
    corp = sorted(glob.glob(os.path.join(os.path.dirname(os.path.dirname(os.path.abspath(__file__))), "corpus", "*.case")))
    for fpath in corp:
        for ln in open(fpath):
            ln = ln.strip()
            if ln.startswith("P "):
                parts = ln.split()
                if parts[2] not in BSL_ENTRIES:
                    continue
                group(parts[2], bytes.fromhex(parts[3]) if parts[3] != "-" else b"", [], 3, param=int(parts[4]), tag="regress", maxbrk=4)
                if int(parts[5]) >= 0:
                    lines.append("P g%d.b%s %s %s %s %s" % (g - 1, parts[5], parts[2], parts[3], parts[4], parts[5]))
    # transactions with a script of 2^30 bytes (thorough: also 2^32): weight, preimage length and consumed length where
    # 32-bit intermediate arithmetic would wrap (implementation only, scripted and judged inside the harness)
    lines.append("B robigtx30 30")
    if not quick:
        lines.append("B robigtx32 32")
    return lines, meta


# ---------------------------------------------------------------- S_cache
def stream_cache(tier, seed):
    """H1: exhaustive operation sequences on small capacities (every size 0..cap+1, fresh /
    present / evicted keys), H2: random long histories."""
    rng = rng_for(seed, "cache")
    lines = []
    n = 0
    counter = [0]

    def val(sz):
        counter[0] += 1
        c = counter[0]
        return bytes(((c * 37 + i * 11 + 1) % 255) + 1 for i in range(sz))

    def emit(cap, ops):
        nonlocal n
        lines.append("K k%d %d %s" % (n, cap, " ".join(ops)))
        n += 1
    # H1: all insertion size sequences up to a depth, sizes 0..cap+1, fresh keys, followed by probes
    maxcap = 4 if tier == "quick" else 5
    for cap in range(0, maxcap + 1):
        sizes = list(range(0, cap + 2))
        depth = {0: 4, 1: 6, 2: 6, 3: 5, 4: 5, 5: 5}[cap] if tier == "quick" else {0: 5, 1: 8, 2: 7, 3: 7, 4: 6, 5: 6}[cap]
        for seq in itertools.product(sizes, repeat=depth):
            counter[0] = 0
            ops = []
            for k, sz in enumerate(seq):
                ops.append("i:%d:%s" % (k, hx(val(sz))))
            emit(cap, ops)
    # key reuse patterns: present key, evicted key re-inserted, oversized value, on top of every short prefix
    for cap in range(0, maxcap + 1):
        sizes = list(range(0, cap + 2))
        for seq in itertools.product(sizes, repeat=3):
            for reuse in range(0, 3):
                for sz2 in sizes:
                    counter[0] = 0
                    ops = ["i:%d:%s" % (k, hx(val(sz))) for k, sz in enumerate(seq)]
                    ops += ["c:%d" % reuse, "i:%d:%s" % (reuse, hx(val(sz2))), "g:%d" % reuse, "l", "f", "i:9:%s" % hx(val(min(1, cap)))]
                    emit(cap, ops)
    # H2: random long histories
    nh = 300 if tier == "quick" else 6000
    for _ in range(nh):
        cap = rng.choice([1, 2, 3, 5, 8, 10, 16, 33, 64])
        nops = rng.randrange(20, 120 if tier == "quick" else 400)
        allow_empty = rng.random() < 0.3
        ops = []
        nextkey = 0
        used = []
        counter[0] = rng.randrange(1000)
        for _ in range(nops):
            r = rng.random()
            if r < 0.62:
                if used and rng.random() < 0.3:
                    k = rng.choice(used)
                else:
                    k = nextkey
                    nextkey += 1
                    used.append(k)
                sz = rng.choice([cap, cap, cap // 2, (cap + 1) // 2, 1, 1, 2, 3, cap + 1, max(1, cap - 1), rng.randrange(1, cap + 1)])
                if allow_empty and rng.random() < 0.15:
                    sz = 0
                if not allow_empty and sz == 0:
                    sz = 1
                ops.append("i:%d:%s" % (k, hx(val(sz))))
            elif r < 0.8 and used:
                ops.append("g:%d" % rng.choice(used))
            elif r < 0.9 and used:
                ops.append("c:%d" % rng.choice(used))
            elif r < 0.95:
                ops.append("l")
            else:
                ops.append("f")
        emit(cap, ops)
    # H5: long histories (hundreds of insertions, dozens of laps, keys re-used after eviction): bookkeeping that is
    # narrower than usize or degrades with the number of operations
    for cap in (3, 8, 16):
        for nins in ((300, 700) if tier == "quick" else (300, 700, 70000 // cap)):
            counter[0] = 0
            pool = [1, 2, 3, 1, 1, 2, cap // 2 + 1]
            ops = []
            for j in range(nins):
                ops.append("i:%d:%s" % (j % 41, hx(val(pool[j % len(pool)]))))
                if j % 97 == 0:
                    ops += ["l", "f"]
            emit(cap, ops)
    # H6: sparse histories (id prefix "ks": the harness does NOT look every key up after every step, only the
    # operations of the history run): lookups with side effects (a "last hit" memo, move-to-front, lazy repair) are
    # perturbed by the exhaustive observation of the other histories.  Pattern: fill, look a key up, evict it without
    # touching its bytes (a wrap that abandons the tail), insert it again with other bytes, look it up again;
    # plus random histories with many lookups
    def emit_sparse(cap, ops):
        nonlocal n
        lines.append("K ks%d %d %s" % (n, cap, " ".join(ops)))
        n += 1
    for cap in (6, 8, 10, 12):
        for a in range(1, cap):
            for b in range(1, cap - a + 1):
                for c3 in (1, 2, cap // 2, cap - 1):
                    counter[0] = 0
                    ops = ["i:1:%s" % hx(val(a)), "i:2:%s" % hx(val(b)), "i:3:%s" % hx(val(max(1, cap - a - b))), "g:2", "g:2",
                           "i:4:%s" % hx(val(c3)), "g:2", "i:2:%s" % hx(val(min(cap, b + 2))), "g:2", "c:2", "g:1", "g:3", "g:4", "l", "f"]
                    emit_sparse(cap, ops)
    for _ in range(400 if tier == "quick" else 8000):
        cap = rng.choice([4, 6, 8, 10, 16])
        counter[0] = rng.randrange(1000)
        ops = []
        for j in range(rng.randrange(10, 60)):
            k = rng.randrange(0, 7)
            r = rng.random()
            if r < 0.5:
                ops.append("i:%d:%s" % (k, hx(val(rng.choice([1, 2, 3, cap // 2, cap // 2 + 1, cap - 1])))))
            elif r < 0.9:
                ops.append("g:%d" % k)
            else:
                ops.append(rng.choice(["c:%d" % k, "l", "f"]))
        emit_sparse(cap, ops)
    # H4: content and key extremes: the same bytes stored under different keys (a cache must not de-duplicate by
    # content), values of zero bytes (what the fresh buffer holds), values equal to what they overwrite, keys 0,
    # 2^63 and 2^64 - 1
    for cap in (4, 7, 10):
        for content in (b"\x00", b"\xff", b"\x41"):
            for sz in (1, 2, 3, cap // 2 + 1):
                v = content * sz
                keys = [0, 1, (1 << 63), (1 << 64) - 1, 5, 6, 7, 8, 9, 10]
                ops = []
                for k in keys:
                    ops.append("i:%d:%s" % (k, hx(v)))
                    ops.append("g:%d" % k)
                ops += ["g:0", "g:%d" % ((1 << 64) - 1), "c:1", "l", "f", "i:0:%s" % hx(v), "g:0"]
                emit(cap, ops)
    # H3: many laps around the ring with fresh keys and no empty values (the situations the ring-layout invariant
    # is about: a wrap with survivors in the tail, a value larger than half the buffer arriving after small ones,
    # an insertion ending exactly where the oldest entry begins, co-prime sizes drifting around the ring)
    for cap in range(5, 11):
        for a in range(1, cap + 1):
            for b in range(1, cap + 1):
                counter[0] = 0
                seq = []
                tot = 0
                while tot < 2 * cap + a:
                    seq.append(a)
                    tot += a
                seq += [b, a, b]
                emit(cap, ["i:%d:%s" % (k, hx(val(sz))) for k, sz in enumerate(seq)])
    for cap in range(5, 11):
        for s1, s2 in ((1, 1), (1, 2), (2, 1), (3, 1), (1, 3), (2, 3), (3, 3)):
            for fill in range(cap, 2 * cap + 1):
                for big in range(cap // 2 + 1, cap + 1):
                    counter[0] = 0
                    seq = []
                    tot = 0
                    while tot < fill:
                        seq.append(s1 if len(seq) % 2 == 0 else s2)
                        tot += seq[-1]
                    seq += [big, 1]
                    emit(cap, ["i:%d:%s" % (k, hx(val(sz))) for k, sz in enumerate(seq)])
    for _ in range(600 if tier == "quick" else 12000):
        cap = rng.choice([5, 6, 7, 8, 9, 10, 11, 12, 13, 16])
        pool = rng.choice([[1, 2, 3], [1, 1, 2, cap // 2 + 1], [2, 3, cap - 1], [1, 2, 3, cap // 2, cap // 2 + 1, cap], [1, 3, 4], [1, cap]])
        counter[0] = rng.randrange(1000)
        seq = [rng.choice(pool) for _ in range(rng.randrange(12, 45))]
        ops = ["i:%d:%s" % (k, hx(val(max(1, sz)))) for k, sz in enumerate(seq)]
        emit(cap, ops)
    # typed lookups: encoded transactions (valid, with trailing bytes, truncated, mutated) stored and read
    # back through get_value::<Transaction>, across evictions and wrap-arounds
    for _ in range(120 if tier == "quick" else 2000):
        txs = []
        for _k in range(rng.randrange(2, 7)):
            tx = btc.rand_tx(rng, nin=rng.choice([0, 1, 1, 2]), nout=rng.choice([0, 1, 2]), segwit=rng.choice([True, False, None]))
            tb, tf = btc.tx_bytes(tx)
            r = rng.random()
            if r < 0.15:
                tb = tb + btc.rand_bytes(rng, rng.choice([1, 3]))
            elif r < 0.3:
                tb = tb[:rng.randrange(1, len(tb))]
            elif r < 0.4:
                ms = mutate(rng, tb, tf, 1)
                if ms:
                    tb = ms[0][1]
            txs.append(tb)
        tot = sum(len(t) for t in txs)
        cap = rng.choice([tot, max(len(t) for t in txs), tot // 2 + 1, tot + 7, max(len(t) for t in txs) * 2])
        ops = []
        for k, tb in enumerate(txs):
            ops += ["i:%d:%s" % (k, hx(tb)), "v:%d" % k]
            if k:
                ops.append("v:%d" % rng.randrange(0, k))
        ops += ["v:%d" % k for k in range(len(txs))] + ["v:99", "l", "f"]
        emit(cap, ops)
    # numbers mined from the current source as capacity, value size, number of entries and key
    for v in mined_values(limit=(5000 if tier == "quick" else 70000)):
        if v < 1:
            continue
        for cap, szs in ((v, [v, v - 1, 1, v // 2, v + 1, (v + 1) // 2]), (2 * v + 1, [v, v + 1, v - 1, 1]), (v + 3, [v, 1, 2, 3])):
            szs = [x for x in szs if x >= 1]
            counter[0] = rng.randrange(1000)
            ops = []
            for k in range(8):
                ops.append("i:%d:%s" % (k, hx(val(szs[k % len(szs)]))))
                if k % 3 == 2:
                    ops += ["g:%d" % (k - 2), "c:%d" % k, "l", "f"]
            ops += ["i:%d:%s" % (v, hx(val(szs[0]))), "g:%d" % v, "i:0:%s" % hx(val(1)), "l", "f"]
            emit(cap, ops)
        if v <= 64:
            # v entries of one byte in a cache of v, v+1 and 2v bytes, then one more
            for cap in (v, v + 1, 2 * v):
                counter[0] = rng.randrange(1000)
                ops = ["i:%d:%s" % (k, hx(val(1))) for k in range(v)] + ["l", "f", "i:%d:%s" % (v, hx(val(1))), "l", "f", "g:0", "g:1", "g:%d" % v]
                emit(cap, ops)
    # a cache of 2^32 + 4096 bytes filled past the 32-bit range (implementation only: about 4.2 GB resident for two or
    # three seconds; the scenario is scripted and judged inside the harness)
    lines.append("B robig4g")
    # regression corpus (minimised past findings and seeded changes)
    for fpath in sorted(glob.glob(os.path.join(os.path.dirname(os.path.dirname(os.path.abspath(__file__))), "corpus", "*.case"))):
        for ln in open(fpath):
            f = ln.strip().split(" ")
            if f[0] == "K" and len(f) >= 3:
                emit(int(f[2]), [o for o in f[3:] if o])
    return lines


# ---------------------------------------------------------------- S_order / S_redb
def stream_order(tier, seed):
    rng = rng_for(seed, "order")
    lines = []
    pts = []
    base = btc.rand_bytes(rng, 36)
    pts.append(base)
    for pos in range(36):
        for d in (1, 0x80, 0xFF):
            m = bytearray(base)
            m[pos] = (m[pos] + d) % 256
            pts.append(bytes(m))
    for _ in range(20 if tier == "quick" else 200):
        pts.append(btc.rand_bytes(rng, 36))
    pts += [bytes(36), b"\xff" * 36, bytes(35) + b"\x01", b"\x01" + bytes(35), b"\x7f" * 36, b"\x80" * 36]
    n = 0
    pairs = [(a, b) for a in pts[:40] for b in pts[:40]] + [(rng.choice(pts), rng.choice(pts)) for _ in range(3000 if tier == "quick" else 60000)]
    pairs += [(a, base) for a in pts] + [(base, a) for a in pts]
    # unequal lengths too (compare is defined on arbitrary byte strings)
    pairs += [(base[:k], base) for k in range(0, 36, 5)] + [(base, base[:k]) for k in range(0, 36, 5)]
    for a, b in pairs:
        lines.append("O o%d %s %s" % (n, hx(a), hx(b)))
        n += 1
    return lines


def stream_redb(tier, seed):
    rng = rng_for(seed, "redb")
    lines = []
    n = 0
    cnt = 10 if tier == "quick" else 200
    for _ in range(cnt):
        tx = btc.rand_tx(rng)
        b, _ = btc.tx_bytes(tx)
        lines.append("D d%d transaction %s" % (n, hx(b))); n += 1
        b, _ = btc.obj_bytes("txouts", tx["outs"])
        lines.append("D d%d txouts %s" % (n, hx(b))); n += 1
        if tx["outs"]:
            b, _ = btc.obj_bytes("txout", tx["outs"][0])
            lines.append("D d%d txout %s" % (n, hx(b))); n += 1
        lines.append("D d%d outpoint %s" % (n, hx(btc.rand_bytes(rng, 36)))); n += 1
    return lines


def stream_find(tier, seed):
    """C19: blocks searched for a transaction id with the crate's own visitor.  Ids: the txid of every transaction
    (first of duplicates), and ids that are NOT in the block although they are hashes of its data or near misses:
    wtxids, the merkle root, the block hash, present ids with one bit flipped, the reversed id, a random id.
    Also blocks cut short (the search runs on a prefix: found before the cut, or MoreBytesNeeded) and blocks
    containing the same transaction twice."""
    import hashlib

    def dsha(b):
        return hashlib.sha256(hashlib.sha256(b).digest()).digest()
    rng = rng_for(seed, "find")
    lines = []
    n = 0
    nblocks = 60 if tier == "quick" else 600
    for k in range(nblocks):
        blk = btc.rand_block(rng, ntx=rng.choice([0, 1, 2, 3, 3, 4, 5, 8]))
        if blk["txs"] and rng.random() < 0.3:
            # the same transaction twice (duplicate ids: the first must be returned), possibly not adjacent
            j = rng.randrange(len(blk["txs"]))
            blk["txs"].insert(rng.randrange(len(blk["txs"]) + 1), dict(blk["txs"][j]))
        b, _ = btc.block_bytes(blk)
        ids = []
        for t in blk["txs"]:
            tid = dsha(btc.tx_stripped(t))
            tb, _ = btc.tx_bytes(t)
            ids.append(tid)
            ids.append(dsha(tb))                                   # wtxid (equal to the txid for legacy)
            for pos in (0, 20, 31):
                m = bytearray(tid); m[pos] ^= 1 << rng.randrange(8); ids.append(bytes(m))
            ids.append(tid[::-1])
        ids.append(dsha(b[:80]))
        ids.append(b[36:68])
        ids.append(btc.rand_bytes(rng, 32))
        ids.append(bytes(32))
        seen = set()
        for i in ids:
            if i in seen:
                continue
            seen.add(i)
            lines.append("F f%d %s %s" % (n, hx(b), hx(i))); n += 1
        # the block followed by junk, and cut at a few places (also inside / right after a matching transaction)
        if blk["txs"]:
            tid = dsha(btc.tx_stripped(rng.choice(blk["txs"])))
            lines.append("F f%d %s %s" % (n, hx(b + btc.rand_bytes(rng, 3)), hx(tid))); n += 1
            cuts = sorted(set([80, 81, len(b) - 1, len(b) - 4] + [rng.randrange(80, len(b)) for _ in range(6)]))
            for c in cuts:
                if 0 <= c < len(b):
                    lines.append("F f%d %s %s" % (n, hx(b[:c]), hx(tid))); n += 1
    return lines
