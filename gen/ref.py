"""Independent streaming reference decoder of the wire format (Python).
It reads strictly left to right with one primitive (`take`), so the error it
reports is by construction the first defect in byte order.  It is the oracle
that judges the implementation's own output (accept/reject, consumed, error,
callback sequence, preimage, weight) independently of the Coq model; it is
not part of any proof."""
import struct

MORE = (1,)
NONMIN = (4,)
NOWIT = (3,)


class Fail(Exception):
    def __init__(self, code):
        self.code = code


class R:
    def __init__(self, b, base=0):
        self.b = b
        self.p = 0
        self.ev = []

    def take(self, n):
        if n > len(self.b) - self.p:
            raise Fail(MORE)
        s = self.p
        self.p += n
        return s

    def u(self, n):
        s = self.take(n)
        return int.from_bytes(self.b[s:s + n], "little")

    def cs(self):
        x = self.u(1)
        if x < 0xFD:
            return x
        if x == 0xFD:
            v = self.u(2)
            if v < 0xFD:
                raise Fail(NONMIN)
            return v
        if x == 0xFE:
            v = self.u(4)
            if v <= 0xFFFF:
                raise Fail(NONMIN)
            return v
        v = self.u(8)
        if v <= 0xFFFFFFFF:
            raise Fail(NONMIN)
        return v


def d_script(r):
    s = r.p
    n = r.cs()
    d = r.take(n)
    return (s, r.p - s, d, n)


def d_txin(r, i, emit=True):
    s = r.p
    t = r.take(36)
    _, _, d, n = d_script(r)
    seq = r.u(4)
    vout = int.from_bytes(r.b[t + 32:t + 36], "little")
    if emit:
        r.ev.append((3, i, s, r.p - s, t, 36, t, 32, vout, d, n, seq))
    return s


def d_txout(r, i, emit=True):
    s = r.p
    v = r.u(8)
    _, _, d, n = d_script(r)
    if emit:
        r.ev.append((5, i, s, r.p - s, v, d, n))
    return (s, r.p - s, v, d, n)


def d_txins(r):
    s = r.p
    n = r.cs()
    r.ev.append((2, n))
    for i in range(n):
        d_txin(r, i)
    return n, s, r.p - s


def d_txouts(r):
    s = r.p
    n = r.cs()
    r.ev.append((4, n))
    for i in range(n):
        d_txout(r, i)
    return n, s, r.p - s


def d_witness(r):
    s = r.p
    n = r.cs()
    r.ev.append((7, n))
    for i in range(n):
        ln = r.cs()
        d = r.take(ln)
        r.ev.append((8, i, d, ln))
    return n == 0 and True or (r.b[s] == 0)


def d_witnesses(r, total):
    all_empty = True
    for i in range(total):
        r.ev.append((6, i))
        s = r.p
        d_witness(r)
        r.ev.append((9,))
        if r.b[s] != 0:
            all_empty = False
    return all_empty


def d_tx(r):
    s = r.p
    ver = r.u(4)
    nin, ins_s, ins_l = d_txins(r)
    segwit = False
    if nin == 0:
        flag = r.u(1)
        if flag != 1:
            raise Fail((2, flag))
        segwit = True
        nin, ins_s, ins_l = d_txins(r)
        nout, outs_s, outs_l = d_txouts(r)
        all_empty = d_witnesses(r, nin)
        if nin > 0 and all_empty:
            raise Fail(NOWIT)
    else:
        nout, outs_s, outs_l = d_txouts(r)
    lt = r.u(4)
    total = r.p - s
    if segwit:
        io = ins_l + outs_l
        pre = [(s, 4), (s + 6, io), (s + total - 4, 4)]
        weight = (io + 8) * 3 + total
    else:
        pre = [(s, total), (0, 0), (0, 0)]
        weight = total * 4
    pre = [(0, 0) if l == 0 else (o, l) for (o, l) in pre]
    r.ev.append((10, s, total, ver, lt, pre[0][0], pre[0][1], pre[1][0], pre[1][1], pre[2][0], pre[2][1], weight))
    return {"w": (s, total), "version": ver, "locktime": lt, "pre": pre, "weight": weight, "segwit": segwit}


def d_header(r):
    s = r.take(80)
    b = r.b
    ver = int.from_bytes(b[s:s + 4], "little")
    time = int.from_bytes(b[s + 68:s + 72], "little")
    nonce = int.from_bytes(b[s + 76:s + 80], "little")
    r.ev.append((0, s, 80, ver, s + 4, 32, s + 36, 32, time, nonce))
    return {"version": ver, "time": time, "nonce": nonce}


def d_block(r):
    d_header(r)
    n = r.cs()
    r.ev.append((1, n))
    for _ in range(n):
        d_tx(r)
    return n


BREAKABLE = {0, 3, 5, 6, 10}


def run(entry, b, param=0):
    """returns dict(ok, consumed, err, events) of a never-breaking visit"""
    r = R(b)
    try:
        info = None
        if entry == "script":
            d_script(r)
        elif entry == "outpoint":
            r.take(36)
        elif entry == "txin":
            d_txin(r, 0, emit=False)
        elif entry == "txout":
            d_txout(r, 0, emit=False)
        elif entry == "txins":
            d_txins(r)
        elif entry == "txouts":
            d_txouts(r)
        elif entry == "witness":
            d_witness(r)
        elif entry == "witnesses":
            d_witnesses(r, param)
        elif entry == "transaction":
            info = d_tx(r)
        elif entry == "header":
            info = d_header(r)
        elif entry == "block":
            d_block(r)
        else:
            raise ValueError(entry)
        return {"ok": True, "consumed": r.p, "err": None, "events": r.ev, "info": info}
    except Fail as f:
        return {"ok": False, "consumed": None, "err": f.code, "events": r.ev, "info": None}


def ev_token(e):
    """canonical token value of a reference event (same layout as the harness / model)"""
    k = e[0]
    if k == 0:
        return "0,%d,%d,%d,%d,%d,%d,%d,%d,%d" % e[1:]
    if k == 3:
        return "3,%d,%d,%d,%d,%d,%d,%d,%d,%d,%d,%d" % e[1:]
    if k == 5:
        return "5,%d,%d,%d,%d,%d,%d" % e[1:]
    if k == 8:
        return "8,%d,%d,%d" % e[1:]
    if k == 10:
        return "10,%d,%d,%d,%d,%d,%d,%d,%d,%d,%d,%d" % e[1:]
    return ",".join(str(x) for x in e)


def with_break(res, i):
    """expected outcome of the policy 'break at the i-th breakable callback' given the never-breaking run"""
    n = 0
    for idx, e in enumerate(res["events"]):
        if e[0] in BREAKABLE:
            if n == i:
                return {"ok": False, "consumed": None, "err": (5,), "events": res["events"][:idx + 1]}
            n += 1
    return res


def block_transactions(b):
    """(list of (transaction bytes, witness-stripped bytes) in block order, as far as the block decodes,
    'ok' or 'err') — from the transaction events of a never-breaking decode"""
    r = run("block", b)
    out = []
    for e in r["events"]:
        if e[0] == 10:
            s, total = e[1], e[2]
            pre = b"".join(b[o:o + l] for (o, l) in ((e[5], e[6]), (e[7], e[8]), (e[9], e[10])))
            out.append((b[s:s + total], pre))
    return out, ("ok" if r["ok"] else "err")
