"""Build steps, stream execution with caching, output parsing."""
import fcntl
import hashlib
import json
import os
import subprocess
import sys
import time
import glob
from concurrent.futures import ThreadPoolExecutor

ROOT = os.path.dirname(os.path.dirname(os.path.abspath(__file__)))
REPO = os.environ.get("VERIF_REPO", "/repo")
BUILD = os.path.join(ROOT, ".build")
COQ = os.path.join(ROOT, "coq")
NPROC = 16
SHARD_MEM_KB = 6 * 1024 * 1024


def log(*a):
    print(*a, file=sys.stderr, flush=True)


def sha(data):
    return hashlib.sha256(data).hexdigest()


def sha_files(paths):
    h = hashlib.sha256()
    for p in sorted(paths):
        h.update(p.encode())
        with open(p, "rb") as f:
            h.update(f.read())
    return h.hexdigest()


class Lock:
    def __init__(self, name):
        os.makedirs(BUILD, exist_ok=True)
        self.path = os.path.join(BUILD, name + ".lock")

    def __enter__(self):
        self.f = open(self.path, "w")
        fcntl.flock(self.f, fcntl.LOCK_EX)
        return self

    def __exit__(self, *a):
        fcntl.flock(self.f, fcntl.LOCK_UN)
        self.f.close()


def coq_sources():
    out = []
    for d, _, fs in os.walk(COQ):
        for f in fs:
            if f.endswith(".v"):
                out.append(os.path.join(d, f))
    return out + [os.path.join(COQ, "_CoqProject")]


def build_coq():
    """full .vo build of the development (make -k: independent files still build when one fails).
    Returns {hash, rc, log}."""
    with Lock("coq"):
        h = sha_files(coq_sources())
        stamp = os.path.join(BUILD, "coq.stamp.json")
        if os.path.exists(stamp):
            st = json.load(open(stamp))
            if st.get("hash") == h and all(os.path.exists(os.path.join(COQ, v)) for v in st.get("vos", [])):
                return st
        t0 = time.time()
        subprocess.run("coq_makefile -f _CoqProject -o Makefile > /dev/null", shell=True, cwd=COQ, check=True)
        p = subprocess.run("timeout 3400 make -k -j%d 2>&1" % NPROC, shell=True, cwd=COQ, capture_output=True, text=True)
        vos = []
        for line in open(os.path.join(COQ, "_CoqProject")):
            line = line.strip()
            if line.endswith(".v") and os.path.exists(os.path.join(COQ, line + "o")):
                src = os.path.join(COQ, line)
                vo = os.path.join(COQ, line + "o")
                if os.path.getmtime(vo) >= os.path.getmtime(src):
                    vos.append(line + "o")
        st = {"hash": h, "rc": p.returncode, "vos": vos, "log": p.stdout[-20000:], "wall_s": round(time.time() - t0, 1)}
        json.dump(st, open(stamp, "w"))
        return st


def build_model(coq_state):
    """extraction (ExtrOcamlBasic only) + ocamlopt of the driver"""
    with Lock("ocaml"):
        d = os.path.join(BUILD, "ocaml")
        os.makedirs(d, exist_ok=True)
        key = sha((coq_state["hash"] + sha_files([os.path.join(ROOT, "ocaml/driver.ml")])).encode())
        stamp = os.path.join(d, "stamp")
        exe = os.path.join(d, "bsmodel")
        if os.path.exists(stamp) and open(stamp).read() == key and os.path.exists(exe):
            return exe
        if "Impl/Render.vo" not in coq_state["vos"]:
            raise SystemExit("tooling failure: the executable model (Impl/Render.v) does not compile:\n" + coq_state["log"][-3000:])
        cmds = [
            "coqc -Q %s BS %s/Extract/Extract.v > extract.log 2>&1" % (COQ, COQ),
            "cp %s/ocaml/driver.ml ." % ROOT,
            "ocamlfind ocamlopt -O3 -w -a model.mli model.ml driver.ml -o bsmodel > ocaml.log 2>&1",
        ]
        for c in cmds:
            p = subprocess.run(c, shell=True, cwd=d)
            if p.returncode != 0:
                raise SystemExit("tooling failure: %s failed (see %s)" % (c, d))
        for junk in glob.glob(os.path.join(COQ, "Extract", "Extract.vo*")) + glob.glob(os.path.join(COQ, "Extract", "*.glob")) + glob.glob(os.path.join(COQ, "Extract", ".*.aux")):
            os.remove(junk)
        open(stamp, "w").write(key)
        return exe


class HarnessBuildError(Exception):
    """the correspondence harness does not compile against the current source"""


def build_harness(release=False):
    """rebuild the harness against /repo's current working tree (path dependency), hooks on.
    release=True: the same harness in the release profile (no overflow checks, no debug assertions, opt-level 3)"""
    rel = " --release" if release else ""
    with Lock("cargo"):
        env = dict(os.environ)
        env["CARGO_TARGET_DIR"] = os.path.join(BUILD, "cargo")
        env["CARGO_NET_OFFLINE"] = "true"
        env["RUSTFLAGS"] = "--cfg bitcoin_slices_verif"
        hdir = os.path.join(ROOT, "harness")
        if REPO != "/repo":
            # checks run against another checkout (scratch worktree): same harness, path dependency redirected
            alt = os.path.join(BUILD, "harness_alt")
            subprocess.run("rm -rf %s && mkdir -p %s && cp -r %s/src %s/Cargo.lock %s/.cargo %s/" % (alt, alt, hdir, hdir, hdir, alt), shell=True, check=True)
            toml = open(os.path.join(hdir, "Cargo.toml")).read().replace('path = "/repo"', 'path = "%s"' % REPO)
            open(os.path.join(alt, "Cargo.toml"), "w").write(toml)
            hdir = alt
        p = subprocess.run("cargo build --offline%s 2>&1" % rel, shell=True, cwd=hdir, env=env, capture_output=True, text=True)
        hook = True
        if p.returncode != 0 and "verif_layout" in p.stdout:
            # the optional layout hook no longer compiles: fall back to API-only comparison
            env["RUSTFLAGS"] = ""
            p = subprocess.run("cargo build --offline%s 2>&1" % rel, shell=True, cwd=hdir, env=env, capture_output=True, text=True)
            hook = False
        if p.returncode != 0:
            log(p.stdout[-6000:])
            # is it the crate itself that does not build (not our business: exit 2), or only the harness against it?
            q = subprocess.run("cargo build --offline --features slice_cache,bitcoin,bitcoin_hashes,sha2,redb 2>&1", shell=True, cwd=REPO,
                               env=dict(env, CARGO_TARGET_DIR=os.path.join(BUILD, "cargo-crate")), capture_output=True, text=True)
            if q.returncode != 0:
                log("tooling failure: the crate itself does not build:\n" + q.stdout[-3000:])
                raise SystemExit(2)
            errs = [ln for ln in p.stdout.splitlines() if ln.startswith("error")]
            raise HarnessBuildError("\n".join(errs[:6]) or p.stdout[-1500:])
        exe = os.path.join(BUILD, "cargo", "release" if release else "debug", "bsharness")
        # copy so that a concurrent rebuild cannot swap the binary under a running check
        return exe, hook


def _run_shard(args):
    """one shard; when the harness reports a case that did not come back (exit status 98, last line
    `<id> res=3 x_timeout=1`) the shard is restarted after that case, at most three times"""
    exe, lines, timeout = args
    out = []
    rest = lines
    for attempt in range(4):
        o, rc = _run_shard_once((exe, rest, timeout))
        out += o
        if rc != 98 or not o:
            return out, rc
        last = o[-1].split(" ", 1)[0]
        idx = None
        for i, ln in enumerate(rest):
            f = ln.split(" ", 2)
            if len(f) > 1 and f[1] == last:
                idx = i
                break
        if idx is None or idx + 1 >= len(rest):
            return out, 0
        rest = rest[idx + 1:]
    return out, 98


def _run_shard_once(args):
    exe, lines, timeout = args
    try:
        # address-space cap per shard: a runaway implementation (unbounded callbacks / allocation) must fail its own
        # shard (reported as an abort), not take the whole check down with it
        p = subprocess.run("ulimit -s unlimited 2>/dev/null; ulimit -v %d 2>/dev/null; exec %s" % (SHARD_MEM_KB, exe), shell=True, input="\n".join(lines) + "\n",
                           capture_output=True, text=True, timeout=timeout, env=dict(os.environ, VERIF_TMP=os.path.join(BUILD, "tmp")))
        return p.stdout.splitlines(), p.returncode
    except subprocess.TimeoutExpired as e:
        out = e.stdout.decode() if isinstance(e.stdout, bytes) else (e.stdout or "")
        return out.splitlines(), -9


def run_lines(exe, lines, tag, timeout=1500):
    """run an executable over the case lines (sharded), cached by content + binary hash"""
    os.makedirs(os.path.join(BUILD, "cache"), exist_ok=True)
    key = sha(("\n".join(lines)).encode()) + "-" + sha_files([exe])[:16]
    cpath = os.path.join(BUILD, "cache", "%s-%s.out" % (tag, sha(key.encode())[:24]))
    if os.path.exists(cpath):
        return open(cpath).read().splitlines(), 0
    with Lock("run-" + tag):
        if os.path.exists(cpath):
            return open(cpath).read().splitlines(), 0
        n = len(lines)
        nsh = min(NPROC, max(1, n // 50))
        shards = [lines[i * n // nsh:(i + 1) * n // nsh] for i in range(nsh)]
        with ThreadPoolExecutor(nsh) as ex:
            res = list(ex.map(_run_shard, [(exe, s, timeout) for s in shards]))
        out = []
        bad = 0
        for o, rc in res:
            out += o
            if rc != 0:
                bad = rc
        if bad == 0:
            tmp = cpath + ".tmp%d" % os.getpid()
            open(tmp, "w").write("\n".join(out) + "\n")
            os.replace(tmp, cpath)
            _prune_cache()
        return out, bad


CACHE_MAX_BYTES = 8 * 1024 ** 3


def _prune_cache():
    """keep the output cache bounded (outputs are keyed by binary hash: every changed tree adds a new set)"""
    d = os.path.join(BUILD, "cache")
    try:
        ents = []
        for fn in os.listdir(d):
            st = os.stat(os.path.join(d, fn))
            ents.append((st.st_mtime, st.st_size, fn))
        total = sum(e[1] for e in ents)
        if total <= CACHE_MAX_BYTES:
            return
        for mt, sz, fn in sorted(ents):
            if total <= CACHE_MAX_BYTES * 2 // 3:
                break
            try:
                os.remove(os.path.join(d, fn))
                total -= sz
            except OSError:
                pass
    except OSError:
        pass


def _toks(rest):
    toks = []
    for t in rest.split(" "):
        if not t:
            continue
        k, _, v = t.partition("=")
        toks.append((k, v))
    return toks


class LazyOut:
    """id -> list of (tag, value-string), parsed on demand from the raw output line: one string per case is kept
    (a parsed thorough-tier stream is tens of gigabytes of tuples)"""
    __slots__ = ("raw",)

    def __init__(self, lines=()):
        self.raw = {}
        for ln in lines:
            i = ln.find(" ")
            if i < 0:
                self.raw[ln] = ""
            else:
                self.raw[ln[:i]] = ln[i + 1:]

    def get(self, k, default=None):
        r = self.raw.get(k)
        if r is None:
            return default
        return _toks(r)

    def __contains__(self, k):
        return k in self.raw

    def __len__(self):
        return len(self.raw)

    def keys(self):
        return self.raw.keys()


class Joined:
    """lookup over several LazyOut maps (first hit wins)"""

    def __init__(self, maps):
        self.maps = list(maps)

    def get(self, k, default=None):
        for m in self.maps:
            if k in m:
                return m.get(k)
        return default


def parse_out(lines):
    """id -> list of (tag, value-string), lazily"""
    return LazyOut(lines)


def case_ids(lines):
    return [ln.split(" ", 2)[1] for ln in lines]


def first(toks, tag, default=None):
    for k, v in toks:
        if k == tag:
            return v
    return default


def allv(toks, tag):
    return [v for k, v in toks if k == tag]


def canon_pre(nums):
    """canonical form of a three-part txid preimage given as [a_off, a_len, b_off, b_len, c_off, c_len]:
    empty parts dropped, adjacent contiguous parts merged, padded back to three windows.  The properties
    speak about the concatenation (C10) and about the callbacks (C04), not about how the accessor splits it."""
    segs = []
    for i in (0, 2, 4):
        o, l = nums[i], nums[i + 1]
        if l == 0:
            continue
        if segs and segs[-1][0] + segs[-1][1] == o:
            segs[-1] = (segs[-1][0], segs[-1][1] + l)
        else:
            segs.append((o, l))
    while len(segs) < 3:
        segs.append((0, 0))
    return [x for sg in segs for x in sg]


def canon_ev(v):
    """event token with the preimage windows of a transaction callback canonicalised"""
    if v.startswith("10,"):
        p = v.split(",")
        if len(p) == 12:
            try:
                c = canon_pre([int(x) for x in p[5:11]])
            except ValueError:
                return v
            return ",".join(p[:5] + [str(x) for x in c] + p[11:])
    return v
