"""Fingerprints of the crate's functions (non-test code), to say in the evidence which modelled functions have
changed since the model was written.  Informational only: a changed fingerprint is never an alarm."""
import hashlib
import json
import os
import re

from .core import ROOT, REPO

LOCK = os.path.join(ROOT, "srcmap.lock.json")


def _strip(src):
    src = re.sub(r"//[^\n]*", "", src)
    src = re.sub(r"/\*.*?\*/", "", src, flags=re.S)
    return src


def functions(repo=None):
    """{ 'file::context::fn name' : sha256 of the whitespace-normalised body }"""
    repo = repo or REPO
    out = {}
    for d, _, fs in os.walk(os.path.join(repo, "src")):
        for f in sorted(fs):
            if not f.endswith(".rs"):
                continue
            path = os.path.join(d, f)
            rel = os.path.relpath(path, repo)
            try:
                src = open(path, errors="replace").read()
            except OSError:
                continue
            cut = re.search(r"#\[cfg\(test\)\]\s*(pub\s+)?mod\s+\w+", src)
            if cut:
                src = src[:cut.start()]
            src = _strip(src)
            # context: the innermost enclosing `impl ... {` header
            ctx_stack = []
            depth = 0
            i = 0
            n = len(src)
            pending = None
            tokens = re.compile(r"\bimpl\b[^{;]*\{|\bfn\s+(\w+)[^{;]*\{|\{|\}")
            for m in tokens.finditer(src):
                t = m.group(0)
                if t == "}":
                    depth -= 1
                    while ctx_stack and ctx_stack[-1][1] > depth:
                        ctx_stack.pop()
                    continue
                depth += 1
                if t.startswith("impl"):
                    hdr = re.sub(r"\s+", " ", t[:-1]).strip()
                    ctx_stack.append((hdr, depth))
                elif t.startswith("fn"):
                    name = m.group(1)
                    # body: from this brace to its match
                    j = m.end()
                    d2 = 1
                    while j < n and d2 > 0:
                        c = src[j]
                        if c == "{":
                            d2 += 1
                        elif c == "}":
                            d2 -= 1
                        j += 1
                    body = re.sub(r"\s+", " ", src[m.start():j])
                    ctx = ctx_stack[-1][0] if ctx_stack else ""
                    key = "%s::%s::%s" % (rel, ctx, name)
                    k2, idx = key, 1
                    while k2 in out:
                        idx += 1
                        k2 = "%s#%d" % (key, idx)
                    out[k2] = hashlib.sha256(body.encode()).hexdigest()[:16]
    return out


def drift():
    """what changed in the crate's non-test functions with respect to the tree the model was written against"""
    try:
        lock = json.load(open(LOCK))
    except (OSError, ValueError):
        return {"note": "no srcmap.lock.json"}
    cur = functions()
    changed = sorted(k for k in cur if k in lock and cur[k] != lock[k])
    added = sorted(k for k in cur if k not in lock)
    removed = sorted(k for k in lock if k not in cur)
    return {"changed": changed, "added": added, "removed": removed, "functions": len(cur)}


if __name__ == "__main__":
    import sys
    if len(sys.argv) > 1 and sys.argv[1] == "--write-lock":
        json.dump(functions(), open(LOCK, "w"), indent=0, sort_keys=True)
        print("wrote", LOCK)
    else:
        print(json.dumps(drift(), indent=1))
