"""Property oracles evaluated on the implementation's own output (independent of
the Coq model): each returns a list of (ids, message).  `ctx` gives access to the
case lines and the parsed implementation output of the streams a property uses."""
import hashlib
import struct

from gen import ref as R
from .core import first, allv, canon_ev, canon_pre

U64MAX = (1 << 64) - 1


def sha256d(b):
    return hashlib.sha256(hashlib.sha256(b).digest()).digest()


def unhex(h):
    return b"" if h == "-" else bytes.fromhex(h)


class Case:
    __slots__ = ("id", "kind", "entry", "inp", "param", "brk", "raw")

    def __init__(self, line):
        f = line.split(" ")
        self.raw = line
        self.kind = f[0]
        self.id = f[1]
        if self.kind == "P":
            self.entry = f[2]
            self.inp = unhex(f[3])
            self.param = int(f[4])
            self.brk = int(f[5])


def evs_of(toks):
    """the callback tokens, zero-count input announcements aside (C04: a segwit marker is first read as an
    empty input list; such announcements are outside the properties)"""
    return [canon_ev(v) for k, v in toks if k == "ev" and v != "2,0"]


def res_of(toks):
    r = first(toks, "res")
    if r is None:
        return ("missing",)
    p = r.split(",")
    if p[0] == "0":
        return ("ok",)
    if p[0] == "1":
        return ("err",) + tuple(int(x) for x in p[1:])
    return ("panic",)


def err_name(code):
    return {1: "MoreBytesNeeded", 2: "UnknownSegwitFlag", 3: "SegwitFlagWithoutWitnesses", 4: "NonMinimalVarInt", 5: "VisitBreak", 6: "Other"}.get(code[0], "?") + ("(%d)" % code[1] if len(code) > 1 else "")


_ref_cache = {}


def ref_run(c):
    key = (c.entry, c.inp, c.param)
    r = _ref_cache.get(key)
    if r is None:
        r = R.run(c.entry, c.inp, c.param)
        if len(_ref_cache) > 200000:
            _ref_cache.clear()
        _ref_cache[key] = r
    return r


BSL = {"script", "outpoint", "txin", "txout", "txins", "txouts", "witness", "witnesses", "transaction", "header", "block"}
VISIT = {"txins", "txouts", "witness", "witnesses", "transaction", "header", "block"}


def parser_cases(ctx, streams=("struct", "small")):
    for s in streams:
        if s not in ctx.cases:
            continue
        for c in ctx.cases[s]:
            if c.kind == "P":
                yield s, c, ctx.rust[s].get(c.id, [])


def bigtx_violations(ctx, what):
    """the scripted gigabyte transactions (B robigtx*): x_bigtx=ok, or <form>:<what failed>[:got:want], or panic"""
    v = []
    for c in ctx.cases.get("struct", []):
        if c.kind != "B":
            continue
        r = first(ctx.rust["struct"].get(c.id) or [], "x_bigtx")
        if r is None:
            r = "panic"      # no output: the process died
        if r == "ok":
            continue
        if what == "panic" and "panic" in r:
            v.append(([c.id], "parsing a transaction with a script of 2^%s bytes, or one of its accessors, panics" % c.raw.split(" ")[2]))
        elif what != "panic" and (":" + what) in r:
            v.append(([c.id], "transaction with a script of 2^%s bytes: %s" % (c.raw.split(" ")[2], r)))
    return v


# ------------------------------------------------------------------ C01
def o_C01(ctx):
    v = bigtx_violations(ctx, "panic")
    for s, c, t in parser_cases(ctx, ("struct", "small", "len", "num")):
        r = res_of(t)
        if first(t, "x_timeout") == "1":
            v.append(([c.id], "%s does not return within the per-case time limit (non-termination: looping without consuming input)" % c.entry))
        elif r[0] == "panic":
            v.append(([c.id], "panic (caught by catch_unwind) in %s" % c.entry))
        elif r[0] == "missing":
            v.append(([c.id], "no result: the harness process aborted or timed out on this case (%s)" % c.entry))
        if first(t, "x_accpanic") == "1":
            v.append(([c.id], "an accessor of an object handed to the visitor panics (%s)" % c.entry))
        if first(t, "x_selfpanic") == "1":
            v.append(([c.id], "self_visit of the successfully parsed object panics (%s%s)" % (c.entry, ", visitor breaks at #%d" % c.brk if c.brk >= 0 else "")))
        nev = first(t, "nev")
        if nev is not None and int(nev) > 3 * len(c.inp) + 1:
            v.append(([c.id], "%s callbacks for %d input bytes (bound 3*len+1)" % (nev, len(c.inp))))
    return v


# ------------------------------------------------------------------ C02
def o_C02(ctx):
    v = bigtx_violations(ctx, "consumed")
    for s, c, t in parser_cases(ctx):
        if res_of(t) != ("ok",) or first(t, "x_accpanic") == "1":
            continue
        k = int(first(t, "consumed"))
        L = len(c.inp)
        view = first(t, "view")
        rem = first(t, "rem")
        if view is not None and view != "0,%d" % k:
            v.append(([c.id], "%s: serialized view is window (%s), expected the same memory b[..k] = (0,%d)" % (c.entry, view, k)))
        if rem != "%d,%d" % (k, L - k):
            v.append(([c.id], "%s: remainder is window (%s), expected b[k..] = (%d,%d)" % (c.entry, rem, k, L - k)))
        if first(t, "x_map") == "0":
            v.append(([c.id], "%s: ParseResult::map / parsed_owned do not hand over the same result (consumed, remainder, view)" % c.entry))
        lm = first(t, "x_lenm")
        if lm is not None and int(lm) != k:
            v.append(([c.id], "%s: len() = %s but consumed = %d" % (c.entry, lm, k)))
    # parsing never depends on bytes beyond k: every member of a group (the base input, its prefixes, its extensions)
    # that shares the k consumed bytes of a successful member gives the same object - whichever member succeeded
    def sig_of(tt):
        return [(a, b) for a, b in tt if not a.startswith("x_") and a != "rem"]
    for g, mem in ctx.groups("struct").items():
        ref = None
        for name in ["full"] + sorted(n for n in mem if n.startswith("x")):
            if name in mem:
                c, t = mem[name]
                if c.brk < 0 and res_of(t) == ("ok",) and first(t, "x_accpanic") != "1":
                    ref = (c, t)
                    break
        if ref is None:
            continue
        c, t = ref
        k = int(first(t, "consumed"))
        sig = sig_of(t)
        for name, (c2, t2) in mem.items():
            if c2 is c or c2.brk >= 0 or not (name == "full" or name.startswith("x") or name.startswith("p")):
                continue
            if len(c2.inp) >= k and c2.inp[:k] == c.inp[:k] and c2.param == c.param:
                if first(t2, "x_accpanic") == "1":
                    continue
                if sig_of(t2) != sig:
                    v.append(([c.id, c2.id], "%s: result depends on bytes beyond the consumed %d bytes (%d-byte and %d-byte inputs sharing them are answered differently)" % (c.entry, k, len(c.inp), len(c2.inp))))
    # the same over the exhaustive small strings: when b is accepted consuming k < len(b), b[..k] is in the stream too
    idx = {}
    for c in ctx.cases.get("small", []):
        if c.kind == "P" and c.brk < 0:
            idx[(c.entry, c.param, c.inp)] = c
    rs = ctx.rust.get("small", {})
    for key, c in idx.items():
        t = rs.get(c.id)
        if t is None or res_of(t) != ("ok",) or first(t, "x_accpanic") == "1":
            continue
        k = int(first(t, "consumed"))
        if k >= len(c.inp):
            continue
        c2 = idx.get((c.entry, c.param, c.inp[:k]))
        if c2 is None:
            continue
        t2 = rs.get(c2.id)
        if t2 is None or first(t2, "x_accpanic") == "1":
            continue
        if sig_of(t2) != sig_of(t):
            v.append(([c.id, c2.id], "%s: result depends on bytes beyond the consumed %d bytes (the input cut to exactly those bytes is answered differently)" % (c.entry, k)))
    return v


# ------------------------------------------------------------------ C03 / C04 / C14 / C16 (reference decoder)
def expected_events(c):
    r = ref_run(c)
    if c.brk >= 0:
        r = R.with_break(r, c.brk)
    return r


def o_C03(ctx):
    v = []
    for s, c, t in parser_cases(ctx):
        if c.entry not in BSL or c.brk >= 0:
            continue
        r = ref_run(c)
        got = res_of(t)
        if got[0] in ("panic", "missing"):
            continue
        if (got == ("ok",)) != r["ok"]:
            v.append(([c.id], "%s: %s but the wire format says %s" % (c.entry, "accepted" if got == ("ok",) else "rejected", "well-formed" if r["ok"] else "malformed (%s)" % err_name(r["err"]))))
            continue
        if first(t, "x_accpanic") == "1":
            continue
        if r["ok"]:
            k = int(first(t, "consumed"))
            if k != r["consumed"]:
                v.append(([c.id], "%s: consumed %d, the encoding is %d bytes" % (c.entry, k, r["consumed"])))
            info = r["info"]
            if c.entry == "transaction":
                if int(first(t, "version")) != info["version"] or int(first(t, "locktime")) != info["locktime"]:
                    v.append(([c.id], "transaction version/locktime differ from the wire values"))
            if c.entry == "header":
                for f in ("version", "time", "nonce"):
                    if int(first(t, f)) != info[f]:
                        v.append(([c.id], "header %s differs from the wire value" % f))
            if c.entry in ("txin", "txout", "script"):
                rr = R.R(c.inp)
                if c.entry == "txin":
                    R.d_txin(rr, 0)
                    e = rr.ev[0]
                    exp = {"prevout": "%d,36" % e[4], "txid": "%d,32" % e[6], "vout": str(e[8]), "sig": "%d,%d" % (e[9], e[10]), "seq": str(e[11])}
                    for f, x in exp.items():
                        if first(t, f) != x:
                            v.append(([c.id], "txin %s = %s, wire value %s" % (f, first(t, f), x)))
                elif c.entry == "txout":
                    R.d_txout(rr, 0)
                    e = rr.ev[0]
                    x = "%d,%d,%d,%d,%d" % (e[2], e[3], e[4], e[5], e[6])
                    if first(t, "txout") != x:
                        v.append(([c.id], "txout fields = %s, wire values %s" % (first(t, "txout"), x)))
                else:
                    s0, l0, d, n = R.d_script(rr)
                    if first(t, "script") != "%d,%d" % (d, n):
                        v.append(([c.id], "script bytes window = %s, expected (%d,%d) (without the length prefix)" % (first(t, "script"), d, n)))
            if c.entry in ("txins", "txouts"):
                n = r["events"][0][1]
                if int(first(t, "n")) != n or int(first(t, "empty")) != (1 if n == 0 else 0):
                    v.append(([c.id], "%s count/emptiness differ from the wire value %d" % (c.entry, n)))
            if c.entry == "witness":
                tot = [e[1] for e in r["events"] if e[0] == 7]
                if tot and first(t, "empty") is not None and int(first(t, "empty")) != (1 if tot[0] == 0 else 0):
                    v.append(([c.id], "witness: is_empty() = %s for a witness of %d elements" % (first(t, "empty"), tot[0])))
            if c.entry == "witnesses":
                tot = [e[1] for e in r["events"] if e[0] == 7]
                exp = 1 if all(x == 0 for x in tot) else 0
                if first(t, "allempty") is not None and int(first(t, "allempty")) != exp:
                    v.append(([c.id], "witnesses(%d): all_empty() = %s, the %d witnesses have %s elements" % (c.param, first(t, "allempty"), len(tot), tot[:8])))
            if c.entry == "block":
                n = r["events"][1][1]
                if int(first(t, "total")) != n:
                    v.append(([c.id], "block total_transactions differs from the wire value %d" % n))
        # rust-bitcoin's consensus decoder (inputs below its 4 MB limit)
        rb = first(t, "x_rb")
        if rb is not None and rb != "panic":
            p = rb.split(",")
            if (p[0] == "1") != (got == ("ok",)):
                v.append(([c.id], "%s: accept/reject differs from rust-bitcoin (crate %s, rust-bitcoin %s)" % (c.entry, got[0], "accepts" if p[0] == "1" else "rejects")))
            elif p[0] == "1":
                if int(p[1]) != int(first(t, "consumed")):
                    v.append(([c.id], "%s: consumed %s, rust-bitcoin consumed %s" % (c.entry, first(t, "consumed"), p[1])))
                elif first(t, "x_rbcmp") == "0":
                    why = first(t, "x_rbwhy", "")
                    if not why.startswith("weight") and why not in ("txid", "txid_sha2", "into", "reserialize", "as_bitcoin_script") and "block_hash" not in why:
                        v.append(([c.id], "%s: field %s differs from rust-bitcoin's decoding" % (c.entry, why)))
    return v


def o_C04(ctx):
    v = []
    for s, c, t in parser_cases(ctx):
        if c.entry not in VISIT:
            continue
        got = res_of(t)
        if got[0] in ("panic", "missing"):
            continue
        if first(t, "x_zst") == "0":
            v.append(([c.id], "%s: a zero-sized visitor (state kept outside the visitor) is handed different callbacks, or gets a different result, than the recording visitor" % c.entry))
        r = expected_events(c)
        exp = [canon_ev(x) for x in (R.ev_token(e) for e in r["events"]) if x != "2,0"]
        evs = evs_of(t)
        if evs != exp:
            i = 0
            while i < min(len(evs), len(exp)) and evs[i] == exp[i]:
                i += 1
            v.append(([c.id], "%s: callback #%d is %s, the in-order traversal has %s (%d callbacks delivered, %d expected)" % (
                c.entry, i, evs[i] if i < len(evs) else "<none>", exp[i] if i < len(exp) else "<none>", len(evs), len(exp))))
    return v


def o_C14(ctx):
    v = []
    for s, c, t in parser_cases(ctx):
        if c.entry not in BSL:
            continue
        got = res_of(t)
        if got[0] != "err":
            continue
        code = got[1:]
        if c.brk < 0 and code[0] in (5, 6):
            v.append(([c.id], "%s: %s produced although the visitor never breaks" % (c.entry, err_name(code))))
            continue
        r = expected_events(c)
        if r["ok"]:
            continue  # accept/reject disagreement is C03's business
        if tuple(r["err"]) != tuple(code):
            if tuple(r["err"]) == R.NOWIT and code == (1,) and cut_before_locktime(c):
                continue
            v.append(([c.id], "%s: reported %s, the first defect in byte order is %s" % (c.entry, err_name(code), err_name(r["err"]))))
    return v


def cut_before_locktime(c):
    """segwit transaction whose witnesses are all empty AND which ends before its lock time"""
    rr = R.R(c.inp)
    try:
        if c.entry == "transaction":
            R.d_tx(rr)
        elif c.entry == "block":
            R.d_block(rr)
    except R.Fail as f:
        return f.code == R.NOWIT and len(c.inp) - rr.p < 4
    return False


def o_C16(ctx):
    v = bigtx_violations(ctx, "weight")
    for s, c, t in parser_cases(ctx):
        if c.entry != "transaction" or res_of(t) != ("ok",) or first(t, "x_accpanic") == "1":
            continue
        r = ref_run(c)
        if not r["ok"]:
            continue
        w = int(first(t, "weight"))
        if w != r["info"]["weight"]:
            v.append(([c.id], "weight() = %d, BIP141 gives %d (%s encoding, %d bytes)" % (w, r["info"]["weight"], "segwit" if r["info"]["segwit"] else "legacy", r["consumed"])))
        why = first(t, "x_rbwhy", "")
        if why.startswith("weight"):
            v.append(([c.id], "weight differs from rust-bitcoin: %s" % why))
        dbtx = first(t, "x_dbtx")
        if dbtx is not None and dbtx.split(",")[0] != "1":
            v.append(([c.id], "a transaction decoded from its database bytes reports a different weight than the parsed one"))
    return v


# ------------------------------------------------------------------ C05
def o_C05(ctx):
    v = []
    for s, c, t in parser_cases(ctx, ("struct", "small", "len", "num")):
        for tag in ("x_alloc", "x_alloc_iter"):
            a = first(t, tag)
            if a is not None and int(a) != 0:
                v.append(([c.id], "%s: %s heap allocation(s) during %s" % (c.entry, a, "iteration of the outputs" if tag == "x_alloc_iter" else "parse/visit and accessors")))
    return v


# ------------------------------------------------------------------ C07
def rel_pair(short, long_, v, what):
    (c1, t1), (c2, t2) = short, long_
    r1, r2 = res_of(t1), res_of(t2)
    if "panic" in (r1[0], r2[0]) or "missing" in (r1[0], r2[0]):
        return
    # every callback counts here, zero-count input announcements included: C07 relates two runs of the same
    # implementation (C04's "aside" is about what the traversal must contain, not about consistency between runs)
    e1 = [canon_ev(x) for k, x in t1 if k == "ev"]
    e2 = [canon_ev(x) for k, x in t2 if k == "ev"]
    if e2[:len(e1)] != e1:
        v.append(([c1.id, c2.id], "%s: callbacks on the prefix (%d bytes) are not a prefix of the callbacks on the longer input (%d bytes)" % (c1.entry, len(c1.inp), len(c2.inp))))
    if r1 == ("ok",):
        k = first(t1, "consumed")
        sig1 = [(a, b) for a, b in t1 if not a.startswith("x_") and a != "rem"]
        sig2 = [(a, b) for a, b in t2 if not a.startswith("x_") and a != "rem"]
        if sig1 != sig2:
            v.append(([c1.id, c2.id], "%s: parses consuming %s bytes, but followed by more bytes it yields %s" % (c1.entry, k, "a different object" if r2 == ("ok",) else "error " + err_name(r2[1:]))))
    elif r1[0] == "err" and r1[1] != 1:
        if r2 != r1:
            v.append(([c1.id, c2.id], "%s: fails with %s, but an extension of the input gives %s" % (c1.entry, err_name(r1[1:]), "Ok" if r2 == ("ok",) else err_name(r2[1:]))))
    if r2[0] == "err" and r2[1] == 1 and not (r1[0] == "err" and r1[1] == 1):
        v.append(([c1.id, c2.id], "%s: fails with MoreBytesNeeded, but a prefix of it gives %s" % (c1.entry, "Ok" if r1 == ("ok",) else err_name(r1[1:]))))
    if r2 == ("ok",):
        k = int(first(t2, "consumed"))
        if len(c1.inp) >= k and r1 != ("ok",):
            v.append(([c1.id, c2.id], "%s: succeeds consuming %d bytes when followed by more bytes, but parsing those %d bytes (the %d-byte prefix) gives %s" % (
                c1.entry, k, k, len(c1.inp), err_name(r1[1:]) if r1[0] == "err" else r1[0])))
        if len(c1.inp) < k and not (r1[0] == "err" and r1[1] == 1):
            v.append(([c1.id, c2.id], "%s: succeeds consuming %d bytes, but the %d-byte prefix gives %s instead of MoreBytesNeeded" % (c1.entry, k, len(c1.inp), "Ok" if r1 == ("ok",) else err_name(r1[1:]))))


def o_C07(ctx):
    v = []
    for g, mem in ctx.groups("struct").items():
        chain = sorted([(int(n[1:]), m) for n, m in mem.items() if n.startswith("p")], key=lambda x: x[0])
        chain = [m for _, m in chain]
        full = mem.get("full")
        if full is None:
            continue
        xs = [m for n, m in mem.items() if n.startswith("x")]
        for a, b in zip(chain, chain[1:]):
            rel_pair(a, b, v, g)
        for a in chain:
            rel_pair(a, full, v, g)
        for x in xs:
            rel_pair(full, x, v, g)
            if chain:
                rel_pair(chain[-1], x, v, g)
    # fixed width readers / compact size: prefix closure on the len stream is covered by C08/C18 oracles
    return v


# ------------------------------------------------------------------ C08
def ref_cs(b):
    if len(b) == 0:
        return ("err", 1)
    x = b[0]
    if x < 0xFD:
        return ("ok", x, 1)
    w = {0xFD: 2, 0xFE: 4, 0xFF: 8}[x]
    if len(b) < 1 + w:
        return ("err", 1)
    n = int.from_bytes(b[1:1 + w], "little")
    lo = {2: 0xFD, 4: 0x10000, 8: 0x100000000}[w]
    if n < lo:
        return ("err", 4)
    return ("ok", n, 1 + w)


def o_C08(ctx):
    v = []
    for c in ctx.cases.get("len", []):
        t = ctx.rust["len"].get(c.id, [])
        got = res_of(t)
        if got[0] in ("panic", "missing"):
            v.append(([c.id], "%s panics or aborts" % c.entry))
            continue
        e = ref_cs(c.inp)
        if c.entry == "scan_len":
            cnt = int(first(t, "counter"))
            if e[0] == "ok":
                if got != ("ok",) or int(first(t, "n")) != e[1] or cnt != c.param + e[2]:
                    v.append(([c.id], "scan_len: expected Ok(%d) and counter %d+%d, got %s n=%s counter=%d" % (e[1], c.param, e[2], got, first(t, "n"), cnt)))
            else:
                if got != ("err", e[1]) or cnt != c.param:
                    v.append(([c.id], "scan_len: expected %s with the counter untouched (%d), got %s counter=%d" % (err_name((e[1],)), c.param, got if got[0] != "err" else err_name(got[1:]), cnt)))
        else:
            if e[0] == "ok":
                exp_sl = min(e[1] + e[2], U64MAX)
                if got != ("ok",) or int(first(t, "n")) != e[1] or int(first(t, "lconsumed")) != e[2] or int(first(t, "slicelen")) != exp_sl:
                    v.append(([c.id], "parse_len: expected n=%d consumed=%d slice_len=%d, got %s %s" % (e[1], e[2], exp_sl, got, t)))
            elif got != ("err", e[1]):
                v.append(([c.id], "parse_len: expected %s, got %s" % (err_name((e[1],)), got)))
    return v


# ------------------------------------------------------------------ C09
def o_C09(ctx):
    v = []
    for g, mem in ctx.groups("struct").items():
        full = mem.get("full")
        if full is None:
            continue
        c0, t0 = full
        if c0.entry not in VISIT or res_of(t0)[0] in ("panic", "missing"):
            continue
        ev0 = evs_of(t0)
        if res_of(t0) == ("err", 5):
            v.append(([c0.id], "%s: VisitBreak although the visitor never breaks" % c0.entry))
        bidx = [i for i, e in enumerate(ev0) if int(e.split(",")[0]) in R.BREAKABLE]
        for name, (c, t) in mem.items():
            if not name.startswith("b"):
                continue
            got = res_of(t)
            if got[0] in ("panic", "missing"):
                continue
            i = c.brk
            ev = evs_of(t)
            # against the implementation's own never-breaking run
            if i < len(bidx):
                exp_ev = ev0[:bidx[i] + 1]
                if got != ("err", 5):
                    v.append(([c0.id, c.id], "%s: Break at breakable callback #%d is reported as %s, not VisitBreak" % (c.entry, i, "Ok" if got == ("ok",) else err_name(got[1:]))))
                elif ev != exp_ev:
                    v.append(([c0.id, c.id], "%s: Break at breakable callback #%d: %d callbacks delivered, the never-breaking run has %d up to and including it" % (c.entry, i, len(ev), len(exp_ev))))
            else:
                if got != res_of(t0) or ev != ev0:
                    v.append(([c0.id, c.id], "%s: a visitor that never fires (policy index %d beyond the sequence) changes the outcome" % (c.entry, i)))
            # against the independent reference: a Break takes precedence over a later malformation
            r = expected_events(c)
            if not r["ok"] and tuple(r["err"]) == (5,) and got != ("err", 5):
                v.append(([c.id], "%s: Break at breakable callback #%d must win over what follows, got %s" % (c.entry, i, "Ok" if got == ("ok",) else err_name(got[1:]))))
    # the same policy through self_visit of the parsed object
    for s, c, t in parser_cases(ctx, ("struct", "small")):
        if c.brk >= 0 and first(t, "x_selfbrk") == "0":
            v.append(([c.id], "%s: self_visit of the parsed object under the policy 'break at #%d' does not end like visiting its bytes (result or callbacks differ: a Break must be reported as VisitBreak with nothing after it)" % (c.entry, c.brk)))
    # every other case run under a breaking policy (truncated inputs, small strings): judged by the reference
    for s, c, t in parser_cases(ctx, ("struct", "small")):
        if c.brk < 0 or c.entry not in VISIT or (".b" in c.id):
            continue
        got = res_of(t)
        if got[0] in ("panic", "missing"):
            continue
        r = expected_events(c)
        if not r["ok"] and tuple(r["err"]) == (5,) and got != ("err", 5):
            v.append(([c.id], "%s: Break at breakable callback #%d must win over what follows (input of %d bytes), got %s" % (
                c.entry, c.brk, len(c.inp), "Ok" if got == ("ok",) else err_name(got[1:]))))
        if got == ("err", 5) and not (not r["ok"] and tuple(r["err"]) == (5,)):
            v.append(([c.id], "%s: VisitBreak reported although the policy (break at #%d) never fires on this input" % (c.entry, c.brk)))
    return v


# ------------------------------------------------------------------ C10
def o_C10(ctx):
    v = bigtx_violations(ctx, "preimage_len")
    for s_, c_, t_ in parser_cases(ctx):
        if first(t_, "x_cbhash") == "0":
            v.append(([c_.id], "%s: the block hash (or its preimage) obtained from the header INSIDE the visit_block_header callback is not the double SHA-256 of the 80 header bytes" % c_.entry))
    for s, c, t in parser_cases(ctx):
        if res_of(t) != ("ok",) or c.brk >= 0 or first(t, "x_accpanic") == "1":
            continue
        if c.entry == "transaction":
            r = ref_run(c)
            wins = [tuple(int(x) for x in first(t, k).split(",")) for k in ("prea", "preb", "prec")]
            pre = b"".join(c.inp[o:o + l] for o, l in wins)
            if r["ok"]:
                exp = b"".join(c.inp[o:o + l] for o, l in r["info"]["pre"])
                if pre != exp:
                    v.append(([c.id], "txid preimage parts %s do not concatenate to the witness-stripped serialization (expected windows %s)" % (wins, r["info"]["pre"])))
                meta = ctx.meta("struct").get(c.id.split(".")[0], {})
                if meta.get("stripped") is not None and c.id.endswith(".full") and pre.hex() != meta["stripped"]:
                    v.append(([c.id], "txid preimage differs from the stripped serialization of the generated structure"))
            h = sha256d(pre).hex()
            for k in ("x_txid", "x_txid_sha2"):
                if first(t, k) is not None and first(t, k) != h and r["ok"]:
                    exp = sha256d(b"".join(c.inp[o:o + l] for o, l in r["info"]["pre"])).hex()
                    if first(t, k) != exp:
                        v.append(([c.id], "%s = %s is not the double SHA-256 of the stripped serialization (%s)" % (k[2:], first(t, k), exp)))
            dbtx = first(t, "x_dbtx")
            if dbtx is not None and (dbtx.split(",")[1] != "1" or dbtx.split(",")[2] != "1"):
                v.append(([c.id], "a transaction decoded from its database bytes has a different txid preimage / txid than the parsed one"))
            if first(t, "x_pre_inside") == "0":
                v.append(([c.id], "a txid preimage part is not a window of the input"))
            why = first(t, "x_rbwhy", "")
            if why in ("txid", "txid_sha2"):
                v.append(([c.id], "%s differs from rust-bitcoin's compute_txid" % why))
        elif c.entry in ("header", "block"):
            exp = sha256d(c.inp[:80]).hex()
            for k in ("x_blockhash", "x_blockhash_sha2"):
                if first(t, k) is not None and first(t, k) != exp:
                    v.append(([c.id], "%s = %s is not the double SHA-256 of the 80 header bytes" % (k[2:], first(t, k))))
            if "block_hash" in first(t, "x_rbwhy", ""):
                v.append(([c.id], "block hash differs from rust-bitcoin's"))
    # per-transaction hashes inside blocks are covered through x_rbcmp (tx<i>.txid)
    for s, c, t in parser_cases(ctx):
        why = first(t, "x_rbwhy", "")
        if c.entry == "block" and (why.endswith(".txid") or why.endswith(".txid_sha2")):
            v.append(([c.id], "inside a block: %s differs from rust-bitcoin" % why))
    return v


# ------------------------------------------------------------------ C15
def o_C15(ctx):
    v = []
    for s, c, t in parser_cases(ctx):
        if c.entry not in BSL or c.brk >= 0:
            continue
        for k, msg in (("x_parse_eq", "parse() and visit() with a recording visitor return different results"),
                       ("x_emptyvisit_eq", "visit() with the empty visitor and with a recording visitor return different results"),
                       ("x_zst", "visit() with a zero-sized visitor and with a recording visitor differ (result or callbacks)"),
                       ("x_reuse", "a visitor object used for two consecutive visits of the same bytes gets different callbacks or a different result the second time"),
                       ("x_reparse", "re-parsing the serialized bytes of the parsed object does not give an equal object with empty remainder"),
                       ("x_revisit", "re-visiting the serialized bytes does not reproduce the object / the callback sequence"),
                       ("x_selfvisit", "self_visit does not reproduce the object / the callback sequence")):
            if first(t, k) == "0":
                v.append(([c.id], "%s: %s" % (c.entry, msg)))
    return v


# ------------------------------------------------------------------ C17
def o_C17(ctx):
    v = []
    for s, c, t in parser_cases(ctx):
        if c.entry != "txouts" or res_of(t) != ("ok",) or c.brk >= 0:
            continue
        if first(t, "x_iterpanic") == "1":
            v.append(([c.id], "iterating the parsed outputs panics"))
            continue
        if first(t, "x_accpanic") == "1" or first(t, "n") is None:
            continue
        n = int(first(t, "n"))
        outs = [e.split(",", 2)[2] for e in allv(t, "ev") if e.startswith("5,")]
        its = allv(t, "iter")
        items = [i.rsplit(",", 1)[0] for i in its]
        lens = [int(i.rsplit(",", 1)[1]) for i in its]
        if items != outs:
            v.append(([c.id], "iteration yields %d outputs %s, the visitor saw %d" % (len(items), "(different)" if len(items) == len(outs) else "", len(outs))))
        if int(first(t, "iter0")) != n:
            v.append(([c.id], "iterator len() before the first next() is %s for %d outputs" % (first(t, "iter0"), n)))
        for j, l in enumerate(lens):
            if l != n - j - 1:
                v.append(([c.id], "after %d next() calls len() = %d, %d outputs remain" % (j + 1, l, n - j - 1)))
                break
        for k, msg in (("x_intoiter_eq", "IntoIterator yields a different sequence than iter()"), ("x_hint_ok", "size_hint() disagrees with len()"),
                       ("x_iter_ended", "the iterator yields again after returning None")):
            if first(t, k) == "0":
                v.append(([c.id], msg))
        ad = first(t, "x_adapt")
        if ad is not None and ad != "ok":
            v.append(([c.id], "advancing by a provided Iterator method disagrees with repeated next() (%s: method:next()-calls-before[:argument:what])" % ad))
        if first(t, "x_into_len0") is not None and int(first(t, "x_into_len0")) != n:
            v.append(([c.id], "IntoIterator len() = %s for %d outputs" % (first(t, "x_into_len0"), n)))
    return v


# ------------------------------------------------------------------ C18
NUMW = {"u8": 1, "u16": 2, "u32": 4, "i32": 4, "u64": 8, "read_u8": 1, "read_u16": 2, "read_u32": 4, "read_i32": 4, "read_u64": 8}


def o_C18(ctx):
    v = []
    for c in ctx.cases.get("num", []):
        if c.entry not in NUMW:
            continue
        t = ctx.rust["num"].get(c.id, [])
        got = res_of(t)
        w = NUMW[c.entry]
        if got[0] in ("panic", "missing"):
            v.append(([c.id], "%s panics" % c.entry))
            continue
        if len(c.inp) < w:
            if got != ("err", 1):
                v.append(([c.id], "%s on %d bytes: expected MoreBytesNeeded, got %s" % (c.entry, len(c.inp), got)))
            continue
        val = int.from_bytes(c.inp[:w], "little")
        if got != ("ok",) or int(first(t, "val")) != val:
            v.append(([c.id], "%s: value %s, the little-endian bytes say %d" % (c.entry, first(t, "val"), val)))
            continue
        if not c.entry.startswith("read_"):
            if first(t, "asref") != ",".join(str(x) for x in c.inp[:w]) or int(first(t, "consumed")) != w or first(t, "rem") != "%d,%d" % (w, len(c.inp) - w) or first(t, "x_lenm") != str(w):
                v.append(([c.id], "%s: serialized view / consumed / remainder wrong: %s" % (c.entry, t)))
            if first(t, "x_wrap") == "0":
                v.append(([c.id], "%s: wrapping then unwrapping does not return the value" % c.entry))
            tl = first(t, "tolen")
            if c.entry in ("u16", "u32", "u64"):
                lo = {2: 0xFD, 4: 0x10000, 8: 0x100000000}[w]
                exp = "0,%d,%d" % (val, 1 + w) if val >= lo else "1,4"
                if tl != exp:
                    v.append(([c.id], "%s(%d).to_len(): got %s, expected %s" % (c.entry, val, tl, exp)))
    return v


# ------------------------------------------------------------------ C19
def o_C19(ctx):
    v = []
    for s, c, t in parser_cases(ctx):
        if c.brk >= 0:
            continue
        why = first(t, "x_rbwhy", "")
        if c.entry in ("txout", "outpoint", "script") and first(t, "x_rbcmp") == "0":
            v.append(([c.id], "%s: conversion to the rust-bitcoin type: %s differs" % (c.entry, why)))
        if c.entry == "block" and first(t, "x_find") == "0":
            v.append(([c.id], "FindTransaction: %s" % first(t, "x_findwhy", "")))
        if first(t, "x_rb") == "panic":
            v.append(([c.id], "%s: panic while comparing with rust-bitcoin" % c.entry))
        if first(t, "x_cbconv") == "0":
            v.append(([c.id], "%s: a conversion to the rust-bitcoin type (TxOut / OutPoint / as_bitcoin_script) made inside a visitor callback differs from the object's own fields" % c.entry))
    v.extend(find_violations(ctx))
    return v


def find_violations(ctx):
    """FindTransaction judged against an independent decoding of the block (gen/ref.py + hashlib): the search must
    return the FIRST transaction whose double SHA-256 of the witness-stripped serialization is the wanted id, stop
    there with VisitBreak, and find nothing (and not break) when no transaction of the parsed part has that id."""
    import hashlib
    from gen import ref as R
    v = []
    for c in ctx.cases.get("find", []):
        t = ctx.rust["find"].get(c.id, [])
        f = c.raw.split(" ")
        blk, want = unhex(f[2]), unhex(f[3])
        res = res_of(t)
        found = first(t, "found", "")
        if res == ("panic",):
            v.append(([c.id], "FindTransaction: panic"))
            continue
        # independent walk: transactions of the block in order, as far as they decode
        exp_found = None
        exp_res = None
        try:
            txs, status = R.block_transactions(blk)
        except Exception as e:      # pragma: no cover
            continue
        for tb, stripped in txs:
            if hashlib.sha256(hashlib.sha256(stripped).digest()).digest() == want:
                exp_found = tb
                break
        if exp_found is not None:
            if res != ("err", 5):
                v.append(([c.id], "FindTransaction: the block contains a transaction with the wanted id but the visit did not stop with VisitBreak (%s)" % (res,)))
            exp = "1," + ",".join(str(x) for x in exp_found)
            if found != exp:
                v.append(([c.id], "FindTransaction: tx_found() is not the first transaction with the wanted id"))
        else:
            if found != "0":
                v.append(([c.id], "FindTransaction: a transaction was returned although none of the block's transactions has the wanted id"))
            if res == ("err", 5):
                v.append(([c.id], "FindTransaction: VisitBreak although no transaction has the wanted id"))
            if status == "ok" and res != ("ok",):
                v.append(([c.id], "FindTransaction: a valid block without the wanted id must be visited to the end (%s)" % (res,)))
    return v


# ------------------------------------------------------------------ C20
def o_C20(ctx):
    v = []
    for s, c, t in parser_cases(ctx):
        db = first(t, "x_db")
        if db is None:
            continue
        exp = "1,1,36" if c.entry == "outpoint" else "1,1,-1"
        if db != exp:
            v.append(([c.id], "%s: database encoding (as_bytes is the serialized bytes, from_bytes(as_bytes(x)) == x, fixed_width) = %s, expected %s" % (c.entry, db, exp)))
    for c in ctx.cases.get("order", []):
        t = ctx.rust["order"].get(c.id, [])
        f = c.raw.split(" ")
        a, b = unhex(f[2]), unhex(f[3])
        exp = "0" if a < b else ("1" if a == b else "2")
        if first(t, "cmp") != exp:
            v.append(([c.id], "outpoint key order: compare gives %s, lexicographic order gives %s" % (first(t, "cmp"), exp)))
    for c in ctx.cases.get("cache", []):
        raw = ctx.rust["cache"].get(c.id) or []
        if any(k == "x_getvalue_mismatch" for k, _ in raw):
            v.append(([c.id], "a value decoded from the cache with get_value (identity decoder OutPoint) is not the stored representation: as_bytes differs from the bytes that were inserted"))
    for c in ctx.cases.get("redb", []):
        t = ctx.rust["redb"].get(c.id, [])
        r = first(t, "x_redb")
        if r not in ("1", "skip"):
            v.append(([c.id], "value written to a redb table is not read back equal (%s)" % r))
    return v


# ------------------------------------------------------------------ cache: C06 C11 C12 C13
class CacheTrace:
    """per-operation view of one cache history as the implementation reported it"""

    def __init__(self, case_line, toks):
        f = case_line.split(" ")
        self.id = f[1]
        self.cap = int(f[2])
        self.ops = [o for o in f[3:] if o]
        self.steps = []
        cur = None
        self.panic = any(k == "panic" for k, _ in toks)
        for k, val in toks:
            if k in ("i", "g", "c", "l", "f", "v"):
                cur = {"op": k, "r": val, "o": {}, "extra": []}
                self.steps.append(cur)
            elif cur is not None:
                if k == "o":
                    p = val.split(",")
                    cur["o"][int(p[0])] = bytes(int(x) for x in p[2:]) if p[1] == "1" else None
                elif k in ("len", "full", "lay"):
                    cur[k] = val
                else:
                    cur["extra"].append((k, val))


def cache_oracles(ctx, prop):
    """returns (violations, n_suppressed_known) for the given cache property"""
    v = []
    suppressed = 0
    for c in ctx.cases.get("cache", []):
        toks = ctx.rust["cache"].get(c.id)
        if c.kind == "B":
            # the scripted scenario on a cache of more than 4 GiB (judged inside the harness)
            r = first(toks or [], "x_bigcache")
            if prop == "C06" and r != "ok":
                v.append(([c.id], "cache of 2^32 + 4096 bytes filled past the 32-bit range: %s (fill<k> / insert_beyond_4g / get_beyond_4g / get<k> / len_full / wrap_*)" % r))
            continue
        if toks is None:
            v.append(([c.id], "no output for this history (process aborted)"))
            continue
        tr = CacheTrace(c.raw, toks)
        if tr.panic or len(tr.steps) != len(tr.ops):
            v.append(([c.id], "cache operation panicked"))
            continue
        if c.id.startswith("ks"):
            # sparse history (no observation between the operations): judged on what the operations returned.
            # C06: a lookup returns nothing or exactly the bytes of the latest successful insertion under that key
            if prop == "C06":
                latest_v = {}
                for opi, (op, st) in enumerate(zip(tr.ops, tr.steps)):
                    f = op.split(":")
                    if f[0] == "i" and st["r"].split(",")[0] == "0":
                        latest_v[int(f[1])] = unhex(f[2])
                    elif f[0] == "g":
                        p = st["r"].split(",")
                        if p[0] == "1":
                            got = bytes(int(x) for x in p[1:])
                            if latest_v.get(int(f[1])) != got:
                                v.append(([c.id], "capacity %d, operation #%d (%s) with no lookups other than those of the history: get returns %s, the latest successful insertion under that key stored %s" % (
                                    tr.cap, opi, op, list(got), list(latest_v[int(f[1])]) if int(f[1]) in latest_v else None)))
                                break
            continue
        hist = []          # successful insertions (key, value)
        latest = {}        # key -> index in hist
        empty_stored = False
        L = 0
        evicted_once = False
        prev_obs = {}
        prev_len, prev_full = "0", "0"
        for opi, (op, st) in enumerate(zip(tr.ops, tr.steps)):
            f = op.split(":")
            obs = st["o"]
            bad = []
            retr_before = {k for k, x in prev_obs.items() if x is not None}
            retr = {k for k, x in obs.items() if x is not None}
            if f[0] == "i":
                k = int(f[1])
                val = unhex(f[2])
                r = st["r"].split(",")
                if r[0] == "0":
                    hist.append((k, val))
                    latest[k] = len(hist) - 1
                    if len(val) == 0:
                        empty_stored = True
                    L = max(L, len(val))
                    nrem = int(r[1])
                    if prop == "C13" and len(val) > tr.cap:
                        bad.append("insert of a value of %d bytes into a cache of %d bytes succeeded (must fail with ValueLargerThanBuffer)" % (len(val), tr.cap))
                    if prop == "C06" and obs.get(k) != val:
                        bad.append("after a successful insert of key %d, get returns %s instead of the inserted bytes" % (k, obs.get(k)))
                    if prop == "C13":
                        lost = len(retr_before - retr)
                        if k in retr_before:
                            bad.append("insert of retrievable key %d succeeded" % k)
                        if nrem != lost:
                            bad.append("insert returned %d evictions, %d previously retrievable keys became unretrievable" % (nrem, lost))
                    if prop == "C12" and nrem > 0:
                        before_bytes = sum(len(x) for x in prev_obs.values() if x is not None)
                        if not (before_bytes + len(val) > tr.cap - (L - 1)):
                            bad.append("evicted %d entries although %d retrievable bytes + %d new <= capacity %d - (L-1), L=%d" % (nrem, before_bytes, len(val), tr.cap, L))
                    if nrem > 0:
                        evicted_once = True
                else:
                    if prop == "C13":
                        present = k in retr_before
                        toolarge = len(val) > tr.cap
                        if present and r[0] != "2":
                            bad.append("insert of retrievable key %d (value of %d bytes, capacity %d) fails with ValueLargerThanBuffer, not ValueAlreadyPresent" % (k, len(val), tr.cap))
                        if r[0] == "2" and not present:
                            bad.append("ValueAlreadyPresent for key %d which is not retrievable" % k)
                        if r[0] == "1" and not toolarge:
                            bad.append("ValueLargerThanBuffer for a value of %d bytes, capacity %d" % (len(val), tr.cap))
                        if obs != {**prev_obs, **({k: prev_obs.get(k)} if k not in prev_obs else {})} or st.get("len") != prev_len or st.get("full") != prev_full:
                            if {kk: x for kk, x in obs.items() if kk != k or k in prev_obs} != prev_obs or obs.get(k) is not None and k not in prev_obs or st.get("len") != prev_len or st.get("full") != prev_full:
                                bad.append("a failed insertion changed the observable state")
                if prop == "C13" and r[0] != "0":
                    pass
            elif f[0] == "g":
                k = int(f[1])
                p = st["r"].split(",")
                got = bytes(int(x) for x in p[1:]) if p[0] == "1" else None
                if prop in ("C06", "C13") and got != obs.get(k):
                    bad.append("get(%d) and the following lookup disagree" % k)
            elif f[0] == "v":
                # typed lookup get_value::<Transaction>: the object decoded from exactly the stored bytes
                k = int(f[1])
                if prop == "C06":
                    stored = obs.get(k)
                    if stored is None:
                        exp = "0"
                    else:
                        rr = R.run("transaction", stored, 0)
                        if rr["ok"]:
                            e = [x for x in rr["events"] if x[0] == 10][-1]
                            exp = "1," + ",".join(str(x) for x in list(e[2:5]) + canon_pre(list(e[5:11])) + list(e[11:]))
                        else:
                            exp = "2"
                    got_v = st["r"].split(",")
                    if got_v[0] == "1" and len(got_v) == 11:
                        got_v = got_v[:4] + [str(x) for x in canon_pre([int(x) for x in got_v[4:10]])] + got_v[10:]
                    if ",".join(got_v) != exp:
                        bad.append("get_value::<Transaction>(%d) = %s, the stored bytes decode to %s (0 absent, 1,len,version,locktime,preimage windows,weight; 2 from_bytes panics)" % (k, st["r"], exp))
            elif f[0] == "c":
                k = int(f[1])
                if prop == "C13" and (st["r"] == "1") != (obs.get(k) is not None):
                    bad.append("contains(%d) = %s disagrees with get" % (k, st["r"]))
            elif f[0] == "l":
                if prop == "C13" and int(st["r"]) != len(retr):
                    bad.append("len() = %s, %d keys are retrievable" % (st["r"], len(retr)))
            elif f[0] == "f":
                if prop == "C13" and (st["r"] == "1") != evicted_once:
                    bad.append("full() = %s, evictions so far: %s" % (st["r"], evicted_once))
            # state observations after every operation
            if prop == "C06":
                for k, x in obs.items():
                    if x is not None and (k not in latest or hist[latest[k]][1] != x):
                        bad.append("get(%d) returns %s, the latest successful insertion under that key stored %s" % (k, list(x), list(hist[latest[k]][1]) if k in latest else None))
                for kk, val in st["extra"]:
                    if kk == "x_overlap":
                        bad.append("storage regions of retrievable keys %s overlap" % val)
                    if kk == "x_getvalue_mismatch":
                        bad.append("the typed lookup get_value is not handed exactly the stored bytes (identity decoder OutPoint: other window than get())")
            if prop == "C11":
                idxs = sorted(latest[k] for k in retr if k in latest)
                m = len(idxs)
                if idxs != list(range(len(hist) - m, len(hist))):
                    bad.append("retrievable entries (insertion indices %s of %d) are not a most-recent suffix" % (idxs, len(hist)))
                for k in retr:
                    if k not in latest:
                        bad.append("key %d retrievable but never successfully inserted" % k)
            if prop == "C12":
                tot = sum(len(x) for x in obs.values() if x is not None)
                if tot > tr.cap:
                    bad.append("retrievable values total %d bytes, capacity %d" % (tot, tr.cap))
                budget = tr.cap - 2 * (L - 1) if L > 0 else tr.cap
                acc = 0
                for j in range(len(hist) - 1, -1, -1):
                    acc += len(hist[j][1])
                    if acc > budget:
                        break
                    kj = hist[j][0]
                    if latest.get(kj) == j and obs.get(kj) is None:
                        bad.append("entry #%d (key %d) is not retrievable although the most recent entries down to it total %d <= capacity - 2(L-1) = %d" % (j, kj, acc, budget))
                        break
            if prop == "C13":
                if int(st.get("len", "0")) != len(retr):
                    bad.append("len() = %s, %d keys are retrievable" % (st.get("len"), len(retr)))
                if (st.get("full") == "1") != evicted_once:
                    bad.append("full flag = %s, evictions so far: %s" % (st.get("full"), evicted_once))
                for kk, val in st["extra"]:
                    if kk == "x_contains_mismatch":
                        bad.append("contains() disagrees with get()")
            if bad:
                if empty_stored and prop in ("C06", "C12", "C13"):
                    suppressed += 1
                else:
                    v.append(([c.id], "capacity %d, after operation #%d (%s): %s" % (tr.cap, opi, op, bad[0])))
                break
            prev_obs = dict(obs)
            prev_len, prev_full = st.get("len"), st.get("full")
    return v, suppressed
