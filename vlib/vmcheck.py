"""In-assistant cross-check: a seeded sample of the cases is evaluated INSIDE Coq with vm_compute on
the compiled model (Impl/Render.vo) and must equal the output of the extracted OCaml binary.
Keeps extraction (ExtrOcamlBasic) and ocaml/driver.ml out of the trusted base for those cases.
A disagreement is a tooling failure (exit 2), never a property verdict."""
import hashlib
import os
import random
import re
import subprocess
from concurrent.futures import ThreadPoolExecutor

from .core import BUILD, COQ, sha, log

ENTRY = {"parse_len": "E_parse_len", "scan_len": "E_scan_len", "u8": "E_u8", "u16": "E_u16", "u32": "E_u32", "i32": "E_i32",
         "u64": "E_u64", "read_u8": "E_read_u8", "read_u16": "E_read_u16", "read_u32": "E_read_u32", "read_i32": "E_read_i32",
         "read_u64": "E_read_u64", "read_slice": "E_read_slice", "script": "E_script", "outpoint": "E_outpoint", "txin": "E_txin",
         "txout": "E_txout", "txins": "E_txins", "txouts": "E_txouts", "witness": "E_witness", "witnesses": "E_witnesses",
         "transaction": "E_transaction", "header": "E_header", "block": "E_block"}


def coq_bytes(hexs):
    if hexs == "-":
        return "[]"
    return "[" + "; ".join("x" + hexs[i:i + 2] for i in range(0, len(hexs), 2)) + "]"


def coq_term(line):
    f = line.split(" ")
    if f[0] == "P":
        brk = "None" if f[5] == "-1" else "(Some %s)" % f[5]
        return "run_case %s %s %s %s" % (ENTRY[f[2]], coq_bytes(f[3]), f[4], brk)
    if f[0] == "K":
        ops = []
        for o in f[3:]:
            if not o:
                continue
            p = o.split(":")
            if p[0] == "i":
                ops.append("OpInsert %s %s" % (p[1], coq_bytes(p[2])))
            elif p[0] == "g":
                ops.append("OpGet %s" % p[1])
            elif p[0] == "c":
                ops.append("OpContains %s" % p[1])
            elif p[0] == "v":
                ops.append("OpGetValueTx %s" % p[1])
            elif p[0] == "l":
                ops.append("OpLen")
            else:
                ops.append("OpFull")
        return "run_cache %s [%s]" % (f[2], "; ".join(ops))
    if f[0] == "F":
        return "run_find %s %s" % (coq_bytes(f[2]), coq_bytes(f[3]))
    return None


def _run_one(args):
    idx, chunk, key = args
    d = os.path.join(BUILD, "vm")
    os.makedirs(d, exist_ok=True)
    vf = os.path.join(d, "cases_%s_%d.v" % (key, idx))
    with open(vf, "w") as f:
        f.write("From BS Require Import Impl.Render.\nFrom Coq Require Import String List.\nImport ListNotations.\n"
                "Open Scope string_scope.\nOpen Scope N_scope.\nOpen Scope list_scope.\nSet Printing Width 1000000.\nSet Printing Depth 10000000.\n")
        for n, (cid, term) in enumerate(chunk):
            f.write("Eval vm_compute in (\"@@\", %d, %s).\n" % (n, term))
    p = subprocess.run("ulimit -s unlimited 2>/dev/null; timeout 900 coqc -noglob -Q %s BS %s 2>&1" % (COQ, vf), shell=True, cwd=d, capture_output=True, text=True)
    out = {}
    if p.returncode != 0:
        return None, p.stdout[-2000:]
    text = p.stdout.replace("\n", " ")
    for m in re.finditer(r'=\s*\("@@",\s*(\d+),\s*(\[.*?\])\)\s*:\s*string \* N \* list item', text):
        n = int(m.group(1))
        items = re.findall(r'\("(\w+)",\s*\[([0-9; ]*)\]\)', m.group(2))
        out[chunk[n][0]] = [(t, ",".join(x.strip() for x in v.split(";") if x.strip())) for t, v in items]
    for j in (vf, vf[:-2] + ".vo", vf[:-2] + ".vok", vf[:-2] + ".vos"):
        try:
            os.remove(j)
        except OSError:
            pass
    return out, ""


def crosscheck(lines, model_out, coq_hash, seed, count):
    """lines: candidate case lines; model_out: id -> tokens from the extracted binary."""
    cand = [ln for ln in lines if ln[:2] in ("P ", "K ", "F ") and len(ln) < 1500]
    rng = random.Random("vm/%d" % seed)
    if len(cand) > count:
        cand = rng.sample(cand, count)
    if not cand:
        return {"checked": 0, "mismatches": 0}
    chunkn = 1 if count <= 300 else 16
    todo = [(ln.split(" ")[1], coq_term(ln)) for ln in cand]
    key = sha((coq_hash + "|".join(t for _, t in todo)).encode())[:16]
    cache = os.path.join(BUILD, "vm", "ok_" + key)
    if os.path.exists(cache):
        return {"checked": len(todo), "mismatches": 0, "cached": True}
    chunks = [todo[i::chunkn] for i in range(chunkn)]
    with ThreadPoolExecutor(chunkn) as ex:
        res = list(ex.map(_run_one, [(i, c, key) for i, c in enumerate(chunks) if c]))
    bad = []
    n = 0
    for out, err in res:
        if out is None:
            return {"checked": 0, "mismatches": 0, "error": err}
        for cid, toks in out.items():
            n += 1
            if model_out.get(cid) != toks:
                bad.append((cid, toks[:6], (model_out.get(cid) or [])[:6]))
    if n != len(todo):
        return {"checked": n, "mismatches": 0, "error": "only %d of %d vm_compute results parsed" % (n, len(todo))}
    if not bad:
        os.makedirs(os.path.dirname(cache), exist_ok=True)
        open(cache, "w").write("ok")
    return {"checked": n, "mismatches": len(bad), "first": bad[:1]}
