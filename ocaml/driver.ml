(* driver.ml — no logic: reads one case per line, calls the extracted model,
   prints one canonical line per case.  hex <-> byte list, decimal <-> N. *)
open Model

let n_of_int64 (x : int64) : n =
  (* x is interpreted as unsigned *)
  if x = 0L then N0 else begin
    (* collect bits from least significant *)
    let rec build (x : int64) : positive =
      let lo = Int64.logand x 1L in
      let hi = Int64.shift_right_logical x 1 in
      if hi = 0L then XH
      else if lo = 1L then XI (build hi) else XO (build hi) in
    Npos (build x)
  end

let n_of_string (s : Stdlib.String.t) : n = n_of_int64 (Int64.of_string ("0u" ^ s))

let string_of_n (x : n) : Stdlib.String.t =
  match x with
  | N0 -> "0"
  | Npos p ->
    let rec go (p : positive) (bit : int) (acc : int64) : int64 option =
      if bit >= 64 then None else
      match p with
      | XH -> Some (Int64.logor acc (Int64.shift_left 1L bit))
      | XO q -> go q (bit + 1) acc
      | XI q -> go q (bit + 1) (Int64.logor acc (Int64.shift_left 1L bit)) in
    (match go p 0 0L with Some v -> Printf.sprintf "%Lu" v | None -> "BIG")

let n_of_int (i : int) : n = n_of_int64 (Int64.of_int i)

let byte_table : byte array =
  Array.init 256 (fun i -> match of_N0 (n_of_int i) with Some b -> b | None -> assert false)

let hexval c = match c with
  | '0'..'9' -> Char.code c - 48
  | 'a'..'f' -> Char.code c - 87
  | 'A'..'F' -> Char.code c - 55
  | _ -> failwith "bad hex"

let bytes_of_hex (s : Stdlib.String.t) : byte list =
  if s = "-" then [] else begin
    let n = String.length s / 2 in
    let rec go i acc = if i < 0 then acc else
        go (i - 1) (byte_table.(hexval s.[2*i] * 16 + hexval s.[2*i+1]) :: acc) in
    go (n - 1) []
  end

let ostring_of (s : Model.string) : Stdlib.String.t =
  let b = Buffer.create 16 in
  let rec go s = match s with
    | EmptyString -> ()
    | String (Ascii (b0,b1,b2,b3,b4,b5,b6,b7), r) ->
      let v = (if b0 then 1 else 0) + (if b1 then 2 else 0) + (if b2 then 4 else 0) + (if b3 then 8 else 0)
              + (if b4 then 16 else 0) + (if b5 then 32 else 0) + (if b6 then 64 else 0) + (if b7 then 128 else 0) in
      Buffer.add_char b (Char.chr v); go r in
  go s; Buffer.contents b

let entry_of_string = function
  | "parse_len" -> E_parse_len | "scan_len" -> E_scan_len
  | "u8" -> E_u8 | "u16" -> E_u16 | "u32" -> E_u32 | "i32" -> E_i32 | "u64" -> E_u64
  | "read_u8" -> E_read_u8 | "read_u16" -> E_read_u16 | "read_u32" -> E_read_u32
  | "read_i32" -> E_read_i32 | "read_u64" -> E_read_u64 | "read_slice" -> E_read_slice
  | "script" -> E_script | "outpoint" -> E_outpoint | "txin" -> E_txin | "txout" -> E_txout
  | "txins" -> E_txins | "txouts" -> E_txouts | "witness" -> E_witness | "witnesses" -> E_witnesses
  | "transaction" -> E_transaction | "header" -> E_header | "block" -> E_block
  | s -> failwith ("unknown entry " ^ s)

let print_items (id : Stdlib.String.t) (items : item list) =
  let b = Buffer.create 256 in
  Buffer.add_string b id;
  List.iter (fun (tag, ns) ->
      Buffer.add_char b ' ';
      Buffer.add_string b (ostring_of tag);
      Buffer.add_char b '=';
      let first = ref true in
      List.iter (fun x -> if not !first then Buffer.add_char b ','; first := false;
                  Buffer.add_string b (string_of_n x)) ns) items;
  print_endline (Buffer.contents b)

let parse_op (s : Stdlib.String.t) : cop =
  match String.split_on_char ':' s with
  | ["i"; k; v] -> OpInsert (n_of_string k, bytes_of_hex v)
  | ["g"; k] -> OpGet (n_of_string k)
  | ["c"; k] -> OpContains (n_of_string k)
  | ["v"; k] -> OpGetValueTx (n_of_string k)
  | ["l"] -> OpLen
  | ["f"] -> OpFull
  | _ -> failwith ("bad op " ^ s)

let () =
  try
    while true do
      let line = input_line stdin in
      if String.length line > 0 then begin
        match String.split_on_char ' ' line with
        | "P" :: id :: en :: hex :: param :: brk :: _ ->
          let b = if brk = "-1" then None else Some (n_of_string brk) in
          print_items id (run_case (entry_of_string en) (bytes_of_hex hex) (n_of_string param) b)
        | "R" :: id :: en :: hex :: param :: brk :: _ ->
          let b = if brk = "-1" then None else Some (n_of_string brk) in
          print_items id (run_ref_case (entry_of_string en) (bytes_of_hex hex) (n_of_string param) b)
        | "K" :: id :: cap :: ops ->
          print_items id (run_cache (n_of_string cap) (List.map parse_op (List.filter (fun s -> s <> "") ops)))
        | "O" :: id :: a :: b :: _ ->
          let c = match lex_compare (bytes_of_hex a) (bytes_of_hex b) with Lt -> "0" | Eq -> "1" | Gt -> "2" in
          print_endline (id ^ " cmp=" ^ c)
        | "F" :: id :: blk :: txid :: _ -> print_items id (run_find (bytes_of_hex blk) (bytes_of_hex txid))
        | "D" :: id :: _ -> print_endline id
        | _ -> failwith ("bad line " ^ line)
      end
    done
  with End_of_file -> ()
