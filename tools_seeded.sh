#!/bin/bash
# usage: tools_seeded.sh <patch.diff> <props...> : apply a seeded change to /repo, run the checks, undo it
set -u
patch=$1; shift
cd /repo && git apply "$patch" || { echo "APPLY FAILED"; exit 3; }
cd /verif
for p in "$@"; do
  out=$(./check $p --tier quick 2>&1)
  echo "$p -> $(echo "$out" | grep -E 'VIOLATION|KNOWN' | head -2 | tr '\n' ' ') | $(echo "$out" | grep -E '^violation:' | head -1 | cut -c1-260)"
done
git -C /repo checkout -- . 
