#!/bin/bash
# tools_own.sh [repo]: every seeded change against the check of ITS OWN property only (quick tier).
# Output: .build/own.txt  (one line per change: id property oracle|corr|MISSED)
here="$(cd "$(dirname "$0")" && pwd)"
repo=${1:-/repo}
export VERIF_REPO=$repo
mkdir -p $here/.build; out=$here/.build/own.txt; : > $out
cd $here && ./setup.sh > $here/.build/own-setup.log 2>&1
only=${OWN_ONLY:-.}
for d in $here/seeded/C* $here/seeded/R[0-9A-Z]_*; do
  id=$(basename $d)
  echo "$id" | grep -Eq "$only" || continue
  [ -f $d/meta.json ] || continue
  prop=$(python3 -c "import json;print(json.load(open('$d/meta.json')).get('property_id') or json.load(open('$d/meta.json')).get('property'))" 2>/dev/null)
  git -C $repo checkout -q -- . ; git -C $repo apply $d/patch.diff || { echo "$id $prop APPLY-FAILED" >> $out; continue; }
  res=$(cd $here && ./check $prop --tier quick 2>/dev/null)
  if echo "$res" | grep -q "^VIOLATION property=$prop"; then
    o=$(python3 -c "import json;e=json.load(open('$here/evidence/$prop.json'));print('oracle' if e['coverage']['oracle_violations'] else ('corr' if sum(e['coverage']['correspondence']['projected_disagreements'].values()) else 'proof'))" 2>/dev/null)
    echo "$id $prop $o" >> $out
  else
    echo "$id $prop MISSED" >> $out
  fi
  git -C $repo checkout -q -- .
done
echo DONE >> $out
