#!/bin/bash
# MANIFEST.setup_cmd: build the framework from files on disk only (offline).
set -e
cd "$(dirname "$0")"
HERE=$(pwd)
export CARGO_NET_OFFLINE=true
mkdir -p .build
python3 - <<'PY'
import sys, os
sys.path.insert(0, os.getcwd())
from vlib import core
st = core.build_coq()
print("coq build rc", st["rc"], "vos", len(st["vos"]), "wall", st.get("wall_s"))
if "Impl/Render.vo" not in st["vos"]:
    print(st["log"][-4000:]); sys.exit(1)
print(core.build_model(st))
try:
    print(core.build_harness())
except core.HarnessBuildError as e:
    # not a set-up failure: every check reports it as a broken correspondence (VIOLATION ... no-failing-input-found)
    print("note: the harness does not compile against the current /repo tree:", str(e)[:500])
PY
