#!/usr/bin/env python3
"""tools_model_mutants.py — development aid (not registered in MANIFEST): are the theorems tight?
Each mutant edits the Rust-faithful MODEL (coq/Impl/*.v, coq/Base/Sha256.v) the way a class of code defect would
change the code (most mirror a seeded change or one of the repaired defects F1/F3/F4/F5), in a scratch copy of the
development, and rebuilds with `make -k`.  Expected: the development no longer compiles, and the property files
that stop compiling are those whose statement the defect contradicts.  A mutant under which everything still
compiles would mean that no theorem pins that behaviour of the model (only the correspondence would).
Output: one line per mutant: the Properties/*.vo that fail to build, and the first proof file that breaks."""
import os
import re
import shutil
import subprocess
import sys
from concurrent.futures import ThreadPoolExecutor

ROOT = os.path.dirname(os.path.abspath(__file__))
COQ = os.path.join(ROOT, "coq")
SCR = os.path.join(ROOT, ".build", "model_mutants")

M = [
 # (id, file, old, new, what, properties expected to break)
 ("m01", "Impl/Leaf.v", "scan_wide s c 3 2 (fun n => 253 <=? n)", "scan_wide s c 3 2 (fun n => 252 <=? n)", "compact size: FD form accepted from 252 (non-minimal accepted)", "C08 C03 C14"),
 ("m02", "Impl/Leaf.v", "scan_wide s c 9 8 (fun n => U32MAX <? n)", "scan_wide s c 9 8 (fun n => U32MAX <=? n)", "compact size: FF form accepted from 2^32-1 (seeded C08)", "C08"),
 ("m03", "Impl/Leaf.v", "Definition len_slice_len (l : len) : N := sat_add (len_consumed l) (len_n l).", "Definition len_slice_len (l : len) : N := (len_consumed l + len_n l) mod 18446744073709551616.", "Len::slice_len wraps instead of saturating (defect F3 / R3_5)", "C08"),
 ("m04", "Impl/Access.v", "it_elements := sat_sub (it_elements it) 1;", "it_elements := it_elements it;", "iterator never decrements its remaining count (defect F4)", "C17"),
 ("m05", "Impl/Cache.v", "(r_begin a <? r_end b) && (r_begin b <? r_end a).", "(r_begin a <? r_end b) && (r_begin b <=? r_end a).", "Range::overlaps non-strict on one side (adjacent entries evicted)", "C12"),
 ("m06", "Impl/Cache.v", "c_indexes := (key, rg) :: idx'; c_queue := q' ++ [key]; c_full := full |})", "c_indexes := (key, rg) :: idx'; c_queue := q' ++ [key]; c_full := true |})", "full flag raised by every successful insertion", "C13"),
 ("m07", "Impl/Cache.v", "(COk (removed + n),", "(COk n,", "insert forgets the evictions of the tail pass (RD_4)", "C13"),
 ("m08", "Impl/Visit.v", "if negb e2 && ws_all_empty (parsed wits) then lift (Err SegwitFlagWithoutWitnesses) else", "if ws_all_empty (parsed wits) then lift (Err SegwitFlagWithoutWitnesses) else", "all-empty check without the inputs conjunct: zero-input segwit rejected (RD_7)", "C03"),
 ("m09", "Impl/Visit.v", "| Some n => b1 <- uadd n 4 ;; base <- uadd b1 4 ;; b3 <- umul base 3 ;; uadd b3 total", "| Some n => b1 <- uadd n 4 ;; base <- uadd b1 4 ;; b3 <- umul base 4 ;; uadd b3 total", "weight = 4*base + total", "C16"),
 ("m10", "Impl/Visit.v", "io_len <- lift (uadd (s_len (tis_slice (parsed inputs))) (s_len (tos_slice (parsed outputs)))) ;;", "io_len <- lift (Ok (s_len (tis_slice (parsed inputs)))) ;;", "cached length of inputs only (outputs forgotten): wrong preimage and weight", "C10 C16"),
 ("m11", "Impl/Visit.v", "else lift (Err (UnknownSegwitFlag flag))", "else lift (Err (UnknownSegwitFlag 0))", "UnknownSegwitFlag carries a constant instead of the byte (R6_2 class)", "C14"),
 ("m12", "Base/Sha256.v", "0x428a2f98; 0x71374491;", "0x428a2f99; 0x71374491;", "one bit of the first SHA-256 round constant", "C10"),
 ("m13", "Impl/Access.v", "Ok (sha_finish_d (sha_update (sha_update (sha_update sha_init (bytes a)) (bytes b)) (bytes c))).", "Ok (sha_finish_d (sha_update (sha_update sha_init (bytes a)) (bytes c))).", "txid() forgets to feed the middle preimage part", "C10"),
 ("m14", "Impl/Access.v", "  | ETransaction _ _ _ a b c _ => bytes_eqb (sha256d (wbytes inp a ++ wbytes inp b ++ wbytes inp c)) id", "  | ETransaction w _ _ a b c _ => bytes_eqb (sha256d (wbytes inp w)) id", "FindTransaction compares the wtxid (R8_10)", "C19"),
 ("m15", "Impl/Leaf.v", "'(sb, r) <- split_at_checked s (sat_add consumed n) ;;", "'(sb, r) <- split_at_checked s ((consumed + n) mod 18446744073709551616) ;;", "Script::parse: wrapping instead of saturating add (C04b)", "C01 C03"),
]


def run(m):
    mid, f, old, new, what, exp = m
    d = os.path.join(SCR, mid)
    shutil.rmtree(d, ignore_errors=True)
    shutil.copytree(COQ, d, ignore=shutil.ignore_patterns("*.glob", ".*.aux", "*.vok", "*.vos"))
    p = os.path.join(d, f)
    s = open(p).read()
    if s.count(old) != 1:
        shutil.rmtree(d, ignore_errors=True)
        return mid, what, exp, None, "PATTERN NOT FOUND (%d)" % s.count(old)
    open(p, "w").write(s.replace(old, new))
    for n in os.listdir(os.path.join(d, "Properties")):
        if n.endswith(".vo"):
            os.remove(os.path.join(d, "Properties", n))      # a property holds again only if its file is rebuilt
    subprocess.run("coq_makefile -f _CoqProject -o Makefile > /dev/null 2>&1", shell=True, cwd=d)
    r = subprocess.run("timeout 1500 make -k -j4 2>&1", shell=True, cwd=d, capture_output=True, text=True)
    props = sorted(n for n in os.listdir(os.path.join(COQ, "Properties")) if n.endswith(".v"))
    failed = []
    for n in props:
        if not os.path.exists(os.path.join(d, "Properties", n + "o")):
            failed.append(n[:-2])
    first = re.search(r'File "\./([^"]+)", line (\d+)', r.stdout)
    shutil.rmtree(d, ignore_errors=True)
    return mid, what, exp, failed, (first.group(1) + ":" + first.group(2)) if first else "-"


def main():
    os.makedirs(SCR, exist_ok=True)
    only = sys.argv[1:]
    ms = [m for m in M if not only or m[0] in only]
    with ThreadPoolExecutor(4) as ex:
        for mid, what, exp, failed, first in ex.map(run, ms):
            if failed is None:
                print("%s %-70s %s" % (mid, what[:70], first))
                continue
            ok = all(e in failed for e in exp.split())
            print("%s %-78s expected {%s} broken {%s} first %s %s" % (mid, what[:78], exp, " ".join(failed), first, "OK" if ok else ("SURVIVES" if not failed else "PARTIAL")))
    shutil.rmtree(SCR, ignore_errors=True)


main()
