#!/bin/bash
# tools_matrix.sh [repo]: for every seeded change (and every harmless refactoring), apply it to the given checkout
# (default /repo; pass a scratch worktree / $VP_RUN_REPO to leave /repo alone), run every check (quick, one process), undo it.
# Output: .build/matrix.txt next to this script.
here="$(cd "$(dirname "$0")" && pwd)"
repo=${1:-/repo}
export VERIF_REPO=$repo
mkdir -p $here/.build; out=$here/.build/matrix.txt; : > $out
cd $here && ./setup.sh > $here/.build/matrix-setup.log 2>&1
only=${MATRIX_ONLY:-.}    # MATRIX_ONLY=<regex>: restrict to the ids matching it
run_one() {
  id=$1; patch=$2
  echo "$id" | grep -Eq "$only" || return
  git -C $repo checkout -q -- . ; git -C $repo apply $patch || { echo "$id APPLY-FAILED" >> $out; return; }
  res=$(cd $here && ./check ALL --tier quick 2>$here/.build/matrix-$id.err)
  line="$id:"
  for p in $(echo "$res" | grep '^VIOLATION' | sed 's/.*property=\(C[0-9]*\).*/\1/'); do
    o=$(python3 -c "import json;e=json.load(open('$here/evidence/$p.json'));print('oracle' if e['coverage']['oracle_violations'] else ('corr' if sum(e['coverage']['correspondence']['projected_disagreements'].values()) else 'proof'))" 2>/dev/null)
    line="$line $p=$o"
  done
  if echo "$res" | grep -q "exit=2"; then line="$line TOOLING-FAILURE"; fi
  echo "$line" >> $out
  git -C $repo checkout -q -- .
}
for d in $here/seeded/C* $here/seeded/R[0-9A-Z]_*; do run_one $(basename $d) $d/patch.diff; done
for h in $here/seeded/harmless/h*.diff; do run_one harmless-$(basename $h .diff) $h; done
git -C $repo status --short >> $out
echo DONE >> $out
