#!/usr/bin/env python3
"""tools_mutants.py <repo-checkout> [max] — systematic first-order mutants of the crate's source, as a search
for holes in the generators/harness (not a check, never registered in MANIFEST).

For every mutant (relational / arithmetic / boolean operator swaps, integer literals +-1, saturating->wrapping,
deleted statements) of the non-test code under <repo>/src:
  1. rebuild the harness against the mutated checkout (stillborn mutants are skipped),
  2. run every quick-tier stream through it and compare the raw output with the unmutated baseline,
  3. when the output is IDENTICAL (no check can see the mutant), run the crate's own unit tests to classify it.
Survivors of both are either equivalent mutants or holes; they are written to .build/mutants.json with their diff
for manual triage.  Run it on a scratch checkout only (vp run --with-repo), never on /repo."""
import json
import os
import re
import subprocess
import sys
import time

HERE = os.path.dirname(os.path.abspath(__file__))
repo = sys.argv[1]
maxn = int(sys.argv[2]) if len(sys.argv) > 2 else 100000
start = int(sys.argv[3]) if len(sys.argv) > 3 else 0
os.environ["VERIF_REPO"] = repo
sys.path.insert(0, HERE)
from vlib import core  # noqa: E402
from gen import streams  # noqa: E402

OUT = os.path.join(core.BUILD, "mutants.json")
STREAMS = ["len", "num", "small", "struct", "cache", "order", "redb"]


def code_lines(path):
    """(line_no, text) of non-test, non-comment code lines"""
    src = open(path).read().split("\n")
    out = []
    for i, ln in enumerate(src):
        if re.match(r"\s*#\[cfg\(test\)\]", ln):
            break
        st = ln.strip()
        if not st or st.startswith("//") or st.startswith("#[") or st.startswith("#!["):
            continue
        out.append((i, ln))
    return src, out


def split_comment(ln):
    m = re.search(r"\s//", ln)
    if m and ln.count('"', 0, m.start()) % 2 == 0:
        return ln[:m.start()], ln[m.start():]
    return ln, ""


REL = [(" < ", " <= "), (" <= ", " < "), (" > ", " >= "), (" >= ", " > "), (" == ", " != "), (" != ", " == "),
       (" < ", " > "), (" > ", " < ")]
ARI = [(" + ", " - "), (" - ", " + "), (" += ", " -= "), (" -= ", " += "), (" * ", " + "), (" / ", " * "), (" && ", " || "), (" || ", " && "),
       (" & ", " | "), ("&=", "|=")]
CALLS = [("saturating_add", "wrapping_add"), ("saturating_sub", "wrapping_sub"), ("saturating_add", "saturating_sub"),
         (".is_some()", ".is_none()"), (".is_none()", ".is_some()"), (".is_empty()", ".len() == 1"), ("true", "false"), ("false", "true"),
         ("Continue(())", "Break(())"), ("u16::MAX", "u8::MAX"), ("u32::MAX", "u16::MAX"), ("as u32", "as u16"), ("as usize", "as u32 as usize"),
         ("from_le_bytes", "from_be_bytes"), (".first()", ".last()"), ("MoreBytesNeeded", "NonMinimalVarInt"), ("NonMinimalVarInt", "MoreBytesNeeded"),
         ("push_front", "push_back"), ("pop_back", "pop_front"), ("if !", "if ")]


def mutants_of(path):
    src, lines = code_lines(path)
    for i, ln in lines:
        code, com = split_comment(ln)
        if "fn " in code and code.rstrip().endswith("{") and "->" in code:
            pass
        cands = []
        for a, b in REL + ARI + CALLS:
            pos = 0
            while True:
                j = code.find(a, pos)
                if j < 0:
                    break
                # skip generics / arrows / lifetimes
                if a.strip() in ("<", ">") and ("'" in code[max(0, j - 3):j + 4] or "->" in code[max(0, j - 2):j + 3] or "=>" in code[max(0, j - 2):j + 3]):
                    pos = j + 1
                    continue
                cands.append((a.strip() + "->" + b.strip(), code[:j] + b + code[j + len(a):]))
                pos = j + 1
        for m in re.finditer(r"(?<![\w.'])(0x[0-9a-fA-F_]+|\d[\d_]*)(?![\w.]*\")", code):
            tok = m.group(1)
            if code[max(0, m.start() - 1):m.start()] in ("u", "i"):
                continue
            try:
                v = int(tok.replace("_", ""), 0)
            except ValueError:
                continue
            for d in (1, -1):
                if v + d < 0:
                    continue
                nv = hex(v + d) if tok.startswith("0x") else str(v + d)
                cands.append(("lit%s->%s" % (tok, nv), code[:m.start()] + nv + code[m.end():]))
        st = code.strip()
        # statement deletion
        if st.endswith(";") and not st.startswith("let ") and not st.startswith("use ") and not st.startswith("return") and "=>" not in st and not st.startswith("pub ") and not st.startswith("type ") and not st.startswith("const "):
            cands.append(("delete", re.match(r"\s*", code).group(0) + "();" if False else ""))
        if st.startswith("let _") and st.endswith("?;"):
            cands.append(("delete", ""))
        if re.match(r"return Err\(.*\);$", st):
            cands.append(("delete", ""))
        seen = set()
        for kind, new in cands:
            if new == code or new in seen:
                continue
            seen.add(new)
            yield i, kind, ln, new + com


def sh(cmd, cwd=None, env=None, timeout=1200):
    try:
        p = subprocess.run(cmd, shell=True, cwd=cwd, env=env, capture_output=True, text=True, timeout=timeout)
        return p.returncode, p.stdout + p.stderr
    except subprocess.TimeoutExpired:
        return -9, "timeout"


def run_all(exe, lines_by_stream, tag):
    outs = {}
    for s, lines in lines_by_stream.items():
        o, rc = core.run_lines(exe, lines, tag + "-" + s, timeout=600)
        outs[s] = (rc, o)
    return outs


def main():
    sh("git checkout -q -- .", cwd=repo)
    lines_by_stream = {}
    for s in STREAMS:
        r = getattr(streams, "stream_" + s)("quick", 1)
        lines_by_stream[s] = r[0] if isinstance(r, tuple) else r
    exe, _ = core.build_harness()
    base_exe = os.path.join(core.BUILD, "bin", "base-harness")
    os.makedirs(os.path.dirname(base_exe), exist_ok=True)
    sh("cp %s %s" % (exe, base_exe))
    base = run_all(base_exe, lines_by_stream, "mutbase")
    files = []
    for d, _, fs in os.walk(os.path.join(repo, "src")):
        for f in sorted(fs):
            if f.endswith(".rs"):
                files.append(os.path.join(d, f))
    files.sort()
    allm = []
    for f in files:
        for m in mutants_of(f):
            allm.append((f,) + m)
    print("mutants:", len(allm), flush=True)
    results = []
    if os.path.exists(OUT):
        results = json.load(open(OUT))
    done = {(r["file"], r["line"], r["kind"], r["new"]) for r in results}
    n = 0
    for idx, (f, i, kind, old, new) in enumerate(allm):
        if idx < start:
            continue
        rel = os.path.relpath(f, repo)
        if (rel, i + 1, kind, new) in done:
            continue
        if n >= maxn:
            break
        n += 1
        src = open(f).read().split("\n")
        assert src[i] == old
        src2 = list(src)
        if new == "":
            del src2[i]
        else:
            src2[i] = new
        open(f, "w").write("\n".join(src2))
        rec = {"file": rel, "line": i + 1, "kind": kind, "old": old.strip(), "new": new.strip(), "idx": idx}
        t0 = time.time()
        try:
            try:
                exe, _ = core.build_harness()
            except SystemExit:
                rec["status"] = "stillborn"
                continue
            mexe = os.path.join(core.BUILD, "bin", "mut-harness")
            sh("cp %s %s" % (exe, mexe))
            diff_streams = []
            for s, lines in lines_by_stream.items():
                o, rc = core.run_lines(mexe, lines, "mut-" + s, timeout=300)
                if rc != base[s][0] or o != base[s][1]:
                    diff_streams.append(s)
                    break
            if diff_streams:
                rec["status"] = "visible"
                rec["streams"] = diff_streams
            else:
                rc, out = sh("cargo test --offline --lib 2>&1 | tail -5", cwd=repo, env=dict(os.environ, CARGO_NET_OFFLINE="true", CARGO_TARGET_DIR=os.path.join(core.BUILD, "cargo-mut")), timeout=900)
                ok = "test result: ok" in out
                rc2, out2 = (0, "")
                if ok:
                    rc2, out2 = sh("cargo test --offline --lib --features slice_cache,bitcoin,bitcoin_hashes,sha2,redb 2>&1 | tail -5", cwd=repo, env=dict(os.environ, CARGO_NET_OFFLINE="true", CARGO_TARGET_DIR=os.path.join(core.BUILD, "cargo-mut")), timeout=900)
                    ok = "test result: ok" in out2
                rec["status"] = "SURVIVOR" if ok else "invisible-but-killed-by-crate-tests"
        finally:
            open(f, "w").write("\n".join(src))
            rec["wall_s"] = round(time.time() - t0, 1)
            results.append(rec)
            json.dump(results, open(OUT, "w"), indent=0)
            # drop cached outputs of this mutant
            for fn in os.listdir(os.path.join(core.BUILD, "cache")):
                if fn.startswith("mut-"):
                    os.remove(os.path.join(core.BUILD, "cache", fn))
            print(idx, rec["status"], rel, i + 1, kind, "|", rec["old"][:70], "=>", rec["new"][:70], flush=True)
    sh("git checkout -q -- .", cwd=repo)
    print("DONE", flush=True)


if __name__ == "__main__":
    main()
