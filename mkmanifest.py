#!/usr/bin/env python3
"""Regenerates MANIFEST.json from the table below (claimed properties + texts)."""
import json
props = [json.loads(l) for l in open('/verif/properties.jsonl')]
BASE = "Trusted: Coq 8.16.1 kernel (vm_compute used in Examples/_refuted witnesses); no axioms (Print Assumptions on every theorem of Properties/%s.v: closed under the global context); the hand-written Impl model (coq/Impl/*.v) of the Rust source, tied to /repo on every run by the correspondence check (harness/ built against /repo's working tree vs the model extracted with ExtrOcamlBasic only + ocaml/driver.ml); 64-bit target."
CLAIMED = {
 "C06": ("proof", "Coq: ring-layout invariant over every insertion history (Proofs/CacheRing.v): a lookup returns the latest bytes, fresh key retrievable, regions disjoint, no panic; the typed lookup get_value::<Transaction> is from_bytes of exactly those bytes (Proofs/CacheValue.v); F2 (zero-length values) is a recorded known finding with a refutation witness. Model tied to the crate by an exhaustive small-capacity + random-history correspondence check incl. layout snapshots; independent oracle on the crate's output.", "C06"),
 "C08": ("proof", "Coq theorems on the Rust-faithful model of scan_len/parse_len (Proofs/Len.v): accepts iff minimal encoding, counter, agreement of both decoders, saturation, no panic; correspondence check exhaustive on 1- and 3-byte forms, boundary-dense on 5/9-byte forms; independent oracle.", "C08"),
 "C11": ("proof", "Coq: for EVERY history the retrievable keys are the keys of a most-recent suffix of the successful insertions, evicted keys stay absent (Proofs/CacheFifo.v); correspondence check + oracle.", "C11"),
 "C12": ("proof", "Coq: total <= capacity, eviction only under pressure, recent entries kept (even with slack L-1), nothing evicted while everything fits (Proofs/CacheRing.v, under NoEmptyStored; F2 known finding); correspondence + oracle.", "C12"),
 "C13": ("proof", "Coq: failed insert returns the same state, present/oversized rejected, evicted key accepted again, count/len/contains exact, full flag iff evicted (Proofs/CacheFifo.v, CacheRing.v); correspondence + oracle.", "C13"),
 "C18": ("proof", "Coq theorems on the model of src/number.rs (Proofs/Numbers.v) for every width and value; correspondence check exhaustive for u8/u16, boundary-dense u32/i32/u64; independent oracle.", "C18"),
}
import sys
extra = {}
try:
    extra = json.load(open('/verif/claimed_extra.json'))
except Exception:
    pass
for k, v in extra.items():
    CLAIMED[k] = tuple(v)
checks = []
for p in props:
    pid = p['id']
    if pid in CLAIMED:
        cat, text, ref = CLAIMED[pid]
        checks.append({"property_id": pid, "quick_cmd": "./check %s --tier quick" % pid, "thorough_cmd": "./check %s --tier thorough" % pid,
                       "evidence_file": "/verif/evidence/%s.json" % pid, "replay_cmd_template": "./check %s --replay {path}" % pid,
                       "engine": "coq-model+correspondence",
                       "level_claimed": {"category": cat, "text": text, "design_ref": "DESIGN.md section 6 (%s)" % ref},
                       "level_note": (BASE % pid) if cat == "proof" else "Measurement with a counting global allocator on every generated case + a no_std/no-allocator link probe; not a proof (DESIGN.md C05).",
                       "technique": "Coq proof about a hand-written model + differential correspondence check" if cat == "proof" else "allocation counting + no_std link probe"})
NA_REASON = {"C05": "machine-checked proof cannot decide heap allocation: it is an effect of the compiled artefact on the allocator; the Gallina model has no heap, and an allocation counter written into it would be zero by construction (DESIGN.md 6/C05). Not claimed. An auxiliary, unclaimed measurement exists (./check C05: counting global allocator on every generated case + no_std/no-allocator link probe)."}
na = [{"property_id": p['id'], "reason": NA_REASON.get(p['id'], "not claimed")} for p in props if p['id'] not in CLAIMED]
m = {"version": 1, "setup_cmd": "./setup.sh",
     "hooks": {"guard": "bitcoin_slices_verif", "enable": "RUSTFLAGS=\"--cfg bitcoin_slices_verif\" (set by ./check when it builds harness/ against /repo)",
               "baseline_off_cmd": "cd /repo && cargo test --workspace --no-fail-fast --offline", "source_commits": ["a1a51bb"], "add_only": True},
     "engines": [{"name": "coq-model+correspondence", "path": "/verif/check", "serves_properties": sorted(CLAIMED),
                  "kind_free_text": "Coq 8.16.1 development (coq/), extracted model (ocaml/), Rust harness (harness/), generators and oracles (gen/, vlib/)"}],
     "checks": checks, "not_applicable": na,
     "notes": "See DESIGN.md. fix: commits in /repo: c193047 (F1), 592c382 (F3), f6b209c (F4), 100db9e (F5); hook commit a1a51bb."}
json.dump(m, open('/verif/MANIFEST.json', 'w'), indent=1)
print("claimed", sorted(CLAIMED))
