// C05 link probe: a no_std crate with a panic handler and NO global allocator that instantiates every
// parse/visit entry point and accessor of bitcoin_slices (default features).  rustc refuses to link it
// ("no global memory allocator found") as soon as anything reachable references `alloc`.
#![no_std]
#![allow(deprecated)]
use bitcoin_slices::{bsl, number, Parse, Visit, Visitor};
use core::ops::ControlFlow;

#[panic_handler]
fn panic(_: &core::panic::PanicInfo) -> ! {
    loop {}
}

struct V(u64);
impl Visitor for V {
    fn visit_block_header(&mut self, h: &bsl::BlockHeader) -> ControlFlow<()> {
        self.0 ^= h.time() as u64 ^ h.nonce() as u64 ^ h.version() as u64 ^ h.prev_blockhash()[0] as u64 ^ h.merkle_root()[0] as u64 ^ h.block_hash_preimage().len() as u64;
        ControlFlow::Continue(())
    }
    fn visit_transaction(&mut self, tx: &bsl::Transaction) -> ControlFlow<()> {
        let (a, b, c) = tx.txid_preimage();
        self.0 ^= tx.weight() ^ tx.version() as u64 ^ tx.locktime() as u64 ^ (a.len() + b.len() + c.len()) as u64;
        if self.0 == 42 { ControlFlow::Break(()) } else { ControlFlow::Continue(()) }
    }
    fn visit_tx_in(&mut self, _vin: usize, t: &bsl::TxIn) -> ControlFlow<()> {
        self.0 ^= t.sequence() as u64 ^ t.prevout().vout() as u64 ^ t.prevout().txid()[0] as u64 ^ t.script_sig().len() as u64;
        ControlFlow::Continue(())
    }
    fn visit_tx_out(&mut self, _vout: usize, t: &bsl::TxOut) -> ControlFlow<()> {
        self.0 ^= t.value() ^ t.script_pubkey().len() as u64;
        ControlFlow::Continue(())
    }
    fn visit_witness_element(&mut self, _i: usize, el: &[u8]) {
        self.0 ^= el.len() as u64;
    }
}

#[no_mangle]
pub extern "C" fn probe(ptr: *const u8, len: usize) -> u64 {
    let s = unsafe { core::slice::from_raw_parts(ptr, len) };
    let mut v = V(0);
    let mut acc = 0u64;
    if let Ok(p) = bsl::Block::visit(s, &mut v) { acc ^= p.consumed() as u64 ^ p.parsed().total_transactions() as u64 ^ p.parsed().header().time() as u64; }
    if let Ok(p) = bsl::Block::parse(s) { acc ^= p.consumed() as u64; }
    if let Ok(p) = bsl::BlockHeader::visit(s, &mut v) { acc ^= p.consumed() as u64; }
    if let Ok(p) = bsl::Transaction::visit(s, &mut v) { acc ^= p.parsed().weight(); let _ = p.parsed().self_visit(&mut v); }
    if let Ok(p) = bsl::TxIns::visit(s, &mut v) { acc ^= p.parsed().n() as u64 ^ p.parsed().is_empty() as u64; }
    if let Ok(p) = bsl::TxOuts::visit(s, &mut v) {
        acc ^= p.parsed().n() as u64;
        let mut it = p.parsed().iter();
        acc ^= it.len() as u64;
        while let Some(o) = it.next() { acc ^= o.value() ^ it.len() as u64; }
        for o in p.parsed() { acc ^= o.script_pubkey().len() as u64; }
    }
    if let Ok(p) = bsl::Witness::visit(s, &mut v) { acc ^= p.parsed().is_empty() as u64; }
    if let Ok(p) = bsl::Witnesses::visit(s, len, &mut v) { acc ^= p.parsed().all_empty() as u64; }
    if let Ok(p) = bsl::Witnesses::parse(s, 3) { acc ^= p.consumed() as u64; }
    if let Ok(p) = bsl::Script::parse(s) { acc ^= p.parsed().script().len() as u64; }
    if let Ok(p) = bsl::OutPoint::parse(s) { acc ^= p.parsed().vout() as u64 ^ p.parsed().txid()[0] as u64; }
    if let Ok(p) = bsl::TxIn::parse(s) { acc ^= p.parsed().sequence() as u64; }
    if let Ok(p) = bsl::TxOut::parse(s) { acc ^= p.parsed().value(); }
    if let Ok(l) = bsl::parse_len(s) { acc ^= l.n() ^ l.consumed() as u64 ^ l.slice_len() as u64; }
    let mut c = 0usize;
    if let Ok(n) = bsl::scan_len(s, &mut c) { acc ^= n ^ c as u64; }
    if let Ok(p) = number::U8::parse(s) { let x: u8 = p.parsed().into(); acc ^= x as u64; }
    if let Ok(p) = number::U16::parse(s) { let x: u16 = p.parsed().into(); acc ^= x as u64; let _ = p.parsed_owned().to_len(); }
    if let Ok(p) = number::U32::parse(s) { let x: u32 = p.parsed().into(); acc ^= x as u64; let _ = p.parsed_owned().to_len(); }
    if let Ok(p) = number::I32::parse(s) { let x: i32 = p.parsed().into(); acc ^= x as u64; }
    if let Ok(p) = number::U64::parse(s) { let x: u64 = p.parsed().into(); acc ^= x; let _ = p.parsed_owned().to_len(); }
    acc ^= number::read_u8(s).unwrap_or(0) as u64 ^ number::read_u16(s).unwrap_or(0) as u64 ^ number::read_u32(s).unwrap_or(0) as u64
        ^ number::read_i32(s).unwrap_or(0) as u64 ^ number::read_u64(s).unwrap_or(0);
    if let Ok(p) = bitcoin_slices::read_slice(s, 3) { acc ^= p.consumed() as u64; }
    acc ^ v.0
}
