#!/bin/bash
# tools_goal.sh <file.v> <line>: show the proof state just before <line> (scratch copy under /tmp, never in the development)
f=$1; n=$2
mkdir -p /tmp/goal
head -n $((n-1)) "$f" > /tmp/goal/G.v
echo 'Show. Abort.' >> /tmp/goal/G.v
cd /verif/coq && coqc -Q . BS /tmp/goal/G.v 2>&1 | head -${3:-60}
