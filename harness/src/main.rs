// bsharness — implementation side of the correspondence check.
// Reads one case per line on stdin, runs the real crate (rebuilt from /repo's
// working tree), prints one canonical line per case.  Tokens without the `x_`
// prefix are produced identically by the Coq model (ocaml/driver.ml); `x_`
// tokens are implementation-only observations used by the property oracles.
#![allow(deprecated)]
#![allow(clippy::all)]

use bitcoin_slices::bitcoin;
use bitcoin_slices::bitcoin::consensus::encode::deserialize_partial;
use bitcoin_slices::bitcoin::hashes::Hash;
use bitcoin_slices::redb;
use bitcoin_slices::redb::{ReadableTable, RedbKey, RedbValue};
use bitcoin_slices::{bsl, number, EmptyVisitor, Error, Parse, SliceCache, Visit, Visitor};
use core::ops::ControlFlow;
use std::alloc::{GlobalAlloc, Layout, System};
use std::fmt::Write as _;
use std::io::{BufRead, Write};
use std::panic::{catch_unwind, AssertUnwindSafe};
use std::sync::atomic::{AtomicBool, AtomicUsize, Ordering};

// ---------- counting allocator (C05) ----------
struct Counting;
static ALLOCS: AtomicUsize = AtomicUsize::new(0);
static ARMED: AtomicBool = AtomicBool::new(false);
unsafe impl GlobalAlloc for Counting {
    unsafe fn alloc(&self, l: Layout) -> *mut u8 {
        if ARMED.load(Ordering::Relaxed) {
            ALLOCS.fetch_add(1, Ordering::Relaxed);
        }
        System.alloc(l)
    }
    unsafe fn dealloc(&self, p: *mut u8, l: Layout) {
        System.dealloc(p, l)
    }
    unsafe fn alloc_zeroed(&self, l: Layout) -> *mut u8 {
        if ARMED.load(Ordering::Relaxed) {
            ALLOCS.fetch_add(1, Ordering::Relaxed);
        }
        System.alloc_zeroed(l)
    }
    unsafe fn realloc(&self, p: *mut u8, l: Layout, n: usize) -> *mut u8 {
        if ARMED.load(Ordering::Relaxed) {
            ALLOCS.fetch_add(1, Ordering::Relaxed);
        }
        System.realloc(p, l, n)
    }
}
#[global_allocator]
static GLOBAL: Counting = Counting;

fn count_allocs<R>(f: impl FnOnce() -> R) -> (R, usize) {
    let before = ALLOCS.load(Ordering::Relaxed);
    ARMED.store(true, Ordering::Relaxed);
    let r = f();
    ARMED.store(false, Ordering::Relaxed);
    (r, ALLOCS.load(Ordering::Relaxed) - before)
}

// ---------- helpers ----------
fn unhex(s: &str) -> Vec<u8> {
    if s == "-" {
        return vec![];
    }
    let b = s.as_bytes();
    let h = |c: u8| -> u8 {
        match c {
            b'0'..=b'9' => c - b'0',
            b'a'..=b'f' => c - b'a' + 10,
            b'A'..=b'F' => c - b'A' + 10,
            _ => panic!("bad hex"),
        }
    };
    (0..b.len() / 2).map(|i| h(b[2 * i]) * 16 + h(b[2 * i + 1])).collect()
}
/// bytes as comma-separated decimals (the model's rendering of a byte list)
fn dec(b: &[u8]) -> String {
    b.iter().map(|x| x.to_string()).collect::<Vec<_>>().join(",")
}
fn hex(b: &[u8]) -> String {
    let mut s = String::with_capacity(b.len() * 2);
    for x in b {
        write!(s, "{:02x}", x).unwrap();
    }
    s
}

const OUTSIDE: u64 = u64::MAX;
/// window (offset relative to the top-level input, length) of a slice; offset
/// u64::MAX when the slice does not lie inside the input (a copy).
fn win(base: &[u8], s: &[u8]) -> (u64, u64) {
    let b = base.as_ptr() as usize;
    let p = s.as_ptr() as usize;
    if p >= b && p + s.len() <= b + base.len() {
        ((p - b) as u64, s.len() as u64)
    } else {
        (OUTSIDE, s.len() as u64)
    }
}
fn ws(base: &[u8], s: &[u8]) -> String {
    let (o, l) = win(base, s);
    format!("{},{}", o, l)
}
/// preimage parts: empty parts are canonically (0,0) (`&[]` literals have no address in the input)
fn pws(base: &[u8], s: &[u8]) -> String {
    if s.is_empty() {
        "0,0".to_string()
    } else {
        ws(base, s)
    }
}
fn err_code(e: &Error) -> String {
    match e {
        Error::MoreBytesNeeded => "1".into(),
        Error::UnknownSegwitFlag(b) => format!("2,{}", b),
        Error::SegwitFlagWithoutWitnesses => "3".into(),
        Error::NonMinimalVarInt => "4".into(),
        Error::VisitBreak => "5".into(),
        Error::Other(c) => format!("6,{}", c),
        // a variant added to the crate later (never produced today) must not stop the harness from compiling
        #[allow(unreachable_patterns)]
        _ => "7".into(),
    }
}

// ---------- accessor guard ----------
// An accessor that panics inside a callback must not hide the rest of the callback sequence:
// the field is recorded as 18446744073709551615 ("P"), ACC_PANIC is raised (reported as x_accpanic=1,
// a C01 violation) and the visit goes on.
static ACC_PANIC: AtomicBool = AtomicBool::new(false);
fn guard<T>(default: T, f: impl FnOnce() -> T) -> T {
    match catch_unwind(AssertUnwindSafe(f)) {
        Ok(v) => v,
        Err(_) => {
            ARMED.store(false, Ordering::Relaxed);
            ACC_PANIC.store(true, Ordering::Relaxed);
            default
        }
    }
}
/// like `guard`, for the database round trip only: `from_bytes` unwraps a parse of the object's own bytes, so a
/// panic there is a C20 matter (reported as x_db=panic) and must not hide the result tokens from the other checks
fn db_guard(f: impl FnOnce() -> String) -> String {
    match catch_unwind(AssertUnwindSafe(f)) {
        Ok(v) => v,
        Err(_) => {
            ARMED.store(false, Ordering::Relaxed);
            " x_db=panic".to_string()
        }
    }
}
const PW: &str = "18446744073709551615,18446744073709551615";

// ---------- recording visitor ----------
#[derive(Clone, Debug, PartialEq)]
enum Ev {
    Header { w: (u64, u64), version: i32, prev: Vec<u8>, merkle: Vec<u8>, time: u32, nonce: u32, hash: Vec<u8>, hash2: Vec<u8> },
    BlockBegin(u64),
    TxIns(u64),
    TxIn { i: u64, txid: Vec<u8>, vout: u32, sig: Vec<u8>, seq: u32 },
    TxOuts(u64),
    TxOut { i: u64, value: u64, spk: Vec<u8> },
    Witness(u64),
    WitnessTotal(u64),
    WitnessElem { i: u64, el: Vec<u8> },
    WitnessEnd,
    Tx { w: (u64, u64), version: i32, locktime: u32, weight: u64, pre: Vec<u8>, txid: Vec<u8>, txid2: Vec<u8> },
}

struct Rec<'i> {
    base: &'i [u8],
    toks: Vec<String>,
    evs: Vec<Ev>,
    brk: i64,
    nb: i64,
    structured: bool,
    over: u64,
    /// a hash computed INSIDE a callback is not the double SHA-256 of the right bytes (C10)
    cb_bad_hash: bool,
    /// a conversion to the rust-bitcoin type made INSIDE a callback differs from the object's own fields (C19)
    cb_bad_conv: bool,
}
impl<'i> Rec<'i> {
    fn new(base: &'i [u8], brk: i64, structured: bool) -> Self {
        Rec { base, toks: vec![], evs: vec![], brk, nb: 0, structured, over: 0, cb_bad_hash: false, cb_bad_conv: false }
    }
    /// callbacks beyond 3 * input length + 64 are counted, not stored (C01 bounds them by a small multiple of
    /// the input length: a runaway implementation must not exhaust memory before it can be reported), and the
    /// visitor then answers Break wherever it is asked
    fn room(&mut self) -> bool {
        if self.toks.len() as u64 > 3 * self.base.len() as u64 + 64 {
            self.over += 1;
            false
        } else {
            true
        }
    }
    fn push_tok(&mut self, t: String) {
        if self.room() {
            self.toks.push(t);
        }
    }
    fn push_ev(&mut self, e: Ev) {
        if self.over == 0 {
            self.evs.push(e);
        }
    }
    fn flow(&mut self) -> ControlFlow<()> {
        if self.over > 0 {
            return ControlFlow::Break(());
        }
        let r = if self.nb == self.brk { ControlFlow::Break(()) } else { ControlFlow::Continue(()) };
        self.nb += 1;
        r
    }
    fn events(&self) -> String {
        let mut s = String::new();
        for t in &self.toks {
            s.push_str(" ev=");
            s.push_str(t);
        }
        write!(s, " nev={}", self.toks.len() as u64 + self.over).unwrap();
        if self.cb_bad_hash {
            s.push_str(" x_cbhash=0");
        }
        if self.cb_bad_conv {
            s.push_str(" x_cbconv=0");
        }
        s
    }
}
impl<'i> Visitor for Rec<'i> {
    fn visit_block_header(&mut self, h: &bsl::BlockHeader) -> ControlFlow<()> {
        // the header as the visitor sees it: its hash (both back ends) must be the double SHA-256 of the 80 bytes
        // at its position, computed here by rust-bitcoin's hash function from the raw input
        {
            use bitcoin::hashes::sha256d;
            let view: &[u8] = h.as_ref();
            let n = view.len().min(80);
            let want = sha256d::Hash::hash(&view[..n]).to_byte_array();
            let ok = guard(false, || h.block_hash().to_byte_array() == want && h.block_hash_sha2()[..] == want[..] && h.block_hash_preimage().len() == 80);
            if !ok {
                self.cb_bad_hash = true;
            }
        }
        self.push_tok(format!(
            "0,{},{},{},{},{},{}",
            ws(self.base, h.as_ref()),
            h.version() as u32,
            ws(self.base, h.prev_blockhash()),
            ws(self.base, h.merkle_root()),
            h.time(),
            h.nonce()
        ));
        if self.structured {
            self.push_ev(Ev::Header {
                w: win(self.base, h.as_ref()),
                version: h.version(),
                prev: h.prev_blockhash().to_vec(),
                merkle: h.merkle_root().to_vec(),
                time: h.time(),
                nonce: h.nonce(),
                hash: h.block_hash().to_byte_array().to_vec(),
                hash2: h.block_hash_sha2().to_vec(),
            });
        }
        self.flow()
    }
    fn visit_block_begin(&mut self, n: usize) {
        self.push_tok(format!("1,{}", n));
        if self.structured {
            self.push_ev(Ev::BlockBegin(n as u64));
        }
    }
    fn visit_transaction(&mut self, tx: &bsl::Transaction) -> ControlFlow<()> {
        let empty: &[u8] = &[];
        let (a, b, c) = guard((empty, empty, empty), || tx.txid_preimage());
        self.push_tok(format!(
            "10,{},{},{},{},{},{},{}",
            ws(self.base, tx.as_ref()),
            guard(u32::MAX, || tx.version() as u32),
            guard(u32::MAX, || tx.locktime()),
            pws(self.base, a),
            pws(self.base, b),
            pws(self.base, c),
            guard(u64::MAX, || tx.weight())
        ));
        if self.structured && !ACC_PANIC.load(Ordering::Relaxed) {
            let mut pre = a.to_vec();
            pre.extend_from_slice(b);
            pre.extend_from_slice(c);
            self.push_ev(Ev::Tx {
                w: win(self.base, tx.as_ref()),
                version: tx.version(),
                locktime: tx.locktime(),
                weight: tx.weight(),
                pre,
                txid: tx.txid().to_byte_array().to_vec(),
                txid2: tx.txid_sha2().to_vec(),
            });
        }
        self.flow()
    }
    fn visit_tx_ins(&mut self, n: usize) {
        self.push_tok(format!("2,{}", n));
        if self.structured {
            self.push_ev(Ev::TxIns(n as u64));
        }
    }
    fn visit_tx_in(&mut self, vin: usize, t: &bsl::TxIn) -> ControlFlow<()> {
        let base = self.base;
        self.push_tok(format!(
            "3,{},{},{},{},{},{},{}",
            vin,
            ws(self.base, t.as_ref()),
            ws(self.base, t.prevout().as_ref()),
            guard(PW.to_string(), || ws(base, t.prevout().txid())),
            guard(u32::MAX, || t.prevout().vout()),
            guard(PW.to_string(), || ws(base, t.script_sig())),
            t.sequence()
        ));
        if self.structured {
            self.push_ev(Ev::TxIn {
                i: vin as u64,
                txid: guard(vec![], || t.prevout().txid().to_vec()),
                vout: guard(u32::MAX, || t.prevout().vout()),
                sig: guard(vec![], || t.script_sig().to_vec()),
                seq: t.sequence(),
            });
            let ok = guard(false, || {
                let o: bitcoin::OutPoint = t.prevout().into();
                o.txid.to_byte_array()[..] == *t.prevout().txid() && o.vout == t.prevout().vout()
            });
            if !ok {
                self.cb_bad_conv = true;
            }
        }
        self.flow()
    }
    fn visit_tx_outs(&mut self, n: usize) {
        self.push_tok(format!("4,{}", n));
        if self.structured {
            self.push_ev(Ev::TxOuts(n as u64));
        }
    }
    fn visit_tx_out(&mut self, vout: usize, t: &bsl::TxOut) -> ControlFlow<()> {
        let base = self.base;
        let spkw = guard(PW.to_string(), || ws(base, t.script_pubkey()));
        self.push_tok(format!("5,{},{},{},{}", vout, ws(self.base, t.as_ref()), t.value(), spkw));
        if self.structured {
            self.push_ev(Ev::TxOut { i: vout as u64, value: t.value(), spk: guard(vec![], || t.script_pubkey().to_vec()) });
            // the conversions, made here on the object as the visitor receives it
            let ok = guard(false, || {
                let c: bitcoin::TxOut = t.into();
                c.value.to_sat() == t.value() && c.script_pubkey.as_bytes() == t.script_pubkey()
                    && t.as_bitcoin_script().as_bytes() == t.script_pubkey()
            });
            if !ok {
                self.cb_bad_conv = true;
            }
        }
        self.flow()
    }
    fn visit_witness(&mut self, vin: usize) -> ControlFlow<()> {
        self.push_tok(format!("6,{}", vin));
        if self.structured {
            self.push_ev(Ev::Witness(vin as u64));
        }
        self.flow()
    }
    fn visit_witness_total_element(&mut self, n: usize) {
        self.push_tok(format!("7,{}", n));
        if self.structured {
            self.push_ev(Ev::WitnessTotal(n as u64));
        }
    }
    fn visit_witness_element(&mut self, i: usize, el: &[u8]) {
        self.push_tok(format!("8,{},{}", i, ws(self.base, el)));
        if self.structured {
            self.push_ev(Ev::WitnessElem { i: i as u64, el: el.to_vec() });
        }
    }
    fn visit_witness_end(&mut self) {
        self.push_tok("9".to_string());
        if self.structured {
            self.push_ev(Ev::WitnessEnd);
        }
    }
}

/// A visitor that performs no allocation and breaks at the given breakable callback.
struct Quiet {
    brk: i64,
    nb: i64,
    sink: u64,
}
impl Quiet {
    fn flow(&mut self) -> ControlFlow<()> {
        let r = if self.nb == self.brk { ControlFlow::Break(()) } else { ControlFlow::Continue(()) };
        self.nb += 1;
        r
    }
}
impl Visitor for Quiet {
    fn visit_block_header(&mut self, h: &bsl::BlockHeader) -> ControlFlow<()> {
        self.sink ^= h.time() as u64 ^ h.nonce() as u64 ^ h.version() as u64 ^ h.prev_blockhash()[0] as u64 ^ h.merkle_root()[0] as u64;
        self.sink ^= h.block_hash().to_byte_array()[0] as u64 ^ h.block_hash_sha2()[0] as u64;
        self.flow()
    }
    fn visit_transaction(&mut self, tx: &bsl::Transaction) -> ControlFlow<()> {
        let (a, b, c) = tx.txid_preimage();
        self.sink ^= tx.weight() ^ tx.version() as u64 ^ tx.locktime() as u64 ^ (a.len() + b.len() + c.len()) as u64;
        self.sink ^= tx.txid().to_byte_array()[0] as u64 ^ tx.txid_sha2()[0] as u64;
        self.flow()
    }
    fn visit_tx_in(&mut self, _vin: usize, t: &bsl::TxIn) -> ControlFlow<()> {
        self.sink ^= t.sequence() as u64 ^ t.prevout().vout() as u64 ^ t.prevout().txid()[0] as u64 ^ t.script_sig().len() as u64;
        self.flow()
    }
    fn visit_tx_out(&mut self, _vout: usize, t: &bsl::TxOut) -> ControlFlow<()> {
        self.sink ^= t.value() ^ t.script_pubkey().len() as u64 ^ t.as_bitcoin_script().len() as u64;
        self.flow()
    }
    fn visit_witness(&mut self, _vin: usize) -> ControlFlow<()> {
        self.flow()
    }
    fn visit_witness_element(&mut self, _i: usize, el: &[u8]) {
        self.sink ^= el.len() as u64;
    }
}

// A zero-sized visitor: its whole state lives in a thread-local.  "For every visitor" includes visitors of every
// shape (size, alignment, Drop); a crate that specialises on the visitor's type (size_of, associated consts,
// defaulted trait items) must still deliver the same callbacks.  Logs (kind, index-or-count, slice length).
thread_local! { static ZLOG: std::cell::RefCell<Vec<(u8, u64, u64)>> = std::cell::RefCell::new(Vec::new()); }
fn zpush(k: u8, i: u64, l: u64) {
    ZLOG.with(|z| { let mut z = z.borrow_mut(); if z.len() < 4_000_000 { z.push((k, i, l)); } });
}
struct Zst;
impl Visitor for Zst {
    fn visit_block_header(&mut self, h: &bsl::BlockHeader) -> ControlFlow<()> { zpush(0, 0, h.as_ref().len() as u64); ControlFlow::Continue(()) }
    fn visit_block_begin(&mut self, n: usize) { zpush(1, n as u64, 0) }
    fn visit_transaction(&mut self, tx: &bsl::Transaction) -> ControlFlow<()> { zpush(10, 0, tx.as_ref().len() as u64); ControlFlow::Continue(()) }
    fn visit_tx_ins(&mut self, n: usize) { zpush(2, n as u64, 0) }
    fn visit_tx_in(&mut self, vin: usize, t: &bsl::TxIn) -> ControlFlow<()> { zpush(3, vin as u64, t.as_ref().len() as u64); ControlFlow::Continue(()) }
    fn visit_tx_outs(&mut self, n: usize) { zpush(4, n as u64, 0) }
    fn visit_tx_out(&mut self, vout: usize, t: &bsl::TxOut) -> ControlFlow<()> { zpush(5, vout as u64, t.as_ref().len() as u64); ControlFlow::Continue(()) }
    fn visit_witness(&mut self, vin: usize) -> ControlFlow<()> { zpush(6, vin as u64, 0); ControlFlow::Continue(()) }
    fn visit_witness_total_element(&mut self, n: usize) { zpush(7, n as u64, 0) }
    fn visit_witness_element(&mut self, i: usize, el: &[u8]) { zpush(8, i as u64, el.len() as u64) }
    fn visit_witness_end(&mut self) { zpush(9, 0, 0) }
}
/// the same log derived from the recording visitor's tokens ("kind,..." with windows as "off,len")
fn zlog_of_toks(toks: &[String]) -> Vec<(u8, u64, u64)> {
    toks.iter().map(|t| {
        let f: Vec<&str> = t.split(',').collect();
        let n = |i: usize| f.get(i).and_then(|x| x.parse::<u64>().ok()).unwrap_or(u64::MAX);
        match f[0] {
            "0" => (0, 0, n(2)),
            "1" => (1, n(1), 0),
            "10" => (10, 0, n(2)),
            "2" => (2, n(1), 0),
            "3" => (3, n(1), n(3)),
            "4" => (4, n(1), 0),
            "5" => (5, n(1), n(3)),
            "6" => (6, n(1), 0),
            "7" => (7, n(1), 0),
            "8" => (8, n(1), n(3)),
            _ => (9, 0, 0),
        }
    }).collect()
}

// ---------- decoded structure from events (for the rust-bitcoin differential) ----------
#[derive(Default, Debug, Clone)]
struct DecTx {
    version: i32,
    locktime: u32,
    ins: Vec<(Vec<u8>, u32, Vec<u8>, u32)>,
    outs: Vec<(u64, Vec<u8>)>,
    wits: Vec<Vec<Vec<u8>>>,
    weight: u64,
    w: (u64, u64),
    txid: Vec<u8>,
    txid2: Vec<u8>,
    pre: Vec<u8>,
}
fn dec_txs(evs: &[Ev]) -> (Vec<DecTx>, DecTx) {
    let mut done = vec![];
    let mut cur = DecTx::default();
    for e in evs {
        match e {
            Ev::TxIn { txid, vout, sig, seq, .. } => cur.ins.push((txid.clone(), *vout, sig.clone(), *seq)),
            Ev::TxOut { value, spk, .. } => cur.outs.push((*value, spk.clone())),
            Ev::Witness(_) => cur.wits.push(vec![]),
            Ev::WitnessTotal(_) => {
                if cur.wits.is_empty() {
                    cur.wits.push(vec![]);
                }
            }
            Ev::WitnessElem { el, .. } => {
                if cur.wits.is_empty() {
                    cur.wits.push(vec![]);
                }
                cur.wits.last_mut().unwrap().push(el.clone())
            }
            Ev::Tx { w, version, locktime, weight, pre, txid, txid2 } => {
                cur.version = *version;
                cur.locktime = *locktime;
                cur.weight = *weight;
                cur.w = *w;
                cur.txid = txid.clone();
                cur.txid2 = txid2.clone();
                cur.pre = pre.clone();
                done.push(std::mem::take(&mut cur));
            }
            _ => {}
        }
    }
    (done, cur)
}
fn cmp_tx(d: &DecTx, t: &bitcoin::Transaction) -> Result<(), String> {
    if d.version != t.version.0 {
        return Err("version".into());
    }
    if d.locktime != t.lock_time.to_consensus_u32() {
        return Err("locktime".into());
    }
    if d.ins.len() != t.input.len() {
        return Err("n_inputs".into());
    }
    if d.outs.len() != t.output.len() {
        return Err("n_outputs".into());
    }
    for (i, (a, b)) in d.ins.iter().zip(t.input.iter()).enumerate() {
        if a.0[..] != b.previous_output.txid.to_byte_array()[..] {
            return Err(format!("in{}.txid", i));
        }
        if a.1 != b.previous_output.vout {
            return Err(format!("in{}.vout", i));
        }
        if a.2[..] != *b.script_sig.as_bytes() {
            return Err(format!("in{}.script_sig", i));
        }
        if a.3 != b.sequence.0 {
            return Err(format!("in{}.sequence", i));
        }
    }
    for (i, (a, b)) in d.outs.iter().zip(t.output.iter()).enumerate() {
        if a.0 != b.value.to_sat() {
            return Err(format!("out{}.value", i));
        }
        if a.1[..] != *b.script_pubkey.as_bytes() {
            return Err(format!("out{}.spk", i));
        }
    }
    let any_wit = t.input.iter().any(|i| !i.witness.is_empty());
    if d.wits.is_empty() {
        if any_wit {
            return Err("witness_missing".into());
        }
    } else {
        if d.wits.len() != t.input.len() {
            return Err("n_witnesses".into());
        }
        for (i, (a, b)) in d.wits.iter().zip(t.input.iter()).enumerate() {
            let bw: Vec<Vec<u8>> = b.witness.iter().map(|e| e.to_vec()).collect();
            if *a != bw {
                return Err(format!("witness{}", i));
            }
        }
    }
    if d.weight != t.weight().to_wu() {
        return Err(format!("weight:{}:{}", d.weight, t.weight().to_wu()));
    }
    let id = t.compute_txid().to_byte_array();
    if d.txid[..] != id[..] {
        return Err("txid".into());
    }
    if d.txid2[..] != id[..] {
        return Err("txid_sha2".into());
    }
    Ok(())
}

const RB_LIMIT: usize = 4_000_000;

fn rb_tokens<T: bitcoin::consensus::Decodable>(inp: &[u8], ours_ok: Option<usize>, cmp: impl FnOnce(&T) -> Result<(), String>) -> String {
    if inp.len() >= RB_LIMIT {
        return String::new();
    }
    let r = catch_unwind(AssertUnwindSafe(|| deserialize_partial::<T>(inp)));
    match r {
        Err(_) => " x_rb=panic".to_string(),
        Ok(Ok((v, used))) => {
            let mut s = format!(" x_rb=1,{}", used);
            if let Some(k) = ours_ok {
                if k == used {
                    match cmp(&v) {
                        Ok(()) => s.push_str(" x_rbcmp=1"),
                        Err(w) => write!(s, " x_rbcmp=0 x_rbwhy={}", w).unwrap(),
                    }
                }
            }
            s
        }
        Ok(Err(_)) => " x_rb=0".to_string(),
    }
}

// ---------- per-entry runners ----------
fn res_err(e: &Error) -> String {
    format!("res=1,{}", err_code(e))
}
fn common(base: &[u8], view: &[u8], rem: &[u8]) -> String {
    format!("res=0 consumed={} view={} rem={}", view.len(), ws(base, view), ws(base, rem))
}
fn tolen(r: Result<bsl::Len, Error>) -> String {
    match r {
        Ok(l) => format!("tolen=0,{},{}", l.n(), l.consumed()),
        Err(e) => format!("tolen=1,{}", err_code(&e)),
    }
}
fn txout_fields(base: &[u8], t: &bsl::TxOut) -> String {
    format!("{},{},{}", ws(base, t.as_ref()), t.value(), ws(base, t.script_pubkey()))
}

macro_rules! num_entry {
    ($ty:ty, $prim:ty, $inp:expr, $tolen:expr) => {{
        let inp: &[u8] = $inp;
        let (r, allocs) = count_allocs(|| <$ty>::parse(inp));
        match r {
            Ok(p) => {
                let rem = p.remaining();
                let consumed = p.consumed();
                let lenm = Parse::len(p.parsed());
                let asref: Vec<String> = p.parsed().as_ref().iter().map(|b| b.to_string()).collect();
                let v: $prim = p.parsed().into();
                // wrap/unwrap round trip on the parsed value (C18)
                let back: $ty = v.into();
                let rt = (back.as_ref() == p.parsed().as_ref()) as u8;
                let v2: $prim = back.into();
                let rt2 = (v2 == v) as u8;
                let tl: String = $tolen(p.parsed_owned());
                format!(
                    "res=0 consumed={} rem={} val={} asref={}{} x_lenm={} x_alloc={} x_wrap={}",
                    consumed, ws(inp, rem), v as u64 & (<$prim>::MAX as u64 | if <$prim>::MIN != 0 { 0xffff_ffff } else { 0 }),
                    asref.join(","), tl, lenm, allocs, rt & rt2
                )
            }
            Err(e) => format!("{} x_alloc={}", res_err(&e), allocs),
        }
    }};
}

fn run_case(entry: &str, inp: &[u8], param: u64, brk: i64) -> String {
    match entry {
        "parse_len" => {
            let (r, allocs) = count_allocs(|| bsl::parse_len(inp));
            match r {
                Ok(l) => format!("res=0 n={} lconsumed={} slicelen={} x_alloc={}", l.n(), l.consumed(), l.slice_len(), allocs),
                Err(e) => format!("{} x_alloc={}", res_err(&e), allocs),
            }
        }
        "scan_len" => {
            let mut c = param as usize;
            let (r, allocs) = count_allocs(|| bsl::scan_len(inp, &mut c));
            match r {
                Ok(n) => format!("res=0 n={} counter={} x_alloc={}", n, c, allocs),
                Err(e) => format!("{} counter={} x_alloc={}", res_err(&e), c, allocs),
            }
        }
        "u8" => num_entry!(number::U8, u8, inp, |_x: number::U8| String::new()),
        "u16" => num_entry!(number::U16, u16, inp, |x: number::U16| format!(" {}", tolen(x.to_len()))),
        "u32" => num_entry!(number::U32, u32, inp, |x: number::U32| format!(" {}", tolen(x.to_len()))),
        "u64" => num_entry!(number::U64, u64, inp, |x: number::U64| format!(" {}", tolen(x.to_len()))),
        "i32" => {
            let (r, allocs) = count_allocs(|| number::I32::parse(inp));
            match r {
                Ok(p) => {
                    let asref: Vec<String> = p.parsed().as_ref().iter().map(|b| b.to_string()).collect();
                    let v: i32 = p.parsed().into();
                    let back: number::I32 = v.into();
                    let rt = (back.as_ref() == p.parsed().as_ref()) as u8;
                    format!(
                        "res=0 consumed={} rem={} val={} asref={} x_lenm={} x_alloc={} x_wrap={}",
                        p.consumed(), ws(inp, p.remaining()), v as u32, asref.join(","), Parse::len(p.parsed()), allocs, rt
                    )
                }
                Err(e) => format!("{} x_alloc={}", res_err(&e), allocs),
            }
        }
        "read_u8" | "read_u16" | "read_u32" | "read_i32" | "read_u64" => {
            let (r, allocs) = count_allocs(|| match entry {
                "read_u8" => number::read_u8(inp).map(|v| v as u64),
                "read_u16" => number::read_u16(inp).map(|v| v as u64),
                "read_u32" => number::read_u32(inp).map(|v| v as u64),
                "read_i32" => number::read_i32(inp).map(|v| v as u32 as u64),
                _ => number::read_u64(inp),
            });
            match r {
                Ok(v) => format!("res=0 val={} x_alloc={}", v, allocs),
                Err(e) => format!("{} x_alloc={}", res_err(&e), allocs),
            }
        }
        "read_slice" => {
            let (r, allocs) = count_allocs(|| bitcoin_slices::read_slice(inp, param as usize));
            match r {
                Ok(p) => format!("{} x_alloc={}", common(inp, p.parsed(), p.remaining()), allocs),
                Err(e) => format!("{} x_alloc={}", res_err(&e), allocs),
            }
        }
        "script" => {
            let (r, allocs) = count_allocs(|| bsl::Script::parse(inp).map(|p| { let _ = p.parsed().script().len(); p }));
            match r {
                Ok(p) => {
                    let x = p.parsed();
                    let mut s = format!("{} script={} x_lenm={} x_alloc={}", common(inp, x.as_ref(), p.remaining()), ws(inp, x.script()), Parse::len(x), allocs);
                    // ParseResult::map hands the closure the very same result; parsed_owned gives the same object
                    let direct = (p.consumed(), win(inp, p.remaining()), win(inp, x.as_ref()));
                    let mapped = p.clone().map(|q| (q.consumed(), win(inp, q.remaining()), win(inp, q.parsed().as_ref())));
                    let owned = p.clone().parsed_owned();
                    write!(s, " x_map={}", (mapped == direct && &owned == x) as u8).unwrap();
                    s.push_str(&reparse_parse::<bsl::Script>(x.as_ref(), x));
                    let script = x.script().to_vec();
                    s.push_str(&rb_tokens::<bitcoin::ScriptBuf>(inp, Some(p.consumed()), |r| if r.as_bytes() == &script[..] { Ok(()) } else { Err("script".into()) }));
                    s
                }
                Err(e) => format!("{} x_alloc={}{}", res_err(&e), allocs, rb_tokens::<bitcoin::ScriptBuf>(inp, None, |_| Ok(()))),
            }
        }
        "outpoint" => {
            let (r, allocs) = count_allocs(|| bsl::OutPoint::parse(inp).map(|p| { let _ = p.parsed().vout(); let _ = p.parsed().txid().len(); p }));
            match r {
                Ok(p) => {
                    let x = p.parsed();
                    let mut s = format!("{} txid={} vout={} x_lenm={} x_alloc={}", common(inp, x.as_ref(), p.remaining()), ws(inp, x.txid()), x.vout(), Parse::len(x), allocs);
                    s.push_str(&reparse_parse::<bsl::OutPoint>(x.as_ref(), x));
                    // C19 conversion, C20 database encoding
                    let conv: bitcoin::OutPoint = x.into();
                    let conv2: bitcoin::OutPoint = x.clone().into();
                    let view = x.as_ref().to_vec();
                    s.push_str(&rb_tokens::<bitcoin::OutPoint>(inp, Some(p.consumed()), |r| {
                        if *r != conv || *r != conv2 { return Err("into".into()); }
                        if bitcoin::consensus::serialize(&conv) != view { return Err("reserialize".into()); }
                        Ok(())
                    }));
                    s.push_str(&db_guard(|| {
                        let ab = <bsl::OutPoint as RedbValue>::as_bytes(x);
                        let same = ab.as_ptr() == x.as_ref().as_ptr() && ab.len() == x.as_ref().len();
                        let fb = <bsl::OutPoint as RedbValue>::from_bytes(ab);
                        format!(" x_db={},{},{}", same as u8, (fb == *x) as u8, <bsl::OutPoint as RedbValue>::fixed_width().map(|v| v as i64).unwrap_or(-1))
                    }));
                    s
                }
                Err(e) => format!("{} x_alloc={}{}", res_err(&e), allocs, rb_tokens::<bitcoin::OutPoint>(inp, None, |_| Ok(()))),
            }
        }
        "txin" => {
            let (r, allocs) = count_allocs(|| bsl::TxIn::parse(inp).map(|p| { let _ = p.parsed().script_sig().len(); let _ = p.parsed().prevout().vout(); p }));
            match r {
                Ok(p) => {
                    let x = p.parsed();
                    let mut s = format!(
                        "{} prevout={} txid={} vout={} sig={} seq={} x_lenm={} x_alloc={}",
                        common(inp, x.as_ref(), p.remaining()), ws(inp, x.prevout().as_ref()), ws(inp, x.prevout().txid()),
                        x.prevout().vout(), ws(inp, x.script_sig()), x.sequence(), Parse::len(x), allocs
                    );
                    s.push_str(&reparse_parse::<bsl::TxIn>(x.as_ref(), x));
                    let (txid, vout, sig, seq) = (x.prevout().txid().to_vec(), x.prevout().vout(), x.script_sig().to_vec(), x.sequence());
                    s.push_str(&rb_tokens::<bitcoin::TxIn>(inp, Some(p.consumed()), |r| {
                        if r.previous_output.txid.to_byte_array()[..] != txid[..] { return Err("txid".into()); }
                        if r.previous_output.vout != vout { return Err("vout".into()); }
                        if r.script_sig.as_bytes() != &sig[..] { return Err("sig".into()); }
                        if r.sequence.0 != seq { return Err("seq".into()); }
                        Ok(())
                    }));
                    s
                }
                Err(e) => format!("{} x_alloc={}{}", res_err(&e), allocs, rb_tokens::<bitcoin::TxIn>(inp, None, |_| Ok(()))),
            }
        }
        "txout" => {
            let (r, allocs) = count_allocs(|| bsl::TxOut::parse(inp).map(|p| { let _ = p.parsed().script_pubkey().len(); let _ = p.parsed().as_bitcoin_script().len(); p }));
            match r {
                Ok(p) => {
                    let x = p.parsed();
                    let mut s = format!("{} txout={} x_lenm={} x_alloc={}", common(inp, x.as_ref(), p.remaining()), txout_fields(inp, x), Parse::len(x), allocs);
                    s.push_str(&reparse_parse::<bsl::TxOut>(x.as_ref(), x));
                    let conv: bitcoin::TxOut = x.into();
                    let conv2: bitcoin::TxOut = x.clone().into();
                    let view = x.as_ref().to_vec();
                    let bscript = x.as_bitcoin_script().to_bytes();
                    let bs_same = x.as_bitcoin_script().as_bytes().as_ptr() == x.script_pubkey().as_ptr();
                    s.push_str(&rb_tokens::<bitcoin::TxOut>(inp, Some(p.consumed()), |r| {
                        if *r != conv || *r != conv2 { return Err("into".into()); }
                        if bitcoin::consensus::serialize(&conv) != view { return Err("reserialize".into()); }
                        if r.script_pubkey.as_bytes() != &bscript[..] || !bs_same { return Err("as_bitcoin_script".into()); }
                        Ok(())
                    }));
                    s.push_str(&db_guard(|| {
                        let ab = <bsl::TxOut as RedbValue>::as_bytes(x);
                        let same = ab.as_ptr() == x.as_ref().as_ptr() && ab.len() == x.as_ref().len();
                        let fb = <bsl::TxOut as RedbValue>::from_bytes(ab);
                        format!(" x_db={},{},{}", same as u8, (fb == *x) as u8, <bsl::TxOut as RedbValue>::fixed_width().map(|v| v as i64).unwrap_or(-1))
                    }));
                    s
                }
                Err(e) => format!("{} x_alloc={}{}", res_err(&e), allocs, rb_tokens::<bitcoin::TxOut>(inp, None, |_| Ok(()))),
            }
        }
        "txins" => run_txins(inp, brk),
        "txouts" => run_txouts(inp, brk),
        "witness" => run_witness(inp, brk),
        "witnesses" => run_witnesses(inp, param, brk),
        "transaction" => run_transaction(inp, brk),
        "header" => run_header(inp, brk),
        "block" => run_block(inp, brk),
        _ => panic!("unknown entry {}", entry),
    }
}

/// C15 for Parse-only types: re-parsing the serialized bytes gives an equal object, empty remainder
fn reparse_parse<'a, T: Parse<'a> + PartialEq + Clone + AsRef<[u8]>>(view: &'a [u8], orig: &T) -> String {
    // a clone is an equal object over the very same bytes
    let c = orig.clone();
    let clone_ok = &c == orig && c.as_ref().as_ptr() == orig.as_ref().as_ptr() && c.as_ref().len() == orig.as_ref().len();
    match T::parse(view) {
        Ok(p) => format!(" x_reparse={}", (clone_ok && p.remaining().is_empty() && p.parsed() == orig) as u8),
        Err(_) => " x_reparse=0".to_string(),
    }
}

/// C15 / C09-neutral checks shared by every Visit type, as a macro because self_visit ties
/// the borrow of the object to the slice lifetime.
macro_rules! visit_x_tokens {
    ($ty:ty, $inp:expr, $rec:expr, $r:expr, $brk:expr) => {{
        let inp: &[u8] = $inp;
        let mut s = String::new();
        if $brk < 0 {
            // parse (EmptyVisitor) == visit with a recording visitor
            let rp = <$ty as Parse>::parse(inp);
            // the same calls written the way users write them (`Type::parse(..)`): an inherent function of that name
            // would shadow the trait method on this path only
            let rpath = <$ty>::parse(inp);
            write!(s, " x_parse_eq={}", (rp == $r && rpath == $r) as u8).unwrap();
            let mut ev = EmptyVisitor {};
            let rv = <$ty as Visit>::visit(inp, &mut ev);
            let mut ev2 = EmptyVisitor {};
            let rvpath = <$ty>::visit(inp, &mut ev2);
            write!(s, " x_emptyvisit_eq={}", (rv == $r && rvpath == $r) as u8).unwrap();
            // a zero-sized visitor (state in a thread-local) must be handed the same callbacks and get the same result
            if $rec.over == 0 {
                ZLOG.with(|z| z.borrow_mut().clear());
                let rz = <$ty as Visit>::visit(inp, &mut Zst);
                let same = ZLOG.with(|z| *z.borrow() == zlog_of_toks(&$rec.toks));
                write!(s, " x_zst={}", (same && rz == $r) as u8).unwrap();
                // one visitor object used for two consecutive visits of the same bytes: the second visit delivers the
                // same callbacks again and returns the same result
                let mut twice = Rec::new(inp, -1, false);
                let r1 = <$ty as Visit>::visit(inp, &mut twice);
                let n1 = twice.toks.len();
                let r2 = <$ty as Visit>::visit(inp, &mut twice);
                let again = twice.over > 0 || (r1 == $r && r2 == $r && n1 == $rec.toks.len() && twice.toks.len() == 2 * n1
                    && twice.toks[..n1] == $rec.toks[..] && twice.toks[n1..] == $rec.toks[..]);
                write!(s, " x_reuse={}", again as u8).unwrap();
            }
            if let Ok(p) = &$r {
                let view: &[u8] = p.parsed().as_ref();
                // re-parse
                let ok1 = match <$ty as Parse>::parse(view) {
                    Ok(p2) => p2.remaining().is_empty() && p2.parsed() == p.parsed(),
                    Err(_) => false,
                };
                // re-visit: same callbacks (offsets relative to the same base)
                let mut rec2 = Rec::new(inp, -1, false);
                let ok2 = match <$ty as Visit>::visit(view, &mut rec2) {
                    Ok(p2) => p2.remaining().is_empty() && p2.parsed() == p.parsed() && rec2.toks == $rec.toks,
                    Err(_) => false,
                };
                let obj = p.parsed().clone();
                let mut rec3 = Rec::new(inp, -1, false);
                let ok3 = match catch_unwind(AssertUnwindSafe(|| obj.self_visit(&mut rec3))) {
                    Ok(Ok(p3)) => p3.remaining().is_empty() && p3.parsed() == p.parsed() && rec3.toks == $rec.toks,
                    Ok(Err(_)) => false,
                    Err(_) => { s.push_str(" x_selfpanic=1"); false }
                };
                write!(s, " x_reparse={} x_revisit={} x_selfvisit={} x_lenm={}", ok1 as u8, ok2 as u8, ok3 as u8, Visit::len(p.parsed())).unwrap();
            }
        }
        if $brk >= 0 {
            // self_visit under the same Break policy: the object comes from a plain parse of the same input; visiting it
            // through self_visit must end like visiting its bytes directly (same result kind, same callbacks), in
            // particular a Break is reported as VisitBreak and nothing is delivered after it (C09 through C15's API)
            if let Ok(p0) = <$ty as Parse>::parse(inp) {
                let obj = p0.parsed().clone();
                let view: &[u8] = p0.parsed().as_ref();
                let mut rd = Rec::new(inp, $brk, false);
                let direct = <$ty as Visit>::visit(view, &mut rd).map(|_| ());
                let mut rs = Rec::new(inp, $brk, false);
                // a panic inside self_visit must not take the verdict with it
                match catch_unwind(AssertUnwindSafe(|| obj.self_visit(&mut rs).map(|_| ()))) {
                    Ok(viaself) => write!(s, " x_selfbrk={}", (direct == viaself && rd.toks == rs.toks) as u8).unwrap(),
                    Err(_) => s.push_str(" x_selfbrk=0 x_selfpanic=1"),
                }
            }
        }
        // allocation count with a visitor that does not allocate itself (same break policy)
        let mut q = Quiet { brk: $brk, nb: 0, sink: 0 };
        let (_r, allocs) = count_allocs(|| { let r = <$ty as Visit>::visit(inp, &mut q); r.is_ok() });
        write!(s, " x_alloc={}", allocs).unwrap();
        s
    }};
}

fn run_txins(inp: &[u8], brk: i64) -> String {
    let mut rec = Rec::new(inp, brk, brk < 0);
    let r = bsl::TxIns::visit(inp, &mut rec);
    let mut s = match &r {
        Ok(p) => guard(format!("{}{}", common(inp, p.parsed().as_ref(), p.remaining()), rec.events()), || {
            let x = p.parsed();
            format!("{} n={} empty={}{}", common(inp, x.as_ref(), p.remaining()), x.n(), x.is_empty() as u8, rec.events())
        }),
        Err(e) => format!("{}{}", res_err(e), rec.events()),
    };
    s.push_str(&guard(String::new(), || visit_x_tokens!(bsl::TxIns, inp, rec, r, brk)));
    if brk < 0 {
        let (_, cur) = dec_txs(&rec.evs);
        s.push_str(&rb_tokens::<Vec<bitcoin::TxIn>>(inp, r.as_ref().ok().map(|p| p.consumed()), |v| {
            if v.len() != cur.ins.len() { return Err("n".into()); }
            for (a, b) in cur.ins.iter().zip(v.iter()) {
                if a.0[..] != b.previous_output.txid.to_byte_array()[..] || a.1 != b.previous_output.vout || a.2[..] != *b.script_sig.as_bytes() || a.3 != b.sequence.0 {
                    return Err("field".into());
                }
            }
            Ok(())
        }));
    }
    s
}

fn run_txouts(inp: &[u8], brk: i64) -> String {
    let mut rec = Rec::new(inp, brk, brk < 0);
    let r = bsl::TxOuts::visit(inp, &mut rec);
    let mut s = match &r {
        Ok(p) => guard(format!("{}{}", common(inp, p.parsed().as_ref(), p.remaining()), rec.events()), || {
            let x = p.parsed();
            let mut s = format!("{} n={} empty={}", common(inp, x.as_ref(), p.remaining()), x.n(), x.is_empty() as u8);
            // iterator (C17): a panic while iterating is recorded, the items yielded before it are kept
            let (iter_part, iter_toks, hint_ok, ended) = guard((" x_iterpanic=1".to_string(), vec![], true, true), || {
                let mut part = String::new();
                let mut it = x.iter();
                write!(part, " iter0={}", it.len()).unwrap();
                let mut hint_ok = it.size_hint() == (it.len(), Some(it.len()));
                let mut iter_toks = vec![];
                while let Some(o) = it.next() {
                    hint_ok &= it.size_hint() == (it.len(), Some(it.len()));
                    iter_toks.push(format!("{},{}", txout_fields(inp, &o), it.len()));
                }
                let ended = it.next().is_none() && it.next().is_none();
                for t in &iter_toks {
                    write!(part, " iter={}", t).unwrap();
                }
                (part, iter_toks, hint_ok, ended)
            });
            s.push_str(&iter_part);
            s.push_str(&rec.events());
            if !iter_part.contains("x_iterpanic") {
                // IntoIterator
                let mut it2 = x.into_iter();
                let mut into_toks = vec![];
                let len0 = it2.len();
                while let Some(o) = it2.next() {
                    into_toks.push(format!("{},{}", txout_fields(inp, &o), it2.len()));
                }
                write!(s, " x_intoiter_eq={} x_hint_ok={} x_iter_ended={} x_into_len0={}", (into_toks == iter_toks) as u8, hint_ok as u8, ended as u8, len0).unwrap();
                let (_, allocs) = count_allocs(|| { let mut n = 0u64; for o in x.iter() { n ^= o.value() ^ o.script_pubkey().len() as u64; } n });
                write!(s, " x_alloc_iter={}", allocs).unwrap();
                // the provided Iterator methods an implementation may specialise (nth, count, last, fold): every way of
                // advancing must leave the same remaining length and yield the same items as repeated next()
                let adapt = guard("panic".to_string(), || {
                    let n = iter_toks.len();
                    let item = |o: &bsl::TxOut| txout_fields(inp, o);
                    let want = |i: usize| iter_toks.get(i).map(|t| t.rsplit_once(',').unwrap().0.to_string());
                    // two iterators over the same list stepped alternately, with len() / size_hint() queried (twice) in
                    // between: iterators share nothing and querying changes nothing
                    {
                        let mut a = x.iter();
                        let mut b = x.iter();
                        for i in 0..=n {
                            let (la, lb) = (a.len(), b.len());
                            if a.len() != la || a.size_hint() != (la, Some(la)) || b.len() != lb { return format!("two:{}:len", i); }
                            let ga = a.next().map(|o| item(&o));
                            let gb = b.next().map(|o| item(&o));
                            if ga != want(i) || gb != want(i) { return format!("two:{}:item", i); }
                        }
                    }
                    let mut js = vec![0usize, 1, n / 2, n.saturating_sub(1), n];
                    js.retain(|j| *j <= n);
                    js.dedup();
                    for &j in &js {
                        let rest = n - j;
                        for k in [0usize, 1, 2, rest.saturating_sub(1), rest, rest + 1, rest + 5] {
                            let mut it = x.iter();
                            for _ in 0..j { it.next(); }
                            let got = it.nth(k).map(|o| item(&o));
                            let left = n.saturating_sub(j + k + 1);
                            if got != want(j + k) { return format!("nth:{}:{}:item", j, k); }
                            if it.len() != left || it.size_hint() != (left, Some(left)) { return format!("nth:{}:{}:len{}", j, k, it.len()); }
                            let nx = it.next().map(|o| item(&o));
                            if nx != want(j + k + 1) { return format!("nth:{}:{}:next", j, k); }
                        }
                        let mk = || { let mut it = x.iter(); for _ in 0..j { it.next(); } it };
                        if mk().count() != rest { return format!("count:{}", j); }
                        if mk().last().map(|o| item(&o)) != (if rest > 0 { want(n - 1) } else { None }) { return format!("last:{}", j); }
                        if mk().fold(0usize, |a, _| a + 1) != rest { return format!("fold:{}", j); }
                        let mut sk = mk().skip(1);
                        if sk.next().map(|o| item(&o)) != want(j + 1) { return format!("skip:{}", j); }
                        let mut sb = mk().step_by(2);
                        if sb.next().map(|o| item(&o)) != want(j) || sb.next().map(|o| item(&o)) != want(j + 2) { return format!("step_by:{}", j); }
                    }
                    "ok".to_string()
                });
                write!(s, " x_adapt={}", adapt).unwrap();
            }
            // database encoding (C20)
            s.push_str(&db_guard(|| {
                let ab = <bsl::TxOuts as RedbValue>::as_bytes(x);
                let same = ab.as_ptr() == x.as_ref().as_ptr() && ab.len() == x.as_ref().len();
                let fb = <bsl::TxOuts as RedbValue>::from_bytes(ab);
                format!(" x_db={},{},{}", same as u8, (fb == *x) as u8, <bsl::TxOuts as RedbValue>::fixed_width().map(|v| v as i64).unwrap_or(-1))
            }));
            s
        }),
        Err(e) => format!("{}{}", res_err(e), rec.events()),
    };
    s.push_str(&guard(String::new(), || visit_x_tokens!(bsl::TxOuts, inp, rec, r, brk)));
    if brk < 0 {
        let (_, cur) = dec_txs(&rec.evs);
        s.push_str(&rb_tokens::<Vec<bitcoin::TxOut>>(inp, r.as_ref().ok().map(|p| p.consumed()), |v| {
            if v.len() != cur.outs.len() { return Err("n".into()); }
            for (a, b) in cur.outs.iter().zip(v.iter()) {
                if a.0 != b.value.to_sat() || a.1[..] != *b.script_pubkey.as_bytes() { return Err("field".into()); }
            }
            Ok(())
        }));
    }
    s
}

fn run_witness(inp: &[u8], brk: i64) -> String {
    let mut rec = Rec::new(inp, brk, brk < 0);
    let r = bsl::Witness::visit(inp, &mut rec);
    let mut s = match &r {
        Ok(p) => guard(format!("{}{}", common(inp, p.parsed().as_ref(), p.remaining()), rec.events()), || format!("{} empty={}{}", common(inp, p.parsed().as_ref(), p.remaining()), p.parsed().is_empty() as u8, rec.events())),
        Err(e) => format!("{}{}", res_err(e), rec.events()),
    };
    s.push_str(&guard(String::new(), || visit_x_tokens!(bsl::Witness, inp, rec, r, brk)));
    if brk < 0 {
        let (_, cur) = dec_txs(&rec.evs);
        s.push_str(&rb_tokens::<bitcoin::Witness>(inp, r.as_ref().ok().map(|p| p.consumed()), |v| {
            let bw: Vec<Vec<u8>> = v.iter().map(|e| e.to_vec()).collect();
            let ours = cur.wits.get(0).cloned().unwrap_or_default();
            if ours != bw { return Err("elements".into()); }
            Ok(())
        }));
    }
    s
}

fn run_witnesses(inp: &[u8], total: u64, brk: i64) -> String {
    let mut rec = Rec::new(inp, brk, false);
    let r = bsl::Witnesses::visit(inp, total as usize, &mut rec);
    let mut s = match &r {
        Ok(p) => format!("{} allempty={}{}", common(inp, p.parsed().as_ref(), p.remaining()), p.parsed().all_empty() as u8, rec.events()),
        Err(e) => format!("{}{}", res_err(e), rec.events()),
    };
    if brk < 0 {
        let rp = bsl::Witnesses::parse(inp, total as usize);
        write!(s, " x_parse_eq={}", (rp == r) as u8).unwrap();
        if let Ok(p) = &r {
            let view = p.parsed().as_ref();
            let mut rec2 = Rec::new(inp, -1, false);
            let ok = match bsl::Witnesses::visit(view, total as usize, &mut rec2) {
                Ok(p2) => p2.remaining().is_empty() && p2.parsed() == p.parsed() && rec2.toks == rec.toks,
                Err(_) => false,
            };
            write!(s, " x_reparse={} x_revisit={} x_lenm={}", ok as u8, ok as u8, p.parsed().as_ref().len()).unwrap();
        }
    }
    let mut q = Quiet { brk, nb: 0, sink: 0 };
    let (_, allocs) = count_allocs(|| bsl::Witnesses::visit(inp, total as usize, &mut q).is_ok());
    write!(s, " x_alloc={}", allocs).unwrap();
    s
}

fn tx_fields(inp: &[u8], t: &bsl::Transaction) -> String {
    let (a, b, c) = t.txid_preimage();
    format!(
        "version={} locktime={} prea={} preb={} prec={} weight={}",
        t.version() as u32, t.locktime(), pws(inp, a), pws(inp, b), pws(inp, c), t.weight()
    )
}

fn run_transaction(inp: &[u8], brk: i64) -> String {
    let mut rec = Rec::new(inp, brk, brk < 0);
    let r = bsl::Transaction::visit(inp, &mut rec);
    let mut s = match &r {
        Ok(p) => guard(format!("{}{}", common(inp, p.parsed().as_ref(), p.remaining()), rec.events()), || {
            let x = p.parsed();
            let mut s = format!("{} {} txidh={} txidh2={}{}", common(inp, x.as_ref(), p.remaining()), tx_fields(inp, x),
                dec(&x.txid().to_byte_array()), dec(&x.txid_sha2()), rec.events());
            write!(s, " x_txid={} x_txid_sha2={}", hex(&x.txid().to_byte_array()), hex(&x.txid_sha2())).unwrap();
            let (a, b, c) = x.txid_preimage();
            let inside = |p: &[u8]| p.is_empty() || win(inp, p).0 != OUTSIDE;
            write!(s, " x_pre_inside={}", (inside(a) && inside(b) && inside(c)) as u8).unwrap();
            s.push_str(&db_guard(|| {
                let ab = <bsl::Transaction as RedbValue>::as_bytes(x);
                let same = ab.as_ptr() == x.as_ref().as_ptr() && ab.len() == x.as_ref().len();
                let fb = <bsl::Transaction as RedbValue>::from_bytes(ab);
                // the value decoded from the database representation exposes the same derived quantities
                format!(" x_db={},{},{} x_dbtx={},{},{}", same as u8, (fb == *x) as u8, <bsl::Transaction as RedbValue>::fixed_width().map(|v| v as i64).unwrap_or(-1),
                        (fb.weight() == x.weight()) as u8, (fb.txid_preimage() == x.txid_preimage()) as u8,
                        (fb.txid() == x.txid() && fb.txid_sha2() == x.txid_sha2()) as u8)
            }));
            s
        }),
        Err(e) => format!("{}{}", res_err(e), rec.events()),
    };
    s.push_str(&guard(String::new(), || visit_x_tokens!(bsl::Transaction, inp, rec, r, brk)));
    if brk < 0 {
        let (done, _) = dec_txs(&rec.evs);
        s.push_str(&rb_tokens::<bitcoin::Transaction>(inp, r.as_ref().ok().map(|p| p.consumed()), |t| {
            match done.last() { Some(d) => cmp_tx(d, t), None => Err("no_tx_event".into()) }
        }));
    }
    s
}

fn header_fields(inp: &[u8], h: &bsl::BlockHeader) -> String {
    format!("version={} prev={} merkle={} time={} nonce={}", h.version() as u32, ws(inp, h.prev_blockhash()), ws(inp, h.merkle_root()), h.time(), h.nonce())
}
fn cmp_header(inp: &[u8], h: &bsl::BlockHeader, r: &bitcoin::block::Header) -> Result<(), String> {
    let _ = inp;
    if h.version() != r.version.to_consensus() { return Err("version".into()); }
    if h.prev_blockhash() != &r.prev_blockhash.to_byte_array()[..] { return Err("prev".into()); }
    if h.merkle_root() != &r.merkle_root.to_byte_array()[..] { return Err("merkle".into()); }
    if h.time() != r.time { return Err("time".into()); }
    if h.nonce() != r.nonce { return Err("nonce".into()); }
    if h.block_hash().to_byte_array() != r.block_hash().to_byte_array() { return Err("block_hash".into()); }
    if h.block_hash_sha2()[..] != r.block_hash().to_byte_array()[..] { return Err("block_hash_sha2".into()); }
    Ok(())
}

fn run_header(inp: &[u8], brk: i64) -> String {
    let mut rec = Rec::new(inp, brk, false);
    let r = bsl::BlockHeader::visit(inp, &mut rec);
    let mut s = match &r {
        Ok(p) => guard(format!("{}{}", common(inp, p.parsed().as_ref(), p.remaining()), rec.events()), || {
            let x = p.parsed();
            let mut s = format!("{} {} bhash={} bhash2={}{}", common(inp, x.as_ref(), p.remaining()), header_fields(inp, x),
                dec(&x.block_hash().to_byte_array()), dec(&x.block_hash_sha2()), rec.events());
            write!(s, " x_blockhash={} x_blockhash_sha2={} x_bhpre={}", hex(&x.block_hash().to_byte_array()), hex(&x.block_hash_sha2()), ws(inp, x.block_hash_preimage())).unwrap();
            s
        }),
        Err(e) => format!("{}{}", res_err(e), rec.events()),
    };
    s.push_str(&guard(String::new(), || visit_x_tokens!(bsl::BlockHeader, inp, rec, r, brk)));
    if brk < 0 {
        s.push_str(&rb_tokens::<bitcoin::block::Header>(inp, r.as_ref().ok().map(|p| p.consumed()), |h| cmp_header(inp, r.as_ref().unwrap().parsed(), h)));
    }
    s
}

struct FindWrap {
    inner: bsl::FindTransaction,
    calls: u64,
}
// every callback is forwarded: the wrapped visitor must see exactly what it would see when passed directly
impl Visitor for FindWrap {
    fn visit_block_header(&mut self, header: &bsl::BlockHeader) -> ControlFlow<()> {
        self.inner.visit_block_header(header)
    }
    fn visit_block_begin(&mut self, total_transactions: usize) {
        self.inner.visit_block_begin(total_transactions)
    }
    fn visit_transaction(&mut self, tx: &bsl::Transaction) -> ControlFlow<()> {
        self.calls += 1;
        self.inner.visit_transaction(tx)
    }
    fn visit_tx_ins(&mut self, total_inputs: usize) {
        self.inner.visit_tx_ins(total_inputs)
    }
    fn visit_tx_in(&mut self, vin: usize, tx_in: &bsl::TxIn) -> ControlFlow<()> {
        self.inner.visit_tx_in(vin, tx_in)
    }
    fn visit_tx_outs(&mut self, total_outputs: usize) {
        self.inner.visit_tx_outs(total_outputs)
    }
    fn visit_tx_out(&mut self, vout: usize, tx_out: &bsl::TxOut) -> ControlFlow<()> {
        self.inner.visit_tx_out(vout, tx_out)
    }
    fn visit_witness(&mut self, vin: usize) -> ControlFlow<()> {
        self.inner.visit_witness(vin)
    }
    fn visit_witness_total_element(&mut self, witness_total: usize) {
        self.inner.visit_witness_total_element(witness_total)
    }
    fn visit_witness_element(&mut self, witness_i: usize, witness_element: &[u8]) {
        self.inner.visit_witness_element(witness_i, witness_element)
    }
    fn visit_witness_end(&mut self) {
        self.inner.visit_witness_end()
    }
}

fn run_block(inp: &[u8], brk: i64) -> String {
    let mut rec = Rec::new(inp, brk, brk < 0);
    let r = bsl::Block::visit(inp, &mut rec);
    let mut s = match &r {
        Ok(p) => guard(format!("{}{}", common(inp, p.parsed().as_ref(), p.remaining()), rec.events()), || {
            let x = p.parsed();
            let mut s = format!("{} total={} {} bhash={} bhash2={}{}", common(inp, x.as_ref(), p.remaining()), x.total_transactions(), header_fields(inp, x.header()),
                dec(&x.block_hash().to_byte_array()), dec(&x.block_hash_sha2()), rec.events());
            write!(s, " x_blockhash={} x_blockhash_sha2={}", hex(&x.block_hash().to_byte_array()), hex(&x.block_hash_sha2())).unwrap();
            s
        }),
        Err(e) => format!("{}{}", res_err(e), rec.events()),
    };
    s.push_str(&guard(String::new(), || visit_x_tokens!(bsl::Block, inp, rec, r, brk)));
    if brk < 0 {
        let (done, _) = dec_txs(&rec.evs);
        let mut found = String::new();
        s.push_str(&rb_tokens::<bitcoin::Block>(inp, r.as_ref().ok().map(|p| p.consumed()), |b| {
            let x = r.as_ref().unwrap().parsed();
            // C19: FindTransaction for every txid present (first of duplicates) and an absent one
            let view = x.as_ref();
            let mut ok = true;
            let mut why = String::new();
            let mut ids: Vec<bitcoin::Txid> = b.txdata.iter().map(|t| t.compute_txid()).collect();
            ids.push(bitcoin::Txid::from_byte_array([0x5a; 32]));
            // ids that are NOT transaction ids of this block although they are hashes of its data: the wtxid of every
            // segwit transaction, the merkle root and the block hash (unless one happens to equal a txid)
            let mut decoys: Vec<bitcoin::Txid> = b.txdata.iter().take(8).map(|t| bitcoin::Txid::from_byte_array(t.compute_wtxid().to_byte_array())).collect();
            decoys.push(bitcoin::Txid::from_byte_array(b.header.merkle_root.to_byte_array()));
            decoys.push(bitcoin::Txid::from_byte_array(b.block_hash().to_byte_array()));
            // near misses: the id of a present transaction with one bit flipped in its first, 21st and last byte
            for t in b.txdata.iter().take(3) {
                let id = t.compute_txid().to_byte_array();
                for pos in [0usize, 20, 31] {
                    let mut m = id;
                    m[pos] ^= 0x10;
                    decoys.push(bitcoin::Txid::from_byte_array(m));
                }
            }
            for d in decoys {
                if !ids.contains(&d) { ids.push(d); }
            }
            let ntx = b.txdata.len();
            for id in ids.iter().take(40).chain(ids.iter().skip(ntx.max(40))) {
                let first = b.txdata.iter().position(|t| t.compute_txid() == *id);
                let mut fw = FindWrap { inner: bsl::FindTransaction::new(*id), calls: 0 };
                let res = bsl::Block::visit(view, &mut fw);
                let calls = fw.calls;
                let got = fw.inner.tx_found();
                // the visitor passed directly, as a user would: same outcome as through the counting wrapper
                let mut direct = bsl::FindTransaction::new(*id);
                let res_direct = bsl::Block::visit(view, &mut direct);
                if res_direct != res || direct.tx_found() != got { ok = false; why = "find:direct_differs".into(); }
                match first {
                    Some(ix) => {
                        if res != Err(Error::VisitBreak) { ok = false; why = format!("find{}:no_break", ix); }
                        if got.as_ref() != Some(&b.txdata[ix]) { ok = false; why = format!("find{}:wrong_tx", ix); }
                        if calls != ix as u64 + 1 { ok = false; why = format!("find{}:calls{}", ix, calls); }
                    }
                    None => {
                        if res.is_err() || got.is_some() || calls != b.txdata.len() as u64 { ok = false; why = "find_absent".into(); }
                    }
                }
            }
            found = if ok { " x_find=1".to_string() } else { format!(" x_find=0 x_findwhy={}", why) };
            cmp_header(inp, x.header(), &b.header)?;
            if x.block_hash().to_byte_array() != b.block_hash().to_byte_array() { return Err("block.block_hash".into()); }
            if done.len() != b.txdata.len() { return Err("n_txs".into()); }
            if x.total_transactions() != b.txdata.len() { return Err("total_transactions".into()); }
            for (i, (d, t)) in done.iter().zip(b.txdata.iter()).enumerate() {
                cmp_tx(d, t).map_err(|e| format!("tx{}.{}", i, e))?;
            }
            Ok(())
        }));
        s.push_str(&found);
    }
    s
}

// ---------- cache histories ----------
fn run_cache_k<K: std::hash::Hash + Eq + core::fmt::Debug>(cap: u64, ops: &[&str], mk: fn(u64) -> K, sparse: bool) -> String {
    let mut c: SliceCache<K> = SliceCache::new(cap as usize);
    let mut keys: Vec<u64> = vec![];
    let mut s = String::new();
    let bytes_tok = |v: &[u8]| -> String { v.iter().map(|b| format!(",{}", b)).collect::<String>() };
    for op in ops {
        let parts: Vec<&str> = op.split(':').collect();
        let key = if parts.len() > 1 { Some(parts[1].parse::<u64>().unwrap()) } else { None };
        if let Some(k) = key {
            if !keys.contains(&k) {
                keys.push(k);
            }
        }
        match parts[0] {
            "i" => {
                let v = unhex(parts[2]);
                match c.insert(mk(key.unwrap()), &v) {
                    Ok(n) => write!(s, " i=0,{}", n).unwrap(),
                    Err(e) => {
                        let d = format!("{:?}", e);
                        write!(s, " i={}", if d == "ValueLargerThanBuffer" { 1 } else { 2 }).unwrap()
                    }
                }
            }
            "g" => match c.get(&mk(key.unwrap())) {
                Some(v) => write!(s, " g=1{}", bytes_tok(v)).unwrap(),
                None => s.push_str(" g=0"),
            },
            "c" => write!(s, " c={}", c.contains(&mk(key.unwrap())) as u8).unwrap(),
            "v" => {
                // typed lookup (redb feature): Transaction::from_bytes unwraps, so other bytes panic (v=2)
                let k = key.unwrap();
                let tok = (|| catch_unwind(AssertUnwindSafe(|| match c.get_value::<bsl::Transaction>(&mk(k)) {
                    None => " v=0".to_string(),
                    Some(t) => {
                        let base = c.get(&mk(k)).unwrap();
                        let (a, b, cc) = t.txid_preimage();
                        format!(" v=1,{},{},{},{},{},{},{}", t.as_ref().len(), t.version() as u32, t.locktime(),
                                pws(base, a), pws(base, b), pws(base, cc), t.weight())
                    }
                })).unwrap_or_else(|_| " v=2".to_string()))();
                s.push_str(&tok);
            }
            "l" => write!(s, " l={}", c.len()).unwrap(),
            "f" => write!(s, " f={}", c.full() as u8).unwrap(),
            _ => panic!("bad op"),
        }
        // sparse histories: only what the operations themselves return is observed (a lookup that has side effects,
        // e.g. a "last hit" memo, is perturbed by observing every key after every step)
        if sparse {
            continue;
        }
        // observation after every operation
        #[cfg(bitcoin_slices_verif)]
        {
            let (fp, full, ranges) = c.verif_layout();
            write!(s, " lay={},{}", fp, full as u8).unwrap();
            for (b, e) in ranges {
                write!(s, ",{},{}", b, e).unwrap();
            }
        }
        write!(s, " len={} full={}", c.len(), c.full() as u8).unwrap();
        let mut regions: Vec<(usize, usize, u64)> = vec![];
        for k in &keys {
            match c.get(&mk(*k)) {
                Some(v) => {
                    write!(s, " o={},1{}", k, bytes_tok(v)).unwrap();
                    if !v.is_empty() {
                        regions.push((v.as_ptr() as usize, v.as_ptr() as usize + v.len(), *k));
                    }
                    if c.contains(&mk(*k)) != true { s.push_str(" x_contains_mismatch=1"); }
                    // typed lookup with the identity decoder (OutPoint::from_bytes wraps the bytes it is given):
                    // it must be handed exactly the stored bytes
                    match c.get_value::<bsl::OutPoint>(&mk(*k)) {
                        Some(o) => {
                            let r: &[u8] = o.as_ref();
                            if r.as_ptr() != v.as_ptr() || r.len() != v.len() { s.push_str(" x_getvalue_mismatch=1"); }
                        }
                        None => s.push_str(" x_getvalue_mismatch=1"),
                    }
                }
                None => {
                    write!(s, " o={},0", k).unwrap();
                    if c.contains(&mk(*k)) != false { s.push_str(" x_contains_mismatch=1"); }
                }
            }
        }
        // storage regions of distinct retrievable entries never overlap (C06)
        regions.sort();
        for w in regions.windows(2) {
            if w[1].0 < w[0].1 {
                write!(s, " x_overlap={},{}", w[0].2, w[1].2).unwrap();
            }
        }
    }
    s
}

/// A key type whose hash is deliberately weak (three hash values in all): the cache is generic in the key and
/// may rely on `Eq`, never on hashes being distinct.
#[derive(Debug, PartialEq, Eq, Clone, Copy, PartialOrd, Ord, Default)]
struct WeakKey(u64);
impl core::fmt::Display for WeakKey {
    fn fmt(&self, f: &mut core::fmt::Formatter<'_>) -> core::fmt::Result {
        write!(f, "{}", self.0)
    }
}
impl std::hash::Hash for WeakKey {
    fn hash<H: std::hash::Hasher>(&self, state: &mut H) {
        state.write_u8((self.0 % 3) as u8);
    }
}
/// every history runs with plain u64 keys and with colliding keys; the observations must be the same, and when they
/// are not it is the colliding run that is reported (so that the model comparison and the oracles see it)
fn run_cache(cap: u64, ops: &[&str], sparse: bool) -> String {
    let plain = run_cache_k::<u64>(cap, ops, |k| k, sparse);
    let weak = catch_unwind(AssertUnwindSafe(|| run_cache_k::<WeakKey>(cap, ops, WeakKey, sparse))).unwrap_or_else(|_| " panic=".to_string());
    if weak != plain { format!("{} x_weakkey=0", weak) } else { plain }
}

// ---------- transactions of 2^k bytes and more (C16 / C10 / C02 where 32-bit intermediate arithmetic would wrap) ----------
fn run_bigtx(lg: u32) -> String {
    let n = 1usize << lg;
    for segwit in [false, true] {
        let mut b: Vec<u8> = Vec::with_capacity(n + 200);
        b.extend_from_slice(&2i32.to_le_bytes());
        if segwit {
            b.extend_from_slice(&[0, 1]);
        }
        b.push(1);
        b.extend_from_slice(&[0x11; 32]);
        b.extend_from_slice(&7u32.to_le_bytes());
        b.push(0);
        b.extend_from_slice(&0xFFFF_FFFEu32.to_le_bytes());
        b.push(1);
        b.extend_from_slice(&5000u64.to_le_bytes());
        if n <= u32::MAX as usize {
            b.push(0xFE);
            b.extend_from_slice(&(n as u32).to_le_bytes());
        } else {
            b.push(0xFF);
            b.extend_from_slice(&(n as u64).to_le_bytes());
        }
        b.resize(b.len() + n, 0x6a);
        let wit_len = if segwit { 3usize } else { 0 };
        if segwit {
            b.extend_from_slice(&[1, 1, 0x99]);
        }
        b.extend_from_slice(&9u32.to_le_bytes());
        let total = b.len();
        b.extend_from_slice(&[0xAB, 0xCD]);
        let tag = if segwit { "segwit" } else { "legacy" };
        let p = match bsl::Transaction::parse(&b) {
            Ok(p) => p,
            Err(e) => return format!(" x_bigtx={}:parse:{:?}", tag, e),
        };
        if p.consumed() != total || p.remaining().len() != 2 {
            return format!(" x_bigtx={}:consumed", tag);
        }
        let t = p.parsed();
        let stripped = if segwit { total - 2 - wit_len } else { total };
        let want = 3 * stripped as u64 + total as u64;
        match catch_unwind(AssertUnwindSafe(|| t.weight())) {
            Ok(w) if w == want => {}
            Ok(w) => return format!(" x_bigtx={}:weight:{}:{}", tag, w, want),
            Err(_) => return format!(" x_bigtx={}:weight:panic", tag),
        }
        match catch_unwind(AssertUnwindSafe(|| { let (x, y, z) = t.txid_preimage(); x.len() + y.len() + z.len() })) {
            Ok(l) if l == stripped => {}
            Ok(_) => return format!(" x_bigtx={}:preimage_len", tag),
            Err(_) => return format!(" x_bigtx={}:preimage_len:panic", tag),
        }
        if t.locktime() != 9 || t.version() != 2 {
            return format!(" x_bigtx={}:fields", tag);
        }
    }
    " x_bigtx=ok".to_string()
}

// ---------- a cache larger than 4 GiB (C06/C11/C13 beyond the 32-bit range: about 4.2 GB resident for a few seconds) ----------
fn run_bigcache() -> String {
    let cap = (1usize << 32) + 4096;
    let mut c: SliceCache<u64> = SliceCache::new(cap);
    let chunk = 64usize << 20;
    let mut big = vec![0u8; chunk];
    for k in 0..64u64 {
        big[0] = k as u8 + 1;
        big[chunk - 1] = 0xA0 ^ k as u8;
        match c.insert(k, &big) {
            Ok(0) => {}
            other => return format!(" x_bigcache=fill{}:{:?}", k, other.map_err(|e| format!("{:?}", e))),
        }
    }
    // the write position is now exactly 2^32
    let small = [0xEEu8; 16];
    if !matches!(c.insert(1000, &small), Ok(0)) { return " x_bigcache=insert_beyond_4g".into(); }
    if c.get(&1000) != Some(&small[..]) { return " x_bigcache=get_beyond_4g".into(); }
    for k in [0u64, 1, 31, 63] {
        match c.get(&k) {
            Some(v) if v.len() == chunk && v[0] == k as u8 + 1 && v[chunk - 1] == 0xA0 ^ k as u8 => {}
            _ => return format!(" x_bigcache=get{}", k),
        }
    }
    if c.len() != 65 || c.full() { return format!(" x_bigcache=len{}_full{}", c.len(), c.full() as u8); }
    // wrap: a 64 MiB value no longer fits in the 4080-byte tail; it evicts key 0 (and only key 0) at the start
    big[0] = 0x77;
    if !matches!(c.insert(2000, &big), Ok(1)) { return " x_bigcache=wrap_count".into(); }
    if c.get(&0).is_some() || c.get(&1).map(|v| v[0]) != Some(2) || c.get(&2000).map(|v| v[0]) != Some(0x77) { return " x_bigcache=wrap_state".into(); }
    if c.get(&1000) != Some(&small[..]) || !c.full() || c.len() != 65 { return " x_bigcache=wrap_tail".into(); }
    " x_bigcache=ok".into()
}

// ---------- redb round trip through an actual database (C20) ----------
fn run_redb(kind: &str, inp: &[u8]) -> String {
    let dir = std::env::var("VERIF_TMP").unwrap_or_else(|_| "/verif/.build/tmp".to_string());
    std::fs::create_dir_all(&dir).ok();
    let file = tempfile::NamedTempFile::new_in(&dir).unwrap();
    let db = redb::Database::create(file.path()).unwrap();
    macro_rules! rt {
        ($ty:ty, $val:expr) => {{
            let def: redb::TableDefinition<u64, $ty> = redb::TableDefinition::new("t");
            let v = $val;
            let w = db.begin_write().unwrap();
            {
                let mut t = w.open_table(def).unwrap();
                t.insert(7u64, &v).unwrap();
            }
            w.commit().unwrap();
            let r = db.begin_read().unwrap();
            let t = r.open_table(def).unwrap();
            let got = t.get(7u64).unwrap().unwrap();
            format!("x_redb={}", (got.value() == v) as u8)
        }};
    }
    match kind {
        "txout" => match bsl::TxOut::parse(inp) { Ok(p) => rt!(bsl::TxOut, p.parsed_owned()), Err(_) => "x_redb=skip".into() },
        "txouts" => match bsl::TxOuts::parse(inp) { Ok(p) => rt!(bsl::TxOuts, p.parsed_owned()), Err(_) => "x_redb=skip".into() },
        "transaction" => match bsl::Transaction::parse(inp) { Ok(p) => rt!(bsl::Transaction, p.parsed_owned()), Err(_) => "x_redb=skip".into() },
        "outpoint" => match bsl::OutPoint::parse(inp) {
            Ok(p) => {
                // as key and as value
                let def: redb::TableDefinition<bsl::OutPoint, bsl::OutPoint> = redb::TableDefinition::new("k");
                let v = p.parsed_owned();
                let w = db.begin_write().unwrap();
                {
                    let mut t = w.open_table(def).unwrap();
                    t.insert(&v, &v).unwrap();
                }
                w.commit().unwrap();
                let r = db.begin_read().unwrap();
                let t = r.open_table(def).unwrap();
                let got = t.get(&v).unwrap().unwrap();
                let first = t.iter().unwrap().next().unwrap().unwrap();
                format!("x_redb={}", (got.value() == v && first.0.value() == v) as u8)
            }
            Err(_) => "x_redb=skip".into(),
        },
        _ => panic!("bad redb kind"),
    }
}

/// C19: search a block for a transaction id with the crate's own visitor
fn run_find(inp: &[u8], id: &[u8]) -> String {
    let mut arr = [0u8; 32];
    arr.copy_from_slice(id);
    let mut v = bsl::FindTransaction::new(bitcoin::Txid::from_byte_array(arr));
    let r = bsl::Block::visit(inp, &mut v);
    let res = match &r {
        Ok(p) => common(inp, p.parsed().as_ref(), p.remaining()),
        Err(e) => res_err(e),
    };
    let found = match v.tx_found() {
        Some(tx) => format!("1,{}", dec(&bitcoin::consensus::serialize(&tx))),
        None => "0".to_string(),
    };
    let fres = match &r {
        Ok(_) => "0".to_string(),
        Err(e) => format!("1,{}", err_code(e)),
    };
    format!("{} fres={} found={}", res, fres, found)
}

// ---------- per-case watchdog (C01: "never loops without consuming input") ----------
// A case that does not come back within VERIF_CASE_TIMEOUT_MS (default 30 s; the slowest legitimate case, the
// scripted >4 GiB cache, takes about 3 s) is reported as `<id> res=3 x_timeout=1`, everything produced so far is
// flushed and the process exits with status 98; the driver restarts the shard after that case.
static OUTBUF: std::sync::Mutex<Vec<u8>> = std::sync::Mutex::new(Vec::new());
static CUR_ID: std::sync::Mutex<String> = std::sync::Mutex::new(String::new());
static CUR_START_MS: std::sync::atomic::AtomicU64 = std::sync::atomic::AtomicU64::new(0);
fn flush_locked(g: &mut Vec<u8>) {
    let so = std::io::stdout();
    let mut l = so.lock();
    let _ = l.write_all(g);
    let _ = l.flush();
    g.clear();
}
struct SharedOut;
impl Write for SharedOut {
    fn write(&mut self, b: &[u8]) -> std::io::Result<usize> {
        let mut g = OUTBUF.lock().unwrap_or_else(|e| e.into_inner());
        g.extend_from_slice(b);
        if g.len() > (1 << 16) {
            flush_locked(&mut g);
        }
        Ok(b.len())
    }
    fn flush(&mut self) -> std::io::Result<()> {
        let mut g = OUTBUF.lock().unwrap_or_else(|e| e.into_inner());
        flush_locked(&mut g);
        Ok(())
    }
}
fn start_watchdog() {
    let limit: u64 = std::env::var("VERIF_CASE_TIMEOUT_MS").ok().and_then(|v| v.parse().ok()).unwrap_or(30_000);
    let t0 = std::time::Instant::now();
    // the main thread stamps the start of a case with the watchdog's clock
    CLOCK0.get_or_init(|| t0);
    std::thread::spawn(move || loop {
        std::thread::sleep(std::time::Duration::from_millis(200));
        let st = CUR_START_MS.load(Ordering::Relaxed);
        if st != 0 && (t0.elapsed().as_millis() as u64).saturating_sub(st) > limit {
            let id = CUR_ID.lock().map(|g| g.clone()).unwrap_or_default();
            let mut g = OUTBUF.lock().unwrap_or_else(|e| e.into_inner());
            g.extend_from_slice(format!("{} res=3 x_timeout=1\n", id).as_bytes());
            flush_locked(&mut g);
            std::process::exit(98);
        }
    });
}
static CLOCK0: std::sync::OnceLock<std::time::Instant> = std::sync::OnceLock::new();
fn case_begin(id: &str) {
    if let Ok(mut g) = CUR_ID.lock() {
        g.clear();
        g.push_str(id);
    }
    let now = CLOCK0.get().map(|t| t.elapsed().as_millis() as u64).unwrap_or(0).max(1);
    CUR_START_MS.store(now, Ordering::Relaxed);
}
fn case_end() {
    CUR_START_MS.store(0, Ordering::Relaxed);
}

fn main() {
    std::panic::set_hook(Box::new(|_| {}));
    start_watchdog();
    let stdin = std::io::stdin();
    let mut out = SharedOut;
    for line in stdin.lock().lines() {
        let line = line.unwrap();
        if line.is_empty() {
            continue;
        }
        case_end();
        let f: Vec<&str> = line.split(' ').filter(|s| !s.is_empty()).collect();
        if f.len() > 1 {
            case_begin(f[1]);
        }
        match f[0] {
            "P" => {
                let id = f[1];
                // the input is placed at a start address whose alignment (0..7 modulo 8) varies from case to case
                // (a word-at-a-time fast path must not depend on where the caller's bytes happen to sit)
                let raw = unhex(f[3]);
                let shift = id.bytes().fold(0usize, |a, b| (a * 31 + b as usize) % 8);
                let mut holder = vec![0u8; shift];
                holder.extend_from_slice(&raw);
                let inp = &holder[shift..];
                let param: u64 = f[4].parse().unwrap();
                let brk: i64 = f[5].parse().unwrap();
                ACC_PANIC.store(false, Ordering::Relaxed);
                let r = catch_unwind(AssertUnwindSafe(|| run_case(f[2], &inp, param, brk)));
                ARMED.store(false, Ordering::Relaxed);
                match r {
                    Ok(s) if ACC_PANIC.load(Ordering::Relaxed) => writeln!(out, "{} {} x_accpanic=1", id, s).unwrap(),
                    Ok(s) => writeln!(out, "{} {}", id, s).unwrap(),
                    Err(_) => writeln!(out, "{} res=2", id).unwrap(),
                }
            }
            "K" => {
                let id = f[1];
                let cap: u64 = f[2].parse().unwrap();
                let r = catch_unwind(AssertUnwindSafe(|| run_cache(cap, &f[3..], id.starts_with("ks"))));
                match r {
                    Ok(s) => writeln!(out, "{}{}", id, s).unwrap(),
                    Err(_) => writeln!(out, "{} panic=", id).unwrap(),
                }
            }
            "B" if f[1].starts_with("robigtx") => {
                // B robigtx<k> <log2 of the script length>: transactions of a gigabyte and more (implementation only)
                let lg: u32 = f[2].parse().unwrap();
                let r = catch_unwind(AssertUnwindSafe(|| run_bigtx(lg)));
                writeln!(out, "{}{}", f[1], r.unwrap_or_else(|_| " x_bigtx=panic".to_string())).unwrap();
            }
            "B" => {
                let r = catch_unwind(AssertUnwindSafe(run_bigcache));
                writeln!(out, "{}{}", f[1], r.unwrap_or_else(|_| " x_bigcache=panic".to_string())).unwrap();
            }
            "O" => {
                // outpoint key order
                let a = unhex(f[2]);
                let b = unhex(f[3]);
                let c = <bsl::OutPoint as RedbKey>::compare(&a, &b);
                let code = match c { core::cmp::Ordering::Less => 0, core::cmp::Ordering::Equal => 1, core::cmp::Ordering::Greater => 2 };
                writeln!(out, "{} cmp={}", f[1], code).unwrap();
            }
            "F" => {
                // Block::visit with bsl::FindTransaction::new(id), then tx_found()
                let inp = unhex(f[2]);
                let id = unhex(f[3]);
                let r = catch_unwind(AssertUnwindSafe(|| run_find(&inp, &id)));
                match r {
                    Ok(s) => writeln!(out, "{} {}", f[1], s).unwrap(),
                    Err(_) => writeln!(out, "{} res=2", f[1]).unwrap(),
                }
            }
            "D" => {
                let inp = unhex(f[3]);
                let r = catch_unwind(AssertUnwindSafe(|| run_redb(f[2], &inp)));
                match r {
                    Ok(s) => writeln!(out, "{} {}", f[1], s).unwrap(),
                    Err(_) => writeln!(out, "{} x_redb=panic", f[1]).unwrap(),
                }
            }
            _ => panic!("bad line"),
        }
    }
    case_end();
    out.flush().unwrap();
}
