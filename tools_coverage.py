#!/usr/bin/env python3
"""tools_coverage.py [quick|thorough] — development aid (not registered in MANIFEST): which lines / regions of
/repo/src the correspondence streams actually execute.  Builds the harness with -C instrument-coverage (nightly
toolchain, whose llvm-tools are installed), runs every stream of the given tier through it, merges the profiles and
prints llvm-cov's per-file summary plus the uncovered lines of the non-test code.  A line the streams never reach is
a line whose behaviour the correspondence check says nothing about."""
import os
import subprocess
import sys
import glob

ROOT = os.path.dirname(os.path.abspath(__file__))
sys.path.insert(0, ROOT)
from gen import streams  # noqa: E402

tier = sys.argv[1] if len(sys.argv) > 1 else "quick"
seed = int(os.environ.get("VERIF_SEED", "1"))
B = os.path.join(ROOT, ".build")
tdir = os.path.join(B, "cargo_cov")
pdir = os.path.join(B, "covprof")
os.makedirs(pdir, exist_ok=True)
for f in glob.glob(pdir + "/*"):
    os.remove(f)
sysroot = subprocess.run("rustc +nightly --print sysroot", shell=True, capture_output=True, text=True).stdout.strip()
tools = glob.glob(sysroot + "/lib/rustlib/*/bin")[0]
env = dict(os.environ, CARGO_TARGET_DIR=tdir, RUSTFLAGS="-C instrument-coverage --cfg bitcoin_slices_verif", CARGO_NET_OFFLINE="true")
r = subprocess.run("cargo +nightly build --offline", shell=True, cwd=os.path.join(ROOT, "harness"), env=env, capture_output=True, text=True)
if r.returncode != 0:
    print(r.stderr[-2000:])
    sys.exit(2)
exe = os.path.join(tdir, "debug", "bsharness")
lines = []
for name in ("len", "num", "small", "struct", "cache", "order", "redb", "find"):
    res = getattr(streams, "stream_" + name)(tier, seed)
    ls = res[0] if isinstance(res, tuple) else res
    ls = [x for x in ls if not x.startswith("B ")]       # the >4 GiB scenario is not worth instrumenting
    print("stream %-6s %8d cases" % (name, len(ls)))
    lines += ls
N = 16
procs = []
for i in range(N):
    part = "\n".join(lines[i::N]) + "\n"
    e = dict(os.environ, LLVM_PROFILE_FILE=os.path.join(pdir, "p%d.profraw" % i))
    p = subprocess.Popen([exe], stdin=subprocess.PIPE, stdout=subprocess.DEVNULL, env=e, cwd=os.path.join(B))
    procs.append((p, part))
import threading
def feed(p, part):
    p.stdin.write(part.encode()); p.stdin.close(); p.wait()
ths = [threading.Thread(target=feed, args=pp) for pp in procs]
[t.start() for t in ths]; [t.join() for t in ths]
prof = os.path.join(pdir, "all.profdata")
subprocess.run([tools + "/llvm-profdata", "merge", "-sparse", "-o", prof] + glob.glob(pdir + "/*.profraw"), check=True)
rep = subprocess.run([tools + "/llvm-cov", "report", exe, "-instr-profile=" + prof, "--ignore-filename-regex=(registry|rustc|harness)"], capture_output=True, text=True)
print(rep.stdout)
show = subprocess.run([tools + "/llvm-cov", "show", exe, "-instr-profile=" + prof, "--ignore-filename-regex=(registry|rustc|harness)",
                       "--show-line-counts-or-regions", "--show-instantiations=false"], capture_output=True, text=True).stdout
# uncovered lines outside #[cfg(test)] modules
cur = None
intest = False
out = []
for ln in show.splitlines():
    if ln.startswith("/") and ln.rstrip().endswith(".rs:"):
        cur = ln.rstrip(":")
        intest = False
        continue
    parts = ln.split("|", 2)
    if len(parts) < 3 or cur is None:
        continue
    no, cnt, src = parts[0].strip(), parts[1].strip(), parts[2]
    if "#[cfg(test)]" in src or "mod test" in src:
        intest = True
    if not intest and cnt == "0":
        out.append("%s:%s: %s" % (cur.replace("/repo/", ""), no, src.rstrip()))
print("UNCOVERED non-test lines: %d" % len(out))
print("\n".join(out))
