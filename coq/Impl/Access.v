(* Impl/Access.v — remaining accessors: the outputs iterator, the redb
   (database) encodings and the conversions to rust-bitcoin shaped values. *)
From BS Require Export Impl.Visit Base.Sha256.
Open Scope N_scope.
Local Open Scope out_scope.

(* ---- TxOuts::iter / TxOutIterator (src/bsl/tx_outs.rs) ---- *)
Record txout_iter := { it_elements : N; it_offset : N; it_outs : txouts }.

Definition txouts_iter (x : txouts) : out txout_iter :=
  '(n, consumed) <- expect (scan_len0 (tos_slice x) 0) ;;
  Ok {| it_elements := n; it_offset := consumed; it_outs := x |}.

(* next(): (item, iterator afterwards) *)
Definition iter_next (it : txout_iter) : out (option txout * txout_iter) :=
  if s_len (tos_slice (it_outs it)) <=? it_offset it then Ok (None, it)
  else
    sub <- s_from (tos_slice (it_outs it)) (it_offset it) ;;
    t <- expect (parse_txout sub) ;;
    off' <- uadd (it_offset it) (consumed_of to_slice t) ;;
    Ok (Some (parsed t),
        {| it_elements := sat_sub (it_elements it) 1; it_offset := off'; it_outs := it_outs it |}).

Definition iter_size_hint (it : txout_iter) : N * option N := (it_elements it, Some (it_elements it)).
Definition iter_len (it : txout_iter) : N := it_elements it.

(* drive the iterator to exhaustion (fuel: one step consumes >= 9 bytes) *)
Fixpoint iter_collect (fuel : nat) (it : txout_iter) : out (list (txout * N)) :=
  match fuel with
  | O => OutOfFuel
  | S f =>
      '(o, it') <- iter_next it ;;
      match o with
      | None => Ok []
      | Some t => rest <- iter_collect f it' ;; Ok ((t, iter_len it') :: rest)
      end
  end.

(* ---- redb::RedbValue / RedbKey ---- *)
Definition db_outpoint_from_bytes (data : slice) : outpoint := {| op_slice := data |}.
Definition db_txout_from_bytes (data : slice) : out txout :=
  p <- expect (parse_txout data) ;; Ok (parsed p).
Definition db_txouts_from_bytes (data : slice) : out txouts :=
  '(n, _) <- expect (scan_len0 data 0) ;; Ok {| tos_slice := data; tos_n := n |}.
Definition db_transaction_from_bytes (data : slice) : out transaction :=
  match visit_transaction never data [] with
  | (r, _) => p <- expect r ;; Ok (parsed p)
  end.

(* what SliceCache::get_value::<Transaction> applies to the stored bytes (windows relative to their start) *)
Definition tx_from_stored (v : list byte) : out transaction := db_transaction_from_bytes (top v).

(* OutPoint key order: [data1.cmp(data2)] on byte slices *)
Fixpoint lex_compare (a b : list byte) : comparison :=
  match a, b with
  | [], [] => Eq
  | [], _ :: _ => Lt
  | _ :: _, [] => Gt
  | x :: a', y :: b' =>
      match N.compare (b2n x) (b2n y) with
      | Eq => lex_compare a' b'
      | c => c
      end
  end.

(* ---- Into<bitcoin::OutPoint>, Into<bitcoin::TxOut>, as_bitcoin_script ---- *)
Definition to_rb_outpoint (x : outpoint) : out (list byte * N) :=
  t <- outpoint_txid x ;;
  arr <- (if s_len t =? 32 then Ok (bytes t) else Panic ExpectFailed) ;;
  v <- outpoint_vout x ;;
  Ok (arr, v).
Definition to_rb_txout (x : txout) : out (N * list byte) :=
  s <- txout_script_pubkey x ;; Ok (to_value x, bytes s).

(* ---- hashing accessors (src/bsl/transaction.rs txid / txid_sha2, src/bsl/block_header.rs block_hash /
   block_hash_sha2, src/bsl/block.rs).  SHA-256 is the executable function of Base/Sha256.v; the two
   hashing crates are modelled as its streaming engine (bitcoin_hashes: engine, input x3, from_engine =
   hash of the first digest; sha2: new, update x3, finalize, digest of that). ---- *)
Definition tx_txid (t : transaction) : out (list byte) :=
  '(a, b, c) <- tx_txid_preimage t ;;
  Ok (sha_finish_d (sha_update (sha_update (sha_update sha_init (bytes a)) (bytes b)) (bytes c))).
Definition tx_txid_sha2 (t : transaction) : out (list byte) :=
  '(a, b, c) <- tx_txid_preimage t ;;
  Ok (sha256 (sha_finish (sha_update (sha_update (sha_update sha_init (bytes a)) (bytes b)) (bytes c)))).
Definition header_block_hash (h : header) : list byte :=
  sha_finish_d (sha_update sha_init (bytes (h_slice h))).
Definition header_block_hash_sha2 (h : header) : list byte := sha256 (sha256 (bytes (h_slice h))).
Definition block_block_hash (b : block) : list byte := header_block_hash (b_header b).
Definition block_block_hash_sha2 (b : block) : list byte := header_block_hash_sha2 (b_header b).

(* ---- bsl::FindTransaction (src/bsl/block.rs, mod visitor): a Visitor whose visit_transaction computes
   tx.txid_sha2() and answers Break when it equals the wanted id.  In the model a visitor is a break oracle
   over callbacks; the transaction callback carries the three preimage windows, read here from the
   top-level input [inp] (absolute offsets, the input starts at offset 0). ---- *)
Definition wbytes (inp : list byte) (w : window) : list byte :=
  firstn (N.to_nat (snd w)) (skipn (N.to_nat (fst w)) inp).

Fixpoint bytes_eqb (a b : list byte) : bool :=
  match a, b with
  | [], [] => true
  | x :: a', y :: b' => (b2n x =? b2n y) && bytes_eqb a' b'
  | _, _ => false
  end.

Definition find_pred (inp id : list byte) (e : event) : bool :=
  match e with
  | ETransaction _ _ _ a b c _ => bytes_eqb (sha256d (wbytes inp a ++ wbytes inp b ++ wbytes inp c)) id
  | _ => false
  end.

Definition find_oracle (inp id : list byte) : oracle :=
  fun _ e => match e with ETransaction _ _ _ _ _ _ _ => find_pred inp id e | _ => false end.

(* Block::visit(inp, &mut FindTransaction::new(id)) followed by tx_found(): the result of the visit and the
   bytes of the transaction the visitor stopped at (the crate decodes them with rust-bitcoin) *)
Definition find_transaction (inp id : list byte) : out (presult block) * option (list byte) :=
  match visit_block (find_oracle inp id) (top inp) [] with
  | (Err VisitBreak, ETransaction w _ _ _ _ _ _ :: _) => (Err VisitBreak, Some (wbytes inp w))
  | (r, _) => (r, None)
  end.
