(* Impl/Access.v — remaining accessors: the outputs iterator, the redb
   (database) encodings and the conversions to rust-bitcoin shaped values. *)
From BS Require Export Impl.Visit.
Open Scope N_scope.
Local Open Scope out_scope.

(* ---- TxOuts::iter / TxOutIterator (src/bsl/tx_outs.rs) ---- *)
Record txout_iter := { it_elements : N; it_offset : N; it_outs : txouts }.

Definition txouts_iter (x : txouts) : out txout_iter :=
  '(n, consumed) <- expect (scan_len0 (tos_slice x) 0) ;;
  Ok {| it_elements := n; it_offset := consumed; it_outs := x |}.

(* next(): (item, iterator afterwards) *)
Definition iter_next (it : txout_iter) : out (option txout * txout_iter) :=
  if s_len (tos_slice (it_outs it)) <=? it_offset it then Ok (None, it)
  else
    sub <- s_from (tos_slice (it_outs it)) (it_offset it) ;;
    t <- expect (parse_txout sub) ;;
    off' <- uadd (it_offset it) (consumed_of to_slice t) ;;
    Ok (Some (parsed t),
        {| it_elements := sat_sub (it_elements it) 1; it_offset := off'; it_outs := it_outs it |}).

Definition iter_size_hint (it : txout_iter) : N * option N := (it_elements it, Some (it_elements it)).
Definition iter_len (it : txout_iter) : N := it_elements it.

(* drive the iterator to exhaustion (fuel: one step consumes >= 9 bytes) *)
Fixpoint iter_collect (fuel : nat) (it : txout_iter) : out (list (txout * N)) :=
  match fuel with
  | O => OutOfFuel
  | S f =>
      '(o, it') <- iter_next it ;;
      match o with
      | None => Ok []
      | Some t => rest <- iter_collect f it' ;; Ok ((t, iter_len it') :: rest)
      end
  end.

(* ---- redb::RedbValue / RedbKey ---- *)
Definition db_outpoint_from_bytes (data : slice) : outpoint := {| op_slice := data |}.
Definition db_txout_from_bytes (data : slice) : out txout :=
  p <- expect (parse_txout data) ;; Ok (parsed p).
Definition db_txouts_from_bytes (data : slice) : out txouts :=
  '(n, _) <- expect (scan_len0 data 0) ;; Ok {| tos_slice := data; tos_n := n |}.
Definition db_transaction_from_bytes (data : slice) : out transaction :=
  match visit_transaction never data [] with
  | (r, _) => p <- expect r ;; Ok (parsed p)
  end.

(* what SliceCache::get_value::<Transaction> applies to the stored bytes (windows relative to their start) *)
Definition tx_from_stored (v : list byte) : out transaction := db_transaction_from_bytes (top v).

(* OutPoint key order: [data1.cmp(data2)] on byte slices *)
Fixpoint lex_compare (a b : list byte) : comparison :=
  match a, b with
  | [], [] => Eq
  | [], _ :: _ => Lt
  | _ :: _, [] => Gt
  | x :: a', y :: b' =>
      match N.compare (b2n x) (b2n y) with
      | Eq => lex_compare a' b'
      | c => c
      end
  end.

(* ---- Into<bitcoin::OutPoint>, Into<bitcoin::TxOut>, as_bitcoin_script ---- *)
Definition to_rb_outpoint (x : outpoint) : out (list byte * N) :=
  t <- outpoint_txid x ;;
  arr <- (if s_len t =? 32 then Ok (bytes t) else Panic ExpectFailed) ;;
  v <- outpoint_vout x ;;
  Ok (arr, v).
Definition to_rb_txout (x : txout) : out (N * list byte) :=
  s <- txout_script_pubkey x ;; Ok (to_value x, bytes s).
