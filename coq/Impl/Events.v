(* Impl/Events.v — visitor callbacks as events, the visitor as a break oracle
   over the callback history, and the state monad of the [visit] functions. *)
From BS Require Export Base.Slice.
Open Scope N_scope.

Inductive event :=
| EHeader (w : window) (version : Z) (prev merkle : window) (time nonce : N)
| EBlockBegin (n : N)
| ETxIns (n : N)
| ETxIn (i : N) (w : window) (prev : window) (prev_txid : window) (vout : N) (sig : window) (seq : N)
| ETxOuts (n : N)
| ETxOut (i : N) (w : window) (value : N) (spk : window)
| EWitness (i : N)
| EWitnessTotal (n : N)
| EWitnessElem (i : N) (w : window)
| EWitnessEnd
| ETransaction (w : window) (version : Z) (locktime : N)
               (pre_a pre_b pre_c : window) (weight : N).

(* the five callbacks that return ControlFlow *)
Definition breakable (e : event) : bool :=
  match e with
  | EHeader _ _ _ _ _ _ | ETxIn _ _ _ _ _ _ _ | ETxOut _ _ _ _ | EWitness _
  | ETransaction _ _ _ _ _ _ _ => true
  | _ => false
  end.

(* history, newest event first *)
Definition hist := list event.
(* [brk h e = true]: the visitor, having received the callbacks [rev h],
   answers Break to callback [e].  Consulted only for breakable callbacks. *)
Definition oracle := hist -> event -> bool.
Definition never : oracle := fun _ _ => false.

Definition M (A : Type) := hist -> out A * hist.
Definition mret {A} (a : A) : M A := fun h => (Ok a, h).
Definition mbind {A B} (x : M A) (f : A -> M B) : M B :=
  fun h => match x h with
           | (Ok a, h') => f a h'
           | (Err e, h') => (Err e, h')
           | (Panic w, h') => (Panic w, h')
           | (OutOfFuel, h') => (OutOfFuel, h')
           end.
Definition lift {A} (x : out A) : M A := fun h => (x, h).
Definition emit (brk : oracle) (e : event) : M unit :=
  fun h => (if breakable e && brk h e then Err VisitBreak else Ok tt, e :: h).

Declare Scope m_scope.
Delimit Scope m_scope with m.
Notation "x <- e ;; f" := (mbind e (fun x => f))
  (at level 61, e at next level, right associativity) : m_scope.
Notation "' pat <- e ;; f" := (mbind e (fun x => match x with pat => f end))
  (at level 61, pat pattern, e at next level, right associativity) : m_scope.

Record presult (A : Type) := { remaining : slice; parsed : A }.
Arguments remaining {A} _.
Arguments parsed {A} _.
