(* Impl/Render.v — executable entry points of the model for the correspondence
   check: run one case, produce the canonical observation as a list of
   (tag, numbers).  No logic beyond calling the model and flattening. *)
From Coq Require Import String.
From BS Require Export Impl.Access Impl.Cache Ref.Grammar.
Open Scope string_scope.
Open Scope N_scope.
Open Scope list_scope.

Definition item := (string * list N)%type.

Definition err_code (e : error) : list N :=
  match e with
  | MoreBytesNeeded => [1]
  | UnknownSegwitFlag b => [2; b]
  | SegwitFlagWithoutWitnesses => [3]
  | NonMinimalVarInt => [4]
  | VisitBreak => [5]
  | Other c => [6; c]
  end.

Definition res_item {A} (o : out A) : item :=
  ("res", match o with Ok _ => [0] | Err e => 1 :: err_code e | Panic _ => [2] | OutOfFuel => [3] end).

Definition wl (w : window) : list N := [fst w; snd w].
Definition zv (z : Z) : N := n_of_i32 z.
Definition bl (b : bool) : N := if b then 1 else 0.

Definition event_item (e : event) : item :=
  ("ev",
   match e with
   | EHeader w v p m t n => 0 :: wl w ++ [zv v] ++ wl p ++ wl m ++ [t; n]
   | EBlockBegin n => [1; n]
   | ETxIns n => [2; n]
   | ETxIn i w p pt vout sig seq => 3 :: i :: wl w ++ wl p ++ wl pt ++ [vout] ++ wl sig ++ [seq]
   | ETxOuts n => [4; n]
   | ETxOut i w v spk => 5 :: i :: wl w ++ [v] ++ wl spk
   | EWitness i => [6; i]
   | EWitnessTotal n => [7; n]
   | EWitnessElem i w => 8 :: i :: wl w
   | EWitnessEnd => [9]
   | ETransaction w v l a b c wt => 10 :: wl w ++ [zv v; l] ++ wl a ++ wl b ++ wl c ++ [wt]
   end).

Fixpoint count_breakable (h : hist) : N :=
  match h with [] => 0 | e :: t => (if breakable e then 1 else 0) + count_breakable t end.

(* the visitor policy "break at the i-th breakable callback" *)
Definition brk_at (i : N) : oracle := fun h _ => count_breakable h =? i.
Definition policy (b : option N) : oracle := match b with Some i => brk_at i | None => never end.

Definition events_items (h : hist) : list item :=
  map event_item (rev h) ++ [("nev", [lenN h])].

Local Open Scope out_scope.

(* common part of a successful parse: consumed, view, remainder *)
Definition common (view : slice) (rem : slice) : list item :=
  [("consumed", [s_len view]); ("view", wl (win view)); ("rem", wl (win rem))].

Definition ok_items {A} (o : out A) (f : A -> out (list item)) : list item :=
  match o with
  | Ok a => match f a with
            | Ok l => res_item o :: l
            | Err e => [("res", [2]); ("accerr", [])]
            | Panic _ => [("res", [2]); ("accpanic", [])]
            | OutOfFuel => [("res", [3])]
            end
  | _ => [res_item o]
  end.

Definition len_items (l : len) : list item :=
  [("n", [len_n l]); ("lconsumed", [len_consumed l]); ("slicelen", [len_slice_len l])].

Definition tolen_item (o : out len) : item :=
  ("tolen", match o with Ok l => [0; len_n l; len_consumed l] | Err e => 1 :: err_code e | _ => [2] end).

Definition num_items (w : N) (p : presult num) : out (list item) :=
  Ok ([("consumed", [lenN (num_as_ref (parsed p))]); ("rem", wl (win (remaining p)));
       ("val", [num_to_prim (parsed p)]); ("asref", map b2n (num_as_ref (parsed p)))]
      ++ (if w =? 2 then [tolen_item (to_len_u16 (parsed p))]
          else if w =? 4 then [tolen_item (to_len_u32 (parsed p))]
          else if w =? 8 then [tolen_item (to_len_u64 (parsed p))] else [])).

Definition script_items (p : presult script) : out (list item) :=
  s <- script_script (parsed p) ;;
  Ok (common (sc_slice (parsed p)) (remaining p) ++ [("script", wl (win s))]).

Definition outpoint_items (p : presult outpoint) : out (list item) :=
  t <- outpoint_txid (parsed p) ;;
  v <- outpoint_vout (parsed p) ;;
  Ok (common (op_slice (parsed p)) (remaining p) ++ [("txid", wl (win t)); ("vout", [v])]).

Definition txin_items (p : presult txin) : out (list item) :=
  let x := parsed p in
  t <- outpoint_txid (ti_prevout x) ;;
  v <- outpoint_vout (ti_prevout x) ;;
  s <- txin_script_sig x ;;
  Ok (common (ti_slice x) (remaining p) ++
      [("prevout", wl (win (op_slice (ti_prevout x)))); ("txid", wl (win t)); ("vout", [v]);
       ("sig", wl (win s)); ("seq", [ti_sequence x])]).

Definition txout_fields (x : txout) : out (list N) :=
  s <- txout_script_pubkey x ;;
  Ok (wl (win (to_slice x)) ++ [to_value x] ++ wl (win s)).

Definition txout_items (p : presult txout) : out (list item) :=
  f <- txout_fields (parsed p) ;;
  Ok (common (to_slice (parsed p)) (remaining p) ++ [("txout", f)]).

Definition txins_items (p : presult txins) : out (list item) :=
  e <- txins_is_empty (parsed p) ;;
  Ok (common (tis_slice (parsed p)) (remaining p) ++ [("n", [tis_n (parsed p)]); ("empty", [bl e])]).

Fixpoint iter_items (l : list (txout * N)) : out (list item) :=
  match l with
  | [] => Ok []
  | (t, n) :: r => f <- txout_fields t ;; rest <- iter_items r ;; Ok (("iter", f ++ [n]) :: rest)
  end.

Definition txouts_items (p : presult txouts) : out (list item) :=
  e <- txouts_is_empty (parsed p) ;;
  it <- txouts_iter (parsed p) ;;
  l <- iter_collect (S (length (bytes (tos_slice (parsed p))))) it ;;
  its <- iter_items l ;;
  Ok (common (tos_slice (parsed p)) (remaining p) ++
      [("n", [tos_n (parsed p)]); ("empty", [bl e]); ("iter0", [iter_len it])] ++ its).

Definition witness_items (p : presult witness) : out (list item) :=
  e <- witness_is_empty (parsed p) ;;
  Ok (common (w_slice (parsed p)) (remaining p) ++ [("empty", [bl e])]).

Definition witnesses_items (p : presult witnesses) : out (list item) :=
  Ok (common (ws_slice (parsed p)) (remaining p) ++ [("allempty", [bl (ws_all_empty (parsed p))])]).

Definition tx_fields (t : transaction) : out (list item) :=
  v <- tx_version t ;;
  l <- tx_locktime t ;;
  '(a, b, c) <- tx_txid_preimage t ;;
  w <- tx_weight t ;;
  Ok [("version", [zv v]); ("locktime", [l]); ("prea", wl (pwin a)); ("preb", wl (pwin b));
      ("prec", wl (pwin c)); ("weight", [w])].

(* txid() and txid_sha2() are the same function of the preimage in the model (Proofs/HashSpec.v,
   tx_txid_sha2_eq): it is evaluated once and reported under both names *)
Definition transaction_items (p : presult transaction) : out (list item) :=
  f <- tx_fields (parsed p) ;;
  h <- tx_txid (parsed p) ;;
  Ok (common (tx_slice (parsed p)) (remaining p) ++ f ++ [("txidh", map b2n h); ("txidh2", map b2n h)]).

Definition header_fields (h : header) : out (list item) :=
  p <- header_prev_blockhash h ;;
  m <- header_merkle_root h ;;
  Ok [("version", [zv (h_version h)]); ("prev", wl (win p)); ("merkle", wl (win m));
      ("time", [h_time h]); ("nonce", [h_nonce h])].

Definition hash_items (h : list byte) : list item := [("bhash", map b2n h); ("bhash2", map b2n h)].

Definition header_items (p : presult header) : out (list item) :=
  f <- header_fields (parsed p) ;;
  Ok (common (h_slice (parsed p)) (remaining p) ++ f ++ hash_items (header_block_hash (parsed p))).

Definition block_items (p : presult block) : out (list item) :=
  f <- header_fields (b_header (parsed p)) ;;
  Ok (common (b_slice (parsed p)) (remaining p) ++ [("total", [b_total (parsed p)])] ++ f ++
      hash_items (block_block_hash (parsed p))).

Local Close Scope out_scope.

Inductive entry :=
| E_parse_len | E_scan_len
| E_u8 | E_u16 | E_u32 | E_i32 | E_u64
| E_read_u8 | E_read_u16 | E_read_u32 | E_read_i32 | E_read_u64 | E_read_slice
| E_script | E_outpoint | E_txin | E_txout
| E_txins | E_txouts | E_witness | E_witnesses | E_transaction | E_header | E_block.

Definition visit_items {A} (r : out A * hist) (f : A -> out (list item)) : list item :=
  ok_items (fst r) f ++ events_items (snd r).

Definition val_items {A} (o : out A) (f : A -> N) : list item :=
  ok_items o (fun a => Ok [("val", [f a])]).

Definition run_case (en : entry) (inp : list byte) (param : N) (brk : option N) : list item :=
  let s := top inp in
  let b := policy brk in
  match en with
  | E_parse_len => ok_items (parse_len s) (fun l => Ok (len_items l))
  | E_scan_len =>
      let '(r, c) := scan_len s param in
      ok_items r (fun n => Ok [("n", [n])]) ++ [("counter", [c])]
  | E_u8 => ok_items (parse_u8 s) (num_items 1)
  | E_u16 => ok_items (parse_u16 s) (num_items 2)
  | E_u32 => ok_items (parse_u32 s) (num_items 4)
  | E_i32 => ok_items (parse_i32 s) (fun p => Ok [("consumed", [lenN (num_as_ref (parsed p))]); ("rem", wl (win (remaining p)));
                                                   ("val", [zv (num_to_i32 (parsed p))]); ("asref", map b2n (num_as_ref (parsed p)))])
  | E_u64 => ok_items (parse_u64 s) (num_items 8)
  | E_read_u8 => val_items (read_u8 s) id
  | E_read_u16 => val_items (read_u16 s) id
  | E_read_u32 => val_items (read_u32 s) id
  | E_read_i32 => val_items (read_i32 s) zv
  | E_read_u64 => val_items (read_u64 s) id
  | E_read_slice => ok_items (read_slice s param) (fun p => Ok (common (parsed p) (remaining p)))
  | E_script => ok_items (parse_script s) script_items
  | E_outpoint => ok_items (parse_outpoint s) outpoint_items
  | E_txin => ok_items (parse_txin s) txin_items
  | E_txout => ok_items (parse_txout s) txout_items
  | E_txins => visit_items (visit_txins b s []) txins_items
  | E_txouts => visit_items (visit_txouts b s []) txouts_items
  | E_witness => visit_items (visit_witness b s []) witness_items
  | E_witnesses => visit_items (visit_witnesses b s param []) witnesses_items
  | E_transaction => visit_items (visit_transaction b s []) transaction_items
  | E_header => visit_items (visit_header b s []) header_items
  | E_block => visit_items (visit_block b s []) block_items
  end.

(* ---- cache histories ---- *)
Inductive cop := OpInsert (k : N) (v : list byte) | OpGet (k : N) | OpContains (k : N) | OpLen | OpFull
                | OpGetValueTx (k : N).

(* SliceCache::get_value::<bsl::Transaction>: windows are relative to the start of the stored value *)
Definition getvalue_item (c : cache) (k : N) : option item :=
  match get_value tx_from_stored c k with
  | COk None => Some ("v", [0])
  | COk (Some (Ok t)) =>
      match tx_version t, tx_locktime t, tx_txid_preimage t, tx_weight t with
      | Ok v, Ok l, Ok (a, b, cc), Ok w =>
          Some ("v", [1; s_len (tx_slice t); zv v; l] ++ wl (pwin a) ++ wl (pwin b) ++ wl (pwin cc) ++ [w])
      | _, _, _, _ => Some ("v", [2])
      end
  | COk (Some _) => Some ("v", [2])      (* from_bytes unwraps the parse result: panics on other bytes *)
  | _ => None
  end.

Definition op_key (o : cop) : option N :=
  match o with OpInsert k _ | OpGet k | OpContains k | OpGetValueTx k => Some k | _ => None end.

Definition add_key (k : N) (ks : list N) : list N :=
  if existsb (N.eqb k) ks then ks else ks ++ [k].

Definition get_item (c : cache) (k : N) : item :=
  ("o", k :: match get c k with
             | COk (Some v) => 1 :: map b2n v
             | COk None => [0]
             | _ => [2]
             end).

Definition layout_item (c : cache) : item :=
  let '(fp, full, rs) := layout c in
  ("lay", fp :: bl full ::
          flat_map (fun r => match r with Some (b, e) => [b; e] | None => [U64MAX; U64MAX] end) rs).

Definition observe (c : cache) (keys : list N) : list item :=
  layout_item c :: ("len", [clen c]) :: ("full", [bl (cfull c)]) :: map (get_item c) keys.

Fixpoint run_ops (c : cache) (keys : list N) (ops : list cop) : list item :=
  match ops with
  | [] => []
  | o :: rest =>
      let keys' := match op_key o with Some k => add_key k keys | None => keys end in
      match o with
      | OpInsert k v =>
          match insert c k v with
          | (COk n, c') => ("i", [0; n]) :: observe c' keys' ++ run_ops c' keys' rest
          | (CErr ValueLargerThanBuffer, c') => ("i", [1]) :: observe c' keys' ++ run_ops c' keys' rest
          | (CErr ValueAlreadyPresent, c') => ("i", [2]) :: observe c' keys' ++ run_ops c' keys' rest
          | (CPanic, _) => [("panic", [])]
          end
      | OpGet k =>
          match get c k with
          | COk (Some v) => ("g", 1 :: map b2n v) :: observe c keys' ++ run_ops c keys' rest
          | COk None => ("g", [0]) :: observe c keys' ++ run_ops c keys' rest
          | _ => [("panic", [])]
          end
      | OpContains k =>
          match contains c k with
          | COk b => ("c", [bl b]) :: observe c keys' ++ run_ops c keys' rest
          | _ => [("panic", [])]
          end
      | OpGetValueTx k =>
          match getvalue_item c k with
          | Some it => it :: observe c keys' ++ run_ops c keys' rest
          | None => [("panic", [])]
          end
      | OpLen => ("l", [clen c]) :: observe c keys' ++ run_ops c keys' rest
      | OpFull => ("f", [bl (cfull c)]) :: observe c keys' ++ run_ops c keys' rest
      end
  end.

Definition run_cache (capacity : N) (ops : list cop) : list item :=
  run_ops (cache_new capacity) [] ops.

(* ---- the streaming reference decoder on the same case (model-internal differential:
   Impl vs Ref on res / consumed / callbacks, the statement of Proofs/ImplRef.v) ---- *)
Definition ref_items {A} (o : outcome A) : list item :=
  match o with
  | Done _ s => [("res", [0]); ("consumed", [pos s])] ++ events_items (hi s)
  | Fail e h => [("res", 1 :: err_code e)] ++ events_items h
  | Stuck => [("res", [3])]
  end.

(* Block::visit with bsl::FindTransaction::new(id), then tx_found(): result and the found transaction's bytes *)
Definition run_find (inp id : list byte) : list item :=
  let '(r, f) := find_transaction inp id in
  ok_items r (fun p => Ok (common (b_slice (parsed p)) (remaining p))) ++
  [("fres", snd (res_item r)); ("found", match f with Some b => 1 :: map b2n b | None => [0] end)].

Definition run_ref_case (en : entry) (b : list byte) (param : N) (brk : option N) : list item :=
  let o := policy brk in
  match en with
  | E_script => ref_items (run_ref r_script o 0 b [])
  | E_outpoint => ref_items (run_ref r_outpoint o 0 b [])
  | E_txin => ref_items (run_ref r_txin o 0 b [])
  | E_txout => ref_items (run_ref r_txout o 0 b [])
  | E_txins => ref_items (run_ref r_txins o 0 b [])
  | E_txouts => ref_items (run_ref r_txouts o 0 b [])
  | E_witness => ref_items (run_ref r_witness o 0 b [])
  | E_witnesses => ref_items (run_ref (r_witnesses param) o 0 b [])
  | E_transaction => ref_items (run_ref r_tx o 0 b [])
  | E_header => ref_items (run_ref r_header o 0 b [])
  | E_block => ref_items (run_ref r_block o 0 b [])
  | E_parse_len | E_scan_len => ref_items (run_ref r_compact o 0 b [])
  | E_u8 | E_read_u8 => ref_items (run_ref (r_u 1) o 0 b [])
  | E_u16 | E_read_u16 => ref_items (run_ref (r_u 2) o 0 b [])
  | E_u32 | E_i32 | E_read_u32 | E_read_i32 => ref_items (run_ref (r_u 4) o 0 b [])
  | E_u64 | E_read_u64 => ref_items (run_ref (r_u 8) o 0 b [])
  | E_read_slice => ref_items (run_ref (take param) o 0 b [])
  end.
