(* Impl/Visit.v — Rust-faithful models of src/bsl/{tx_ins,tx_outs,witness,
   witnesses,transaction,block_header,block}.rs.  Loops run on explicit fuel
   and return OutOfFuel when it is exhausted (proved unreachable). *)
From BS Require Export Impl.Leaf.
Open Scope N_scope.

Definition expect {A} (x : out A) : out A :=
  match x with Err _ => Panic ExpectFailed | _ => x end.

(* ---- what the recording visitor observes of each object (accessor calls) ---- *)
Local Open Scope out_scope.

Definition txin_event (i : N) (x : txin) : out event :=
  ptx <- outpoint_txid (ti_prevout x) ;;
  vout <- outpoint_vout (ti_prevout x) ;;
  sig <- txin_script_sig x ;;
  Ok (ETxIn i (win (ti_slice x)) (win (op_slice (ti_prevout x))) (win ptx) vout (win sig) (ti_sequence x)).

Definition txout_event (i : N) (x : txout) : out event :=
  spk <- txout_script_pubkey x ;;
  Ok (ETxOut i (win (to_slice x)) (to_value x) (win spk)).

(* ---- src/bsl/tx_ins.rs ---- *)
Record txins := { tis_slice : slice; tis_n : N }.
Record txouts := { tos_slice : slice; tos_n : N }.
Local Close Scope out_scope.
Local Open Scope m_scope.

Fixpoint txins_loop (fuel : nat) (brk : oracle) (s : slice) (i total consumed : N) : M N :=
  if i <? total then
    match fuel with
    | O => lift OutOfFuel
    | S f =>
        sub <- lift (s_from s consumed) ;;
        ti <- lift (parse_txin sub) ;;
        consumed' <- lift (uadd consumed (consumed_of ti_slice ti)) ;;
        ev <- lift (txin_event i (parsed ti)) ;;
        _ <- emit brk ev ;;
        txins_loop f brk s (i + 1) total consumed'
    end
  else mret consumed.

Definition visit_txins (brk : oracle) (s : slice) : M (presult txins) :=
  '(total, consumed) <- lift (scan_len0 s 0) ;;
  _ <- emit brk (ETxIns total) ;;
  consumed <- txins_loop (S (length (bytes s))) brk s 0 total consumed ;;
  r <- lift (s_from s consumed) ;;
  v <- lift (s_to s consumed) ;;
  mret {| remaining := r; parsed := {| tis_slice := v; tis_n := total |} |}.

(* TxIns::is_empty(): self.slice[0] == 0 *)
Definition txins_is_empty (x : txins) : out bool :=
  obind (s_index (tis_slice x) 0) (fun b => Ok (b2n b =? 0)).

(* ---- src/bsl/tx_outs.rs ---- *)
Fixpoint txouts_loop (fuel : nat) (brk : oracle) (s : slice) (i total consumed : N) : M N :=
  if i <? total then
    match fuel with
    | O => lift OutOfFuel
    | S f =>
        sub <- lift (s_from s consumed) ;;
        t <- lift (parse_txout sub) ;;
        consumed' <- lift (uadd consumed (consumed_of to_slice t)) ;;
        ev <- lift (txout_event i (parsed t)) ;;
        _ <- emit brk ev ;;
        txouts_loop f brk s (i + 1) total consumed'
    end
  else mret consumed.

Definition visit_txouts (brk : oracle) (s : slice) : M (presult txouts) :=
  '(total, consumed) <- lift (scan_len0 s 0) ;;
  _ <- emit brk (ETxOuts total) ;;
  consumed <- txouts_loop (S (length (bytes s))) brk s 0 total consumed ;;
  r <- lift (s_from s consumed) ;;
  v <- lift (s_to s consumed) ;;
  mret {| remaining := r; parsed := {| tos_slice := v; tos_n := total |} |}.

Definition txouts_is_empty (x : txouts) : out bool :=
  obind (s_index (tos_slice x) 0) (fun b => Ok (b2n b =? 0)).

(* ---- src/bsl/witness.rs ---- *)
Record witness := { w_slice : slice }.

Fixpoint witness_loop (fuel : nat) (brk : oracle) (s : slice) (i total consumed : N) : M N :=
  if i <? total then
    match fuel with
    | O => lift OutOfFuel
    | S f =>
        sub <- lift (s_from s consumed) ;;
        '(len, consumed1) <- lift (scan_len0 sub consumed) ;;
        el <- lift (match s_get_range s consumed1 (sat_add consumed1 len) with
                    | Some e => Ok e | None => Err MoreBytesNeeded end) ;;
        consumed2 <- lift (uadd consumed1 len) ;;
        _ <- emit brk (EWitnessElem i (win el)) ;;
        witness_loop f brk s (i + 1) total consumed2
    end
  else mret consumed.

Definition visit_witness (brk : oracle) (s : slice) : M (presult witness) :=
  '(total, consumed) <- lift (scan_len0 s 0) ;;
  _ <- emit brk (EWitnessTotal total) ;;
  consumed <- witness_loop (S (length (bytes s))) brk s 0 total consumed ;;
  v <- lift (s_to s consumed) ;;
  r <- lift (s_from s consumed) ;;
  mret {| remaining := r; parsed := {| w_slice := v |} |}.

Definition witness_is_empty (x : witness) : out bool :=
  obind (s_index (w_slice x) 0) (fun b => Ok (b2n b =? 0)).

(* ---- src/bsl/witnesses.rs ---- *)
Record witnesses := { ws_slice : slice; ws_all_empty : bool }.

Fixpoint witnesses_loop (fuel : nat) (brk : oracle) (i total : N)
         (rem : slice) (consumed : N) (all_empty : bool) : M (N * bool) :=
  if i <? total then
    match fuel with
    | O => lift OutOfFuel
    | S f =>
        _ <- emit brk (EWitness i) ;;
        w <- visit_witness brk rem ;;
        _ <- emit brk EWitnessEnd ;;
        consumed' <- lift (uadd consumed (consumed_of w_slice w)) ;;
        e <- lift (witness_is_empty (parsed w)) ;;
        witnesses_loop f brk (i + 1) total (remaining w) consumed' (if e then all_empty else false)
    end
  else mret (consumed, all_empty).

Definition visit_witnesses (brk : oracle) (s : slice) (total_inputs : N) : M (presult witnesses) :=
  '(consumed, all_empty) <- witnesses_loop (S (length (bytes s))) brk 0 total_inputs s 0 true ;;
  v <- lift (s_to s consumed) ;;
  r <- lift (s_from s consumed) ;;
  mret {| remaining := r; parsed := {| ws_slice := v; ws_all_empty := all_empty |} |}.

(* ---- src/bsl/transaction.rs ---- *)
Record transaction := { tx_slice : slice; tx_io_len : option N }.
Local Close Scope m_scope.
Local Open Scope out_scope.

Definition tx_version (t : transaction) : out Z :=
  v <- s_to (tx_slice t) 4 ;; expect (read_i32 v).
Definition tx_locktime (t : transaction) : out N :=
  from <- usub (s_len (tx_slice t)) 4 ;;
  v <- s_from (tx_slice t) from ;; expect (read_u32 v).
Definition empty_window : window := (0, 0).
(* windows of the three preimage parts; [&[]] literals are the empty window *)
Definition tx_txid_preimage (t : transaction) : out (slice * slice * slice) :=
  match tx_io_len t with
  | Some n =>
      a <- s_to (tx_slice t) 4 ;;
      hi <- uadd n 6 ;;
      b <- s_range (tx_slice t) 6 hi ;;
      from <- usub (s_len (tx_slice t)) 4 ;;
      c <- s_from (tx_slice t) from ;;
      Ok (a, b, c)
  | None => Ok (tx_slice t, {| off := 0; bytes := [] |}, {| off := 0; bytes := [] |})
  end.
Definition tx_weight (t : transaction) : out N :=
  let total := s_len (tx_slice t) in
  match tx_io_len t with
  | Some n => b1 <- uadd n 4 ;; base <- uadd b1 4 ;; b3 <- umul base 3 ;; uadd b3 total
  | None => umul total 4
  end.

Definition pwin (s : slice) : window := if s_len s =? 0 then empty_window else win s.

Definition tx_event (t : transaction) : out event :=
  v <- tx_version t ;;
  l <- tx_locktime t ;;
  '(a, b, c) <- tx_txid_preimage t ;;
  w <- tx_weight t ;;
  Ok (ETransaction (win (tx_slice t)) v l (pwin a) (pwin b) (pwin c) w).

Local Close Scope out_scope.
Local Open Scope m_scope.

Definition nonzero (n : N) : option N := if n =? 0 then None else Some n.

Definition visit_transaction (brk : oracle) (s : slice) : M (presult transaction) :=
  _ <- lift (read_i32 s) ;;
  s4 <- lift (s_from s 4) ;;
  inputs <- visit_txins brk s4 ;;
  e <- lift (txins_is_empty (parsed inputs)) ;;
  if e then
    flag <- lift (read_u8 (remaining inputs)) ;;
    if flag =? 1 then
      r1 <- lift (s_from (remaining inputs) 1) ;;
      inputs <- visit_txins brk r1 ;;
      outputs <- visit_txouts brk (remaining inputs) ;;
      wits <- visit_witnesses brk (remaining outputs) (tis_n (parsed inputs)) ;;
      e2 <- lift (txins_is_empty (parsed inputs)) ;;
      if negb e2 && ws_all_empty (parsed wits) then lift (Err SegwitFlagWithoutWitnesses) else
      _ <- lift (read_u32 (remaining wits)) ;;
      c1 <- lift (uadd 10 (consumed_of tis_slice inputs)) ;;
      c2 <- lift (uadd c1 (consumed_of tos_slice outputs)) ;;
      consumed <- lift (uadd c2 (consumed_of ws_slice wits)) ;;
      io_len <- lift (uadd (s_len (tis_slice (parsed inputs))) (s_len (tos_slice (parsed outputs)))) ;;
      v <- lift (s_to s consumed) ;;
      let tx := {| tx_slice := v; tx_io_len := nonzero io_len |} in
      ev <- lift (tx_event tx) ;;
      _ <- emit brk ev ;;
      r <- lift (s_from s consumed) ;;
      mret {| remaining := r; parsed := tx |}
    else lift (Err (UnknownSegwitFlag flag))
  else
    outputs <- visit_txouts brk (remaining inputs) ;;
    _ <- lift (read_u32 (remaining outputs)) ;;
    c1 <- lift (uadd (consumed_of tis_slice inputs) (consumed_of tos_slice outputs)) ;;
    consumed <- lift (uadd c1 8) ;;
    v <- lift (s_to s consumed) ;;
    let tx := {| tx_slice := v; tx_io_len := None |} in
    ev <- lift (tx_event tx) ;;
    _ <- emit brk ev ;;
    r <- lift (s_from s consumed) ;;
    mret {| remaining := r; parsed := tx |}.

(* ---- src/bsl/block_header.rs ---- *)
Record header := { h_slice : slice; h_version : Z; h_time : N; h_bits : N; h_nonce : N }.
Local Close Scope m_scope.
Local Open Scope out_scope.

Definition header_prev_blockhash (h : header) : out slice := s_range (h_slice h) 4 36.
Definition header_merkle_root (h : header) : out slice := s_range (h_slice h) 36 68.

Definition header_event (h : header) : out event :=
  p <- header_prev_blockhash h ;;
  m <- header_merkle_root h ;;
  Ok (EHeader (win (h_slice h)) (h_version h) (win p) (win m) (h_time h) (h_nonce h)).

Local Close Scope out_scope.
Local Open Scope m_scope.

Definition visit_header (brk : oracle) (s : slice) : M (presult header) :=
  if s_len_lt s 80 then lift (Err MoreBytesNeeded) else
  s1 <- lift (s_range s 0 4) ;; version <- lift (expect (read_i32 s1)) ;;
  s2 <- lift (s_range s 68 72) ;; time <- lift (expect (read_u32 s2)) ;;
  s3 <- lift (s_range s 72 76) ;; bits <- lift (expect (read_u32 s3)) ;;
  s4 <- lift (s_range s 76 80) ;; nonce <- lift (expect (read_u32 s4)) ;;
  v <- lift (s_to s 80) ;;
  let hd := {| h_slice := v; h_version := version; h_time := time; h_bits := bits; h_nonce := nonce |} in
  ev <- lift (header_event hd) ;;
  _ <- emit brk ev ;;
  r <- lift (s_from s 80) ;;
  mret {| remaining := r; parsed := hd |}.

(* ---- src/bsl/block.rs ---- *)
Record block := { b_slice : slice; b_header : header; b_total : N }.

Fixpoint block_loop (fuel : nat) (brk : oracle) (s : slice) (i total consumed : N) : M N :=
  if i <? total then
    match fuel with
    | O => lift OutOfFuel
    | S f =>
        sub <- lift (s_from s consumed) ;;
        tx <- visit_transaction brk sub ;;
        consumed' <- lift (uadd consumed (consumed_of tx_slice tx)) ;;
        block_loop f brk s (i + 1) total consumed'
    end
  else mret consumed.

Definition visit_block (brk : oracle) (s : slice) : M (presult block) :=
  hd <- visit_header brk s ;;
  '(total, consumed) <- lift (scan_len0 (remaining hd) 0) ;;
  consumed <- lift (uadd consumed 80) ;;
  _ <- emit brk (EBlockBegin total) ;;
  consumed <- block_loop (S (length (bytes s))) brk s 0 total consumed ;;
  '(v, r) <- lift (s_split s consumed) ;;
  mret {| remaining := r; parsed := {| b_slice := v; b_header := parsed hd; b_total := total |} |}.
