(* Impl/Cache.v — model of src/slice_cache.rs (after the F1 repair).
   hashbrown::HashMap is an association list, the VecDeque of keys a list kept
   OLDEST FIRST (back of the deque = head of the list, push_front = append),
   Box<[u8]> a list of bytes.  Keys are N (the code only uses Eq/Hash). *)
From BS Require Export Base.Mach.
Open Scope N_scope.

Inductive cerror := ValueLargerThanBuffer | ValueAlreadyPresent.
Inductive cres (A : Type) := COk (a : A) | CErr (e : cerror) | CPanic.
Arguments COk {A} a. Arguments CErr {A} e. Arguments CPanic {A}.

Record range := { r_begin : N; r_end : N }.

Definition from_begin_end (b e : N) : option range :=
  if b <? e then Some {| r_begin := b; r_end := e |} else None.
Definition overlaps (a b : range) : bool :=
  (r_begin a <? r_end b) && (r_begin b <? r_end a).

Record cache := {
  c_buffer : list byte;
  c_fp : N;
  c_indexes : list (N * range);
  c_queue : list N;               (* oldest first *)
  c_full : bool }.

Definition cap (c : cache) : N := lenN (c_buffer c).

Definition cache_new (size : N) : cache :=
  {| c_buffer := repeat x00 (N.to_nat size); c_fp := 0; c_indexes := []; c_queue := []; c_full := false |}.

Fixpoint lookup (k : N) (m : list (N * range)) : option range :=
  match m with
  | [] => None
  | (k', r) :: t => if k =? k' then Some r else lookup k t
  end.
Fixpoint remove_key (k : N) (m : list (N * range)) : list (N * range) :=
  match m with
  | [] => []
  | (k', r) :: t => if k =? k' then remove_key k t else (k', r) :: remove_key k t
  end.

(* fn remove_range: pops from the oldest end while the popped range overlaps *)
Fixpoint remove_range (idx : list (N * range)) (q : list N) (r : range)
  : option (list (N * range) * list N * N) :=        (* None = an [expect] failed *)
  match q with
  | [] => Some (idx, [], 0)
  | back :: q' =>
      match lookup back idx with
      | None => None
      | Some rg =>
          if overlaps r rg then
            match remove_range (remove_key back idx) q' r with
            | Some (idx', q'', n) => Some (idx', q'', n + 1)
            | None => None
            end
          else Some (idx, q, 0)
      end
  end.

(* self.buffer[b..e].copy_from_slice(v) *)
Definition write_at (buf : list byte) (b e : N) (v : list byte) : option (list byte) :=
  if (e <? b) || (lenN buf <? e) || negb (lenN v =? e - b) then None
  else Some (firstn (N.to_nat b) buf ++ v ++ skipn (N.to_nat e) buf).

(* pub fn insert(&mut self, key, value) -> Result<usize, Error>: (result, state afterwards).
   Every early return happens before the first mutation of [self]. *)
Definition insert (c : cache) (key : N) (value : list byte) : cres N * cache :=
  match lookup key (c_indexes c) with
  | Some _ => (CErr ValueAlreadyPresent, c)
  | None =>
  if cap c <? lenN value then (CErr ValueLargerThanBuffer, c) else
  (* wrap *)
  let wrapped :=
    if cap c <? lenN value + c_fp c then
      match from_begin_end (c_fp c) (cap c) with
      | Some rg =>
          match remove_range (c_indexes c) (c_queue c) rg with
          | Some (idx, q, n) => Some (idx, q, n, 0, true)
          | None => None
          end
      | None => Some (c_indexes c, c_queue c, 0, 0, true)
      end
    else Some (c_indexes c, c_queue c, 0, c_fp c, c_full c) in
  match wrapped with
  | None => (CPanic, c)
  | Some (idx, q, removed, fp, full) =>
      let b := fp in
      let e := b + lenN value in
      match write_at (c_buffer c) b e value with
      | None => (CPanic, c)
      | Some buf =>
          let rg := {| r_begin := b; r_end := b + lenN value |} in
          match remove_range idx q rg with
          | None => (CPanic, c)
          | Some (idx', q', n) =>
              (COk (removed + n),
               {| c_buffer := buf; c_fp := e;
                  c_indexes := (key, rg) :: idx'; c_queue := q' ++ [key]; c_full := full |})
          end
      end
  end
  end.

Definition get (c : cache) (key : N) : cres (option (list byte)) :=
  match lookup key (c_indexes c) with
  | None => COk None
  | Some rg =>
      if (r_end rg <? r_begin rg) || (cap c <? r_end rg) then CPanic
      else COk (Some (firstn (N.to_nat (r_end rg - r_begin rg)) (skipn (N.to_nat (r_begin rg)) (c_buffer c))))
  end.

Definition contains (c : cache) (key : N) : cres bool :=
  match get c key with COk (Some _) => COk true | COk None => COk false | CErr e => CErr e | CPanic => CPanic end.
(* get_value::<V>: the typed lookup, [V::from_bytes] applied to the stored bytes (redb feature) *)
Definition get_value {A} (from_bytes : list byte -> A) (c : cache) (key : N) : cres (option A) :=
  match get c key with
  | COk (Some v) => COk (Some (from_bytes v))
  | COk None => COk None
  | CErr e => CErr e
  | CPanic => CPanic
  end.
Definition clen (c : cache) : N := lenN (c_indexes c).
Definition cfull (c : cache) : bool := c_full c.

(* layout snapshot, as the verif hook reports it: fp, full, ranges oldest -> newest *)
Definition layout (c : cache) : N * bool * list (option (N * N)) :=
  (c_fp c, c_full c,
   map (fun k => match lookup k (c_indexes c) with Some r => Some (r_begin r, r_end r) | None => None end) (c_queue c)).
