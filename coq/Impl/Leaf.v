(* Impl/Leaf.v — Rust-faithful models of src/slice.rs, src/number.rs,
   src/bsl/{len,script,out_point,tx_in,tx_out}.rs.  One bind per Rust
   statement, same order of reads, same arithmetic, same construction of the
   view and the remainder. *)
From BS Require Export Impl.Events.
Open Scope N_scope.
Local Open Scope out_scope.

(* ---- src/slice.rs ---- *)

(* pub fn read_slice(from, len) *)
Definition read_slice (s : slice) (n : N) : out (presult slice) :=
  if s_len_lt s n then Err MoreBytesNeeded
  else '(p, r) <- s_split s n ;; Ok {| remaining := r; parsed := p |}.

(* pub(crate) fn split_at_checked(from, len) *)
Definition split_at_checked (s : slice) (n : N) : out (slice * slice) :=
  if s_len_lt s n then Err MoreBytesNeeded else s_split s n.

(* ---- src/number.rs ---- *)

(* the newtypes own an array: a copy of the bytes, not a window *)
Record num := { num_bytes : list byte }.

(* [.try_into().expect("slice length is w")] *)
Definition to_array (w : N) (b : list byte) : out (list byte) :=
  if lenN b =? w then Ok b else Panic ExpectFailed.

(* U8::parse *)
Definition parse_u8 (s : slice) : out (presult num) :=
  p <- read_slice s 1 ;;
  b <- s_index (parsed p) 0 ;;
  Ok {| remaining := remaining p; parsed := {| num_bytes := [b] |} |}.

(* impl_number!: Visit::visit (the visitor is unused) *)
Definition parse_num (w : N) (s : slice) : out (presult num) :=
  p <- read_slice s w ;;
  arr <- to_array w (bytes (parsed p)) ;;
  Ok {| remaining := remaining p; parsed := {| num_bytes := arr |} |}.
Definition parse_u16 := parse_num 2.
Definition parse_u32 := parse_num 4.
Definition parse_i32 := parse_num 4.
Definition parse_u64 := parse_num 8.

(* From<newtype> for primitive / From<primitive> for newtype / AsRef *)
Definition num_to_prim (x : num) : N := le_dec (num_bytes x).
Definition num_to_i32 (x : num) : Z := i32_of_n (le_dec (num_bytes x)).
Definition num_from_prim (w : nat) (v : N) : num := {| num_bytes := le_enc w v |}.
Definition num_from_i32 (v : Z) : num := {| num_bytes := le_enc 4 (n_of_i32 v) |}.
Definition num_as_ref (x : num) : list byte := num_bytes x.

(* read_u8 .. read_u64 *)
Definition read_u8 (s : slice) : out N :=
  match s_first s with Some b => Ok (b2n b) | None => Err MoreBytesNeeded end.
Definition read_le (w : N) (s : slice) : out N :=
  match s_get_to s w with
  | Some r => arr <- to_array w (bytes r) ;; Ok (le_dec arr)
  | None => Err MoreBytesNeeded
  end.
Definition read_u16 := read_le 2.
Definition read_u32 := read_le 4.
Definition read_u64 := read_le 8.
Definition read_i32 (s : slice) : out Z := n <- read_le 4 s ;; Ok (i32_of_n n).

(* ---- src/bsl/len.rs ---- *)

Record len := { len_consumed : N; len_n : N }.

Definition U32MAX : N := 4294967295.
Definition U16MAX : N := 65535.

(* U64::to_len / U32::to_len / U16::to_len *)
Definition to_len_u64 (x : num) : out len :=
  let n := num_to_prim x in
  if U32MAX <? n then Ok {| len_consumed := 9; len_n := n |} else Err NonMinimalVarInt.
Definition to_len_u32 (x : num) : out len :=
  let n := num_to_prim x in
  if U16MAX <? n then Ok {| len_consumed := 5; len_n := n |} else Err NonMinimalVarInt.
Definition to_len_u16 (x : num) : out len :=
  let n := num_to_prim x in
  if 253 <=? n then Ok {| len_consumed := 3; len_n := n |} else Err NonMinimalVarInt.

(* #[deprecated] pub fn parse_len(slice) *)
Definition parse_len (s : slice) : out len :=
  match s_first s with
  | Some b =>
      let x := b2n b in
      if x =? 255 then t <- s_from s 1 ;; p <- parse_u64 t ;; to_len_u64 (parsed p)
      else if x =? 254 then t <- s_from s 1 ;; p <- parse_u32 t ;; to_len_u32 (parsed p)
      else if x =? 253 then t <- s_from s 1 ;; p <- parse_u16 t ;; to_len_u16 (parsed p)
      else Ok {| len_consumed := 1; len_n := x |}
  | None => Err MoreBytesNeeded
  end.

(* pub fn scan_len(slice, consumed: &mut usize) -> Result<u64, Error>
   returns (result, value of *consumed afterwards) *)
Definition scan_wide (s : slice) (c : N) (hi w : N) (minimal : N -> bool) : out N * N :=
  match s_get_range s 1 hi with
  | None => (Err MoreBytesNeeded, c)
  | Some r =>
      match to_array w (bytes r) with
      | Ok arr =>
          let n := le_dec arr in
          if minimal n then
            match uadd c hi with
            | Ok c' => (Ok n, c')
            | Err e => (Err e, c) | Panic p => (Panic p, c) | OutOfFuel => (OutOfFuel, c)
            end
          else (Err NonMinimalVarInt, c)
      | Err e => (Err e, c) | Panic p => (Panic p, c) | OutOfFuel => (OutOfFuel, c)
      end
  end.

Definition scan_len (s : slice) (c : N) : out N * N :=
  match s_first s with
  | Some b =>
      let x := b2n b in
      if x =? 255 then scan_wide s c 9 8 (fun n => U32MAX <? n)
      else if x =? 254 then scan_wide s c 5 4 (fun n => U16MAX <? n)
      else if x =? 253 then scan_wide s c 3 2 (fun n => 253 <=? n)
      else match uadd c 1 with
           | Ok c' => (Ok x, c')
           | Err e => (Err e, c) | Panic p => (Panic p, c) | OutOfFuel => (OutOfFuel, c)
           end
  | None => (Err MoreBytesNeeded, c)
  end.

(* the [let mut consumed = 0; let n = scan_len(slice, &mut consumed)?] idiom *)
Definition scan_len0 (s : slice) (c : N) : out (N * N) :=
  match scan_len s c with
  | (Ok n, c') => Ok (n, c')
  | (Err e, _) => Err e
  | (Panic p, _) => Panic p
  | (OutOfFuel, _) => OutOfFuel
  end.

(* Len::slice_len (after the F3 repair: saturating) *)
Definition len_slice_len (l : len) : N := sat_add (len_consumed l) (len_n l).

(* ---- src/bsl/script.rs ---- *)

Record script := { sc_slice : slice; sc_from : N }.

Definition parse_script (s : slice) : out (presult script) :=
  '(n, consumed) <- scan_len0 s 0 ;;
  '(sb, r) <- split_at_checked s (sat_add consumed n) ;;
  Ok {| remaining := r; parsed := {| sc_slice := sb; sc_from := consumed |} |}.

(* Script::script(): &self.slice[self.from..] *)
Definition script_script (x : script) : out slice := s_from (sc_slice x) (sc_from x).

(* ---- src/bsl/out_point.rs ---- *)

Record outpoint := { op_slice : slice }.

Definition parse_outpoint (s : slice) : out (presult outpoint) :=
  '(a, r) <- split_at_checked s 36 ;;
  Ok {| remaining := r; parsed := {| op_slice := a |} |}.

Definition outpoint_txid (x : outpoint) : out slice := s_to (op_slice x) 32.
Definition outpoint_vout (x : outpoint) : out N :=
  r <- s_range (op_slice x) 32 36 ;;
  arr <- to_array 4 (bytes r) ;;
  Ok (le_dec arr).

(* ---- src/bsl/tx_in.rs ---- *)

Record txin := { ti_slice : slice; ti_prevout : outpoint; ti_script_sig : script; ti_sequence : N }.

Definition consumed_of {A} (sl : A -> slice) (p : presult A) : N := s_len (sl (parsed p)).

Definition parse_txin (s : slice) : out (presult txin) :=
  op <- parse_outpoint s ;;
  sc <- parse_script (remaining op) ;;
  seq <- read_u32 (remaining sc) ;;
  consumed <- uadd (consumed_of sc_slice sc) 40 ;;
  v <- s_to s consumed ;;
  r <- s_from s consumed ;;
  Ok {| remaining := r;
        parsed := {| ti_slice := v; ti_prevout := parsed op;
                     ti_script_sig := parsed sc; ti_sequence := seq |} |}.

Definition txin_script_sig (x : txin) : out slice := script_script (ti_script_sig x).

(* ---- src/bsl/tx_out.rs ---- *)

Record txout := { to_slice : slice; to_value : N; to_spk : script }.

Definition parse_txout (s : slice) : out (presult txout) :=
  value <- read_u64 s ;;
  t <- s_from s 8 ;;
  sc <- parse_script t ;;
  consumed <- uadd 8 (consumed_of sc_slice sc) ;;
  v <- s_to s consumed ;;
  Ok {| remaining := remaining sc;
        parsed := {| to_slice := v; to_value := value; to_spk := parsed sc |} |}.

Definition txout_script_pubkey (x : txout) : out slice := script_script (to_spk x).
