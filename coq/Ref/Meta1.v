(* Ref/Meta1.v — closure properties Consumes / Progress / NoStuck / Mono / Local
   of the streaming reference parser monad (Ref/Stream.v), their instances for
   every decoder of Ref/Grammar.v, and the generic prefix corollaries. *)
From Coq Require Import Lia ZifyN ZifyNat ZifyBool.
From BS Require Export Ref.MetaDefs.
Open Scope N_scope.

(* ------------------------------------------------------------------ *)
(** * History extension *)

Lemma ext_hist_refl h : ext_hist h h.
Proof. exists []. reflexivity. Qed.

Lemma ext_hist_trans a b c : ext_hist a b -> ext_hist b c -> ext_hist a c.
Proof. intros [d1 E1] [d2 E2]. subst. exists (d2 ++ d1). rewrite app_assoc. reflexivity. Qed.

Lemma ext_hist_cons e h : ext_hist h (e :: h).
Proof. exists [e]. reflexivity. Qed.

Lemma ext_hist_app d h : ext_hist h (d ++ h).
Proof. exists d. reflexivity. Qed.

(* ------------------------------------------------------------------ *)
(** * State helpers *)

Lemma st_app_nil s : st_app s [] = s.
Proof. destruct s as [q b h]. unfold st_app. cbn [pos inp hi]. rewrite app_nil_r. reflexivity. Qed.

Lemma st_app_app s x y : st_app (st_app s x) y = st_app s (x ++ y).
Proof. unfold st_app. cbn [pos inp hi]. rewrite app_assoc. reflexivity. Qed.

Lemma st_eta s : {| pos := pos s; inp := inp s; hi := hi s |} = s.
Proof. destruct s; reflexivity. Qed.

Lemma splitN_app_more {A} (l a b x : list A) n :
  splitN l n = Some (a, b) -> splitN (l ++ x) n = Some (a, b ++ x).
Proof.
  intros E. apply splitN_Some in E. destruct E as [E1 E2]. subst l n.
  rewrite <- app_assoc. apply splitN_app.
Qed.

(* loop_fuel unfolding, one step *)
Lemma loop_fuel_S {A} f (body : N -> P A) i n :
  loop_fuel (S f) body i n =
  if i <? n then bind (body i) (fun x => bind (loop_fuel f body (i + 1) n) (fun r => ret (x :: r)))
  else ret [].
Proof. reflexivity. Qed.

Lemma loop_fuel_O {A} (body : N -> P A) i n :
  loop_fuel O body i n = if i <? n then (fun _ _ => Stuck) else ret [].
Proof. reflexivity. Qed.

Lemma loop_fuel_done {A} f (body : N -> P A) i n :
  (i <? n) = false -> loop_fuel f body i n = ret [].
Proof. intros E. destruct f; cbn [loop_fuel]; rewrite E; reflexivity. Qed.

(* ------------------------------------------------------------------ *)
(** * 1. Consumes *)

Lemma Consumes_ret {A} (a : A) : Consumes (ret a).
Proof.
  intros brk s. unfold ret. exists []. repeat split.
  - rewrite lenN_nil. lia.
  - apply ext_hist_refl.
Qed.

Lemma Consumes_fail {A} e : Consumes (@fail A e).
Proof. intros brk s. unfold fail. apply ext_hist_refl. Qed.

Lemma Consumes_take n : Consumes (take n).
Proof.
  intros brk s. unfold take. destruct (splitN (inp s) n) as [[a b]|] eqn:E.
  - apply splitN_Some in E. destruct E as [E1 E2]. exists a. cbn [inp pos hi].
    repeat split.
    + exact E1.
    + rewrite E2. reflexivity.
    + apply ext_hist_refl.
  - apply ext_hist_refl.
Qed.

Lemma Consumes_get_pos : Consumes get_pos.
Proof.
  intros brk s. unfold get_pos. exists []. repeat split.
  - rewrite lenN_nil. lia.
  - apply ext_hist_refl.
Qed.

Lemma Consumes_emitp e : Consumes (emitp e).
Proof.
  intros brk s. unfold emitp. destruct (breakable e && brk (hi s) e).
  - apply ext_hist_cons.
  - exists []. cbn [inp pos hi]. repeat split.
    + rewrite lenN_nil. lia.
    + apply ext_hist_cons.
Qed.

Lemma Consumes_stuck {A} : Consumes (fun _ _ => @Stuck A).
Proof. intros brk s. exact I. Qed.

Lemma Consumes_bind {A B} (p : P A) (f : A -> P B) :
  Consumes p -> (forall a, Consumes (f a)) -> Consumes (bind p f).
Proof.
  intros Hp Hf brk s. unfold bind. specialize (Hp brk s).
  destruct (p brk s) as [a s1|e h|]; [|exact Hp|exact I].
  destruct Hp as (c1 & E1 & P1 & H1). specialize (Hf a brk s1).
  destruct (f a brk s1) as [b s2|e h|]; [| |exact I].
  - destruct Hf as (c2 & E2 & P2 & H2). exists (c1 ++ c2).
    rewrite <- app_assoc, <- E2, lenN_app. repeat split.
    + exact E1.
    + lia.
    + eapply ext_hist_trans; eassumption.
  - eapply ext_hist_trans; eassumption.
Qed.

Lemma Consumes_if {A} (c : bool) (p q : P A) :
  Consumes p -> Consumes q -> Consumes (if c then p else q).
Proof. destruct c; auto. Qed.

Lemma Consumes_match_prod {A B C} (x : A * B) (f : A -> B -> P C) :
  (forall a b, Consumes (f a b)) -> Consumes (match x with (a, b) => f a b end).
Proof. destruct x; auto. Qed.

Lemma Consumes_match_list {A C} (x : list A) (p : P C) (f : A -> list A -> P C) :
  Consumes p -> (forall a l, Consumes (f a l)) ->
  Consumes (match x with [] => p | a :: l => f a l end).
Proof. destruct x; auto. Qed.

Lemma Consumes_match_option {A C} (x : option A) (p : P C) (f : A -> P C) :
  Consumes p -> (forall a, Consumes (f a)) ->
  Consumes (match x with None => p | Some a => f a end).
Proof. destruct x; auto. Qed.

Lemma Consumes_loop_fuel {A} (body : N -> P A) n :
  (forall i, Consumes (body i)) -> forall fuel i, Consumes (loop_fuel fuel body i n).
Proof.
  intros Hb fuel. induction fuel as [|f IH]; intros i.
  - rewrite loop_fuel_O. destruct (i <? n); [apply Consumes_stuck|apply Consumes_ret].
  - rewrite loop_fuel_S. destruct (i <? n); [|apply Consumes_ret].
    apply Consumes_bind; [apply Hb|]. intros x.
    apply Consumes_bind; [apply IH|]. intros r. apply Consumes_ret.
Qed.

Lemma Consumes_loop {A} (body : N -> P A) n :
  (forall i, Consumes (body i)) -> Consumes (loop body n).
Proof. intros Hb brk s. unfold loop. apply (Consumes_loop_fuel body n Hb). Qed.

(* handy consequences of Consumes *)
Lemma Consumes_done {A} (p : P A) : Consumes p -> forall brk s a s',
  p brk s = Done a s' ->
  exists c, inp s = c ++ inp s' /\ pos s' = pos s + lenN c /\ ext_hist (hi s) (hi s').
Proof. intros Hp brk s a s' E. specialize (Hp brk s). rewrite E in Hp. exact Hp. Qed.

Lemma Consumes_length {A} (p : P A) : Consumes p -> forall brk s a s',
  p brk s = Done a s' -> (length (inp s') <= length (inp s))%nat.
Proof.
  intros Hp brk s a s' E. destruct (Consumes_done p Hp brk s a s' E) as (c & E1 & _).
  rewrite E1, app_length. lia.
Qed.

(* ------------------------------------------------------------------ *)
(** * Progress: a successful run strictly shortens the input *)

Definition Progress {A} (p : P A) : Prop := forall brk s a s',
  p brk s = Done a s' -> (length (inp s') < length (inp s))%nat.

Lemma Progress_fail {A} e : Progress (@fail A e).
Proof. intros brk s a s' E. discriminate E. Qed.

Lemma Progress_stuck {A} : Progress (fun _ _ => @Stuck A).
Proof. intros brk s a s' E. discriminate E. Qed.

Lemma Progress_take n : 0 < n -> Progress (take n).
Proof.
  intros Hn brk s a s' E. unfold take in E.
  destruct (splitN (inp s) n) as [[x y]|] eqn:Es; [|discriminate E].
  injection E as <- <-. cbn [inp]. apply splitN_Some in Es. destruct Es as [E1 E2].
  rewrite E1, app_length. unfold lenN in E2. lia.
Qed.

Lemma Progress_bind_l {A B} (p : P A) (f : A -> P B) :
  Progress p -> (forall a, Consumes (f a)) -> Progress (bind p f).
Proof.
  intros Hp Hf brk s b s2 E. unfold bind in E.
  destruct (p brk s) as [a s1|e h|] eqn:E1; try discriminate E.
  apply Hp in E1. apply (Consumes_length (f a) (Hf a)) in E. lia.
Qed.

Lemma Progress_bind_r {A B} (p : P A) (f : A -> P B) :
  Consumes p -> (forall a, Progress (f a)) -> Progress (bind p f).
Proof.
  intros Hp Hf brk s b s2 E. unfold bind in E.
  destruct (p brk s) as [a s1|e h|] eqn:E1; try discriminate E.
  apply (Consumes_length p Hp) in E1. apply Hf in E. lia.
Qed.

Lemma Progress_if {A} (c : bool) (p q : P A) :
  Progress p -> Progress q -> Progress (if c then p else q).
Proof. destruct c; auto. Qed.

Lemma Progress_match_prod {A B C} (x : A * B) (f : A -> B -> P C) :
  (forall a b, Progress (f a b)) -> Progress (match x with (a, b) => f a b end).
Proof. destruct x; auto. Qed.

Lemma Progress_match_list {A C} (x : list A) (p : P C) (f : A -> list A -> P C) :
  Progress p -> (forall a l, Progress (f a l)) ->
  Progress (match x with [] => p | a :: l => f a l end).
Proof. destruct x; auto. Qed.

(* a loop that runs at least once makes progress *)
Lemma Progress_loop_fuel {A} (body : N -> P A) n :
  (forall i, Consumes (body i)) -> (forall i, Progress (body i)) ->
  forall fuel i, i < n -> Progress (loop_fuel fuel body i n).
Proof.
  intros Cb Pb fuel i Hi. assert (E : (i <? n) = true) by lia.
  destruct fuel as [|f].
  - rewrite loop_fuel_O, E. apply Progress_stuck.
  - rewrite loop_fuel_S, E. apply Progress_bind_l; [apply Pb|]. intros x.
    apply Consumes_bind; [apply Consumes_loop_fuel; exact Cb|]. intros r. apply Consumes_ret.
Qed.

Lemma Progress_loop {A} (body : N -> P A) n :
  (forall i, Consumes (body i)) -> (forall i, Progress (body i)) -> 0 < n ->
  Progress (loop body n).
Proof.
  intros Cb Pb Hn brk s a s' E. unfold loop in E.
  exact (Progress_loop_fuel body n Cb Pb _ 0 Hn brk s a s' E).
Qed.

(* ------------------------------------------------------------------ *)
(** * 2. NoStuck *)

Lemma NoStuck_ret {A} (a : A) : NoStuck (ret a).
Proof. intros brk s. discriminate. Qed.

Lemma NoStuck_fail {A} e : NoStuck (@fail A e).
Proof. intros brk s. discriminate. Qed.

Lemma NoStuck_take n : NoStuck (take n).
Proof. intros brk s. unfold take. destruct (splitN (inp s) n) as [[a b]|]; discriminate. Qed.

Lemma NoStuck_get_pos : NoStuck get_pos.
Proof. intros brk s. discriminate. Qed.

Lemma NoStuck_emitp e : NoStuck (emitp e).
Proof. intros brk s. unfold emitp. destruct (breakable e && brk (hi s) e); discriminate. Qed.

Lemma NoStuck_bind {A B} (p : P A) (f : A -> P B) :
  NoStuck p -> (forall a, NoStuck (f a)) -> NoStuck (bind p f).
Proof.
  intros Hp Hf brk s. unfold bind. specialize (Hp brk s).
  destruct (p brk s) as [a s1|e h|]; [apply Hf|discriminate|exfalso; apply Hp; reflexivity].
Qed.

Lemma NoStuck_if {A} (c : bool) (p q : P A) :
  NoStuck p -> NoStuck q -> NoStuck (if c then p else q).
Proof. destruct c; auto. Qed.

Lemma NoStuck_match_prod {A B C} (x : A * B) (f : A -> B -> P C) :
  (forall a b, NoStuck (f a b)) -> NoStuck (match x with (a, b) => f a b end).
Proof. destruct x; auto. Qed.

Lemma NoStuck_match_list {A C} (x : list A) (p : P C) (f : A -> list A -> P C) :
  NoStuck p -> (forall a l, NoStuck (f a l)) ->
  NoStuck (match x with [] => p | a :: l => f a l end).
Proof. destruct x; auto. Qed.

(* with more fuel than input bytes the loop never runs out of fuel *)
Lemma loop_fuel_NoStuck {A} (body : N -> P A) n :
  (forall i, NoStuck (body i)) -> (forall i, Progress (body i)) ->
  forall fuel i brk s, (length (inp s) < fuel)%nat -> loop_fuel fuel body i n brk s <> Stuck.
Proof.
  intros Nb Pb fuel. induction fuel as [|f IH]; intros i brk s Hf; [lia|].
  rewrite loop_fuel_S. destruct (i <? n); [|discriminate].
  unfold bind at 1. destruct (body i brk s) as [a s1|e h|] eqn:E1.
  - apply Pb in E1. unfold bind. specialize (IH (i + 1) brk s1).
    destruct (loop_fuel f body (i + 1) n brk s1) as [r s2|e h|]; [discriminate|discriminate|].
    apply IH. lia.
  - discriminate.
  - exfalso. exact (Nb i brk s E1).
Qed.

(* the task's statement lists Consumes among the hypotheses; it is not needed *)
Lemma NoStuck_loop {A} (body : N -> P A) n :
  (forall i, NoStuck (body i)) -> (forall i, Progress (body i)) -> NoStuck (loop body n).
Proof. intros Nb Pb brk s. unfold loop. apply loop_fuel_NoStuck; auto. Qed.

(* fuel independence: any two fuels above the input length give the same run *)
Lemma loop_fuel_indep2 {A} (body : N -> P A) n :
  (forall i, Progress (body i)) ->
  forall f1 f2 i brk s, (length (inp s) < f1)%nat -> (length (inp s) < f2)%nat ->
  loop_fuel f1 body i n brk s = loop_fuel f2 body i n brk s.
Proof.
  intros Pb f1. induction f1 as [|f1 IH]; intros f2 i brk s H1 H2; [lia|].
  destruct f2 as [|f2]; [lia|].
  rewrite !loop_fuel_S. destruct (i <? n); [|reflexivity].
  unfold bind at 1 3. destruct (body i brk s) as [a s1|e h|] eqn:E1; try reflexivity.
  apply Pb in E1. unfold bind. rewrite (IH f2 (i + 1) brk s1) by lia. reflexivity.
Qed.

(* the statement of the task (Consumes / NoStuck of the body are not needed) *)
Lemma loop_fuel_indep {A} (body : N -> P A) n :
  (forall i, Progress (body i)) ->
  forall fuel i brk s, (S (length (inp s)) <= fuel)%nat ->
  loop_fuel fuel body i n brk s = loop_fuel (S (length (inp s))) body i n brk s.
Proof. intros Pb fuel i brk s H. apply loop_fuel_indep2; [exact Pb|lia|lia]. Qed.

Lemma loop_as_fuel {A} (body : N -> P A) n :
  (forall i, Progress (body i)) ->
  forall fuel brk s, (length (inp s) < fuel)%nat ->
  loop body n brk s = loop_fuel fuel body 0 n brk s.
Proof. intros Pb fuel brk s H. unfold loop. apply loop_fuel_indep2; [exact Pb|lia|lia]. Qed.

(* ------------------------------------------------------------------ *)
(** * 3. Mono *)

(* [MonoW]: Mono, except that the run on the extended input may be Stuck.  It
   is what a [loop_fuel] with a FIXED fuel satisfies; Mono = MonoW + NoStuck. *)
Definition MonoW {A} (p : P A) : Prop := forall brk s x,
  match p brk s with
  | Done a s' => p brk (st_app s x) = Done a (st_app s' x)
  | Fail e h =>
      if error_eqb e MoreBytesNeeded
      then match p brk (st_app s x) with
           | Done _ s2 => ext_hist h (hi s2)
           | Fail _ h2 => ext_hist h h2
           | Stuck => True
           end
      else p brk (st_app s x) = Fail e h
  | Stuck => True
  end.

Lemma Mono_MonoW {A} (p : P A) : Mono p -> MonoW p.
Proof.
  intros Hp brk s x. specialize (Hp brk s x).
  destruct (p brk s) as [a s1|e h|]; [exact Hp| |exact I].
  destruct (error_eqb e MoreBytesNeeded); [|exact Hp].
  destruct (p brk (st_app s x)); [exact Hp|exact Hp|exact I].
Qed.

Lemma MonoW_NoStuck_Mono {A} (p : P A) : MonoW p -> NoStuck p -> Mono p.
Proof.
  intros Hp Np brk s x. specialize (Hp brk s x). specialize (Np brk (st_app s x)).
  destruct (p brk s) as [a s1|e h|]; [exact Hp| |exact I].
  destruct (error_eqb e MoreBytesNeeded); [|exact Hp].
  destruct (p brk (st_app s x)); [exact Hp|exact Hp|apply Np; reflexivity].
Qed.

Lemma Mono_ret {A} (a : A) : Mono (ret a).
Proof. intros brk s x. reflexivity. Qed.

Lemma Mono_fail {A} e : Mono (@fail A e).
Proof.
  intros brk s x. unfold fail. cbn [st_app hi].
  destruct (error_eqb e MoreBytesNeeded); [apply ext_hist_refl|reflexivity].
Qed.

Lemma Mono_take n : Mono (take n).
Proof.
  intros brk s x. unfold take. cbn [st_app inp pos hi].
  destruct (splitN (inp s) n) as [[a b]|] eqn:E.
  - rewrite (splitN_app_more _ _ _ x _ E). reflexivity.
  - cbn [error_eqb]. destruct (splitN (inp s ++ x) n) as [[a b]|]; cbn [hi]; apply ext_hist_refl.
Qed.

Lemma Mono_get_pos : Mono get_pos.
Proof. intros brk s x. reflexivity. Qed.

Lemma Mono_emitp e : Mono (emitp e).
Proof.
  intros brk s x. unfold emitp. cbn [st_app inp pos hi].
  destruct (breakable e && brk (hi s) e); reflexivity.
Qed.

Lemma MonoW_stuck {A} : MonoW (fun _ _ => @Stuck A).
Proof. intros brk s x. exact I. Qed.

Lemma MonoW_bind {A B} (p : P A) (f : A -> P B) :
  MonoW p -> (forall a, MonoW (f a)) -> (forall a, Consumes (f a)) -> MonoW (bind p f).
Proof.
  intros Hp Hf Cf brk s x. unfold bind. specialize (Hp brk s x).
  destruct (p brk s) as [a s1|e h|] eqn:E1.
  - rewrite Hp. exact (Hf a brk s1 x).
  - destruct (error_eqb e MoreBytesNeeded) eqn:Ee.
    + destruct (p brk (st_app s x)) as [a2 s2|e2 h2|] eqn:E2; [|exact Hp|exact I].
      specialize (Cf a2 brk s2). destruct (f a2 brk s2) as [b3 s3|e3 h3|]; [| |exact I].
      * destruct Cf as (c & _ & _ & H). eapply ext_hist_trans; eassumption.
      * eapply ext_hist_trans; eassumption.
    + rewrite Hp. reflexivity.
  - exact I.
Qed.

(* [Consumes (f a)] gives the history-extension part, [NoStuck (f a)] excludes a
   Stuck continuation after [p] succeeded on the extended input only *)
Lemma Mono_bind {A B} (p : P A) (f : A -> P B) :
  Mono p -> (forall a, Mono (f a)) -> (forall a, Consumes (f a)) -> (forall a, NoStuck (f a)) ->
  Mono (bind p f).
Proof.
  intros Hp Hf Cf Nf brk s x. unfold bind. specialize (Hp brk s x).
  destruct (p brk s) as [a s1|e h|] eqn:E1.
  - rewrite Hp. exact (Hf a brk s1 x).
  - destruct (error_eqb e MoreBytesNeeded) eqn:Ee.
    + destruct (p brk (st_app s x)) as [a2 s2|e2 h2|] eqn:E2; [|exact Hp|exact Hp].
      specialize (Cf a2 brk s2). specialize (Nf a2 brk s2).
      destruct (f a2 brk s2) as [b3 s3|e3 h3|]; [| |apply Nf; reflexivity].
      * destruct Cf as (c & _ & _ & H). eapply ext_hist_trans; eassumption.
      * eapply ext_hist_trans; eassumption.
    + rewrite Hp. reflexivity.
  - exact I.
Qed.

Lemma Mono_if {A} (c : bool) (p q : P A) : Mono p -> Mono q -> Mono (if c then p else q).
Proof. destruct c; auto. Qed.

Lemma Mono_match_prod {A B C} (x : A * B) (f : A -> B -> P C) :
  (forall a b, Mono (f a b)) -> Mono (match x with (a, b) => f a b end).
Proof. destruct x; auto. Qed.

Lemma Mono_match_list {A C} (x : list A) (p : P C) (f : A -> list A -> P C) :
  Mono p -> (forall a l, Mono (f a l)) -> Mono (match x with [] => p | a :: l => f a l end).
Proof. destruct x; auto. Qed.

Lemma MonoW_loop_fuel {A} (body : N -> P A) n :
  (forall i, Consumes (body i)) -> (forall i, MonoW (body i)) ->
  forall fuel i, MonoW (loop_fuel fuel body i n).
Proof.
  intros Cb Mb fuel. induction fuel as [|f IH]; intros i.
  - rewrite loop_fuel_O. destruct (i <? n); [apply MonoW_stuck|apply Mono_MonoW, Mono_ret].
  - rewrite loop_fuel_S. destruct (i <? n); [|apply Mono_MonoW, Mono_ret].
    apply MonoW_bind; [apply Mb| |].
    + intros a. apply MonoW_bind; [apply IH| |].
      * intros r. apply Mono_MonoW, Mono_ret.
      * intros r. apply Consumes_ret.
    + intros a. apply Consumes_bind; [apply Consumes_loop_fuel; exact Cb|].
      intros r. apply Consumes_ret.
Qed.

(* the run on the extended input has more fuel: bring both runs to the larger
   fuel with fuel independence, then use MonoW of the fixed-fuel loop *)
Lemma Mono_loop {A} (body : N -> P A) n :
  (forall i, Consumes (body i)) -> (forall i, NoStuck (body i)) ->
  (forall i, Progress (body i)) -> (forall i, Mono (body i)) ->
  Mono (loop body n).
Proof.
  intros Cb Nb Pb Mb brk s x.
  set (F := S (length (inp (st_app s x)))).
  assert (HF1 : (length (inp s) < F)%nat).
  { unfold F, st_app. cbn [inp]. rewrite app_length. lia. }
  assert (HF2 : (length (inp (st_app s x)) < F)%nat) by (unfold F; lia).
  rewrite (loop_as_fuel body n Pb F brk s HF1).
  rewrite (loop_as_fuel body n Pb F brk (st_app s x) HF2).
  assert (MW : MonoW (loop_fuel F body 0 n)).
  { apply MonoW_loop_fuel; [exact Cb|]. intros i. apply Mono_MonoW, Mb. }
  specialize (MW brk s x).
  pose proof (loop_fuel_NoStuck body n Nb Pb F 0 brk (st_app s x) HF2) as NS.
  destruct (loop_fuel F body 0 n brk s) as [a s1|e h|]; [exact MW| |exact I].
  destruct (error_eqb e MoreBytesNeeded); [|exact MW].
  destruct (loop_fuel F body 0 n brk (st_app s x)); [exact MW|exact MW|apply NS; reflexivity].
Qed.

(* ------------------------------------------------------------------ *)
(** * 4. Local *)

Lemma app_self_nil {A} (c l : list A) : l = c ++ l -> c = [].
Proof. intros E. apply (app_inv_tail l). cbn [app]. symmetry. exact E. Qed.

Lemma Local_ret {A} (a : A) : Local (ret a).
Proof.
  intros brk s a' s' c E Ec y. unfold ret in *. injection E as <- <-.
  apply app_self_nil in Ec. subst c. reflexivity.
Qed.

Lemma Local_fail {A} e : Local (@fail A e).
Proof. intros brk s a' s' c E. discriminate E. Qed.

Lemma Local_stuck {A} : Local (fun _ _ => @Stuck A).
Proof. intros brk s a' s' c E. discriminate E. Qed.

Lemma Local_take n : Local (take n).
Proof.
  intros brk s a s' c E Ec y. unfold take in *. cbn [inp pos hi].
  destruct (splitN (inp s) n) as [[u v]|] eqn:Es; [|discriminate E].
  injection E as <- <-. cbn [inp pos hi] in *.
  apply splitN_Some in Es. destruct Es as [E1 E2].
  rewrite E1 in Ec. apply app_inv_tail in Ec. subst c n.
  rewrite splitN_app. reflexivity.
Qed.

Lemma Local_get_pos : Local get_pos.
Proof.
  intros brk s a s' c E Ec y. unfold get_pos in *. injection E as <- <-.
  apply app_self_nil in Ec. subst c. reflexivity.
Qed.

Lemma Local_emitp e : Local (emitp e).
Proof.
  intros brk s a s' c E Ec y. unfold emitp in *. cbn [inp pos hi].
  destruct (breakable e && brk (hi s) e); [discriminate E|].
  injection E as <- <-. cbn [inp pos hi] in *.
  apply app_self_nil in Ec. subst c. reflexivity.
Qed.

Lemma Local_bind {A B} (p : P A) (f : A -> P B) :
  Consumes p -> Local p -> (forall a, Consumes (f a)) -> (forall a, Local (f a)) ->
  Local (bind p f).
Proof.
  intros Cp Lp Cf Lf brk s b s2 c E Ec y. unfold bind in *.
  destruct (p brk s) as [a s1|e h|] eqn:E1; try discriminate E.
  destruct (Consumes_done p Cp brk s a s1 E1) as (c1 & Ec1 & _).
  destruct (Consumes_done (f a) (Cf a) brk s1 b s2 E) as (c2 & Ec2 & _).
  assert (c = c1 ++ c2).
  { apply (app_inv_tail (inp s2)). rewrite <- Ec, <- app_assoc, <- Ec2. exact Ec1. }
  subst c. rewrite <- app_assoc.
  rewrite (Lp brk s a s1 c1 E1 Ec1 (c2 ++ y)).
  exact (Lf a brk s1 b s2 c2 E Ec2 y).
Qed.

Lemma Local_if {A} (c : bool) (p q : P A) : Local p -> Local q -> Local (if c then p else q).
Proof. destruct c; auto. Qed.

Lemma Local_match_prod {A B C} (x : A * B) (f : A -> B -> P C) :
  (forall a b, Local (f a b)) -> Local (match x with (a, b) => f a b end).
Proof. destruct x; auto. Qed.

Lemma Local_match_list {A C} (x : list A) (p : P C) (f : A -> list A -> P C) :
  Local p -> (forall a l, Local (f a l)) -> Local (match x with [] => p | a :: l => f a l end).
Proof. destruct x; auto. Qed.

Lemma Local_loop_fuel {A} (body : N -> P A) n :
  (forall i, Consumes (body i)) -> (forall i, Local (body i)) ->
  forall fuel i, Local (loop_fuel fuel body i n).
Proof.
  intros Cb Lb fuel. induction fuel as [|f IH]; intros i.
  - rewrite loop_fuel_O. destruct (i <? n); [apply Local_stuck|apply Local_ret].
  - rewrite loop_fuel_S. destruct (i <? n); [|apply Local_ret].
    apply Local_bind; [apply Cb|apply Lb| |].
    + intros a. apply Consumes_bind; [apply Consumes_loop_fuel; exact Cb|].
      intros r. apply Consumes_ret.
    + intros a. apply Local_bind.
      * apply Consumes_loop_fuel; exact Cb.
      * apply IH.
      * intros r. apply Consumes_ret.
      * intros r. apply Local_ret.
Qed.

(* the two runs have different fuels: bring both to a common larger fuel *)
Lemma Local_loop {A} (body : N -> P A) n :
  (forall i, Consumes (body i)) -> (forall i, Progress (body i)) -> (forall i, Local (body i)) ->
  Local (loop body n).
Proof.
  intros Cb Pb Lb brk s a s' c E Ec y.
  set (F := S (length (inp s) + length (c ++ y))).
  assert (HF1 : (length (inp s) < F)%nat) by (unfold F; lia).
  rewrite (loop_as_fuel body n Pb F brk s HF1) in E.
  rewrite (loop_as_fuel body n Pb F brk {| pos := pos s; inp := c ++ y; hi := hi s |})
    by (cbn [inp]; unfold F; lia).
  exact (Local_loop_fuel body n Cb Lb F 0 brk s a s' c E Ec y).
Qed.

(* ------------------------------------------------------------------ *)
(** * The four properties bundled, so that instances are derived in one pass *)

Definition Good {A} (p : P A) : Prop := Consumes p /\ NoStuck p /\ Mono p /\ Local p.

Lemma Good_Consumes {A} (p : P A) : Good p -> Consumes p. Proof. intros H; apply H. Qed.
Lemma Good_NoStuck {A} (p : P A) : Good p -> NoStuck p. Proof. intros H; apply H. Qed.
Lemma Good_Mono {A} (p : P A) : Good p -> Mono p. Proof. intros H; apply H. Qed.
Lemma Good_Local {A} (p : P A) : Good p -> Local p. Proof. intros H; apply H. Qed.

Lemma Good_ret {A} (a : A) : Good (ret a).
Proof. split; [|split; [|split]]; [apply Consumes_ret|apply NoStuck_ret|apply Mono_ret|apply Local_ret]. Qed.
Lemma Good_fail {A} e : Good (@fail A e).
Proof. split; [|split; [|split]]; [apply Consumes_fail|apply NoStuck_fail|apply Mono_fail|apply Local_fail]. Qed.
Lemma Good_take n : Good (take n).
Proof. split; [|split; [|split]]; [apply Consumes_take|apply NoStuck_take|apply Mono_take|apply Local_take]. Qed.
Lemma Good_get_pos : Good get_pos.
Proof. split; [|split; [|split]]; [apply Consumes_get_pos|apply NoStuck_get_pos|apply Mono_get_pos|apply Local_get_pos]. Qed.
Lemma Good_emitp e : Good (emitp e).
Proof. split; [|split; [|split]]; [apply Consumes_emitp|apply NoStuck_emitp|apply Mono_emitp|apply Local_emitp]. Qed.

Lemma Good_bind {A B} (p : P A) (f : A -> P B) :
  Good p -> (forall a, Good (f a)) -> Good (bind p f).
Proof.
  intros (Cp & Np & Mp & Lp) Hf.
  assert (Cf : forall a, Consumes (f a)) by (intros a; apply Hf).
  assert (Nf : forall a, NoStuck (f a)) by (intros a; apply Hf).
  assert (Mf : forall a, Mono (f a)) by (intros a; apply Hf).
  assert (Lf : forall a, Local (f a)) by (intros a; apply Hf).
  split; [|split; [|split]].
  - apply Consumes_bind; assumption.
  - apply NoStuck_bind; assumption.
  - apply Mono_bind; assumption.
  - apply Local_bind; assumption.
Qed.

Lemma Good_loop {A} (body : N -> P A) n :
  (forall i, Good (body i)) -> (forall i, Progress (body i)) -> Good (loop body n).
Proof.
  intros Hb Pb.
  assert (Cb : forall i, Consumes (body i)) by (intros i; apply Hb).
  assert (Nb : forall i, NoStuck (body i)) by (intros i; apply Hb).
  assert (Mb : forall i, Mono (body i)) by (intros i; apply Hb).
  assert (Lb : forall i, Local (body i)) by (intros i; apply Hb).
  split; [|split; [|split]].
  - apply Consumes_loop; assumption.
  - apply NoStuck_loop; assumption.
  - apply Mono_loop; assumption.
  - apply Local_loop; assumption.
Qed.

(* ------------------------------------------------------------------ *)
(** * Automation *)

Create HintDb good discriminated.
Create HintDb prog discriminated.

(* [good]: decompose a parser expression with the [Good_*] closure lemmas; decoders
   already treated are found in the hint database [good].  The loop case needs
   [Progress] of the body, delegated to [prog_tac]. *)
Ltac good_step prog_tac :=
  first
  [ assumption
  | solve [auto 2 with good nocore]
  | apply Good_ret | apply Good_fail | apply Good_take | apply Good_get_pos | apply Good_emitp
  | apply Good_bind; [ | intros ? ]
  | apply Good_loop; [ intros ? | intros ?; solve [prog_tac] ]
  | match goal with |- Good (match ?x with _ => _ end) => destruct x end
  | progress cbv beta zeta ].

Ltac consumes_of_good prog_tac := apply Good_Consumes; repeat good_step prog_tac.

(* [prog]: [Progress] of a sequence: either the head makes progress and the rest only
   consumes, or the head only consumes and the rest makes progress *)
Ltac prog :=
  first
  [ assumption
  | solve [auto 2 with prog nocore]
  | apply Progress_fail
  | apply Progress_take; lia
  | apply Progress_bind_l; [ solve [prog] | intros ?; solve [consumes_of_good prog] ]
  | apply Progress_bind_r; [ solve [consumes_of_good prog] | intros ?; prog ]
  | match goal with |- Progress (match ?x with _ => _ end) => destruct x; prog end
  | progress cbv beta zeta; prog ].

Ltac good := repeat good_step prog.

(* ------------------------------------------------------------------ *)
(** * 5. Instances for every decoder of Ref/Grammar.v *)

(* r_u *)
Lemma r_u_Good w : Good (r_u w).
Proof. unfold r_u. good. Qed.
Lemma r_u_Progress w : 0 < w -> Progress (r_u w).
Proof. intros Hw. unfold r_u. prog. Qed.
#[export] Hint Resolve r_u_Good : good.
#[export] Hint Extern 1 (Progress (r_u _)) => (apply r_u_Progress; lia) : prog.

(* r_compact *)
Lemma r_compact_Good : Good r_compact.
Proof. unfold r_compact. good. Qed.
Lemma r_compact_Progress : Progress r_compact.
Proof. unfold r_compact. prog. Qed.
#[export] Hint Resolve r_compact_Good : good.
#[export] Hint Resolve r_compact_Progress : prog.

(* r_script_pos, r_script *)
Lemma r_script_pos_Good : Good r_script_pos.
Proof. unfold r_script_pos. good. Qed.
Lemma r_script_pos_Progress : Progress r_script_pos.
Proof. unfold r_script_pos. prog. Qed.
#[export] Hint Resolve r_script_pos_Good : good.
#[export] Hint Resolve r_script_pos_Progress : prog.

Lemma r_script_Good : Good r_script.
Proof. unfold r_script. good. Qed.
Lemma r_script_Progress : Progress r_script.
Proof. unfold r_script. prog. Qed.
#[export] Hint Resolve r_script_Good : good.
#[export] Hint Resolve r_script_Progress : prog.

(* r_outpoint *)
Lemma r_outpoint_Good : Good r_outpoint.
Proof. unfold r_outpoint. good. Qed.
Lemma r_outpoint_Progress : Progress r_outpoint.
Proof. unfold r_outpoint. prog. Qed.
#[export] Hint Resolve r_outpoint_Good : good.
#[export] Hint Resolve r_outpoint_Progress : prog.

(* r_txin_ev, r_txin *)
Lemma r_txin_ev_Good i : Good (r_txin_ev i).
Proof. unfold r_txin_ev. good. Qed.
Lemma r_txin_ev_Progress i : Progress (r_txin_ev i).
Proof. unfold r_txin_ev. prog. Qed.
#[export] Hint Resolve r_txin_ev_Good : good.
#[export] Hint Resolve r_txin_ev_Progress : prog.

Lemma r_txin_Good : Good r_txin.
Proof. unfold r_txin. good. Qed.
Lemma r_txin_Progress : Progress r_txin.
Proof. unfold r_txin. prog. Qed.
#[export] Hint Resolve r_txin_Good : good.
#[export] Hint Resolve r_txin_Progress : prog.

(* r_txout_ev, r_txout *)
Lemma r_txout_ev_Good i : Good (r_txout_ev i).
Proof. unfold r_txout_ev. good. Qed.
Lemma r_txout_ev_Progress i : Progress (r_txout_ev i).
Proof. unfold r_txout_ev. prog. Qed.
#[export] Hint Resolve r_txout_ev_Good : good.
#[export] Hint Resolve r_txout_ev_Progress : prog.

Lemma r_txout_Good : Good r_txout.
Proof. unfold r_txout. good. Qed.
Lemma r_txout_Progress : Progress r_txout.
Proof. unfold r_txout. prog. Qed.
#[export] Hint Resolve r_txout_Good : good.
#[export] Hint Resolve r_txout_Progress : prog.

(* r_txins, r_txouts *)
Lemma r_txins_Good : Good r_txins.
Proof. unfold r_txins. good. Qed.
Lemma r_txins_Progress : Progress r_txins.
Proof. unfold r_txins. prog. Qed.
#[export] Hint Resolve r_txins_Good : good.
#[export] Hint Resolve r_txins_Progress : prog.

Lemma r_txouts_Good : Good r_txouts.
Proof. unfold r_txouts. good. Qed.
Lemma r_txouts_Progress : Progress r_txouts.
Proof. unfold r_txouts. prog. Qed.
#[export] Hint Resolve r_txouts_Good : good.
#[export] Hint Resolve r_txouts_Progress : prog.

(* r_witness, r_witnesses *)
Lemma r_witness_Good : Good r_witness.
Proof. unfold r_witness. good. Qed.
Lemma r_witness_Progress : Progress r_witness.
Proof. unfold r_witness. prog. Qed.
#[export] Hint Resolve r_witness_Good : good.
#[export] Hint Resolve r_witness_Progress : prog.

Lemma r_witnesses_body_Progress (i : N) :
  Progress (bind (emitp (EWitness i)) (fun _ => bind r_witness (fun w => bind (emitp EWitnessEnd) (fun _ => ret w)))).
Proof. prog. Qed.

Lemma r_witnesses_Good n : Good (r_witnesses n).
Proof. unfold r_witnesses. good. Qed.
(* [r_witnesses 0] reads nothing *)
Lemma r_witnesses_Progress n : 0 < n -> Progress (r_witnesses n).
Proof.
  intros Hn. unfold r_witnesses. apply Progress_loop; [| |exact Hn].
  - intros i. consumes_of_good prog.
  - intros i. apply r_witnesses_body_Progress.
Qed.
#[export] Hint Resolve r_witnesses_Good : good.

(* r_tx *)
Lemma r_tx_Good : Good r_tx.
Proof. unfold r_tx. good. Qed.
Lemma r_tx_Progress : Progress r_tx.
Proof. unfold r_tx. prog. Qed.
#[export] Hint Resolve r_tx_Good : good.
#[export] Hint Resolve r_tx_Progress : prog.

(* r_header *)
Lemma r_header_Good : Good r_header.
Proof. unfold r_header. good. Qed.
Lemma r_header_Progress : Progress r_header.
Proof. unfold r_header. prog. Qed.
#[export] Hint Resolve r_header_Good : good.
#[export] Hint Resolve r_header_Progress : prog.

(* r_block *)
Lemma r_block_Good : Good r_block.
Proof. unfold r_block. good. Qed.
Lemma r_block_Progress : Progress r_block.
Proof. unfold r_block. prog. Qed.
#[export] Hint Resolve r_block_Good : good.
#[export] Hint Resolve r_block_Progress : prog.

(* the named instances *)
Lemma r_u_Consumes w : Consumes (r_u w).
Proof. apply Good_Consumes, r_u_Good. Qed.
Lemma r_u_NoStuck w : NoStuck (r_u w).
Proof. apply Good_NoStuck, r_u_Good. Qed.
Lemma r_u_Mono w : Mono (r_u w).
Proof. apply Good_Mono, r_u_Good. Qed.
Lemma r_u_Local w : Local (r_u w).
Proof. apply Good_Local, r_u_Good. Qed.
Lemma r_compact_Consumes : Consumes r_compact.
Proof. apply Good_Consumes, r_compact_Good. Qed.
Lemma r_compact_NoStuck : NoStuck r_compact.
Proof. apply Good_NoStuck, r_compact_Good. Qed.
Lemma r_compact_Mono : Mono r_compact.
Proof. apply Good_Mono, r_compact_Good. Qed.
Lemma r_compact_Local : Local r_compact.
Proof. apply Good_Local, r_compact_Good. Qed.
Lemma r_script_pos_Consumes : Consumes r_script_pos.
Proof. apply Good_Consumes, r_script_pos_Good. Qed.
Lemma r_script_pos_NoStuck : NoStuck r_script_pos.
Proof. apply Good_NoStuck, r_script_pos_Good. Qed.
Lemma r_script_pos_Mono : Mono r_script_pos.
Proof. apply Good_Mono, r_script_pos_Good. Qed.
Lemma r_script_pos_Local : Local r_script_pos.
Proof. apply Good_Local, r_script_pos_Good. Qed.
Lemma r_script_Consumes : Consumes r_script.
Proof. apply Good_Consumes, r_script_Good. Qed.
Lemma r_script_NoStuck : NoStuck r_script.
Proof. apply Good_NoStuck, r_script_Good. Qed.
Lemma r_script_Mono : Mono r_script.
Proof. apply Good_Mono, r_script_Good. Qed.
Lemma r_script_Local : Local r_script.
Proof. apply Good_Local, r_script_Good. Qed.
Lemma r_outpoint_Consumes : Consumes r_outpoint.
Proof. apply Good_Consumes, r_outpoint_Good. Qed.
Lemma r_outpoint_NoStuck : NoStuck r_outpoint.
Proof. apply Good_NoStuck, r_outpoint_Good. Qed.
Lemma r_outpoint_Mono : Mono r_outpoint.
Proof. apply Good_Mono, r_outpoint_Good. Qed.
Lemma r_outpoint_Local : Local r_outpoint.
Proof. apply Good_Local, r_outpoint_Good. Qed.
Lemma r_txin_ev_Consumes i : Consumes (r_txin_ev i).
Proof. apply Good_Consumes, r_txin_ev_Good. Qed.
Lemma r_txin_ev_NoStuck i : NoStuck (r_txin_ev i).
Proof. apply Good_NoStuck, r_txin_ev_Good. Qed.
Lemma r_txin_ev_Mono i : Mono (r_txin_ev i).
Proof. apply Good_Mono, r_txin_ev_Good. Qed.
Lemma r_txin_ev_Local i : Local (r_txin_ev i).
Proof. apply Good_Local, r_txin_ev_Good. Qed.
Lemma r_txin_Consumes : Consumes r_txin.
Proof. apply Good_Consumes, r_txin_Good. Qed.
Lemma r_txin_NoStuck : NoStuck r_txin.
Proof. apply Good_NoStuck, r_txin_Good. Qed.
Lemma r_txin_Mono : Mono r_txin.
Proof. apply Good_Mono, r_txin_Good. Qed.
Lemma r_txin_Local : Local r_txin.
Proof. apply Good_Local, r_txin_Good. Qed.
Lemma r_txout_ev_Consumes i : Consumes (r_txout_ev i).
Proof. apply Good_Consumes, r_txout_ev_Good. Qed.
Lemma r_txout_ev_NoStuck i : NoStuck (r_txout_ev i).
Proof. apply Good_NoStuck, r_txout_ev_Good. Qed.
Lemma r_txout_ev_Mono i : Mono (r_txout_ev i).
Proof. apply Good_Mono, r_txout_ev_Good. Qed.
Lemma r_txout_ev_Local i : Local (r_txout_ev i).
Proof. apply Good_Local, r_txout_ev_Good. Qed.
Lemma r_txout_Consumes : Consumes r_txout.
Proof. apply Good_Consumes, r_txout_Good. Qed.
Lemma r_txout_NoStuck : NoStuck r_txout.
Proof. apply Good_NoStuck, r_txout_Good. Qed.
Lemma r_txout_Mono : Mono r_txout.
Proof. apply Good_Mono, r_txout_Good. Qed.
Lemma r_txout_Local : Local r_txout.
Proof. apply Good_Local, r_txout_Good. Qed.
Lemma r_txins_Consumes : Consumes r_txins.
Proof. apply Good_Consumes, r_txins_Good. Qed.
Lemma r_txins_NoStuck : NoStuck r_txins.
Proof. apply Good_NoStuck, r_txins_Good. Qed.
Lemma r_txins_Mono : Mono r_txins.
Proof. apply Good_Mono, r_txins_Good. Qed.
Lemma r_txins_Local : Local r_txins.
Proof. apply Good_Local, r_txins_Good. Qed.
Lemma r_txouts_Consumes : Consumes r_txouts.
Proof. apply Good_Consumes, r_txouts_Good. Qed.
Lemma r_txouts_NoStuck : NoStuck r_txouts.
Proof. apply Good_NoStuck, r_txouts_Good. Qed.
Lemma r_txouts_Mono : Mono r_txouts.
Proof. apply Good_Mono, r_txouts_Good. Qed.
Lemma r_txouts_Local : Local r_txouts.
Proof. apply Good_Local, r_txouts_Good. Qed.
Lemma r_witness_Consumes : Consumes r_witness.
Proof. apply Good_Consumes, r_witness_Good. Qed.
Lemma r_witness_NoStuck : NoStuck r_witness.
Proof. apply Good_NoStuck, r_witness_Good. Qed.
Lemma r_witness_Mono : Mono r_witness.
Proof. apply Good_Mono, r_witness_Good. Qed.
Lemma r_witness_Local : Local r_witness.
Proof. apply Good_Local, r_witness_Good. Qed.
Lemma r_witnesses_Consumes n : Consumes (r_witnesses n).
Proof. apply Good_Consumes, r_witnesses_Good. Qed.
Lemma r_witnesses_NoStuck n : NoStuck (r_witnesses n).
Proof. apply Good_NoStuck, r_witnesses_Good. Qed.
Lemma r_witnesses_Mono n : Mono (r_witnesses n).
Proof. apply Good_Mono, r_witnesses_Good. Qed.
Lemma r_witnesses_Local n : Local (r_witnesses n).
Proof. apply Good_Local, r_witnesses_Good. Qed.
Lemma r_tx_Consumes : Consumes r_tx.
Proof. apply Good_Consumes, r_tx_Good. Qed.
Lemma r_tx_NoStuck : NoStuck r_tx.
Proof. apply Good_NoStuck, r_tx_Good. Qed.
Lemma r_tx_Mono : Mono r_tx.
Proof. apply Good_Mono, r_tx_Good. Qed.
Lemma r_tx_Local : Local r_tx.
Proof. apply Good_Local, r_tx_Good. Qed.
Lemma r_header_Consumes : Consumes r_header.
Proof. apply Good_Consumes, r_header_Good. Qed.
Lemma r_header_NoStuck : NoStuck r_header.
Proof. apply Good_NoStuck, r_header_Good. Qed.
Lemma r_header_Mono : Mono r_header.
Proof. apply Good_Mono, r_header_Good. Qed.
Lemma r_header_Local : Local r_header.
Proof. apply Good_Local, r_header_Good. Qed.
Lemma r_block_Consumes : Consumes r_block.
Proof. apply Good_Consumes, r_block_Good. Qed.
Lemma r_block_NoStuck : NoStuck r_block.
Proof. apply Good_NoStuck, r_block_Good. Qed.
Lemma r_block_Mono : Mono r_block.
Proof. apply Good_Mono, r_block_Good. Qed.
Lemma r_block_Local : Local r_block.
Proof. apply Good_Local, r_block_Good. Qed.

(* ------------------------------------------------------------------ *)
(** * 6. Corollaries, for any parser with the closure properties.
   Each is stated with the hypotheses it actually uses (a subset of
   Consumes / NoStuck / Mono / Local); all of them hold of every decoder above. *)

Section Corollaries.
  Context {A : Type} (p : P A).

  (* a successful run is unchanged by appending bytes *)
  Theorem ok_extend : Mono p -> forall brk q b h a s',
    p brk {| pos := q; inp := b; hi := h |} = Done a s' ->
    forall x, p brk {| pos := q; inp := b ++ x; hi := h |} = Done a (st_app s' x).
  Proof.
    intros M brk q b h a s' E x.
    specialize (M brk {| pos := q; inp := b; hi := h |} x). rewrite E in M. exact M.
  Qed.

  (* a successful run restricted to exactly the bytes it consumed *)
  Theorem ok_exact : Local p -> forall brk q b h a s' c,
    p brk {| pos := q; inp := b; hi := h |} = Done a s' -> b = c ++ inp s' ->
    p brk {| pos := q; inp := c; hi := h |} = Done a {| pos := pos s'; inp := []; hi := hi s' |}.
  Proof.
    intros L brk q b h a s' c E Ec.
    pose proof (L brk _ a s' c E Ec []) as H. cbn [pos inp hi] in H.
    rewrite app_nil_r in H. exact H.
  Qed.

  (* what a successful run consumed (restating Consumes on a record state) *)
  Theorem ok_consumed : Consumes p -> forall brk q b h a s',
    p brk {| pos := q; inp := b; hi := h |} = Done a s' ->
    exists c, b = c ++ inp s' /\ pos s' = q + lenN c /\ ext_hist h (hi s').
  Proof. intros C brk q b h a s' E. exact (Consumes_done p C brk _ a s' E). Qed.

  (* ORIGINAL TARGET [shorter_more] (hypotheses Consumes p, Mono p, Local p only):
       p brk {|q; b; h|} = Done a s' -> b = c ++ inp s' -> c = c' ++ r -> r <> [] ->
       exists h', p brk {|q; c'; h|} = Fail MoreBytesNeeded h'.
     FALSE without [NoStuck p]: see [p_cex_refutes_shorter_more] below (the run on the
     strict prefix may be Stuck, about which Mono says nothing).  Proved with the
     extra hypothesis [NoStuck p] (true of every decoder); Consumes and Local are
     not needed.  The history of the short run is moreover extended by the full one. *)
  Theorem shorter_more_partial : NoStuck p -> Mono p -> forall brk q b h a s' c,
    p brk {| pos := q; inp := b; hi := h |} = Done a s' -> b = c ++ inp s' ->
    forall c' r, c = c' ++ r -> r <> [] ->
    exists h', p brk {| pos := q; inp := c'; hi := h |} = Fail MoreBytesNeeded h'
               /\ ext_hist h' (hi s').
  Proof.
    intros NS M brk q b h a s' c E Ec c' r Er Hr.
    specialize (M brk {| pos := q; inp := c'; hi := h |} (r ++ inp s')).
    specialize (NS brk {| pos := q; inp := c'; hi := h |}).
    assert (Eb : st_app {| pos := q; inp := c'; hi := h |} (r ++ inp s')
                 = {| pos := q; inp := b; hi := h |}).
    { unfold st_app. cbn [pos inp hi]. rewrite Ec, Er, <- app_assoc. reflexivity. }
    rewrite Eb, E in M.
    destruct (p brk {| pos := q; inp := c'; hi := h |}) as [a2 s2|e2 h2|].
    - exfalso. injection M as _ Es. apply Hr.
      apply (f_equal (fun s => length (inp s))) in Es. unfold st_app in Es. cbn [inp] in Es.
      rewrite !app_length in Es. destruct r; [reflexivity|cbn [length] in Es; lia].
    - destruct (error_eqb_spec e2 MoreBytesNeeded) as [->|Hne].
      + exists h2. split; [reflexivity|exact M].
      + discriminate M.
    - exfalso. apply NS. reflexivity.
  Qed.

  (* an error other than MoreBytesNeeded is final *)
  Theorem final_error : Mono p -> forall brk q b h e h',
    p brk {| pos := q; inp := b; hi := h |} = Fail e h' -> e <> MoreBytesNeeded ->
    forall x, p brk {| pos := q; inp := b ++ x; hi := h |} = Fail e h'.
  Proof.
    intros M brk q b h e h' E Hne x.
    specialize (M brk {| pos := q; inp := b; hi := h |} x). rewrite E in M.
    destruct (error_eqb_spec e MoreBytesNeeded) as [He|_]; [contradiction|exact M].
  Qed.

  (* ORIGINAL TARGET [more_prefix] (hypotheses Consumes p, Mono p, Local p only):
       p brk {|q; b; h|} = Fail MoreBytesNeeded h1 -> b = b' ++ r ->
       exists h', p brk {|q; b'; h|} = Fail MoreBytesNeeded h' /\ ext_hist h' h1.
     FALSE without [NoStuck p]: see [p_cex_refutes_more_prefix] below.  Proved with the
     extra hypothesis [NoStuck p]; Consumes and Local are not needed. *)
  Theorem more_prefix_partial : NoStuck p -> Mono p -> forall brk q b h h1,
    p brk {| pos := q; inp := b; hi := h |} = Fail MoreBytesNeeded h1 ->
    forall b' r, b = b' ++ r ->
    exists h', p brk {| pos := q; inp := b'; hi := h |} = Fail MoreBytesNeeded h' /\ ext_hist h' h1.
  Proof.
    intros NS M brk q b h h1 E b' r Eb.
    specialize (M brk {| pos := q; inp := b'; hi := h |} r).
    specialize (NS brk {| pos := q; inp := b'; hi := h |}).
    unfold st_app in M. cbn [pos inp hi] in M. rewrite <- Eb, E in M.
    destruct (p brk {| pos := q; inp := b'; hi := h |}) as [a2 s2|e2 h2|].
    - discriminate M.
    - destruct (error_eqb_spec e2 MoreBytesNeeded) as [->|Hne].
      + exists h2. split; [reflexivity|exact M].
      + exfalso. injection M as M1 M2. apply Hne. symmetry. exact M1.
    - exfalso. apply NS. reflexivity.
  Qed.

  (* the callbacks of the run on a prefix are a prefix of the callbacks of the run on the whole *)
  Theorem trace_prefix : Mono p -> forall brk q b' r h h1 h2,
    out_hist (p brk {| pos := q; inp := b'; hi := h |}) = Some h1 ->
    out_hist (p brk {| pos := q; inp := b' ++ r; hi := h |}) = Some h2 ->
    ext_hist h1 h2.
  Proof.
    intros M brk q b' r h h1 h2 E1 E2.
    specialize (M brk {| pos := q; inp := b'; hi := h |} r).
    unfold st_app in M. cbn [pos inp hi] in M.
    destruct (p brk {| pos := q; inp := b'; hi := h |}) as [a1 s1|e1 g1|].
    - rewrite M in E2. cbn [out_hist hi] in *. injection E1 as <-. injection E2 as <-.
      apply ext_hist_refl.
    - cbn [out_hist] in E1. injection E1 as <-.
      destruct (error_eqb e1 MoreBytesNeeded).
      + destruct (p brk {| pos := q; inp := b' ++ r; hi := h |}) as [a2 s2|e2 g2|];
          cbn [out_hist] in E2; [injection E2 as <-; exact M|injection E2 as <-; exact M|discriminate E2].
      + rewrite M in E2. cbn [out_hist] in E2. injection E2 as <-. apply ext_hist_refl.
    - discriminate E1.
  Qed.
End Corollaries.

(* the same, packaged for a [Good] parser (in particular every decoder) *)
Section GoodCorollaries.
  Context {A : Type} (p : P A) (G : Good p).

  Lemma good_ok_extend brk q b h a s' :
    p brk {| pos := q; inp := b; hi := h |} = Done a s' ->
    forall x, p brk {| pos := q; inp := b ++ x; hi := h |} = Done a (st_app s' x).
  Proof. apply ok_extend, G. Qed.

  Lemma good_ok_exact brk q b h a s' c :
    p brk {| pos := q; inp := b; hi := h |} = Done a s' -> b = c ++ inp s' ->
    p brk {| pos := q; inp := c; hi := h |} = Done a {| pos := pos s'; inp := []; hi := hi s' |}.
  Proof. apply ok_exact, G. Qed.

  Lemma good_shorter_more brk q b h a s' c :
    p brk {| pos := q; inp := b; hi := h |} = Done a s' -> b = c ++ inp s' ->
    forall c' r, c = c' ++ r -> r <> [] ->
    exists h', p brk {| pos := q; inp := c'; hi := h |} = Fail MoreBytesNeeded h'
               /\ ext_hist h' (hi s').
  Proof. apply shorter_more_partial; apply G. Qed.

  Lemma good_final_error brk q b h e h' :
    p brk {| pos := q; inp := b; hi := h |} = Fail e h' -> e <> MoreBytesNeeded ->
    forall x, p brk {| pos := q; inp := b ++ x; hi := h |} = Fail e h'.
  Proof. apply final_error, G. Qed.

  Lemma good_more_prefix brk q b h h1 :
    p brk {| pos := q; inp := b; hi := h |} = Fail MoreBytesNeeded h1 ->
    forall b' r, b = b' ++ r ->
    exists h', p brk {| pos := q; inp := b'; hi := h |} = Fail MoreBytesNeeded h' /\ ext_hist h' h1.
  Proof. apply more_prefix_partial; apply G. Qed.

  Lemma good_trace_prefix brk q b' r h h1 h2 :
    out_hist (p brk {| pos := q; inp := b'; hi := h |}) = Some h1 ->
    out_hist (p brk {| pos := q; inp := b' ++ r; hi := h |}) = Some h2 ->
    ext_hist h1 h2.
  Proof. apply trace_prefix, G. Qed.
End GoodCorollaries.

(* ------------------------------------------------------------------ *)
(** * [NoStuck] is necessary for [shorter_more] and [more_prefix]:
   a parser that is Consumes, Mono and Local but Stuck on the empty input. *)

Definition p_cex : P (list byte) :=
  fun brk s => match inp s with [] => Stuck | _ :: _ => take 2 brk s end.

Lemma p_cex_Consumes : Consumes p_cex.
Proof.
  intros brk s. unfold p_cex. pose proof (Consumes_take 2 brk s) as H.
  destruct (inp s) as [|u t] eqn:E; [exact I|]. exact H.
Qed.

Lemma p_cex_Mono : Mono p_cex.
Proof.
  intros brk s x. unfold p_cex. pose proof (Mono_take 2 brk s x) as H.
  cbn [st_app inp]. destruct (inp s) as [|u t] eqn:E; [exact I|].
  cbn [app]. exact H.
Qed.

Lemma p_cex_Local : Local p_cex.
Proof.
  intros brk s a s' c E Ec y. unfold p_cex in *. cbn [inp].
  destruct (inp s) as [|u t] eqn:Es; [discriminate E|]. rewrite <- Es in Ec.
  pose proof (Local_take 2 brk s a s' c E Ec y) as H.
  destruct (c ++ y) as [|v w] eqn:Ecy; [|exact H].
  unfold take in H. cbn [inp splitN] in H. discriminate H.
Qed.

Lemma p_cex_refutes_shorter_more :
  Consumes p_cex /\ Mono p_cex /\ Local p_cex /\
  exists brk q b h a s' c c' r,
    p_cex brk {| pos := q; inp := b; hi := h |} = Done a s' /\ b = c ++ inp s' /\
    c = c' ++ r /\ r <> [] /\
    p_cex brk {| pos := q; inp := c'; hi := h |} = Stuck.
Proof.
  split; [exact p_cex_Consumes|]. split; [exact p_cex_Mono|]. split; [exact p_cex_Local|].
  exists never, 0, [x00; x01], [], [x00; x01], {| pos := 2; inp := []; hi := [] |},
         [x00; x01], [], [x00; x01].
  repeat split. discriminate.
Qed.

Lemma p_cex_refutes_more_prefix :
  Consumes p_cex /\ Mono p_cex /\ Local p_cex /\
  exists brk q b h h1 b' r,
    p_cex brk {| pos := q; inp := b; hi := h |} = Fail MoreBytesNeeded h1 /\ b = b' ++ r /\
    p_cex brk {| pos := q; inp := b'; hi := h |} = Stuck.
Proof.
  split; [exact p_cex_Consumes|]. split; [exact p_cex_Mono|]. split; [exact p_cex_Local|].
  exists never, 0, [x00], [], [], [], [x00].
  repeat split.
Qed.

(* ------------------------------------------------------------------ *)
(** * The decoders that read nothing are exactly the ones without [Progress] *)

Lemma r_u_0_not_Progress : ~ Progress (r_u 0).
Proof.
  intros H. specialize (H never {| pos := 0; inp := []; hi := [] |} 0
                          {| pos := 0; inp := []; hi := [] |} eq_refl).
  cbn [inp length] in H. lia.
Qed.

Lemma take_0_not_Progress : ~ Progress (take 0).
Proof.
  intros H. specialize (H never {| pos := 0; inp := []; hi := [] |} []
                          {| pos := 0; inp := []; hi := [] |} eq_refl).
  cbn [inp length] in H. lia.
Qed.

Lemma r_witnesses_0_not_Progress : ~ Progress (r_witnesses 0).
Proof.
  intros H. specialize (H never {| pos := 0; inp := []; hi := [] |} []
                          {| pos := 0; inp := []; hi := [] |} eq_refl).
  cbn [inp length] in H. lia.
Qed.

(* ------------------------------------------------------------------ *)
(** * [Mono_bind] really needs [NoStuck] of the continuation (not only Consumes) *)

Lemma Mono_stuck {A} : Mono (fun _ _ => @Stuck A).
Proof. intros brk s x. exact I. Qed.

Lemma Mono_bind_needs_NoStuck :
  Mono (take 1) /\
  (forall a : list byte, Mono ((fun _ => fun _ _ => @Stuck unit) a)) /\
  (forall a : list byte, Consumes ((fun _ => fun _ _ => @Stuck unit) a)) /\
  ~ Mono (bind (take 1) (fun _ => fun _ _ => @Stuck unit)).
Proof.
  split; [apply Mono_take|]. split; [intros a; apply Mono_stuck|].
  split; [intros a; apply Consumes_stuck|].
  intros M. specialize (M never {| pos := 0; inp := []; hi := [] |} [x00]).
  vm_compute in M. exact M.
Qed.
