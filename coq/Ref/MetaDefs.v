(* Ref/MetaDefs.v — the semantic predicates on reference parsers from which the
   generic properties (C01 bound, C02 locality, C07, C09, C15) are derived. *)
From BS Require Export Ref.Grammar.
Open Scope N_scope.

(* h' extends h (histories are newest first) *)
Definition ext_hist (h h' : hist) : Prop := exists d, h' = d ++ h.

Definition st_app (s : st) (x : list byte) : st :=
  {| pos := pos s; inp := inp s ++ x; hi := hi s |}.

(* a parser consumes a prefix of the input, advances the position by exactly that
   much and only appends to the history *)
Definition Consumes {A} (p : P A) : Prop := forall brk s,
  match p brk s with
  | Done a s' => exists c, inp s = c ++ inp s' /\ pos s' = pos s + lenN c /\ ext_hist (hi s) (hi s')
  | Fail e h => ext_hist (hi s) h
  | Stuck => True
  end.

Definition NoStuck {A} (p : P A) : Prop := forall brk s, p brk s <> Stuck.

(* prefix monotonicity: what a run on [b] says about the run on [b ++ x] *)
Definition Mono {A} (p : P A) : Prop := forall brk s x,
  match p brk s with
  | Done a s' => p brk (st_app s x) = Done a (st_app s' x)
  | Fail e h =>
      if error_eqb e MoreBytesNeeded
      then match p brk (st_app s x) with
           | Done _ s2 => ext_hist h (hi s2)
           | Fail _ h2 => ext_hist h h2
           | Stuck => False
           end
      else p brk (st_app s x) = Fail e h
  | Stuck => True
  end.

(* locality: a successful run does not depend on the bytes after what it consumed *)
Definition Local {A} (p : P A) : Prop := forall brk s a s' c,
  p brk s = Done a s' -> inp s = c ++ inp s' ->
  forall y, p brk {| pos := pos s; inp := c ++ y; hi := hi s |} = Done a {| pos := pos s'; inp := y; hi := hi s' |}.

Definition out_hist {A} (o : outcome A) : option hist :=
  match o with Done _ s => Some (hi s) | Fail _ h => Some h | Stuck => None end.

(* [cut brk h d]: scanning the chronological events [d] after history [h], the history
   at the first breakable event on which the visitor answers Break *)
Fixpoint cut (brk : oracle) (h : hist) (d : list event) : option hist :=
  match d with
  | [] => None
  | e :: t => if breakable e && brk h e then Some (e :: h) else cut brk (e :: h) t
  end.

(* break truncation: the run under [brk] is the never-breaking run cut at the first Break *)
Definition Breaks {A} (p : P A) : Prop := forall brk s,
  p never s <> Stuck ->
  exists d, out_hist (p never s) = Some (rev d ++ hi s) /\
            p brk s = match cut brk (hi s) d with
                      | Some hb => Fail VisitBreak hb
                      | None => p never s
                      end.

(* callback bound: at most 3 callbacks per byte read, plus a constant *)
Definition Bounded {A} (c : N) (p : P A) : Prop := forall brk s,
  match p brk s with
  | Done _ s' => lenN (hi s') + 3 * lenN (inp s') <= lenN (hi s) + 3 * lenN (inp s) + c
  | Fail _ h => lenN h <= lenN (hi s) + 3 * lenN (inp s) + c
  | Stuck => True
  end.
