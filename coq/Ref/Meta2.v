(* Ref/Meta2.v — closure of [Breaks] (break truncation) and [Bounded] (callback
   bound) under the primitives of the streaming reference parser monad, and the
   instances for every decoder of Ref/Grammar.v.

   Contents
     1. [cut]: [cut_app], [cut_never], inversion lemmas
     2. [Grows] (the history only grows), [Indep] / [OracleExt] (oracle independence)
     3. [Breaks]: closure lemmas and instances
     4. [Acct] / [Paid] / [Bounded]: closure lemmas and instances
     5. [NoSpontaneousBreak] and the corollaries
        [never_no_break], [break_precedence], [nonbreaking_same]. *)
From BS Require Export Ref.MetaDefs.
From Coq Require Import Lia ZifyN ZifyNat ZifyBool.
Open Scope N_scope.

(* ------------------------------------------------------------------ *)
(** * 0. small tactics shared by all the instance proofs               *)

(* destruct the scrutinee of a [match]/[if]/[let '(_,_)] that is the parser
   argument of the goal predicate *)
Ltac dmatch :=
  match goal with
  | |- ?Pr (match ?x with _ => _ end) => destruct x
  end.

Ltac intro_forall :=
  match goal with |- forall _, _ => intro end.

(* ------------------------------------------------------------------ *)
(** * 1. [cut]                                                          *)

Lemma cut_app brk h d1 d2 :
  cut brk h (d1 ++ d2) =
  match cut brk h d1 with
  | Some hb => Some hb
  | None => cut brk (rev d1 ++ h) d2
  end.
Proof.
  revert h; induction d1 as [|e t IH]; intros h; cbn [cut app rev].
  - reflexivity.
  - destruct (breakable e && brk h e); [reflexivity|].
    rewrite IH, <- app_assoc. reflexivity.
Qed.

Lemma cut_never h d : cut never h d = None.
Proof.
  revert h; induction d as [|e t IH]; intros h; cbn [cut]; [reflexivity|].
  unfold never at 1. rewrite andb_false_r. apply IH.
Qed.

(* an oracle that never answers Break to a breakable callback never cuts *)
Lemma cut_nonbreaking brk h d :
  (forall h' e, breakable e = true -> brk h' e = false) -> cut brk h d = None.
Proof.
  intros Hn. revert h; induction d as [|e t IH]; intros h; cbn [cut]; [reflexivity|].
  destruct (breakable e) eqn:Eb; cbn [andb].
  - rewrite (Hn h e Eb). apply IH.
  - apply IH.
Qed.

Lemma cut_nil brk h : cut brk h [] = None.
Proof. reflexivity. Qed.

Lemma cut_single brk h e :
  cut brk h [e] = if breakable e && brk h e then Some (e :: h) else None.
Proof. reflexivity. Qed.

(* what a firing cut looks like: the first breakable event answered Break *)
Lemma cut_Some_inv brk h d hb :
  cut brk h d = Some hb ->
  exists d1 e d2, d = d1 ++ e :: d2 /\ hb = e :: rev d1 ++ h /\
                  breakable e = true /\ brk (rev d1 ++ h) e = true /\
                  cut brk h d1 = None.
Proof.
  revert h; induction d as [|e t IH]; intros h; cbn [cut]; [discriminate|].
  destruct (breakable e && brk h e) eqn:Eb.
  - intros E; injection E as <-.
    apply andb_true_iff in Eb. destruct Eb as [Eb1 Eb2].
    exists [], e, t. cbn [app rev]. repeat split; assumption.
  - intros E. destruct (IH _ E) as (d1 & e' & d2 & -> & -> & Hb & Hk & Hc).
    exists (e :: d1), e', d2. cbn [app rev cut]. rewrite Eb, <- !app_assoc. cbn [app].
    repeat split; assumption.
Qed.

Lemma cut_None_inv brk h d :
  cut brk h d = None ->
  forall d1 e d2, d = d1 ++ e :: d2 -> breakable e && brk (rev d1 ++ h) e = false.
Proof.
  intros Hc d1 e d2 ->. rewrite cut_app in Hc.
  destruct (cut brk h d1); [discriminate|]. cbn [cut] in Hc.
  destruct (breakable e && brk (rev d1 ++ h) e); [discriminate|reflexivity].
Qed.

(* the history at the cut extends the start history, and is a prefix of the full one *)
Lemma cut_Some_ext brk h d hb : cut brk h d = Some hb -> ext_hist h hb.
Proof.
  intros E. destruct (cut_Some_inv _ _ _ _ E) as (d1 & e & d2 & _ & -> & _).
  exists (e :: rev d1). reflexivity.
Qed.

Lemma cut_Some_prefix brk h d hb : cut brk h d = Some hb -> ext_hist hb (rev d ++ h).
Proof.
  intros E. destruct (cut_Some_inv _ _ _ _ E) as (d1 & e & d2 & -> & -> & _).
  exists (rev d2). rewrite rev_app_distr. cbn [rev]. rewrite <- !app_assoc. reflexivity.
Qed.

(* ------------------------------------------------------------------ *)
(** * 2. history growth and oracle independence                        *)

Lemma ext_hist_refl h : ext_hist h h.
Proof. exists []. reflexivity. Qed.
Lemma ext_hist_trans a b c : ext_hist a b -> ext_hist b c -> ext_hist a c.
Proof. intros [d1 ->] [d2 ->]. exists (d2 ++ d1). rewrite app_assoc. reflexivity. Qed.
Lemma ext_hist_cons e h : ext_hist h (e :: h).
Proof. exists [e]. reflexivity. Qed.
Lemma ext_hist_len h h' : ext_hist h h' -> lenN h <= lenN h'.
Proof. intros [d ->]. rewrite lenN_app. lia. Qed.

Definition Grows {A} (p : P A) : Prop := forall brk s,
  match p brk s with
  | Done _ s' => ext_hist (hi s) (hi s')
  | Fail _ h => ext_hist (hi s) h
  | Stuck => True
  end.

Lemma Grows_ret {A} (a : A) : Grows (ret a).
Proof. intros brk s. apply ext_hist_refl. Qed.
Lemma Grows_fail {A} e : Grows (@fail A e).
Proof. intros brk s. apply ext_hist_refl. Qed.
Lemma Grows_get_pos : Grows get_pos.
Proof. intros brk s. apply ext_hist_refl. Qed.
Lemma Grows_take n : Grows (take n).
Proof.
  intros brk s. unfold take. destruct (splitN (inp s) n) as [[a b]|]; apply ext_hist_refl.
Qed.
Lemma Grows_emitp e : Grows (emitp e).
Proof.
  intros brk s. unfold emitp. destruct (breakable e && brk (hi s) e); apply ext_hist_cons.
Qed.
Lemma Grows_bind {A B} (p : P A) (f : A -> P B) :
  Grows p -> (forall a, Grows (f a)) -> Grows (bind p f).
Proof.
  intros Hp Hf brk s. unfold bind. specialize (Hp brk s).
  destruct (p brk s) as [a s'|e h|]; [|exact Hp|exact I].
  specialize (Hf a brk s').
  destruct (f a brk s') as [b s''|e h|]; [| |exact I]; eapply ext_hist_trans; eassumption.
Qed.
Lemma Grows_stuck {A} : Grows (fun _ _ => @Stuck A).
Proof. intros brk s. exact I. Qed.
Lemma Grows_loop_fuel {A} (body : N -> P A) n :
  (forall i, Grows (body i)) -> forall fuel i, Grows (loop_fuel fuel body i n).
Proof.
  intros Hb fuel; induction fuel as [|f IH]; intros i; cbn [loop_fuel];
    destruct (i <? n); try apply Grows_ret; [apply Grows_stuck|].
  apply Grows_bind; [apply Hb|]. intros x.
  apply Grows_bind; [apply IH|]. intros r. apply Grows_ret.
Qed.
Lemma Grows_loop {A} (body : N -> P A) n :
  (forall i, Grows (body i)) -> Grows (loop body n).
Proof. intros Hb brk s. exact (Grows_loop_fuel body n Hb _ _ brk s). Qed.

Create HintDb grows discriminated.
#[export] Hint Resolve Grows_ret Grows_fail Grows_get_pos Grows_take Grows_emitp : grows.

Ltac grows_tac :=
  repeat first
    [ solve [auto 1 with grows]
    | apply Grows_bind
    | apply Grows_loop
    | intro_forall
    | progress cbv beta
    | dmatch ].

Lemma r_u_Grows w : Grows (r_u w).
Proof. unfold r_u. grows_tac. Qed.
#[export] Hint Resolve r_u_Grows : grows.
Lemma r_compact_Grows : Grows r_compact.
Proof. unfold r_compact. grows_tac. Qed.
#[export] Hint Resolve r_compact_Grows : grows.
Lemma r_script_pos_Grows : Grows r_script_pos.
Proof. unfold r_script_pos. grows_tac. Qed.
#[export] Hint Resolve r_script_pos_Grows : grows.
Lemma r_script_Grows : Grows r_script.
Proof. unfold r_script. grows_tac. Qed.
#[export] Hint Resolve r_script_Grows : grows.
Lemma r_outpoint_Grows : Grows r_outpoint.
Proof. unfold r_outpoint. grows_tac. Qed.
#[export] Hint Resolve r_outpoint_Grows : grows.
Lemma r_txin_ev_Grows i : Grows (r_txin_ev i).
Proof. unfold r_txin_ev. grows_tac. Qed.
#[export] Hint Resolve r_txin_ev_Grows : grows.
Lemma r_txin_Grows : Grows r_txin.
Proof. unfold r_txin. grows_tac. Qed.
#[export] Hint Resolve r_txin_Grows : grows.
Lemma r_txout_ev_Grows i : Grows (r_txout_ev i).
Proof. unfold r_txout_ev. grows_tac. Qed.
#[export] Hint Resolve r_txout_ev_Grows : grows.
Lemma r_txout_Grows : Grows r_txout.
Proof. unfold r_txout. grows_tac. Qed.
#[export] Hint Resolve r_txout_Grows : grows.
Lemma r_txins_Grows : Grows r_txins.
Proof. unfold r_txins. grows_tac. Qed.
#[export] Hint Resolve r_txins_Grows : grows.
Lemma r_txouts_Grows : Grows r_txouts.
Proof. unfold r_txouts. grows_tac. Qed.
#[export] Hint Resolve r_txouts_Grows : grows.
Lemma r_witness_Grows : Grows r_witness.
Proof. unfold r_witness. grows_tac. Qed.
#[export] Hint Resolve r_witness_Grows : grows.
Lemma r_witnesses_Grows n : Grows (r_witnesses n).
Proof. unfold r_witnesses. grows_tac. Qed.
#[export] Hint Resolve r_witnesses_Grows : grows.
Lemma r_tx_Grows : Grows r_tx.
Proof. unfold r_tx. grows_tac. Qed.
#[export] Hint Resolve r_tx_Grows : grows.
Lemma r_header_Grows : Grows r_header.
Proof. unfold r_header. grows_tac. Qed.
#[export] Hint Resolve r_header_Grows : grows.
Lemma r_block_Grows : Grows r_block.
Proof. unfold r_block. grows_tac. Qed.
#[export] Hint Resolve r_block_Grows : grows.

(** ** oracle independence of the value

   [Indep p]: whatever the oracle, a run that completes, or that fails with an
   error other than VisitBreak, is literally the never-breaking run: same value,
   same final state, same error, same history; and a Stuck run is Stuck under
   [never] too.  The only thing an oracle can do is turn the run into
   [Fail VisitBreak _] ([Breaks] says where: at the cut). *)
Definition Indep {A} (p : P A) : Prop := forall brk s,
  match p brk s with
  | Done a s' => p never s = Done a s'
  | Fail e h => e = VisitBreak \/ p never s = Fail e h
  | Stuck => p never s = Stuck
  end.

Lemma Indep_ret {A} (a : A) : Indep (ret a).
Proof. intros brk s. reflexivity. Qed.
Lemma Indep_fail {A} e : Indep (@fail A e).
Proof. intros brk s. right. reflexivity. Qed.
Lemma Indep_get_pos : Indep get_pos.
Proof. intros brk s. reflexivity. Qed.
Lemma Indep_take n : Indep (take n).
Proof.
  intros brk s. unfold take. destruct (splitN (inp s) n) as [[a b]|]; [reflexivity|right; reflexivity].
Qed.
Lemma Indep_emitp e : Indep (emitp e).
Proof.
  intros brk s. unfold emitp. destruct (breakable e && brk (hi s) e).
  - left; reflexivity.
  - unfold never. rewrite andb_false_r. reflexivity.
Qed.
Lemma Indep_bind {A B} (p : P A) (f : A -> P B) :
  Indep p -> (forall a, Indep (f a)) -> Indep (bind p f).
Proof.
  intros Hp Hf brk s. unfold bind. specialize (Hp brk s).
  destruct (p brk s) as [a s'|e h|].
  - rewrite Hp. exact (Hf a brk s').
  - destruct Hp as [Hp|Hp]; [left; exact Hp|right; rewrite Hp; reflexivity].
  - rewrite Hp. reflexivity.
Qed.
Lemma Indep_stuck {A} : Indep (fun _ _ => @Stuck A).
Proof. intros brk s. reflexivity. Qed.
Lemma Indep_loop_fuel {A} (body : N -> P A) n :
  (forall i, Indep (body i)) -> forall fuel i, Indep (loop_fuel fuel body i n).
Proof.
  intros Hb fuel; induction fuel as [|f IH]; intros i; cbn [loop_fuel];
    destruct (i <? n); try apply Indep_ret; [apply Indep_stuck|].
  apply Indep_bind; [apply Hb|]. intros x.
  apply Indep_bind; [apply IH|]. intros r. apply Indep_ret.
Qed.
Lemma Indep_loop {A} (body : N -> P A) n :
  (forall i, Indep (body i)) -> Indep (loop body n).
Proof. intros Hb brk s. exact (Indep_loop_fuel body n Hb _ _ brk s). Qed.

(* the readable consequences *)
Lemma Indep_Done {A} (p : P A) : Indep p ->
  forall brk s a s', p brk s = Done a s' -> p never s = Done a s'.
Proof. intros H brk s a s' E. specialize (H brk s). rewrite E in H. exact H. Qed.
Lemma Indep_Fail {A} (p : P A) : Indep p ->
  forall brk s e h, p brk s = Fail e h -> e <> VisitBreak -> p never s = Fail e h.
Proof. intros H brk s e h E Ne. specialize (H brk s). rewrite E in H. destruct H; [contradiction|assumption]. Qed.
Lemma Indep_Stuck {A} (p : P A) : Indep p ->
  forall brk s, p brk s = Stuck -> p never s = Stuck.
Proof. intros H brk s E. specialize (H brk s). rewrite E in H. exact H. Qed.

Create HintDb indep discriminated.
#[export] Hint Resolve Indep_ret Indep_fail Indep_get_pos Indep_take Indep_emitp : indep.

Ltac indep_tac :=
  repeat first
    [ solve [auto 1 with indep]
    | apply Indep_bind
    | apply Indep_loop
    | intro_forall
    | progress cbv beta
    | dmatch ].

Lemma r_u_Indep w : Indep (r_u w).
Proof. unfold r_u. indep_tac. Qed.
#[export] Hint Resolve r_u_Indep : indep.
Lemma r_compact_Indep : Indep r_compact.
Proof. unfold r_compact. indep_tac. Qed.
#[export] Hint Resolve r_compact_Indep : indep.
Lemma r_script_pos_Indep : Indep r_script_pos.
Proof. unfold r_script_pos. indep_tac. Qed.
#[export] Hint Resolve r_script_pos_Indep : indep.
Lemma r_script_Indep : Indep r_script.
Proof. unfold r_script. indep_tac. Qed.
#[export] Hint Resolve r_script_Indep : indep.
Lemma r_outpoint_Indep : Indep r_outpoint.
Proof. unfold r_outpoint. indep_tac. Qed.
#[export] Hint Resolve r_outpoint_Indep : indep.
Lemma r_txin_ev_Indep i : Indep (r_txin_ev i).
Proof. unfold r_txin_ev. indep_tac. Qed.
#[export] Hint Resolve r_txin_ev_Indep : indep.
Lemma r_txin_Indep : Indep r_txin.
Proof. unfold r_txin. indep_tac. Qed.
#[export] Hint Resolve r_txin_Indep : indep.
Lemma r_txout_ev_Indep i : Indep (r_txout_ev i).
Proof. unfold r_txout_ev. indep_tac. Qed.
#[export] Hint Resolve r_txout_ev_Indep : indep.
Lemma r_txout_Indep : Indep r_txout.
Proof. unfold r_txout. indep_tac. Qed.
#[export] Hint Resolve r_txout_Indep : indep.
Lemma r_txins_Indep : Indep r_txins.
Proof. unfold r_txins. indep_tac. Qed.
#[export] Hint Resolve r_txins_Indep : indep.
Lemma r_txouts_Indep : Indep r_txouts.
Proof. unfold r_txouts. indep_tac. Qed.
#[export] Hint Resolve r_txouts_Indep : indep.
Lemma r_witness_Indep : Indep r_witness.
Proof. unfold r_witness. indep_tac. Qed.
#[export] Hint Resolve r_witness_Indep : indep.
Lemma r_witnesses_Indep n : Indep (r_witnesses n).
Proof. unfold r_witnesses. indep_tac. Qed.
#[export] Hint Resolve r_witnesses_Indep : indep.
Lemma r_tx_Indep : Indep r_tx.
Proof. unfold r_tx. indep_tac. Qed.
#[export] Hint Resolve r_tx_Indep : indep.
Lemma r_header_Indep : Indep r_header.
Proof. unfold r_header. indep_tac. Qed.
#[export] Hint Resolve r_header_Indep : indep.
Lemma r_block_Indep : Indep r_block.
Proof. unfold r_block. indep_tac. Qed.
#[export] Hint Resolve r_block_Indep : indep.

(** ** extensionality in the oracle: only the answers to breakable callbacks matter.
   No side condition about Stuck. *)
Definition OracleExt {A} (p : P A) : Prop := forall brk brk' s,
  (forall h e, breakable e = true -> brk h e = brk' h e) -> p brk s = p brk' s.

Lemma OracleExt_ret {A} (a : A) : OracleExt (ret a).
Proof. intros brk brk' s H. reflexivity. Qed.
Lemma OracleExt_fail {A} e : OracleExt (@fail A e).
Proof. intros brk brk' s H. reflexivity. Qed.
Lemma OracleExt_get_pos : OracleExt get_pos.
Proof. intros brk brk' s H. reflexivity. Qed.
Lemma OracleExt_take n : OracleExt (take n).
Proof. intros brk brk' s H. reflexivity. Qed.
Lemma OracleExt_emitp e : OracleExt (emitp e).
Proof.
  intros brk brk' s H. unfold emitp. destruct (breakable e) eqn:Eb; cbn [andb]; [|reflexivity].
  rewrite (H _ _ Eb). reflexivity.
Qed.
Lemma OracleExt_bind {A B} (p : P A) (f : A -> P B) :
  OracleExt p -> (forall a, OracleExt (f a)) -> OracleExt (bind p f).
Proof.
  intros Hp Hf brk brk' s H. unfold bind. rewrite (Hp brk brk' s H).
  destruct (p brk' s) as [a s'|e h|]; [|reflexivity|reflexivity].
  exact (Hf a brk brk' s' H).
Qed.
Lemma OracleExt_stuck {A} : OracleExt (fun _ _ => @Stuck A).
Proof. intros brk brk' s H. reflexivity. Qed.
Lemma OracleExt_loop_fuel {A} (body : N -> P A) n :
  (forall i, OracleExt (body i)) -> forall fuel i, OracleExt (loop_fuel fuel body i n).
Proof.
  intros Hb fuel; induction fuel as [|f IH]; intros i; cbn [loop_fuel];
    destruct (i <? n); try apply OracleExt_ret; [apply OracleExt_stuck|].
  apply OracleExt_bind; [apply Hb|]. intros x.
  apply OracleExt_bind; [apply IH|]. intros r. apply OracleExt_ret.
Qed.
Lemma OracleExt_loop {A} (body : N -> P A) n :
  (forall i, OracleExt (body i)) -> OracleExt (loop body n).
Proof. intros Hb brk brk' s H. exact (OracleExt_loop_fuel body n Hb _ _ brk brk' s H). Qed.

Create HintDb oext discriminated.
#[export] Hint Resolve OracleExt_ret OracleExt_fail OracleExt_get_pos OracleExt_take OracleExt_emitp : oext.

Ltac oext_tac :=
  repeat first
    [ solve [auto 1 with oext]
    | apply OracleExt_bind
    | apply OracleExt_loop
    | intro_forall
    | progress cbv beta
    | dmatch ].

Lemma r_u_OracleExt w : OracleExt (r_u w).
Proof. unfold r_u. oext_tac. Qed.
#[export] Hint Resolve r_u_OracleExt : oext.
Lemma r_compact_OracleExt : OracleExt r_compact.
Proof. unfold r_compact. oext_tac. Qed.
#[export] Hint Resolve r_compact_OracleExt : oext.
Lemma r_script_pos_OracleExt : OracleExt r_script_pos.
Proof. unfold r_script_pos. oext_tac. Qed.
#[export] Hint Resolve r_script_pos_OracleExt : oext.
Lemma r_script_OracleExt : OracleExt r_script.
Proof. unfold r_script. oext_tac. Qed.
#[export] Hint Resolve r_script_OracleExt : oext.
Lemma r_outpoint_OracleExt : OracleExt r_outpoint.
Proof. unfold r_outpoint. oext_tac. Qed.
#[export] Hint Resolve r_outpoint_OracleExt : oext.
Lemma r_txin_ev_OracleExt i : OracleExt (r_txin_ev i).
Proof. unfold r_txin_ev. oext_tac. Qed.
#[export] Hint Resolve r_txin_ev_OracleExt : oext.
Lemma r_txin_OracleExt : OracleExt r_txin.
Proof. unfold r_txin. oext_tac. Qed.
#[export] Hint Resolve r_txin_OracleExt : oext.
Lemma r_txout_ev_OracleExt i : OracleExt (r_txout_ev i).
Proof. unfold r_txout_ev. oext_tac. Qed.
#[export] Hint Resolve r_txout_ev_OracleExt : oext.
Lemma r_txout_OracleExt : OracleExt r_txout.
Proof. unfold r_txout. oext_tac. Qed.
#[export] Hint Resolve r_txout_OracleExt : oext.
Lemma r_txins_OracleExt : OracleExt r_txins.
Proof. unfold r_txins. oext_tac. Qed.
#[export] Hint Resolve r_txins_OracleExt : oext.
Lemma r_txouts_OracleExt : OracleExt r_txouts.
Proof. unfold r_txouts. oext_tac. Qed.
#[export] Hint Resolve r_txouts_OracleExt : oext.
Lemma r_witness_OracleExt : OracleExt r_witness.
Proof. unfold r_witness. oext_tac. Qed.
#[export] Hint Resolve r_witness_OracleExt : oext.
Lemma r_witnesses_OracleExt n : OracleExt (r_witnesses n).
Proof. unfold r_witnesses. oext_tac. Qed.
#[export] Hint Resolve r_witnesses_OracleExt : oext.
Lemma r_tx_OracleExt : OracleExt r_tx.
Proof. unfold r_tx. oext_tac. Qed.
#[export] Hint Resolve r_tx_OracleExt : oext.
Lemma r_header_OracleExt : OracleExt r_header.
Proof. unfold r_header. oext_tac. Qed.
#[export] Hint Resolve r_header_OracleExt : oext.
Lemma r_block_OracleExt : OracleExt r_block.
Proof. unfold r_block. oext_tac. Qed.
#[export] Hint Resolve r_block_OracleExt : oext.

(* ------------------------------------------------------------------ *)
(** * 3. [Breaks]                                                       *)

Lemma Breaks_ret {A} (a : A) : Breaks (ret a).
Proof. intros brk s _. exists []. split; reflexivity. Qed.
Lemma Breaks_fail {A} e : Breaks (@fail A e).
Proof. intros brk s _. exists []. split; reflexivity. Qed.
Lemma Breaks_get_pos : Breaks get_pos.
Proof. intros brk s _. exists []. split; reflexivity. Qed.
Lemma Breaks_take n : Breaks (take n).
Proof.
  intros brk s _. exists []. unfold take.
  destruct (splitN (inp s) n) as [[a b]|]; split; reflexivity.
Qed.
Lemma Breaks_emitp e : Breaks (emitp e).
Proof.
  intros brk s _. exists [e]. unfold emitp at 1 3. unfold never at 1 2. rewrite andb_false_r.
  split; [reflexivity|]. rewrite cut_single. unfold emitp.
  destruct (breakable e && brk (hi s) e); reflexivity.
Qed.
Lemma Breaks_stuck {A} : Breaks (fun _ _ => @Stuck A).
Proof. intros brk s H. contradiction H. reflexivity. Qed.

(* [Breaks] is closed under bind with no side condition: the clause
   [out_hist (p never s) = Some (rev d ++ hi s)] already pins down the history
   from which the continuation starts. *)
Lemma Breaks_bind {A B} (p : P A) (f : A -> P B) :
  Breaks p -> (forall a, Breaks (f a)) -> Breaks (bind p f).
Proof.
  intros Hp Hf brk s Hns. unfold bind in *.
  destruct (Hp brk s) as [d1 [Ho1 Hb1]].
  { intros E. apply Hns. rewrite E. reflexivity. }
  destruct (p never s) as [a s'|e h|] eqn:En.
  - cbn [out_hist] in Ho1. injection Ho1 as Hhi.
    destruct (Hf a brk s' Hns) as [d2 [Ho2 Hb2]].
    exists (d1 ++ d2). split.
    + rewrite Ho2, Hhi, rev_app_distr, app_assoc. reflexivity.
    + rewrite Hb1, cut_app. destruct (cut brk (hi s) d1) as [hb|]; [reflexivity|].
      rewrite Hb2, Hhi. reflexivity.
  - exists d1. split; [exact Ho1|]. rewrite Hb1.
    destruct (cut brk (hi s) d1) as [hb|]; reflexivity.
  - contradiction Hns. reflexivity.
Qed.

Lemma Breaks_if {A} (b : bool) (p q : P A) : Breaks p -> Breaks q -> Breaks (if b then p else q).
Proof. destruct b; intros; assumption. Qed.
Lemma Breaks_match_list {A B} (l : list A) (p : P B) (q : A -> list A -> P B) :
  Breaks p -> (forall x t, Breaks (q x t)) ->
  Breaks (match l with [] => p | x :: t => q x t end).
Proof. destruct l; intros Hp Hq; [assumption|apply Hq]. Qed.
Lemma Breaks_match_pair {A B C} (x : A * B) (f : A -> B -> P C) :
  (forall a b, Breaks (f a b)) -> Breaks (let '(a, b) := x in f a b).
Proof. destruct x; intros H; apply H. Qed.

Lemma Breaks_loop_fuel {A} (body : N -> P A) n :
  (forall i, Breaks (body i)) -> forall fuel i, Breaks (loop_fuel fuel body i n).
Proof.
  intros Hb fuel; induction fuel as [|f IH]; intros i; cbn [loop_fuel];
    destruct (i <? n); try apply Breaks_ret; [apply Breaks_stuck|].
  apply Breaks_bind; [apply Hb|]. intros x.
  apply Breaks_bind; [apply IH|]. intros r. apply Breaks_ret.
Qed.
(* the fuel of [loop] depends on the start state only, not on the oracle *)
Lemma Breaks_loop {A} (body : N -> P A) n :
  (forall i, Breaks (body i)) -> Breaks (loop body n).
Proof. intros Hb brk s. exact (Breaks_loop_fuel body n Hb _ _ brk s). Qed.

Create HintDb breaks discriminated.
#[export] Hint Resolve Breaks_ret Breaks_fail Breaks_get_pos Breaks_take Breaks_emitp : breaks.

Ltac breaks_tac :=
  repeat first
    [ solve [auto 1 with breaks]
    | apply Breaks_bind
    | apply Breaks_loop
    | intro_forall
    | progress cbv beta
    | dmatch ].

Lemma r_u_Breaks w : Breaks (r_u w).
Proof. unfold r_u. breaks_tac. Qed.
#[export] Hint Resolve r_u_Breaks : breaks.
Lemma r_compact_Breaks : Breaks r_compact.
Proof. unfold r_compact. breaks_tac. Qed.
#[export] Hint Resolve r_compact_Breaks : breaks.
Lemma r_script_pos_Breaks : Breaks r_script_pos.
Proof. unfold r_script_pos. breaks_tac. Qed.
#[export] Hint Resolve r_script_pos_Breaks : breaks.
Lemma r_script_Breaks : Breaks r_script.
Proof. unfold r_script. breaks_tac. Qed.
#[export] Hint Resolve r_script_Breaks : breaks.
Lemma r_outpoint_Breaks : Breaks r_outpoint.
Proof. unfold r_outpoint. breaks_tac. Qed.
#[export] Hint Resolve r_outpoint_Breaks : breaks.
Lemma r_txin_ev_Breaks i : Breaks (r_txin_ev i).
Proof. unfold r_txin_ev. breaks_tac. Qed.
#[export] Hint Resolve r_txin_ev_Breaks : breaks.
Lemma r_txin_Breaks : Breaks r_txin.
Proof. unfold r_txin. breaks_tac. Qed.
#[export] Hint Resolve r_txin_Breaks : breaks.
Lemma r_txout_ev_Breaks i : Breaks (r_txout_ev i).
Proof. unfold r_txout_ev. breaks_tac. Qed.
#[export] Hint Resolve r_txout_ev_Breaks : breaks.
Lemma r_txout_Breaks : Breaks r_txout.
Proof. unfold r_txout. breaks_tac. Qed.
#[export] Hint Resolve r_txout_Breaks : breaks.
Lemma r_txins_Breaks : Breaks r_txins.
Proof. unfold r_txins. breaks_tac. Qed.
#[export] Hint Resolve r_txins_Breaks : breaks.
Lemma r_txouts_Breaks : Breaks r_txouts.
Proof. unfold r_txouts. breaks_tac. Qed.
#[export] Hint Resolve r_txouts_Breaks : breaks.
Lemma r_witness_Breaks : Breaks r_witness.
Proof. unfold r_witness. breaks_tac. Qed.
#[export] Hint Resolve r_witness_Breaks : breaks.
Lemma r_witnesses_Breaks n : Breaks (r_witnesses n).
Proof. unfold r_witnesses. breaks_tac. Qed.
#[export] Hint Resolve r_witnesses_Breaks : breaks.
Lemma r_tx_Breaks : Breaks r_tx.
Proof. unfold r_tx. breaks_tac. Qed.
#[export] Hint Resolve r_tx_Breaks : breaks.
Lemma r_header_Breaks : Breaks r_header.
Proof. unfold r_header. breaks_tac. Qed.
#[export] Hint Resolve r_header_Breaks : breaks.
Lemma r_block_Breaks : Breaks r_block.
Proof. unfold r_block. breaks_tac. Qed.
#[export] Hint Resolve r_block_Breaks : breaks.

(* ------------------------------------------------------------------ *)
(** * 4. [Bounded]                                                      *)

(* the potential of a state: callbacks delivered + 3 * bytes still to read *)
Definition pot (s : st) : N := lenN (hi s) + 3 * lenN (inp s).

Lemma Bounded_pot {A} c (p : P A) :
  Bounded c p <-> forall brk s,
    match p brk s with
    | Done _ s' => pot s' <= pot s + c
    | Fail _ h => lenN h <= pot s + c
    | Stuck => True
    end.
Proof. reflexivity. Qed.

(** ** closure lemmas, stated on [Bounded] itself *)

Lemma Bounded_ret {A} (a : A) : Bounded 0 (ret a).
Proof. intros brk s. cbn [ret]. lia. Qed.
Lemma Bounded_fail {A} e : Bounded 0 (@fail A e).
Proof. intros brk s. cbn [fail]. lia. Qed.
Lemma Bounded_get_pos : Bounded 0 get_pos.
Proof. intros brk s. cbn [get_pos]. lia. Qed.
Lemma Bounded_take n : Bounded 0 (take n).
Proof.
  intros brk s. unfold take. destruct (splitN (inp s) n) as [[a b]|] eqn:E; [|lia].
  apply splitN_Some in E. destruct E as [E1 E2]. cbn [hi inp]. rewrite E1, lenN_app. lia.
Qed.
Lemma Bounded_emitp e : Bounded 1 (emitp e).
Proof.
  intros brk s. unfold emitp. destruct (breakable e && brk (hi s) e); cbn [hi inp]; rewrite lenN_cons; lia.
Qed.
Lemma Bounded_bind {A B} c1 c2 (p : P A) (f : A -> P B) :
  Bounded c1 p -> (forall a, Bounded c2 (f a)) -> Bounded (c1 + c2) (bind p f).
Proof.
  intros Hp Hf brk s. unfold bind. specialize (Hp brk s).
  destruct (p brk s) as [a s'|e h|]; [|lia|exact I].
  specialize (Hf a brk s'). destruct (f a brk s') as [b s''|e h|]; [lia|lia|exact I].
Qed.
Lemma Bounded_weaken {A} c c' (p : P A) : c <= c' -> Bounded c p -> Bounded c' p.
Proof.
  intros Hc Hp brk s. specialize (Hp brk s). destruct (p brk s) as [a s'|e h|]; [lia|lia|exact I].
Qed.
Lemma Bounded_if {A} c (b : bool) (p q : P A) : Bounded c p -> Bounded c q -> Bounded c (if b then p else q).
Proof. destruct b; intros; assumption. Qed.
Lemma Bounded_stuck {A} c : Bounded c (fun _ _ => @Stuck A).
Proof. intros brk s. exact I. Qed.

(** ** the "paid" bound: on success every callback is paid for by consumed bytes
   (the potential does not increase); on failure at most [c] callbacks are unpaid. *)
Definition Paid {A} (c : N) (p : P A) : Prop := forall brk s,
  match p brk s with
  | Done _ s' => lenN (hi s') + 3 * lenN (inp s') <= lenN (hi s) + 3 * lenN (inp s)
  | Fail _ h => lenN h <= lenN (hi s) + 3 * lenN (inp s) + c
  | Stuck => True
  end.

Lemma Paid_Bounded {A} c (p : P A) : Paid c p -> Bounded c p.
Proof.
  intros Hp brk s. specialize (Hp brk s). destruct (p brk s) as [a s'|e h|]; [lia|lia|exact I].
Qed.
Lemma Bounded0_Paid {A} c (p : P A) : Bounded 0 p -> Paid c p.
Proof.
  intros Hp brk s. specialize (Hp brk s). destruct (p brk s) as [a s'|e h|]; [lia|lia|exact I].
Qed.
Lemma Paid_ret {A} c (a : A) : Paid c (ret a).
Proof. apply Bounded0_Paid, Bounded_ret. Qed.
Lemma Paid_bind {A B} c (p : P A) (f : A -> P B) :
  Paid c p -> (forall a, Paid c (f a)) -> Paid c (bind p f).
Proof.
  intros Hp Hf brk s. unfold bind. specialize (Hp brk s).
  destruct (p brk s) as [a s'|e h|]; [|lia|exact I].
  specialize (Hf a brk s'). destruct (f a brk s') as [b s''|e h|]; [lia|lia|exact I].
Qed.
Lemma Paid_stuck {A} c : Paid c (fun _ _ => @Stuck A).
Proof. intros brk s. exact I. Qed.
Lemma Paid_loop_fuel {A} c (body : N -> P A) n :
  (forall i, Paid c (body i)) -> forall fuel i, Paid c (loop_fuel fuel body i n).
Proof.
  intros Hb fuel; induction fuel as [|f IH]; intros i; cbn [loop_fuel];
    destruct (i <? n); try apply Paid_ret; [apply Paid_stuck|].
  apply Paid_bind; [apply Hb|]. intros x.
  apply Paid_bind; [apply IH|]. intros r. apply Paid_ret.
Qed.
Lemma Paid_loop {A} c (body : N -> P A) n :
  (forall i, Paid c (body i)) -> Paid c (loop body n).
Proof. intros Hb brk s. exact (Paid_loop_fuel c body n Hb _ _ brk s). Qed.

(* the loop lemma of the task *)
Lemma Bounded_loop {A} c (body : N -> P A) n :
  (forall i brk s,
     match body i brk s with
     | Done _ s' => lenN (hi s') + 3 * lenN (inp s') <= lenN (hi s) + 3 * lenN (inp s)
     | Fail _ h => lenN h <= lenN (hi s) + 3 * lenN (inp s) + c
     | Stuck => True
     end) ->
  Bounded c (loop body n).
Proof. intros Hb. apply Paid_Bounded, Paid_loop. exact Hb. Qed.

(** ** signed accounting: [Acct d c p]
   on success the potential changes by at most [d] (negative: bytes were consumed
   that pay for later callbacks), on failure at most [c] callbacks are unpaid.
   [Bounded c p <-> Acct c c p], [Paid c p <-> Acct 0 c p].  Working in Z makes the
   bind rule exact and lets the constants be computed from the goal. *)
Definition Acct {A} (d c : Z) (p : P A) : Prop := forall brk s,
  match p brk s with
  | Done _ s' => (Z.of_N (pot s') <= Z.of_N (pot s) + d)%Z
  | Fail _ h => (Z.of_N (lenN h) <= Z.of_N (pot s) + c)%Z
  | Stuck => True
  end.

Lemma Acct_Bounded {A} (c : N) (p : P A) : Acct (Z.of_N c) (Z.of_N c) p <-> Bounded c p.
Proof.
  split; intros Hp brk s; specialize (Hp brk s); destruct (p brk s) as [a s'|e h|];
    try exact I; unfold pot in *; lia.
Qed.
Lemma Acct_Paid {A} (c : N) (p : P A) : Acct 0 (Z.of_N c) p <-> Paid c p.
Proof.
  split; intros Hp brk s; specialize (Hp brk s); destruct (p brk s) as [a s'|e h|];
    try exact I; unfold pot in *; lia.
Qed.
Lemma Acct_weaken {A} d c d' c' (p : P A) :
  Acct d c p -> (d <= d')%Z -> (c <= c')%Z -> Acct d' c' p.
Proof.
  intros Hp Hd Hc brk s. specialize (Hp brk s). destruct (p brk s) as [a s'|e h|]; [lia|lia|exact I].
Qed.
Lemma Acct_Bounded_le {A} d c (k : N) (p : P A) :
  Acct d c p -> (d <= Z.of_N k)%Z -> (c <= Z.of_N k)%Z -> Bounded k p.
Proof. intros Hp Hd Hc. apply Acct_Bounded. eapply Acct_weaken; eassumption. Qed.

Lemma Acct_ret {A} (a : A) : Acct 0 0 (ret a).
Proof. intros brk s. cbn [ret]. lia. Qed.
Lemma Acct_fail {A} e : Acct 0 0 (@fail A e).
Proof. intros brk s. cbn [fail]. unfold pot. lia. Qed.
Lemma Acct_get_pos : Acct 0 0 get_pos.
Proof. intros brk s. cbn [get_pos]. lia. Qed.
(* [take n] consumes exactly n bytes *)
Lemma Acct_take n : Acct (-3 * Z.of_N n) 0 (take n).
Proof.
  intros brk s. unfold take. destruct (splitN (inp s) n) as [[a b]|] eqn:E; unfold pot; [|lia].
  apply splitN_Some in E. destruct E as [E1 E2]. cbn [hi inp]. rewrite E1, lenN_app. lia.
Qed.
Lemma Acct_emitp e : Acct 1 1 (emitp e).
Proof.
  intros brk s. unfold emitp, pot.
  destruct (breakable e && brk (hi s) e); cbn [hi inp]; rewrite lenN_cons; lia.
Qed.
Lemma Acct_stuck {A} d c : Acct d c (fun _ _ => @Stuck A).
Proof. intros brk s. exact I. Qed.
(* exact bind rule *)
Lemma Acct_bind {A B} d1 c1 d2 c2 (p : P A) (f : A -> P B) :
  Acct d1 c1 p -> (forall a, Acct d2 c2 (f a)) ->
  Acct (d1 + d2) (Z.max c1 (d1 + c2)) (bind p f).
Proof.
  intros Hp Hf brk s. unfold bind. specialize (Hp brk s).
  destruct (p brk s) as [a s'|e h|]; [|lia|exact I].
  specialize (Hf a brk s'). destruct (f a brk s') as [b s''|e h|]; [lia|lia|exact I].
Qed.
(* goal-directed bind rule: the constants of the continuation are computed from
   those of the goal and of the first parser *)
Lemma Acct_bind_g {A B} d1 c1 d c (p : P A) (f : A -> P B) :
  Acct d1 c1 p -> (c1 <= c)%Z -> (forall a, Acct (d - d1) (c - d1) (f a)) ->
  Acct d c (bind p f).
Proof.
  intros Hp Hc Hf brk s. unfold bind. specialize (Hp brk s).
  destruct (p brk s) as [a s'|e h|]; [|lia|exact I].
  specialize (Hf a brk s'). destruct (f a brk s') as [b s''|e h|]; [lia|lia|exact I].
Qed.
Lemma Acct_ret_g {A} d c (a : A) : (0 <= d)%Z -> Acct d c (ret a).
Proof. intros Hd brk s. cbn [ret]. lia. Qed.
Lemma Acct_fail_g {A} d c e : (0 <= c)%Z -> Acct d c (@fail A e).
Proof. intros Hc brk s. cbn [fail]. unfold pot. lia. Qed.

Lemma Acct_loop_fuel {A} c (body : N -> P A) n :
  (0 <= c)%Z -> (forall i, Acct 0 c (body i)) -> forall fuel i, Acct 0 c (loop_fuel fuel body i n).
Proof.
  intros Hc Hb fuel; induction fuel as [|f IH]; intros i; cbn [loop_fuel];
    destruct (i <? n); try (apply Acct_ret_g; lia); [apply Acct_stuck|].
  eapply Acct_bind_g; [apply Hb|lia|]. intros x.
  eapply Acct_bind_g; [apply IH|lia|]. intros r. apply Acct_ret_g. lia.
Qed.
Lemma Acct_loop {A} c (body : N -> P A) n :
  (0 <= c)%Z -> (forall i, Acct 0 c (body i)) -> Acct 0 c (loop body n).
Proof. intros Hc Hb brk s. exact (Acct_loop_fuel c body n Hc Hb _ _ brk s). Qed.

Create HintDb acct discriminated.
#[export] Hint Resolve Acct_get_pos Acct_take Acct_emitp : acct.

(* [acct_tac]: walk down a parser; at each bind the first parser is accounted
   with a known lemma (hint db [acct]) and the rest with what is left *)
Ltac acct_tac :=
  repeat first
    [ apply Acct_ret_g; lia
    | apply Acct_fail_g; lia
    | eapply Acct_bind_g; [ solve [eauto 1 with acct] | lia | ]
    | eapply Acct_weaken; [ solve [eauto 1 with acct] | lia | lia ]
    | intro_forall
    | progress cbv beta
    | dmatch ].

Lemma r_u_Acct w : Acct (-3 * Z.of_N w) 0 (r_u w).
Proof. unfold r_u. acct_tac. Qed.
#[export] Hint Resolve r_u_Acct : acct.
(* a compact size consumes at least one byte *)
Lemma r_compact_Acct : Acct (-3) 0 r_compact.
Proof. unfold r_compact. acct_tac. Qed.
#[export] Hint Resolve r_compact_Acct : acct.
Lemma r_script_pos_Acct : Acct (-3) 0 r_script_pos.
Proof. unfold r_script_pos. acct_tac. Qed.
#[export] Hint Resolve r_script_pos_Acct : acct.
Lemma r_script_Acct : Acct (-3) 0 r_script.
Proof. unfold r_script. acct_tac. Qed.
#[export] Hint Resolve r_script_Acct : acct.
Lemma r_outpoint_Acct : Acct (-108) 0 r_outpoint.
Proof. unfold r_outpoint. acct_tac. Qed.
#[export] Hint Resolve r_outpoint_Acct : acct.
Lemma r_txin_ev_Acct i : Acct (-123) 0 (r_txin_ev i).
Proof. unfold r_txin_ev. acct_tac. Qed.
#[export] Hint Resolve r_txin_ev_Acct : acct.
Lemma r_txin_Acct : Acct (-123) 0 r_txin.
Proof. unfold r_txin. acct_tac. Qed.
#[export] Hint Resolve r_txin_Acct : acct.
Lemma r_txout_ev_Acct i : Acct (-27) 0 (r_txout_ev i).
Proof. unfold r_txout_ev. acct_tac. Qed.
#[export] Hint Resolve r_txout_ev_Acct : acct.
Lemma r_txout_Acct : Acct (-27) 0 r_txout.
Proof. unfold r_txout. acct_tac. Qed.
#[export] Hint Resolve r_txout_Acct : acct.

(* the three item loops: every item callback is paid for by the item's own bytes *)
Lemma txins_loop_Acct n :
  Acct 0 0 (loop (fun i => bind (r_txin_ev i) (fun x => let '(x, e) := x in bind (emitp e) (fun _ => ret x))) n).
Proof. apply Acct_loop; [lia|]. intros i. acct_tac. Qed.
Lemma txouts_loop_Acct n :
  Acct 0 0 (loop (fun i => bind (r_txout_ev i) (fun x => let '(x, e) := x in bind (emitp e) (fun _ => ret x))) n).
Proof. apply Acct_loop; [lia|]. intros i. acct_tac. Qed.
Lemma witness_loop_Acct n :
  Acct 0 0 (loop (fun i => bind r_script_pos (fun x => let '(d, e) := x in
                       bind (emitp (EWitnessElem i (d, lenN e))) (fun _ => ret e))) n).
Proof. apply Acct_loop; [lia|]. intros i. acct_tac. Qed.
#[export] Hint Resolve txins_loop_Acct txouts_loop_Acct witness_loop_Acct : acct.

(* count byte (3 credits) pays for the ETxIns / ETxOuts / EWitnessTotal callback *)
Lemma r_txins_Acct : Acct (-2) 0 r_txins.
Proof. unfold r_txins. acct_tac. Qed.
#[export] Hint Resolve r_txins_Acct : acct.
Lemma r_txouts_Acct : Acct (-2) 0 r_txouts.
Proof. unfold r_txouts. acct_tac. Qed.
#[export] Hint Resolve r_txouts_Acct : acct.
Lemma r_witness_Acct : Acct (-2) 0 r_witness.
Proof. unfold r_witness. acct_tac. Qed.
#[export] Hint Resolve r_witness_Acct : acct.

(* one witness: begin + total + end = 3 callbacks for (at least) one byte; if the
   input ends right after the begin callback, that one callback is unpaid *)
Lemma r_witnesses_Acct n : Acct 0 1 (r_witnesses n).
Proof. unfold r_witnesses. apply Acct_loop; [lia|]. intros i. acct_tac. Qed.
#[export] Hint Resolve r_witnesses_Acct : acct.

Lemma r_tx_Acct : Acct (-27) 0 r_tx.
Proof. unfold r_tx. acct_tac. Qed.
#[export] Hint Resolve r_tx_Acct : acct.
Lemma r_header_Acct : Acct (-239) 0 r_header.
Proof. unfold r_header. acct_tac. Qed.
#[export] Hint Resolve r_header_Acct : acct.
Lemma txs_loop_Acct n : Acct 0 0 (loop (fun _ : N => r_tx) n).
Proof. apply Acct_loop; [lia|]. intros i. eapply Acct_weaken; [apply r_tx_Acct|lia|lia]. Qed.
#[export] Hint Resolve txs_loop_Acct : acct.
Lemma r_block_Acct : Acct (-241) 0 r_block.
Proof. unfold r_block. acct_tac. Qed.
#[export] Hint Resolve r_block_Acct : acct.

(** ** the [Bounded] instances.  Every decoder except [r_witnesses] is [Bounded 0]:
   the number of callbacks never exceeds 3 * (bytes read so far). *)
Ltac bounded_from H := eapply Acct_Bounded_le; [apply H|lia|lia].

Lemma r_u_Bounded w : Bounded 0 (r_u w).
Proof. bounded_from (r_u_Acct w). Qed.
Lemma r_compact_Bounded : Bounded 0 r_compact.
Proof. bounded_from r_compact_Acct. Qed.
Lemma r_script_pos_Bounded : Bounded 0 r_script_pos.
Proof. bounded_from r_script_pos_Acct. Qed.
Lemma r_script_Bounded : Bounded 0 r_script.
Proof. bounded_from r_script_Acct. Qed.
Lemma r_outpoint_Bounded : Bounded 0 r_outpoint.
Proof. bounded_from r_outpoint_Acct. Qed.
Lemma r_txin_ev_Bounded i : Bounded 0 (r_txin_ev i).
Proof. bounded_from (r_txin_ev_Acct i). Qed.
Lemma r_txin_Bounded : Bounded 0 r_txin.
Proof. bounded_from r_txin_Acct. Qed.
Lemma r_txout_ev_Bounded i : Bounded 0 (r_txout_ev i).
Proof. bounded_from (r_txout_ev_Acct i). Qed.
Lemma r_txout_Bounded : Bounded 0 r_txout.
Proof. bounded_from r_txout_Acct. Qed.
Lemma r_txins_Bounded : Bounded 0 r_txins.
Proof. bounded_from r_txins_Acct. Qed.
Lemma r_txouts_Bounded : Bounded 0 r_txouts.
Proof. bounded_from r_txouts_Acct. Qed.
Lemma r_witness_Bounded : Bounded 0 r_witness.
Proof. bounded_from r_witness_Acct. Qed.
Lemma r_witnesses_Bounded n : Bounded 1 (r_witnesses n).
Proof. bounded_from (r_witnesses_Acct n). Qed.
Lemma r_tx_Bounded : Bounded 0 r_tx.
Proof. bounded_from r_tx_Acct. Qed.
Lemma r_header_Bounded : Bounded 0 r_header.
Proof. bounded_from r_header_Acct. Qed.
Lemma r_block_Bounded : Bounded 0 r_block.
Proof. bounded_from r_block_Acct. Qed.

(* the constants asked for in the task follow by weakening *)
Lemma r_txins_Bounded1 : Bounded 1 r_txins.
Proof. apply (Bounded_weaken 0); [lia|apply r_txins_Bounded]. Qed.
Lemma r_txouts_Bounded1 : Bounded 1 r_txouts.
Proof. apply (Bounded_weaken 0); [lia|apply r_txouts_Bounded]. Qed.
Lemma r_witness_Bounded1 : Bounded 1 r_witness.
Proof. apply (Bounded_weaken 0); [lia|apply r_witness_Bounded]. Qed.
Lemma r_witnesses_Bounded3 n : Bounded 3 (r_witnesses n).
Proof. apply (Bounded_weaken 1); [lia|apply r_witnesses_Bounded]. Qed.

(* the "paid" form of the same facts (what a caller's loop needs) *)
Lemma r_tx_Paid : Paid 0 r_tx.
Proof. apply Acct_Paid. eapply Acct_weaken; [apply r_tx_Acct|lia|lia]. Qed.
Lemma r_witnesses_Paid n : Paid 1 (r_witnesses n).
Proof. apply Acct_Paid. apply r_witnesses_Acct. Qed.

(* [Bounded 1] is optimal for [r_witnesses]: on the empty input the begin callback
   of the first witness is delivered before MoreBytesNeeded *)
Example r_witnesses_not_Bounded0 : ~ Bounded 0 (r_witnesses 1).
Proof.
  intros H. specialize (H never {| pos := 0; inp := []; hi := [] |}).
  vm_compute in H. apply H. reflexivity.
Qed.
(* the factor 3 is optimal: an empty witness is one byte and three callbacks *)
Example r_witnesses_three_per_byte :
  r_witnesses 2 never {| pos := 0; inp := [x00; x00]; hi := [] |} =
  Done [[]; []] {| pos := 2; inp := [];
                   hi := [EWitnessEnd; EWitnessTotal 0; EWitness 1;
                          EWitnessEnd; EWitnessTotal 0; EWitness 0] |}.
Proof. vm_compute. reflexivity. Qed.

(** ** the informal claim: callbacks <= 3 * (bytes consumed), for a run from the
   empty history on input [b] *)
Theorem Bounded_run {A} c (p : P A) : Bounded c p ->
  forall brk off0 b,
    match run_ref p brk off0 b [] with
    | Done _ s' => lenN (hi s') + 3 * lenN (inp s') <= 3 * lenN b + c
    | Fail _ h => lenN h <= 3 * lenN b + c
    | Stuck => True
    end.
Proof.
  intros Hp brk off0 b. unfold run_ref. specialize (Hp brk {| pos := off0; inp := b; hi := [] |}).
  cbn [hi inp] in Hp. change (lenN (@nil event)) with 0 in Hp.
  destruct (p brk {| pos := off0; inp := b; hi := [] |}) as [a s'|e h|]; [lia|lia|exact I].
Qed.

Corollary r_block_callbacks brk off0 b :
  match run_ref r_block brk off0 b [] with
  | Done _ s' => lenN (hi s') + 3 * lenN (inp s') <= 3 * lenN b
  | Fail _ h => lenN h <= 3 * lenN b
  | Stuck => True
  end.
Proof.
  pose proof (Bounded_run 0 r_block r_block_Bounded brk off0 b) as H.
  destruct (run_ref r_block brk off0 b []) as [a s'|e h|]; [lia|lia|exact I].
Qed.
Corollary r_tx_callbacks brk off0 b :
  match run_ref r_tx brk off0 b [] with
  | Done _ s' => lenN (hi s') + 3 * lenN (inp s') <= 3 * lenN b
  | Fail _ h => lenN h <= 3 * lenN b
  | Stuck => True
  end.
Proof.
  pose proof (Bounded_run 0 r_tx r_tx_Bounded brk off0 b) as H.
  destruct (run_ref r_tx brk off0 b []) as [a s'|e h|]; [lia|lia|exact I].
Qed.

(* ------------------------------------------------------------------ *)
(** * 5. corollaries of [Breaks]                                        *)

(** ** the never-breaking run never reports VisitBreak *)
Definition NoSpontaneousBreak {A} (p : P A) : Prop :=
  forall s h, p never s <> Fail VisitBreak h.

Lemma NSB_ret {A} (a : A) : NoSpontaneousBreak (ret a).
Proof. intros s h. discriminate. Qed.
Lemma NSB_fail {A} e : e <> VisitBreak -> NoSpontaneousBreak (@fail A e).
Proof. intros Ne s h E. injection E as E _. contradiction. Qed.
Lemma NSB_get_pos : NoSpontaneousBreak get_pos.
Proof. intros s h. discriminate. Qed.
Lemma NSB_take n : NoSpontaneousBreak (take n).
Proof. intros s h. unfold take. destruct (splitN (inp s) n) as [[a b]|]; discriminate. Qed.
Lemma NSB_emitp e : NoSpontaneousBreak (emitp e).
Proof. intros s h. unfold emitp, never. rewrite andb_false_r. discriminate. Qed.
Lemma NSB_bind {A B} (p : P A) (f : A -> P B) :
  NoSpontaneousBreak p -> (forall a, NoSpontaneousBreak (f a)) -> NoSpontaneousBreak (bind p f).
Proof.
  intros Hp Hf s h. unfold bind. specialize (Hp s).
  destruct (p never s) as [a s'|e h'|]; [apply Hf| |discriminate].
  intros E. injection E as -> ->. exact (Hp h eq_refl).
Qed.
Lemma NSB_stuck {A} : NoSpontaneousBreak (fun _ _ => @Stuck A).
Proof. intros s h. discriminate. Qed.
Lemma NSB_loop_fuel {A} (body : N -> P A) n :
  (forall i, NoSpontaneousBreak (body i)) -> forall fuel i, NoSpontaneousBreak (loop_fuel fuel body i n).
Proof.
  intros Hb fuel; induction fuel as [|f IH]; intros i; cbn [loop_fuel];
    destruct (i <? n); try apply NSB_ret; [apply NSB_stuck|].
  apply NSB_bind; [apply Hb|]. intros x.
  apply NSB_bind; [apply IH|]. intros r. apply NSB_ret.
Qed.
Lemma NSB_loop {A} (body : N -> P A) n :
  (forall i, NoSpontaneousBreak (body i)) -> NoSpontaneousBreak (loop body n).
Proof. intros Hb s h. exact (NSB_loop_fuel body n Hb _ _ s h). Qed.

Create HintDb nsb discriminated.
#[export] Hint Resolve NSB_ret NSB_get_pos NSB_take NSB_emitp : nsb.

Ltac nsb_tac :=
  repeat first
    [ solve [auto 1 with nsb]
    | apply NSB_fail; discriminate
    | apply NSB_bind
    | apply NSB_loop
    | intro_forall
    | progress cbv beta
    | dmatch ].

Lemma r_u_NSB w : NoSpontaneousBreak (r_u w).
Proof. unfold r_u. nsb_tac. Qed.
#[export] Hint Resolve r_u_NSB : nsb.
Lemma r_compact_NSB : NoSpontaneousBreak r_compact.
Proof. unfold r_compact. nsb_tac. Qed.
#[export] Hint Resolve r_compact_NSB : nsb.
Lemma r_script_pos_NSB : NoSpontaneousBreak r_script_pos.
Proof. unfold r_script_pos. nsb_tac. Qed.
#[export] Hint Resolve r_script_pos_NSB : nsb.
Lemma r_script_NSB : NoSpontaneousBreak r_script.
Proof. unfold r_script. nsb_tac. Qed.
#[export] Hint Resolve r_script_NSB : nsb.
Lemma r_outpoint_NSB : NoSpontaneousBreak r_outpoint.
Proof. unfold r_outpoint. nsb_tac. Qed.
#[export] Hint Resolve r_outpoint_NSB : nsb.
Lemma r_txin_ev_NSB i : NoSpontaneousBreak (r_txin_ev i).
Proof. unfold r_txin_ev. nsb_tac. Qed.
#[export] Hint Resolve r_txin_ev_NSB : nsb.
Lemma r_txin_NSB : NoSpontaneousBreak r_txin.
Proof. unfold r_txin. nsb_tac. Qed.
#[export] Hint Resolve r_txin_NSB : nsb.
Lemma r_txout_ev_NSB i : NoSpontaneousBreak (r_txout_ev i).
Proof. unfold r_txout_ev. nsb_tac. Qed.
#[export] Hint Resolve r_txout_ev_NSB : nsb.
Lemma r_txout_NSB : NoSpontaneousBreak r_txout.
Proof. unfold r_txout. nsb_tac. Qed.
#[export] Hint Resolve r_txout_NSB : nsb.
Lemma r_txins_NSB : NoSpontaneousBreak r_txins.
Proof. unfold r_txins. nsb_tac. Qed.
#[export] Hint Resolve r_txins_NSB : nsb.
Lemma r_txouts_NSB : NoSpontaneousBreak r_txouts.
Proof. unfold r_txouts. nsb_tac. Qed.
#[export] Hint Resolve r_txouts_NSB : nsb.
Lemma r_witness_NSB : NoSpontaneousBreak r_witness.
Proof. unfold r_witness. nsb_tac. Qed.
#[export] Hint Resolve r_witness_NSB : nsb.
Lemma r_witnesses_NSB n : NoSpontaneousBreak (r_witnesses n).
Proof. unfold r_witnesses. nsb_tac. Qed.
#[export] Hint Resolve r_witnesses_NSB : nsb.
Lemma r_tx_NSB : NoSpontaneousBreak r_tx.
Proof. unfold r_tx. nsb_tac. Qed.
#[export] Hint Resolve r_tx_NSB : nsb.
Lemma r_header_NSB : NoSpontaneousBreak r_header.
Proof. unfold r_header. nsb_tac. Qed.
#[export] Hint Resolve r_header_NSB : nsb.
Lemma r_block_NSB : NoSpontaneousBreak r_block.
Proof. unfold r_block. nsb_tac. Qed.
#[export] Hint Resolve r_block_NSB : nsb.

Theorem never_no_break {A} (p : P A) :
  NoSpontaneousBreak p -> forall s h, p never s <> Fail VisitBreak h.
Proof. intros H. exact H. Qed.

(* [fail VisitBreak] itself satisfies [Breaks] but not [NoSpontaneousBreak]:
   the side condition in [NSB_fail] is necessary *)
Example fail_VisitBreak_spontaneous : ~ NoSpontaneousBreak (@fail unit VisitBreak).
Proof. intros H. exact (H {| pos := 0; inp := []; hi := [] |} [] eq_refl). Qed.

(** ** the event list of a run is determined by the never-breaking run *)
Lemma rev_app_inj {A} (d d' h : list A) : rev d ++ h = rev d' ++ h -> d = d'.
Proof.
  intros E. apply app_inv_tail in E.
  rewrite <- (rev_involutive d), <- (rev_involutive d'), E. reflexivity.
Qed.

(* [Breaks], with the event list named by the caller *)
Lemma Breaks_with {A} (p : P A) : Breaks p ->
  forall brk s d, out_hist (p never s) = Some (rev d ++ hi s) ->
    p brk s = match cut brk (hi s) d with
              | Some hb => Fail VisitBreak hb
              | None => p never s
              end.
Proof.
  intros Hp brk s d Ho.
  destruct (Hp brk s) as [d' [Ho' Hb]].
  { intros E. rewrite E in Ho. discriminate. }
  rewrite Ho in Ho'. injection Ho' as E. apply rev_app_inj in E. subst d'. exact Hb.
Qed.

(** ** break precedence: when the cut fires, the run under [brk] is
   [Fail VisitBreak hb], whatever the never-breaking run is ([Done] or any [Fail],
   e.g. a MoreBytesNeeded or a grammar error that comes later in the stream) *)
Theorem break_precedence {A} (p : P A) : Breaks p ->
  forall brk s d hb,
    out_hist (p never s) = Some (rev d ++ hi s) ->
    cut brk (hi s) d = Some hb ->
    p brk s = Fail VisitBreak hb.
Proof.
  intros Hp brk s d hb Ho Hc. rewrite (Breaks_with p Hp brk s d Ho), Hc. reflexivity.
Qed.

(* the two shapes of the never-run, spelled out *)
Corollary break_precedence_Done {A} (p : P A) : Breaks p ->
  forall brk s a s' d hb,
    p never s = Done a s' -> hi s' = rev d ++ hi s ->
    cut brk (hi s) d = Some hb -> p brk s = Fail VisitBreak hb.
Proof.
  intros Hp brk s a s' d hb En Hh Hc. apply (break_precedence p Hp brk s d hb); [|exact Hc].
  rewrite En. cbn [out_hist]. rewrite Hh. reflexivity.
Qed.
Corollary break_precedence_Fail {A} (p : P A) : Breaks p ->
  forall brk s e h d hb,
    p never s = Fail e h -> h = rev d ++ hi s ->
    cut brk (hi s) d = Some hb -> p brk s = Fail VisitBreak hb.
Proof.
  intros Hp brk s e h d hb En Hh Hc. apply (break_precedence p Hp brk s d hb); [|exact Hc].
  rewrite En. cbn [out_hist]. rewrite Hh. reflexivity.
Qed.

(* conversely: no cut, same run *)
Theorem no_cut_same {A} (p : P A) : Breaks p ->
  forall brk s d,
    out_hist (p never s) = Some (rev d ++ hi s) ->
    cut brk (hi s) d = None ->
    p brk s = p never s.
Proof.
  intros Hp brk s d Ho Hc. rewrite (Breaks_with p Hp brk s d Ho), Hc. reflexivity.
Qed.

(* where a run under [brk] stops when it breaks: at an extension of the start
   history that is a prefix of the never-breaking history *)
Theorem break_history {A} (p : P A) : Breaks p ->
  forall brk s, p never s <> Stuck ->
    p brk s = p never s \/
    exists hb hn, p brk s = Fail VisitBreak hb /\ out_hist (p never s) = Some hn /\
                  ext_hist (hi s) hb /\ ext_hist hb hn.
Proof.
  intros Hp brk s Hns. destruct (Hp brk s Hns) as [d [Ho Hb]].
  destruct (cut brk (hi s) d) as [hb|] eqn:Ec; [right|left; exact Hb].
  exists hb, (rev d ++ hi s). repeat split; try assumption.
  - eapply cut_Some_ext; eassumption.
  - eapply cut_Some_prefix; eassumption.
Qed.

(** ** a visitor that never breaks *)
Theorem nonbreaking_same_weak {A} (p : P A) : Breaks p ->
  forall brk s, (forall h e, breakable e = true -> brk h e = false) ->
    p never s <> Stuck -> p brk s = p never s.
Proof.
  intros Hp brk s Hn Hns. destruct (Hp brk s Hns) as [d [Ho Hb]].
  rewrite Hb, cut_nonbreaking by exact Hn. reflexivity.
Qed.
Theorem nonbreaking_same {A} (p : P A) : Breaks p ->
  forall brk s, (forall h e, brk h e = false) -> p never s <> Stuck -> p brk s = p never s.
Proof.
  intros Hp brk s Hn Hns. apply nonbreaking_same_weak; try assumption.
  intros h e _. apply Hn.
Qed.
(* without the Stuck side condition, from oracle extensionality *)
Theorem nonbreaking_same_ext {A} (p : P A) : OracleExt p ->
  forall brk s, (forall h e, breakable e = true -> brk h e = false) -> p brk s = p never s.
Proof. intros Hp brk s Hn. apply Hp. intros h e Hb. rewrite (Hn h e Hb). reflexivity. Qed.

(* ------------------------------------------------------------------ *)
(** * 6. progress: the decoders are never Stuck, so the Stuck side conditions
   above can be discharged for them.  (Local version; [Prog d p]: [p] is never
   Stuck and on success the remaining input changes by at most [d] <= 0 bytes.) *)
Definition Prog {A} (d : Z) (p : P A) : Prop := forall brk s,
  match p brk s with
  | Done _ s' => (Z.of_N (lenN (inp s')) <= Z.of_N (lenN (inp s)) + d)%Z
  | Fail _ _ => True
  | Stuck => False
  end.

Lemma Prog_NoStuck {A} d (p : P A) : Prog d p -> NoStuck p.
Proof. intros Hp brk s E. specialize (Hp brk s). rewrite E in Hp. exact Hp. Qed.
Lemma Prog_weaken {A} d d' (p : P A) : Prog d p -> (d <= d')%Z -> Prog d' p.
Proof.
  intros Hp Hd brk s. specialize (Hp brk s). destruct (p brk s) as [a s'|e h|]; [lia|exact I|exact Hp].
Qed.
Lemma Prog_ret_g {A} d (a : A) : (0 <= d)%Z -> Prog d (ret a).
Proof. intros Hd brk s. cbn [ret]. lia. Qed.
Lemma Prog_fail_g {A} d e : Prog d (@fail A e).
Proof. intros brk s. exact I. Qed.
Lemma Prog_get_pos : Prog 0 get_pos.
Proof. intros brk s. cbn [get_pos]. lia. Qed.
Lemma Prog_take n : Prog (- Z.of_N n) (take n).
Proof.
  intros brk s. unfold take. destruct (splitN (inp s) n) as [[a b]|] eqn:E; [|exact I].
  apply splitN_Some in E. destruct E as [E1 E2]. cbn [inp]. rewrite E1, lenN_app. lia.
Qed.
Lemma Prog_emitp e : Prog 0 (emitp e).
Proof.
  intros brk s. unfold emitp. destruct (breakable e && brk (hi s) e); [exact I|]. cbn [inp]. lia.
Qed.
Lemma Prog_bind_g {A B} d1 d (p : P A) (f : A -> P B) :
  Prog d1 p -> (forall a, Prog (d - d1) (f a)) -> Prog d (bind p f).
Proof.
  intros Hp Hf brk s. unfold bind. specialize (Hp brk s).
  destruct (p brk s) as [a s'|e h|]; [|exact I|exact Hp].
  specialize (Hf a brk s'). destruct (f a brk s') as [b s''|e h|]; [lia|exact I|exact Hf].
Qed.
(* with more fuel than bytes left and bodies that consume at least one byte the
   loop cannot run out of fuel *)
Lemma Prog_loop_fuel {A} (body : N -> P A) n :
  (forall i, Prog (-1) (body i)) ->
  forall fuel i brk s, (length (inp s) < fuel)%nat ->
    match loop_fuel fuel body i n brk s with
    | Done _ s' => lenN (inp s') <= lenN (inp s)
    | Fail _ _ => True
    | Stuck => False
    end.
Proof.
  intros Hb fuel; induction fuel as [|f IH]; intros i brk s Hf; [lia|].
  cbn [loop_fuel]. destruct (i <? n); [|cbn [ret]; lia].
  unfold bind. specialize (Hb i brk s).
  destruct (body i brk s) as [x s1|e h|]; [|exact I|exact Hb].
  assert (Hf1 : (length (inp s1) < f)%nat) by (unfold lenN in Hb; lia).
  specialize (IH (i + 1) brk s1 Hf1).
  destruct (loop_fuel f body (i + 1) n brk s1) as [r s2|e h|]; [|exact I|exact IH].
  cbn [ret]. unfold lenN in *. lia.
Qed.
Lemma Prog_loop {A} (body : N -> P A) n :
  (forall i, Prog (-1) (body i)) -> Prog 0 (loop body n).
Proof.
  intros Hb brk s. unfold loop.
  pose proof (Prog_loop_fuel body n Hb (S (length (inp s))) 0 brk s (Nat.lt_succ_diag_r _)) as H.
  destruct (loop_fuel (S (length (inp s))) body 0 n brk s) as [r s'|e h|]; [lia|exact I|exact H].
Qed.

Create HintDb prog discriminated.
#[export] Hint Resolve Prog_get_pos Prog_take Prog_emitp : prog.

Ltac prog_tac :=
  repeat first
    [ apply Prog_ret_g; lia
    | apply Prog_fail_g
    | eapply Prog_bind_g; [ solve [eauto 1 with prog] | ]
    | eapply Prog_weaken; [ solve [eauto 1 with prog] | lia ]
    | intro_forall
    | progress cbv beta
    | dmatch ].

Lemma r_u_Prog w : Prog (- Z.of_N w) (r_u w).
Proof. unfold r_u. prog_tac. Qed.
#[export] Hint Resolve r_u_Prog : prog.
Lemma r_compact_Prog : Prog (-1) r_compact.
Proof. unfold r_compact. prog_tac. Qed.
#[export] Hint Resolve r_compact_Prog : prog.
Lemma r_script_pos_Prog : Prog (-1) r_script_pos.
Proof. unfold r_script_pos. prog_tac. Qed.
#[export] Hint Resolve r_script_pos_Prog : prog.
Lemma r_script_Prog : Prog (-1) r_script.
Proof. unfold r_script. prog_tac. Qed.
#[export] Hint Resolve r_script_Prog : prog.
Lemma r_outpoint_Prog : Prog (-36) r_outpoint.
Proof. unfold r_outpoint. prog_tac. Qed.
#[export] Hint Resolve r_outpoint_Prog : prog.
Lemma r_txin_ev_Prog i : Prog (-41) (r_txin_ev i).
Proof. unfold r_txin_ev. prog_tac. Qed.
#[export] Hint Resolve r_txin_ev_Prog : prog.
Lemma r_txin_Prog : Prog (-41) r_txin.
Proof. unfold r_txin. prog_tac. Qed.
#[export] Hint Resolve r_txin_Prog : prog.
Lemma r_txout_ev_Prog i : Prog (-9) (r_txout_ev i).
Proof. unfold r_txout_ev. prog_tac. Qed.
#[export] Hint Resolve r_txout_ev_Prog : prog.
Lemma r_txout_Prog : Prog (-9) r_txout.
Proof. unfold r_txout. prog_tac. Qed.
#[export] Hint Resolve r_txout_Prog : prog.

Lemma txins_loop_Prog n :
  Prog 0 (loop (fun i => bind (r_txin_ev i) (fun x => let '(x, e) := x in bind (emitp e) (fun _ => ret x))) n).
Proof. apply Prog_loop. intros i. prog_tac. Qed.
Lemma txouts_loop_Prog n :
  Prog 0 (loop (fun i => bind (r_txout_ev i) (fun x => let '(x, e) := x in bind (emitp e) (fun _ => ret x))) n).
Proof. apply Prog_loop. intros i. prog_tac. Qed.
Lemma witness_loop_Prog n :
  Prog 0 (loop (fun i => bind r_script_pos (fun x => let '(d, e) := x in
                       bind (emitp (EWitnessElem i (d, lenN e))) (fun _ => ret e))) n).
Proof. apply Prog_loop. intros i. prog_tac. Qed.
#[export] Hint Resolve txins_loop_Prog txouts_loop_Prog witness_loop_Prog : prog.

Lemma r_txins_Prog : Prog (-1) r_txins.
Proof. unfold r_txins. prog_tac. Qed.
#[export] Hint Resolve r_txins_Prog : prog.
Lemma r_txouts_Prog : Prog (-1) r_txouts.
Proof. unfold r_txouts. prog_tac. Qed.
#[export] Hint Resolve r_txouts_Prog : prog.
Lemma r_witness_Prog : Prog (-1) r_witness.
Proof. unfold r_witness. prog_tac. Qed.
#[export] Hint Resolve r_witness_Prog : prog.
Lemma r_witnesses_Prog n : Prog 0 (r_witnesses n).
Proof. unfold r_witnesses. apply Prog_loop. intros i. prog_tac. Qed.
#[export] Hint Resolve r_witnesses_Prog : prog.
Lemma r_tx_Prog : Prog (-10) r_tx.
Proof. unfold r_tx. prog_tac. Qed.
#[export] Hint Resolve r_tx_Prog : prog.
Lemma r_header_Prog : Prog (-80) r_header.
Proof. unfold r_header. prog_tac. Qed.
#[export] Hint Resolve r_header_Prog : prog.
Lemma txs_loop_Prog n : Prog 0 (loop (fun _ : N => r_tx) n).
Proof. apply Prog_loop. intros i. eapply Prog_weaken; [apply r_tx_Prog|lia]. Qed.
#[export] Hint Resolve txs_loop_Prog : prog.
Lemma r_block_Prog : Prog (-81) r_block.
Proof. unfold r_block. prog_tac. Qed.
#[export] Hint Resolve r_block_Prog : prog.

(** ** the break law without side conditions *)
Definition BreakLaw {A} (p : P A) : Prop := forall brk s,
  exists d, out_hist (p never s) = Some (rev d ++ hi s) /\
            p brk s = match cut brk (hi s) d with
                      | Some hb => Fail VisitBreak hb
                      | None => p never s
                      end.

Lemma Breaks_BreakLaw {A} (p : P A) : Breaks p -> NoStuck p -> BreakLaw p.
Proof. intros Hp Hn brk s. apply Hp. apply Hn. Qed.

Theorem r_tx_BreakLaw : BreakLaw r_tx.
Proof. apply Breaks_BreakLaw; [apply r_tx_Breaks|eapply Prog_NoStuck, r_tx_Prog]. Qed.
Theorem r_header_BreakLaw : BreakLaw r_header.
Proof. apply Breaks_BreakLaw; [apply r_header_Breaks|eapply Prog_NoStuck, r_header_Prog]. Qed.
Theorem r_block_BreakLaw : BreakLaw r_block.
Proof. apply Breaks_BreakLaw; [apply r_block_Breaks|eapply Prog_NoStuck, r_block_Prog]. Qed.
Theorem r_txin_BreakLaw : BreakLaw r_txin.
Proof. apply Breaks_BreakLaw; [apply r_txin_Breaks|eapply Prog_NoStuck, r_txin_Prog]. Qed.
Theorem r_txout_BreakLaw : BreakLaw r_txout.
Proof. apply Breaks_BreakLaw; [apply r_txout_Breaks|eapply Prog_NoStuck, r_txout_Prog]. Qed.
Theorem r_txins_BreakLaw : BreakLaw r_txins.
Proof. apply Breaks_BreakLaw; [apply r_txins_Breaks|eapply Prog_NoStuck, r_txins_Prog]. Qed.
Theorem r_txouts_BreakLaw : BreakLaw r_txouts.
Proof. apply Breaks_BreakLaw; [apply r_txouts_Breaks|eapply Prog_NoStuck, r_txouts_Prog]. Qed.
Theorem r_witness_BreakLaw : BreakLaw r_witness.
Proof. apply Breaks_BreakLaw; [apply r_witness_Breaks|eapply Prog_NoStuck, r_witness_Prog]. Qed.
Theorem r_witnesses_BreakLaw n : BreakLaw (r_witnesses n).
Proof. apply Breaks_BreakLaw; [apply r_witnesses_Breaks|eapply Prog_NoStuck, r_witnesses_Prog]. Qed.
Theorem r_script_BreakLaw : BreakLaw r_script.
Proof. apply Breaks_BreakLaw; [apply r_script_Breaks|eapply Prog_NoStuck, r_script_Prog]. Qed.
Theorem r_outpoint_BreakLaw : BreakLaw r_outpoint.
Proof. apply Breaks_BreakLaw; [apply r_outpoint_Breaks|eapply Prog_NoStuck, r_outpoint_Prog]. Qed.
Theorem r_compact_BreakLaw : BreakLaw r_compact.
Proof. apply Breaks_BreakLaw; [apply r_compact_Breaks|eapply Prog_NoStuck, r_compact_Prog]. Qed.

(* under a breaking visitor a decode either is the never-breaking decode or stops
   with VisitBreak at a prefix of the never-breaking history, and then the visitor
   did answer Break to the last (breakable) callback delivered *)
Theorem BreakLaw_summary {A} (p : P A) : BreakLaw p -> forall brk s,
  p brk s = p never s \/
  exists hb hn, p brk s = Fail VisitBreak hb /\ out_hist (p never s) = Some hn /\
                ext_hist (hi s) hb /\ ext_hist hb hn /\
                exists e h', hb = e :: h' /\ breakable e = true /\ brk h' e = true.
Proof.
  intros Hp brk s. destruct (Hp brk s) as [d [Ho Hb]].
  destruct (cut brk (hi s) d) as [hb|] eqn:Ec; [right|left; exact Hb].
  exists hb, (rev d ++ hi s). repeat split; try assumption.
  - eapply cut_Some_ext; eassumption.
  - eapply cut_Some_prefix; eassumption.
  - destruct (cut_Some_inv _ _ _ _ Ec) as (d1 & e & d2 & _ & -> & Hbe & Hk & _).
    exists e, (rev d1 ++ hi s). repeat split; assumption.
Qed.
Corollary r_block_break_summary brk s :
  r_block brk s = r_block never s \/
  exists hb hn, r_block brk s = Fail VisitBreak hb /\ out_hist (r_block never s) = Some hn /\
                ext_hist (hi s) hb /\ ext_hist hb hn /\
                exists e h', hb = e :: h' /\ breakable e = true /\ brk h' e = true.
Proof. apply BreakLaw_summary, r_block_BreakLaw. Qed.
Corollary r_tx_break_summary brk s :
  r_tx brk s = r_tx never s \/
  exists hb hn, r_tx brk s = Fail VisitBreak hb /\ out_hist (r_tx never s) = Some hn /\
                ext_hist (hi s) hb /\ ext_hist hb hn /\
                exists e h', hb = e :: h' /\ breakable e = true /\ brk h' e = true.
Proof. apply BreakLaw_summary, r_tx_BreakLaw. Qed.
