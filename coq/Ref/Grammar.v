(* Ref/Grammar.v — the twelve decoders as streaming reference parsers.
   Each returns the abstract syntax of what it decoded and emits the callbacks
   of the corresponding visit. *)
From BS Require Export Ref.Stream Spec.Wire.
Open Scope N_scope.
Local Open Scope p_scope.

(* fixed-width little-endian integer *)
Definition r_u (w : N) : P N := b <- take w ;; ret (le_dec b).

(* compact size, minimal encodings only *)
Definition r_compact : P N :=
  x <- r_u 1 ;;
  if x <? 253 then ret x
  else if x =? 253 then n <- r_u 2 ;; if 253 <=? n then ret n else fail NonMinimalVarInt
  else if x =? 254 then n <- r_u 4 ;; if 65535 <? n then ret n else fail NonMinimalVarInt
  else n <- r_u 8 ;; if 4294967295 <? n then ret n else fail NonMinimalVarInt.

(* script: (offset of the script bytes, script bytes) *)
Definition r_script_pos : P (N * list byte) :=
  n <- r_compact ;; d <- get_pos ;; s <- take n ;; ret (d, s).
Definition r_script : P (list byte) := '(_, s) <- r_script_pos ;; ret s.

Definition r_outpoint : P (list byte * N) := t <- take 32 ;; v <- r_u 4 ;; ret (t, v).

(* an input, and the callback describing it *)
Definition r_txin_ev (i : N) : P (a_txin * event) :=
  p0 <- get_pos ;;
  '(t, v) <- r_outpoint ;;
  '(d, sg) <- r_script_pos ;;
  sq <- r_u 4 ;;
  p1 <- get_pos ;;
  ret ({| ai_txid := t; ai_vout := v; ai_sig := sg; ai_seq := sq |},
       ETxIn i (p0, p1 - p0) (p0, 36) (p0, 32) v (d, lenN sg) sq).
Definition r_txin : P a_txin := '(x, _) <- r_txin_ev 0 ;; ret x.

Definition r_txout_ev (i : N) : P (a_txout * event) :=
  p0 <- get_pos ;;
  v <- r_u 8 ;;
  '(d, spk) <- r_script_pos ;;
  p1 <- get_pos ;;
  ret ({| ao_value := v; ao_spk := spk |}, ETxOut i (p0, p1 - p0) v (d, lenN spk)).
Definition r_txout : P a_txout := '(x, _) <- r_txout_ev 0 ;; ret x.

Definition r_txins : P (list a_txin) :=
  n <- r_compact ;;
  _ <- emitp (ETxIns n) ;;
  loop (fun i => '(x, e) <- r_txin_ev i ;; _ <- emitp e ;; ret x) n.

Definition r_txouts : P (list a_txout) :=
  n <- r_compact ;;
  _ <- emitp (ETxOuts n) ;;
  loop (fun i => '(x, e) <- r_txout_ev i ;; _ <- emitp e ;; ret x) n.

Definition r_witness : P a_witness :=
  n <- r_compact ;;
  _ <- emitp (EWitnessTotal n) ;;
  loop (fun i => '(d, e) <- r_script_pos ;; _ <- emitp (EWitnessElem i (d, lenN e)) ;; ret e) n.

Definition r_witnesses (n : N) : P (list a_witness) :=
  loop (fun i => _ <- emitp (EWitness i) ;; w <- r_witness ;; _ <- emitp EWitnessEnd ;; ret w) n.

Definition r_tx : P a_tx :=
  p0 <- get_pos ;;
  ver <- r_u 4 ;;
  ins0 <- r_txins ;;
  match ins0 with
  | [] =>
      flag <- r_u 1 ;;
      if flag =? 1 then
        pI <- get_pos ;;
        ins <- r_txins ;;
        outs <- r_txouts ;;
        pW <- get_pos ;;
        ws <- r_witnesses (lenN ins) ;;
        if (match ins with [] => false | _ => true end) && all_empty ws
        then fail SegwitFlagWithoutWitnesses
        else
          lt <- r_u 4 ;;
          p1 <- get_pos ;;
          let io := pW - pI in
          _ <- emitp (ETransaction (p0, p1 - p0) (i32_of_n ver) lt (p0, 4) (p0 + 6, io) (p1 - 4, 4)
                                  ((io + 8) * 3 + (p1 - p0))) ;;
          ret {| at_version := i32_of_n ver; at_ins := ins; at_outs := outs; at_form := Segwit ws; at_locktime := lt |}
      else fail (UnknownSegwitFlag flag)
  | _ =>
      outs <- r_txouts ;;
      lt <- r_u 4 ;;
      p1 <- get_pos ;;
      _ <- emitp (ETransaction (p0, p1 - p0) (i32_of_n ver) lt (p0, p1 - p0) (0, 0) (0, 0) ((p1 - p0) * 4)) ;;
      ret {| at_version := i32_of_n ver; at_ins := ins0; at_outs := outs; at_form := Legacy; at_locktime := lt |}
  end.

Definition r_header : P a_header :=
  p0 <- get_pos ;;
  ver <- r_u 4 ;;
  prev <- take 32 ;;
  merkle <- take 32 ;;
  time <- r_u 4 ;;
  bits <- r_u 4 ;;
  nonce <- r_u 4 ;;
  _ <- emitp (EHeader (p0, 80) (i32_of_n ver) (p0 + 4, 32) (p0 + 36, 32) time nonce) ;;
  ret {| ah_version := i32_of_n ver; ah_prev := prev; ah_merkle := merkle; ah_time := time; ah_bits := bits; ah_nonce := nonce |}.

Definition r_block : P a_block :=
  h <- r_header ;;
  n <- r_compact ;;
  _ <- emitp (EBlockBegin n) ;;
  txs <- loop (fun _ => r_tx) n ;;
  ret {| ab_header := h; ab_txs := txs |}.

(* run a reference parser on a whole input at absolute offset p with history h *)
Definition run_ref {A} (p : P A) (brk : oracle) (off0 : N) (b : list byte) (h : hist) : outcome A :=
  p brk {| pos := off0; inp := b; hi := h |}.
