(* Ref/Stream.v — the streaming reference decoder monad.  [take] is the only
   way to read input, so a parser built from these primitives reads strictly
   left to right and can only report MoreBytesNeeded where the input ends. *)
From BS Require Export Impl.Events.
Open Scope N_scope.

Record st := { pos : N;              (* absolute offset of the next byte *)
               inp : list byte;      (* bytes not yet consumed *)
               hi : hist }.          (* callbacks so far, newest first *)

Inductive outcome (A : Type) :=
| Done (a : A) (s : st)
| Fail (e : error) (h : hist)
| Stuck.                              (* model-only: loop fuel exhausted; proved unreachable *)
Arguments Done {A} a s.
Arguments Fail {A} e h.
Arguments Stuck {A}.

Definition P (A : Type) := oracle -> st -> outcome A.

Definition ret {A} (a : A) : P A := fun _ s => Done a s.
Definition bind {A B} (p : P A) (f : A -> P B) : P B :=
  fun brk s => match p brk s with
               | Done a s' => f a brk s'
               | Fail e h => Fail e h
               | Stuck => Stuck
               end.
Definition fail {A} (e : error) : P A := fun _ s => Fail e (hi s).
Definition take (n : N) : P (list byte) :=
  fun _ s => match splitN (inp s) n with
             | Some (a, b) => Done a {| pos := pos s + n; inp := b; hi := hi s |}
             | None => Fail MoreBytesNeeded (hi s)
             end.
Definition get_pos : P N := fun _ s => Done (pos s) s.
Definition emitp (e : event) : P unit :=
  fun brk s => if breakable e && brk (hi s) e then Fail VisitBreak (e :: hi s)
               else Done tt {| pos := pos s; inp := inp s; hi := e :: hi s |}.

Declare Scope p_scope.
Delimit Scope p_scope with p.
Notation "x <- e ;; f" := (bind e (fun x => f))
  (at level 61, e at next level, right associativity) : p_scope.
Notation "' pat <- e ;; f" := (bind e (fun x => match x with pat => f end))
  (at level 61, pat pattern, e at next level, right associativity) : p_scope.

(* counted loop: items i, i+1, ..., n-1, results oldest first *)
Fixpoint loop_fuel {A} (fuel : nat) (body : N -> P A) (i n : N) : P (list A) :=
  if i <? n then
    match fuel with
    | O => fun _ _ => Stuck
    | S f => bind (body i) (fun x => bind (loop_fuel f body (i + 1) n) (fun r => ret (x :: r)))
    end
  else ret [].

(* fuel: one more than the number of bytes left — every body consumes at least one byte *)
Definition loop {A} (body : N -> P A) (n : N) : P (list A) :=
  fun brk s => loop_fuel (S (length (inp s))) body 0 n brk s.
