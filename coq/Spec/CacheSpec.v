(* Spec/CacheSpec.v — what the cache properties talk about: histories of
   insertions, the successful ones, which keys are retrievable. *)
From BS Require Export Impl.Cache.
Open Scope N_scope.

Definition ins := (N * list byte)%type.

(* run a list of insertions from state [c]; [hist] accumulates the successful
   insertions, oldest first.  None = some operation panicked. *)
Fixpoint exec (c : cache) (hist : list ins) (ops : list ins) : option (cache * list ins) :=
  match ops with
  | [] => Some (c, hist)
  | (k, v) :: rest =>
      match insert c k v with
      | (COk _, c') => exec c' (hist ++ [(k, v)]) rest
      | (CErr _, c') => exec c' hist rest
      | (CPanic, _) => None
      end
  end.

Definition run (capacity : N) (ops : list ins) : option (cache * list ins) :=
  exec (cache_new capacity) [] ops.

Definition reachable (c : cache) (hist : list ins) : Prop :=
  exists capacity ops, run capacity ops = Some (c, hist).

Definition retrievable (c : cache) (k : N) : Prop := exists v, get c k = COk (Some v).
Definition retrievableb (c : cache) (k : N) : bool :=
  match get c k with COk (Some _) => true | _ => false end.

Definition lastn {A} (m : nat) (l : list A) : list A := skipn (length l - m) l.

(* the value of the most recent insertion under key [k] *)
Fixpoint latest (hist : list ins) (k : N) : option (list byte) :=
  match hist with
  | [] => None
  | (k', v) :: t => match latest t k with
                    | Some v' => Some v'
                    | None => if k =? k' then Some v else None
                    end
  end.

(* "no zero-length value has been stored" — the complement of known finding F2 *)
Definition NoEmptyStored (hist : list ins) : Prop := Forall (fun kv => snd kv <> []) hist.

Definition sizes (l : list ins) : N := fold_right (fun kv acc => lenN (snd kv) + acc) 0 l.
Definition maxsize (l : list ins) : N := fold_right (fun kv acc => N.max (lenN (snd kv)) acc) 0 l.

(* bytes retrievable in state c, given the history: sum over retrievable keys of their latest value *)
Definition retrievable_entries (c : cache) (hist : list ins) (m : nat) : list ins := lastn m hist.
