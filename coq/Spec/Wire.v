(* Spec/Wire.v — the Bitcoin consensus wire format: abstract syntax,
   well-formedness, serialisation, witness-stripped serialisation, weight and
   the in-order traversal (the callback sequence a visit must deliver).
   This file is what "well-formed encoding", "true field values" and "in-order
   traversal" MEAN in the theorems. *)
From BS Require Export Impl.Events.
Open Scope N_scope.

(* ---- abstract syntax ---- *)
Record a_txin := { ai_txid : list byte; ai_vout : N; ai_sig : list byte; ai_seq : N }.
Record a_txout := { ao_value : N; ao_spk : list byte }.
Definition a_witness := list (list byte).
Inductive a_form := Legacy | Segwit (wits : list a_witness).
Record a_tx := { at_version : Z; at_ins : list a_txin; at_outs : list a_txout; at_form : a_form; at_locktime : N }.
Record a_header := { ah_version : Z; ah_prev : list byte; ah_merkle : list byte; ah_time : N; ah_bits : N; ah_nonce : N }.
Record a_block := { ab_header : a_header; ab_txs : list a_tx }.

(* ---- compact size ---- *)
Definition cs_enc (n : N) : list byte :=
  if n <? 253 then le_enc 1 n
  else if n <=? 65535 then xfd :: le_enc 2 n
  else if n <=? 4294967295 then xfe :: le_enc 4 n
  else xff :: le_enc 8 n.
Definition cs_width (n : N) : N :=
  if n <? 253 then 1 else if n <=? 65535 then 3 else if n <=? 4294967295 then 5 else 9.

(* ---- serialisation ---- *)
Definition enc_script (s : list byte) : list byte := cs_enc (lenN s) ++ s.
Definition enc_txin (i : a_txin) : list byte :=
  ai_txid i ++ le_enc 4 (ai_vout i) ++ enc_script (ai_sig i) ++ le_enc 4 (ai_seq i).
Definition enc_txout (o : a_txout) : list byte := le_enc 8 (ao_value o) ++ enc_script (ao_spk o).
Definition enc_list {A} (f : A -> list byte) (l : list A) : list byte := cs_enc (lenN l) ++ flat_map f l.
Definition enc_txins := enc_list enc_txin.
Definition enc_txouts := enc_list enc_txout.
Definition enc_witness (w : a_witness) : list byte := enc_list enc_script w.
Definition enc_witnesses (ws : list a_witness) : list byte := flat_map enc_witness ws.
Definition enc_i32 (z : Z) : list byte := le_enc 4 (n_of_i32 z).
Definition enc_tx (t : a_tx) : list byte :=
  enc_i32 (at_version t) ++
  match at_form t with
  | Legacy => enc_txins (at_ins t) ++ enc_txouts (at_outs t)
  | Segwit ws => [x00; x01] ++ enc_txins (at_ins t) ++ enc_txouts (at_outs t) ++ enc_witnesses ws
  end ++ le_enc 4 (at_locktime t).
(* witness-stripped serialisation: version, inputs, outputs, lock time *)
Definition enc_stripped (t : a_tx) : list byte :=
  enc_i32 (at_version t) ++ enc_txins (at_ins t) ++ enc_txouts (at_outs t) ++ le_enc 4 (at_locktime t).
Definition enc_header (h : a_header) : list byte :=
  enc_i32 (ah_version h) ++ ah_prev h ++ ah_merkle h ++ le_enc 4 (ah_time h) ++ le_enc 4 (ah_bits h) ++ le_enc 4 (ah_nonce h).
Definition enc_block (b : a_block) : list byte := enc_header (ab_header b) ++ enc_list enc_tx (ab_txs b).

(* BIP141 *)
Definition weight_spec (t : a_tx) : N := 3 * lenN (enc_stripped t) + lenN (enc_tx t).

(* ---- well-formedness: what can be serialised at all ---- *)
Definition wf_script (s : list byte) : Prop := lenN s < TWO64.
Definition wf_txin (i : a_txin) : Prop :=
  lenN (ai_txid i) = 32 /\ ai_vout i < TWO32 /\ wf_script (ai_sig i) /\ ai_seq i < TWO32.
Definition wf_txout (o : a_txout) : Prop := ao_value o < TWO64 /\ wf_script (ao_spk o).
Definition wf_witness (w : a_witness) : Prop := lenN w < TWO64 /\ Forall wf_script w.
Definition wf_i32 (z : Z) : Prop := (-2147483648 <= z < 2147483648)%Z.
Definition all_empty (ws : list a_witness) : bool :=
  forallb (fun w => match w with [] => true | _ => false end) ws.
Definition wf_tx (t : a_tx) : Prop :=
  wf_i32 (at_version t) /\ lenN (at_ins t) < TWO64 /\ Forall wf_txin (at_ins t) /\
  lenN (at_outs t) < TWO64 /\ Forall wf_txout (at_outs t) /\ at_locktime t < TWO32 /\
  match at_form t with
  | Legacy => at_ins t <> []
  | Segwit ws => length ws = length (at_ins t) /\ Forall wf_witness ws /\
                 (at_ins t <> [] -> all_empty ws = false)
  end.
Definition wf_header (h : a_header) : Prop :=
  wf_i32 (ah_version h) /\ lenN (ah_prev h) = 32 /\ lenN (ah_merkle h) = 32 /\
  ah_time h < TWO32 /\ ah_bits h < TWO32 /\ ah_nonce h < TWO32.
Definition wf_block (b : a_block) : Prop :=
  wf_header (ab_header b) /\ lenN (ab_txs b) < TWO64 /\ Forall wf_tx (ab_txs b).

(* ---- in-order traversal: the callbacks of a never-breaking visit, oldest first,
   for an object serialised at absolute offset [p] ---- *)
Definition script_data_off (p : N) (s : list byte) : N := p + cs_width (lenN s).

Definition ev_txin (i p : N) (x : a_txin) : event :=
  ETxIn i (p, lenN (enc_txin x)) (p, 36) (p, 32) (ai_vout x)
        (script_data_off (p + 36) (ai_sig x), lenN (ai_sig x)) (ai_seq x).
Definition ev_txout (i p : N) (x : a_txout) : event :=
  ETxOut i (p, lenN (enc_txout x)) (ao_value x) (script_data_off (p + 8) (ao_spk x), lenN (ao_spk x)).

(* events of the elements of a list, element [j] of [l] at index i+j, first element at offset p *)
Fixpoint trav_items {A} (ev : N -> N -> A -> list event) (enc : A -> list byte) (i p : N) (l : list A) : list event :=
  match l with
  | [] => []
  | x :: t => ev i p x ++ trav_items ev enc (i + 1) (p + lenN (enc x)) t
  end.

Definition trav_txins (p : N) (l : list a_txin) : list event :=
  ETxIns (lenN l) :: trav_items (fun i q x => [ev_txin i q x]) enc_txin 0 (p + cs_width (lenN l)) l.
Definition trav_txouts (p : N) (l : list a_txout) : list event :=
  ETxOuts (lenN l) :: trav_items (fun i q x => [ev_txout i q x]) enc_txout 0 (p + cs_width (lenN l)) l.
Definition trav_witness (p : N) (w : a_witness) : list event :=
  EWitnessTotal (lenN w) ::
  trav_items (fun i q e => [EWitnessElem i (script_data_off q e, lenN e)]) enc_script 0 (p + cs_width (lenN w)) w.
(* witness of input i, first at offset p *)
Definition trav_witnesses (p : N) (ws : list a_witness) : list event :=
  trav_items (fun i q w => EWitness i :: trav_witness q w ++ [EWitnessEnd]) enc_witness 0 p ws.

Definition pw (w : window) : window := if snd w =? 0 then (0, 0) else w.

Definition ev_tx (p : N) (t : a_tx) : event :=
  let total := lenN (enc_tx t) in
  match at_form t with
  | Legacy => ETransaction (p, total) (at_version t) (at_locktime t) (pw (p, total)) (0, 0) (0, 0) (4 * total)
  | Segwit _ =>
      let io := lenN (enc_txins (at_ins t)) + lenN (enc_txouts (at_outs t)) in
      ETransaction (p, total) (at_version t) (at_locktime t) (p, 4) (p + 6, io) (p + total - 4, 4) (weight_spec t)
  end.

Definition trav_tx (p : N) (t : a_tx) : list event :=
  match at_form t with
  | Legacy =>
      trav_txins (p + 4) (at_ins t) ++
      trav_txouts (p + 4 + lenN (enc_txins (at_ins t))) (at_outs t) ++ [ev_tx p t]
  | Segwit ws =>
      (* the segwit marker is first read as an empty input list *)
      [ETxIns 0] ++
      trav_txins (p + 6) (at_ins t) ++
      trav_txouts (p + 6 + lenN (enc_txins (at_ins t))) (at_outs t) ++
      trav_witnesses (p + 6 + lenN (enc_txins (at_ins t)) + lenN (enc_txouts (at_outs t))) ws ++
      [ev_tx p t]
  end.

Definition ev_header (p : N) (h : a_header) : event :=
  EHeader (p, 80) (ah_version h) (p + 4, 32) (p + 36, 32) (ah_time h) (ah_nonce h).

Definition trav_block (p : N) (b : a_block) : list event :=
  ev_header p (ab_header b) :: EBlockBegin (lenN (ab_txs b)) ::
  trav_items (fun _ q t => trav_tx q t) enc_tx 0 (p + 80 + cs_width (lenN (ab_txs b))) (ab_txs b).
