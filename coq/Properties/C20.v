(* C20 — database encoding round-trips and outpoint keys order bytewise.
   redb's storage engine and Rust's Ord for [u8] are external: the model of [compare] is the
   lexicographic comparison [lex_compare]; values are written to and read back from an actual redb
   database by the harness on every run. *)
From BS Require Import Impl.Visit Impl.Access Spec.Wire Ref.MetaDefs Proofs.Len Proofs.ImplRefLeaf Proofs.ImplRefTx Proofs.Transfer Proofs.Entries
  Proofs.SpecLemmas Proofs.RefSpec Proofs.SpecTransfer Proofs.Order Proofs.Examples.
Open Scope N_scope.

(* as_bytes is the serialized view (AsRef); decoding it returns an equal value *)
Theorem C20_outpoint_roundtrip : forall x : outpoint, db_outpoint_from_bytes (op_slice x) = x.
Proof. intros [s]. reflexivity. Qed.

Theorem C20_txout_roundtrip : forall p b pr, In63 b -> parse_txout (sl p b) = Ok pr ->
  db_txout_from_bytes (sl p (bytes (to_slice (parsed pr)))) = Ok (parsed pr).
Proof.
  intros p b pr HD HP. unfold db_txout_from_bytes.
  assert (HV : e_visit E_txout never (sl p b) [] = (Ok pr, [])). { cbn [e_visit E_txout]. unfold lift. rewrite HP. reflexivity. }
  pose proof (T_exact E_txout never p b [] pr [] HD HV) as HX. cbn [e_visit E_txout e_sl] in HX. unfold lift in HX.
  injection HX as HX. rewrite HX. reflexivity.
Qed.

Theorem C20_transaction_roundtrip : forall p b pr h', InLen b -> visit_transaction never (sl p b) [] = (Ok pr, h') ->
  db_transaction_from_bytes (sl p (bytes (tx_slice (parsed pr)))) = Ok (parsed pr).
Proof.
  intros p b pr h' HD HV. unfold db_transaction_from_bytes.
  pose proof (T_exact E_transaction never p b [] pr h' HD HV) as HX.
  change (visit_transaction never (sl p (bytes (tx_slice (parsed pr)))) [] =
          (Ok {| remaining := sl (off (remaining pr)) []; parsed := parsed pr |}, h')) in HX.
  rewrite HX. reflexivity.
Qed.

(* the output list: from_bytes re-reads the count from the same bytes *)
Theorem C20_txouts_roundtrip : forall brk p b h pr h', In63 b -> visit_txouts brk (sl p b) h = (Ok pr, h') ->
  db_txouts_from_bytes (tos_slice (parsed pr)) = Ok (parsed pr).
Proof.
  intros brk p b h pr h' HD HV.
  destruct (T_ok_is_encoding_any E_txouts S_txouts brk p b h pr h' HD HV)
    as [l [[Hn Hwf] [Hb [_ [_ [_ [x [Hx Hp]]]]]]]].
  cbn [s_proj S_txouts spec_of_decodes] in Hx. subst x.
  change (parsed pr = mk_txouts (sl p (enc_txouts l)) l h') in Hp. rewrite Hp.
  unfold db_txouts_from_bytes, mk_txouts. cbn [tos_slice]. unfold scan_len0. rewrite scan_len_spec. cbn [bytes sl].
  unfold enc_txouts, enc_list.
  assert (Hc : 0 + cs_width (lenN l) < TWO64).
  { unfold cs_width, TWO64. repeat match goal with |- context [if ?bb then _ else _] => destruct bb end; lia. }
  rewrite (scan_len_complete (lenN l) _ 0 Hn Hc). reflexivity.
Qed.

(* fixed width: every parsed OutPoint is 36 bytes *)
Theorem C20_outpoint_width : forall p b pr, In63 b -> parse_outpoint (sl p b) = Ok pr -> s_len (op_slice (parsed pr)) = 36.
Proof.
  intros p b pr _. rewrite parse_outpoint_spec. destruct (splitN b 36) as [[a r]|] eqn:S; [|discriminate].
  intros HH. injection HH as <-. cbn [parsed op_slice]. unfold s_len, sl. cbn [bytes].
  apply splitN_Some in S. exact (proj2 S).
Qed.

(* outpoint key comparison = lexicographic order of the bytes: a total order consistent with equality *)
Theorem C20_order_consistent_with_equality : forall a b, lex_compare a b = Eq <-> a = b.
Proof. exact lex_eq_iff. Qed.
Theorem C20_order_antisymmetric : forall a b, lex_compare b a = CompOpp (lex_compare a b).
Proof. exact lex_antisym. Qed.
Theorem C20_order_transitive : forall a b c, lex_compare a b = Lt -> lex_compare b c = Lt -> lex_compare a c = Lt.
Proof. exact lex_trans_lt. Qed.
Theorem C20_order_total : forall a b, lex_compare a b = Lt \/ a = b \/ lex_compare b a = Lt.
Proof. exact lex_total. Qed.
Theorem C20_order_is_bytewise : forall (p : list byte) x y s t, b2n x < b2n y -> lex_compare (p ++ x :: s) (p ++ y :: t) = Lt.
Proof. exact lex_first_diff. Qed.

(* non-vacuity: the example transaction and an output are parsed and decoded back from their database bytes *)
Example C20_example :
  (exists pr h', visit_transaction never (sl 5 (ex_tx_bytes ++ ex_trailing)) [] = (Ok pr, h') /\ bytes (remaining pr) = ex_trailing) /\
  match parse_txout (sl 2 (enc_txout ex_out1 ++ [x00])) with
  | Ok pr => db_txout_from_bytes (sl 2 (bytes (to_slice (parsed pr)))) = Ok (parsed pr)
  | _ => False
  end /\
  lex_compare (repeat x00 35 ++ [x01]) (x01 :: repeat x00 35) = Lt.
Proof. split; [exact ex_tx_visit|split; [vm_compute; reflexivity|vm_compute; reflexivity]]. Qed.
