(* C03 — accepts exactly the Bitcoin wire encodings and reports their true field values.
   Spec/Wire.v defines the abstract syntax, well-formedness (canonical compact sizes are built into
   [cs_enc]; BIP144 marker/flag and the witness rule into [enc_tx]/[wf_tx]) and the serialisers.
   [specified E S]: E is one of the twelve entry points, S its specification (wf, enc, traversal).
   Agreement with rust-bitcoin's decoder is checked differentially on every run (not a theorem). *)
From BS Require Import Impl.Visit Ref.MetaDefs Proofs.ImplRefLeaf Proofs.ImplRefTx Proofs.Transfer Proofs.Entries
  Proofs.SpecLemmas Proofs.RefSpec Proofs.SpecTransfer Proofs.TxSpec Proofs.ObjSpec Proofs.FlagSpec.
Open Scope N_scope.

(* each parser succeeds iff the slice begins with a well-formed encoding of that object *)
Theorem C03_accepts_iff_wire_encoding : forall E S, specified E S -> forall p b h, e_D E b ->
  ((exists pr h', e_visit E never (sl p b) h = (Ok pr, h')) <-> (exists a rest, s_wf S a /\ b = s_enc S a ++ rest)).
Proof. intros E S _. exact (T_accepts_iff E S). Qed.

(* ... and then consumes exactly that encoding's length (under any visitor) *)
Theorem C03_consumes_exactly_the_encoding : forall E S, specified E S -> forall brk p b h pr h', e_D E b ->
  e_visit E brk (sl p b) h = (Ok pr, h') ->
  exists a, s_wf S a /\ b = s_enc S a ++ bytes (remaining pr) /\ e_sl E (parsed pr) = sl p (s_enc S a) /\
            off (remaining pr) = p + lenN (s_enc S a) /\ h' = rev (s_trav S p a) ++ h /\
            exists x, s_proj S x = a /\ parsed pr = e_mk E (sl p (s_enc S a)) x h'.
Proof. intros E S _. exact (T_ok_is_encoding_any E S). Qed.

(* the structure, hence every field value, is determined by the bytes: encodings are prefix-free *)
Theorem C03_structure_determined_by_bytes : forall a b x y, wf_tx a -> wf_tx b ->
  enc_tx a ++ x = enc_tx b ++ y -> a = b /\ x = y.
Proof. exact (decodes_prefix_free r_tx wf_tx enc_tx trav_tx decodes_tx). Qed.
Theorem C03_block_determined_by_bytes : forall a b x y, wf_block a -> wf_block b ->
  enc_block a ++ x = enc_block b ++ y -> a = b /\ x = y.
Proof. exact (decodes_prefix_free r_block wf_block enc_block trav_block decodes_block). Qed.

(* true field values: transaction (version, lock time, through the object the parser returns) *)
Theorem C03_transaction_fields : forall brk p b h pr h', InLen b -> visit_transaction brk (sl p b) h = (Ok pr, h') ->
  exists t, wf_tx t /\ b = enc_tx t ++ bytes (remaining pr) /\ parsed pr = obj_tx p t /\
            tx_version (parsed pr) = Ok (at_version t) /\ tx_locktime (parsed pr) = Ok (at_locktime t).
Proof.
  intros brk p b h pr h' HD HV. destruct (tx_parsed_is_obj brk p b h pr h' HD HV) as [t [Hwf [Hb [Hp _]]]].
  exists t. split; [exact Hwf|split; [exact Hb|split; [exact Hp|]]].
  rewrite Hp. split; [apply tx_version_spec|apply tx_locktime_spec]; exact Hwf.
Qed.

(* inputs: previous outpoint id and index, script bytes without their length prefix, sequence *)
Theorem C03_txin_fields : forall i p b pr, In63 b -> parse_txin (sl p b) = Ok pr ->
  exists a, wf_txin a /\ b = enc_txin a ++ bytes (remaining pr) /\ ti_slice (parsed pr) = sl p (enc_txin a) /\
            txin_event i (parsed pr) = Ok (ev_txin i p a) /\ ti_sequence (parsed pr) = ai_seq a.
Proof. exact txin_parsed_is_spec. Qed.

(* outputs: amount, script bytes without their length prefix *)
Theorem C03_txout_fields : forall i p b pr, In63 b -> parse_txout (sl p b) = Ok pr ->
  exists a, wf_txout a /\ b = enc_txout a ++ bytes (remaining pr) /\ to_slice (parsed pr) = sl p (enc_txout a) /\
            txout_event i (parsed pr) = Ok (ev_txout i p a) /\ to_value (parsed pr) = ao_value a /\
            txout_script_pubkey (parsed pr) = Ok (sl (script_data_off (p + 8) (ao_spk a)) (ao_spk a)).
Proof. exact txout_parsed_is_spec. Qed.

(* header: version, time, nonce, previous hash, merkle root *)
Theorem C03_header_fields : forall brk p b h pr h', In63 b -> visit_header brk (sl p b) h = (Ok pr, h') ->
  exists a, wf_header a /\ b = enc_header a ++ bytes (remaining pr) /\ h_slice (parsed pr) = sl p (enc_header a) /\
            lenN (enc_header a) = 80 /\
            h_version (parsed pr) = ah_version a /\ h_time (parsed pr) = ah_time a /\ h_nonce (parsed pr) = ah_nonce a /\
            header_prev_blockhash (parsed pr) = Ok (sl (p + 4) (ah_prev a)) /\
            header_merkle_root (parsed pr) = Ok (sl (p + 36) (ah_merkle a)).
Proof. exact header_parsed_is_spec. Qed.

(* element counts and emptiness flags *)
Theorem C03_counts : forall brk p b h pr h', In63 b -> visit_txouts brk (sl p b) h = (Ok pr, h') ->
  exists a, wf_txouts a /\ b = enc_txouts a ++ bytes (remaining pr) /\ tos_n (parsed pr) = lenN a.
Proof.
  intros brk p b h pr h' HD HV.
  destruct (T_ok_is_encoding_any E_txouts S_txouts brk p b h pr h' HD HV) as [a [Hwf [Hb [_ [_ [_ [x [Hx Hp]]]]]]]].
  cbn [s_proj S_txouts spec_of_decodes] in Hx. subst x. exists a. split; [exact Hwf|split; [exact Hb|]].
  change (parsed pr = mk_txouts (sl p (enc_txouts a)) a h') in Hp. rewrite Hp. reflexivity.
Qed.

(* the other counts and the emptiness flags: input lists, output lists, witnesses, witness lists, blocks *)
Theorem C03_txins_count_and_emptiness : forall brk p b h pr h', In63 b -> visit_txins brk (sl p b) h = (Ok pr, h') ->
  exists a, wf_txins a /\ b = enc_txins a ++ bytes (remaining pr) /\ tis_n (parsed pr) = lenN a /\
            txins_is_empty (parsed pr) = Ok (is_nil a).
Proof. exact txins_flags. Qed.
Theorem C03_txouts_count_and_emptiness : forall brk p b h pr h', In63 b -> visit_txouts brk (sl p b) h = (Ok pr, h') ->
  exists a, wf_txouts a /\ b = enc_txouts a ++ bytes (remaining pr) /\ tos_n (parsed pr) = lenN a /\
            txouts_is_empty (parsed pr) = Ok (is_nil a).
Proof. exact txouts_flags. Qed.
Theorem C03_witness_emptiness : forall brk p b h pr h', In63 b -> visit_witness brk (sl p b) h = (Ok pr, h') ->
  exists a, wf_witness a /\ b = enc_witness a ++ bytes (remaining pr) /\ witness_is_empty (parsed pr) = Ok (is_nil a).
Proof. exact witness_flags. Qed.
Theorem C03_witnesses_all_empty : forall n brk p b h pr h', In63 b -> visit_witnesses brk (sl p b) n h = (Ok pr, h') ->
  exists ws, lenN ws = n /\ b = enc_witnesses ws ++ bytes (remaining pr) /\ ws_all_empty (parsed pr) = forallb is_nil ws.
Proof. exact witnesses_flags. Qed.
Theorem C03_block_total_transactions : forall brk p b h pr h', InLen b -> visit_block brk (sl p b) h = (Ok pr, h') ->
  exists a, wf_block a /\ b = enc_block a ++ bytes (remaining pr) /\ b_total (parsed pr) = lenN (ab_txs a).
Proof. exact block_total. Qed.

Example C03_hypotheses_satisfiable : specified E_block S_block /\ wf_script [x51] /\ enc_script [x51] = [x01; x51].
Proof. split; [constructor|split; [unfold wf_script; reflexivity|reflexivity]]. Qed.
