(* C09 — a visitor's Break stops the visit at once and is reported as VisitBreak.
   The visitor is any function [brk] of the callback history; [cut brk h d] scans the callbacks [d]
   of the never-breaking run (oldest first) for the first breakable one on which the visitor answers
   Break, and returns the history up to and including it. *)
From BS Require Import Impl.Visit Ref.MetaDefs Proofs.ImplRefLeaf Proofs.Transfer Proofs.Entries Proofs.Examples.
Open Scope N_scope.

(* under ANY visitor, the visit is the never-breaking visit cut at the first Break: the result is
   VisitBreak, no further callback is made, the callbacks before it are those of the never-breaking
   run; if the visitor never fires the outcome is that of the never-breaking run.  The never-breaking
   run may itself be Ok or any error: a Break takes precedence over any later malformation. *)
Theorem C09_break_truncates : forall E, covered E -> forall brk p b h, e_D E b ->
  exists d, snd (e_visit E never (sl p b) h) = rev d ++ h /\
            e_visit E brk (sl p b) h = match cut brk h d with
                                       | Some hb => (Err VisitBreak, hb)
                                       | None => e_visit E never (sl p b) h
                                       end.
Proof. intros E _. exact (T_break E). Qed.

(* a visitor that never breaks never causes VisitBreak *)
Theorem C09_no_spurious_break : forall E, covered E -> forall p b h h', e_D E b ->
  e_visit E never (sl p b) h <> (Err VisitBreak, h').
Proof. intros E _. exact (T_never_no_break E). Qed.

(* only the five breakable callbacks consult the visitor *)
Theorem C09_breakable_kinds : forall e, breakable e = true <->
  (exists w v p m t n, e = EHeader w v p m t n) \/ (exists i w p pt vo sg sq, e = ETxIn i w p pt vo sg sq) \/
  (exists i w v s, e = ETxOut i w v s) \/ (exists i, e = EWitness i) \/ (exists w v l a b c wt, e = ETransaction w v l a b c wt).
Proof.
  intros e. split.
  - destruct e; cbn; intros H; try discriminate.
    + left. repeat eexists.
    + right. left. repeat eexists.
    + right. right. left. repeat eexists.
    + right. right. right. left. repeat eexists.
    + right. right. right. right. repeat eexists.
  - intros [H|[H|[H|[H|H]]]].
    + destruct H as [w [v [p [m [t [n H]]]]]]. rewrite H. reflexivity.
    + destruct H as [i [w [p [pt [vo [sg [sq H]]]]]]]. rewrite H. reflexivity.
    + destruct H as [i [w [v [s H]]]]. rewrite H. reflexivity.
    + destruct H as [i H]. rewrite H. reflexivity.
    + destruct H as [w [v [l [a [b [c [wt H]]]]]]]. rewrite H. reflexivity.
Qed.

(* non-vacuity: a visitor breaking at its fourth breakable callback on the example block *)
Example C09_example :
  match visit_block ex_brk (sl 3 (ex_block_bytes ++ ex_trailing)) [] with
  | (Err VisitBreak, h') => lenN (filter breakable h') = 4
  | _ => False
  end.
Proof. exact ex_block_break. Qed.
