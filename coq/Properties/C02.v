(* C02 — a successful parse splits the input exactly into parsed bytes and remainder.
   [E] ranges over the twelve entry points packaged in Proofs/Entries.v (script, outpoint, txin,
   txout, txins, txouts, witness, witnesses n, transaction, header, block): [covered E].
   [e_visit E brk (sl p b) h] is the Rust-faithful model run on the input [b] located at absolute
   offset [p] (pointer identity), under the visitor [brk], after the callbacks [h]. *)
From BS Require Import Impl.Visit Ref.MetaDefs Proofs.ImplRefLeaf Proofs.Transfer Proofs.Entries.
Open Scope N_scope.

(* the serialized view is exactly b[..k] at the very same offset, the remainder is exactly b[k..]
   at offset p + k; consumed size and length are both k = lenN c *)
Theorem C02_partition : forall E, covered E -> forall brk p b h pr h',
  e_D E b -> e_visit E brk (sl p b) h = (Ok pr, h') ->
  exists c, b = c ++ bytes (remaining pr) /\ e_sl E (parsed pr) = sl p c /\ off (remaining pr) = p + lenN c.
Proof. intros E _. exact (T_split E). Qed.

(* parsing never looks at, or depends on, bytes beyond k: followed by anything, the same object *)
Theorem C02_local : forall E, covered E -> forall brk p b h pr h' x,
  e_D E (b ++ x) -> e_visit E brk (sl p b) h = (Ok pr, h') ->
  e_visit E brk (sl p (b ++ x)) h =
  (Ok {| remaining := sl (off (remaining pr)) (bytes (remaining pr) ++ x); parsed := parsed pr |}, h').
Proof. intros E _. exact (T_extend E). Qed.

(* re-serializing is the identity: the bytes of the view alone parse to the same object, nothing left *)
Theorem C02_view_reparses : forall E, covered E -> forall brk p b h pr h',
  e_D E b -> e_visit E brk (sl p b) h = (Ok pr, h') ->
  e_visit E brk (sl p (bytes (e_sl E (parsed pr)))) h =
  (Ok {| remaining := sl (off (remaining pr)) []; parsed := parsed pr |}, h').
Proof. intros E _. exact (T_exact E). Qed.

Example C02_example : covered E_block /\ covered (E_witnesses 18446744073709551615) /\ e_D E_txins [x00; xaa].
Proof. repeat split; try constructor. Qed.
