(* C14 — each malformed input is reported with the error the format dictates.
   The streaming reference decoder reads strictly left to right through the single primitive [take]
   (Ref/Stream.v), so the error it reports is the first defect in byte order by construction; the
   crate's model reports exactly that error.  Declarative characterisations: Proofs/RefSpec.v. *)
From BS Require Import Impl.Visit Ref.Grammar Ref.MetaDefs Proofs.CsDec Proofs.ImplRefLeaf Proofs.Transfer Proofs.Entries
  Proofs.SpecLemmas Proofs.RefSpec Proofs.ImplRefTx Proofs.ErrSpec Proofs.ImplRefLists Proofs.Propagation Proofs.EvTransfer Proofs.Examples.
Open Scope N_scope.

(* the model of the crate fails with error e exactly when the reference decoder fails with e,
   having delivered the same callbacks *)
Theorem C14_error_is_reference_error : forall E, covered E -> forall brk p b h e h', e_D E b ->
  (e_visit E brk (sl p b) h = (Err e, h') <-> e_r E brk (st0 p b h) = Fail e h').
Proof.
  intros E _ brk p b h e h' HD. split.
  - exact (visit_err_inv E brk p b h e h' HD).
  - intros R. rewrite (e_ref E brk p b h HD), R. reflexivity.
Qed.

(* VisitBreak is never produced when the visitor never breaks *)
Theorem C14_never_visit_break : forall E, covered E -> forall p b h h', e_D E b ->
  e_visit E never (sl p b) h <> (Err VisitBreak, h').
Proof. intros E _. exact (T_never_no_break E). Qed.

(* a wider-than-minimal compact size gives NonMinimalVarInt, exactly in these three shapes *)
Theorem C14_nonminimal_compact_size : forall brk s h,
  r_compact brk s = Fail NonMinimalVarInt h <->
  h = hi s /\
  ((exists v rest, inp s = xfd :: le_enc 2 v ++ rest /\ v < 253) \/
   (exists v rest, inp s = xfe :: le_enc 4 v ++ rest /\ v <= 65535) \/
   (exists v rest, inp s = xff :: le_enc 8 v ++ rest /\ v <= 4294967295)).
Proof. exact r_compact_nonminimal. Qed.

(* the same characterisation on the crate's incremental compact-size decoder *)
Theorem C14_scan_len_nonminimal : forall s c c',
  scan_len s c = (Err NonMinimalVarInt, c') <->
  c' = c /\
  ((exists v rest, bytes s = xfd :: le_enc 2 v ++ rest /\ v < 253) \/
   (exists v rest, bytes s = xfe :: le_enc 4 v ++ rest /\ v <= 65535) \/
   (exists v rest, bytes s = xff :: le_enc 8 v ++ rest /\ v <= 4294967295)).
Proof. exact scan_len_nonminimal. Qed.

(* an empty input list followed by a flag byte other than 1 gives UnknownSegwitFlag carrying exactly that byte *)
Theorem C14_unknown_segwit_flag : forall p b h x h', InLen b ->
  (visit_transaction never (sl p b) h = (Err (UnknownSegwitFlag x), h') <->
   exists v byte rest, lenN v = 4 /\ b = v ++ [x00] ++ [byte] ++ rest /\ b2n byte = x /\ x <> 1 /\ h' = ETxIns 0 :: h).
Proof. exact tx_unknown_flag. Qed.

(* a segwit-encoded transaction with at least one input whose witnesses are all empty gives
   SegwitFlagWithoutWitnesses, whether or not the lock time is present *)
Theorem C14_segwit_flag_without_witnesses : forall p b h h', InLen b ->
  (visit_transaction never (sl p b) h = (Err SegwitFlagWithoutWitnesses, h') <->
   exists v ins outs rest, lenN v = 4 /\ ins <> [] /\ wf_txins ins /\ wf_txouts outs /\
     b = v ++ [x00; x01] ++ enc_txins ins ++ enc_txouts outs ++ repeat x00 (length ins) ++ rest /\
     h' = nowit_hist p ins outs h).
Proof. exact tx_no_witnesses. Qed.

(* with a never-breaking visitor only the four format errors occur: never VisitBreak, never Other *)
Theorem C14_only_format_errors : forall E, covered E -> forall p b h e h', e_D E b ->
  e_visit E never (sl p b) h = (Err e, h') ->
  e = MoreBytesNeeded \/ e = NonMinimalVarInt \/ e = SegwitFlagWithoutWitnesses \/ exists x, e = UnknownSegwitFlag x.
Proof. exact never_run_errors. Qed.

(* the first defect in byte order at depth: an output list fails with e exactly when its count fails
   with e, or, after some complete well-formed outputs, the NEXT output fails with e at its offset *)
Theorem C14_output_list_first_defect : forall p b h e h', In63 b ->
  (visit_txouts never (sl p b) h = (Err e, h') <->
   (r_compact never (st0 p b h) = Fail e h /\ h' = h) \/
   (exists n done rest, n < TWO64 /\ lenN done < n /\ Forall wf_txout done /\
      b = cs_enc n ++ flat_map enc_txout done ++ rest /\
      r_txout_ev (lenN done) never
        (st0 (p + cs_width n + lenN (flat_map enc_txout done)) rest (rev (trav_txouts_part p n done) ++ h)) = Fail e h' /\
      h' = rev (trav_txouts_part p n done) ++ h)).
Proof. exact txouts_fail_iff_impl. Qed.

(* a bad varint inside output j of transaction i of a block (the transaction legacy-encoded): the block
   is rejected with NonMinimalVarInt, having delivered exactly the traversal of everything before that output *)
Theorem C14_nested_nonminimal_varint : forall p h hdr pre post t opre opost o rest,
  wf_block {| ab_header := hdr; ab_txs := pre ++ t :: post |} -> at_form t = Legacy -> at_outs t = opre ++ o :: opost ->
  lenN (ao_spk o) < 253 ->
  let b := patched_block_legacy (xfd :: le_enc 2 (lenN (ao_spk o))) hdr pre t opre o opost post ++ rest in
  InLen b ->
  visit_block never (sl p b) h = (Err NonMinimalVarInt, rev (nn_before p hdr pre post t opre opost o) ++ h).
Proof. exact nested_nonminimal_impl. Qed.

(* non-vacuity: one input for each error kind the property names *)
Example C14_example :
  fst (visit_transaction never (sl 0 (firstn 40 ex_tx_bytes)) []) = Err MoreBytesNeeded /\
  fst (visit_transaction never (sl 0 ([x01; x00; x00; x00; xfd; x01; x00] ++ skipn 5 (enc_tx ex_tx_legacy))) []) = Err NonMinimalVarInt /\
  fst (visit_transaction never (sl 0 [x01; x00; x00; x00; x00; x07; x00]) []) = Err (UnknownSegwitFlag 7) /\
  fst (visit_transaction never
         (sl 0 (enc_tx {| at_version := 2; at_ins := [ex_in2]; at_outs := []; at_form := Segwit [[]]; at_locktime := 0 |})) [])
  = Err SegwitFlagWithoutWitnesses.
Proof. split; [exact ex_truncated|split; [exact ex_nonminimal|split; [exact ex_unknown_flag|exact ex_no_witnesses]]]. Qed.
