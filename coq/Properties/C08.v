(* C08 — compact-size integers decode canonically and both decoders agree.
   Statements only; proofs are in Proofs/Len.v. *)
From BS Require Import Impl.Leaf Spec.Wire Proofs.Len Ref.Grammar Proofs.CsDec Proofs.ErrSpec.
Open Scope N_scope.

(* the incremental decoder accepts exactly the inputs that start with the unique minimal
   encoding of a 64-bit value; it returns that value and adds the width to the caller's counter *)
Theorem C08_accepts_iff_minimal : forall (s : slice) (c n c' : N),
  c < 4611686018427387904 ->
  (scan_len s c = (Ok n, c') <->
   n < TWO64 /\ exists rest, bytes s = cs_enc n ++ rest /\ c' = c + cs_width n).
Proof.
  intros s c n c' Hc. rewrite scan_len_spec. split.
  - apply scan_len_sound.
  - intros [Hn [rest [-> ->]]]. apply scan_len_complete; [exact Hn|].
    unfold TWO64, cs_width. repeat match goal with |- context [if ?b then _ else _] => destruct b end; lia.
Qed.

(* widths are 1, 3, 5 or 9 by magnitude *)
Theorem C08_width : forall n, n < TWO64 ->
  cs_width n = (if n <? 253 then 1 else if n <=? 65535 then 3 else if n <=? 4294967295 then 5 else 9).
Proof. reflexivity. Qed.

(* on failure the counter is untouched and the error is MoreBytesNeeded or NonMinimalVarInt *)
Theorem C08_failure_leaves_counter : forall s c e c',
  scan_len s c = (Err e, c') -> c' = c /\ (e = MoreBytesNeeded \/ e = NonMinimalVarInt).
Proof. intros s c e c'. rewrite scan_len_spec. apply scan_len_err. Qed.

(* for every counter below 2^62 the decoder does not panic *)
Theorem C08_no_panic : forall s c, c < 4611686018427387904 ->
  forall w c', scan_len s c <> (Panic w, c') /\ scan_len s c <> (OutOfFuel, c').
Proof. exact scan_len_no_panic. Qed.

(* the deprecated and the current decoder agree on every input *)
Theorem C08_decoders_agree : forall s, parse_len s = project (scan_len s 0).
Proof. exact parse_len_agrees. Qed.

(* header-plus-payload size: the exact sum when representable, saturated otherwise *)
Theorem C08_slice_len_exact : forall l, len_consumed l + len_n l <= U64MAX -> len_slice_len l = len_consumed l + len_n l.
Proof. exact slice_len_exact. Qed.
Theorem C08_slice_len_saturates : forall l, U64MAX < len_consumed l + len_n l -> len_slice_len l = U64MAX.
Proof. exact slice_len_saturates. Qed.

(* wider-than-necessary encodings are rejected as non-minimal, exactly these *)
Theorem C08_rejects_nonminimal : forall s c c',
  scan_len s c = (Err NonMinimalVarInt, c') <->
  c' = c /\
  ((exists v rest, bytes s = xfd :: le_enc 2 v ++ rest /\ v < 253) \/
   (exists v rest, bytes s = xfe :: le_enc 4 v ++ rest /\ v <= 65535) \/
   (exists v rest, bytes s = xff :: le_enc 8 v ++ rest /\ v <= 4294967295)).
Proof. exact scan_len_nonminimal. Qed.

(* too-short inputs are reported as needing more bytes, exactly when the streaming decoder runs out of input *)
Theorem C08_too_short_needs_more : forall s c c',
  scan_len s c = (Err MoreBytesNeeded, c') <->
  c' = c /\ r_compact never (st0 0 (bytes s) []) = Fail MoreBytesNeeded [].
Proof. exact scan_len_more. Qed.

(* non-vacuity: a concrete 9-byte form at a large offset *)
Example C08_example :
  scan_len (top (cs_enc 4294967296 ++ [x07])) 1000 = (Ok 4294967296, 1009) /\
  scan_len (top [xfe; xff; xff; x00; x00]) 5 = (Err NonMinimalVarInt, 5) /\
  len_slice_len {| len_consumed := 9; len_n := U64MAX |} = U64MAX.
Proof. vm_compute. repeat split. Qed.
