(* C12 — the cache evicts only under space pressure and keeps nearly a full buffer.
   For histories in which no zero-length value has been stored (known finding F2).
   Proofs: Proofs/CacheRing.v.  [m] is the number of retrievable entries (the m of C11). *)
From BS Require Import Spec.CacheSpec Proofs.CacheWF Proofs.CacheFifo Proofs.CacheRing.
Open Scope N_scope.

(* the total size of the retrievable values never exceeds the capacity *)
Theorem C12_total_within_capacity :
  forall capacity ops c hist m, run capacity ops = Some (c, hist) -> NoEmptyStored hist ->
  (m <= length hist)%nat -> c_queue c = map fst (lastn m hist) ->
  sizes (lastn m hist) <= capacity.
Proof. exact C12_total. Qed.

(* an insertion evicts only when retrievable bytes + new value exceed capacity - (L-1) *)
Theorem C12_evicts_only_under_pressure :
  forall capacity ops c hist k v n c' m, run capacity ops = Some (c, hist) ->
  NoEmptyStored (hist ++ [(k, v)]) -> insert c k v = (COk n, c') -> 0 < n ->
  (m <= length hist)%nat -> c_queue c = map fst (lastn m hist) ->
  capacity - (maxsize (hist ++ [(k, v)]) - 1) < sizes (lastn m hist) + lenN v.
Proof. exact C12_pressure. Qed.

(* the most recent entries whose sizes sum to at most capacity - 2(L-1) are all retrievable *)
Theorem C12_keeps_recent_entries :
  forall capacity ops c hist, run capacity ops = Some (c, hist) -> NoEmptyStored hist ->
  forall p s, hist = p ++ s -> sizes s <= capacity - 2 * (maxsize hist - 1) ->
  forall k, In k (map fst s) -> retrievable c k.
Proof. exact C12_keep. Qed.

(* in particular nothing is evicted while everything inserted so far fits in the buffer *)
Theorem C12_nothing_evicted_while_fits :
  forall capacity ops c hist m, run capacity ops = Some (c, hist) -> NoEmptyStored hist ->
  (m <= length hist)%nat -> c_queue c = map fst (lastn m hist) ->
  sizes hist <= capacity -> m = length hist.
Proof. exact C12_fits. Qed.

(* KNOWN FINDING F2: with a stored zero-length value the retrievable bytes can exceed the capacity *)
Theorem C12_empty_value_refuted :
  exists c hist, run 4 f2_ops = Some (c, hist) /\ c_queue c = map fst (lastn 4 hist) /\ sizes (lastn 4 hist) = 5.
Proof. exact F2_refutes_total. Qed.

(* non-vacuity: a reachable state after six insertions into six bytes, three entries evicted, none empty *)
Example C12_example : exists c hist, run 6 ex_ops = Some (c, hist) /\ NoEmptyStored hist /\ length hist = 6%nat /\
  c_queue c = [4; 2; 1] /\ sizes (lastn 3 hist) = 5.
Proof. destruct ring_sanity as [c [hist [H1 [H2 [H3 [H4 [_ [_ [_ [_ [_ [_ H5]]]]]]]]]]]]. exists c, hist. repeat split; assumption. Qed.
