(* C10 — txid and block hash are the double SHA-256 of the right bytes.
   SHA-256 and the two hashing crates are external: the theorems are stated for ANY hash function
   [H] and ANY streaming engine that satisfies the streaming law (section variables, discharged at
   the end of the section: no axiom).  The crate's four hash functions are compared with Python's
   hashlib and with rust-bitcoin on every run. *)
From BS Require Import Impl.Visit Ref.MetaDefs Proofs.ImplRefLeaf Proofs.ImplRefTx Proofs.Transfer Proofs.Entries
  Proofs.SpecLemmas Proofs.RefSpec Proofs.SpecTransfer Proofs.TxSpec Proofs.ObjSpec Proofs.Examples.
Open Scope N_scope.

(* the three-part txid preimage of every successfully parsed transaction concatenates to the
   witness-stripped serialization, which is the whole transaction when it is not segwit-encoded *)
Theorem C10_preimage_is_stripped_serialization : forall brk p b h pr h', InLen b ->
  visit_transaction brk (sl p b) h = (Ok pr, h') ->
  exists t x y z, wf_tx t /\ b = enc_tx t ++ bytes (remaining pr) /\
    tx_txid_preimage (parsed pr) = Ok (x, y, z) /\ bytes x ++ bytes y ++ bytes z = enc_stripped t /\
    (at_form t = Legacy -> enc_stripped t = enc_tx t).
Proof.
  intros brk p b h pr h' HD HV. destruct (tx_parsed_is_obj brk p b h pr h' HD HV) as [t [Hwf [Hb [Hp _]]]].
  assert (HL : InLen (enc_tx t)). { rewrite Hb in HD. exact (InLen_prefix _ _ HD). }
  destruct (tx_preimage_spec p t Hwf HL) as [x [y [z [A [B C]]]]].
  exists t, x, y, z. rewrite Hp. split; [exact Hwf|split; [exact Hb|split; [exact A|split; [exact B|exact C]]]].
Qed.

Section Hashing.
  Variable H : list byte -> list byte.                 (* double SHA-256 *)
  Variable engine : Type.
  Variable init : engine.
  Variable update : engine -> list byte -> engine.
  Variable finish : engine -> list byte.
  Hypothesis streaming : forall a b c, finish (update (update (update init a) b) c) = H (a ++ b ++ c).

  (* Transaction::txid / txid_sha2: feed the three preimage parts to the engine *)
  Definition txid_model (t : transaction) : out (list byte) :=
    match tx_txid_preimage t with
    | Ok (a, b, c) => Ok (finish (update (update (update init (bytes a)) (bytes b)) (bytes c)))
    | Err e => Err e | Panic w => Panic w | OutOfFuel => OutOfFuel
    end.

  Theorem C10_txid_is_hash_of_stripped : forall brk p b h pr h', InLen b ->
    visit_transaction brk (sl p b) h = (Ok pr, h') ->
    exists t, wf_tx t /\ b = enc_tx t ++ bytes (remaining pr) /\ txid_model (parsed pr) = Ok (H (enc_stripped t)).
  Proof.
    intros brk p b h pr h' HD HV.
    destruct (C10_preimage_is_stripped_serialization brk p b h pr h' HD HV) as [t [x [y [z [Hwf [Hb [HP [HS _]]]]]]]].
    exists t. split; [exact Hwf|split; [exact Hb|]]. unfold txid_model. rewrite HP, streaming, HS. reflexivity.
  Qed.

  (* BlockHeader::block_hash / Block::block_hash: the hash of the 80 header bytes *)
  Theorem C10_block_hash_preimage : forall brk p b h pr h', In63 b -> visit_header brk (sl p b) h = (Ok pr, h') ->
    exists c rest, b = c ++ rest /\ lenN c = 80 /\ h_slice (parsed pr) = sl p c.
  Proof.
    intros brk p b h pr h' HD HV. destruct (header_parsed_is_spec brk p b h pr h' HD HV) as [a [_ [Hb [Hs [L _]]]]].
    exists (enc_header a), (bytes (remaining pr)). split; [exact Hb|split; [exact L|exact Hs]].
  Qed.
End Hashing.

(* non-vacuity: the segwit example transaction is parsed (with trailing bytes, at a non-zero offset) *)
Example C10_example : InLen (ex_tx_bytes ++ ex_trailing) /\ exists pr h',
  visit_transaction never (sl 5 (ex_tx_bytes ++ ex_trailing)) [] = (Ok pr, h') /\ bytes (remaining pr) = ex_trailing.
Proof. split; [exact ex_tx_InLen|exact ex_tx_visit]. Qed.
