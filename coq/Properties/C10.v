(* C10 — txid and block hash are the double SHA-256 of the right bytes.
   Two layers.  (1) For ANY hash function [H] and ANY streaming engine that satisfies the streaming law
   (section variables, discharged at the end of the section: no axiom).  (2) With SHA-256 itself inside
   the model: Base/Sha256.v is an executable FIPS 180-4 implementation (pinned by test vectors evaluated by
   the kernel, Proofs/Sha256Stream.v), its streaming engine is PROVED to satisfy the law for every chunking,
   and the model's txid / block-hash accessors (Impl/Access.v) are proved to return its double application to
   the witness-stripped serialization / the 80 header bytes.  Those accessors are what the correspondence
   check compares, byte for byte, with the crate's txid(), txid_sha2(), block_hash(), block_hash_sha2() on
   every run (the hashing crates themselves stay external: they are exercised, not verified). *)
From BS Require Import Impl.Visit Impl.Access Ref.MetaDefs Proofs.ImplRefLeaf Proofs.ImplRefTx Proofs.Transfer Proofs.Entries
  Proofs.SpecLemmas Proofs.RefSpec Proofs.SpecTransfer Proofs.TxSpec Proofs.ObjSpec Proofs.Examples
  Proofs.Sha256Stream Proofs.HashSpec.
Open Scope N_scope.

(* the three-part txid preimage of every successfully parsed transaction concatenates to the
   witness-stripped serialization, which is the whole transaction when it is not segwit-encoded *)
Theorem C10_preimage_is_stripped_serialization : forall brk p b h pr h', InLen b ->
  visit_transaction brk (sl p b) h = (Ok pr, h') ->
  exists t x y z, wf_tx t /\ b = enc_tx t ++ bytes (remaining pr) /\
    tx_txid_preimage (parsed pr) = Ok (x, y, z) /\ bytes x ++ bytes y ++ bytes z = enc_stripped t /\
    (at_form t = Legacy -> enc_stripped t = enc_tx t).
Proof.
  intros brk p b h pr h' HD HV. destruct (tx_parsed_is_obj brk p b h pr h' HD HV) as [t [Hwf [Hb [Hp _]]]].
  assert (HL : InLen (enc_tx t)). { rewrite Hb in HD. exact (InLen_prefix _ _ HD). }
  destruct (tx_preimage_spec p t Hwf HL) as [x [y [z [A [B C]]]]].
  exists t, x, y, z. rewrite Hp. split; [exact Hwf|split; [exact Hb|split; [exact A|split; [exact B|exact C]]]].
Qed.

Section Hashing.
  Variable H : list byte -> list byte.                 (* double SHA-256 *)
  Variable engine : Type.
  Variable init : engine.
  Variable update : engine -> list byte -> engine.
  Variable finish : engine -> list byte.
  Hypothesis streaming : forall a b c, finish (update (update (update init a) b) c) = H (a ++ b ++ c).

  (* Transaction::txid / txid_sha2: feed the three preimage parts to the engine *)
  Definition txid_model (t : transaction) : out (list byte) :=
    match tx_txid_preimage t with
    | Ok (a, b, c) => Ok (finish (update (update (update init (bytes a)) (bytes b)) (bytes c)))
    | Err e => Err e | Panic w => Panic w | OutOfFuel => OutOfFuel
    end.

  Theorem C10_txid_is_hash_of_stripped : forall brk p b h pr h', InLen b ->
    visit_transaction brk (sl p b) h = (Ok pr, h') ->
    exists t, wf_tx t /\ b = enc_tx t ++ bytes (remaining pr) /\ txid_model (parsed pr) = Ok (H (enc_stripped t)).
  Proof.
    intros brk p b h pr h' HD HV.
    destruct (C10_preimage_is_stripped_serialization brk p b h pr h' HD HV) as [t [x [y [z [Hwf [Hb [HP [HS _]]]]]]]].
    exists t. split; [exact Hwf|split; [exact Hb|]]. unfold txid_model. rewrite HP, streaming, HS. reflexivity.
  Qed.

  (* BlockHeader::block_hash / Block::block_hash: the hash of the 80 header bytes *)
  Theorem C10_block_hash_preimage : forall brk p b h pr h', In63 b -> visit_header brk (sl p b) h = (Ok pr, h') ->
    exists c rest, b = c ++ rest /\ lenN c = 80 /\ h_slice (parsed pr) = sl p c.
  Proof.
    intros brk p b h pr h' HD HV. destruct (header_parsed_is_spec brk p b h pr h' HD HV) as [a [_ [Hb [Hs [L _]]]]].
    exists (enc_header a), (bytes (remaining pr)). split; [exact Hb|split; [exact L|exact Hs]].
  Qed.
End Hashing.

(* ---- layer 2: SHA-256 inside the model ---- *)

(* the streaming engine computes the one-shot function whatever the chunking: the hypothesis [streaming]
   above is a theorem for the modelled engine *)
Theorem C10_sha256_streaming_law : forall chunks,
  sha_finish (fold_left sha_update chunks sha_init) = sha256 (concat chunks).
Proof. exact sha_stream_chunks. Qed.

Theorem C10_sha256_engine_satisfies_section_hypothesis : forall a b c,
  sha_finish_d (sha_update (sha_update (sha_update sha_init a) b) c) = sha256d (a ++ b ++ c).
Proof. exact sha_stream3_d. Qed.

(* Transaction::txid and Transaction::txid_sha2 *)
Theorem C10_txid_is_double_sha256_of_stripped : forall brk p b h pr h', InLen b ->
  visit_transaction brk (sl p b) h = (Ok pr, h') ->
  exists t, wf_tx t /\ b = enc_tx t ++ bytes (remaining pr) /\
            tx_txid (parsed pr) = Ok (sha256d (enc_stripped t)) /\ tx_txid_sha2 (parsed pr) = Ok (sha256d (enc_stripped t)).
Proof. exact tx_txid_spec. Qed.

(* BlockHeader::block_hash / block_hash_sha2 *)
Theorem C10_header_hash_is_double_sha256_of_80_bytes : forall brk p b h pr h', In63 b ->
  visit_header brk (sl p b) h = (Ok pr, h') ->
  exists c, b = c ++ bytes (remaining pr) /\ lenN c = 80 /\
            header_block_hash (parsed pr) = sha256d c /\ header_block_hash_sha2 (parsed pr) = sha256d c.
Proof. exact header_block_hash_spec. Qed.

(* Block::block_hash / block_hash_sha2 *)
Theorem C10_block_hash_is_double_sha256_of_header : forall brk p b h pr h', InLen b ->
  visit_block brk (sl p b) h = (Ok pr, h') ->
  exists a, wf_block a /\ b = enc_block a ++ bytes (remaining pr) /\
            block_block_hash (parsed pr) = sha256d (enc_header (ab_header a)) /\
            block_block_hash_sha2 (parsed pr) = sha256d (enc_header (ab_header a)) /\
            firstn 80 b = enc_header (ab_header a).
Proof. exact block_block_hash_spec. Qed.

Theorem C10_digest_is_32_bytes : forall m, length (sha256d m) = 32%nat.
Proof. intros m. apply sha256_length. Qed.

(* non-vacuity of layer 2: FIPS 180-4 vectors, the genesis block hash, a txid that differs from the wtxid *)
Example C10_sha256_vectors :
  hex_of (sha256 [x61; x62; x63]) =
    [0xba;0x78;0x16;0xbf;0x8f;0x01;0xcf;0xea;0x41;0x41;0x40;0xde;0x5d;0xae;0x22;0x23;
     0xb0;0x03;0x61;0xa3;0x96;0x17;0x7a;0x9c;0xb4;0x10;0xff;0x61;0xf2;0x00;0x15;0xad] /\
  hex_of (sha256 msg56) =
    [0x24;0x8d;0x6a;0x61;0xd2;0x06;0x38;0xb8;0xe5;0xc0;0x26;0x93;0x0c;0x3e;0x60;0x39;
     0xa3;0x3c;0xe4;0x59;0x64;0xff;0x21;0x67;0xf6;0xec;0xed;0xd4;0x19;0xdb;0x06;0xc1].
Proof. split; [exact sha256_abc|exact sha256_two_blocks]. Qed.
Example C10_genesis_block_hash :
  match visit_header never (sl 0 (enc_header genesis_header ++ [x01])) [] with
  | (Ok pr, _) => hex_of (header_block_hash (parsed pr)) =
      [0x6f;0xe2;0x8c;0x0a;0xb6;0xf1;0xb3;0x72;0xc1;0xa6;0xa2;0x46;0xae;0x63;0xf7;0x4f;
       0x93;0x1e;0x83;0x65;0xe1;0x5a;0x08;0x9c;0x68;0xd6;0x19;0x00;0x00;0x00;0x00;0x00]
  | _ => False
  end.
Proof. exact genesis_block_hash. Qed.

(* non-vacuity: the segwit example transaction is parsed (with trailing bytes, at a non-zero offset) *)
Example C10_example : InLen (ex_tx_bytes ++ ex_trailing) /\ exists pr h',
  visit_transaction never (sl 5 (ex_tx_bytes ++ ex_trailing)) [] = (Ok pr, h') /\ bytes (remaining pr) = ex_trailing.
Proof. split; [exact ex_tx_InLen|exact ex_tx_visit]. Qed.
