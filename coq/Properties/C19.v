(* C19 — conversions to rust-bitcoin types equal rust-bitcoin's own decoding (crate side proved,
   library side differential); searching a block for a transaction id.
   rust-bitcoin's decoder is not modelled: the harness decodes the same bytes with rust-bitcoin on
   every run and compares for equality and re-serialisation.  What is proved: the converted values
   are exactly the values Spec/Wire.v defines for those bytes, and FindTransaction stops at the
   first transaction its predicate selects. *)
From BS Require Import Impl.Visit Impl.Access Ref.MetaDefs Proofs.ImplRefLeaf Proofs.ImplRefTx Proofs.Transfer Proofs.Entries
  Proofs.SpecLemmas Proofs.RefSpec Proofs.SpecTransfer Proofs.ObjSpec Proofs.Interop Proofs.FindSpec Proofs.Examples.
Open Scope N_scope.

(* Into<bitcoin::TxOut>: (amount, script without its length prefix) of the wire structure; the
   serialized view is enc_txout of exactly that pair (it re-serializes to those bytes) *)
Theorem C19_txout_conversion : forall p b pr, In63 b -> parse_txout (sl p b) = Ok pr ->
  exists a, wf_txout a /\ b = enc_txout a ++ bytes (remaining pr) /\ bytes (to_slice (parsed pr)) = enc_txout a /\
            to_rb_txout (parsed pr) = Ok (ao_value a, ao_spk a).
Proof. exact to_rb_txout_spec. Qed.

(* Into<bitcoin::OutPoint>: (32 id bytes, little-endian index) *)
Theorem C19_outpoint_conversion : forall p b pr, In63 b -> parse_outpoint (sl p b) = Ok pr ->
  exists t v, b = (t ++ v) ++ bytes (remaining pr) /\ lenN t = 32 /\ lenN v = 4 /\
              op_slice (parsed pr) = sl p (t ++ v) /\ to_rb_outpoint (parsed pr) = Ok (t, le_dec v).
Proof. exact to_rb_outpoint_spec. Qed.

(* FindTransaction on a block: with [m] the predicate "this transaction has the wanted id", the visit
   stops with VisitBreak at the FIRST transaction callback selected by m, having delivered exactly the
   callbacks up to and including it; if no transaction is selected the visit is the never-breaking one *)
Theorem C19_find_transaction_first_match : forall m p b h, InLen b ->
  exists d, snd (visit_block never (sl p b) h) = rev d ++ h /\
    visit_block (brk_find m) (sl p b) h =
    match upto_first m d with
    | Some l => (Err VisitBreak, rev l ++ h)
    | None => visit_block never (sl p b) h
    end.
Proof.
  intros m p b h HD. destruct (T_break E_block (brk_find m) p b h HD) as [d [Hd Hb]].
  exists d. split; [exact Hd|]. cbn [e_visit E_block] in Hb. rewrite Hb, cut_find.
  destruct (upto_first m d); reflexivity.
Qed.

(* what "first" means: the selected callback is a transaction callback satisfying m, none before it does *)
Theorem C19_first_match_characterised : forall m d l, upto_first m d = Some l ->
  exists pre e, l = pre ++ [e] /\ is_tx e = true /\ m e = true /\
                (forall x, In x pre -> is_tx x && m x = false) /\ exists post, d = l ++ post.
Proof. exact upto_first_spec. Qed.
Theorem C19_no_match_characterised : forall m d, upto_first m d = None -> forall x, In x d -> is_tx x && m x = false.
Proof. exact upto_first_none. Qed.

(* ---- FindTransaction made concrete: SHA-256 is inside the model (Base/Sha256.v), the visitor's predicate is
   "the double SHA-256 of the three preimage windows, read from the input, equals the wanted id"
   ([find_oracle], Impl/Access.v), and [find_transaction] is Block::visit with it followed by tx_found().
   [has_id id t] : the double SHA-256 of the witness-stripped serialization of t is id. ---- *)

(* the search finds a transaction iff the block contains one with that id, returns the FIRST such transaction
   (List.find) - exactly its serialized bytes, which the crate hands to rust-bitcoin's decoder - and reports
   VisitBreak; otherwise the whole block is visited and nothing is returned *)
Theorem C19_find_transaction_by_txid : forall a rest id, wf_block a -> InLen (enc_block a ++ rest) ->
  let b := enc_block a ++ rest in
  match find (has_id id) (ab_txs a) with
  | Some t => find_transaction b id = (Err VisitBreak, Some (enc_tx t))
  | None => exists pr, find_transaction b id = (Ok pr, None) /\ bytes (remaining pr) = rest
  end.
Proof. exact find_transaction_spec. Qed.

(* ... and stops the visit at it: the callbacks delivered are the traversal of the block up to and including the
   callback of that transaction, no transaction before it has the id *)
Theorem C19_find_transaction_stops_at_first : forall a rest id t, wf_block a -> InLen (enc_block a ++ rest) ->
  let b := enc_block a ++ rest in
  find (has_id id) (ab_txs a) = Some t ->
  exists before after q l post,
    ab_txs a = before ++ t :: after /\ forallb (fun x => negb (has_id id x)) before = true /\ has_id id t = true /\
    trav_block 0 a = l ++ ev_tx q t :: post /\
    visit_block (find_oracle b id) (top b) [] = (Err VisitBreak, rev (l ++ [ev_tx q t])).
Proof. exact find_transaction_trace. Qed.

Theorem C19_has_id_is_txid_equality : forall id t, has_id id t = true <-> sha256d (enc_stripped t) = id.
Proof. intros id t. unfold has_id. apply bytes_eqb_eq. Qed.

(* non-vacuity: the three-transaction example block searched for the id of its second transaction *)
Example C19_find_example :
  find_transaction (ex_block_bytes ++ ex_trailing) (sha256d (enc_stripped ex_tx_segwit)) = (Err VisitBreak, Some (enc_tx ex_tx_segwit)) /\
  snd (find_transaction (ex_block_bytes ++ ex_trailing) (sha256d (enc_tx ex_tx_segwit))) = None.
Proof. split; vm_compute; reflexivity. Qed.

(* non-vacuity: an output and an outpoint parsed at a non-zero offset with trailing bytes, converted *)
Example C19_example :
  match parse_txout (sl 2 (enc_txout ex_out1 ++ [x00])) with
  | Ok pr => to_rb_txout (parsed pr) = Ok (5000000000, [x76; xa9; x14]) /\ bytes (remaining pr) = [x00]
  | _ => False
  end /\
  match parse_outpoint (sl 9 (ai_txid ex_in2 ++ [xff; xff; xff; xff; x01])) with
  | Ok pr => to_rb_outpoint (parsed pr) = Ok (repeat xaa 32, 4294967295)
  | _ => False
  end.
Proof. split; vm_compute; repeat split. Qed.
