(* C18 — fixed-width integer codecs are exact little-endian bijections.
   Statements only; proofs are in Proofs/Numbers.v.  [w] is the width in bytes (1, 2, 4, 8):
   the theorems hold for every width and every value, by induction on the width. *)
From BS Require Import Impl.Leaf Proofs.Numbers.
Open Scope N_scope.

Theorem C18_wrap_unwrap : forall (w : nat) v, v < 256 ^ N.of_nat w -> num_to_prim (num_from_prim w v) = v.
Proof. exact wrap_unwrap. Qed.

Theorem C18_wrap_unwrap_i32 : forall z, (-2147483648 <= z < 2147483648)%Z -> num_to_i32 (num_from_i32 z) = z.
Proof. exact wrap_unwrap_i32. Qed.

Theorem C18_serialized_view_is_le : forall (w : nat) v, num_as_ref (num_from_prim w v) = le_enc w v.
Proof. exact as_ref_le. Qed.

(* parsing the little-endian bytes followed by anything returns the value, exactly the width consumed *)
Theorem C18_parse : forall (w : nat) v p rest,
  parse_num (N.of_nat w) {| off := p; bytes := le_enc w v ++ rest |}
  = Ok {| remaining := {| off := p + N.of_nat w; bytes := rest |}; parsed := num_from_prim w v |}.
Proof. exact parse_le. Qed.

Theorem C18_read : forall (w : nat) v p rest, v < 256 ^ N.of_nat w ->
  read_le (N.of_nat w) {| off := p; bytes := le_enc w v ++ rest |} = Ok v.
Proof. exact read_le_ok. Qed.

(* shorter inputs report MoreBytesNeeded *)
Theorem C18_short_parse : forall w s, s_len s < w -> parse_num w s = Err MoreBytesNeeded.
Proof. exact parse_short. Qed.
Theorem C18_short_read : forall w s, s_len s < w -> read_le w s = Err MoreBytesNeeded.
Proof. exact read_short. Qed.

(* a successful parse consumed exactly the little-endian encoding of the value it returns *)
Theorem C18_parse_unique : forall w s r, parse_num w s = Ok r ->
  bytes s = le_enc (N.to_nat w) (num_to_prim (parsed r)) ++ bytes (remaining r) /\
  lenN (num_as_ref (parsed r)) = w /\ off (remaining r) = off s + w.
Proof. exact parse_unique. Qed.

(* parse and read are total: a value or MoreBytesNeeded, never a panic *)
Theorem C18_total_parse : forall w s, (exists r, parse_num w s = Ok r) \/ parse_num w s = Err MoreBytesNeeded.
Proof. exact parse_num_total. Qed.
Theorem C18_total_read : forall w s, (exists v, read_le w s = Ok v) \/ read_le w s = Err MoreBytesNeeded.
Proof. exact read_le_total. Qed.

(* to_len succeeds exactly when that width is the minimal compact-size width of the value *)
Theorem C18_to_len_u16 : forall v, v < 65536 ->
  to_len_u16 (num_from_prim 2 v) = if cs_width_of v =? 3 then Ok {| len_consumed := 3; len_n := v |} else Err NonMinimalVarInt.
Proof. exact to_len_u16_spec. Qed.
Theorem C18_to_len_u32 : forall v, v < 4294967296 ->
  to_len_u32 (num_from_prim 4 v) = if cs_width_of v =? 5 then Ok {| len_consumed := 5; len_n := v |} else Err NonMinimalVarInt.
Proof. exact to_len_u32_spec. Qed.
Theorem C18_to_len_u64 : forall v, v < 18446744073709551616 ->
  to_len_u64 (num_from_prim 8 v) = if cs_width_of v =? 9 then Ok {| len_consumed := 9; len_n := v |} else Err NonMinimalVarInt.
Proof. exact to_len_u64_spec. Qed.

Example C18_example :
  parse_num 4 (top [x78; xec; xff; xff; x09]) = Ok {| remaining := {| off := 4; bytes := [x09] |}; parsed := num_from_i32 (-5000) |} /\
  to_len_u32 (num_from_prim 4 65535) = Err NonMinimalVarInt.
Proof. vm_compute. split; reflexivity. Qed.
