(* C15 — the result is independent of the visitor; re-parsing parsed bytes is the identity.
   In the crate, [parse] IS [visit] with the empty visitor (src/visit.rs), modelled by the oracle [never]. *)
From BS Require Import Impl.Visit Ref.MetaDefs Proofs.ImplRefLeaf Proofs.Transfer Proofs.Entries Proofs.Examples.
Open Scope N_scope.

(* visiting with any visitor that never breaks returns the result (and delivers the callbacks) of parse *)
Theorem C15_visitor_independent : forall E, covered E -> forall brk p b h, e_D E b ->
  (forall hh e, breakable e = true -> brk hh e = false) ->
  e_visit E brk (sl p b) h = e_visit E never (sl p b) h.
Proof. intros E _. exact (T_nonbreaking E). Qed.

(* parsing / self-visiting the serialized bytes of a parsed object succeeds with an equal object,
   an empty remainder and the same callback sequence (same final history h') *)
Theorem C15_reparse_identity : forall E, covered E -> forall brk p b h pr h',
  e_D E b -> e_visit E brk (sl p b) h = (Ok pr, h') ->
  e_visit E brk (sl p (bytes (e_sl E (parsed pr)))) h =
  (Ok {| remaining := sl (off (remaining pr)) []; parsed := parsed pr |}, h').
Proof. intros E _. exact (T_exact E). Qed.

(* non-vacuity: the example block is parsed; its serialized view can be fed back *)
Example C15_example : covered E_block /\ e_D E_block (ex_block_bytes ++ ex_trailing) /\
  exists pr h', e_visit E_block never (sl 3 (ex_block_bytes ++ ex_trailing)) [] = (Ok pr, h').
Proof. split; [constructor|split; [exact ex_block_InLen|]]. destruct ex_block_visit as [pr [h' [H _]]]. exists pr, h'. exact H. Qed.
