(* C01 — parsing untrusted bytes never panics and always terminates; callbacks are bounded.
   The Impl model makes every Rust panic explicit (checked arithmetic, slice indexing, expect) and
   runs its loops on fuel; the theorems say the outcome is never Panic and never OutOfFuel. *)
From BS Require Import Impl.Visit Ref.MetaDefs Proofs.ImplRefLeaf Proofs.Transfer Proofs.Entries Proofs.Numbers Proofs.Len.
Open Scope N_scope.

(* every bsl entry point, every input, every visitor: a value or an error — never a panic, and the
   loop fuel (one more than the input length) is never exhausted: no loop runs without consuming input *)
Theorem C01_no_panic_terminates : forall E, covered E -> forall brk p b h, e_D E b ->
  (exists pr h', e_visit E brk (sl p b) h = (Ok pr, h')) \/ (exists e h', e_visit E brk (sl p b) h = (Err e, h')).
Proof. intros E _. exact (T_total E). Qed.

(* at most 3 * len + 1 visitor callbacks whatever element counts the bytes declare *)
Theorem C01_callbacks_bounded : forall E, covered E -> forall brk p b, e_D E b ->
  lenN (snd (e_visit E brk (sl p b) [])) <= 3 * lenN b + 1.
Proof. intros E _. exact (T_bound E). Qed.

(* compact size and fixed-width integers *)
Theorem C01_scan_len_no_panic : forall s c, c < 4611686018427387904 ->
  forall w c', scan_len s c <> (Panic w, c') /\ scan_len s c <> (OutOfFuel, c').
Proof. exact scan_len_no_panic. Qed.
Theorem C01_parse_len_no_panic : forall s w, parse_len s <> Panic w /\ parse_len s <> OutOfFuel.
Proof.
  intros s w. rewrite parse_len_agrees.
  assert (H0 : 0 < 4611686018427387904) by reflexivity.
  destruct (scan_len s 0) as [[n| e| w'|] c'] eqn:E; cbn [project]; split; try discriminate.
  - exfalso. exact (proj1 (scan_len_no_panic s 0 H0 w' c') E).
  - exfalso. exact (proj2 (scan_len_no_panic s 0 H0 AddOverflow c') E).
Qed.
Theorem C01_numbers_total : forall w s,
  ((exists r, parse_num w s = Ok r) \/ parse_num w s = Err MoreBytesNeeded) /\
  ((exists v, read_le w s = Ok v) \/ read_le w s = Err MoreBytesNeeded).
Proof. intros w s. split; [apply parse_num_total|apply read_le_total]. Qed.

(* accessors of parsed objects: the accessor calls made on the object handed to the visitor / returned
   (script bytes, previous outpoint id and index, signature script, amount, script) cannot panic *)
Theorem C01_txin_accessors : forall i p b pr, In63 b -> parse_txin (sl p b) = Ok pr ->
  exists ev, txin_event i (parsed pr) = Ok ev.
Proof.
  intros i p b pr HD. rewrite (parse_txin_l p b HD).
  destruct (l_txin b) as [[[[[t v] cb] sg] q] r|e] eqn:L; [|discriminate].
  destruct (l_txin_ok _ _ _ _ _ _ _ L) as [_ [Lt [Lv [_ Lq]]]].
  intros HH. injection HH as <-. cbn [parsed]. eexists. apply (txin_event_ok i p t v cb sg q Lt Lv Lq).
Qed.
Theorem C01_txout_accessors : forall i p b pr, In63 b -> parse_txout (sl p b) = Ok pr ->
  exists ev, txout_event i (parsed pr) = Ok ev.
Proof.
  intros i p b pr HD. rewrite (parse_txout_l p b HD).
  destruct (l_txout b) as [[[v cb] spk] r|e] eqn:L; [|discriminate].
  destruct (l_txout_ok _ _ _ _ _ L) as [_ [Lv _]].
  intros HH. injection HH as <-. cbn [parsed]. eexists. apply (txout_event_ok i p v cb spk Lv).
Qed.
Theorem C01_script_accessor : forall p b pr, In63 b -> parse_script (sl p b) = Ok pr ->
  exists s, script_script (parsed pr) = Ok s.
Proof.
  intros p b pr HD. rewrite (parse_script_l p b HD).
  destruct (l_script b) as [[cb d] r|e]; [|discriminate].
  intros HH. injection HH as <-. cbn [parsed]. eexists. apply script_script_ok.
Qed.
