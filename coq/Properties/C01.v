(* C01 — parsing untrusted bytes never panics and always terminates; callbacks are bounded.
   The Impl model makes every Rust panic explicit (checked arithmetic, slice indexing, expect) and
   runs its loops on fuel; the theorems say the outcome is never Panic and never OutOfFuel. *)
From BS Require Import Impl.Visit Impl.Access Ref.MetaDefs Proofs.ImplRefLeaf Proofs.ImplRefTx Proofs.Transfer Proofs.Entries Proofs.Numbers Proofs.Len
  Proofs.SpecLemmas Proofs.RefSpec Proofs.SpecTransfer Proofs.TxSpec Proofs.ObjSpec Proofs.IterSpec Proofs.Examples.
Open Scope N_scope.

(* every bsl entry point, every input, every visitor: a value or an error — never a panic, and the
   loop fuel (one more than the input length) is never exhausted: no loop runs without consuming input *)
Theorem C01_no_panic_terminates : forall E, covered E -> forall brk p b h, e_D E b ->
  (exists pr h', e_visit E brk (sl p b) h = (Ok pr, h')) \/ (exists e h', e_visit E brk (sl p b) h = (Err e, h')).
Proof. intros E _. exact (T_total E). Qed.

(* at most 3 * len + 1 visitor callbacks whatever element counts the bytes declare *)
Theorem C01_callbacks_bounded : forall E, covered E -> forall brk p b, e_D E b ->
  lenN (snd (e_visit E brk (sl p b) [])) <= 3 * lenN b + 1.
Proof. intros E _. exact (T_bound E). Qed.

(* compact size and fixed-width integers *)
Theorem C01_scan_len_no_panic : forall s c, c < 4611686018427387904 ->
  forall w c', scan_len s c <> (Panic w, c') /\ scan_len s c <> (OutOfFuel, c').
Proof. exact scan_len_no_panic. Qed.
Theorem C01_parse_len_no_panic : forall s w, parse_len s <> Panic w /\ parse_len s <> OutOfFuel.
Proof.
  intros s w. rewrite parse_len_agrees.
  assert (H0 : 0 < 4611686018427387904) by reflexivity.
  destruct (scan_len s 0) as [[n| e| w'|] c'] eqn:E; cbn [project]; split; try discriminate.
  - exfalso. exact (proj1 (scan_len_no_panic s 0 H0 w' c') E).
  - exfalso. exact (proj2 (scan_len_no_panic s 0 H0 AddOverflow c') E).
Qed.
Theorem C01_numbers_total : forall w s,
  ((exists r, parse_num w s = Ok r) \/ parse_num w s = Err MoreBytesNeeded) /\
  ((exists v, read_le w s = Ok v) \/ read_le w s = Err MoreBytesNeeded).
Proof. intros w s. split; [apply parse_num_total|apply read_le_total]. Qed.

(* accessors of parsed objects: the accessor calls made on the object handed to the visitor / returned
   (script bytes, previous outpoint id and index, signature script, amount, script) cannot panic *)
Theorem C01_txin_accessors : forall i p b pr, In63 b -> parse_txin (sl p b) = Ok pr ->
  exists ev, txin_event i (parsed pr) = Ok ev.
Proof.
  intros i p b pr HD. rewrite (parse_txin_l p b HD).
  destruct (l_txin b) as [[[[[t v] cb] sg] q] r|e] eqn:L; [|discriminate].
  destruct (l_txin_ok _ _ _ _ _ _ _ L) as [_ [Lt [Lv [_ Lq]]]].
  intros HH. injection HH as <-. cbn [parsed]. eexists. apply (txin_event_ok i p t v cb sg q Lt Lv Lq).
Qed.
Theorem C01_txout_accessors : forall i p b pr, In63 b -> parse_txout (sl p b) = Ok pr ->
  exists ev, txout_event i (parsed pr) = Ok ev.
Proof.
  intros i p b pr HD. rewrite (parse_txout_l p b HD).
  destruct (l_txout b) as [[[v cb] spk] r|e] eqn:L; [|discriminate].
  destruct (l_txout_ok _ _ _ _ _ L) as [_ [Lv _]].
  intros HH. injection HH as <-. cbn [parsed]. eexists. apply (txout_event_ok i p v cb spk Lv).
Qed.
Theorem C01_script_accessor : forall p b pr, In63 b -> parse_script (sl p b) = Ok pr ->
  exists s, script_script (parsed pr) = Ok s.
Proof.
  intros p b pr HD. rewrite (parse_script_l p b HD).
  destruct (l_script b) as [[cb d] r|e]; [|discriminate].
  intros HH. injection HH as <-. cbn [parsed]. eexists. apply script_script_ok.
Qed.

(* version, lock time, txid preimage and weight of every successfully parsed transaction *)
Theorem C01_transaction_accessors : forall brk p b h pr h', InLen b -> visit_transaction brk (sl p b) h = (Ok pr, h') ->
  exists ev, tx_event (parsed pr) = Ok ev.
Proof.
  intros brk p b h pr h' HD HV. destruct (tx_parsed_is_obj brk p b h pr h' HD HV) as [t [Hwf [Hb [Hp _]]]].
  exists (ev_tx p t). rewrite Hp. apply tx_event_spec; [exact Hwf|]. rewrite Hb in HD. exact (InLen_prefix _ _ HD).
Qed.

(* previous block hash and merkle root of every successfully parsed header *)
Theorem C01_header_accessors : forall brk p b h pr h', In63 b -> visit_header brk (sl p b) h = (Ok pr, h') ->
  exists x y, header_prev_blockhash (parsed pr) = Ok x /\ header_merkle_root (parsed pr) = Ok y.
Proof.
  intros brk p b h pr h' HD HV. destruct (header_parsed_is_spec brk p b h pr h' HD HV) as [a [_ [_ [_ [_ [_ [_ [_ [A B]]]]]]]]].
  eexists. eexists. split; [exact A|exact B].
Qed.

(* the outputs iterator of every successfully parsed output list, driven to exhaustion *)
Theorem C01_iterator_total : forall brk p b h pr h', In63 b -> visit_txouts brk (sl p b) h = (Ok pr, h') ->
  exists it res, txouts_iter (parsed pr) = Ok it /\
                 iter_collect (S (length (bytes (tos_slice (parsed pr))))) it = Ok res.
Proof.
  intros brk p b h pr h' HD HV.
  destruct (T_ok_is_encoding_any E_txouts S_txouts brk p b h pr h' HD HV) as [l [Hwf [Hb [_ [_ [_ [x [Hx Hp]]]]]]]].
  cbn [s_proj S_txouts spec_of_decodes] in Hx. subst x.
  change (parsed pr = mk_txouts (sl p (enc_txouts l)) l h') in Hp.
  assert (H63 : In63 (enc_txouts l)). { cbn [s_enc S_txouts spec_of_decodes] in Hb. rewrite Hb in HD. exact (In63_prefix _ _ HD). }
  destruct (iter_of_parsed_outputs p l Hwf H63) as [it [res [A [_ [_ [B _]]]]]].
  exists it, res. rewrite Hp. unfold mk_txouts. cbn [tos_slice bytes sl]. split; [exact A|exact B].
Qed.

(* non-vacuity: the quantified domain contains the example block (a header and three transactions) at a non-zero offset *)
Example C01_example : covered E_block /\ e_D E_block (ex_block_bytes ++ ex_trailing) /\
  exists pr h', visit_block never (sl 3 (ex_block_bytes ++ ex_trailing)) [] = (Ok pr, h').
Proof. split; [constructor|split; [exact ex_block_InLen|]]. destruct ex_block_visit as [pr [h' [H _]]]. exists pr, h'. exact H. Qed.
