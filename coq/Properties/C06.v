(* C06 — cache lookups return exactly the bytes inserted under that key, or nothing.
   Content theorems hold for histories in which no zero-length value has been stored
   (known finding F2, refuted below for the general case).  Proofs: Proofs/CacheRing.v, CacheFifo.v. *)
From BS Require Import Impl.Access Spec.Wire Spec.CacheSpec Proofs.ImplRefTx Proofs.TxSpec Proofs.CacheWF Proofs.CacheFifo Proofs.CacheRing
  Proofs.CacheValue.
Open Scope N_scope.

(* a lookup returns nothing or exactly the bytes of the latest successful insertion under that key *)
Theorem C06_get_returns_latest :
  forall capacity ops c hist, run capacity ops = Some (c, hist) -> NoEmptyStored hist ->
  forall k v, get c k = COk (Some v) -> latest hist k = Some v.
Proof. exact C06_get_latest. Qed.

(* immediately after a successful insertion the inserted key returns the inserted bytes
   (every history, zero-length values included: the repaired self-eviction defect F1) *)
Theorem C06_fresh_key_retrievable :
  forall capacity ops c0 hist0 k v, run capacity ops = Some (c0, hist0) ->
  forall n c, insert c0 k v = (COk n, c) ->
  run capacity (ops ++ [(k, v)]) = Some (c, hist0 ++ [(k, v)]) /\ get c k = COk (Some v).
Proof. exact C06_fresh. Qed.

(* storage regions of distinct retrievable entries never overlap and lie inside the buffer *)
Theorem C06_regions_disjoint :
  forall capacity ops c hist, run capacity ops = Some (c, hist) -> NoEmptyStored hist ->
  forall k1 k2 r1 r2, In k1 (c_queue c) -> In k2 (c_queue c) -> k1 <> k2 ->
  lookup k1 (c_indexes c) = Some r1 -> lookup k2 (c_indexes c) = Some r2 ->
  overlaps r1 r2 = false /\ r_begin r1 < r_end r1 /\ r_end r1 <= capacity.
Proof. exact C06_disjoint. Qed.

(* lookups never panic on a reachable state *)
Theorem C06_get_total : forall c hist k, reachable c hist -> get c k <> CPanic.
Proof. intros c hist k H. apply get_no_panic. exact (reachable_WF c hist H). Qed.

(* the typed lookup get_value::<Transaction> (redb feature) decodes exactly the stored bytes: it is absent, or
   [from_bytes] of the bytes most recently stored under that key ... *)
Theorem C06_get_value_is_from_bytes_of_latest :
  forall capacity ops c hist, run capacity ops = Some (c, hist) -> NoEmptyStored hist -> forall k,
  (get c k = COk None /\ get_value tx_from_stored c k = COk None) \/
  (exists v, get c k = COk (Some v) /\ latest hist k = Some v /\ get_value tx_from_stored c k = COk (Some (tx_from_stored v))).
Proof. exact get_value_tx_cases. Qed.

(* ... which, when those bytes begin with a well-formed transaction encoding, is that transaction
   (slice, preimage split and weight as Proofs/TxSpec.v states them for [obj_tx]); other bytes make
   [from_bytes] panic (Transaction::from_bytes unwraps the parse result), and conversely *)
Theorem C06_get_value_transaction :
  forall capacity ops c hist, run capacity ops = Some (c, hist) -> NoEmptyStored hist ->
  forall k t rest, wf_tx t -> InLen (enc_tx t ++ rest) ->
  get c k = COk (Some (enc_tx t ++ rest)) ->
  latest hist k = Some (enc_tx t ++ rest) /\ get_value tx_from_stored c k = COk (Some (Ok (obj_tx 0 t))).
Proof. exact get_value_tx_latest. Qed.

Theorem C06_from_bytes_ok_only_on_encodings :
  forall v x, InLen v -> tx_from_stored v = Ok x -> exists t rest, wf_tx t /\ v = enc_tx t ++ rest /\ x = obj_tx 0 t.
Proof. exact tx_from_stored_ok. Qed.

Theorem C06_get_value_fresh :
  forall capacity ops c0 hist0 k t, run capacity ops = Some (c0, hist0) -> wf_tx t -> InLen (enc_tx t) ->
  forall n c, insert c0 k (enc_tx t) = (COk n, c) ->
  get_value tx_from_stored c k = COk (Some (Ok (obj_tx 0 t))).
Proof. exact get_value_tx_fresh. Qed.

(* KNOWN FINDING F2: without the hypothesis the statement is false (capacity 4, sizes 4,0,2,2,1) *)
Theorem C06_empty_value_refuted :
  ~ (forall capacity ops c hist, run capacity ops = Some (c, hist) ->
     forall k v, get c k = COk (Some v) -> latest hist k = Some v).
Proof. exact F2_refuted'. Qed.

Example C06_hypotheses_satisfiable : exists c hist, run 6 ex_ops = Some (c, hist) /\ NoEmptyStored hist /\ length hist = 6%nat.
Proof. destruct ring_sanity as [c [hist [H1 [H2 [H3 _]]]]]. exists c, hist. repeat split; assumption. Qed.
