(* C06 — cache lookups return exactly the bytes inserted under that key, or nothing.
   Content theorems hold for histories in which no zero-length value has been stored
   (known finding F2, refuted below for the general case).  Proofs: Proofs/CacheRing.v, CacheFifo.v. *)
From BS Require Import Spec.CacheSpec Proofs.CacheWF Proofs.CacheFifo Proofs.CacheRing.
Open Scope N_scope.

(* a lookup returns nothing or exactly the bytes of the latest successful insertion under that key *)
Theorem C06_get_returns_latest :
  forall capacity ops c hist, run capacity ops = Some (c, hist) -> NoEmptyStored hist ->
  forall k v, get c k = COk (Some v) -> latest hist k = Some v.
Proof. exact C06_get_latest. Qed.

(* immediately after a successful insertion the inserted key returns the inserted bytes
   (every history, zero-length values included: the repaired self-eviction defect F1) *)
Theorem C06_fresh_key_retrievable :
  forall capacity ops c0 hist0 k v, run capacity ops = Some (c0, hist0) ->
  forall n c, insert c0 k v = (COk n, c) ->
  run capacity (ops ++ [(k, v)]) = Some (c, hist0 ++ [(k, v)]) /\ get c k = COk (Some v).
Proof. exact C06_fresh. Qed.

(* storage regions of distinct retrievable entries never overlap and lie inside the buffer *)
Theorem C06_regions_disjoint :
  forall capacity ops c hist, run capacity ops = Some (c, hist) -> NoEmptyStored hist ->
  forall k1 k2 r1 r2, In k1 (c_queue c) -> In k2 (c_queue c) -> k1 <> k2 ->
  lookup k1 (c_indexes c) = Some r1 -> lookup k2 (c_indexes c) = Some r2 ->
  overlaps r1 r2 = false /\ r_begin r1 < r_end r1 /\ r_end r1 <= capacity.
Proof. exact C06_disjoint. Qed.

(* lookups never panic on a reachable state *)
Theorem C06_get_total : forall c hist k, reachable c hist -> get c k <> CPanic.
Proof. intros c hist k H. apply get_no_panic. exact (reachable_WF c hist H). Qed.

(* KNOWN FINDING F2: without the hypothesis the statement is false (capacity 4, sizes 4,0,2,2,1) *)
Theorem C06_empty_value_refuted :
  ~ (forall capacity ops c hist, run capacity ops = Some (c, hist) ->
     forall k v, get c k = COk (Some v) -> latest hist k = Some v).
Proof. exact F2_refuted'. Qed.

Example C06_hypotheses_satisfiable : exists c hist, run 6 ex_ops = Some (c, hist) /\ NoEmptyStored hist /\ length hist = 6%nat.
Proof. destruct ring_sanity as [c [hist [H1 [H2 [H3 _]]]]]. exists c, hist. repeat split; assumption. Qed.
