(* C17 — iterating parsed outputs yields what the visitor saw, with exact length.
   [iter_spec j q m l res]: the items [res] produced by the iterator (each with the value of len()
   right after it was produced) are, in order, the outputs of [l]: item number j has the serialized
   view at offset q and is described by exactly the callback [ev_txout j q a] the visitor received
   (same window, amount, script window); len() afterwards is m - 1. *)
From BS Require Import Impl.Visit Impl.Access Ref.MetaDefs Proofs.ImplRefLeaf Proofs.Transfer Proofs.Entries
  Proofs.SpecLemmas Proofs.RefSpec Proofs.SpecTransfer Proofs.IterSpec.
Open Scope N_scope.

(* a successfully parsed output list is the object [obj_txouts p l] of a well-formed list l,
   and the visitor saw exactly trav_txouts p l *)
Theorem C17_parsed_outputs : forall brk p b h pr h', In63 b -> visit_txouts brk (sl p b) h = (Ok pr, h') ->
  exists l, wf_txouts l /\ b = enc_txouts l ++ bytes (remaining pr) /\
            parsed pr = {| tos_slice := sl p (enc_txouts l); tos_n := lenN l |} /\
            h' = rev (trav_txouts p l) ++ h.
Proof.
  intros brk p b h pr h' HD HV.
  destruct (T_ok_is_encoding_any E_txouts S_txouts brk p b h pr h' HD HV) as [l [Hwf [Hb [_ [_ [Hh [x [Hx Hp]]]]]]]].
  cbn [s_proj S_txouts spec_of_decodes] in Hx. subst x.
  exists l. split; [exact Hwf|split; [exact Hb|split; [exact Hp|exact Hh]]].
Qed.

(* iter() / IntoIterator on that object: len() and size_hint() are the number of outputs before the
   first next(); driving the iterator to exhaustion yields exactly the outputs in order, len()
   decreasing by one at every step; then it ends (iter_collect stops at the first None). *)
Theorem C17_iteration_yields_the_outputs : forall p l, wf_txouts l -> In63 (enc_txouts l) ->
  let x := {| tos_slice := sl p (enc_txouts l); tos_n := lenN l |} in
  exists it res, txouts_iter x = Ok it /\ iter_len it = lenN l /\ iter_size_hint it = (lenN l, Some (lenN l)) /\
    iter_collect (S (length (enc_txouts l))) it = Ok res /\
    iter_spec 0 (p + cs_width (lenN l)) (lenN l) l res /\ length res = length l.
Proof. intros p l Hwf H63. exact (iter_of_parsed_outputs p l Hwf H63). Qed.

(* the callbacks the visitor saw for the outputs are those same events, in the same order *)
Theorem C17_visitor_saw_the_same : forall p l,
  trav_txouts p l = ETxOuts (lenN l) ::
    trav_items (fun i q x => [ev_txout i q x]) enc_txout 0 (p + cs_width (lenN l)) l.
Proof. reflexivity. Qed.

Definition c17_outs : list a_txout := [{| ao_value := 5; ao_spk := [x51] |}; {| ao_value := 9; ao_spk := [] |}].
Example C17_example :
  match txouts_iter {| tos_slice := sl 7 (enc_txouts c17_outs); tos_n := 2 |} with
  | Ok it => option_map (map snd) (match iter_collect 30 it with Ok r => Some r | _ => None end) = Some [1; 0]
  | _ => False
  end.
Proof. vm_compute. reflexivity. Qed.
