(* C16 — transaction weight follows BIP141 for every valid transaction.
   Agreement with rust-bitcoin's weight() is checked differentially on every run. *)
From BS Require Import Impl.Visit Ref.MetaDefs Proofs.ImplRefLeaf Proofs.ImplRefTx Proofs.Transfer Proofs.Entries
  Proofs.SpecLemmas Proofs.RefSpec Proofs.SpecTransfer Proofs.TxSpec Proofs.ObjSpec Proofs.Examples.
Open Scope N_scope.

(* weight() of every successfully parsed transaction = 3 * stripped size + total size, without
   overflow; four times the size for the non-segwit encoding *)
Theorem C16_weight_is_bip141 : forall brk p b h pr h', InLen b -> visit_transaction brk (sl p b) h = (Ok pr, h') ->
  exists t, wf_tx t /\ b = enc_tx t ++ bytes (remaining pr) /\
    tx_weight (parsed pr) = Ok (3 * lenN (enc_stripped t) + lenN (enc_tx t)) /\
    (at_form t = Legacy -> tx_weight (parsed pr) = Ok (4 * lenN (enc_tx t))).
Proof.
  intros brk p b h pr h' HD HV. destruct (tx_parsed_is_obj brk p b h pr h' HD HV) as [t [Hwf [Hb [Hp _]]]].
  assert (HL : InLen (enc_tx t)). { rewrite Hb in HD. exact (InLen_prefix _ _ HD). }
  destruct (tx_weight_spec p t Hwf HL) as [A B].
  exists t. rewrite Hp. split; [exact Hwf|split; [exact Hb|split; [exact A|]]].
  intros F. rewrite A, (B F). reflexivity.
Qed.

(* every valid transaction is accepted, so the statement covers all of them *)
Theorem C16_every_valid_transaction : forall p t rest h, wf_tx t -> InLen (enc_tx t ++ rest) ->
  exists pr h', visit_transaction never (sl p (enc_tx t ++ rest)) h = (Ok pr, h') /\
                tx_weight (parsed pr) = Ok (weight_spec t).
Proof.
  intros p t rest h Hwf HD.
  destruct (T_encoding_is_ok E_transaction S_transaction p t rest h Hwf HD) as [x [Hx HV]].
  cbn [s_proj S_transaction spec_of_decodes] in Hx. subst x.
  eexists. eexists. split; [exact HV|]. cbn [parsed].
  change (tx_weight (mk_tx (sl p (enc_tx t)) t (rev (trav_tx p t) ++ h)) = Ok (weight_spec t)).
  rewrite mk_tx_obj. apply tx_weight_spec; [exact Hwf|exact (InLen_prefix _ _ HD)].
Qed.

(* non-vacuity: legacy, segwit and zero-input segwit examples; the model computes the specified weights *)
Example C16_example : wf_tx ex_tx_legacy /\ wf_tx ex_tx_segwit /\ wf_tx ex_tx_noinputs /\
  map (fun t => match visit_transaction never (sl 0 (enc_tx t)) [] with
                | (Ok pr, _) => match tx_weight (parsed pr) with Ok w => Some w | _ => None end
                | _ => None end) [ex_tx_legacy; ex_tx_segwit; ex_tx_noinputs]
  = map (fun t => Some (weight_spec t)) [ex_tx_legacy; ex_tx_segwit; ex_tx_noinputs].
Proof. split; [exact ex_tx_legacy_wf|split; [exact ex_tx_segwit_wf|split; [exact ex_tx_noinputs_wf|exact ex_weights]]]. Qed.
