(* C04 — visitor callbacks are exactly the in-order traversal of the decoded structure.
   [s_trav S p a] (Spec/Wire.v: trav_block, trav_tx, trav_txins, ...) is the callback sequence the
   property describes, oldest first, each event carrying index, window (offset, length) and decoded
   fields; histories are newest first, so "h followed by d" is [rev d ++ h]. *)
From BS Require Import Impl.Visit Ref.MetaDefs Proofs.ImplRefLeaf Proofs.Transfer Proofs.Entries
  Proofs.SpecLemmas Proofs.RefSpec Proofs.SpecTransfer Proofs.EvSound Proofs.EvTransfer Proofs.Examples.
Open Scope N_scope.

(* every valid input: the callbacks are exactly the traversal of the decoded structure *)
Theorem C04_valid_input_traversal : forall E S, specified E S -> forall p a rest h,
  s_wf S a -> e_D E (s_enc S a ++ rest) ->
  exists x, s_proj S x = a /\
  e_visit E never (sl p (s_enc S a ++ rest)) h =
  (Ok {| remaining := sl (p + lenN (s_enc S a)) rest;
         parsed := e_mk E (sl p (s_enc S a)) x (rev (s_trav S p a) ++ h) |},
   rev (s_trav S p a) ++ h).
Proof. intros E S _. exact (T_encoding_is_ok E S). Qed.

(* conversely whatever a successful visit delivered is the traversal of what it decoded *)
Theorem C04_delivered_is_traversal : forall E S, specified E S -> forall brk p b h pr h', e_D E b ->
  e_visit E brk (sl p b) h = (Ok pr, h') ->
  exists a, s_wf S a /\ b = s_enc S a ++ bytes (remaining pr) /\ h' = rev (s_trav S p a) ++ h.
Proof.
  intros E S _ brk p b h pr h' HD HV.
  destruct (T_ok_is_encoding_any E S brk p b h pr h' HD HV) as [a [A [B [_ [_ [C _]]]]]].
  exists a. split; [exact A|split; [exact B|exact C]].
Qed.

(* the callback sequence does not depend on what a non-breaking visitor does *)
Theorem C04_visitor_independent : forall E, covered E -> forall brk p b h, e_D E b ->
  (forall hh e, breakable e = true -> brk hh e = false) ->
  e_visit E brk (sl p b) h = e_visit E never (sl p b) h.
Proof. intros E _. exact (T_nonbreaking E). Qed.

(* an input that fails to parse: the callbacks delivered before the error are a prefix of the traversal
   of every well-formed structure the input is a prefix of — nothing is reported that is not there *)
Theorem C04_failing_input_prefix : forall E S, specified E S -> forall p b h e tr a x rest,
  s_wf S a -> e_D E (s_enc S a ++ rest) -> s_enc S a ++ rest = b ++ x ->
  e_visit E never (sl p b) h = (Err e, tr) -> ext_hist tr (rev (s_trav S p a) ++ h).
Proof. intros E S _. exact (T_failing_trace_is_prefix E S). Qed.

(* on ANY input (valid or not) and under ANY visitor, the callbacks delivered never describe data that is
   not actually present in the input: every window lies inside the input, and the bytes of the window
   re-decode to exactly the index, sub-windows and field values the callback carries; every announced
   count is a compact size that is really in the input  ([ev_sound], Proofs/EvSound.v) *)
Theorem C04_callbacks_describe_present_data : forall E, covered E -> forall brk p b h, e_D E b ->
  exists d, snd (e_visit E brk (sl p b) h) = rev d ++ h /\ Forall (ev_sound p b) d.
Proof. exact T_ev_sound. Qed.

(* non-vacuity: a well-formed three-transaction block (legacy, segwit, zero-input segwit) meets the hypotheses *)
Example C04_example : specified E_block S_block /\ s_wf S_block ex_block /\ e_D E_block (s_enc S_block ex_block ++ ex_trailing) /\
  exists pr h', e_visit E_block never (sl 3 (s_enc S_block ex_block ++ ex_trailing)) [] = (Ok pr, h').
Proof.
  split; [constructor|split; [exact ex_block_wf|split; [exact ex_block_InLen|]]].
  destruct ex_block_visit as [pr [h' [H _]]]. exists pr, h'. exact H.
Qed.
