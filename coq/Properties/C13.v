(* C13 — cache errors change nothing; counts, length and full flag are exact.
   Proofs: Proofs/CacheFifo.v (every history), Proofs/CacheRing.v (full flag, under NoEmptyStored). *)
From BS Require Import Spec.CacheSpec Proofs.CacheWF Proofs.CacheFifo Proofs.CacheRing.
Open Scope N_scope.

(* a failed insertion returns the very same state: every later behaviour is unchanged *)
Theorem C13_failed_insert_changes_nothing : forall c k v e c', insert c k v = (CErr e, c') -> c' = c.
Proof. exact C13_error_unchanged. Qed.

Theorem C13_present_key_rejected : forall c hist k v, reachable c hist -> retrievable c k ->
  insert c k v = (CErr ValueAlreadyPresent, c).
Proof. intros c hist k v H. apply C13_present. exact (reachable_WF c hist H). Qed.

Theorem C13_oversized_value_rejected : forall c hist k v, reachable c hist -> ~ retrievable c k -> cap c < lenN v ->
  insert c k v = (CErr ValueLargerThanBuffer, c).
Proof. intros c hist k v H. apply C13_large. exact (reachable_WF c hist H). Qed.

(* an evicted (or never inserted) key is accepted again *)
Theorem C13_evicted_key_accepted_again : forall c hist k v, reachable c hist -> ~ retrievable c k -> lenN v <= cap c ->
  exists n c', insert c k v = (COk n, c').
Proof. intros c hist k v H. apply C13_reinsert. exact (reachable_WF c hist H). Qed.

(* the returned count is exactly the number of keys that left the queue of retrievable keys
   (the n oldest ones), all of them unretrievable afterwards; the new key is the newest *)
Theorem C13_count_exact : forall c hist k v n c', reachable c hist -> insert c k v = (COk n, c') ->
  lenN (c_queue c) + 1 = lenN (c_queue c') + n /\
  (forall k', In k' (c_queue c) -> ~ In k' (c_queue c') -> ~ retrievable c' k') /\
  (exists q', c_queue c' = q' ++ [k]) /\
  (exists p q', c_queue c = p ++ q' /\ c_queue c' = q' ++ [k] /\ lenN p = n).
Proof. intros c hist k v n c' H. apply C13_count_queue. exact (reachable_WF c hist H). Qed.

(* the reported length is the number of retrievable keys; membership agrees with lookups *)
Theorem C13_len_exact : forall c hist, reachable c hist -> clen c = lenN (c_queue c).
Proof. intros c hist H. apply C13_len. exact (reachable_WF c hist H). Qed.
Theorem C13_contains_agrees : forall c hist k, reachable c hist -> (contains c k = COk true <-> retrievable c k).
Proof. intros c hist k H. apply C13_contains. exact (reachable_WF c hist H). Qed.

(* the full flag is false until the first eviction and true ever after (m = retrievable entries) *)
Theorem C13_full_iff_evicted :
  forall capacity ops c hist m, run capacity ops = Some (c, hist) -> NoEmptyStored hist ->
  (m <= length hist)%nat -> c_queue c = map fst (lastn m hist) ->
  (cfull c = true <-> (m < length hist)%nat).
Proof. exact C13_full. Qed.

(* KNOWN FINDING F2: with a stored zero-length value the flag can be set although nothing was evicted *)
Example C13_full_empty_value_refuted : exists c hist, run 1 [(0, []); (1, [x07]); (2, [x08])] = Some (c, hist) /\
  cfull c = true /\ c_queue c = [0; 1; 2] /\ length hist = 3%nat.
Proof. eexists. eexists. vm_compute. repeat split. Qed.

(* non-vacuity: a reachable state whose full flag is set after evictions, with retrievable and evicted keys *)
Example C13_example : exists c hist, reachable c hist /\ NoEmptyStored hist /\ cfull c = true /\
  retrievable c 2 /\ ~ retrievable c 3 /\ clen c = 3.
Proof.
  destruct ring_sanity as [c [hist [H1 [H2 [_ [H4 [H5 [_ [H7 [H8 _]]]]]]]]]]. exists c, hist.
  split; [exists 6, ex_ops; exact H1|split; [exact H2|split; [exact H5|split; [exists [x0a; x0a]; exact H7|split]]]].
  - intros [v Hv]. rewrite H8 in Hv. discriminate.
  - rewrite (C13_len_exact c hist (ex_intro _ 6 (ex_intro _ ex_ops H1))), H4. reflexivity.
Qed.
