(* C07 — MoreBytesNeeded means "a prefix of something valid"; other errors are final.
   [E] ranges over the twelve entry points of Proofs/Entries.v. *)
From BS Require Import Impl.Visit Ref.MetaDefs Proofs.ImplRefLeaf Proofs.Transfer Proofs.Entries Proofs.Examples.
Open Scope N_scope.

(* if a parse succeeds consuming k bytes, parsing any shorter prefix yields MoreBytesNeeded *)
Theorem C07_shorter_prefix_needs_more : forall E, covered E -> forall brk p b h pr h' c' rr,
  e_D E b -> e_visit E brk (sl p b) h = (Ok pr, h') ->
  bytes (e_sl E (parsed pr)) = c' ++ rr -> rr <> [] ->
  exists h'', e_visit E brk (sl p c') h = (Err MoreBytesNeeded, h'') /\ ext_hist h'' h'.
Proof. intros E _. exact (T_shorter E). Qed.

(* ... and parsing those k bytes followed by anything yields the same object *)
Theorem C07_extension_same_object : forall E, covered E -> forall brk p b h pr h' x,
  e_D E (b ++ x) -> e_visit E brk (sl p b) h = (Ok pr, h') ->
  e_visit E brk (sl p (b ++ x)) h =
  (Ok {| remaining := sl (off (remaining pr)) (bytes (remaining pr) ++ x); parsed := parsed pr |}, h').
Proof. intros E _. exact (T_extend E). Qed.

(* an error other than MoreBytesNeeded is final: every extension fails with that same error *)
Theorem C07_other_errors_final : forall E, covered E -> forall brk p b h e h' x,
  e_D E (b ++ x) -> e_visit E brk (sl p b) h = (Err e, h') -> e <> MoreBytesNeeded ->
  e_visit E brk (sl p (b ++ x)) h = (Err e, h').
Proof. intros E _. exact (T_final E). Qed.

(* if it fails with MoreBytesNeeded, so does every prefix of it *)
Theorem C07_more_closed_under_prefix : forall E, covered E -> forall brk p b' rr h h1,
  e_D E (b' ++ rr) -> e_visit E brk (sl p (b' ++ rr)) h = (Err MoreBytesNeeded, h1) ->
  exists h'', e_visit E brk (sl p b') h = (Err MoreBytesNeeded, h'') /\ ext_hist h'' h1.
Proof. intros E _. exact (T_more_prefix E). Qed.

(* the callbacks delivered on a prefix are a prefix of the callbacks delivered on the whole input
   (histories are newest first: [ext_hist h1 h2] says h2 = later events ++ h1) *)
Theorem C07_callbacks_prefix : forall E, covered E -> forall brk p b' rr h,
  e_D E (b' ++ rr) ->
  ext_hist (snd (e_visit E brk (sl p b') h)) (snd (e_visit E brk (sl p (b' ++ rr)) h)).
Proof. intros E _. exact (T_trace_prefix E). Qed.

(* non-vacuity: a parse that succeeds with trailing bytes, and a shorter prefix that needs more *)
Example C07_example :
  (exists pr h', visit_transaction never (sl 5 (ex_tx_bytes ++ ex_trailing)) [] = (Ok pr, h') /\ bytes (remaining pr) = ex_trailing) /\
  fst (visit_transaction never (sl 0 (firstn 40 ex_tx_bytes)) []) = Err MoreBytesNeeded /\
  fst (visit_transaction never (sl 0 [x01; x00; x00; x00; x00; x07; x00]) []) = Err (UnknownSegwitFlag 7).
Proof. split; [exact ex_tx_visit|split; [exact ex_truncated|exact ex_unknown_flag]]. Qed.
