(* C11 — cache eviction is strictly first-in-first-out.  Holds for EVERY history
   (zero-length values included).  Proofs: Proofs/CacheFifo.v. *)
From BS Require Import Spec.CacheSpec Proofs.CacheWF Proofs.CacheFifo.
Open Scope N_scope.

(* after any sequence of insertions, the retrievable keys are exactly the keys of the m most
   recent successful insertions, for some m: a contiguous most-recent suffix *)
Theorem C11_retrievable_is_recent_suffix :
  forall (capacity : N) (ops : list ins) (c : cache) (hist : list ins),
  run capacity ops = Some (c, hist) ->
  exists m : nat, (m <= length hist)%nat /\
    c_queue c = map fst (lastn m hist) /\ NoDup (map fst (lastn m hist)) /\
    (forall k, retrievable c k <-> In k (map fst (lastn m hist))).
Proof. exact C11_suffix. Qed.

(* an entry once evicted stays absent until it is inserted again *)
Theorem C11_evicted_stays_absent :
  forall capacity ops more c hist c' hist' k,
  run capacity ops = Some (c, hist) -> ~ retrievable c k ->
  run capacity (ops ++ more) = Some (c', hist') -> ~ In k (map fst more) ->
  ~ retrievable c' k.
Proof. exact C11_stays_absent. Qed.

(* no operation of any history panics, so [run] is defined on every history *)
Theorem C11_histories_total : forall capacity ops, run capacity ops <> None.
Proof. exact cache_no_panic. Qed.

Example C11_example : exists c hist, run 4 [(0, [x01;x01;x01;x01]); (1, []); (2, [x02;x02]); (3, [x03;x03]); (4, [x04])] = Some (c, hist)
  /\ c_queue c = [1; 2; 3; 4] /\ length hist = 5%nat.
Proof. eexists. eexists. vm_compute. repeat split. Qed.
