(* Proofs/ErrSpec.v — declarative characterisations of the format errors on the Rust-faithful model. *)
From BS Require Import Impl.Visit Ref.Grammar Ref.MetaDefs Proofs.SliceLemmas Proofs.Numbers Proofs.Len Proofs.CsDec
  Proofs.ImplRefLeaf Proofs.ImplRefTx Proofs.Transfer Proofs.Entries Proofs.SpecLemmas Proofs.RefSpec.
From Coq Require Import ZifyN ZifyNat ZifyBool.
Open Scope N_scope.

(* scan_len: NonMinimalVarInt exactly on the three wider-than-necessary shapes *)
Theorem scan_len_nonminimal s c c' :
  scan_len s c = (Err NonMinimalVarInt, c') <->
  c' = c /\
  ((exists v rest, bytes s = xfd :: le_enc 2 v ++ rest /\ v < 253) \/
   (exists v rest, bytes s = xfe :: le_enc 4 v ++ rest /\ v <= 65535) \/
   (exists v rest, bytes s = xff :: le_enc 8 v ++ rest /\ v <= 4294967295)).
Proof.
  rewrite scan_len_spec, scan_result_cs.
  pose proof (r_compact_nonminimal never (st0 0 (bytes s) []) []) as RN. cbn [inp hi st0] in RN.
  rewrite r_compact_cs in RN.
  split.
  - intros HS. destruct (cs_dec (bytes s)) as [n cb rest| |] eqn:E.
    + destruct (c + lenN cb <? TWO64); discriminate.
    + discriminate.
    + injection HS as <-. split; [reflexivity|]. exact (proj2 (proj1 RN eq_refl)).
  - intros [-> H]. pose proof (proj2 RN (conj eq_refl H)) as RF.
    destruct (cs_dec (bytes s)) as [n cb rest| |]; try discriminate. reflexivity.
Qed.

(* scan_len: MoreBytesNeeded exactly when the input is a strict prefix of a 1/3/5/9-byte form *)
Theorem scan_len_more s c c' :
  scan_len s c = (Err MoreBytesNeeded, c') <->
  c' = c /\ (r_compact never (st0 0 (bytes s) []) = Fail MoreBytesNeeded []).
Proof.
  rewrite scan_len_spec, scan_result_cs, r_compact_cs.
  destruct (cs_dec (bytes s)) as [n cb rest| |].
  - destruct (c + lenN cb <? TWO64); split; try discriminate; intros [_ H]; discriminate.
  - split; [intros HH; injection HH as <-; split; reflexivity|intros [-> _]; reflexivity].
  - split; [discriminate|intros [_ H]; discriminate].
Qed.

(* Transaction: UnknownSegwitFlag carries exactly the byte following an empty input list *)
Theorem tx_unknown_flag p b h x h' : InLen b ->
  (visit_transaction never (sl p b) h = (Err (UnknownSegwitFlag x), h') <->
   exists v byte rest, lenN v = 4 /\ b = v ++ [x00] ++ [byte] ++ rest /\ b2n byte = x /\ x <> 1 /\ h' = ETxIns 0 :: h).
Proof.
  intros HD.
  pose proof (r_tx_flag (st0 p b h) x h') as RF. cbn [inp hi st0] in RF.
  split.
  - intros HV. apply (visit_err_inv E_transaction never p b h _ _ HD) in HV. exact (proj1 RF HV).
  - intros H. apply (proj2 RF) in H. rewrite (ref_tx never p b h HD). rewrite H. reflexivity.
Qed.

(* Transaction: SegwitFlagWithoutWitnesses exactly for a segwit-encoded transaction with at least one
   input whose witnesses are all empty (the lock time need not be present) *)
Theorem tx_no_witnesses p b h h' : InLen b ->
  (visit_transaction never (sl p b) h = (Err SegwitFlagWithoutWitnesses, h') <->
   exists v ins outs rest, lenN v = 4 /\ ins <> [] /\ wf_txins ins /\ wf_txouts outs /\
     b = v ++ [x00; x01] ++ enc_txins ins ++ enc_txouts outs ++ repeat x00 (length ins) ++ rest /\
     h' = nowit_hist p ins outs h).
Proof.
  intros HD.
  pose proof (r_tx_nowit (st0 p b h) h') as RF. cbn [inp hi pos st0] in RF.
  split.
  - intros HV. apply (visit_err_inv E_transaction never p b h _ _ HD) in HV. exact (proj1 RF HV).
  - intros H. apply (proj2 RF) in H. rewrite (ref_tx never p b h HD). rewrite H. reflexivity.
Qed.

(* only the four format errors can come out of a never-breaking run *)
Theorem never_run_errors E : covered E -> forall p b h e h', e_D E b ->
  e_visit E never (sl p b) h = (Err e, h') ->
  e = MoreBytesNeeded \/ e = NonMinimalVarInt \/ e = SegwitFlagWithoutWitnesses \/ exists x, e = UnknownSegwitFlag x.
Proof.
  intros Hc p b h e h' HD HV. apply (visit_err_inv E never p b h e h' HD) in HV.
  destruct e as [|x| | |c|c]; auto.
  - right. right. right. exists x. reflexivity.
  - exfalso. exact (e_nsb E _ _ HV).
  - exfalso. destruct Hc; cbn [e_r E_script E_outpoint E_txin E_txout E_txins E_txouts E_witness E_witnesses E_transaction E_header E_block] in HV.
    + exact (proj2 (r_script_pos_never_break _ h') c HV).
    + exact (proj2 (r_outpoint_never_break _ h') c HV).
    + exact (proj2 (r_txin_ev_never_break 0 _ h') c HV).
    + exact (proj2 (r_txout_ev_never_break 0 _ h') c HV).
    + exact (proj2 (r_txins_never_break _ h') c HV).
    + exact (proj2 (r_txouts_never_break _ h') c HV).
    + exact (proj2 (r_witness_never_break _ h') c HV).
    + exact (proj2 (r_witnesses_never_break n _ h') c HV).
    + exact (proj2 (r_tx_never_break _ h') c HV).
    + exact (proj2 (r_header_never_break _ h') c HV).
    + exact (proj2 (r_block_never_break _ h') c HV).
Qed.
