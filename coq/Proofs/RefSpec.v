(* Proofs/RefSpec.v — the streaming reference decoders of Ref/Grammar.v decode
   exactly the wire format of Spec/Wire.v: completeness, soundness, prefix-freeness,
   the in-order traversal they emit, and their error characterisations. *)
From BS Require Import Ref.Grammar Proofs.SpecLemmas.
From Coq Require Import Lia ZifyN ZifyNat ZifyBool.
Open Scope N_scope.

(* ------------------------------------------------------------------ *)
(** * Proof plumbing *)

Lemma bind_get_pos {B} (f : N -> P B) brk s : bind get_pos f brk s = f (pos s) brk s.
Proof. reflexivity. Qed.

Lemma bind_emitp_never {B} (f : unit -> P B) e s :
  bind (emitp e) f never s = f tt never {| pos := pos s; inp := inp s; hi := e :: hi s |}.
Proof. unfold bind. rewrite emitp_never. reflexivity. Qed.

Lemma ret_eq {A} (a : A) brk s : ret a brk s = Done a s.
Proof. reflexivity. Qed.

(* completeness proofs: run one step of a bind chain with a known result *)
Tactic Notation "stepc" uconstr(L) := rewrite (bind_eq_Done _ _ _ _ _ _ L); cbv beta iota.
Ltac stepp := rewrite bind_get_pos; cbv beta iota; cbn [pos inp hi].
Ltac stepe := rewrite bind_emitp_never; cbv beta iota; cbn [pos inp hi].

(* soundness proofs: invert one step of a bind chain *)
Ltac invb H a s1 H1 :=
  apply bind_Done in H; destruct H as (a & s1 & H1 & H); cbv beta iota in H.
Ltac invp H := rewrite bind_get_pos in H; cbv beta iota in H.
Ltac inve H := rewrite bind_emitp_never in H; cbv beta iota in H; cbn [pos inp hi] in H.

(* "decoding is a function": completeness alone gives prefix-freeness *)
Lemma prefix_free_of_complete {A} (r : P A) (wf : A -> Prop) (enc : A -> list byte)
      (fin : N -> A -> list byte -> hist -> st) :
  (forall a rest, wf a -> r never {| pos := 0; inp := enc a ++ rest; hi := [] |} = Done a (fin 0 a rest [])) ->
  (forall a rest, inp (fin 0 a rest []) = rest) ->
  forall a b x y, wf a -> wf b -> enc a ++ x = enc b ++ y -> a = b /\ x = y.
Proof.
  intros Hc Hf a b x y Ha Hb E.
  pose proof (Hc a x Ha) as H1. pose proof (Hc b y Hb) as H2.
  rewrite E in H1. rewrite H1 in H2. injection H2 as Hab Hs.
  split; [exact Hab|]. rewrite <- (Hf a x), <- (Hf b y), Hs. reflexivity.
Qed.

(* ------------------------------------------------------------------ *)
(** * Script *)

Theorem r_script_pos_complete brk p a rest h :
  wf_script a ->
  r_script_pos brk {| pos := p; inp := enc_script a ++ rest; hi := h |}
  = Done (script_data_off p a, a) {| pos := p + lenN (enc_script a); inp := rest; hi := h |}.
Proof.
  intros Hwf. unfold r_script_pos, enc_script. rewrite <- app_assoc.
  stepc (r_compact_complete brk p (lenN a) (a ++ rest) h Hwf).
  stepp.
  stepc (take_app brk (p + cs_width (lenN a)) a rest h (lenN a) eq_refl).
  rewrite ret_eq. apply Done_eq; auto.
  rewrite lenN_app, cs_enc_length'. lia.
Qed.

Theorem r_script_pos_sound brk s d a s' :
  r_script_pos brk s = Done (d, a) s' ->
  wf_script a /\ inp s = enc_script a ++ inp s' /\ d = script_data_off (pos s) a /\
  pos s' = pos s + lenN (enc_script a) /\ hi s' = hi s.
Proof.
  unfold r_script_pos. intros H.
  invb H n s1 H1. invp H. invb H x s2 H2. rewrite ret_eq in H. injection H as <- <- <-.
  apply r_compact_sound in H1. destruct H1 as (Hn & Hi1 & Hp1 & Hh1).
  apply take_Done in H2. destruct H2 as (Hl & Hi2 & Hp2 & Hh2). subst n.
  unfold wf_script, script_data_off, enc_script.
  rewrite lenN_app, cs_enc_length', <- app_assoc, <- Hi2.
  repeat split; auto; try congruence; lia.
Qed.

Theorem r_script_complete brk p a rest h :
  wf_script a ->
  r_script brk {| pos := p; inp := enc_script a ++ rest; hi := h |}
  = Done a {| pos := p + lenN (enc_script a); inp := rest; hi := h |}.
Proof.
  intros Hwf. unfold r_script. stepc (r_script_pos_complete brk p a rest h Hwf). reflexivity.
Qed.

Theorem r_script_sound brk s a s' :
  r_script brk s = Done a s' ->
  wf_script a /\ inp s = enc_script a ++ inp s' /\ pos s' = pos s + lenN (enc_script a) /\ hi s' = hi s.
Proof.
  unfold r_script. intros H. invb H x s1 H1. destruct x as [d a']. rewrite ret_eq in H.
  injection H as <- <-. apply r_script_pos_sound in H1. tauto.
Qed.

Theorem enc_script_prefix_free : forall a b x y,
  wf_script a -> wf_script b -> enc_script a ++ x = enc_script b ++ y -> a = b /\ x = y.
Proof.
  apply (prefix_free_of_complete r_script wf_script enc_script
           (fun p a rest h => {| pos := p + lenN (enc_script a); inp := rest; hi := h |})).
  - intros a rest Hwf. apply r_script_complete. exact Hwf.
  - reflexivity.
Qed.

(* ------------------------------------------------------------------ *)
(** * Outpoint, as the pair (txid, vout) *)

Definition enc_outpoint (o : list byte * N) : list byte := fst o ++ le_enc 4 (snd o).
Definition wf_outpoint (o : list byte * N) : Prop := lenN (fst o) = 32 /\ snd o < TWO32.

Lemma lenN_enc_outpoint o : wf_outpoint o -> lenN (enc_outpoint o) = 36.
Proof. intros [H _]. unfold enc_outpoint. rewrite lenN_app, lenN_le_enc4, H. reflexivity. Qed.

Theorem r_outpoint_complete brk p o rest h :
  wf_outpoint o ->
  r_outpoint brk {| pos := p; inp := enc_outpoint o ++ rest; hi := h |}
  = Done o {| pos := p + lenN (enc_outpoint o); inp := rest; hi := h |}.
Proof.
  intros Hwf. rewrite (lenN_enc_outpoint o Hwf). destruct o as [t v]. destruct Hwf as [Ht Hv]. cbn [fst snd] in *.
  unfold r_outpoint, enc_outpoint. cbn [fst snd]. rewrite <- app_assoc.
  stepc (take_app brk p t (le_enc 4 v ++ rest) h 32 Ht).
  stepc (r_u4_complete brk (p + 32) v rest h Hv).
  rewrite ret_eq. apply Done_eq; auto. lia.
Qed.

Theorem r_outpoint_sound brk s o s' :
  r_outpoint brk s = Done o s' ->
  wf_outpoint o /\ inp s = enc_outpoint o ++ inp s' /\ pos s' = pos s + lenN (enc_outpoint o) /\ hi s' = hi s.
Proof.
  unfold r_outpoint. intros H. invb H t s1 H1. invb H v s2 H2. rewrite ret_eq in H. injection H as <- <-.
  apply take_Done in H1. destruct H1 as (Hl & Hi1 & Hp1 & Hh1).
  apply r_u4_sound in H2. destruct H2 as (Hi2 & Hv & Hp2 & Hh2).
  assert (Hwf : wf_outpoint (t, v)) by (split; assumption).
  rewrite (lenN_enc_outpoint _ Hwf). unfold enc_outpoint. cbn [fst snd]. rewrite <- app_assoc, <- Hi2.
  repeat split; auto; try congruence; lia.
Qed.

Theorem enc_outpoint_prefix_free : forall a b x y,
  wf_outpoint a -> wf_outpoint b -> enc_outpoint a ++ x = enc_outpoint b ++ y -> a = b /\ x = y.
Proof.
  apply (prefix_free_of_complete r_outpoint wf_outpoint enc_outpoint
           (fun p a rest h => {| pos := p + lenN (enc_outpoint a); inp := rest; hi := h |})).
  - intros a rest Hwf. apply r_outpoint_complete. exact Hwf.
  - reflexivity.
Qed.

(* ------------------------------------------------------------------ *)
(** * Transaction input *)

Lemma lenN_enc_txin_wf a :
  wf_txin a -> lenN (enc_txin a) = 36 + cs_width (lenN (ai_sig a)) + lenN (ai_sig a) + 4.
Proof. intros (H & _). rewrite lenN_enc_txin, lenN_enc_script, H. lia. Qed.

Theorem r_txin_ev_complete i brk p a rest h :
  wf_txin a ->
  r_txin_ev i brk {| pos := p; inp := enc_txin a ++ rest; hi := h |}
  = Done (a, ev_txin i p a) {| pos := p + lenN (enc_txin a); inp := rest; hi := h |}.
Proof.
  intros Hwf. unfold ev_txin. rewrite (lenN_enc_txin_wf a Hwf).
  destruct a as [t v sg sq]. destruct Hwf as (Ht & Hv & Hsg & Hsq). cbn [ai_txid ai_vout ai_sig ai_seq] in *.
  unfold r_txin_ev, enc_txin. cbn [ai_txid ai_vout ai_sig ai_seq].
  stepp.
  assert (Ho : wf_outpoint (t, v)) by (split; assumption).
  pose proof (r_outpoint_complete brk p (t, v) (enc_script sg ++ le_enc 4 sq ++ rest) h Ho) as Hop.
  rewrite (lenN_enc_outpoint _ Ho) in Hop. unfold enc_outpoint in Hop. cbn [fst snd] in Hop.
  rewrite <- !app_assoc in *.
  stepc Hop.
  stepc (r_script_pos_complete brk (p + 36) sg (le_enc 4 sq ++ rest) h Hsg).
  stepc (r_u4_complete brk (p + 36 + lenN (enc_script sg)) sq rest h Hsq).
  stepp. rewrite ret_eq. rewrite lenN_enc_script.
  apply Done_eq; auto; [|lia].
  f_equal. f_equal. f_equal. lia.
Qed.

Theorem r_txin_ev_sound i brk s a e s' :
  r_txin_ev i brk s = Done (a, e) s' ->
  wf_txin a /\ inp s = enc_txin a ++ inp s' /\ e = ev_txin i (pos s) a /\
  pos s' = pos s + lenN (enc_txin a) /\ hi s' = hi s.
Proof.
  unfold r_txin_ev. intros H. invp H.
  invb H o s1 H1. destruct o as [t v].
  invb H x s2 H2. destruct x as [d sg].
  invb H sq s3 H3. invp H. rewrite ret_eq in H. injection H as <- <- <-.
  apply r_outpoint_sound in H1. destruct H1 as (Hwo & Hi1 & Hp1 & Hh1).
  rewrite (lenN_enc_outpoint _ Hwo) in Hp1. destruct Hwo as [Ht Hv]. cbn [fst snd] in *.
  unfold enc_outpoint in Hi1. cbn [fst snd] in Hi1.
  apply r_script_pos_sound in H2. destruct H2 as (Hsg & Hi2 & Hd & Hp2 & Hh2).
  apply r_u4_sound in H3. destruct H3 as (Hi3 & Hsq & Hp3 & Hh3).
  assert (Hwf : wf_txin {| ai_txid := t; ai_vout := v; ai_sig := sg; ai_seq := sq |}).
  { repeat split; assumption. }
  pose proof (lenN_enc_txin_wf _ Hwf) as Hlen. cbn [ai_sig] in Hlen.
  rewrite lenN_enc_script in Hp2.
  split; [exact Hwf|]. split; [|split; [|split]].
  - unfold enc_txin. cbn [ai_txid ai_vout ai_sig ai_seq]. rewrite <- !app_assoc.
    rewrite Hi1, Hi2, Hi3, <- !app_assoc. reflexivity.
  - unfold ev_txin. cbn [ai_txid ai_vout ai_sig ai_seq]. rewrite Hlen.
    subst d. unfold script_data_off. rewrite Hp1.
    f_equal. f_equal. lia.
  - rewrite Hlen. lia.
  - congruence.
Qed.

Theorem r_txin_complete brk p a rest h :
  wf_txin a ->
  r_txin brk {| pos := p; inp := enc_txin a ++ rest; hi := h |}
  = Done a {| pos := p + lenN (enc_txin a); inp := rest; hi := h |}.
Proof.
  intros Hwf. unfold r_txin. stepc (r_txin_ev_complete 0 brk p a rest h Hwf). reflexivity.
Qed.

Theorem r_txin_sound brk s a s' :
  r_txin brk s = Done a s' ->
  wf_txin a /\ inp s = enc_txin a ++ inp s' /\ pos s' = pos s + lenN (enc_txin a) /\ hi s' = hi s.
Proof.
  unfold r_txin. intros H. invb H x s1 H1. destruct x as [a' e]. rewrite ret_eq in H.
  injection H as <- <-. apply r_txin_ev_sound in H1. tauto.
Qed.

Theorem enc_txin_prefix_free : forall a b x y,
  wf_txin a -> wf_txin b -> enc_txin a ++ x = enc_txin b ++ y -> a = b /\ x = y.
Proof.
  apply (prefix_free_of_complete r_txin wf_txin enc_txin
           (fun p a rest h => {| pos := p + lenN (enc_txin a); inp := rest; hi := h |})).
  - intros a rest Hwf. apply r_txin_complete. exact Hwf.
  - reflexivity.
Qed.

(* ------------------------------------------------------------------ *)
(** * Transaction output *)

Lemma lenN_enc_txout' a : lenN (enc_txout a) = 8 + cs_width (lenN (ao_spk a)) + lenN (ao_spk a).
Proof. rewrite lenN_enc_txout, lenN_enc_script. lia. Qed.

Theorem r_txout_ev_complete i brk p a rest h :
  wf_txout a ->
  r_txout_ev i brk {| pos := p; inp := enc_txout a ++ rest; hi := h |}
  = Done (a, ev_txout i p a) {| pos := p + lenN (enc_txout a); inp := rest; hi := h |}.
Proof.
  intros Hwf. unfold ev_txout. rewrite (lenN_enc_txout' a).
  destruct a as [v spk]. destruct Hwf as (Hv & Hspk). cbn [ao_value ao_spk] in *.
  unfold r_txout_ev, enc_txout. cbn [ao_value ao_spk].
  stepp. rewrite <- !app_assoc.
  stepc (r_u8_complete brk p v (enc_script spk ++ rest) h Hv).
  stepc (r_script_pos_complete brk (p + 8) spk rest h Hspk).
  stepp. rewrite ret_eq. rewrite lenN_enc_script.
  apply Done_eq; auto; [|lia].
  f_equal. f_equal. f_equal. lia.
Qed.

Theorem r_txout_ev_sound i brk s a e s' :
  r_txout_ev i brk s = Done (a, e) s' ->
  wf_txout a /\ inp s = enc_txout a ++ inp s' /\ e = ev_txout i (pos s) a /\
  pos s' = pos s + lenN (enc_txout a) /\ hi s' = hi s.
Proof.
  unfold r_txout_ev. intros H. invp H.
  invb H v s1 H1. invb H x s2 H2. destruct x as [d spk]. invp H. rewrite ret_eq in H.
  injection H as <- <- <-.
  apply r_u8_sound in H1. destruct H1 as (Hi1 & Hv & Hp1 & Hh1).
  apply r_script_pos_sound in H2. destruct H2 as (Hspk & Hi2 & Hd & Hp2 & Hh2).
  rewrite lenN_enc_script in Hp2.
  pose proof (lenN_enc_txout' {| ao_value := v; ao_spk := spk |}) as Hlen. cbn [ao_spk] in Hlen.
  split; [split; assumption|]. split; [|split; [|split]].
  - unfold enc_txout. cbn [ao_value ao_spk]. rewrite Hi1, Hi2, <- ?app_assoc. reflexivity.
  - unfold ev_txout. cbn [ao_value ao_spk]. rewrite Hlen. subst d. unfold script_data_off. rewrite Hp1.
    f_equal. f_equal. lia.
  - rewrite Hlen. lia.
  - congruence.
Qed.

Theorem r_txout_complete brk p a rest h :
  wf_txout a ->
  r_txout brk {| pos := p; inp := enc_txout a ++ rest; hi := h |}
  = Done a {| pos := p + lenN (enc_txout a); inp := rest; hi := h |}.
Proof.
  intros Hwf. unfold r_txout. stepc (r_txout_ev_complete 0 brk p a rest h Hwf). reflexivity.
Qed.

Theorem r_txout_sound brk s a s' :
  r_txout brk s = Done a s' ->
  wf_txout a /\ inp s = enc_txout a ++ inp s' /\ pos s' = pos s + lenN (enc_txout a) /\ hi s' = hi s.
Proof.
  unfold r_txout. intros H. invb H x s1 H1. destruct x as [a' e]. rewrite ret_eq in H.
  injection H as <- <-. apply r_txout_ev_sound in H1. tauto.
Qed.

Theorem enc_txout_prefix_free : forall a b x y,
  wf_txout a -> wf_txout b -> enc_txout a ++ x = enc_txout b ++ y -> a = b /\ x = y.
Proof.
  apply (prefix_free_of_complete r_txout wf_txout enc_txout
           (fun p a rest h => {| pos := p + lenN (enc_txout a); inp := rest; hi := h |})).
  - intros a rest Hwf. apply r_txout_complete. exact Hwf.
  - reflexivity.
Qed.

(* ------------------------------------------------------------------ *)
(** * The generic lemma for counted loops *)

Lemma loop_fuel_done {A} fuel (body : N -> P A) i n :
  (i <? n) = false -> loop_fuel fuel body i n = ret [].
Proof. intros H. destruct fuel; cbn [loop_fuel]; rewrite H; reflexivity. Qed.

Lemma loop_fuel_step {A} fuel (body : N -> P A) i n :
  (i <? n) = true ->
  loop_fuel (S fuel) body i n
  = bind (body i) (fun x => bind (loop_fuel fuel body (i + 1) n) (fun r => ret (x :: r))).
Proof. intros H. cbn [loop_fuel]. rewrite H. reflexivity. Qed.

Lemma rev_app_hist {E} (a b : list E) h : rev (a ++ b) ++ h = rev b ++ rev a ++ h.
Proof. rewrite rev_app_distr, app_assoc. reflexivity. Qed.

Section Loop.
  Context {A : Type}.
  Variable body : N -> P A.
  Variable wfI : A -> Prop.
  Variable enc : A -> list byte.
  Variable ev : N -> N -> A -> list event.

  Definition body_complete : Prop := forall i q x rest h,
    wfI x ->
    body i never {| pos := q; inp := enc x ++ rest; hi := h |}
    = Done x {| pos := q + lenN (enc x); inp := rest; hi := rev (ev i q x) ++ h |}.

  Definition body_sound : Prop := forall i s x s',
    body i never s = Done x s' ->
    wfI x /\ inp s = enc x ++ inp s' /\ pos s' = pos s + lenN (enc x) /\
    hi s' = rev (ev i (pos s) x) ++ hi s.

  (* progress: every item encoding is non-empty *)
  Definition enc_progress : Prop := forall x, wfI x -> 1 <= lenN (enc x).

  Lemma loop_fuel_complete :
    body_complete ->
    forall l fuel i q rest h,
      Forall wfI l -> (length l <= fuel)%nat ->
      loop_fuel fuel body i (i + lenN l) never {| pos := q; inp := flat_map enc l ++ rest; hi := h |}
      = Done l {| pos := q + lenN (flat_map enc l); inp := rest;
                  hi := rev (trav_items ev enc i q l) ++ h |}.
  Proof.
    intros Hb l. induction l as [|x l IH]; intros fuel i q rest h HF Hfuel.
    - rewrite loop_fuel_done by (apply N.ltb_ge; change (lenN (@nil A)) with 0; lia).
      rewrite ret_eq. cbn [flat_map app trav_items rev]. apply Done_eq; auto.
      change (lenN (@nil byte)) with 0. lia.
    - destruct fuel as [|fuel]; [cbn [length] in Hfuel; lia|].
      rewrite loop_fuel_step by (apply N.ltb_lt; rewrite lenN_cons; lia).
      inversion HF as [|x' l' Hx Hl]; subst x' l'.
      rewrite flat_map_cons, <- app_assoc.
      stepc (Hb i q x (flat_map enc l ++ rest) h Hx).
      replace (i + lenN (x :: l)) with (i + 1 + lenN l) by (rewrite lenN_cons; lia).
      assert (Hfuel' : (length l <= fuel)%nat) by (cbn [length] in Hfuel; lia).
      stepc (IH fuel (i + 1) (q + lenN (enc x)) rest (rev (ev i q x) ++ h) Hl Hfuel').
      rewrite ret_eq. cbn [trav_items]. apply Done_eq; auto.
      + rewrite lenN_app. lia.
      + rewrite rev_app_hist. reflexivity.
  Qed.

  Lemma loop_fuel_sound :
    body_sound ->
    forall fuel i n s l s',
      loop_fuel fuel body i n never s = Done l s' ->
      Forall wfI l /\ inp s = flat_map enc l ++ inp s' /\ pos s' = pos s + lenN (flat_map enc l) /\
      hi s' = rev (trav_items ev enc i (pos s) l) ++ hi s /\ lenN l = n - i.
  Proof.
    intros Hb fuel. induction fuel as [|fuel IH]; intros i n s l s' H.
    - cbn [loop_fuel] in H. destruct (N.ltb_spec i n) as [Hin|Hin]; [discriminate|].
      rewrite ret_eq in H. injection H as <- <-.
      cbn [flat_map app trav_items rev]. change (lenN (@nil byte)) with 0. change (lenN (@nil A)) with 0.
      repeat split; auto; lia.
    - destruct (N.ltb_spec i n) as [Hin|Hin].
      + rewrite loop_fuel_step in H by (apply N.ltb_lt; exact Hin).
        invb H x s1 H1. invb H r s2 H2. rewrite ret_eq in H. injection H as <- <-.
        apply Hb in H1. destruct H1 as (Hx & Hi1 & Hp1 & Hh1).
        apply IH in H2. destruct H2 as (Hr & Hi2 & Hp2 & Hh2 & Hlen).
        rewrite flat_map_cons, lenN_app, lenN_cons. cbn [trav_items].
        rewrite rev_app_hist, <- Hh1, <- Hp1, <- app_assoc, <- Hi2.
        repeat split; auto; lia.
      + rewrite loop_fuel_done in H by (apply N.ltb_ge; exact Hin).
        rewrite ret_eq in H. injection H as <- <-.
        cbn [flat_map app trav_items rev]. change (lenN (@nil byte)) with 0. change (lenN (@nil A)) with 0.
        repeat split; auto; lia.
  Qed.

  Lemma Forall_progress l : enc_progress -> Forall wfI l -> lenN l <= lenN (flat_map enc l).
  Proof.
    intros Hp HF. apply lenN_flat_map_ge. intros x Hx. apply Hp.
    rewrite Forall_forall in HF. apply HF. exact Hx.
  Qed.

  (* [loop] = [loop_fuel] with fuel one more than the input length *)
  Theorem loop_complete :
    body_complete -> enc_progress ->
    forall l q rest h,
      Forall wfI l ->
      loop body (lenN l) never {| pos := q; inp := flat_map enc l ++ rest; hi := h |}
      = Done l {| pos := q + lenN (flat_map enc l); inp := rest;
                  hi := rev (trav_items ev enc 0 q l) ++ h |}.
  Proof.
    intros Hb Hp l q rest h HF. unfold loop. cbn [inp].
    pose proof (Forall_progress l Hp HF) as Hle.
    assert (Hfuel : (length l <= S (length (flat_map enc l ++ rest)))%nat).
    { rewrite app_length. unfold lenN in Hle. lia. }
    pose proof (loop_fuel_complete Hb l _ 0 q rest h HF Hfuel) as H.
    rewrite N.add_0_l in H. exact H.
  Qed.

  Theorem loop_sound :
    body_sound ->
    forall n s l s',
      loop body n never s = Done l s' ->
      Forall wfI l /\ inp s = flat_map enc l ++ inp s' /\ pos s' = pos s + lenN (flat_map enc l) /\
      hi s' = rev (trav_items ev enc 0 (pos s) l) ++ hi s /\ lenN l = n.
  Proof.
    intros Hb n s l s' H. unfold loop in H. apply (loop_fuel_sound Hb) in H.
    rewrite N.sub_0_r in H. exact H.
  Qed.

  (* count, announce the count, then the items: txins, txouts, witness, block body *)
  Definition r_counted (mk : N -> event) : P (list A) :=
    bind r_compact (fun n => bind (emitp (mk n)) (fun _ => loop body n)).

  Theorem counted_complete mk :
    body_complete -> enc_progress ->
    forall l p rest h,
      lenN l < TWO64 -> Forall wfI l ->
      r_counted mk never {| pos := p; inp := enc_list enc l ++ rest; hi := h |}
      = Done l {| pos := p + lenN (enc_list enc l); inp := rest;
                  hi := rev (mk (lenN l) :: trav_items ev enc 0 (p + cs_width (lenN l)) l) ++ h |}.
  Proof.
    intros Hb Hp l p rest h Hn HF. unfold r_counted, enc_list. rewrite <- app_assoc.
    stepc (r_compact_complete never p (lenN l) (flat_map enc l ++ rest) h Hn).
    stepe.
    rewrite (loop_complete Hb Hp l _ rest _ HF).
    apply Done_eq; auto.
    - rewrite lenN_app, cs_enc_length'. lia.
    - cbn [rev]. rewrite <- app_assoc. reflexivity.
  Qed.

  Theorem counted_sound mk :
    body_sound ->
    forall s l s',
      r_counted mk never s = Done l s' ->
      lenN l < TWO64 /\ Forall wfI l /\ inp s = enc_list enc l ++ inp s' /\
      pos s' = pos s + lenN (enc_list enc l) /\
      hi s' = rev (mk (lenN l) :: trav_items ev enc 0 (pos s + cs_width (lenN l)) l) ++ hi s.
  Proof.
    intros Hb s l s' H. unfold r_counted in H.
    invb H n s1 H1. inve H.
    apply r_compact_sound in H1. destruct H1 as (Hn & Hi1 & Hp1 & Hh1).
    apply (loop_sound Hb) in H. cbn [pos inp hi] in H. destruct H as (HF & Hi2 & Hp2 & Hh2 & Hlen).
    subst n. unfold enc_list. rewrite lenN_app, cs_enc_length', <- app_assoc, <- Hi2.
    cbn [rev]. rewrite <- app_assoc. cbn [app].
    repeat split; auto; try lia. rewrite Hh2, Hp1, Hh1. reflexivity.
  Qed.
End Loop.

(* ------------------------------------------------------------------ *)
(** * Input and output lists *)

Definition body_txin (i : N) : P a_txin :=
  bind (r_txin_ev i) (fun xe => match xe with (x, e) => bind (emitp e) (fun _ => ret x) end).
Definition body_txout (i : N) : P a_txout :=
  bind (r_txout_ev i) (fun xe => match xe with (x, e) => bind (emitp e) (fun _ => ret x) end).

Lemma r_txins_counted : r_txins = r_counted body_txin ETxIns.
Proof. reflexivity. Qed.
Lemma r_txouts_counted : r_txouts = r_counted body_txout ETxOuts.
Proof. reflexivity. Qed.

Lemma body_txin_complete :
  body_complete body_txin wf_txin enc_txin (fun i q x => [ev_txin i q x]).
Proof.
  intros i q x rest h Hwf. unfold body_txin.
  stepc (r_txin_ev_complete i never q x rest h Hwf). stepe. reflexivity.
Qed.

Lemma body_txin_sound :
  body_sound body_txin wf_txin enc_txin (fun i q x => [ev_txin i q x]).
Proof.
  intros i s x s' H. unfold body_txin in H.
  invb H xe s1 H1. destruct xe as [x' e]. inve H. rewrite ret_eq in H. injection H as <- <-.
  apply r_txin_ev_sound in H1. destruct H1 as (Hwf & Hi & He & Hp & Hh).
  cbn [pos inp hi rev app]. subst e. rewrite Hh. auto.
Qed.

Lemma body_txout_complete :
  body_complete body_txout wf_txout enc_txout (fun i q x => [ev_txout i q x]).
Proof.
  intros i q x rest h Hwf. unfold body_txout.
  stepc (r_txout_ev_complete i never q x rest h Hwf). stepe. reflexivity.
Qed.

Lemma body_txout_sound :
  body_sound body_txout wf_txout enc_txout (fun i q x => [ev_txout i q x]).
Proof.
  intros i s x s' H. unfold body_txout in H.
  invb H xe s1 H1. destruct xe as [x' e]. inve H. rewrite ret_eq in H. injection H as <- <-.
  apply r_txout_ev_sound in H1. destruct H1 as (Hwf & Hi & He & Hp & Hh).
  cbn [pos inp hi rev app]. subst e. rewrite Hh. auto.
Qed.

Definition wf_txins (l : list a_txin) : Prop := lenN l < TWO64 /\ Forall wf_txin l.
Definition wf_txouts (l : list a_txout) : Prop := lenN l < TWO64 /\ Forall wf_txout l.

Theorem r_txins_complete p l rest h :
  wf_txins l ->
  r_txins never {| pos := p; inp := enc_txins l ++ rest; hi := h |}
  = Done l {| pos := p + lenN (enc_txins l); inp := rest; hi := rev (trav_txins p l) ++ h |}.
Proof.
  intros [Hn HF]. rewrite r_txins_counted.
  apply (counted_complete body_txin wf_txin enc_txin _ ETxIns body_txin_complete); auto.
  intros x _. apply enc_txin_pos.
Qed.

Theorem r_txins_sound s l s' :
  r_txins never s = Done l s' ->
  wf_txins l /\ inp s = enc_txins l ++ inp s' /\ pos s' = pos s + lenN (enc_txins l) /\
  hi s' = rev (trav_txins (pos s) l) ++ hi s.
Proof.
  rewrite r_txins_counted. intros H.
  apply (counted_sound body_txin wf_txin enc_txin _ ETxIns body_txin_sound) in H.
  unfold wf_txins, trav_txins, enc_txins. tauto.
Qed.

Theorem r_txouts_complete p l rest h :
  wf_txouts l ->
  r_txouts never {| pos := p; inp := enc_txouts l ++ rest; hi := h |}
  = Done l {| pos := p + lenN (enc_txouts l); inp := rest; hi := rev (trav_txouts p l) ++ h |}.
Proof.
  intros [Hn HF]. rewrite r_txouts_counted.
  apply (counted_complete body_txout wf_txout enc_txout _ ETxOuts body_txout_complete); auto.
  intros x _. apply enc_txout_pos.
Qed.

Theorem r_txouts_sound s l s' :
  r_txouts never s = Done l s' ->
  wf_txouts l /\ inp s = enc_txouts l ++ inp s' /\ pos s' = pos s + lenN (enc_txouts l) /\
  hi s' = rev (trav_txouts (pos s) l) ++ hi s.
Proof.
  rewrite r_txouts_counted. intros H.
  apply (counted_sound body_txout wf_txout enc_txout _ ETxOuts body_txout_sound) in H.
  unfold wf_txouts, trav_txouts, enc_txouts. tauto.
Qed.

Theorem enc_txins_prefix_free : forall a b x y,
  wf_txins a -> wf_txins b -> enc_txins a ++ x = enc_txins b ++ y -> a = b /\ x = y.
Proof.
  apply (prefix_free_of_complete r_txins wf_txins enc_txins
           (fun p a rest h => {| pos := p + lenN (enc_txins a); inp := rest; hi := rev (trav_txins p a) ++ h |})).
  - intros a rest Hwf. apply r_txins_complete. exact Hwf.
  - reflexivity.
Qed.

Theorem enc_txouts_prefix_free : forall a b x y,
  wf_txouts a -> wf_txouts b -> enc_txouts a ++ x = enc_txouts b ++ y -> a = b /\ x = y.
Proof.
  apply (prefix_free_of_complete r_txouts wf_txouts enc_txouts
           (fun p a rest h => {| pos := p + lenN (enc_txouts a); inp := rest; hi := rev (trav_txouts p a) ++ h |})).
  - intros a rest Hwf. apply r_txouts_complete. exact Hwf.
  - reflexivity.
Qed.

(* ------------------------------------------------------------------ *)
(** * Witness (one input's stack) and witnesses (one stack per input) *)

Definition body_welem (i : N) : P (list byte) :=
  bind r_script_pos (fun de => match de with (d, e) =>
    bind (emitp (EWitnessElem i (d, lenN e))) (fun _ => ret e) end).

Lemma r_witness_counted : r_witness = r_counted body_welem EWitnessTotal.
Proof. reflexivity. Qed.

Definition ev_welem (i q : N) (e : list byte) : list event :=
  [EWitnessElem i (script_data_off q e, lenN e)].

Lemma body_welem_complete : body_complete body_welem wf_script enc_script ev_welem.
Proof.
  intros i q x rest h Hwf. unfold body_welem.
  stepc (r_script_pos_complete never q x rest h Hwf). stepe. reflexivity.
Qed.

Lemma body_welem_sound : body_sound body_welem wf_script enc_script ev_welem.
Proof.
  intros i s x s' H. unfold body_welem in H.
  invb H de s1 H1. destruct de as [d e]. inve H. rewrite ret_eq in H. injection H as <- <-.
  apply r_script_pos_sound in H1. destruct H1 as (Hwf & Hi & Hd & Hp & Hh).
  cbn [pos inp hi rev app ev_welem]. subst d. rewrite Hh. auto.
Qed.

Theorem r_witness_complete p w rest h :
  wf_witness w ->
  r_witness never {| pos := p; inp := enc_witness w ++ rest; hi := h |}
  = Done w {| pos := p + lenN (enc_witness w); inp := rest; hi := rev (trav_witness p w) ++ h |}.
Proof.
  intros [Hn HF]. rewrite r_witness_counted.
  apply (counted_complete body_welem wf_script enc_script ev_welem EWitnessTotal body_welem_complete); auto.
  intros x _. apply enc_script_pos.
Qed.

Theorem r_witness_sound s w s' :
  r_witness never s = Done w s' ->
  wf_witness w /\ inp s = enc_witness w ++ inp s' /\ pos s' = pos s + lenN (enc_witness w) /\
  hi s' = rev (trav_witness (pos s) w) ++ hi s.
Proof.
  rewrite r_witness_counted. intros H.
  apply (counted_sound body_welem wf_script enc_script ev_welem EWitnessTotal body_welem_sound) in H.
  unfold wf_witness, trav_witness, enc_witness. tauto.
Qed.

Theorem enc_witness_prefix_free : forall a b x y,
  wf_witness a -> wf_witness b -> enc_witness a ++ x = enc_witness b ++ y -> a = b /\ x = y.
Proof.
  apply (prefix_free_of_complete r_witness wf_witness enc_witness
           (fun p a rest h => {| pos := p + lenN (enc_witness a); inp := rest; hi := rev (trav_witness p a) ++ h |})).
  - intros a rest Hwf. apply r_witness_complete. exact Hwf.
  - reflexivity.
Qed.

Definition body_wit (i : N) : P a_witness :=
  bind (emitp (EWitness i)) (fun _ => bind r_witness (fun w => bind (emitp EWitnessEnd) (fun _ => ret w))).

Lemma r_witnesses_loop n : r_witnesses n = loop body_wit n.
Proof. reflexivity. Qed.

Definition ev_wit (i q : N) (w : a_witness) : list event :=
  EWitness i :: trav_witness q w ++ [EWitnessEnd].

Lemma trav_witnesses_eq p ws : trav_witnesses p ws = trav_items ev_wit enc_witness 0 p ws.
Proof. reflexivity. Qed.

Lemma rev_ev_wit i q w h : rev (ev_wit i q w) ++ h = EWitnessEnd :: rev (trav_witness q w) ++ EWitness i :: h.
Proof.
  unfold ev_wit. cbn [rev]. rewrite rev_app_distr. cbn [rev app]. rewrite <- app_assoc. reflexivity.
Qed.

Lemma body_wit_complete : body_complete body_wit wf_witness enc_witness ev_wit.
Proof.
  intros i q x rest h Hwf. unfold body_wit.
  stepe. stepc (r_witness_complete q x rest (EWitness i :: h) Hwf). stepe.
  rewrite ret_eq, rev_ev_wit. reflexivity.
Qed.

Lemma body_wit_sound : body_sound body_wit wf_witness enc_witness ev_wit.
Proof.
  intros i s x s' H. unfold body_wit in H.
  inve H. invb H w s1 H1. inve H. rewrite ret_eq in H. injection H as <- <-.
  apply r_witness_sound in H1. cbn [pos inp hi] in H1. destruct H1 as (Hwf & Hi & Hp & Hh).
  cbn [pos inp hi]. rewrite rev_ev_wit, Hh. auto.
Qed.

Definition wf_witnesses (ws : list a_witness) : Prop := Forall wf_witness ws.

(* [r_witnesses n] decodes exactly n witnesses: use n := lenN ws *)
Theorem r_witnesses_complete p ws rest h :
  wf_witnesses ws ->
  r_witnesses (lenN ws) never {| pos := p; inp := enc_witnesses ws ++ rest; hi := h |}
  = Done ws {| pos := p + lenN (enc_witnesses ws); inp := rest; hi := rev (trav_witnesses p ws) ++ h |}.
Proof.
  intros HF. rewrite r_witnesses_loop, trav_witnesses_eq.
  apply (loop_complete body_wit wf_witness enc_witness ev_wit body_wit_complete); auto.
  intros x _. apply enc_witness_pos.
Qed.

Theorem r_witnesses_sound n s ws s' :
  r_witnesses n never s = Done ws s' ->
  wf_witnesses ws /\ lenN ws = n /\ inp s = enc_witnesses ws ++ inp s' /\
  pos s' = pos s + lenN (enc_witnesses ws) /\ hi s' = rev (trav_witnesses (pos s) ws) ++ hi s.
Proof.
  rewrite r_witnesses_loop, trav_witnesses_eq. intros H.
  apply (loop_sound body_wit wf_witness enc_witness ev_wit body_wit_sound) in H.
  unfold wf_witnesses, enc_witnesses. tauto.
Qed.

(* the witness list has no count of its own: prefix-freeness holds between lists of equal length *)
Theorem enc_witnesses_prefix_free a b x y :
  wf_witnesses a -> wf_witnesses b -> lenN a = lenN b ->
  enc_witnesses a ++ x = enc_witnesses b ++ y -> a = b /\ x = y.
Proof.
  intros Ha Hb Hl E.
  pose proof (r_witnesses_complete 0 a x [] Ha) as H1.
  pose proof (r_witnesses_complete 0 b y [] Hb) as H2.
  rewrite E, Hl in H1. rewrite H1 in H2. injection H2 as -> _ ->. split; reflexivity.
Qed.

(* ------------------------------------------------------------------ *)
(** * Block header *)

Definition trav_header (p : N) (a : a_header) : list event := [ev_header p a].

Lemma lenN_enc_header_wf a : wf_header a -> lenN (enc_header a) = 80.
Proof. intros (_ & Hp & Hm & _). rewrite lenN_enc_header, Hp, Hm. reflexivity. Qed.

Lemma r_i32_complete brk p z rest h :
  wf_i32 z ->
  r_u 4 brk {| pos := p; inp := enc_i32 z ++ rest; hi := h |}
  = Done (n_of_i32 z) {| pos := p + 4; inp := rest; hi := h |}.
Proof. intros Hz. apply r_u4_complete. apply n_of_i32_range. exact Hz. Qed.

Theorem r_header_complete p a rest h :
  wf_header a ->
  r_header never {| pos := p; inp := enc_header a ++ rest; hi := h |}
  = Done a {| pos := p + lenN (enc_header a); inp := rest; hi := rev (trav_header p a) ++ h |}.
Proof.
  intros Hwf. rewrite (lenN_enc_header_wf a Hwf).
  destruct a as [ver prev merkle time bits nonce].
  destruct Hwf as (Hver & Hprev & Hmerkle & Htime & Hbits & Hnonce).
  cbn [ah_version ah_prev ah_merkle ah_time ah_bits ah_nonce] in *.
  unfold r_header, enc_header. cbn [ah_version ah_prev ah_merkle ah_time ah_bits ah_nonce].
  rewrite <- !app_assoc.
  stepp.
  stepc (r_i32_complete never p ver (prev ++ merkle ++ le_enc 4 time ++ le_enc 4 bits ++ le_enc 4 nonce ++ rest) h Hver).
  stepc (take_app never (p + 4) prev (merkle ++ le_enc 4 time ++ le_enc 4 bits ++ le_enc 4 nonce ++ rest) h 32 Hprev).
  stepc (take_app never (p + 4 + 32) merkle (le_enc 4 time ++ le_enc 4 bits ++ le_enc 4 nonce ++ rest) h 32 Hmerkle).
  stepc (r_u4_complete never (p + 4 + 32 + 32) time (le_enc 4 bits ++ le_enc 4 nonce ++ rest) h Htime).
  stepc (r_u4_complete never (p + 4 + 32 + 32 + 4) bits (le_enc 4 nonce ++ rest) h Hbits).
  stepc (r_u4_complete never (p + 4 + 32 + 32 + 4 + 4) nonce rest h Hnonce).
  stepe. rewrite ret_eq. rewrite (i32_of_n_of_i32 ver Hver).
  apply Done_eq; auto. lia.
Qed.

Lemma enc_i32_of_n v : v < TWO32 -> enc_i32 (i32_of_n v) = le_enc 4 v.
Proof. intros H. unfold enc_i32. rewrite n_of_i32_of_n by exact H. reflexivity. Qed.

Theorem r_header_sound s a s' :
  r_header never s = Done a s' ->
  wf_header a /\ inp s = enc_header a ++ inp s' /\ pos s' = pos s + lenN (enc_header a) /\
  hi s' = rev (trav_header (pos s) a) ++ hi s.
Proof.
  unfold r_header. intros H. invp H.
  invb H ver s1 H1. invb H prev s2 H2. invb H merkle s3 H3.
  invb H time s4 H4. invb H bits s5 H5. invb H nonce s6 H6.
  inve H. rewrite ret_eq in H. injection H as <- <-.
  apply r_u4_sound in H1. destruct H1 as (Hi1 & Hver & Hp1 & Hh1).
  apply take_Done in H2. destruct H2 as (Hprev & Hi2 & Hp2 & Hh2).
  apply take_Done in H3. destruct H3 as (Hmerkle & Hi3 & Hp3 & Hh3).
  apply r_u4_sound in H4. destruct H4 as (Hi4 & Htime & Hp4 & Hh4).
  apply r_u4_sound in H5. destruct H5 as (Hi5 & Hbits & Hp5 & Hh5).
  apply r_u4_sound in H6. destruct H6 as (Hi6 & Hnonce & Hp6 & Hh6).
  match goal with |- wf_header ?x /\ _ => assert (Hwf : wf_header x) end.
  { repeat split; cbn [ah_version ah_prev ah_merkle ah_time ah_bits ah_nonce]; auto;
      apply i32_of_n_range; exact Hver. }
  rewrite (lenN_enc_header_wf _ Hwf). split; [exact Hwf|].
  unfold enc_header, trav_header, ev_header. cbn [ah_version ah_prev ah_merkle ah_time ah_bits ah_nonce pos inp hi].
  rewrite (enc_i32_of_n ver Hver).
  repeat split.
  - rewrite Hi1, Hi2, Hi3, Hi4, Hi5, Hi6, <- !app_assoc. reflexivity.
  - lia.
  - cbn [rev app]. congruence.
Qed.

Theorem enc_header_prefix_free : forall a b x y,
  wf_header a -> wf_header b -> enc_header a ++ x = enc_header b ++ y -> a = b /\ x = y.
Proof.
  apply (prefix_free_of_complete r_header wf_header enc_header
           (fun p a rest h => {| pos := p + lenN (enc_header a); inp := rest; hi := rev (trav_header p a) ++ h |})).
  - intros a rest Hwf. apply r_header_complete. exact Hwf.
  - reflexivity.
Qed.

(* ------------------------------------------------------------------ *)
(** * Transaction *)

Lemma lenN_enc_stripped t :
  lenN (enc_stripped t) = 4 + lenN (enc_txins (at_ins t)) + lenN (enc_txouts (at_outs t)) + 4.
Proof. unfold enc_stripped. rewrite !lenN_app, lenN_enc_i32, lenN_le_enc4. lia. Qed.

Lemma lenN_enc_tx t :
  lenN (enc_tx t) =
  4 + match at_form t with
      | Legacy => lenN (enc_txins (at_ins t)) + lenN (enc_txouts (at_outs t))
      | Segwit ws => 2 + lenN (enc_txins (at_ins t)) + lenN (enc_txouts (at_outs t)) + lenN (enc_witnesses ws)
      end + 4.
Proof.
  unfold enc_tx. destruct (at_form t) as [|ws]; rewrite !lenN_app, lenN_enc_i32, lenN_le_enc4.
  - lia.
  - change (lenN [x00; x01]) with 2. lia.
Qed.

Lemma enc_stripped_legacy t : at_form t = Legacy -> enc_tx t = enc_stripped t.
Proof. intros H. unfold enc_tx, enc_stripped. rewrite H, <- !app_assoc. reflexivity. Qed.

Lemma enc_txins_nil : enc_txins [] = [x00].
Proof. reflexivity. Qed.

Lemma wf_txins_nil : wf_txins [].
Proof. split; [reflexivity | constructor]. Qed.

(* the segwit marker byte is read as an empty input list *)
Lemma r_txins_marker q rest h :
  r_txins never {| pos := q; inp := x00 :: rest; hi := h |}
  = Done [] {| pos := q + 1; inp := rest; hi := ETxIns 0 :: h |}.
Proof. exact (r_txins_complete q [] rest h wf_txins_nil). Qed.

Lemma r_txins_nil_inv s s' :
  r_txins never s = Done [] s' ->
  inp s = x00 :: inp s' /\ pos s' = pos s + 1 /\ hi s' = ETxIns 0 :: hi s.
Proof. intros H. apply r_txins_sound in H. destruct H as (_ & Hi & Hp & Hh). auto. Qed.

Lemma r_txins_nonempty_first s l s' :
  r_txins never s = Done l s' -> l <> [] -> exists b tl, inp s = b :: tl /\ b <> x00.
Proof.
  intros H Hne. apply r_txins_sound in H. destruct H as ((Hn & _) & Hi & _).
  unfold enc_txins, enc_list in Hi.
  assert (Hpos : 0 < lenN l) by (destruct l; [congruence | rewrite lenN_cons; lia]).
  destruct (cs_cases (lenN l)) as [(Hr & Hc & _)|[(Hr & Hc & _)|[(Hr & Hc & _)|(Hr & Hc & _)]]];
    rewrite Hc in Hi; rewrite <- app_assoc in Hi.
  - rewrite le_enc_1 in Hi. cbn [app] in Hi. eexists _, _. split; [exact Hi|].
    intros E. apply (f_equal b2n) in E. rewrite b2n_n2b in E by (apply N.mod_lt; lia).
    rewrite N.mod_small in E by lia. rewrite b2n_x00 in E. lia.
  - cbn [app] in Hi. eexists _, _. split; [exact Hi | discriminate].
  - cbn [app] in Hi. eexists _, _. split; [exact Hi | discriminate].
  - cbn [app] in Hi. eexists _, _. split; [exact Hi | discriminate].
Qed.

Lemma wf_tx_parts t :
  wf_tx t -> wf_i32 (at_version t) /\ wf_txins (at_ins t) /\ wf_txouts (at_outs t) /\ at_locktime t < TWO32.
Proof.
  intros (H1 & H2 & H3 & H4 & H5 & H6 & _).
  split; [exact H1|]. split; [split; assumption|]. split; [split; assumption|assumption].
Qed.

Lemma pw_nonzero p n : n <> 0 -> pw (p, n) = (p, n).
Proof. intros H. unfold pw. cbn [snd]. destruct (N.eqb_spec n 0); [contradiction | reflexivity]. Qed.

Theorem r_tx_complete p t rest h :
  wf_tx t ->
  r_tx never {| pos := p; inp := enc_tx t ++ rest; hi := h |}
  = Done t {| pos := p + lenN (enc_tx t); inp := rest; hi := rev (trav_tx p t) ++ h |}.
Proof.
  intros Hwf. destruct (wf_tx_parts t Hwf) as (Hver & Hins & Houts & Hlt).
  pose proof (lenN_enc_tx t) as Hlen. pose proof (lenN_enc_stripped t) as Hlens.
  unfold trav_tx, ev_tx, weight_spec. rewrite Hlen, Hlens. clear Hlen Hlens.
  destruct Hwf as (_ & _ & _ & _ & _ & _ & Hform).
  destruct t as [ver ins outs form lt]. cbn [at_version at_ins at_outs at_form at_locktime] in *.
  unfold r_tx, enc_tx. cbn [at_version at_ins at_outs at_form at_locktime].
  stepp. destruct form as [|ws].
  - (* Legacy *)
    rewrite <- !app_assoc.
    stepc (r_i32_complete never p ver _ h Hver).
    stepc (r_txins_complete (p + 4) ins _ h Hins).
    destruct ins as [|i0 ins']; [congruence|]. cbv iota.
    stepc (r_txouts_complete _ outs _ _ Houts).
    stepc (r_u4_complete never _ lt rest _ Hlt).
    stepp. stepe. rewrite ret_eq.
    rewrite (i32_of_n_of_i32 ver Hver).
    apply Done_eq; auto; [lia|].
    rewrite !rev_app_hist. cbn [rev app]. rewrite pw_nonzero by lia.
    f_equal. f_equal; try (f_equal; lia); lia.
  - (* Segwit *)
    destruct Hform as (Hlenws & Hws & Hne).
    rewrite <- !app_assoc. cbn [app].
    stepc (r_i32_complete never p ver _ h Hver).
    stepc (r_txins_marker (p + 4) (x01 :: enc_txins ins ++ enc_txouts outs ++ enc_witnesses ws ++ le_enc 4 lt ++ rest) h).
    stepc (r_u1_cons never (p + 4 + 1) x01 (enc_txins ins ++ enc_txouts outs ++ enc_witnesses ws ++ le_enc 4 lt ++ rest) (ETxIns 0 :: h)).
    rewrite b2n_x01. change (1 =? 1) with true. cbv iota.
    replace (p + 4 + 1 + 1) with (p + 6) by lia.
    stepp.
    stepc (r_txins_complete (p + 6) ins _ _ Hins).
    stepc (r_txouts_complete _ outs _ _ Houts).
    stepp.
    assert (Hl : lenN ins = lenN ws) by (unfold lenN; rewrite Hlenws; reflexivity).
    rewrite Hl.
    stepc (r_witnesses_complete _ ws (le_enc 4 lt ++ rest) _ Hws).
    assert (Hc : (match ins with [] => false | _ :: _ => true end) && all_empty ws = false).
    { destruct ins as [|i0 ins']; [reflexivity|]. rewrite Hne by discriminate. reflexivity. }
    rewrite Hc.
    stepc (r_u4_complete never _ lt rest _ Hlt).
    stepp. stepe. rewrite ret_eq.
    rewrite (i32_of_n_of_i32 ver Hver).
    apply Done_eq; auto; [lia|].
    cbn [rev]. rewrite <- app_assoc. rewrite !rev_app_hist. cbn [rev app].
    f_equal. f_equal; try (f_equal; lia); lia.
Qed.

Lemma fail_eq {A} e brk s : @fail A e brk s = Fail e (hi s).
Proof. reflexivity. Qed.

Lemma n2b_1 : n2b 1 = x01. Proof. reflexivity. Qed.

Theorem r_tx_sound s t s' :
  r_tx never s = Done t s' ->
  wf_tx t /\ inp s = enc_tx t ++ inp s' /\ pos s' = pos s + lenN (enc_tx t) /\
  hi s' = rev (trav_tx (pos s) t) ++ hi s.
Proof.
  unfold r_tx. intros H. invp H.
  invb H ver s1 H1. invb H ins0 s2 H2.
  apply r_u4_sound in H1. destruct H1 as (Hi1 & Hver & Hp1 & Hh1).
  pose proof (i32_of_n_range ver Hver) as Hwver.
  destruct ins0 as [|i0 ins'].
  - (* the marker: segwit *)
    apply r_txins_nil_inv in H2. destruct H2 as (Hi2 & Hp2 & Hh2).
    invb H flag s3 H3. apply r_u1_sound in H3. destruct H3 as (Hi3 & Hflag & Hp3 & Hh3).
    destruct (N.eqb_spec flag 1) as [->|Hf]; [|discriminate].
    invp H. invb H ins s4 H4. invb H outs s5 H5. invp H. invb H ws s6 H6.
    destruct ((match ins with [] => false | _ :: _ => true end) && all_empty ws) eqn:Hc; [discriminate|].
    invb H lk s7 H7. invp H. inve H. rewrite ret_eq in H. injection H as <- <-.
    apply r_txins_sound in H4. destruct H4 as (Hins & Hi4 & Hp4 & Hh4).
    apply r_txouts_sound in H5. destruct H5 as (Houts & Hi5 & Hp5 & Hh5).
    apply r_witnesses_sound in H6. destruct H6 as (Hws & Hlws & Hi6 & Hp6 & Hh6).
    apply r_u4_sound in H7. destruct H7 as (Hi7 & Hlt & Hp7 & Hh7).
    assert (E3 : pos s3 = pos s + 6) by lia. rewrite E3 in *.
    rewrite Hp4 in *. rewrite Hp5 in *.
    pose proof (lenN_enc_tx {| at_version := i32_of_n ver; at_ins := ins; at_outs := outs;
                               at_form := Segwit ws; at_locktime := lk |}) as Hlen.
    pose proof (lenN_enc_stripped {| at_version := i32_of_n ver; at_ins := ins; at_outs := outs;
                               at_form := Segwit ws; at_locktime := lk |}) as Hlens.
    cbn [at_version at_ins at_outs at_form at_locktime] in Hlen, Hlens.
    unfold trav_tx, ev_tx, weight_spec. rewrite Hlen, Hlens. clear Hlen Hlens.
    unfold wf_tx, enc_tx. cbn [at_version at_ins at_outs at_form at_locktime pos inp hi].
    destruct Hins as [Hnins HFins]. destruct Houts as [Hnouts HFouts].
    split; [|split; [|split]].
    + repeat split; try assumption; try (apply Hwver).
      * unfold lenN in Hlws. lia.
      * intros Hne. destruct ins as [|i0 ins']; [congruence|]. exact Hc.
    + rewrite (enc_i32_of_n ver Hver), <- !app_assoc. cbn [app].
      rewrite Hi1, Hi2, Hi3, n2b_1, Hi4, Hi5, Hi6, Hi7, <- ?app_assoc. reflexivity.
    + lia.
    + rewrite !rev_app_hist. cbn [rev app].
      rewrite Hh7, Hh6, Hh5, Hh4, Hh3, Hh2, Hh1, Hp7, Hp6.
      f_equal. f_equal; try (f_equal; lia); lia.
  - (* legacy *)
    invb H outs s3 H3. invb H lk s4 H4. invp H. inve H. rewrite ret_eq in H. injection H as <- <-.
    apply r_txins_sound in H2. destruct H2 as (Hins & Hi2 & Hp2 & Hh2).
    apply r_txouts_sound in H3. destruct H3 as (Houts & Hi3 & Hp3 & Hh3).
    apply r_u4_sound in H4. destruct H4 as (Hi4 & Hlt & Hp4 & Hh4).
    rewrite Hp1 in *. rewrite Hp2 in *.
    pose proof (lenN_enc_tx {| at_version := i32_of_n ver; at_ins := i0 :: ins'; at_outs := outs;
                               at_form := Legacy; at_locktime := lk |}) as Hlen.
    cbn [at_version at_ins at_outs at_form at_locktime] in Hlen.
    unfold trav_tx, ev_tx. rewrite Hlen. clear Hlen.
    unfold wf_tx, enc_tx. cbn [at_version at_ins at_outs at_form at_locktime pos inp hi].
    destruct Hins as [Hnins HFins]. destruct Houts as [Hnouts HFouts].
    split; [|split; [|split]].
    + repeat split; try assumption; try (apply Hwver). discriminate.
    + rewrite (enc_i32_of_n ver Hver), <- !app_assoc.
      rewrite Hi1, Hi2, Hi3, Hi4, <- ?app_assoc. reflexivity.
    + lia.
    + rewrite !rev_app_hist. cbn [rev app]. rewrite pw_nonzero by lia.
      rewrite Hh4, Hh3, Hh2, Hh1, Hp4, Hp3.
      f_equal. f_equal; try (f_equal; lia); lia.
Qed.

Theorem enc_tx_prefix_free : forall a b x y,
  wf_tx a -> wf_tx b -> enc_tx a ++ x = enc_tx b ++ y -> a = b /\ x = y.
Proof.
  apply (prefix_free_of_complete r_tx wf_tx enc_tx
           (fun p a rest h => {| pos := p + lenN (enc_tx a); inp := rest; hi := rev (trav_tx p a) ++ h |})).
  - intros a rest Hwf. apply r_tx_complete. exact Hwf.
  - reflexivity.
Qed.

(* ------------------------------------------------------------------ *)
(** * Block *)

Definition body_tx (_ : N) : P a_tx := r_tx.
Definition ev_txs (_ q : N) (t : a_tx) : list event := trav_tx q t.

Lemma body_tx_complete : body_complete body_tx wf_tx enc_tx ev_txs.
Proof. intros i q x rest h Hwf. apply r_tx_complete. exact Hwf. Qed.

Lemma body_tx_sound : body_sound body_tx wf_tx enc_tx ev_txs.
Proof. intros i s x s' H. apply r_tx_sound. exact H. Qed.

Lemma enc_tx_progress : enc_progress wf_tx enc_tx.
Proof. intros x _. pose proof (enc_tx_pos x). lia. Qed.

Lemma lenN_enc_block b :
  wf_header (ab_header b) ->
  lenN (enc_block b) = 80 + cs_width (lenN (ab_txs b)) + lenN (flat_map enc_tx (ab_txs b)).
Proof. intros H. unfold enc_block. rewrite lenN_app, lenN_enc_list, (lenN_enc_header_wf _ H). lia. Qed.

Lemma rev_block_hist (e1 e2 : event) l h : rev (e1 :: e2 :: l) ++ h = rev l ++ e2 :: e1 :: h.
Proof. cbn [rev]. rewrite <- !app_assoc. reflexivity. Qed.

Theorem r_block_complete p b rest h :
  wf_block b ->
  r_block never {| pos := p; inp := enc_block b ++ rest; hi := h |}
  = Done b {| pos := p + lenN (enc_block b); inp := rest; hi := rev (trav_block p b) ++ h |}.
Proof.
  intros (Hhd & Hn & HF). rewrite (lenN_enc_block b Hhd). unfold trav_block.
  destruct b as [hdr txs]. cbn [ab_header ab_txs] in *.
  unfold r_block, enc_block, enc_list. cbn [ab_header ab_txs]. rewrite <- !app_assoc.
  stepc (r_header_complete p hdr _ h Hhd). rewrite (lenN_enc_header_wf hdr Hhd).
  stepc (r_compact_complete never (p + 80) (lenN txs) (flat_map enc_tx txs ++ rest) _ Hn).
  stepe.
  stepc (loop_complete body_tx wf_tx enc_tx ev_txs body_tx_complete enc_tx_progress txs _ rest _ HF).
  rewrite ret_eq. apply Done_eq; auto; [lia|].
  rewrite rev_block_hist. reflexivity.
Qed.

Theorem r_block_sound s b s' :
  r_block never s = Done b s' ->
  wf_block b /\ inp s = enc_block b ++ inp s' /\ pos s' = pos s + lenN (enc_block b) /\
  hi s' = rev (trav_block (pos s) b) ++ hi s.
Proof.
  unfold r_block. intros H.
  invb H hdr s1 H1. invb H n s2 H2. inve H. invb H txs s3 H3. rewrite ret_eq in H. injection H as <- <-.
  apply r_header_sound in H1. destruct H1 as (Hhd & Hi1 & Hp1 & Hh1).
  rewrite (lenN_enc_header_wf hdr Hhd) in Hp1.
  apply r_compact_sound in H2. destruct H2 as (Hn & Hi2 & Hp2 & Hh2).
  apply (loop_sound body_tx wf_tx enc_tx ev_txs body_tx_sound) in H3. cbn [pos inp hi] in H3.
  destruct H3 as (HF & Hi3 & Hp3 & Hh3 & Hlen). subst n.
  match goal with |- wf_block ?x /\ _ => assert (Hwf : wf_block x) end.
  { repeat split; cbn [ab_header ab_txs]; try assumption; apply Hhd. }
  split; [exact Hwf|].
  rewrite (lenN_enc_block {| ab_header := hdr; ab_txs := txs |} Hhd). unfold enc_block, enc_list, trav_block. cbn [ab_header ab_txs].
  split; [|split].
  - rewrite Hi1, Hi2, Hi3, <- !app_assoc. reflexivity.
  - lia.
  - rewrite rev_block_hist, Hh3, Hh2, Hh1, Hp2, Hp1. reflexivity.
Qed.

Theorem enc_block_prefix_free : forall a b x y,
  wf_block a -> wf_block b -> enc_block a ++ x = enc_block b ++ y -> a = b /\ x = y.
Proof.
  apply (prefix_free_of_complete r_block wf_block enc_block
           (fun p a rest h => {| pos := p + lenN (enc_block a); inp := rest; hi := rev (trav_block p a) ++ h |})).
  - intros a rest Hwf. apply r_block_complete. exact Hwf.
  - reflexivity.
Qed.

(* ------------------------------------------------------------------ *)
(** * The ETransaction event: weight and txid-preimage windows *)

Definition ev_weight (e : event) : N :=
  match e with ETransaction _ _ _ _ _ _ w => w | _ => 0 end.
Definition ev_pre (e : event) : window * window * window :=
  match e with ETransaction _ _ _ a b c _ => (a, b, c) | _ => ((0, 0), (0, 0), (0, 0)) end.

(* the bytes of window [w] (absolute offsets) inside a buffer [b] that starts at absolute offset [base] *)
Definition win_bytes (base : N) (b : list byte) (w : window) : list byte :=
  firstn (N.to_nat (snd w)) (skipn (N.to_nat (fst w - base)) b).

Theorem tx_weight_event p t : ev_weight (ev_tx p t) = weight_spec t.
Proof.
  unfold ev_tx, weight_spec. destruct (at_form t) as [|ws] eqn:Ef; cbn [ev_weight].
  - rewrite <- (enc_stripped_legacy t Ef). lia.
  - reflexivity.
Qed.

Lemma trav_tx_last p t : exists d, trav_tx p t = d ++ [ev_tx p t].
Proof.
  unfold trav_tx. destruct (at_form t) as [|ws].
  - eexists. rewrite app_assoc. reflexivity.
  - eexists. rewrite !app_assoc. reflexivity.
Qed.

(* the last callback of a successful [r_tx] is the ETransaction event of the spec,
   and its weight field is the BIP141 weight *)
Theorem r_tx_emits_weight s t s' :
  r_tx never s = Done t s' ->
  exists h', hi s' = ev_tx (pos s) t :: h' /\ ev_weight (ev_tx (pos s) t) = weight_spec t.
Proof.
  intros H. apply r_tx_sound in H. destruct H as (_ & _ & _ & Hh).
  destruct (trav_tx_last (pos s) t) as [d Hd]. rewrite Hd, rev_app_hist in Hh. cbn [rev app] in Hh.
  eexists. split; [exact Hh | apply tx_weight_event].
Qed.

Lemma win_bytes_mid base (pre mid post : list byte) w :
  lenN pre = fst w - base -> lenN mid = snd w -> win_bytes base (pre ++ mid ++ post) w = mid.
Proof.
  intros H1 H2. unfold win_bytes. rewrite <- H1, <- H2. unfold lenN. rewrite !Nat2N.id.
  rewrite skipn_app, skipn_all, Nat.sub_diag. cbn [skipn app].
  rewrite firstn_app, firstn_all, Nat.sub_diag. cbn [firstn]. apply app_nil_r.
Qed.

Lemma win_bytes_empty base b : win_bytes base b (0, 0) = [].
Proof. reflexivity. Qed.

(* the three preimage windows of the ETransaction event, read from the input, concatenate to the
   witness-stripped serialisation (for Legacy: one window covering the whole transaction) *)
Theorem preimage_stripped p t rest :
  wf_tx t ->
  let b := enc_tx t ++ rest in
  let '(wa, wb, wc) := ev_pre (ev_tx p t) in
  win_bytes p b wa ++ win_bytes p b wb ++ win_bytes p b wc = enc_stripped t.
Proof.
  intros Hwf. cbv zeta. unfold ev_tx. pose proof (lenN_enc_tx t) as Hlen.
  remember (lenN (enc_tx t)) as T eqn:HT.
  destruct (at_form t) as [|ws] eqn:Ef; cbn [ev_pre].
  - rewrite pw_nonzero by lia. rewrite !win_bytes_empty, !app_nil_r.
    rewrite <- (enc_stripped_legacy t Ef).
    apply (win_bytes_mid p [] (enc_tx t) rest); cbn [fst snd]; [|symmetry; exact HT].
    change (lenN (@nil byte)) with 0. lia.
  - unfold enc_tx, enc_stripped. rewrite Ef.
    set (V := enc_i32 (at_version t)). set (I := enc_txins (at_ins t)). set (O := enc_txouts (at_outs t)).
    set (W := enc_witnesses ws). set (L := le_enc 4 (at_locktime t)).
    assert (HV : lenN V = 4) by apply lenN_enc_i32.
    assert (HL : lenN L = 4) by apply lenN_le_enc4.
    fold I O W in Hlen.
    assert (E1 : win_bytes p ((V ++ ([x00; x01] ++ I ++ O ++ W) ++ L) ++ rest) (p, 4) = V).
    { rewrite <- !app_assoc. apply (win_bytes_mid p [] V); cbn [fst snd]; [|exact HV].
      change (lenN (@nil byte)) with 0. lia. }
    assert (E2 : win_bytes p ((V ++ ([x00; x01] ++ I ++ O ++ W) ++ L) ++ rest) (p + 6, lenN I + lenN O) = I ++ O).
    { replace ((V ++ ([x00; x01] ++ I ++ O ++ W) ++ L) ++ rest)
        with ((V ++ [x00; x01]) ++ (I ++ O) ++ (W ++ L ++ rest)) by (rewrite <- !app_assoc; reflexivity).
      apply win_bytes_mid; cbn [fst snd].
      - rewrite lenN_app, HV. change (lenN [x00; x01]) with 2. lia.
      - apply lenN_app. }
    assert (E3 : win_bytes p ((V ++ ([x00; x01] ++ I ++ O ++ W) ++ L) ++ rest)
                           (p + T - 4, 4) = L).
    { replace ((V ++ ([x00; x01] ++ I ++ O ++ W) ++ L) ++ rest)
        with ((V ++ [x00; x01] ++ I ++ O ++ W) ++ L ++ rest) by (rewrite <- !app_assoc; reflexivity).
      apply win_bytes_mid; cbn [fst snd]; [|exact HL].
      rewrite !lenN_app, HV. change (lenN [x00; x01]) with 2. lia. }
    rewrite E1, E2, E3, <- !app_assoc. reflexivity.
Qed.

(* ------------------------------------------------------------------ *)
(** * Which errors a never-breaking run can report *)

Definition errs {A} (p : P A) (E : error -> Prop) : Prop :=
  forall s e h, p never s = Fail e h -> E e.

Definition E_basic (e : error) : Prop := e = MoreBytesNeeded \/ e = NonMinimalVarInt.
Definition E_tx (e : error) : Prop :=
  E_basic e \/ (exists x, e = UnknownSegwitFlag x) \/ e = SegwitFlagWithoutWitnesses.

Lemma errs_weaken {A} (p : P A) (E E' : error -> Prop) :
  (forall e, E e -> E' e) -> errs p E -> errs p E'.
Proof. intros HE Hp s e h H. apply HE. exact (Hp s e h H). Qed.

Lemma errs_ret {A} (a : A) E : errs (ret a) E.
Proof. intros s e h H. discriminate. Qed.
Lemma errs_get_pos E : errs get_pos E.
Proof. intros s e h H. discriminate. Qed.
Lemma errs_emitp ev E : errs (emitp ev) E.
Proof. intros s e h H. rewrite emitp_never in H. discriminate. Qed.
Lemma errs_fail {A} e0 (E : error -> Prop) : E e0 -> errs (@fail A e0) E.
Proof. intros HE s e h H. rewrite fail_eq in H. injection H as <- _. exact HE. Qed.
Lemma errs_take n (E : error -> Prop) : E MoreBytesNeeded -> errs (take n) E.
Proof. intros HE s e h H. apply take_Fail in H. destruct H as (-> & _). exact HE. Qed.
Lemma errs_bind {A B} (p : P A) (f : A -> P B) E :
  errs p E -> (forall a, errs (f a) E) -> errs (bind p f) E.
Proof.
  intros Hp Hf s e h H. apply bind_Fail in H. destruct H as [H|(a & s1 & _ & H)].
  - exact (Hp s e h H).
  - exact (Hf a s1 e h H).
Qed.

Lemma errs_loop_fuel {A} (body : N -> P A) E :
  (forall i, errs (body i) E) -> forall fuel i n, errs (loop_fuel fuel body i n) E.
Proof.
  intros Hb fuel. induction fuel as [|fuel IH]; intros i n s e h H.
  - cbn [loop_fuel] in H. destruct (i <? n); discriminate.
  - cbn [loop_fuel] in H. destruct (i <? n); [|discriminate].
    revert H. apply errs_bind; [apply Hb|]. intros x.
    apply errs_bind; [apply IH|]. intros r. apply errs_ret.
Qed.

Lemma errs_loop {A} (body : N -> P A) E n :
  (forall i, errs (body i) E) -> errs (loop body n) E.
Proof. intros Hb s e h H. unfold loop in H. exact (errs_loop_fuel body E Hb _ 0 n s e h H). Qed.

Lemma E_basic_more : E_basic MoreBytesNeeded. Proof. left; reflexivity. Qed.
Lemma E_basic_nonmin : E_basic NonMinimalVarInt. Proof. right; reflexivity. Qed.
Lemma E_basic_tx e : E_basic e -> E_tx e. Proof. intros H; left; exact H. Qed.
#[local] Hint Resolve E_basic_more E_basic_nonmin : core.

Ltac errs_step :=
  lazymatch goal with
  | |- errs (bind _ _) _ => apply errs_bind; [|intros ?]
  | |- errs (match ?x with (_, _) => _ end) _ => destruct x
  | |- errs (if ?c then _ else _) _ => destruct c
  | |- errs (ret _) _ => apply errs_ret
  | |- errs get_pos _ => apply errs_get_pos
  | |- errs (emitp _) _ => apply errs_emitp
  | |- errs (take _) _ => apply errs_take; auto
  | |- errs (fail _) _ => apply errs_fail; auto
  | |- errs (loop _ _) _ => apply errs_loop; intros ?; cbv beta
  end.

Lemma errs_r_u w : errs (r_u w) E_basic.
Proof. unfold r_u. repeat errs_step. Qed.
Lemma errs_r_compact : errs r_compact E_basic.
Proof. intros s e h H. apply r_compact_Fail in H. destruct H as [_ H]. exact H. Qed.
Lemma errs_r_script_pos : errs r_script_pos E_basic.
Proof. unfold r_script_pos. errs_step; [apply errs_r_compact|]. repeat errs_step. Qed.
Lemma errs_r_script : errs r_script E_basic.
Proof. unfold r_script. errs_step; [apply errs_r_script_pos|]. repeat errs_step. Qed.
Lemma errs_r_outpoint : errs r_outpoint E_basic.
Proof. unfold r_outpoint. errs_step; [repeat errs_step|]. errs_step; [apply errs_r_u|]. repeat errs_step. Qed.
Lemma errs_r_txin_ev i : errs (r_txin_ev i) E_basic.
Proof.
  unfold r_txin_ev. errs_step; [errs_step|]. errs_step; [apply errs_r_outpoint|]. errs_step.
  errs_step; [apply errs_r_script_pos|]. errs_step. errs_step; [apply errs_r_u|]. repeat errs_step.
Qed.
Lemma errs_r_txin : errs r_txin E_basic.
Proof. unfold r_txin. errs_step; [apply errs_r_txin_ev|]. repeat errs_step. Qed.
Lemma errs_r_txout_ev i : errs (r_txout_ev i) E_basic.
Proof.
  unfold r_txout_ev. errs_step; [errs_step|]. errs_step; [apply errs_r_u|].
  errs_step; [apply errs_r_script_pos|]. repeat errs_step.
Qed.
Lemma errs_r_txout : errs r_txout E_basic.
Proof. unfold r_txout. errs_step; [apply errs_r_txout_ev|]. repeat errs_step. Qed.
Lemma errs_r_txins : errs r_txins E_basic.
Proof.
  unfold r_txins. errs_step; [apply errs_r_compact|]. errs_step; [errs_step|]. errs_step.
  errs_step; [apply errs_r_txin_ev|]. repeat errs_step.
Qed.
Lemma errs_r_txouts : errs r_txouts E_basic.
Proof.
  unfold r_txouts. errs_step; [apply errs_r_compact|]. errs_step; [errs_step|]. errs_step.
  errs_step; [apply errs_r_txout_ev|]. repeat errs_step.
Qed.
Lemma errs_r_witness : errs r_witness E_basic.
Proof.
  unfold r_witness. errs_step; [apply errs_r_compact|]. errs_step; [errs_step|]. errs_step.
  errs_step; [apply errs_r_script_pos|]. repeat errs_step.
Qed.
Lemma errs_r_witnesses n : errs (r_witnesses n) E_basic.
Proof.
  unfold r_witnesses. errs_step. errs_step; [errs_step|]. errs_step; [apply errs_r_witness|]. repeat errs_step.
Qed.
Lemma errs_r_header : errs r_header E_basic.
Proof.
  unfold r_header. errs_step; [errs_step|]. errs_step; [apply errs_r_u|].
  errs_step; [errs_step|]. errs_step; [errs_step|].
  errs_step; [apply errs_r_u|]. errs_step; [apply errs_r_u|]. errs_step; [apply errs_r_u|].
  repeat errs_step.
Qed.

Lemma errs_r_tx : errs r_tx E_tx.
Proof.
  unfold r_tx. errs_step; [errs_step|].
  errs_step; [apply (errs_weaken _ _ _ E_basic_tx), errs_r_u|].
  errs_step; [apply (errs_weaken _ _ _ E_basic_tx), errs_r_txins|].
  match goal with |- errs (match ?x with [] => _ | _ :: _ => _ end) _ => destruct x as [|i0 ins'] end.
  - errs_step; [apply (errs_weaken _ _ _ E_basic_tx), errs_r_u|].
    errs_step.
    + errs_step; [errs_step|].
      errs_step; [apply (errs_weaken _ _ _ E_basic_tx), errs_r_txins|].
      errs_step; [apply (errs_weaken _ _ _ E_basic_tx), errs_r_txouts|].
      errs_step; [errs_step|].
      errs_step; [apply (errs_weaken _ _ _ E_basic_tx), errs_r_witnesses|].
      errs_step.
      * apply errs_fail. right; right; reflexivity.
      * errs_step; [apply (errs_weaken _ _ _ E_basic_tx), errs_r_u|]. repeat errs_step.
    + apply errs_fail. right; left. eexists; reflexivity.
  - errs_step; [apply (errs_weaken _ _ _ E_basic_tx), errs_r_txouts|].
    errs_step; [apply (errs_weaken _ _ _ E_basic_tx), errs_r_u|]. repeat errs_step.
Qed.

Lemma errs_r_block : errs r_block E_tx.
Proof.
  unfold r_block. errs_step; [apply (errs_weaken _ _ _ E_basic_tx), errs_r_header|].
  errs_step; [apply (errs_weaken _ _ _ E_basic_tx), errs_r_compact|].
  errs_step; [errs_step|]. errs_step; [|errs_step]. errs_step. apply errs_r_tx.
Qed.

(* under [never] no decoder reports VisitBreak or an Other error *)
Lemma errs_never_break {A} (p : P A) :
  errs p E_tx -> forall s h, p never s <> Fail VisitBreak h /\ forall c, p never s <> Fail (Other c) h.
Proof.
  intros Hp s h. split; [|intros c]; intros H; apply Hp in H;
    destruct H as [[H|H]|[[x H]|H]]; discriminate.
Qed.

Definition never_break {A} (p : P A) : Prop :=
  forall s h, p never s <> Fail VisitBreak h /\ forall c, p never s <> Fail (Other c) h.

Lemma basic_never_break {A} (p : P A) : errs p E_basic -> never_break p.
Proof. intros H. unfold never_break. apply errs_never_break. exact (errs_weaken _ _ _ E_basic_tx H). Qed.

Theorem r_u_never_break w : never_break (r_u w). Proof. apply basic_never_break, errs_r_u. Qed.
Theorem r_compact_never_break : never_break r_compact. Proof. apply basic_never_break, errs_r_compact. Qed.
Theorem r_script_pos_never_break : never_break r_script_pos. Proof. apply basic_never_break, errs_r_script_pos. Qed.
Theorem r_script_never_break : never_break r_script. Proof. apply basic_never_break, errs_r_script. Qed.
Theorem r_outpoint_never_break : never_break r_outpoint. Proof. apply basic_never_break, errs_r_outpoint. Qed.
Theorem r_txin_ev_never_break i : never_break (r_txin_ev i). Proof. apply basic_never_break, errs_r_txin_ev. Qed.
Theorem r_txin_never_break : never_break r_txin. Proof. apply basic_never_break, errs_r_txin. Qed.
Theorem r_txout_ev_never_break i : never_break (r_txout_ev i). Proof. apply basic_never_break, errs_r_txout_ev. Qed.
Theorem r_txout_never_break : never_break r_txout. Proof. apply basic_never_break, errs_r_txout. Qed.
Theorem r_txins_never_break : never_break r_txins. Proof. apply basic_never_break, errs_r_txins. Qed.
Theorem r_txouts_never_break : never_break r_txouts. Proof. apply basic_never_break, errs_r_txouts. Qed.
Theorem r_witness_never_break : never_break r_witness. Proof. apply basic_never_break, errs_r_witness. Qed.
Theorem r_witnesses_never_break n : never_break (r_witnesses n). Proof. apply basic_never_break, errs_r_witnesses. Qed.
Theorem r_header_never_break : never_break r_header. Proof. apply basic_never_break, errs_r_header. Qed.
Theorem r_tx_never_break : never_break r_tx. Proof. unfold never_break. apply errs_never_break, errs_r_tx. Qed.
Theorem r_block_never_break : never_break r_block. Proof. unfold never_break. apply errs_never_break, errs_r_block. Qed.

(* ------------------------------------------------------------------ *)
(** * Declarative characterisation of the two transaction-level errors *)

Lemma r_u_app w brk p v rest h :
  lenN v = w ->
  r_u w brk {| pos := p; inp := v ++ rest; hi := h |} = Done (le_dec v) {| pos := p + w; inp := rest; hi := h |}.
Proof. intros H. unfold r_u. stepc (take_app brk p v rest h w H). reflexivity. Qed.

Lemma r_u_Done_app w brk s v s' :
  r_u w brk s = Done v s' ->
  exists bs, lenN bs = w /\ inp s = bs ++ inp s' /\ pos s' = pos s + w /\ hi s' = hi s.
Proof.
  intros H. apply r_u_sound in H. destruct H as (Hi & _ & Hp & Hh).
  eexists. split; [|split; [exact Hi|split; assumption]]. apply lenN_le_enc_N.
Qed.

(* a failing step whose error is not one of the basic two is impossible *)
Ltac basic_absurd H L :=
  exfalso; apply L in H; destruct H as [H|H]; discriminate H.

Ltac invf H a s1 H1 L :=
  apply bind_Fail in H; destruct H as [H|(a & s1 & H1 & H)];
  [basic_absurd H L | cbv beta iota in H].

Theorem r_tx_flag s x h :
  r_tx never s = Fail (UnknownSegwitFlag x) h <->
  exists v b rest,
    lenN v = 4 /\ inp s = v ++ [x00] ++ [b] ++ rest /\ b2n b = x /\ x <> 1 /\ h = ETxIns 0 :: hi s.
Proof.
  split.
  - unfold r_tx. intros H. invp H.
    invf H ver s1 H1 (errs_r_u 4). invf H ins0 s2 H2 errs_r_txins.
    apply r_u_Done_app in H1. destruct H1 as (v & Hv & Hi1 & Hp1 & Hh1).
    destruct ins0 as [|i0 ins'].
    + apply r_txins_nil_inv in H2. destruct H2 as (Hi2 & Hp2 & Hh2).
      invf H flag s3 H3 (errs_r_u 1).
      apply r_u1_sound in H3. destruct H3 as (Hi3 & Hflag & Hp3 & Hh3).
      destruct (N.eqb_spec flag 1) as [->|Hf].
      * exfalso. invp H. invf H ins s4 H4 errs_r_txins. invf H outs s5 H5 errs_r_txouts.
        invp H. invf H ws s6 H6 (errs_r_witnesses (lenN ins)).
        destruct ((match ins with [] => false | _ :: _ => true end) && all_empty ws); [discriminate|].
        invf H lk s7 H7 (errs_r_u 4). invp H. inve H. discriminate.
      * rewrite fail_eq in H. injection H as <- <-.
        exists v, (n2b flag), (inp s3). rewrite b2n_n2b by exact Hflag.
        repeat split; auto.
        -- rewrite Hi1, Hi2, Hi3. reflexivity.
        -- congruence.
    + exfalso. invf H outs s3 H3 errs_r_txouts. invf H lk s4 H4 (errs_r_u 4).
      invp H. inve H. discriminate.
  - intros (v & b & rest & Hv & Hi & Hb & Hx & ->).
    destruct s as [p i h0]. cbn [inp hi] in *. subst i. unfold r_tx. stepp.
    stepc (r_u_app 4 never p v _ h0 Hv). cbn [app].
    stepc (r_txins_marker (p + 4) (b :: rest) h0).
    stepc (r_u1_cons never (p + 4 + 1) b rest (ETxIns 0 :: h0)).
    rewrite Hb. destruct (N.eqb_spec x 1) as [E|_]; [contradiction|].
    reflexivity.
Qed.

Lemma wf_witnesses_repeat n : wf_witnesses (repeat [] n).
Proof.
  induction n as [|n IH]; cbn [repeat]; constructor; [|exact IH].
  split; [reflexivity | constructor].
Qed.

Lemma lenN_repeat {A} (x : A) n : lenN (repeat x n) = N.of_nat n.
Proof. unfold lenN. rewrite repeat_length. reflexivity. Qed.

(* history at the point where SegwitFlagWithoutWitnesses is reported: everything up to and
   including the (all empty) witnesses has been delivered *)
Definition nowit_hist (p : N) (ins : list a_txin) (outs : list a_txout) (h : hist) : hist :=
  rev (trav_witnesses (p + 6 + lenN (enc_txins ins) + lenN (enc_txouts outs)) (repeat [] (length ins))) ++
  rev (trav_txouts (p + 6 + lenN (enc_txins ins)) outs) ++
  rev (trav_txins (p + 6) ins) ++ ETxIns 0 :: h.

Theorem r_tx_nowit s h :
  r_tx never s = Fail SegwitFlagWithoutWitnesses h <->
  exists v ins outs rest,
    lenN v = 4 /\ ins <> [] /\ wf_txins ins /\ wf_txouts outs /\
    inp s = v ++ [x00; x01] ++ enc_txins ins ++ enc_txouts outs ++ repeat x00 (length ins) ++ rest /\
    h = nowit_hist (pos s) ins outs (hi s).
Proof.
  split.
  - unfold r_tx. intros H. invp H.
    invf H ver s1 H1 (errs_r_u 4). invf H ins0 s2 H2 errs_r_txins.
    apply r_u_Done_app in H1. destruct H1 as (v & Hv & Hi1 & Hp1 & Hh1).
    destruct ins0 as [|i0 ins'].
    + apply r_txins_nil_inv in H2. destruct H2 as (Hi2 & Hp2 & Hh2).
      invf H flag s3 H3 (errs_r_u 1).
      apply r_u1_sound in H3. destruct H3 as (Hi3 & Hflag & Hp3 & Hh3).
      destruct (N.eqb_spec flag 1) as [->|Hf]; [|rewrite fail_eq in H; discriminate].
      invp H. invf H ins s4 H4 errs_r_txins. invf H outs s5 H5 errs_r_txouts.
      invp H. invf H ws s6 H6 (errs_r_witnesses (lenN ins)).
      destruct ((match ins with [] => false | _ :: _ => true end) && all_empty ws) eqn:Hc.
      * rewrite fail_eq in H. injection H as <-.
        apply andb_true_iff in Hc. destruct Hc as [Hne Hae].
        apply all_empty_repeat in Hae.
        apply r_txins_sound in H4. destruct H4 as (Hins & Hi4 & Hp4 & Hh4).
        apply r_txouts_sound in H5. destruct H5 as (Houts & Hi5 & Hp5 & Hh5).
        apply r_witnesses_sound in H6. destruct H6 as (Hws & Hlws & Hi6 & Hp6 & Hh6).
        assert (Hlen : length ws = length ins) by (unfold lenN in Hlws; lia).
        rewrite Hlen in Hae. subst ws. rewrite enc_witnesses_repeat in Hi6.
        exists v, ins, outs, (inp s6). split; [exact Hv|]. split; [destruct ins; [discriminate|discriminate]|].
        split; [exact Hins|]. split; [exact Houts|]. split.
        -- rewrite Hi1, Hi2, Hi3, n2b_1, Hi4, Hi5, Hi6, <- ?app_assoc. reflexivity.
        -- unfold nowit_hist. rewrite Hh6, Hh5, Hh4, Hh3, Hh2, Hh1, Hp5, Hp4.
           assert (E3 : pos s3 = pos s + 6) by lia. rewrite E3. reflexivity.
      * exfalso. invf H lk s7 H7 (errs_r_u 4). invp H. inve H. discriminate.
    + exfalso. invf H outs s3 H3 errs_r_txouts. invf H lk s4 H4 (errs_r_u 4).
      invp H. inve H. discriminate.
  - intros (v & ins & outs & rest & Hv & Hne & Hins & Houts & Hi & ->).
    destruct s as [p i h0]. cbn [inp hi pos] in *. subst i. unfold r_tx, nowit_hist. stepp.
    stepc (r_u_app 4 never p v _ h0 Hv). cbn [app].
    stepc (r_txins_marker (p + 4) (x01 :: enc_txins ins ++ enc_txouts outs ++ repeat x00 (length ins) ++ rest) h0).
    stepc (r_u1_cons never (p + 4 + 1) x01 (enc_txins ins ++ enc_txouts outs ++ repeat x00 (length ins) ++ rest) (ETxIns 0 :: h0)).
    rewrite b2n_x01. change (1 =? 1) with true. cbv iota.
    replace (p + 4 + 1 + 1) with (p + 6) by lia.
    stepp.
    stepc (r_txins_complete (p + 6) ins _ _ Hins).
    stepc (r_txouts_complete _ outs _ _ Houts).
    stepp.
    rewrite <- (enc_witnesses_repeat (length ins)).
    assert (Hl : lenN ins = lenN (repeat (@nil (list byte)) (length ins))) by (rewrite lenN_repeat; reflexivity).
    rewrite Hl.
    stepc (r_witnesses_complete _ (repeat [] (length ins)) rest _ (wf_witnesses_repeat (length ins))).
    assert (Hae : all_empty (repeat [] (length ins)) = true).
    { apply all_empty_repeat. rewrite repeat_length. reflexivity. }
    rewrite Hae. destruct ins as [|i0 ins']; [congruence|]. reflexivity.
Qed.

(* ------------------------------------------------------------------ *)
(** * Injectivity of the encoders (prefix-freeness with empty tails) *)

Lemma inj_of_prefix_free {A} (wf : A -> Prop) (enc : A -> list byte) :
  (forall a b x y, wf a -> wf b -> enc a ++ x = enc b ++ y -> a = b /\ x = y) ->
  forall a b, wf a -> wf b -> enc a = enc b -> a = b.
Proof. intros H a b Ha Hb E. apply (H a b [] [] Ha Hb). rewrite E. reflexivity. Qed.

Theorem enc_script_inj : forall a b, wf_script a -> wf_script b -> enc_script a = enc_script b -> a = b.
Proof. exact (inj_of_prefix_free _ _ enc_script_prefix_free). Qed.
Theorem enc_outpoint_inj : forall a b, wf_outpoint a -> wf_outpoint b -> enc_outpoint a = enc_outpoint b -> a = b.
Proof. exact (inj_of_prefix_free _ _ enc_outpoint_prefix_free). Qed.
Theorem enc_txin_inj : forall a b, wf_txin a -> wf_txin b -> enc_txin a = enc_txin b -> a = b.
Proof. exact (inj_of_prefix_free _ _ enc_txin_prefix_free). Qed.
Theorem enc_txout_inj : forall a b, wf_txout a -> wf_txout b -> enc_txout a = enc_txout b -> a = b.
Proof. exact (inj_of_prefix_free _ _ enc_txout_prefix_free). Qed.
Theorem enc_txins_inj : forall a b, wf_txins a -> wf_txins b -> enc_txins a = enc_txins b -> a = b.
Proof. exact (inj_of_prefix_free _ _ enc_txins_prefix_free). Qed.
Theorem enc_txouts_inj : forall a b, wf_txouts a -> wf_txouts b -> enc_txouts a = enc_txouts b -> a = b.
Proof. exact (inj_of_prefix_free _ _ enc_txouts_prefix_free). Qed.
Theorem enc_witness_inj : forall a b, wf_witness a -> wf_witness b -> enc_witness a = enc_witness b -> a = b.
Proof. exact (inj_of_prefix_free _ _ enc_witness_prefix_free). Qed.
Theorem enc_witnesses_inj a b :
  wf_witnesses a -> wf_witnesses b -> lenN a = lenN b -> enc_witnesses a = enc_witnesses b -> a = b.
Proof.
  intros Ha Hb Hl E. apply (enc_witnesses_prefix_free a b [] [] Ha Hb Hl). rewrite E. reflexivity.
Qed.
Theorem enc_tx_inj : forall a b, wf_tx a -> wf_tx b -> enc_tx a = enc_tx b -> a = b.
Proof. exact (inj_of_prefix_free _ _ enc_tx_prefix_free). Qed.
Theorem enc_header_inj : forall a b, wf_header a -> wf_header b -> enc_header a = enc_header b -> a = b.
Proof. exact (inj_of_prefix_free _ _ enc_header_prefix_free). Qed.
Theorem enc_block_inj : forall a b, wf_block a -> wf_block b -> enc_block a = enc_block b -> a = b.
Proof. exact (inj_of_prefix_free _ _ enc_block_prefix_free). Qed.

(* the witness list carries no count of its own, so the equal-length hypothesis above is needed *)
Example enc_witnesses_needs_length :
  enc_witnesses [] ++ [x00] = enc_witnesses [[]] ++ [] /\ (@nil a_witness) <> [[]].
Proof. split; [reflexivity | discriminate]. Qed.

(* ------------------------------------------------------------------ *)
(** * Bonus: under [never] the loop fuel never runs out ([Stuck] is unreachable) *)

Definition nostuck {A} (p : P A) : Prop := forall s, p never s <> Stuck.

Lemma nostuck_ret {A} (a : A) : nostuck (ret a).
Proof. intros s H. discriminate. Qed.
Lemma nostuck_fail {A} e : nostuck (@fail A e).
Proof. intros s H. discriminate. Qed.
Lemma nostuck_get_pos : nostuck get_pos.
Proof. intros s H. discriminate. Qed.
Lemma nostuck_emitp e : nostuck (emitp e).
Proof. intros s H. rewrite emitp_never in H. discriminate. Qed.
Lemma nostuck_take n : nostuck (take n).
Proof. intros s H. unfold take in H. destruct (splitN (inp s) n) as [[a b]|]; discriminate. Qed.
Lemma nostuck_bind {A B} (p : P A) (f : A -> P B) :
  nostuck p -> (forall a, nostuck (f a)) -> nostuck (bind p f).
Proof.
  intros Hp Hf s H. unfold bind in H. destruct (p never s) as [a s1| |] eqn:E.
  - exact (Hf a s1 H).
  - discriminate.
  - exact (Hp s E).
Qed.

(* a successful body consumes at least one byte *)
Definition shrinks {A} (body : N -> P A) : Prop :=
  forall i s x s', body i never s = Done x s' -> (length (inp s') < length (inp s))%nat.

Lemma shrinks_of_sound {A} (body : N -> P A) wfI enc ev :
  body_sound body wfI enc ev -> enc_progress wfI enc -> shrinks body.
Proof.
  intros Hs Hp i s x s' H. apply Hs in H. destruct H as (Hwf & Hi & _).
  rewrite Hi, app_length. pose proof (Hp x Hwf) as H1. unfold lenN in H1. lia.
Qed.

Lemma nostuck_loop_fuel {A} (body : N -> P A) :
  (forall i, nostuck (body i)) -> shrinks body ->
  forall fuel i n s, (length (inp s) < fuel)%nat -> loop_fuel fuel body i n never s <> Stuck.
Proof.
  intros Hb Hsh fuel. induction fuel as [|fuel IH]; intros i n s Hf H; [lia|].
  cbn [loop_fuel] in H. destruct (i <? n); [|discriminate].
  unfold bind at 1 in H. destruct (body i never s) as [x s1| |] eqn:E.
  - apply Hsh in E. unfold bind in H.
    destruct (loop_fuel fuel body (i + 1) n never s1) as [r s2| |] eqn:E2; try discriminate.
    apply (IH (i + 1) n s1); [lia | exact E2].
  - discriminate.
  - exact (Hb i s E).
Qed.

Lemma nostuck_loop {A} (body : N -> P A) n :
  (forall i, nostuck (body i)) -> shrinks body -> nostuck (loop body n).
Proof. intros Hb Hsh s. unfold loop. apply nostuck_loop_fuel; auto. Qed.

Ltac ns_step :=
  lazymatch goal with
  | |- nostuck (bind _ _) => apply nostuck_bind; [|intros ?]
  | |- nostuck (match ?x with (_, _) => _ end) => destruct x
  | |- nostuck (if ?c then _ else _) => destruct c
  | |- nostuck (ret _) => apply nostuck_ret
  | |- nostuck get_pos => apply nostuck_get_pos
  | |- nostuck (emitp _) => apply nostuck_emitp
  | |- nostuck (take _) => apply nostuck_take
  | |- nostuck (fail _) => apply nostuck_fail
  end.

Lemma nostuck_r_u w : nostuck (r_u w).
Proof. unfold r_u. repeat ns_step. Qed.
Lemma nostuck_r_compact : nostuck r_compact.
Proof.
  unfold r_compact. ns_step; [apply nostuck_r_u|]. ns_step; [ns_step|].
  ns_step; [ns_step; [apply nostuck_r_u|]; repeat ns_step|].
  ns_step; (ns_step; [apply nostuck_r_u|]; repeat ns_step).
Qed.
Lemma nostuck_r_script_pos : nostuck r_script_pos.
Proof. unfold r_script_pos. ns_step; [apply nostuck_r_compact|]. repeat ns_step. Qed.
Lemma nostuck_r_outpoint : nostuck r_outpoint.
Proof. unfold r_outpoint. ns_step; [ns_step|]. ns_step; [apply nostuck_r_u|]. ns_step. Qed.
Lemma nostuck_r_txin_ev i : nostuck (r_txin_ev i).
Proof.
  unfold r_txin_ev. ns_step; [ns_step|]. ns_step; [apply nostuck_r_outpoint|]. ns_step.
  ns_step; [apply nostuck_r_script_pos|]. ns_step. ns_step; [apply nostuck_r_u|]. repeat ns_step.
Qed.
Lemma nostuck_r_txout_ev i : nostuck (r_txout_ev i).
Proof.
  unfold r_txout_ev. ns_step; [ns_step|]. ns_step; [apply nostuck_r_u|].
  ns_step; [apply nostuck_r_script_pos|]. repeat ns_step.
Qed.
Lemma nostuck_body_txin i : nostuck (body_txin i).
Proof. unfold body_txin. ns_step; [apply nostuck_r_txin_ev|]. repeat ns_step. Qed.
Lemma nostuck_body_txout i : nostuck (body_txout i).
Proof. unfold body_txout. ns_step; [apply nostuck_r_txout_ev|]. repeat ns_step. Qed.
Lemma nostuck_body_welem i : nostuck (body_welem i).
Proof. unfold body_welem. ns_step; [apply nostuck_r_script_pos|]. repeat ns_step. Qed.

Lemma nostuck_counted {A} (body : N -> P A) mk :
  (forall i, nostuck (body i)) -> shrinks body -> nostuck (r_counted body mk).
Proof.
  intros Hb Hsh. unfold r_counted. ns_step; [apply nostuck_r_compact|]. ns_step; [ns_step|].
  apply nostuck_loop; assumption.
Qed.

Theorem nostuck_r_txins : nostuck r_txins.
Proof.
  rewrite r_txins_counted. apply nostuck_counted; [apply nostuck_body_txin|].
  apply (shrinks_of_sound _ _ _ _ body_txin_sound). intros x _. apply enc_txin_pos.
Qed.
Theorem nostuck_r_txouts : nostuck r_txouts.
Proof.
  rewrite r_txouts_counted. apply nostuck_counted; [apply nostuck_body_txout|].
  apply (shrinks_of_sound _ _ _ _ body_txout_sound). intros x _. apply enc_txout_pos.
Qed.
Theorem nostuck_r_witness : nostuck r_witness.
Proof.
  rewrite r_witness_counted. apply nostuck_counted; [apply nostuck_body_welem|].
  apply (shrinks_of_sound _ _ _ _ body_welem_sound). intros x _. apply enc_script_pos.
Qed.
Lemma nostuck_body_wit i : nostuck (body_wit i).
Proof. unfold body_wit. ns_step; [ns_step|]. ns_step; [apply nostuck_r_witness|]. repeat ns_step. Qed.
Theorem nostuck_r_witnesses n : nostuck (r_witnesses n).
Proof.
  rewrite r_witnesses_loop. apply nostuck_loop; [apply nostuck_body_wit|].
  apply (shrinks_of_sound _ _ _ _ body_wit_sound). intros x _. apply enc_witness_pos.
Qed.
Theorem nostuck_r_header : nostuck r_header.
Proof.
  unfold r_header. ns_step; [ns_step|]. ns_step; [apply nostuck_r_u|].
  ns_step; [ns_step|]. ns_step; [ns_step|].
  ns_step; [apply nostuck_r_u|]. ns_step; [apply nostuck_r_u|]. ns_step; [apply nostuck_r_u|].
  repeat ns_step.
Qed.
Theorem nostuck_r_tx : nostuck r_tx.
Proof.
  unfold r_tx. ns_step; [ns_step|]. ns_step; [apply nostuck_r_u|]. ns_step; [apply nostuck_r_txins|].
  match goal with |- nostuck (match ?x with [] => _ | _ :: _ => _ end) => destruct x as [|i0 ins'] end.
  - ns_step; [apply nostuck_r_u|]. ns_step; [|ns_step].
    ns_step; [ns_step|]. ns_step; [apply nostuck_r_txins|]. ns_step; [apply nostuck_r_txouts|].
    ns_step; [ns_step|]. ns_step; [apply nostuck_r_witnesses|]. ns_step; [ns_step|].
    ns_step; [apply nostuck_r_u|]. repeat ns_step.
  - ns_step; [apply nostuck_r_txouts|]. ns_step; [apply nostuck_r_u|]. repeat ns_step.
Qed.
Theorem nostuck_r_block : nostuck r_block.
Proof.
  unfold r_block. ns_step; [apply nostuck_r_header|]. ns_step; [apply nostuck_r_compact|].
  ns_step; [ns_step|]. ns_step; [|ns_step].
  apply (nostuck_loop body_tx); [intros i; apply nostuck_r_tx|].
  apply (shrinks_of_sound _ _ _ _ body_tx_sound enc_tx_progress).
Qed.

(* ------------------------------------------------------------------ *)
(** * Summary: every decoder decodes exactly its wire format *)

Definition decodes {A} (r : P A) (wf : A -> Prop) (enc : A -> list byte) (trav : N -> A -> list event) : Prop :=
  (forall p a rest h, wf a ->
     r never {| pos := p; inp := enc a ++ rest; hi := h |}
     = Done a {| pos := p + lenN (enc a); inp := rest; hi := rev (trav p a) ++ h |}) /\
  (forall s a s', r never s = Done a s' ->
     wf a /\ inp s = enc a ++ inp s' /\ pos s' = pos s + lenN (enc a) /\ hi s' = rev (trav (pos s) a) ++ hi s).

Theorem decodes_iff {A} (r : P A) wf enc trav :
  decodes r wf enc trav ->
  forall s a s',
    r never s = Done a s' <->
    (wf a /\ inp s = enc a ++ inp s' /\ pos s' = pos s + lenN (enc a) /\ hi s' = rev (trav (pos s) a) ++ hi s).
Proof.
  intros [Hc Hs] s a s'. split; [apply Hs|].
  intros (Hwf & Hi & Hp & Hh). destruct s as [p i h], s' as [p' i' h']. cbn [pos inp hi] in *.
  subst i p' h'. apply Hc. exact Hwf.
Qed.

Theorem decodes_prefix_free {A} (r : P A) wf enc trav :
  decodes r wf enc trav ->
  forall a b x y, wf a -> wf b -> enc a ++ x = enc b ++ y -> a = b /\ x = y.
Proof.
  intros [Hc _].
  apply (prefix_free_of_complete r wf enc
           (fun p a rest h => {| pos := p + lenN (enc a); inp := rest; hi := rev (trav p a) ++ h |})).
  - intros a rest Hwf. apply Hc. exact Hwf.
  - reflexivity.
Qed.

Definition no_events {A} (_ : N) (_ : A) : list event := [].

Theorem decodes_script : decodes r_script wf_script enc_script no_events.
Proof. split; [intros p a rest h; apply r_script_complete | intros s a s'; apply r_script_sound]. Qed.
Theorem decodes_outpoint : decodes r_outpoint wf_outpoint enc_outpoint no_events.
Proof. split; [intros p a rest h; apply r_outpoint_complete | intros s a s'; apply r_outpoint_sound]. Qed.
Theorem decodes_txin : decodes r_txin wf_txin enc_txin no_events.
Proof. split; [intros p a rest h; apply r_txin_complete | intros s a s'; apply r_txin_sound]. Qed.
Theorem decodes_txout : decodes r_txout wf_txout enc_txout no_events.
Proof. split; [intros p a rest h; apply r_txout_complete | intros s a s'; apply r_txout_sound]. Qed.
Theorem decodes_txins : decodes r_txins wf_txins enc_txins trav_txins.
Proof. split; [intros p a rest h; apply r_txins_complete | intros s a s'; apply r_txins_sound]. Qed.
Theorem decodes_txouts : decodes r_txouts wf_txouts enc_txouts trav_txouts.
Proof. split; [intros p a rest h; apply r_txouts_complete | intros s a s'; apply r_txouts_sound]. Qed.
Theorem decodes_witness : decodes r_witness wf_witness enc_witness trav_witness.
Proof. split; [intros p a rest h; apply r_witness_complete | intros s a s'; apply r_witness_sound]. Qed.
Theorem decodes_tx : decodes r_tx wf_tx enc_tx trav_tx.
Proof. split; [intros p a rest h; apply r_tx_complete | intros s a s'; apply r_tx_sound]. Qed.
Theorem decodes_header : decodes r_header wf_header enc_header trav_header.
Proof. split; [intros p a rest h; apply r_header_complete | intros s a s'; apply r_header_sound]. Qed.
Theorem decodes_block : decodes r_block wf_block enc_block trav_block.
Proof. split; [intros p a rest h; apply r_block_complete | intros s a s'; apply r_block_sound]. Qed.
