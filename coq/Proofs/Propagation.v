(* Proofs/Propagation.v — error propagation through lists at every nesting depth.

   Declarative characterisation of WHEN a list-like reference decoder fails with error [e]
   under the never-breaking oracle [never]: "the first defect in byte order, at every
   nesting depth".  The failing run has decoded some well-formed complete items, and the
   next item fails — with that item's error and history. *)
From BS Require Import Ref.Grammar Proofs.SpecLemmas Proofs.RefSpec.
From Coq Require Import Lia ZifyN ZifyNat ZifyBool.
Open Scope N_scope.

Local Notation st0 p b h := {| pos := p; inp := b; hi := h |}.

(* ------------------------------------------------------------------ *)
(** * Plumbing: failure of a bind, exactly *)

Lemma bind_Fail_iff {A B} (p : P A) (f : A -> P B) brk s e h :
  bind p f brk s = Fail e h <->
  p brk s = Fail e h \/ exists a s1, p brk s = Done a s1 /\ f a brk s1 = Fail e h.
Proof.
  split; [apply bind_Fail|].
  intros [H|(a & s1 & H1 & H2)].
  - apply bind_eq_Fail. exact H.
  - rewrite (bind_eq_Done _ _ _ _ _ _ H1). exact H2.
Qed.

Lemma st0_eta s : st0 (pos s) (inp s) (hi s) = s.
Proof. destruct s; reflexivity. Qed.

(* a body of the shape "decode, then announce, then return" fails exactly when the decoder fails *)
Lemma bind_emit_ret_Fail {X} (p : P (X * event)) s e h :
  bind p (fun xe => match xe with (x, ev) => bind (emitp ev) (fun _ => @ret X x) end) never s = Fail e h <->
  p never s = Fail e h.
Proof.
  rewrite bind_Fail_iff. split.
  - intros [H|(xe & s1 & _ & H)]; [exact H|].
    destruct xe as [x ev]. rewrite bind_emitp_never in H. discriminate.
  - intros H. left. exact H.
Qed.

(* ------------------------------------------------------------------ *)
(** * 1. The generic lemma for counted loops *)

Section LoopFail.
  Context {A : Type}.
  Variable body : N -> P A.
  Variable wfI : A -> Prop.
  Variable enc : A -> list byte.
  Variable ev : N -> N -> A -> list event.

  Lemma loop_fuel_fail_inv :
    body_sound body wfI enc ev ->
    forall fuel i n s e h',
      loop_fuel fuel body i n never s = Fail e h' ->
      exists (done : list A) rest,
        i + lenN done < n /\ Forall wfI done /\ inp s = flat_map enc done ++ rest /\
        body (i + lenN done) never
             (st0 (pos s + lenN (flat_map enc done)) rest (rev (trav_items ev enc i (pos s) done) ++ hi s))
        = Fail e h'.
  Proof.
    intros Hs fuel. induction fuel as [|fuel IH]; intros i n s e h' H.
    - cbn [loop_fuel] in H. destruct (i <? n); discriminate.
    - destruct (N.ltb_spec i n) as [Hin|Hin].
      + rewrite loop_fuel_step in H by (apply N.ltb_lt; exact Hin).
        apply bind_Fail in H. destruct H as [H|(x & s1 & H1 & H)].
        * exists [], (inp s). change (lenN (@nil A)) with 0.
          cbn [flat_map trav_items rev app]. change (lenN (@nil byte)) with 0.
          rewrite !N.add_0_r, st0_eta. repeat split; auto.
        * apply bind_Fail in H. destruct H as [H|(r & s2 & _ & H)]; [|discriminate].
          apply IH in H. destruct H as (done & rest & Hlt & HF & Hi & Hb).
          apply Hs in H1. destruct H1 as (Hx & Hi1 & Hp1 & Hh1).
          exists (x :: done), rest.
          rewrite lenN_cons, flat_map_cons, lenN_app. cbn [trav_items].
          split; [lia|]. split; [constructor; assumption|]. split.
          -- rewrite Hi1, Hi, <- app_assoc. reflexivity.
          -- rewrite rev_app_hist, <- Hh1, <- Hp1.
             replace (i + (1 + lenN done)) with (i + 1 + lenN done) by lia.
             replace (pos s + (lenN (enc x) + lenN (flat_map enc done)))
               with (pos s1 + lenN (flat_map enc done)) by lia.
             exact Hb.
      + rewrite loop_fuel_done in H by (apply N.ltb_ge; exact Hin). discriminate.
  Qed.

  Lemma loop_fuel_fail_intro :
    body_complete body wfI enc ev ->
    forall n e h' (done : list A) fuel i q rest h,
      Forall wfI done -> (length done < fuel)%nat -> i + lenN done < n ->
      body (i + lenN done) never
           (st0 (q + lenN (flat_map enc done)) rest (rev (trav_items ev enc i q done) ++ h)) = Fail e h' ->
      loop_fuel fuel body i n never (st0 q (flat_map enc done ++ rest) h) = Fail e h'.
  Proof.
    intros Hc n e h' done. induction done as [|x done IH]; intros fuel i q rest h HF Hfuel Hlt Hb.
    - destruct fuel as [|fuel]; [cbn [length] in Hfuel; lia|].
      change (lenN (@nil A)) with 0 in *. cbn [flat_map trav_items rev app] in *.
      change (lenN (@nil byte)) with 0 in Hb. rewrite !N.add_0_r in *.
      rewrite loop_fuel_step by (apply N.ltb_lt; exact Hlt).
      apply bind_eq_Fail. exact Hb.
    - destruct fuel as [|fuel]; [cbn [length] in Hfuel; lia|].
      rewrite lenN_cons in *.
      rewrite loop_fuel_step by (apply N.ltb_lt; lia).
      inversion HF as [|x' l' Hx Hl]; subst x' l'.
      rewrite flat_map_cons, <- app_assoc.
      stepc (Hc i q x (flat_map enc done ++ rest) h Hx).
      apply bind_eq_Fail. apply IH.
      + exact Hl.
      + cbn [length] in Hfuel. lia.
      + lia.
      + cbn [trav_items] in Hb. rewrite flat_map_cons, lenN_app, rev_app_hist in Hb.
        replace (i + 1 + lenN done) with (i + (1 + lenN done)) by lia.
        replace (q + lenN (enc x) + lenN (flat_map enc done))
          with (q + (lenN (enc x) + lenN (flat_map enc done))) by lia.
        exact Hb.
  Qed.

  Hypothesis Hc : body_complete body wfI enc ev.
  Hypothesis Hs : body_sound body wfI enc ev.
  Hypothesis Hp : enc_progress wfI enc.

  (* the loop fails exactly when, after some well-formed complete items, the next item fails,
     with that item's error and history *)
  Theorem loop_fail_iff n p b h e h' :
    loop body n never (st0 p b h) = Fail e h' <->
    exists (done : list A) rest,
      lenN done < n /\ Forall wfI done /\ b = flat_map enc done ++ rest /\
      body (lenN done) never
           (st0 (p + lenN (flat_map enc done)) rest (rev (trav_items ev enc 0 p done) ++ h)) = Fail e h'.
  Proof.
    split.
    - intros H. unfold loop in H. apply (loop_fuel_fail_inv Hs) in H. cbn [pos inp hi] in H.
      destruct H as (done & rest & Hlt & HF & Hi & Hb). rewrite N.add_0_l in Hlt, Hb.
      exists done, rest. auto.
    - intros (done & rest & Hlt & HF & -> & Hb). unfold loop. cbn [inp].
      apply (loop_fuel_fail_intro Hc).
      + exact HF.
      + pose proof (Forall_progress wfI enc done Hp HF) as Hle.
        rewrite app_length. unfold lenN in Hle. lia.
      + rewrite N.add_0_l. exact Hlt.
      + rewrite N.add_0_l. exact Hb.
  Qed.

  (* "the FIRST defect": the failure point is unique — two decompositions of the same input into
     well-formed complete items followed by a failing item coincide *)
  Lemma fail_point_unique (done1 : list A) : forall (done2 : list A) rest1 rest2 i q h e1 h1 e2 h2,
    Forall wfI done1 -> Forall wfI done2 ->
    flat_map enc done1 ++ rest1 = flat_map enc done2 ++ rest2 ->
    body (i + lenN done1) never
         (st0 (q + lenN (flat_map enc done1)) rest1 (rev (trav_items ev enc i q done1) ++ h)) = Fail e1 h1 ->
    body (i + lenN done2) never
         (st0 (q + lenN (flat_map enc done2)) rest2 (rev (trav_items ev enc i q done2) ++ h)) = Fail e2 h2 ->
    done1 = done2 /\ rest1 = rest2.
  Proof.
    induction done1 as [|x1 d1 IH]; intros done2 rest1 rest2 i q h e1 h1 e2 h2 HF1 HF2 E H1 H2.
    - destruct done2 as [|x2 d2].
      + cbn [flat_map app] in E. auto.
      + exfalso. inversion HF2 as [|x' l' Hx2 _]; subst x' l'.
        change (lenN (@nil A)) with 0 in H1. cbn [flat_map trav_items rev app] in H1, E.
        change (lenN (@nil byte)) with 0 in H1. rewrite !N.add_0_r in H1.
        rewrite E, <- app_assoc in H1. rewrite (Hc i q x2 _ h Hx2) in H1. discriminate.
    - inversion HF1 as [|x' l' Hx1 HF1']; subst x' l'.
      destruct done2 as [|x2 d2].
      + exfalso.
        change (lenN (@nil A)) with 0 in H2. cbn [flat_map trav_items rev app] in H2, E.
        change (lenN (@nil byte)) with 0 in H2. rewrite !N.add_0_r in H2.
        rewrite <- E, <- app_assoc in H2. rewrite (Hc i q x1 _ h Hx1) in H2. discriminate.
      + inversion HF2 as [|x' l' Hx2 HF2']; subst x' l'.
        rewrite !flat_map_cons, <- !app_assoc in E.
        pose proof (Hc i q x1 (flat_map enc d1 ++ rest1) h Hx1) as C1.
        pose proof (Hc i q x2 (flat_map enc d2 ++ rest2) h Hx2) as C2.
        rewrite E, C2 in C1. injection C1 as Ex _ Er _. subst x2.
        cbn [trav_items] in H1, H2. rewrite flat_map_cons, lenN_app, lenN_cons, rev_app_hist in H1, H2.
        replace (i + (1 + lenN d1)) with (i + 1 + lenN d1) in H1 by lia.
        replace (i + (1 + lenN d2)) with (i + 1 + lenN d2) in H2 by lia.
        replace (q + (lenN (enc x1) + lenN (flat_map enc d1)))
          with (q + lenN (enc x1) + lenN (flat_map enc d1)) in H1 by lia.
        replace (q + (lenN (enc x1) + lenN (flat_map enc d2)))
          with (q + lenN (enc x1) + lenN (flat_map enc d2)) in H2 by lia.
        destruct (IH d2 rest1 rest2 (i + 1) (q + lenN (enc x1)) (rev (ev i q x1) ++ h) e1 h1 e2 h2
                     HF1' HF2' (eq_sym Er) H1 H2) as [-> ->].
        auto.
  Qed.

  Corollary loop_fail_unique n p b h e h' (d1 d2 : list A) r1 r2 :
    loop body n never (st0 p b h) = Fail e h' ->
    Forall wfI d1 -> b = flat_map enc d1 ++ r1 ->
    body (lenN d1) never (st0 (p + lenN (flat_map enc d1)) r1 (rev (trav_items ev enc 0 p d1) ++ h)) = Fail e h' ->
    Forall wfI d2 -> b = flat_map enc d2 ++ r2 ->
    body (lenN d2) never (st0 (p + lenN (flat_map enc d2)) r2 (rev (trav_items ev enc 0 p d2) ++ h)) = Fail e h' ->
    d1 = d2 /\ r1 = r2.
  Proof.
    intros _ HF1 E1 H1 HF2 E2 H2. subst b.
    apply (fail_point_unique d1 d2 r1 r2 0 p h e h' e h' HF1 HF2 E2); rewrite N.add_0_l; assumption.
  Qed.

  (* count, announce the count, then the items *)
  Theorem counted_fail_iff mk p b h e h' :
    r_counted body mk never (st0 p b h) = Fail e h' <->
    r_compact never (st0 p b h) = Fail e h' \/
    exists n (done : list A) rest,
      n < TWO64 /\ lenN done < n /\ Forall wfI done /\ b = cs_enc n ++ flat_map enc done ++ rest /\
      body (lenN done) never
           (st0 (p + cs_width n + lenN (flat_map enc done)) rest
                (rev (mk n :: trav_items ev enc 0 (p + cs_width n) done) ++ h)) = Fail e h'.
  Proof.
    unfold r_counted. rewrite bind_Fail_iff. split.
    - intros [H|(n & s1 & H1 & H)]; [left; exact H|right].
      rewrite bind_emitp_never in H.
      apply r_compact_sound in H1. cbn [pos inp hi] in H1. destruct H1 as (Hn & Hi1 & Hp1 & Hh1).
      apply loop_fail_iff in H. destruct H as (done & rest & Hlt & HF & Hi & Hb).
      exists n, done, rest. rewrite Hi1, Hi. repeat split; auto.
      cbn [rev]. rewrite <- app_assoc. cbn [app]. rewrite <- Hp1, <- Hh1. exact Hb.
    - intros [H|(n & done & rest & Hn & Hlt & HF & -> & Hb)]; [left; exact H|right].
      eexists _, _. split; [apply r_compact_complete; exact Hn|].
      rewrite bind_emitp_never. cbn [pos inp hi]. apply loop_fail_iff.
      exists done, rest. repeat split; auto.
      cbn [rev] in Hb. rewrite <- app_assoc in Hb. exact Hb.
  Qed.
End LoopFail.

(* ------------------------------------------------------------------ *)
(** * 2a. Leaf level: script, output, input *)

(* a script fails exactly when its length prefix fails, or fewer bytes follow than announced *)
Theorem r_script_pos_fail_iff brk s e h :
  r_script_pos brk s = Fail e h <->
  r_compact brk s = Fail e h \/
  (exists n rest, n < TWO64 /\ inp s = cs_enc n ++ rest /\ lenN rest < n /\
                  e = MoreBytesNeeded /\ h = hi s).
Proof.
  unfold r_script_pos. rewrite bind_Fail_iff. split.
  - intros [H|(n & s1 & H1 & H)]; [left; exact H|right].
    rewrite bind_get_pos in H. apply bind_Fail in H. destruct H as [H|(x & s2 & _ & H)]; [|discriminate].
    apply take_Fail in H. destruct H as (-> & -> & Hlt).
    apply r_compact_sound in H1. destruct H1 as (Hn & Hi & _ & Hh).
    exists n, (inp s1). auto.
  - intros [H|(n & rest & Hn & Hi & Hlt & -> & ->)]; [left; exact H|right].
    destruct s as [p i h0]. cbn [pos inp hi] in *. subst i.
    eexists _, _. split; [apply r_compact_complete; exact Hn|].
    rewrite bind_get_pos. apply bind_eq_Fail. apply (take_short brk n (st0 (p + cs_width n) rest h0)). exact Hlt.
Qed.

Lemma r_script_pos_Fail_hist brk s e h : r_script_pos brk s = Fail e h -> h = hi s.
Proof.
  intros H. apply r_script_pos_fail_iff in H. destruct H as [H|(n & rest & _ & _ & _ & _ & H)]; [|exact H].
  apply r_compact_Fail in H. apply H.
Qed.

(* the three declarative shapes of a failing script, in byte order *)
Theorem r_script_pos_fail_cases brk s e h :
  r_script_pos brk s = Fail e h <->
  h = hi s /\
  ((e = MoreBytesNeeded /\ r_compact brk s = Fail MoreBytesNeeded (hi s)) \/
   (e = NonMinimalVarInt /\ r_compact brk s = Fail NonMinimalVarInt (hi s)) \/
   (e = MoreBytesNeeded /\ exists n rest, n < TWO64 /\ inp s = cs_enc n ++ rest /\ lenN rest < n)).
Proof.
  rewrite r_script_pos_fail_iff. split.
  - intros [H|(n & rest & Hn & Hi & Hlt & -> & ->)].
    + pose proof (r_compact_Fail _ _ _ _ H) as [-> [-> | ->]]; split; auto.
    + split; [reflexivity|]. right; right. split; [reflexivity|]. exists n, rest. auto.
  - intros [-> [(-> & H)|[(-> & H)|(-> & n & rest & Hn & Hi & Hlt)]]]; [left; exact H|left; exact H|right].
    exists n, rest. auto.
Qed.

(* an output: fewer than 8 value bytes, or 8 value bytes followed by a failing script *)
Theorem r_txout_ev_fail_iff i brk s e h :
  r_txout_ev i brk s = Fail e h <->
  (lenN (inp s) < 8 /\ e = MoreBytesNeeded /\ h = hi s) \/
  (exists v rest, lenN v = 8 /\ inp s = v ++ rest /\
                  r_script_pos brk (st0 (pos s + 8) rest (hi s)) = Fail e h).
Proof.
  unfold r_txout_ev. rewrite bind_get_pos. rewrite bind_Fail_iff. split.
  - intros [H|(v & s1 & H1 & H)].
    + left. apply r_u_Fail in H. tauto.
    + right. apply r_u_Done_app in H1. destruct H1 as (bs & Hl & Hi & Hp & Hh).
      apply bind_Fail in H. destruct H as [H|(x & s2 & _ & H)].
      * exists bs, (inp s1). rewrite <- Hp, <- Hh, st0_eta. auto.
      * destruct x as [d spk]. rewrite bind_get_pos in H. discriminate.
  - intros [(Hlt & -> & ->)|(v & rest & Hv & Hi & H)].
    + left. apply r_u_Fail. auto.
    + right. destruct s as [p b h0]. cbn [pos inp hi] in *. subst b.
      eexists _, _. split; [apply (r_u_app 8 brk p v rest h0 Hv)|].
      apply bind_eq_Fail. exact H.
Qed.

Lemma r_txout_ev_Fail_hist i brk s e h : r_txout_ev i brk s = Fail e h -> h = hi s.
Proof.
  intros H. apply r_txout_ev_fail_iff in H. destruct H as [(_ & _ & H)|(v & rest & _ & _ & H)]; [exact H|].
  apply r_script_pos_Fail_hist in H. exact H.
Qed.

(* the outpoint is 36 arbitrary bytes *)
Lemma r_outpoint_app brk p o rest h :
  lenN o = 36 -> exists tv, r_outpoint brk (st0 p (o ++ rest) h) = Done tv (st0 (p + 36) rest h).
Proof.
  intros Hl. unfold r_outpoint.
  assert (Ho : o = firstn 32 o ++ skipn 32 o) by (symmetry; apply firstn_skipn).
  assert (H1 : lenN (firstn 32 o) = 32) by (unfold lenN in *; rewrite firstn_length; lia).
  assert (H2 : lenN (skipn 32 o) = 4) by (unfold lenN in *; rewrite skipn_length; lia).
  rewrite Ho, <- app_assoc.
  stepc (take_app brk p (firstn 32 o) (skipn 32 o ++ rest) h 32 H1).
  stepc (r_u_app 4 brk (p + 32) (skipn 32 o) rest h H2).
  eexists. rewrite ret_eq. apply Done_eq; auto. lia.
Qed.

Lemma r_outpoint_Done_app brk s o s' :
  r_outpoint brk s = Done o s' ->
  exists bs, lenN bs = 36 /\ inp s = bs ++ inp s' /\ pos s' = pos s + 36 /\ hi s' = hi s.
Proof.
  intros H. apply r_outpoint_sound in H. destruct H as (Hwf & Hi & Hp & Hh).
  rewrite (lenN_enc_outpoint _ Hwf) in Hp.
  exists (enc_outpoint o). split; [apply lenN_enc_outpoint; exact Hwf|auto].
Qed.

Theorem r_outpoint_fail_iff brk s e h :
  r_outpoint brk s = Fail e h <-> lenN (inp s) < 36 /\ e = MoreBytesNeeded /\ h = hi s.
Proof.
  unfold r_outpoint. rewrite bind_Fail_iff. split.
  - intros [H|(t & s1 & H1 & H)].
    + apply take_Fail in H. destruct H as (-> & -> & Hlt). split; [lia|auto].
    + apply take_Done in H1. destruct H1 as (Hl & Hi & Hp & Hh).
      apply bind_Fail in H. destruct H as [H|(x & s2 & _ & H)]; [|discriminate].
      apply r_u_Fail in H. destruct H as (-> & -> & Hlt).
      rewrite Hi, lenN_app, Hl. split; [lia|auto].
  - intros (Hlt & -> & ->).
    destruct (splitN (inp s) 32) as [[t r]|] eqn:E.
    + right. pose proof (splitN_Some _ _ _ _ E) as [Hi Hl].
      exists t, (st0 (pos s + 32) r (hi s)). split.
      * unfold take. rewrite E. reflexivity.
      * apply bind_eq_Fail. apply r_u_Fail. cbn [inp hi]. rewrite Hi, lenN_app, Hl in Hlt.
        split; [reflexivity|]. split; [reflexivity|lia].
    + left. apply splitN_None in E. apply take_short. exact E.
Qed.

(* an input: a truncated outpoint, or a failing signature script after 36 outpoint bytes,
   or a truncated sequence number after a complete script *)
Theorem r_txin_ev_fail_iff i brk s e h :
  r_txin_ev i brk s = Fail e h <->
  (lenN (inp s) < 36 /\ e = MoreBytesNeeded /\ h = hi s) \/
  (exists o rest, lenN o = 36 /\ inp s = o ++ rest /\
                  r_script_pos brk (st0 (pos s + 36) rest (hi s)) = Fail e h) \/
  (exists o sg rest, lenN o = 36 /\ wf_script sg /\ inp s = o ++ enc_script sg ++ rest /\
                     lenN rest < 4 /\ e = MoreBytesNeeded /\ h = hi s).
Proof.
  unfold r_txin_ev. rewrite bind_get_pos. rewrite bind_Fail_iff. split.
  - intros [H|(tv & s1 & H1 & H)].
    + left. apply r_outpoint_fail_iff in H. exact H.
    + right. destruct tv as [t v].
      apply r_outpoint_Done_app in H1. destruct H1 as (bs & Hl & Hi & Hp & Hh).
      apply bind_Fail in H. destruct H as [H|(x & s2 & H2 & H)].
      * left. exists bs, (inp s1). rewrite <- Hp, <- Hh, st0_eta. auto.
      * right. destruct x as [d sg].
        apply r_script_pos_sound in H2. destruct H2 as (Hsg & Hi2 & _ & _ & Hh2).
        apply bind_Fail in H. destruct H as [H|(sq & s3 & _ & H)].
        -- apply r_u_Fail in H. destruct H as (-> & -> & Hlt).
           exists bs, sg, (inp s2). rewrite Hi, Hi2. repeat split; auto. congruence.
        -- rewrite bind_get_pos in H. discriminate.
  - intros [(Hlt & -> & ->)|[(o & rest & Ho & Hi & H)|(o & sg & rest & Ho & Hsg & Hi & Hlt & -> & ->)]].
    + left. apply r_outpoint_fail_iff. auto.
    + right. destruct s as [p b h0]. cbn [pos inp hi] in *. subst b.
      destruct (r_outpoint_app brk p o rest h0 Ho) as [[t v] Hop].
      eexists _, _. split; [exact Hop|]. apply bind_eq_Fail. exact H.
    + right. destruct s as [p b h0]. cbn [pos inp hi] in *. subst b.
      destruct (r_outpoint_app brk p o (enc_script sg ++ rest) h0 Ho) as [[t v] Hop].
      eexists _, _. split; [exact Hop|]. cbv beta iota.
      stepc (r_script_pos_complete brk (p + 36) sg rest h0 Hsg).
      apply bind_eq_Fail. apply r_u_Fail. cbn [inp hi]. auto.
Qed.

Lemma r_txin_ev_Fail_hist i brk s e h : r_txin_ev i brk s = Fail e h -> h = hi s.
Proof.
  intros H. apply r_txin_ev_fail_iff in H.
  destruct H as [(_ & _ & H)|[(o & rest & _ & _ & H)|(o & sg & rest & _ & _ & _ & _ & _ & H)]]; try exact H.
  apply r_script_pos_Fail_hist in H. exact H.
Qed.

(* ------------------------------------------------------------------ *)
(** * 2b. Output and input lists *)

(* the callbacks of an announced count [n] and the items decoded so far *)
Definition trav_txouts_part (p n : N) (done : list a_txout) : list event :=
  ETxOuts n :: trav_items (fun i q x => [ev_txout i q x]) enc_txout 0 (p + cs_width n) done.
Definition trav_txins_part (p n : N) (done : list a_txin) : list event :=
  ETxIns n :: trav_items (fun i q x => [ev_txin i q x]) enc_txin 0 (p + cs_width n) done.

Lemma trav_txouts_part_all p l : trav_txouts_part p (lenN l) l = trav_txouts p l.
Proof. reflexivity. Qed.
Lemma trav_txins_part_all p l : trav_txins_part p (lenN l) l = trav_txins p l.
Proof. reflexivity. Qed.

Lemma body_txout_Fail i s e h : body_txout i never s = Fail e h <-> r_txout_ev i never s = Fail e h.
Proof. unfold body_txout. apply bind_emit_ret_Fail. Qed.
Lemma body_txin_Fail i s e h : body_txin i never s = Fail e h <-> r_txin_ev i never s = Fail e h.
Proof. unfold body_txin. apply bind_emit_ret_Fail. Qed.

Lemma txout_progress : enc_progress wf_txout enc_txout.
Proof. intros x _. apply enc_txout_pos. Qed.
Lemma txin_progress : enc_progress wf_txin enc_txin.
Proof. intros x _. apply enc_txin_pos. Qed.

Theorem r_txouts_fail_iff p b h e h' :
  r_txouts never (st0 p b h) = Fail e h' <->
  (r_compact never (st0 p b h) = Fail e h /\ h' = h) \/
  (exists n done rest,
     n < TWO64 /\ lenN done < n /\ Forall wf_txout done /\
     b = cs_enc n ++ flat_map enc_txout done ++ rest /\
     r_txout_ev (lenN done) never
       (st0 (p + cs_width n + lenN (flat_map enc_txout done)) rest (rev (trav_txouts_part p n done) ++ h))
     = Fail e h' /\
     h' = rev (trav_txouts_part p n done) ++ h).
Proof.
  rewrite r_txouts_counted.
  rewrite (counted_fail_iff body_txout wf_txout enc_txout _ body_txout_complete body_txout_sound txout_progress).
  unfold trav_txouts_part. split.
  - intros [H|(n & done & rest & Hn & Hlt & HF & Hb & H)].
    + left. pose proof (r_compact_Fail _ _ _ _ H) as [-> _]. auto.
    + right. exists n, done, rest. apply body_txout_Fail in H.
      pose proof (r_txout_ev_Fail_hist _ _ _ _ _ H) as Hh. cbn [hi] in Hh. auto 10.
  - intros [(H & ->)|(n & done & rest & Hn & Hlt & HF & Hb & H & _)].
    + left. exact H.
    + right. exists n, done, rest. apply body_txout_Fail in H. auto 10.
Qed.

Theorem r_txins_fail_iff p b h e h' :
  r_txins never (st0 p b h) = Fail e h' <->
  (r_compact never (st0 p b h) = Fail e h /\ h' = h) \/
  (exists n done rest,
     n < TWO64 /\ lenN done < n /\ Forall wf_txin done /\
     b = cs_enc n ++ flat_map enc_txin done ++ rest /\
     r_txin_ev (lenN done) never
       (st0 (p + cs_width n + lenN (flat_map enc_txin done)) rest (rev (trav_txins_part p n done) ++ h))
     = Fail e h' /\
     h' = rev (trav_txins_part p n done) ++ h).
Proof.
  rewrite r_txins_counted.
  rewrite (counted_fail_iff body_txin wf_txin enc_txin _ body_txin_complete body_txin_sound txin_progress).
  unfold trav_txins_part. split.
  - intros [H|(n & done & rest & Hn & Hlt & HF & Hb & H)].
    + left. pose proof (r_compact_Fail _ _ _ _ H) as [-> _]. auto.
    + right. exists n, done, rest. apply body_txin_Fail in H.
      pose proof (r_txin_ev_Fail_hist _ _ _ _ _ H) as Hh. cbn [hi] in Hh. auto 10.
  - intros [(H & ->)|(n & done & rest & Hn & Hlt & HF & Hb & H & _)].
    + left. exact H.
    + right. exists n, done, rest. apply body_txin_Fail in H. auto 10.
Qed.

(* ------------------------------------------------------------------ *)
(** * 2c. Witness (items = script-like elements) and witnesses (items = witnesses, no count) *)

Definition trav_witness_part (p n : N) (done : list (list byte)) : list event :=
  EWitnessTotal n :: trav_items ev_welem enc_script 0 (p + cs_width n) done.

Lemma trav_witness_part_all p w : trav_witness_part p (lenN w) w = trav_witness p w.
Proof. reflexivity. Qed.

Lemma body_welem_Fail i s e h : body_welem i never s = Fail e h <-> r_script_pos never s = Fail e h.
Proof.
  unfold body_welem. rewrite bind_Fail_iff. split.
  - intros [H|(de & s1 & _ & H)]; [exact H|].
    destruct de as [d x]. rewrite bind_emitp_never in H. discriminate.
  - intros H. left. exact H.
Qed.

Lemma welem_progress : enc_progress wf_script enc_script.
Proof. intros x _. apply enc_script_pos. Qed.

Theorem r_witness_fail_iff p b h e h' :
  r_witness never (st0 p b h) = Fail e h' <->
  (r_compact never (st0 p b h) = Fail e h /\ h' = h) \/
  (exists n done rest,
     n < TWO64 /\ lenN done < n /\ Forall wf_script done /\
     b = cs_enc n ++ flat_map enc_script done ++ rest /\
     r_script_pos never
       (st0 (p + cs_width n + lenN (flat_map enc_script done)) rest (rev (trav_witness_part p n done) ++ h))
     = Fail e h' /\
     h' = rev (trav_witness_part p n done) ++ h).
Proof.
  rewrite r_witness_counted.
  rewrite (counted_fail_iff body_welem wf_script enc_script ev_welem
             body_welem_complete body_welem_sound welem_progress).
  unfold trav_witness_part. split.
  - intros [H|(n & done & rest & Hn & Hlt & HF & Hb & H)].
    + left. pose proof (r_compact_Fail _ _ _ _ H) as [-> _]. auto.
    + right. exists n, done, rest. apply body_welem_Fail in H.
      pose proof (r_script_pos_Fail_hist _ _ _ _ H) as Hh. cbn [hi] in Hh. auto 10.
  - intros [(H & ->)|(n & done & rest & Hn & Hlt & HF & Hb & H & _)].
    + left. exact H.
    + right. exists n, done, rest. apply (proj2 (body_welem_Fail (lenN done) _ _ _)) in H. auto 10.
Qed.

Lemma body_wit_Fail i s e h :
  body_wit i never s = Fail e h <->
  r_witness never (st0 (pos s) (inp s) (EWitness i :: hi s)) = Fail e h.
Proof.
  unfold body_wit. rewrite bind_emitp_never. rewrite bind_Fail_iff. split.
  - intros [H|(w & s1 & _ & H)]; [exact H|]. rewrite bind_emitp_never in H. discriminate.
  - intros H. left. exact H.
Qed.

Lemma wit_progress : enc_progress wf_witness enc_witness.
Proof. intros x _. apply enc_witness_pos. Qed.

(* [r_witnesses n]: no count prefix; the failing witness is number [lenN done], and it has already
   been announced by [EWitness (lenN done)] *)
Theorem r_witnesses_fail_iff n p b h e h' :
  r_witnesses n never (st0 p b h) = Fail e h' <->
  exists done rest,
    lenN done < n /\ Forall wf_witness done /\ b = enc_witnesses done ++ rest /\
    r_witness never
      (st0 (p + lenN (enc_witnesses done)) rest (EWitness (lenN done) :: rev (trav_witnesses p done) ++ h))
    = Fail e h'.
Proof.
  rewrite r_witnesses_loop.
  rewrite (loop_fail_iff body_wit wf_witness enc_witness ev_wit body_wit_complete body_wit_sound wit_progress).
  split.
  - intros (done & rest & Hlt & HF & Hb & H). exists done, rest.
    apply body_wit_Fail in H. cbn [pos inp hi] in H. auto.
  - intros (done & rest & Hlt & HF & Hb & H). exists done, rest.
    repeat split; auto. apply body_wit_Fail. cbn [pos inp hi]. exact H.
Qed.

(* ------------------------------------------------------------------ *)
(** * 2d. Header and block *)

Lemma r_header_fail_fwd s e h :
  r_header never s = Fail e h -> lenN (inp s) < 80 /\ e = MoreBytesNeeded /\ h = hi s.
Proof.
  { intros H. unfold r_header in H. rewrite bind_get_pos in H.
    apply bind_Fail in H. destruct H as [H|(ver & s1 & H1 & H)].
    { apply r_u_Fail in H. destruct H as (-> & -> & Hlt). split; [lia|auto]. }
    apply r_u_Done_app in H1. destruct H1 as (b1 & Hl1 & Hi1 & _ & Hh1).
    apply bind_Fail in H. destruct H as [H|(prev & s2 & H2 & H)].
    { apply take_Fail in H. destruct H as (-> & -> & Hlt). rewrite Hi1, lenN_app. split; [lia|auto]. }
    apply take_Done in H2. destruct H2 as (Hl2 & Hi2 & _ & Hh2).
    apply bind_Fail in H. destruct H as [H|(merkle & s3 & H3 & H)].
    { apply take_Fail in H. destruct H as (-> & -> & Hlt). rewrite Hi1, Hi2, !lenN_app.
      split; [lia|split; congruence]. }
    apply take_Done in H3. destruct H3 as (Hl3 & Hi3 & _ & Hh3).
    apply bind_Fail in H. destruct H as [H|(time & s4 & H4 & H)].
    { apply r_u_Fail in H. destruct H as (-> & -> & Hlt). rewrite Hi1, Hi2, Hi3, !lenN_app.
      split; [lia|split; congruence]. }
    apply r_u_Done_app in H4. destruct H4 as (b4 & Hl4 & Hi4 & _ & Hh4).
    apply bind_Fail in H. destruct H as [H|(bits & s5 & H5 & H)].
    { apply r_u_Fail in H. destruct H as (-> & -> & Hlt). rewrite Hi1, Hi2, Hi3, Hi4, !lenN_app.
      split; [lia|split; congruence]. }
    apply r_u_Done_app in H5. destruct H5 as (b5 & Hl5 & Hi5 & _ & Hh5).
    apply bind_Fail in H. destruct H as [H|(nonce & s6 & H6 & H)].
    { apply r_u_Fail in H. destruct H as (-> & -> & Hlt). rewrite Hi1, Hi2, Hi3, Hi4, Hi5, !lenN_app.
      split; [lia|split; congruence]. }
    rewrite bind_emitp_never in H. discriminate. }
Qed.

Theorem r_header_fail_iff s e h :
  r_header never s = Fail e h <-> lenN (inp s) < 80 /\ e = MoreBytesNeeded /\ h = hi s.
Proof.
  split; [apply r_header_fail_fwd|].
  intros (Hlt & -> & ->).
  destruct (r_header never s) as [a s'|e0 h0|] eqn:E.
  - exfalso. apply r_header_sound in E. destruct E as (Hwf & Hi & _ & _).
    rewrite Hi, lenN_app, (lenN_enc_header_wf a Hwf) in Hlt. lia.
  - apply r_header_fail_fwd in E. destruct E as (_ & -> & ->). reflexivity.
  - exfalso. exact (nostuck_r_header s E).
Qed.

(* header, announced count, and the transactions decoded so far *)
Definition trav_block_part (p : N) (hdr : a_header) (n : N) (done : list a_tx) : list event :=
  ev_header p hdr :: EBlockBegin n :: trav_items (fun _ q t => trav_tx q t) enc_tx 0 (p + 80 + cs_width n) done.

Lemma trav_block_part_all p b : trav_block_part p (ab_header b) (lenN (ab_txs b)) (ab_txs b) = trav_block p b.
Proof. reflexivity. Qed.

Theorem r_block_fail_iff p b h e h' :
  r_block never (st0 p b h) = Fail e h' <->
  (lenN b < 80 /\ e = MoreBytesNeeded /\ h' = h) \/
  (exists hdr rest,
     wf_header hdr /\ b = enc_header hdr ++ rest /\
     r_compact never (st0 (p + 80) rest (ev_header p hdr :: h)) = Fail e h' /\
     h' = ev_header p hdr :: h) \/
  (exists hdr n done rest,
     wf_header hdr /\ n < TWO64 /\ lenN done < n /\ Forall wf_tx done /\
     b = enc_header hdr ++ cs_enc n ++ flat_map enc_tx done ++ rest /\
     r_tx never (st0 (p + 80 + cs_width n + lenN (flat_map enc_tx done)) rest
                     (rev (trav_block_part p hdr n done) ++ h)) = Fail e h').
Proof.
  unfold r_block. rewrite bind_Fail_iff. rewrite r_header_fail_iff. cbn [inp hi].
  split.
  - intros [H|(hdr & s1 & H1 & H)]; [left; exact H|right].
    apply r_header_sound in H1. cbn [pos inp hi] in H1. destruct H1 as (Hhd & Hi1 & Hp1 & Hh1).
    rewrite (lenN_enc_header_wf hdr Hhd) in Hp1. unfold trav_header in Hh1. cbn [rev app] in Hh1.
    apply bind_Fail in H. destruct H as [H|(n & s2 & H2 & H)].
    + left. exists hdr, (inp s1). rewrite <- Hp1, <- Hh1, st0_eta.
      pose proof (r_compact_Fail _ _ _ _ H) as [Hh _]. auto.
    + right. rewrite bind_emitp_never in H.
      apply r_compact_sound in H2. destruct H2 as (Hn & Hi2 & Hp2 & Hh2).
      apply bind_Fail in H. destruct H as [H|(txs & s3 & _ & H)]; [|discriminate].
      apply (loop_fail_iff body_tx wf_tx enc_tx ev_txs body_tx_complete body_tx_sound enc_tx_progress) in H.
      destruct H as (done & rest & Hlt & HF & Hi3 & Hb).
      exists hdr, n, done, rest. rewrite Hi1, Hi2, Hi3.
      split; [exact Hhd|]. split; [exact Hn|]. split; [exact Hlt|]. split; [exact HF|]. split; [reflexivity|].
      unfold trav_block_part. rewrite rev_block_hist.
      unfold body_tx in Hb. rewrite Hp2, Hh2, Hp1, Hh1 in Hb. exact Hb.
  - intros [H|[(hdr & rest & Hhd & -> & H & _)|(hdr & n & done & rest & Hhd & Hn & Hlt & HF & -> & H)]];
      [left; exact H|right|right].
    + eexists _, _. split; [apply (r_header_complete p hdr rest h Hhd)|].
      rewrite (lenN_enc_header_wf hdr Hhd). unfold trav_header. cbn [rev app].
      apply bind_eq_Fail. exact H.
    + eexists _, _. split; [apply (r_header_complete p hdr _ h Hhd)|].
      rewrite (lenN_enc_header_wf hdr Hhd). unfold trav_header. cbn [rev app].
      stepc (r_compact_complete never (p + 80) n (flat_map enc_tx done ++ rest) (ev_header p hdr :: h) Hn).
      rewrite bind_emitp_never. cbn [pos inp hi].
      apply bind_eq_Fail.
      apply (loop_fail_iff body_tx wf_tx enc_tx ev_txs body_tx_complete body_tx_sound enc_tx_progress).
      exists done, rest. repeat split; auto.
      unfold trav_block_part in H. rewrite rev_block_hist in H. exact H.
Qed.

(* ------------------------------------------------------------------ *)
(** * 2e. Transaction: every way [r_tx] can fail, with the exact bytes consumed so far *)

(* histories inside a segwit transaction at offset p: after the inputs, the outputs, the witnesses *)
Definition sw_hist_ins (p : N) (ins : list a_txin) (h : hist) : hist :=
  rev (trav_txins (p + 6) ins) ++ ETxIns 0 :: h.
Definition sw_hist_outs (p : N) (ins : list a_txin) (outs : list a_txout) (h : hist) : hist :=
  rev (trav_txouts (p + 6 + lenN (enc_txins ins)) outs) ++ sw_hist_ins p ins h.
Definition sw_hist_wits (p : N) (ins : list a_txin) (outs : list a_txout) (ws : list a_witness) (h : hist) : hist :=
  rev (trav_witnesses (p + 6 + lenN (enc_txins ins) + lenN (enc_txouts outs)) ws) ++ sw_hist_outs p ins outs h.
(* histories inside a legacy transaction *)
Definition lg_hist_ins (p : N) (ins : list a_txin) (h : hist) : hist :=
  rev (trav_txins (p + 4) ins) ++ h.
Definition lg_hist_outs (p : N) (ins : list a_txin) (outs : list a_txout) (h : hist) : hist :=
  rev (trav_txouts (p + 4 + lenN (enc_txins ins)) outs) ++ lg_hist_ins p ins h.

Lemma nowit_hist_eq p ins outs h : nowit_hist p ins outs h = sw_hist_wits p ins outs (repeat [] (length ins)) h.
Proof. reflexivity. Qed.

Inductive tx_fail (p : N) (b : list byte) (h : hist) : error -> hist -> Prop :=
| TF_version :
    lenN b < 4 -> tx_fail p b h MoreBytesNeeded h
| TF_ins0 v rest e h' :
    lenN v = 4 -> b = v ++ rest ->
    r_txins never (st0 (p + 4) rest h) = Fail e h' ->
    tx_fail p b h e h'
| TF_noflag v :
    lenN v = 4 -> b = v ++ [x00] ->
    tx_fail p b h MoreBytesNeeded (ETxIns 0 :: h)
| TF_flag v fb rest :
    lenN v = 4 -> b = v ++ [x00] ++ [fb] ++ rest -> b2n fb <> 1 ->
    tx_fail p b h (UnknownSegwitFlag (b2n fb)) (ETxIns 0 :: h)
| TF_sw_ins v rest e h' :
    lenN v = 4 -> b = v ++ [x00; x01] ++ rest ->
    r_txins never (st0 (p + 6) rest (ETxIns 0 :: h)) = Fail e h' ->
    tx_fail p b h e h'
| TF_sw_outs v ins rest e h' :
    lenN v = 4 -> wf_txins ins -> b = v ++ [x00; x01] ++ enc_txins ins ++ rest ->
    r_txouts never (st0 (p + 6 + lenN (enc_txins ins)) rest (sw_hist_ins p ins h)) = Fail e h' ->
    tx_fail p b h e h'
| TF_sw_wits v ins outs rest e h' :
    lenN v = 4 -> wf_txins ins -> wf_txouts outs ->
    b = v ++ [x00; x01] ++ enc_txins ins ++ enc_txouts outs ++ rest ->
    r_witnesses (lenN ins) never
      (st0 (p + 6 + lenN (enc_txins ins) + lenN (enc_txouts outs)) rest (sw_hist_outs p ins outs h)) = Fail e h' ->
    tx_fail p b h e h'
| TF_nowit v ins outs ws rest :
    lenN v = 4 -> wf_txins ins -> wf_txouts outs -> wf_witnesses ws -> lenN ws = lenN ins ->
    ins <> [] -> all_empty ws = true ->
    b = v ++ [x00; x01] ++ enc_txins ins ++ enc_txouts outs ++ enc_witnesses ws ++ rest ->
    tx_fail p b h SegwitFlagWithoutWitnesses (sw_hist_wits p ins outs ws h)
| TF_sw_locktime v ins outs ws rest :
    lenN v = 4 -> wf_txins ins -> wf_txouts outs -> wf_witnesses ws -> lenN ws = lenN ins ->
    (ins <> [] -> all_empty ws = false) ->
    b = v ++ [x00; x01] ++ enc_txins ins ++ enc_txouts outs ++ enc_witnesses ws ++ rest -> lenN rest < 4 ->
    tx_fail p b h MoreBytesNeeded (sw_hist_wits p ins outs ws h)
| TF_lg_outs v ins rest e h' :
    lenN v = 4 -> wf_txins ins -> ins <> [] -> b = v ++ enc_txins ins ++ rest ->
    r_txouts never (st0 (p + 4 + lenN (enc_txins ins)) rest (lg_hist_ins p ins h)) = Fail e h' ->
    tx_fail p b h e h'
| TF_lg_locktime v ins outs rest :
    lenN v = 4 -> wf_txins ins -> ins <> [] -> wf_txouts outs ->
    b = v ++ enc_txins ins ++ enc_txouts outs ++ rest -> lenN rest < 4 ->
    tx_fail p b h MoreBytesNeeded (lg_hist_outs p ins outs h).

Lemma nonempty_flag {X} (l : list X) : l <> [] -> (match l with [] => false | _ :: _ => true end) = true.
Proof. destruct l; [congruence|reflexivity]. Qed.

Theorem r_tx_fail_fwd p b h e h' : r_tx never (st0 p b h) = Fail e h' -> tx_fail p b h e h'.
Proof.
  unfold r_tx. intros H. rewrite bind_get_pos in H. cbv beta in H. cbn [pos] in H.
  apply bind_Fail in H. destruct H as [H|(ver & s1 & H1 & H)].
  { apply r_u_Fail in H. cbn [inp hi] in H. destruct H as (-> & -> & Hlt). apply TF_version. exact Hlt. }
  apply r_u_Done_app in H1. cbn [pos inp hi] in H1. destruct H1 as (v & Hv & Hi1 & Hp1 & Hh1).
  apply bind_Fail in H. destruct H as [H|(ins0 & s2 & H2 & H)].
  { rewrite <- (st0_eta s1), Hp1, Hh1 in H. exact (TF_ins0 p b h v (inp s1) e h' Hv Hi1 H). }
  destruct ins0 as [|i0 ins'].
  - (* the marker *)
    apply r_txins_nil_inv in H2. destruct H2 as (Hi2 & Hp2 & Hh2).
    apply bind_Fail in H. destruct H as [H|(flag & s3 & H3 & H)].
    { apply r_u_Fail in H. destruct H as (-> & -> & Hlt).
      assert (E2 : inp s2 = []) by (apply lenN_0; lia).
      rewrite Hh2, Hh1. apply (TF_noflag p b h v Hv). rewrite Hi1, Hi2, E2. reflexivity. }
    apply r_u1_sound in H3. destruct H3 as (Hi3 & Hflag & Hp3 & Hh3).
    assert (Ep3 : pos s3 = p + 6) by lia.
    assert (Eh3 : hi s3 = ETxIns 0 :: h) by congruence.
    destruct (N.eqb_spec flag 1) as [->|Hf].
    + rewrite n2b_1 in Hi3.
      assert (Eb : b = v ++ [x00; x01] ++ inp s3) by (rewrite Hi1, Hi2, Hi3; reflexivity).
      rewrite bind_get_pos in H. cbv beta in H.
      apply bind_Fail in H. destruct H as [H|(ins & s4 & H4 & H)].
      { rewrite <- (st0_eta s3), Ep3, Eh3 in H. exact (TF_sw_ins p b h v (inp s3) e h' Hv Eb H). }
      apply r_txins_sound in H4. destruct H4 as (Hins & Hi4 & Hp4 & Hh4).
      rewrite Ep3 in Hp4, Hh4. rewrite Eh3 in Hh4. rewrite Hi4 in Eb.
      apply bind_Fail in H. destruct H as [H|(outs & s5 & H5 & H)].
      { rewrite <- (st0_eta s4), Hp4, Hh4 in H. exact (TF_sw_outs p b h v ins (inp s4) e h' Hv Hins Eb H). }
      apply r_txouts_sound in H5. destruct H5 as (Houts & Hi5 & Hp5 & Hh5).
      rewrite Hp4 in Hp5, Hh5. rewrite Hh4 in Hh5. rewrite Hi5 in Eb.
      rewrite bind_get_pos in H. cbv beta in H.
      apply bind_Fail in H. destruct H as [H|(ws & s6 & H6 & H)].
      { rewrite <- (st0_eta s5), Hp5, Hh5 in H.
        exact (TF_sw_wits p b h v ins outs (inp s5) e h' Hv Hins Houts Eb H). }
      apply r_witnesses_sound in H6. destruct H6 as (Hws & Hlws & Hi6 & Hp6 & Hh6).
      rewrite Hp5 in Hh6. rewrite Hh5 in Hh6. rewrite Hi6 in Eb.
      destruct ((match ins with [] => false | _ :: _ => true end) && all_empty ws) eqn:Hc.
      * rewrite fail_eq in H. injection H as <- <-.
        apply andb_true_iff in Hc. destruct Hc as [Hne Hae].
        rewrite Hh6. apply (TF_nowit p b h v ins outs ws (inp s6)); auto.
        destruct ins; [discriminate|discriminate].
      * apply bind_Fail in H. destruct H as [H|(lk & s7 & _ & H)].
        -- apply r_u_Fail in H. destruct H as (-> & -> & Hlt).
           rewrite Hh6. apply (TF_sw_locktime p b h v ins outs ws (inp s6)); auto.
           intros Hne. rewrite (nonempty_flag ins Hne) in Hc. exact Hc.
        -- rewrite bind_get_pos, bind_emitp_never in H. discriminate.
    + rewrite fail_eq in H. injection H as <- <-. rewrite Eh3.
      rewrite <- (b2n_n2b flag Hflag).
      apply (TF_flag p b h v (n2b flag) (inp s3) Hv).
      * rewrite Hi1, Hi2, Hi3. reflexivity.
      * rewrite b2n_n2b by exact Hflag. exact Hf.
  - (* legacy *)
    apply r_txins_sound in H2. destruct H2 as (Hins & Hi2 & Hp2 & Hh2).
    rewrite Hp1 in Hp2, Hh2. rewrite Hh1 in Hh2.
    assert (Eb : b = v ++ enc_txins (i0 :: ins') ++ inp s2) by (rewrite Hi1, Hi2; reflexivity).
    assert (Hne : i0 :: ins' <> []) by discriminate.
    apply bind_Fail in H. destruct H as [H|(outs & s3 & H3 & H)].
    { rewrite <- (st0_eta s2), Hp2, Hh2 in H. exact (TF_lg_outs p b h v _ (inp s2) e h' Hv Hins Hne Eb H). }
    apply r_txouts_sound in H3. destruct H3 as (Houts & Hi3 & Hp3 & Hh3).
    rewrite Hp2 in Hh3. rewrite Hh2 in Hh3. rewrite Hi3 in Eb.
    apply bind_Fail in H. destruct H as [H|(lk & s4 & _ & H)].
    + apply r_u_Fail in H. destruct H as (-> & -> & Hlt).
      rewrite Hh3. exact (TF_lg_locktime p b h v _ outs (inp s3) Hv Hins Hne Houts Eb Hlt).
    + rewrite bind_get_pos, bind_emitp_never in H. discriminate.
Qed.

Lemma r_u_short w brk s : lenN (inp s) < w -> r_u w brk s = Fail MoreBytesNeeded (hi s).
Proof. intros H. apply r_u_Fail. auto. Qed.

(* common prefix of every segwit case: version, marker, flag *)
Lemma r_tx_segwit_prefix p v rest h :
  lenN v = 4 ->
  r_tx never (st0 p (v ++ [x00; x01] ++ rest) h) =
  (bind r_txins (fun ins => bind r_txouts (fun outs => bind get_pos (fun pW =>
     bind (r_witnesses (lenN ins)) (fun ws =>
       if (match ins with [] => false | _ => true end) && all_empty ws
       then fail SegwitFlagWithoutWitnesses
       else bind (r_u 4) (fun lt => bind get_pos (fun p1 =>
              let io := pW - (p + 6) in
              bind (emitp (ETransaction (p, p1 - p) (i32_of_n (le_dec v)) lt (p, 4) (p + 6, io) (p1 - 4, 4)
                                        ((io + 8) * 3 + (p1 - p))))
                   (fun _ => ret {| at_version := i32_of_n (le_dec v); at_ins := ins; at_outs := outs;
                                    at_form := Segwit ws; at_locktime := lt |}))))))))
    never (st0 (p + 6) rest (ETxIns 0 :: h)).
Proof.
  intros Hv. unfold r_tx. stepp.
  stepc (r_u_app 4 never p v ([x00; x01] ++ rest) h Hv). cbn [app].
  stepc (r_txins_marker (p + 4) (x01 :: rest) h).
  stepc (r_u1_cons never (p + 4 + 1) x01 rest (ETxIns 0 :: h)).
  rewrite b2n_x01. change (1 =? 1) with true. cbv iota.
  replace (p + 4 + 1 + 1) with (p + 6) by lia.
  stepp. reflexivity.
Qed.

Theorem r_tx_fail_bwd p b h e h' : tx_fail p b h e h' -> r_tx never (st0 p b h) = Fail e h'.
Proof.
  intros T. destruct T as
    [Hlt
    |v rest e h' Hv -> H
    |v Hv ->
    |v fb rest Hv -> Hf
    |v rest e h' Hv -> H
    |v ins rest e h' Hv Hins -> H
    |v ins outs rest e h' Hv Hins Houts -> H
    |v ins outs ws rest Hv Hins Houts Hws Hl Hne Hae ->
    |v ins outs ws rest Hv Hins Houts Hws Hl Hc -> Hlt
    |v ins rest e h' Hv Hins Hne -> H
    |v ins outs rest Hv Hins Hne Houts -> Hlt].
  - unfold r_tx. stepp. apply bind_eq_Fail. apply (r_u_short 4 never (st0 p b h)). exact Hlt.
  - unfold r_tx. stepp. stepc (r_u_app 4 never p v rest h Hv). apply bind_eq_Fail. exact H.
  - unfold r_tx. stepp. stepc (r_u_app 4 never p v [x00] h Hv).
    stepc (r_txins_marker (p + 4) [] h).
    apply bind_eq_Fail. apply (r_u_short 1 never (st0 (p + 4 + 1) [] (ETxIns 0 :: h))). reflexivity.
  - unfold r_tx. stepp. stepc (r_u_app 4 never p v ([x00] ++ [fb] ++ rest) h Hv). cbn [app].
    stepc (r_txins_marker (p + 4) (fb :: rest) h).
    stepc (r_u1_cons never (p + 4 + 1) fb rest (ETxIns 0 :: h)).
    destruct (N.eqb_spec (b2n fb) 1) as [E|_]; [contradiction|]. reflexivity.
  - rewrite (r_tx_segwit_prefix p v rest h Hv). apply bind_eq_Fail. exact H.
  - rewrite (r_tx_segwit_prefix p v _ h Hv).
    stepc (r_txins_complete (p + 6) ins rest (ETxIns 0 :: h) Hins).
    apply bind_eq_Fail. exact H.
  - rewrite (r_tx_segwit_prefix p v _ h Hv).
    stepc (r_txins_complete (p + 6) ins (enc_txouts outs ++ rest) (ETxIns 0 :: h) Hins).
    stepc (r_txouts_complete (p + 6 + lenN (enc_txins ins)) outs rest _ Houts).
    stepp. apply bind_eq_Fail. exact H.
  - rewrite (r_tx_segwit_prefix p v _ h Hv).
    stepc (r_txins_complete (p + 6) ins (enc_txouts outs ++ enc_witnesses ws ++ rest) (ETxIns 0 :: h) Hins).
    stepc (r_txouts_complete (p + 6 + lenN (enc_txins ins)) outs (enc_witnesses ws ++ rest) _ Houts).
    stepp. rewrite <- Hl.
    stepc (r_witnesses_complete (p + 6 + lenN (enc_txins ins) + lenN (enc_txouts outs)) ws rest _ Hws).
    rewrite (nonempty_flag ins Hne), Hae. reflexivity.
  - rewrite (r_tx_segwit_prefix p v _ h Hv).
    stepc (r_txins_complete (p + 6) ins (enc_txouts outs ++ enc_witnesses ws ++ rest) (ETxIns 0 :: h) Hins).
    stepc (r_txouts_complete (p + 6 + lenN (enc_txins ins)) outs (enc_witnesses ws ++ rest) _ Houts).
    stepp. rewrite <- Hl.
    stepc (r_witnesses_complete (p + 6 + lenN (enc_txins ins) + lenN (enc_txouts outs)) ws rest _ Hws).
    assert (Hc' : (match ins with [] => false | _ :: _ => true end) && all_empty ws = false).
    { destruct ins as [|i0 ins']; [reflexivity|]. rewrite Hc by discriminate. reflexivity. }
    rewrite Hc'. apply bind_eq_Fail.
    match goal with |- r_u 4 never ?s = _ => apply (r_u_short 4 never s) end. exact Hlt.
  - unfold r_tx. stepp. stepc (r_u_app 4 never p v (enc_txins ins ++ rest) h Hv).
    stepc (r_txins_complete (p + 4) ins rest h Hins).
    destruct ins as [|i0 ins']; [congruence|]. cbv iota.
    apply bind_eq_Fail. exact H.
  - unfold r_tx. stepp. stepc (r_u_app 4 never p v (enc_txins ins ++ enc_txouts outs ++ rest) h Hv).
    stepc (r_txins_complete (p + 4) ins (enc_txouts outs ++ rest) h Hins).
    destruct ins as [|i0 ins']; [congruence|]. cbv iota.
    stepc (r_txouts_complete (p + 4 + lenN (enc_txins (i0 :: ins'))) outs rest _ Houts).
    apply bind_eq_Fail.
    match goal with |- r_u 4 never ?s = _ => apply (r_u_short 4 never s) end. exact Hlt.
Qed.

Theorem r_tx_fail_iff p b h e h' : r_tx never (st0 p b h) = Fail e h' <-> tx_fail p b h e h'.
Proof. split; [apply r_tx_fail_fwd | apply r_tx_fail_bwd]. Qed.

(* the statement on an arbitrary state *)
Theorem r_tx_fail_cases s e h : r_tx never s = Fail e h -> tx_fail (pos s) (inp s) (hi s) e h.
Proof. intros H. apply r_tx_fail_fwd. rewrite st0_eta. exact H. Qed.

(* ------------------------------------------------------------------ *)
(** * 3. Depth made concrete: a defect in a script length prefix, three levels down *)

(* one level: a failing script in output number [lenN opre] fails the output list *)
Lemma txouts_fail_at_output p h m opre val rest e h' :
  m < TWO64 -> lenN opre < m -> Forall wf_txout opre -> lenN val = 8 ->
  r_script_pos never
    (st0 (p + cs_width m + lenN (flat_map enc_txout opre) + 8) rest (rev (trav_txouts_part p m opre) ++ h))
  = Fail e h' ->
  r_txouts never (st0 p (cs_enc m ++ flat_map enc_txout opre ++ val ++ rest) h) = Fail e h'.
Proof.
  intros Hm Hlt HF Hval H. apply r_txouts_fail_iff. right.
  exists m, opre, (val ++ rest).
  split; [exact Hm|]. split; [exact Hlt|]. split; [exact HF|]. split; [reflexivity|]. split.
  - apply r_txout_ev_fail_iff. right. exists val, rest. cbn [pos inp hi]. auto.
  - apply r_script_pos_Fail_hist in H. exact H.
Qed.

(* two levels: a failing output list fails the (legacy) transaction *)
Lemma tx_fail_at_outs_legacy p h v ins rest e h' :
  lenN v = 4 -> wf_txins ins -> ins <> [] ->
  r_txouts never (st0 (p + 4 + lenN (enc_txins ins)) rest (lg_hist_ins p ins h)) = Fail e h' ->
  r_tx never (st0 p (v ++ enc_txins ins ++ rest) h) = Fail e h'.
Proof.
  intros Hv Hins Hne H. apply r_tx_fail_bwd. exact (TF_lg_outs p _ h v ins rest e h' Hv Hins Hne eq_refl H).
Qed.

(* ... or the segwit transaction *)
Lemma tx_fail_at_outs_segwit p h v ins rest e h' :
  lenN v = 4 -> wf_txins ins ->
  r_txouts never (st0 (p + 6 + lenN (enc_txins ins)) rest (sw_hist_ins p ins h)) = Fail e h' ->
  r_tx never (st0 p (v ++ [x00; x01] ++ enc_txins ins ++ rest) h) = Fail e h'.
Proof.
  intros Hv Hins H. apply r_tx_fail_bwd. exact (TF_sw_outs p _ h v ins rest e h' Hv Hins eq_refl H).
Qed.

(* three levels: a failing transaction number [lenN pre] fails the block *)
Lemma block_fail_at_tx p h hdr n pre rest e h' :
  wf_header hdr -> n < TWO64 -> lenN pre < n -> Forall wf_tx pre ->
  r_tx never (st0 (p + 80 + cs_width n + lenN (flat_map enc_tx pre)) rest
                  (rev (trav_block_part p hdr n pre) ++ h)) = Fail e h' ->
  r_block never (st0 p (enc_header hdr ++ cs_enc n ++ flat_map enc_tx pre ++ rest) h) = Fail e h'.
Proof.
  intros Hhdr Hn Hlt HF H. apply r_block_fail_iff. right; right.
  exists hdr, n, pre, rest. auto 10.
Qed.

(* everything delivered before output number [lenN opre] of legacy transaction number [lenN pre],
   for a block at offset p *)
Definition before_output_legacy (p : N) (hdr : a_header) (n : N) (pre : list a_tx)
           (ins : list a_txin) (m : N) (opre : list a_txout) : list event :=
  let q := p + 80 + cs_width n + lenN (flat_map enc_tx pre) in
  trav_block_part p hdr n pre ++ trav_txins (q + 4) ins ++
  trav_txouts_part (q + 4 + lenN (enc_txins ins)) m opre.

(* offset of that output, and of its script (the length prefix) *)
Definition output_off_legacy (p n : N) (pre : list a_tx) (ins : list a_txin) (m : N) (opre : list a_txout) : N :=
  p + 80 + cs_width n + lenN (flat_map enc_tx pre) + 4 + lenN (enc_txins ins) + cs_width m +
  lenN (flat_map enc_txout opre).
Definition script_off_legacy (p n : N) (pre : list a_tx) (ins : list a_txin) (m : N) (opre : list a_txout) : N :=
  output_off_legacy p n pre ins m opre + 8.

(* ANY failure of the script of an output of a legacy transaction inside a block is the failure of
   the block, with the same error, and the history is the traversal of everything before that output *)
Theorem nested_script_fail_legacy p h hdr n pre v ins m opre val rest e :
  wf_header hdr -> n < TWO64 -> lenN pre < n -> Forall wf_tx pre ->
  lenN v = 4 -> wf_txins ins -> ins <> [] ->
  m < TWO64 -> lenN opre < m -> Forall wf_txout opre -> lenN val = 8 ->
  let H := rev (before_output_legacy p hdr n pre ins m opre) ++ h in
  r_script_pos never (st0 (script_off_legacy p n pre ins m opre) rest H) = Fail e H ->
  r_block never
    (st0 p (enc_header hdr ++ cs_enc n ++ flat_map enc_tx pre ++
            v ++ enc_txins ins ++ cs_enc m ++ flat_map enc_txout opre ++ val ++ rest) h)
  = Fail e H.
Proof.
  intros Hhdr Hn Hpre HFpre Hv Hins Hne Hm Hopre HFopre Hval H Hs. subst H.
  unfold before_output_legacy, script_off_legacy, output_off_legacy in *.
  rewrite !rev_app_hist in *.
  apply block_fail_at_tx; auto.
  apply tx_fail_at_outs_legacy; auto.
  apply txouts_fail_at_output; auto.
Qed.

(* the three non-minimal shapes of a compact size *)
Inductive nonminimal_cs : list byte -> Prop :=
| NM_fd v : v < 253 -> nonminimal_cs (xfd :: le_enc 2 v)
| NM_fe v : v <= 65535 -> nonminimal_cs (xfe :: le_enc 4 v)
| NM_ff v : v <= 4294967295 -> nonminimal_cs (xff :: le_enc 8 v).

Lemma r_script_pos_nonminimal brk p pfx rest h :
  nonminimal_cs pfx -> r_script_pos brk (st0 p (pfx ++ rest) h) = Fail NonMinimalVarInt h.
Proof.
  intros Hnm. apply r_script_pos_fail_iff. left. apply r_compact_nonminimal. cbn [inp hi].
  split; [reflexivity|].
  destruct Hnm as [v Hv|v Hv|v Hv]; cbn [app].
  - left. exists v, rest. auto.
  - right; left. exists v, rest. auto.
  - right; right. exists v, rest. auto.
Qed.

(* the general form: whatever follows the non-minimal prefix is never read *)
Theorem nested_nonminimal_gen p h hdr n pre v ins m opre val pfx rest :
  wf_header hdr -> n < TWO64 -> lenN pre < n -> Forall wf_tx pre ->
  lenN v = 4 -> wf_txins ins -> ins <> [] ->
  m < TWO64 -> lenN opre < m -> Forall wf_txout opre -> lenN val = 8 ->
  nonminimal_cs pfx ->
  r_block never
    (st0 p (enc_header hdr ++ cs_enc n ++ flat_map enc_tx pre ++
            v ++ enc_txins ins ++ cs_enc m ++ flat_map enc_txout opre ++ val ++ pfx ++ rest) h)
  = Fail NonMinimalVarInt (rev (before_output_legacy p hdr n pre ins m opre) ++ h).
Proof.
  intros Hhdr Hn Hpre HFpre Hv Hins Hne Hm Hopre HFopre Hval Hnm.
  apply (nested_script_fail_legacy p h hdr n pre v ins m opre val (pfx ++ rest) NonMinimalVarInt); auto.
  cbv zeta. apply r_script_pos_nonminimal. exact Hnm.
Qed.

(* ---- the corollary on a well-formed block ---- *)

(* the serialisation of block {hdr; pre ++ t :: post}, t Legacy with outputs opre ++ o :: opost,
   where the length prefix of the script of [o] is [pfx] *)
Definition patched_block_legacy (pfx : list byte) (hdr : a_header) (pre : list a_tx) (t : a_tx)
           (opre : list a_txout) (o : a_txout) (opost : list a_txout) (post : list a_tx) : list byte :=
  enc_header hdr ++ cs_enc (lenN (pre ++ t :: post)) ++ flat_map enc_tx pre ++
  (enc_i32 (at_version t) ++ enc_txins (at_ins t) ++
   cs_enc (lenN (opre ++ o :: opost)) ++ flat_map enc_txout opre ++
   (le_enc 8 (ao_value o) ++ pfx ++ ao_spk o) ++ flat_map enc_txout opost ++
   le_enc 4 (at_locktime t)) ++
  flat_map enc_tx post.

(* with the minimal prefix this IS the block's serialisation *)
Lemma patched_block_minimal hdr pre t opre o opost post :
  at_form t = Legacy -> at_outs t = opre ++ o :: opost ->
  patched_block_legacy (cs_enc (lenN (ao_spk o))) hdr pre t opre o opost post
  = enc_block {| ab_header := hdr; ab_txs := pre ++ t :: post |}.
Proof.
  intros Hf Ho. unfold patched_block_legacy, enc_block, enc_list. cbn [ab_header ab_txs].
  rewrite (flat_map_app enc_tx pre (t :: post)). rewrite flat_map_cons.
  assert (Et : enc_tx t = enc_i32 (at_version t) ++
                 (enc_txins (at_ins t) ++ enc_txouts (opre ++ o :: opost)) ++ le_enc 4 (at_locktime t)).
  { unfold enc_tx. rewrite Hf, Ho. reflexivity. }
  assert (Eo : enc_txout o = le_enc 8 (ao_value o) ++ cs_enc (lenN (ao_spk o)) ++ ao_spk o) by reflexivity.
  rewrite Et. unfold enc_txouts, enc_list.
  rewrite (flat_map_app enc_txout opre (o :: opost)). rewrite flat_map_cons, Eo.
  rewrite <- !app_assoc. reflexivity.
Qed.

Lemma trav_items_app {A} (ev : N -> N -> A -> list event) (enc : A -> list byte) (a b : list A) : forall i p,
  trav_items ev enc i p (a ++ b)
  = trav_items ev enc i p a ++ trav_items ev enc (i + lenN a) (p + lenN (flat_map enc a)) b.
Proof.
  induction a as [|x a IH]; intros i p.
  - cbn [app trav_items flat_map]. change (lenN (@nil A)) with 0. change (lenN (@nil byte)) with 0.
    rewrite !N.add_0_r. reflexivity.
  - cbn [app trav_items]. rewrite IH, flat_map_cons, lenN_app, lenN_cons, <- app_assoc.
    replace (i + 1 + lenN a) with (i + (1 + lenN a)) by lia.
    replace (p + lenN (enc x) + lenN (flat_map enc a)) with (p + (lenN (enc x) + lenN (flat_map enc a))) by lia.
    reflexivity.
Qed.

Section NestedNonminimal.
  Variables (p : N) (h : hist) (hdr : a_header) (pre post : list a_tx) (t : a_tx)
            (opre opost : list a_txout) (o : a_txout).
  Let blk := {| ab_header := hdr; ab_txs := pre ++ t :: post |}.
  Let n := lenN (pre ++ t :: post).
  Let m := lenN (opre ++ o :: opost).
  Hypothesis Hwf : wf_block blk.
  Hypothesis Hform : at_form t = Legacy.
  Hypothesis Houts : at_outs t = opre ++ o :: opost.

  (* what a never-breaking visit has delivered before output [lenN opre] of transaction [lenN pre] *)
  Definition nn_before : list event := before_output_legacy p hdr n pre (at_ins t) m opre.

  (* For a well-formed block, replacing the script length prefix of output j of (legacy) transaction i
     by a non-minimal encoding makes [r_block never] fail with NonMinimalVarInt, and the history at
     failure is exactly the traversal of everything before that output.
     (j = length opre, i = length pre; [rest] is any trailing input.) *)
  Theorem nested_nonminimal pfx rest :
    nonminimal_cs pfx ->
    r_block never (st0 p (patched_block_legacy pfx hdr pre t opre o opost post ++ rest) h)
    = Fail NonMinimalVarInt (rev nn_before ++ h).
  Proof.
    intros Hnm. destruct Hwf as (Hhdr & Hn & HF). cbn [ab_header ab_txs] in *.
    apply Forall_app in HF. destruct HF as [HFpre HFt].
    inversion HFt as [|t' l' Ht _]; subst t' l'.
    destruct (wf_tx_parts t Ht) as (_ & Hins & Houts' & _).
    destruct Ht as (_ & _ & _ & _ & _ & _ & Hne). rewrite Hform in Hne.
    rewrite Houts in Houts'. destruct Houts' as [Hm HFo].
    apply Forall_app in HFo. destruct HFo as [HFopre _].
    unfold patched_block_legacy, nn_before. rewrite <- !app_assoc.
    apply nested_nonminimal_gen.
    - exact Hhdr.
    - exact Hn.
    - unfold n. rewrite lenN_app, lenN_cons. lia.
    - exact HFpre.
    - apply lenN_enc_i32.
    - exact Hins.
    - exact Hne.
    - exact Hm.
    - unfold m. rewrite lenN_app, lenN_cons. lia.
    - exact HFopre.
    - apply lenN_le_enc8.
    - exact Hnm.
  Qed.

  (* the instance named in the task: the 3-byte form [xfd :: le_enc 2 v] with v = the script length < 253 *)
  Corollary nested_nonminimal_fd rest :
    lenN (ao_spk o) < 253 ->
    r_block never
      (st0 p (patched_block_legacy (xfd :: le_enc 2 (lenN (ao_spk o))) hdr pre t opre o opost post ++ rest) h)
    = Fail NonMinimalVarInt (rev nn_before ++ h).
  Proof. intros Hv. apply nested_nonminimal. apply NM_fd. exact Hv. Qed.

  (* ... while the unpatched block decodes, and its traversal starts with [nn_before] followed by
     the callback of that very output *)
  Theorem nested_nonminimal_history :
    exists after,
      trav_block p blk
      = nn_before ++ ev_txout (lenN opre) (output_off_legacy p n pre (at_ins t) m opre) o :: after.
  Proof.
    unfold trav_block, nn_before, before_output_legacy, output_off_legacy, trav_block_part.
    unfold blk. cbn [ab_header ab_txs]. fold n.
    rewrite trav_items_app. cbn [trav_items]. rewrite N.add_0_l.
    assert (Et : forall q, trav_tx q t = trav_txins (q + 4) (at_ins t) ++
                   trav_txouts (q + 4 + lenN (enc_txins (at_ins t))) (opre ++ o :: opost) ++ [ev_tx q t]).
    { intros q. unfold trav_tx. rewrite Hform, Houts. reflexivity. }
    rewrite Et. unfold trav_txouts. fold m.
    rewrite trav_items_app. cbn [trav_items]. rewrite N.add_0_l.
    unfold trav_txouts_part.
    eexists. cbn [app]. rewrite <- !app_assoc. cbn [app]. rewrite <- !app_assoc. cbn [app].
    reflexivity.
  Qed.
End NestedNonminimal.

(* ------------------------------------------------------------------ *)
(** * 3b. The same, one level deeper and through the segwit path:
      block > transaction > witnesses > witness > element script *)

Lemma witness_fail_at_elem p h c epre rest e h' :
  c < TWO64 -> lenN epre < c -> Forall wf_script epre ->
  r_script_pos never
    (st0 (p + cs_width c + lenN (flat_map enc_script epre)) rest (rev (trav_witness_part p c epre) ++ h))
  = Fail e h' ->
  r_witness never (st0 p (cs_enc c ++ flat_map enc_script epre ++ rest) h) = Fail e h'.
Proof.
  intros Hc Hlt HF H. apply r_witness_fail_iff. right. exists c, epre, rest.
  split; [exact Hc|]. split; [exact Hlt|]. split; [exact HF|]. split; [reflexivity|]. split; [exact H|].
  apply r_script_pos_Fail_hist in H. exact H.
Qed.

Lemma witnesses_fail_at_witness k p h wpre rest e h' :
  lenN wpre < k -> Forall wf_witness wpre ->
  r_witness never
    (st0 (p + lenN (enc_witnesses wpre)) rest (EWitness (lenN wpre) :: rev (trav_witnesses p wpre) ++ h))
  = Fail e h' ->
  r_witnesses k never (st0 p (enc_witnesses wpre ++ rest) h) = Fail e h'.
Proof.
  intros Hlt HF H. apply r_witnesses_fail_iff. exists wpre, rest. auto.
Qed.

Lemma tx_fail_at_wits p h v ins outs rest e h' :
  lenN v = 4 -> wf_txins ins -> wf_txouts outs ->
  r_witnesses (lenN ins) never
    (st0 (p + 6 + lenN (enc_txins ins) + lenN (enc_txouts outs)) rest (sw_hist_outs p ins outs h)) = Fail e h' ->
  r_tx never (st0 p (v ++ [x00; x01] ++ enc_txins ins ++ enc_txouts outs ++ rest) h) = Fail e h'.
Proof.
  intros Hv Hins Houts H. apply r_tx_fail_bwd.
  exact (TF_sw_wits p _ h v ins outs rest e h' Hv Hins Houts eq_refl H).
Qed.

(* everything delivered before element number [lenN epre] of witness number [lenN wpre] of segwit
   transaction number [lenN pre] *)
Definition before_welem (p : N) (hdr : a_header) (n : N) (pre : list a_tx)
           (ins : list a_txin) (outs : list a_txout) (wpre : list a_witness) (c : N) (epre : list (list byte))
  : list event :=
  let q := p + 80 + cs_width n + lenN (flat_map enc_tx pre) in
  let qw := q + 6 + lenN (enc_txins ins) + lenN (enc_txouts outs) in
  trav_block_part p hdr n pre ++ [ETxIns 0] ++ trav_txins (q + 6) ins ++
  trav_txouts (q + 6 + lenN (enc_txins ins)) outs ++ trav_witnesses qw wpre ++
  [EWitness (lenN wpre)] ++ trav_witness_part (qw + lenN (enc_witnesses wpre)) c epre.

Definition welem_off (p n : N) (pre : list a_tx) (ins : list a_txin) (outs : list a_txout)
           (wpre : list a_witness) (c : N) (epre : list (list byte)) : N :=
  p + 80 + cs_width n + lenN (flat_map enc_tx pre) + 6 + lenN (enc_txins ins) + lenN (enc_txouts outs) +
  lenN (enc_witnesses wpre) + cs_width c + lenN (flat_map enc_script epre).

Theorem nested_welem_fail p h hdr n pre v ins outs wpre c epre rest e :
  wf_header hdr -> n < TWO64 -> lenN pre < n -> Forall wf_tx pre ->
  lenN v = 4 -> wf_txins ins -> wf_txouts outs ->
  lenN wpre < lenN ins -> Forall wf_witness wpre ->
  c < TWO64 -> lenN epre < c -> Forall wf_script epre ->
  let H := rev (before_welem p hdr n pre ins outs wpre c epre) ++ h in
  r_script_pos never (st0 (welem_off p n pre ins outs wpre c epre) rest H) = Fail e H ->
  r_block never
    (st0 p (enc_header hdr ++ cs_enc n ++ flat_map enc_tx pre ++
            v ++ [x00; x01] ++ enc_txins ins ++ enc_txouts outs ++ enc_witnesses wpre ++
            cs_enc c ++ flat_map enc_script epre ++ rest) h)
  = Fail e H.
Proof.
  intros Hhdr Hn Hpre HFpre Hv Hins Houts Hw HFw Hc He HFe H Hs. subst H.
  unfold before_welem, welem_off in *. cbv zeta in *.
  rewrite !rev_app_hist in *. cbn [rev app] in *.
  apply block_fail_at_tx; auto.
  apply tx_fail_at_wits; auto.
  apply witnesses_fail_at_witness; auto.
  apply witness_fail_at_elem; auto.
Qed.

Corollary nested_welem_nonminimal p h hdr n pre v ins outs wpre c epre pfx rest :
  wf_header hdr -> n < TWO64 -> lenN pre < n -> Forall wf_tx pre ->
  lenN v = 4 -> wf_txins ins -> wf_txouts outs ->
  lenN wpre < lenN ins -> Forall wf_witness wpre ->
  c < TWO64 -> lenN epre < c -> Forall wf_script epre ->
  nonminimal_cs pfx ->
  r_block never
    (st0 p (enc_header hdr ++ cs_enc n ++ flat_map enc_tx pre ++
            v ++ [x00; x01] ++ enc_txins ins ++ enc_txouts outs ++ enc_witnesses wpre ++
            cs_enc c ++ flat_map enc_script epre ++ pfx ++ rest) h)
  = Fail NonMinimalVarInt (rev (before_welem p hdr n pre ins outs wpre c epre) ++ h).
Proof.
  intros Hhdr Hn Hpre HFpre Hv Hins Houts Hw HFw Hc He HFe Hnm.
  apply (nested_welem_fail p h hdr n pre v ins outs wpre c epre (pfx ++ rest) NonMinimalVarInt); auto.
  cbv zeta. apply r_script_pos_nonminimal. exact Hnm.
Qed.

(* ------------------------------------------------------------------ *)
(** * A concrete run (sanity check of the statements by computation) *)

Module PropagationExample.
  Definition hdr0 := {| ah_version := 1; ah_prev := repeat x00 32; ah_merkle := repeat x00 32;
                        ah_time := 5; ah_bits := 6; ah_nonce := 7 |}.
  Definition in0 := {| ai_txid := repeat x11 32; ai_vout := 3; ai_sig := [x01; x02]; ai_seq := 9 |}.
  Definition o1 := {| ao_value := 1000; ao_spk := [x51] |}.
  Definition o2 := {| ao_value := 2000; ao_spk := [x51; x52] |}.
  Definition t0 := {| at_version := 1; at_ins := [in0]; at_outs := [o1]; at_form := Legacy; at_locktime := 0 |}.
  Definition t1 := {| at_version := 2; at_ins := [in0; in0]; at_outs := [o1; o2; o1]; at_form := Legacy;
                      at_locktime := 0 |}.

  (* block [t0; t1; t0]; the length prefix of output 1 of transaction 1 is made non-minimal *)
  Example run_patched :
    r_block never (st0 0 (patched_block_legacy (xfd :: le_enc 2 2) hdr0 [t0] t1 [o1] o2 [o1] [t0]) [])
    = Fail NonMinimalVarInt (rev (nn_before 0 hdr0 [t0] [t0] t1 [o1] [o1] o2)).
  Proof. vm_compute. reflexivity. Qed.

  (* with the minimal prefix the same bytes decode, and the traversal starts with [nn_before] *)
  Example run_minimal :
    exists s', r_block never (st0 0 (patched_block_legacy (cs_enc 2) hdr0 [t0] t1 [o1] o2 [o1] [t0]) [])
               = Done {| ab_header := hdr0; ab_txs := [t0; t1; t0] |} s' /\
               firstn (length (nn_before 0 hdr0 [t0] [t0] t1 [o1] [o1] o2)) (rev (hi s'))
               = nn_before 0 hdr0 [t0] [t0] t1 [o1] [o1] o2.
  Proof. eexists. split; vm_compute; reflexivity. Qed.
End PropagationExample.
