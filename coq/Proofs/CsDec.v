(* Proofs/CsDec.v — a list-level compact-size decoder characterising both the
   Rust-faithful scan_len (Impl) and the streaming r_compact (Ref). *)
From BS Require Import Impl.Leaf Ref.Grammar Proofs.SliceLemmas Proofs.Numbers Proofs.Len.
From Coq Require Import ZifyN ZifyNat ZifyBool.
Open Scope N_scope.

Inductive csr :=
| CsOk (n : N) (c rest : list byte)      (* value, the bytes of its encoding, what follows *)
| CsMore
| CsNonMin.

Definition cs_wide (b0 : byte) (t : list byte) (w : N) (minimal : N -> bool) : csr :=
  match splitN t w with
  | Some (m, rest) => if minimal (le_dec m) then CsOk (le_dec m) (b0 :: m) rest else CsNonMin
  | None => CsMore
  end.

Definition cs_dec (b : list byte) : csr :=
  match b with
  | [] => CsMore
  | b0 :: t =>
      let x := b2n b0 in
      if x =? 255 then cs_wide b0 t 8 (fun n => U32MAX <? n)
      else if x =? 254 then cs_wide b0 t 4 (fun n => U16MAX <? n)
      else if x =? 253 then cs_wide b0 t 2 (fun n => 253 <=? n)
      else CsOk x [b0] t
  end.

Lemma cs_dec_ok b n c rest : cs_dec b = CsOk n c rest ->
  b = c ++ rest /\ 1 <= lenN c <= 9 /\ n < TWO64.
Proof.
  unfold cs_dec, cs_wide. destruct b as [|b0 t]; [discriminate|]. cbn zeta.
  pose proof (b2n_lt b0) as Hb.
  repeat match goal with
  | |- context [if ?x =? ?y then _ else _] => destruct (N.eqb_spec x y)
  | |- context [match splitN ?t ?n with _ => _ end] => destruct (splitN t n) as [[m r]|] eqn:E
  | |- context [if ?b then _ else _] => destruct b eqn:?
  end; intros H; try discriminate; injection H as <- <- <-;
  try (apply splitN_Some in E; destruct E as [-> L]; pose proof (le_dec_lt m) as Hd; rewrite L in Hd;
       split; [reflexivity|]; rewrite lenN_cons, L; unfold TWO64; cbn in Hd; lia).
  split; [reflexivity|]. change (lenN [b0]) with 1. unfold TWO64. lia.
Qed.

(* scan_len in terms of cs_dec *)
Lemma scan_result_cs b c :
  scan_result b c = match cs_dec b with
                    | CsOk n cb _ => if c + lenN cb <? TWO64 then (Ok n, c + lenN cb) else (Panic AddOverflow, c)
                    | CsMore => (Err MoreBytesNeeded, c)
                    | CsNonMin => (Err NonMinimalVarInt, c)
                    end.
Proof.
  unfold scan_result, cs_dec, wide_result, cs_wide. destruct b as [|b0 t]; [reflexivity|]. cbn zeta.
  destruct (b2n b0 =? 255).
  { destruct (splitN t 8) as [[m r]|] eqn:E; [|reflexivity]. apply splitN_Some in E. destruct E as [_ L].
    destruct (U32MAX <? le_dec m); [|reflexivity]. rewrite lenN_cons, L. reflexivity. }
  destruct (b2n b0 =? 254).
  { destruct (splitN t 4) as [[m r]|] eqn:E; [|reflexivity]. apply splitN_Some in E. destruct E as [_ L].
    destruct (U16MAX <? le_dec m); [|reflexivity]. rewrite lenN_cons, L. reflexivity. }
  destruct (b2n b0 =? 253).
  { destruct (splitN t 2) as [[m r]|] eqn:E; [|reflexivity]. apply splitN_Some in E. destruct E as [_ L].
    destruct (253 <=? le_dec m); [|reflexivity]. rewrite lenN_cons, L. reflexivity. }
  reflexivity.
Qed.

Definition st0 (p : N) (b : list byte) (h : hist) : st := {| pos := p; inp := b; hi := h |}.

Lemma splitN_1 {A} (x : A) t : splitN (x :: t) 1 = Some ([x], t).
Proof. pose proof (splitN_app [x] t) as E. change (lenN [x]) with 1 in E. exact E. Qed.

Lemma le_dec_1 b0 : le_dec [b0] = b2n b0.
Proof. cbn [le_dec]. lia. Qed.

(* r_compact in terms of cs_dec *)
Lemma r_compact_cs brk p b h :
  r_compact brk (st0 p b h) = match cs_dec b with
                              | CsOk n cb rest => Done n (st0 (p + lenN cb) rest h)
                              | CsMore => Fail MoreBytesNeeded h
                              | CsNonMin => Fail NonMinimalVarInt h
                              end.
Proof.
  unfold r_compact, r_u, bind, take, ret, fail, st0, cs_dec, cs_wide. cbn [inp pos hi].
  destruct b as [|b0 t]; [reflexivity|]. rewrite splitN_1. cbn zeta. cbn [inp pos hi]. rewrite le_dec_1.
  pose proof (b2n_lt b0) as Hb.
  destruct (N.eqb_spec (b2n b0) 255) as [E|N1].
  { rewrite E. change (255 <? 253) with false. change (255 =? 253) with false. change (255 =? 254) with false. cbv iota. cbn [inp pos hi].
    destruct (splitN t 8) as [[m r]|] eqn:S; [|reflexivity]. apply splitN_Some in S. destruct S as [_ L].
    cbn [inp pos hi]. unfold U32MAX. destruct (4294967295 <? le_dec m); [|reflexivity].
    rewrite lenN_cons, L. f_equal. f_equal. lia. }
  destruct (N.eqb_spec (b2n b0) 254) as [E|N2].
  { rewrite E. change (254 <? 253) with false. change (254 =? 253) with false. change (254 =? 254) with true. cbv iota. cbn [inp pos hi].
    destruct (splitN t 4) as [[m r]|] eqn:S; [|reflexivity]. apply splitN_Some in S. destruct S as [_ L].
    cbn [inp pos hi]. unfold U16MAX. destruct (65535 <? le_dec m); [|reflexivity].
    rewrite lenN_cons, L. f_equal. f_equal. lia. }
  destruct (N.eqb_spec (b2n b0) 253) as [E|N3].
  { rewrite E. change (253 <? 253) with false. change (253 =? 253) with true. cbv iota. cbn [inp pos hi].
    destruct (splitN t 2) as [[m r]|] eqn:S; [|reflexivity]. apply splitN_Some in S. destruct S as [_ L].
    cbn [inp pos hi]. destruct (253 <=? le_dec m); [|reflexivity].
    rewrite lenN_cons, L. f_equal. f_equal. lia. }
  destruct (N.ltb_spec (b2n b0) 253); [|lia]. reflexivity.
Qed.
