(* Proofs/Len.v — src/bsl/len.rs: scan_len / parse_len decode exactly the
   minimal compact-size encodings (C08). *)
From BS Require Import Impl.Leaf Spec.Wire Proofs.SliceLemmas Proofs.Numbers.
From Coq Require Import ZifyN ZifyNat ZifyBool.
Open Scope N_scope.

Lemma s_get_range_1 s w :
  s_get_range s 1 (1 + w) =
  match bytes s with
  | _ :: t => match splitN t w with
              | Some (m, _) => Some {| off := off s + 1; bytes := m |}
              | None => None
              end
  | [] => None
  end.
Proof.
  unfold s_get_range. destruct (N.ltb_spec (1 + w) 1); [lia|].
  destruct (bytes s) as [|b0 t].
  - reflexivity.
  - pose proof (splitN_app [b0] t) as E. change (lenN [b0]) with 1 in E. cbn [app] in E. rewrite E.
    replace (1 + w - 1) with w by lia. destruct (splitN t w) as [[m r]|]; reflexivity.
Qed.

Definition wide_result (t : list byte) (c hi w : N) (minimal : N -> bool) : out N * N :=
  match splitN t w with
  | Some (m, _) =>
      if minimal (le_dec m)
      then (if c + hi <? TWO64 then (Ok (le_dec m), c + hi) else (Panic AddOverflow, c))
      else (Err NonMinimalVarInt, c)
  | None => (Err MoreBytesNeeded, c)
  end.

Lemma scan_wide_spec s c w minimal b0 t : bytes s = b0 :: t ->
  scan_wide s c (1 + w) w minimal = wide_result t c (1 + w) w minimal.
Proof.
  intros E. unfold scan_wide, wide_result. rewrite s_get_range_1, E.
  destruct (splitN t w) as [[m r]|] eqn:E2; [|reflexivity].
  apply splitN_Some in E2. destruct E2 as [_ L].
  cbn [bytes]. unfold to_array. rewrite L, N.eqb_refl.
  destruct (minimal (le_dec m)); [|reflexivity].
  unfold uadd. destruct (c + (1 + w) <? TWO64); reflexivity.
Qed.

Definition scan_result (b : list byte) (c : N) : out N * N :=
  match b with
  | [] => (Err MoreBytesNeeded, c)
  | b0 :: t =>
      let x := b2n b0 in
      if x =? 255 then wide_result t c 9 8 (fun n => U32MAX <? n)
      else if x =? 254 then wide_result t c 5 4 (fun n => U16MAX <? n)
      else if x =? 253 then wide_result t c 3 2 (fun n => 253 <=? n)
      else if c + 1 <? TWO64 then (Ok x, c + 1) else (Panic AddOverflow, c)
  end.

Lemma scan_len_spec s c : scan_len s c = scan_result (bytes s) c.
Proof.
  unfold scan_len, scan_result, s_first. destruct (bytes s) as [|b0 t] eqn:E; [reflexivity|].
  cbn zeta.
  destruct (b2n b0 =? 255).
  { change 9 with (1 + 8). apply (scan_wide_spec s c 8 _ b0 t E). }
  destruct (b2n b0 =? 254).
  { change 5 with (1 + 4). apply (scan_wide_spec s c 4 _ b0 t E). }
  destruct (b2n b0 =? 253).
  { change 3 with (1 + 2). apply (scan_wide_spec s c 2 _ b0 t E). }
  unfold uadd. destruct (c + 1 <? TWO64); reflexivity.
Qed.

(* the counter cannot overflow for offsets below 2^62: no panic *)
Lemma scan_len_no_panic s c : c < 4611686018427387904 ->
  forall w c', scan_len s c <> (Panic w, c') /\ scan_len s c <> (OutOfFuel, c').
Proof.
  intros Hc w c'. rewrite scan_len_spec. unfold scan_result, wide_result, TWO64.
  destruct (bytes s) as [|b0 t]; [split; discriminate|]. cbn zeta.
  repeat match goal with
  | |- context [if ?b then _ else _] => destruct b eqn:?
  | |- context [match splitN ?t ?n with _ => _ end] => destruct (splitN t n) as [[? ?]|]
  end; split; try discriminate; lia.
Qed.

Lemma first_byte n : n < 256 -> le_enc 1 n = [n2b n].
Proof. intros H. cbn [le_enc]. rewrite N.mod_small by lia. reflexivity. Qed.

Lemma b2n_xfd : b2n xfd = 253. Proof. reflexivity. Qed.
Lemma b2n_xfe : b2n xfe = 254. Proof. reflexivity. Qed.
Lemma b2n_xff : b2n xff = 255. Proof. reflexivity. Qed.

(* completeness: the minimal encoding of n decodes to n, advancing the counter by its width *)
Lemma scan_len_complete n rest c : n < TWO64 -> c + cs_width n < TWO64 ->
  scan_result (cs_enc n ++ rest) c = (Ok n, c + cs_width n).
Proof.
  unfold TWO64. intros Hn Hc. unfold cs_enc, cs_width in *.
  destruct (N.ltb_spec n 253) as [H1|H1].
  { rewrite first_byte by lia. cbn [app scan_result]. cbn zeta. rewrite b2n_n2b by lia.
    destruct (N.eqb_spec n 255); [lia|]. destruct (N.eqb_spec n 254); [lia|]. destruct (N.eqb_spec n 253); [lia|].
    unfold TWO64. destruct (N.ltb_spec (c + 1) 18446744073709551616); [reflexivity|lia]. }
  destruct (N.leb_spec n 65535) as [H2|H2].
  { cbn [app scan_result]. cbn zeta. rewrite b2n_xfd. cbn [N.eqb Pos.eqb].
    change (253 =? 255) with false. change (253 =? 254) with false. change (253 =? 253) with true. cbv iota.
    unfold wide_result. rewrite (splitN_app_exact (le_enc 2 n) rest) by (rewrite lenN_le_enc; reflexivity).
    rewrite le_dec_enc by (change (256 ^ N.of_nat 2) with 65536; lia).
    destruct (N.leb_spec 253 n); [|lia]. unfold TWO64. destruct (N.ltb_spec (c + 3) 18446744073709551616); [reflexivity|lia]. }
  destruct (N.leb_spec n 4294967295) as [H3|H3].
  { cbn [app scan_result]. cbn zeta. rewrite b2n_xfe.
    change (254 =? 255) with false. change (254 =? 254) with true. cbv iota.
    unfold wide_result. rewrite (splitN_app_exact (le_enc 4 n) rest) by (rewrite lenN_le_enc; reflexivity).
    rewrite le_dec_enc by (change (256 ^ N.of_nat 4) with 4294967296; lia).
    unfold U16MAX. destruct (N.ltb_spec 65535 n); [|lia]. unfold TWO64. destruct (N.ltb_spec (c + 5) 18446744073709551616); [reflexivity|lia]. }
  { cbn [app scan_result]. cbn zeta. rewrite b2n_xff.
    change (255 =? 255) with true. cbv iota.
    unfold wide_result. rewrite (splitN_app_exact (le_enc 8 n) rest) by (rewrite lenN_le_enc; reflexivity).
    rewrite le_dec_enc by (change (256 ^ N.of_nat 8) with 18446744073709551616; lia).
    unfold U32MAX. destruct (N.ltb_spec 4294967295 n); [|lia]. unfold TWO64. destruct (N.ltb_spec (c + 9) 18446744073709551616); [reflexivity|lia]. }
Qed.

Lemma le_dec_bound (m : list byte) (w : nat) : lenN m = N.of_nat w -> le_dec m < 256 ^ N.of_nat w.
Proof. intros L. pose proof (le_dec_lt m) as H. rewrite L in H. exact H. Qed.

Lemma le_enc_of_dec (m : list byte) (w : nat) : lenN m = N.of_nat w -> le_enc w (le_dec m) = m.
Proof. intros L. replace w with (length m) by (unfold lenN in L; lia). apply le_enc_dec. Qed.

Lemma wide_sound t c hi (w : nat) minimal n c' :
  wide_result t c hi (N.of_nat w) minimal = (Ok n, c') ->
  exists rest, t = le_enc w n ++ rest /\ minimal n = true /\ c' = c + hi /\ n < 256 ^ N.of_nat w.
Proof.
  unfold wide_result. destruct (splitN t (N.of_nat w)) as [[m r]|] eqn:E; [|discriminate].
  apply splitN_Some in E. destruct E as [E L].
  destruct (minimal (le_dec m)) eqn:M; [|discriminate].
  destruct (c + hi <? TWO64); [|discriminate].
  intros H. injection H as <- <-. exists r. rewrite (le_enc_of_dec m w L).
  repeat split; [exact E|exact M|apply le_dec_bound; exact L].
Qed.

(* soundness: success means the input starts with the minimal encoding of the returned value *)
Lemma scan_len_sound b c n c' : scan_result b c = (Ok n, c') ->
  n < TWO64 /\ exists rest, b = cs_enc n ++ rest /\ c' = c + cs_width n.
Proof.
  unfold scan_result. destruct b as [|b0 t]; [discriminate|]. cbn zeta.
  destruct (N.eqb_spec (b2n b0) 255) as [E|N1].
  { intros H. apply (wide_sound t c 9 8) in H. destruct H as [rest [-> [M [-> B]]]].
    unfold U32MAX in M. change (256 ^ N.of_nat 8) with 18446744073709551616 in B.
    split; [unfold TWO64; lia|]. exists rest. unfold cs_enc, cs_width.
    destruct (N.ltb_spec n 253); [lia|]. destruct (N.leb_spec n 65535); [lia|]. destruct (N.leb_spec n 4294967295); [lia|].
    split; [|reflexivity]. cbn [app]. f_equal. apply b2n_inj. rewrite E. reflexivity. }
  destruct (N.eqb_spec (b2n b0) 254) as [E|N2].
  { intros H. apply (wide_sound t c 5 4) in H. destruct H as [rest [-> [M [-> B]]]].
    unfold U16MAX in M. change (256 ^ N.of_nat 4) with 4294967296 in B.
    split; [unfold TWO64; lia|]. exists rest. unfold cs_enc, cs_width.
    destruct (N.ltb_spec n 253); [lia|]. destruct (N.leb_spec n 65535); [lia|]. destruct (N.leb_spec n 4294967295); [|lia].
    split; [|reflexivity]. cbn [app]. f_equal. apply b2n_inj. rewrite E. reflexivity. }
  destruct (N.eqb_spec (b2n b0) 253) as [E|N3].
  { intros H. apply (wide_sound t c 3 2) in H. destruct H as [rest [-> [M [-> B]]]].
    change (256 ^ N.of_nat 2) with 65536 in B.
    split; [unfold TWO64; lia|]. exists rest. unfold cs_enc, cs_width.
    destruct (N.ltb_spec n 253); [lia|]. destruct (N.leb_spec n 65535); [|lia].
    split; [|reflexivity]. cbn [app]. f_equal. apply b2n_inj. rewrite E. reflexivity. }
  destruct (c + 1 <? TWO64); [|discriminate].
  intros H. injection H as <- <-. pose proof (b2n_lt b0) as Hb.
  split; [unfold TWO64; lia|]. exists t. unfold cs_enc, cs_width.
  destruct (N.ltb_spec (b2n b0) 253); [|lia].
  rewrite first_byte by lia. rewrite n2b_b2n. split; reflexivity.
Qed.

(* failure leaves the counter untouched and is one of the two format errors *)
Lemma scan_len_err b c e c' : scan_result b c = (Err e, c') ->
  c' = c /\ (e = MoreBytesNeeded \/ e = NonMinimalVarInt).
Proof.
  unfold scan_result, wide_result. destruct b as [|b0 t].
  { intros H. injection H as <- <-. split; [reflexivity|left; reflexivity]. }
  cbn zeta.
  repeat match goal with
  | |- context [if ?b then _ else _] => destruct b eqn:?
  | |- context [match splitN ?t ?n with _ => _ end] => destruct (splitN t n) as [[? ?]|]
  end; intros H; try discriminate; injection H as <- <-; split; auto.
Qed.

(* the deprecated decoder agrees with the incremental one on every input *)
Definition project (r : out N * N) : out len :=
  match r with
  | (Ok n, c') => Ok {| len_consumed := c'; len_n := n |}
  | (Err e, _) => Err e
  | (Panic w, _) => Panic w
  | (OutOfFuel, _) => OutOfFuel
  end.

Lemma parse_len_tail s b0 t : bytes s = b0 :: t ->
  s_from s 1 = Ok {| off := off s + 1; bytes := t |}.
Proof.
  intros E. unfold s_from. rewrite E.
  pose proof (splitN_app [b0] t) as H. change (lenN [b0]) with 1 in H. cbn [app] in H. rewrite H. reflexivity.
Qed.

Lemma parse_len_agrees s : parse_len s = project (scan_len s 0).
Proof.
  rewrite scan_len_spec. unfold parse_len, s_first, scan_result.
  destruct (bytes s) as [|b0 t] eqn:E; [reflexivity|]. cbn zeta.
  rewrite (parse_len_tail s b0 t E).
  destruct (b2n b0 =? 255).
  { cbn [obind]. unfold parse_u64. rewrite parse_num_spec. cbn [bytes]. unfold wide_result.
    destruct (splitN t 8) as [[m r]|]; [|reflexivity]. cbn [obind parsed].
    unfold to_len_u64, num_to_prim. cbn [num_bytes].
    destruct (U32MAX <? le_dec m); reflexivity. }
  destruct (b2n b0 =? 254).
  { cbn [obind]. unfold parse_u32. rewrite parse_num_spec. cbn [bytes]. unfold wide_result.
    destruct (splitN t 4) as [[m r]|]; [|reflexivity]. cbn [obind parsed].
    unfold to_len_u32, num_to_prim. cbn [num_bytes].
    destruct (U16MAX <? le_dec m); reflexivity. }
  destruct (b2n b0 =? 253).
  { cbn [obind]. unfold parse_u16. rewrite parse_num_spec. cbn [bytes]. unfold wide_result.
    destruct (splitN t 2) as [[m r]|]; [|reflexivity]. cbn [obind parsed].
    unfold to_len_u16, num_to_prim. cbn [num_bytes].
    destruct (253 <=? le_dec m); reflexivity. }
  reflexivity.
Qed.

(* header + payload size: exact when representable, saturated otherwise *)
Lemma slice_len_exact l : len_consumed l + len_n l <= U64MAX -> len_slice_len l = len_consumed l + len_n l.
Proof. unfold len_slice_len, sat_add, U64MAX. lia. Qed.
Lemma slice_len_saturates l : U64MAX < len_consumed l + len_n l -> len_slice_len l = U64MAX.
Proof. unfold len_slice_len, sat_add, U64MAX. lia. Qed.
