(* Proofs/ImplRefTx.v — refinement Impl = Ref for BlockHeader, Transaction and Block. *)
From BS Require Import Impl.Visit Ref.Grammar Proofs.SliceLemmas Proofs.Numbers Proofs.Len Proofs.CsDec
  Proofs.ImplRefLeaf Proofs.ImplRefLists Proofs.ImplRefWitness.
From Coq Require Import ZifyN ZifyNat ZifyBool.
Open Scope N_scope.

Lemma s_range_mid p (a m r : list byte) :
  s_range (sl p (a ++ m ++ r)) (lenN a) (lenN a + lenN m) = Ok (sl (p + lenN a) m).
Proof. unfold s_range, sl. rewrite s_get_range_app. reflexivity. Qed.

Lemma read_le_exact w p (v : list byte) : lenN v = w -> read_le w (sl p v) = Ok (le_dec v).
Proof.
  intros L. rewrite read_le_spec. cbn [bytes sl]. rewrite <- L, splitN_all. reflexivity.
Qed.

(* ---- header: (version, prev, merkle, time, bits, nonce) bytes ---- *)
Definition l_header (b : list byte) : lres (list byte * list byte * list byte * list byte * list byte * list byte) :=
  match splitN b 4 with None => LErr MoreBytesNeeded | Some (v, r1) =>
  match splitN r1 32 with None => LErr MoreBytesNeeded | Some (pv, r2) =>
  match splitN r2 32 with None => LErr MoreBytesNeeded | Some (mk, r3) =>
  match splitN r3 4 with None => LErr MoreBytesNeeded | Some (t, r4) =>
  match splitN r4 4 with None => LErr MoreBytesNeeded | Some (bi, r5) =>
  match splitN r5 4 with None => LErr MoreBytesNeeded | Some (nc, r6) =>
    LOk (v, pv, mk, t, bi, nc) r6
  end end end end end end.

Lemma l_header_ok b v pv mk t bi nc r : l_header b = LOk (v, pv, mk, t, bi, nc) r ->
  b = (v ++ pv ++ mk ++ t ++ bi ++ nc) ++ r /\ lenN v = 4 /\ lenN pv = 32 /\ lenN mk = 32 /\ lenN t = 4 /\ lenN bi = 4 /\ lenN nc = 4.
Proof.
  unfold l_header.
  destruct (splitN b 4) as [[v' r1]|] eqn:S1; [|discriminate].
  destruct (splitN r1 32) as [[pv' r2]|] eqn:S2; [|discriminate].
  destruct (splitN r2 32) as [[mk' r3]|] eqn:S3; [|discriminate].
  destruct (splitN r3 4) as [[t' r4]|] eqn:S4; [|discriminate].
  destruct (splitN r4 4) as [[bi' r5]|] eqn:S5; [|discriminate].
  destruct (splitN r5 4) as [[nc' r6]|] eqn:S6; [|discriminate].
  intros HH. injection HH as <- <- <- <- <- <- <-.
  apply splitN_Some in S1, S2, S3, S4, S5, S6.
  destruct S1 as [-> L1], S2 as [-> L2], S3 as [-> L3], S4 as [-> L4], S5 as [-> L5], S6 as [-> L6].
  repeat split; try assumption. rewrite <- !app_assoc. reflexivity.
Qed.

Lemma l_header_short b e : l_header b = LErr e -> e = MoreBytesNeeded /\ lenN b < 80.
Proof.
  unfold l_header.
  destruct (splitN b 4) as [[v' r1]|] eqn:S1.
  2:{ intros HH. injection HH as <-. apply splitN_None in S1. split; [reflexivity|lia]. }
  apply splitN_Some in S1. destruct S1 as [-> L1]. rewrite lenN_app.
  destruct (splitN r1 32) as [[pv' r2]|] eqn:S2.
  2:{ intros HH. injection HH as <-. apply splitN_None in S2. split; [reflexivity|lia]. }
  apply splitN_Some in S2. destruct S2 as [-> L2]. rewrite lenN_app.
  destruct (splitN r2 32) as [[mk' r3]|] eqn:S3.
  2:{ intros HH. injection HH as <-. apply splitN_None in S3. split; [reflexivity|lia]. }
  apply splitN_Some in S3. destruct S3 as [-> L3]. rewrite lenN_app.
  destruct (splitN r3 4) as [[t' r4]|] eqn:S4.
  2:{ intros HH. injection HH as <-. apply splitN_None in S4. split; [reflexivity|lia]. }
  apply splitN_Some in S4. destruct S4 as [-> L4]. rewrite lenN_app.
  destruct (splitN r4 4) as [[bi' r5]|] eqn:S5.
  2:{ intros HH. injection HH as <-. apply splitN_None in S5. split; [reflexivity|lia]. }
  apply splitN_Some in S5. destruct S5 as [-> L5]. rewrite lenN_app.
  destruct (splitN r5 4) as [[nc' r6]|] eqn:S6.
  2:{ intros HH. injection HH as <-. apply splitN_None in S6. split; [reflexivity|lia]. }
  discriminate.
Qed.

Definition ev_of_header (p : N) (v t nc : list byte) : event :=
  EHeader (p, 80) (i32_of_n (le_dec v)) (p + 4, 32) (p + 36, 32) (le_dec t) (le_dec nc).
Definition a_of_header (v pv mk t bi nc : list byte) : a_header :=
  {| ah_version := i32_of_n (le_dec v); ah_prev := pv; ah_merkle := mk;
     ah_time := le_dec t; ah_bits := le_dec bi; ah_nonce := le_dec nc |}.
Definition mk_header (p : N) (v pv mk t bi nc : list byte) : header :=
  {| h_slice := sl p (v ++ pv ++ mk ++ t ++ bi ++ nc); h_version := i32_of_n (le_dec v);
     h_time := le_dec t; h_bits := le_dec bi; h_nonce := le_dec nc |}.

Lemma r_header_l brk p b h :
  r_header brk (st0 p b h) =
  match l_header b with
  | LOk (v, pv, mk, t, bi, nc) r =>
      let ev := ev_of_header p v t nc in
      if brk h ev then Fail VisitBreak (ev :: h)
      else Done (a_of_header v pv mk t bi nc) (st0 (p + 80) r (ev :: h))
  | LErr e => Fail e h
  end.
Proof.
  unfold r_header, l_header, r_u, bind, get_pos, take, ret, st0. cbn [pos inp hi].
  destruct (splitN b 4) as [[v r1]|]; [|reflexivity]. cbn [pos inp hi].
  destruct (splitN r1 32) as [[pv r2]|]; [|reflexivity]. cbn [pos inp hi].
  destruct (splitN r2 32) as [[mk r3]|]; [|reflexivity]. cbn [pos inp hi].
  destruct (splitN r3 4) as [[t r4]|]; [|reflexivity]. cbn [pos inp hi].
  destruct (splitN r4 4) as [[bi r5]|]; [|reflexivity]. cbn [pos inp hi].
  destruct (splitN r5 4) as [[nc r6]|]; [|reflexivity]. cbn [pos inp hi].
  unfold emitp. cbn [breakable andb hi pos inp]. cbn zeta. unfold ev_of_header.
  destruct (brk h _); [reflexivity|].
  unfold a_of_header. replace (p + 4 + 32 + 32 + 4 + 4 + 4) with (p + 80) by lia. reflexivity.
Qed.

Lemma visit_header_l brk p b h :
  visit_header brk (sl p b) h =
  match l_header b with
  | LOk (v, pv, mk, t, bi, nc) r =>
      let ev := ev_of_header p v t nc in
      if brk h ev then (Err VisitBreak, ev :: h)
      else (Ok {| remaining := sl (p + 80) r; parsed := mk_header p v pv mk t bi nc |}, ev :: h)
  | LErr e => (Err e, h)
  end.
Proof.
  unfold visit_header. rewrite s_len_lt_spec. unfold s_len. cbn [bytes sl].
  destruct (l_header b) as [[[[[[v pv] mk] t] bi] nc] r|e] eqn:L.
  2:{ destruct (l_header_short _ _ L) as [-> Hs]. destruct (N.ltb_spec (lenN b) 80); [reflexivity|lia]. }
  destruct (l_header_ok _ _ _ _ _ _ _ _ L) as [Hb [Lv [Lpv [Lmk [Lt [Lbi Lnc]]]]]].
  assert (Hlen : lenN b = 80 + lenN r). { rewrite Hb, !lenN_app. lia. }
  destruct (N.ltb_spec (lenN b) 80); [lia|].
  (* the four field reads *)
  assert (R1 : s_range (sl p b) 0 4 = Ok (sl p v)).
  { rewrite Hb, <- app_assoc. pose proof (s_range_mid p [] v ((pv ++ mk ++ t ++ bi ++ nc) ++ r)) as G.
    cbn [app] in G. change (lenN (@nil byte)) with 0 in G. rewrite Lv, N.add_0_r in G. exact G. }
  assert (R2 : s_range (sl p b) 68 72 = Ok (sl (p + 68) t)).
  { rewrite Hb. pose proof (s_range_mid p (v ++ pv ++ mk) t ((bi ++ nc) ++ r)) as G.
    rewrite !lenN_app, Lv, Lpv, Lmk, Lt in G. change (4 + (32 + 32)) with 68 in G. change (68 + 4) with 72 in G.
    rewrite <- G. f_equal. f_equal. rewrite <- !app_assoc. reflexivity. }
  assert (R3 : s_range (sl p b) 72 76 = Ok (sl (p + 72) bi)).
  { rewrite Hb. pose proof (s_range_mid p (v ++ pv ++ mk ++ t) bi (nc ++ r)) as G.
    rewrite !lenN_app, Lv, Lpv, Lmk, Lt, Lbi in G. change (4 + (32 + (32 + 4))) with 72 in G. change (72 + 4) with 76 in G.
    rewrite <- G. f_equal. f_equal. rewrite <- !app_assoc. reflexivity. }
  assert (R4 : s_range (sl p b) 76 80 = Ok (sl (p + 76) nc)).
  { rewrite Hb. pose proof (s_range_mid p (v ++ pv ++ mk ++ t ++ bi) nc r) as G.
    rewrite !lenN_app, Lv, Lpv, Lmk, Lt, Lbi, Lnc in G. change (4 + (32 + (32 + (4 + 4)))) with 76 in G. change (76 + 4) with 80 in G.
    rewrite <- G. f_equal. f_equal. rewrite <- !app_assoc. reflexivity. }
  unfold mbind at 1. unfold lift at 1. rewrite R1.
  unfold mbind at 1. unfold lift at 1. unfold read_i32. rewrite (read_le_exact 4 p v Lv). cbn [obind expect].
  unfold mbind at 1. unfold lift at 1. rewrite R2.
  unfold mbind at 1. unfold lift at 1. unfold read_u32. rewrite (read_le_exact 4 _ t Lt). cbn [expect].
  unfold mbind at 1. unfold lift at 1. rewrite R3.
  unfold mbind at 1. unfold lift at 1. rewrite (read_le_exact 4 _ bi Lbi). cbn [expect].
  unfold mbind at 1. unfold lift at 1. rewrite R4.
  unfold mbind at 1. unfold lift at 1. rewrite (read_le_exact 4 _ nc Lnc). cbn [expect].
  set (hb := v ++ pv ++ mk ++ t ++ bi ++ nc) in *.
  assert (Lhb : lenN hb = 80). { unfold hb. rewrite !lenN_app. lia. }
  unfold mbind at 1. unfold lift at 1. rewrite Hb. rewrite <- Lhb. unfold sl at 1. rewrite s_to_app. fold (sl p hb).
  (* the event: prev_blockhash and merkle_root *)
  unfold mbind at 1. unfold lift at 1. unfold header_event, header_prev_blockhash, header_merkle_root. cbn [h_slice h_version h_time h_nonce].
  assert (P1 : s_range (sl p hb) 4 36 = Ok (sl (p + 4) pv)).
  { unfold hb. pose proof (s_range_mid p v pv (mk ++ t ++ bi ++ nc)) as G. rewrite Lv, Lpv in G. exact G. }
  assert (P2 : s_range (sl p hb) 36 68 = Ok (sl (p + 36) mk)).
  { unfold hb. pose proof (s_range_mid p (v ++ pv) mk (t ++ bi ++ nc)) as G. rewrite !lenN_app, Lv, Lpv, Lmk in G.
    change (4 + 32) with 36 in G. change (36 + 32) with 68 in G. rewrite <- G. f_equal. f_equal. rewrite <- !app_assoc. reflexivity. }
  rewrite P1, P2. cbn [obind]. unfold win, s_len, sl. cbn [off bytes]. rewrite Lhb, Lpv, Lmk.
  unfold mbind at 1. unfold emit at 1. cbn [breakable andb]. cbn zeta. unfold ev_of_header.
  destruct (brk h _); [reflexivity|].
  unfold mbind at 1. unfold lift at 1. rewrite <- Lhb at 1. rewrite s_from_app.
  unfold mret, mk_header. fold hb. rewrite Lhb. reflexivity.
Qed.

(* ---- transaction accessors on a parsed transaction ---- *)
Definition InLen (b : list byte) : Prop := lenN b < 4611686018427387904.   (* 2^62 *)

Lemma InLen_In63 b : InLen b -> In63 b.
Proof. unfold InLen, In63, TWO63. lia. Qed.

Lemma tx_version_ok p v rest io : lenN v = 4 ->
  tx_version {| tx_slice := sl p (v ++ rest); tx_io_len := io |} = Ok (i32_of_n (le_dec v)).
Proof.
  intros Lv. unfold tx_version. cbn [tx_slice]. rewrite <- Lv. unfold sl at 1. rewrite s_to_app. cbn [obind].
  unfold read_i32. fold (sl p v). rewrite (read_le_exact 4 p v Lv). reflexivity.
Qed.

Lemma tx_locktime_ok p pre lt io : lenN lt = 4 ->
  tx_locktime {| tx_slice := sl p (pre ++ lt); tx_io_len := io |} = Ok (le_dec lt).
Proof.
  intros Ll. unfold tx_locktime. cbn [tx_slice]. unfold s_len, sl. cbn [bytes]. rewrite lenN_app, Ll.
  unfold usub. destruct (N.leb_spec 4 (lenN pre + 4)); [|lia]. cbn [obind].
  replace (lenN pre + 4 - 4) with (lenN pre) by lia. rewrite s_from_app. cbn [obind].
  unfold read_u32. fold (sl (p + lenN pre) lt). rewrite (read_le_exact 4 _ lt Ll). reflexivity.
Qed.

Lemma tx_event_legacy p v mid lt : lenN v = 4 -> lenN lt = 4 -> InLen (v ++ mid ++ lt) ->
  let c := v ++ mid ++ lt in
  tx_event {| tx_slice := sl p c; tx_io_len := None |} =
  Ok (ETransaction (p, lenN c) (i32_of_n (le_dec v)) (le_dec lt) (p, lenN c) (0, 0) (0, 0) (lenN c * 4)).
Proof.
  intros Lv Ll HL c. unfold tx_event. unfold c at 1. rewrite (tx_version_ok p v (mid ++ lt) None Lv). cbn [obind].
  replace c with ((v ++ mid) ++ lt) by (unfold c; rewrite <- app_assoc; reflexivity).
  rewrite (tx_locktime_ok p (v ++ mid) lt None Ll). cbn [obind].
  unfold tx_txid_preimage, tx_weight. cbn [tx_io_len tx_slice obind].
  unfold umul, s_len, sl. cbn [bytes]. unfold InLen in HL.
  replace ((v ++ mid) ++ lt) with c by (unfold c; rewrite <- app_assoc; reflexivity).
  destruct (N.ltb_spec (lenN c * 4) TWO64) as [_|Hbad]; [|unfold TWO64 in Hbad; unfold c in Hbad; lia].
  cbn [obind]. unfold pwin, win, s_len, empty_window. cbn [bytes off].
  assert (Hc : lenN c <> 0). { unfold c. rewrite !lenN_app. lia. }
  destruct (N.eqb_spec (lenN c) 0); [contradiction|].
  change (lenN (@nil byte) =? 0) with true. cbv iota. reflexivity.
Qed.

Lemma tx_event_segwit p v mf io w lt : lenN v = 4 -> lenN mf = 2 -> 1 <= lenN io -> lenN lt = 4 ->
  InLen (v ++ mf ++ io ++ w ++ lt) ->
  let c := v ++ mf ++ io ++ w ++ lt in
  tx_event {| tx_slice := sl p c; tx_io_len := Some (lenN io) |} =
  Ok (ETransaction (p, lenN c) (i32_of_n (le_dec v)) (le_dec lt) (p, 4) (p + 6, lenN io) (p + lenN c - 4, 4)
                   ((lenN io + 8) * 3 + lenN c)).
Proof.
  intros Lv Lm Lio Ll HL c. unfold tx_event. unfold c at 1.
  rewrite (tx_version_ok p v (mf ++ io ++ w ++ lt) _ Lv). cbn [obind].
  replace c with ((v ++ mf ++ io ++ w) ++ lt) by (unfold c; rewrite <- !app_assoc; reflexivity).
  rewrite (tx_locktime_ok p (v ++ mf ++ io ++ w) lt _ Ll). cbn [obind].
  replace ((v ++ mf ++ io ++ w) ++ lt) with c by (unfold c; rewrite <- !app_assoc; reflexivity).
  unfold InLen in HL. fold c in HL.
  assert (Lc : lenN c = 4 + 2 + lenN io + lenN w + 4). { unfold c. rewrite !lenN_app. lia. }
  unfold tx_txid_preimage. cbn [tx_io_len tx_slice].
  assert (A : s_to (sl p c) 4 = Ok (sl p v)). { unfold c. rewrite <- Lv. unfold sl. apply s_to_app. }
  rewrite A. cbn [obind]. unfold uadd.
  destruct (N.ltb_spec (lenN io + 6) TWO64) as [_|Hbad]; [|unfold TWO64 in Hbad; lia]. cbn [obind].
  assert (B : s_range (sl p c) 6 (lenN io + 6) = Ok (sl (p + 6) io)).
  { pose proof (s_range_mid p (v ++ mf) io (w ++ lt)) as G. rewrite lenN_app, Lv, Lm in G.
    change (4 + 2) with 6 in G. rewrite (N.add_comm (lenN io) 6). rewrite <- G. f_equal. f_equal.
    unfold c. rewrite <- !app_assoc. reflexivity. }
  rewrite B. cbn [obind]. unfold usub, s_len. cbn [bytes sl].
  destruct (N.leb_spec 4 (lenN c)); [|lia]. cbn [obind].
  assert (C : s_from (sl p c) (lenN c - 4) = Ok (sl (p + (lenN c - 4)) lt)).
  { replace c with ((v ++ mf ++ io ++ w) ++ lt) at 1 by (unfold c; rewrite <- !app_assoc; reflexivity).
    replace (lenN c - 4) with (lenN (v ++ mf ++ io ++ w)) by (rewrite Lc, !lenN_app; lia).
    unfold sl. apply s_from_app. }
  rewrite C. cbn [obind].
  unfold tx_weight. cbn [tx_io_len tx_slice]. unfold uadd, umul, s_len. cbn [bytes sl].
  destruct (N.ltb_spec (lenN io + 4) TWO64) as [_|Hbad]; [|unfold TWO64 in Hbad; lia]. cbn [obind].
  destruct (N.ltb_spec (lenN io + 4 + 4) TWO64) as [_|Hbad]; [|unfold TWO64 in Hbad; lia]. cbn [obind].
  destruct (N.ltb_spec ((lenN io + 4 + 4) * 3) TWO64) as [_|Hbad]; [|unfold TWO64 in Hbad; lia]. cbn [obind].
  destruct (N.ltb_spec ((lenN io + 4 + 4) * 3 + lenN c) TWO64) as [_|Hbad]; [|unfold TWO64 in Hbad; lia]. cbn [obind].
  unfold pwin, win, s_len, sl. cbn [bytes off]. rewrite Lv, Ll.
  change (4 =? 0) with false. cbv iota.
  destruct (N.eqb_spec (lenN io) 0); [lia|].
  replace (lenN io + 4 + 4) with (lenN io + 8) by lia.
  replace (p + (lenN c - 4)) with (p + lenN c - 4) by lia. reflexivity.
Qed.

Definition io_of_hist (h : hist) : option N :=
  match h with
  | ETransaction _ _ _ _ pb _ _ :: _ => nonzero (snd pb)
  | _ => None
  end.

Definition embed_tx (p : N) (b : list byte) (o : outcome a_tx) : out (presult transaction) * hist :=
  match o with
  | Done a s' => (Ok {| remaining := sl (pos s') (inp s');
                        parsed := {| tx_slice := view p b s'; tx_io_len := io_of_hist (hi s') |} |}, hi s')
  | Fail e h' => (Err e, h')
  | Stuck => (OutOfFuel, [])
  end.

Lemma r_u_st w brk p b h :
  r_u w brk (st0 p b h) = match splitN b w with
                          | Some (a, r) => Done (le_dec a) (st0 (p + w) r h)
                          | None => Fail MoreBytesNeeded h
                          end.
Proof. unfold r_u, bind, take, ret, st0. cbn [inp pos hi]. destruct (splitN b w) as [[a r]|]; reflexivity. Qed.

Lemma st0_eta s : s = st0 (pos s) (inp s) (hi s).
Proof. destruct s; reflexivity. Qed.

Theorem visit_transaction_ref brk p b h : InLen b ->
  visit_transaction brk (sl p b) h = embed_tx p b (r_tx brk (st0 p b h)).
Proof.
  intros HL. pose proof (InLen_In63 b HL) as H63.
  unfold visit_transaction, r_tx.
  unfold mbind at 1. unfold lift at 1. unfold read_i32. rewrite read_le_spec. cbn [bytes sl].
  unfold bind at 1. unfold get_pos at 1. cbn [pos st0].
  unfold bind at 1. rewrite r_u_st.
  destruct (splitN b 4) as [[v r1]|] eqn:S1; [|reflexivity].
  apply splitN_Some in S1. destruct S1 as [Hb Lv].
  cbn [obind]. unfold mbind at 1. unfold lift at 1.
  assert (SF : s_from (sl p b) 4 = Ok (sl (p + 4) r1)). { rewrite Hb, <- Lv. unfold sl. apply s_from_app. }
  rewrite SF.
  assert (H63r1 : In63 r1). { rewrite Hb in H63. apply In63_suffix in H63. exact H63. }
  destruct (visit_txins_ref brk (p + 4) r1 h H63r1) as [T1 [T2 T3]].
  unfold mbind at 1. rewrite T3. unfold bind at 1.
  destruct (r_txins brk (st0 (p + 4) r1 h)) as [ins0 s1|e h'|] eqn:RT; [|reflexivity|contradiction].
  destruct s1 as [q1 i1 h1].
  destruct (T2 ins0 _ eq_refl) as [c1 [Hr1 [Hp1 [Hc1 [He1 Hm1]]]]]. cbn [pos inp hi] in *.
  cbn [embed_visit]. unfold mbind at 1. unfold lift at 1. cbn [parsed].
  assert (Hview1 : view (p + 4) r1 {| pos := q1; inp := i1; hi := h1 |} = sl (p + 4) c1).
  { rewrite Hr1. apply (view_app (p + 4) c1 {| pos := q1; inp := i1; hi := h1 |}). exact Hp1. }
  rewrite Hview1, He1.
  unfold mbind at 1. unfold lift at 1. cbn [remaining].
  assert (H63s1 : In63 i1). { rewrite Hr1 in H63r1. apply In63_suffix in H63r1. exact H63r1. }
  cbn [pos inp hi].
  destruct ins0 as [|i0 ins0'].
  2:{ (* legacy *)
    cbn [list_empty].
    destruct (visit_txouts_ref brk q1 i1 h1 H63s1) as [O1 [O2 O3]].
    unfold mbind at 1. rewrite O3. unfold bind at 1.
    change (r_txouts brk {| pos := q1; inp := i1; hi := h1 |}) with (r_txouts brk (st0 q1 i1 h1)).
    destruct (r_txouts brk (st0 q1 i1 h1)) as [outs s2|e h'|] eqn:RO; [|reflexivity|contradiction].
    destruct s2 as [q2 i2 h2].
    destruct (O2 outs _ eq_refl) as [c2 [Hi1 [Hp2 [Hc2 He2]]]]. cbn [pos inp hi] in *.
    cbn [embed_visit]. unfold mbind at 1. unfold lift at 1. cbn [remaining parsed pos inp hi].
    unfold read_u32. rewrite read_le_spec. cbn [bytes sl].
    unfold bind at 1. change (r_u 4 brk {| pos := q2; inp := i2; hi := h2 |}) with (r_u 4 brk (st0 q2 i2 h2)). rewrite r_u_st.
    destruct (splitN i2 4) as [[lt r3]|] eqn:S3; [|reflexivity].
    apply splitN_Some in S3. destruct S3 as [Hi2 Ll].
    unfold mbind at 1. unfold lift at 1. unfold consumed_of. cbn [parsed tis_slice tos_slice].
    assert (Hview2 : view q1 i1 {| pos := q2; inp := i2; hi := h2 |} = sl q1 c2).
    { rewrite Hi1. apply (view_app q1 c2 {| pos := q2; inp := i2; hi := h2 |}). exact Hp2. }
    rewrite Hview2. unfold s_len, sl at 1 2. cbn [bytes]. unfold uadd.
    set (c := v ++ (c1 ++ c2) ++ lt).
    assert (Hbc : b = c ++ r3). { unfold c. rewrite Hb, Hr1, Hi1, Hi2. rewrite <- !app_assoc. reflexivity. }
    assert (Lc : lenN c = lenN c1 + lenN c2 + 8). { unfold c. rewrite !lenN_app. lia. }
    unfold InLen in HL. assert (HLc : InLen c). { unfold InLen. rewrite Hbc, lenN_app in HL. lia. }
    assert (Hlen : lenN b = lenN c + lenN r3). { rewrite Hbc, lenN_app. reflexivity. }
    destruct (N.ltb_spec (lenN c1 + lenN c2) TWO64) as [_|Hbad]; [|unfold TWO64 in Hbad; lia].
    unfold mbind at 1. unfold lift at 1.
    destruct (N.ltb_spec (lenN c1 + lenN c2 + 8) TWO64) as [_|Hbad]; [|unfold TWO64 in Hbad; lia].
    unfold mbind at 1. unfold lift at 1. rewrite <- Lc. rewrite Hbc at 1. unfold sl at 1. rewrite s_to_app. fold (sl p c).
    pose proof (tx_event_legacy p v (c1 ++ c2) lt Lv Ll HLc) as TE. cbn zeta in TE. fold c in TE.
    unfold mbind at 1. unfold lift at 1. rewrite TE.
    unfold bind at 1. unfold get_pos at 1. cbn [pos st0].
    unfold bind at 1. unfold mbind at 1.
    assert (Hp : q2 + 4 - p = lenN c) by lia. rewrite Hp.
    unfold emit, emitp. cbn [breakable andb hi st0].
    destruct (brk (h2) _); [reflexivity|].
    unfold mbind at 1. unfold lift at 1. rewrite Hbc at 1. unfold sl at 1. rewrite s_from_app.
    unfold mret, ret. cbn [embed_tx pos inp hi io_of_hist snd]. unfold st0. cbn [pos inp hi].
    change (nonzero 0) with (@None N).
    assert (Hv : view p b {| pos := q2 + 4; inp := r3; hi := ETransaction (p, lenN c) (i32_of_n (le_dec v)) (le_dec lt) (p, lenN c) (0, 0) (0, 0) (lenN c * 4) :: h2 |} = sl p c).
    { rewrite Hbc. apply (view_app p c {| pos := q2 + 4; inp := r3; hi := _ |}). cbn [pos]. lia. }
    rewrite Hv. replace (p + lenN c) with (q2 + 4) by lia. reflexivity. }
  (* segwit marker: the first input list is empty *)
  cbn [list_empty]. specialize (Hm1 eq_refl).
  rewrite read_u8_spec. cbn [bytes sl].
  unfold bind at 1. change (r_u 1 brk {| pos := q1; inp := i1; hi := h1 |}) with (r_u 1 brk (st0 q1 i1 h1)). rewrite r_u_st.
  destruct i1 as [|x i1']; [reflexivity|].
  rewrite splitN_1, le_dec_1.
  destruct (N.eqb_spec (b2n x) 1) as [Hflag|Hflag]; [|reflexivity].
  unfold mbind at 1. unfold lift at 1.
  assert (SF1 : s_from (sl q1 (x :: i1')) 1 = Ok (sl (q1 + 1) i1')).
  { pose proof (s_from_app q1 [x] i1') as G. change (lenN [x]) with 1 in G. exact G. }
  rewrite SF1.
  unfold bind at 1. unfold get_pos at 1. cbn [pos st0].
  assert (H63i1' : In63 i1'). { change (x :: i1') with ([x] ++ i1') in H63s1. apply In63_suffix in H63s1. exact H63s1. }
  (* inputs *)
  destruct (visit_txins_ref brk (q1 + 1) i1' h1 H63i1') as [U1 [U2 U3]].
  unfold mbind at 1. rewrite U3. unfold bind at 1.
  destruct (r_txins brk (st0 (q1 + 1) i1' h1)) as [ins s2|e h'|] eqn:RI; [|reflexivity|contradiction].
  destruct s2 as [q2 i2 h2].
  destruct (U2 ins _ eq_refl) as [c2 [Hi1' [Hp2 [Hc2 [He2 _]]]]]. cbn [pos inp hi] in *.
  cbn [embed_visit remaining parsed pos inp hi].
  assert (Hview2 : view (q1 + 1) i1' {| pos := q2; inp := i2; hi := h2 |} = sl (q1 + 1) c2).
  { rewrite Hi1'. apply (view_app (q1 + 1) c2 {| pos := q2; inp := i2; hi := h2 |}). exact Hp2. }
  rewrite Hview2.
  (* outputs *)
  assert (H63i2 : In63 i2). { rewrite Hi1' in H63i1'. apply In63_suffix in H63i1'. exact H63i1'. }
  destruct (visit_txouts_ref brk q2 i2 h2 H63i2) as [O1 [O2 O3]].
  unfold mbind at 1. rewrite O3. unfold bind at 1.
  change (r_txouts brk {| pos := q2; inp := i2; hi := h2 |}) with (r_txouts brk (st0 q2 i2 h2)).
  destruct (r_txouts brk (st0 q2 i2 h2)) as [outs s3|e h'|] eqn:RO; [|reflexivity|contradiction].
  destruct s3 as [q3 i3 h3].
  destruct (O2 outs _ eq_refl) as [c3 [Hi2 [Hp3 [Hc3 He3]]]]. cbn [pos inp hi] in *.
  cbn [embed_visit remaining parsed pos inp hi].
  assert (Hview3 : view q2 i2 {| pos := q3; inp := i3; hi := h3 |} = sl q2 c3).
  { rewrite Hi2. apply (view_app q2 c3 {| pos := q3; inp := i3; hi := h3 |}). exact Hp3. }
  rewrite Hview3.
  unfold bind at 1. unfold get_pos at 1. cbn [pos].
  (* witnesses *)
  assert (H63i3 : In63 i3). { rewrite Hi2 in H63i2. apply In63_suffix in H63i2. exact H63i2. }
  cbn [tis_n].
  destruct (visit_witnesses_ref brk q3 i3 (lenN ins) h3 H63i3) as [W1 [W2 W3]].
  unfold mbind at 1. rewrite W3. unfold bind at 1.
  change (r_witnesses (lenN ins) brk {| pos := q3; inp := i3; hi := h3 |}) with (r_witnesses (lenN ins) brk (st0 q3 i3 h3)).
  destruct (r_witnesses (lenN ins) brk (st0 q3 i3 h3)) as [ws s4|e h'|] eqn:RW; [|reflexivity|contradiction].
  destruct s4 as [q4 i4 h4].
  destruct (W2 ws _ eq_refl) as [c4 [Hi3 [Hp4 Hlw]]]. cbn [pos inp hi] in *.
  cbn [embed_visit remaining parsed pos inp hi].
  assert (Hview4 : view q3 i3 {| pos := q4; inp := i4; hi := h4 |} = sl q3 c4).
  { rewrite Hi3. apply (view_app q3 c4 {| pos := q4; inp := i4; hi := h4 |}). exact Hp4. }
  rewrite Hview4.
  unfold mbind at 1. unfold lift at 1. rewrite He2. cbn [ws_all_empty].
  change (all_empty ws) with (forallb list_empty ws).
  replace (match ins with [] => false | _ :: _ => true end) with (negb (list_empty ins)) by (destruct ins; reflexivity).
  destruct (negb (list_empty ins) && forallb list_empty ws) eqn:NW; [reflexivity|].
  (* lock time *)
  unfold mbind at 1. unfold lift at 1. unfold read_u32. rewrite read_le_spec. cbn [bytes sl].
  unfold bind at 1. change (r_u 4 brk {| pos := q4; inp := i4; hi := h4 |}) with (r_u 4 brk (st0 q4 i4 h4)). rewrite r_u_st.
  destruct (splitN i4 4) as [[lt r5]|] eqn:S5; [|reflexivity].
  apply splitN_Some in S5. destruct S5 as [Hi4 Ll].
  unfold consumed_of. cbn [parsed tis_slice tos_slice ws_slice]. unfold s_len, sl at 1 2 3 4 5. cbn [bytes]. unfold uadd.
  set (c := v ++ (c1 ++ [x]) ++ (c2 ++ c3) ++ c4 ++ lt).
  assert (Hbc : b = c ++ r5).
  { unfold c. rewrite Hb, Hr1. change (x :: i1') with ([x] ++ i1'). rewrite Hi1', Hi2, Hi3, Hi4. rewrite <- !app_assoc. reflexivity. }
  assert (Lc : lenN c = 10 + lenN c2 + lenN c3 + lenN c4). { unfold c. rewrite !lenN_app. change (lenN [x]) with 1. lia. }
  unfold InLen in HL. assert (HLc : InLen c). { unfold InLen. rewrite Hbc, lenN_app in HL. lia. }
  assert (Hlen : lenN b = lenN c + lenN r5). { rewrite Hbc, lenN_app. reflexivity. }
  unfold mbind at 1. unfold lift at 1.
  destruct (N.ltb_spec (10 + lenN c2) TWO64) as [_|Hbad]; [|unfold TWO64 in Hbad; lia].
  unfold mbind at 1. unfold lift at 1.
  destruct (N.ltb_spec (10 + lenN c2 + lenN c3) TWO64) as [_|Hbad]; [|unfold TWO64 in Hbad; lia].
  unfold mbind at 1. unfold lift at 1.
  destruct (N.ltb_spec (10 + lenN c2 + lenN c3 + lenN c4) TWO64) as [_|Hbad]; [|unfold TWO64 in Hbad; lia].
  unfold mbind at 1. unfold lift at 1.
  destruct (N.ltb_spec (lenN c2 + lenN c3) TWO64) as [_|Hbad]; [|unfold TWO64 in Hbad; lia].
  unfold mbind at 1. unfold lift at 1. rewrite <- Lc. rewrite Hbc at 1. unfold sl at 1. rewrite s_to_app. fold (sl p c).
  assert (Lmf : lenN (c1 ++ [x]) = 2). { rewrite lenN_app, Hm1. reflexivity. }
  assert (Lio : 1 <= lenN (c2 ++ c3)). { rewrite lenN_app. lia. }
  pose proof (tx_event_segwit p v (c1 ++ [x]) (c2 ++ c3) c4 lt Lv Lmf Lio Ll HLc) as TE. cbn zeta in TE. fold c in TE.
  rewrite lenN_app in TE.
  assert (Hnz : nonzero (lenN c2 + lenN c3) = Some (lenN c2 + lenN c3)).
  { unfold nonzero. destruct (N.eqb_spec (lenN c2 + lenN c3) 0); [lia|reflexivity]. }
  rewrite Hnz.
  unfold mbind at 1. unfold lift at 1. rewrite TE.
  unfold bind at 1. unfold get_pos at 1. cbn [pos st0].
  unfold bind at 1. unfold mbind at 1.
  replace (q4 + 4 - p) with (lenN c) by lia.
  replace (q3 - (q1 + 1)) with (lenN c2 + lenN c3) by lia.
  replace (q4 + 4 - 4) with (p + lenN c - 4) by lia.
  unfold emit, emitp. cbn [breakable andb hi st0].
  destruct (brk h4 _); [reflexivity|].
  unfold mbind at 1. unfold lift at 1. rewrite Hbc at 1. unfold sl at 1. rewrite s_from_app.
  unfold mret, ret. cbn [embed_tx pos inp hi io_of_hist snd]. unfold st0. cbn [pos inp hi].
  rewrite Hnz.
  assert (Hv : forall hh, view p b {| pos := q4 + 4; inp := r5; hi := hh |} = sl p c).
  { intros hh. rewrite Hbc. apply (view_app p c {| pos := q4 + 4; inp := r5; hi := hh |}). cbn [pos]. lia. }
  rewrite Hv. replace (p + lenN c) with (q4 + 4) by lia. reflexivity.
Qed.
