(* Proofs/ImplRefTx.v — refinement Impl = Ref for BlockHeader, Transaction and Block. *)
From BS Require Import Impl.Visit Ref.Grammar Proofs.SliceLemmas Proofs.Numbers Proofs.Len Proofs.CsDec
  Proofs.ImplRefLeaf Proofs.ImplRefLists Proofs.ImplRefWitness.
From Coq Require Import ZifyN ZifyNat ZifyBool.
Open Scope N_scope.

Lemma s_range_mid p (a m r : list byte) :
  s_range (sl p (a ++ m ++ r)) (lenN a) (lenN a + lenN m) = Ok (sl (p + lenN a) m).
Proof. unfold s_range, sl. rewrite s_get_range_app. reflexivity. Qed.

Lemma read_le_exact w p (v : list byte) : lenN v = w -> read_le w (sl p v) = Ok (le_dec v).
Proof.
  intros L. rewrite read_le_spec. cbn [bytes sl]. rewrite <- L, splitN_all. reflexivity.
Qed.

(* ---- header: (version, prev, merkle, time, bits, nonce) bytes ---- *)
Definition l_header (b : list byte) : lres (list byte * list byte * list byte * list byte * list byte * list byte) :=
  match splitN b 4 with None => LErr MoreBytesNeeded | Some (v, r1) =>
  match splitN r1 32 with None => LErr MoreBytesNeeded | Some (pv, r2) =>
  match splitN r2 32 with None => LErr MoreBytesNeeded | Some (mk, r3) =>
  match splitN r3 4 with None => LErr MoreBytesNeeded | Some (t, r4) =>
  match splitN r4 4 with None => LErr MoreBytesNeeded | Some (bi, r5) =>
  match splitN r5 4 with None => LErr MoreBytesNeeded | Some (nc, r6) =>
    LOk (v, pv, mk, t, bi, nc) r6
  end end end end end end.

Lemma l_header_ok b v pv mk t bi nc r : l_header b = LOk (v, pv, mk, t, bi, nc) r ->
  b = (v ++ pv ++ mk ++ t ++ bi ++ nc) ++ r /\ lenN v = 4 /\ lenN pv = 32 /\ lenN mk = 32 /\ lenN t = 4 /\ lenN bi = 4 /\ lenN nc = 4.
Proof.
  unfold l_header.
  destruct (splitN b 4) as [[v' r1]|] eqn:S1; [|discriminate].
  destruct (splitN r1 32) as [[pv' r2]|] eqn:S2; [|discriminate].
  destruct (splitN r2 32) as [[mk' r3]|] eqn:S3; [|discriminate].
  destruct (splitN r3 4) as [[t' r4]|] eqn:S4; [|discriminate].
  destruct (splitN r4 4) as [[bi' r5]|] eqn:S5; [|discriminate].
  destruct (splitN r5 4) as [[nc' r6]|] eqn:S6; [|discriminate].
  intros HH. injection HH as <- <- <- <- <- <- <-.
  apply splitN_Some in S1, S2, S3, S4, S5, S6.
  destruct S1 as [-> L1], S2 as [-> L2], S3 as [-> L3], S4 as [-> L4], S5 as [-> L5], S6 as [-> L6].
  repeat split; try assumption. rewrite <- !app_assoc. reflexivity.
Qed.

Lemma l_header_short b e : l_header b = LErr e -> e = MoreBytesNeeded /\ lenN b < 80.
Proof.
  unfold l_header.
  destruct (splitN b 4) as [[v' r1]|] eqn:S1.
  2:{ intros HH. injection HH as <-. apply splitN_None in S1. split; [reflexivity|lia]. }
  apply splitN_Some in S1. destruct S1 as [-> L1]. rewrite lenN_app.
  destruct (splitN r1 32) as [[pv' r2]|] eqn:S2.
  2:{ intros HH. injection HH as <-. apply splitN_None in S2. split; [reflexivity|lia]. }
  apply splitN_Some in S2. destruct S2 as [-> L2]. rewrite lenN_app.
  destruct (splitN r2 32) as [[mk' r3]|] eqn:S3.
  2:{ intros HH. injection HH as <-. apply splitN_None in S3. split; [reflexivity|lia]. }
  apply splitN_Some in S3. destruct S3 as [-> L3]. rewrite lenN_app.
  destruct (splitN r3 4) as [[t' r4]|] eqn:S4.
  2:{ intros HH. injection HH as <-. apply splitN_None in S4. split; [reflexivity|lia]. }
  apply splitN_Some in S4. destruct S4 as [-> L4]. rewrite lenN_app.
  destruct (splitN r4 4) as [[bi' r5]|] eqn:S5.
  2:{ intros HH. injection HH as <-. apply splitN_None in S5. split; [reflexivity|lia]. }
  apply splitN_Some in S5. destruct S5 as [-> L5]. rewrite lenN_app.
  destruct (splitN r5 4) as [[nc' r6]|] eqn:S6.
  2:{ intros HH. injection HH as <-. apply splitN_None in S6. split; [reflexivity|lia]. }
  discriminate.
Qed.

Definition ev_of_header (p : N) (v t nc : list byte) : event :=
  EHeader (p, 80) (i32_of_n (le_dec v)) (p + 4, 32) (p + 36, 32) (le_dec t) (le_dec nc).
Definition a_of_header (v pv mk t bi nc : list byte) : a_header :=
  {| ah_version := i32_of_n (le_dec v); ah_prev := pv; ah_merkle := mk;
     ah_time := le_dec t; ah_bits := le_dec bi; ah_nonce := le_dec nc |}.
Definition mk_header (p : N) (v pv mk t bi nc : list byte) : header :=
  {| h_slice := sl p (v ++ pv ++ mk ++ t ++ bi ++ nc); h_version := i32_of_n (le_dec v);
     h_time := le_dec t; h_bits := le_dec bi; h_nonce := le_dec nc |}.

Lemma r_header_l brk p b h :
  r_header brk (st0 p b h) =
  match l_header b with
  | LOk (v, pv, mk, t, bi, nc) r =>
      let ev := ev_of_header p v t nc in
      if brk h ev then Fail VisitBreak (ev :: h)
      else Done (a_of_header v pv mk t bi nc) (st0 (p + 80) r (ev :: h))
  | LErr e => Fail e h
  end.
Proof.
  unfold r_header, l_header, r_u, bind, get_pos, take, ret, st0. cbn [pos inp hi].
  destruct (splitN b 4) as [[v r1]|]; [|reflexivity]. cbn [pos inp hi].
  destruct (splitN r1 32) as [[pv r2]|]; [|reflexivity]. cbn [pos inp hi].
  destruct (splitN r2 32) as [[mk r3]|]; [|reflexivity]. cbn [pos inp hi].
  destruct (splitN r3 4) as [[t r4]|]; [|reflexivity]. cbn [pos inp hi].
  destruct (splitN r4 4) as [[bi r5]|]; [|reflexivity]. cbn [pos inp hi].
  destruct (splitN r5 4) as [[nc r6]|]; [|reflexivity]. cbn [pos inp hi].
  unfold emitp. cbn [breakable andb hi pos inp]. cbn zeta. unfold ev_of_header.
  destruct (brk h _); [reflexivity|].
  unfold a_of_header. replace (p + 4 + 32 + 32 + 4 + 4 + 4) with (p + 80) by lia. reflexivity.
Qed.

Lemma visit_header_l brk p b h :
  visit_header brk (sl p b) h =
  match l_header b with
  | LOk (v, pv, mk, t, bi, nc) r =>
      let ev := ev_of_header p v t nc in
      if brk h ev then (Err VisitBreak, ev :: h)
      else (Ok {| remaining := sl (p + 80) r; parsed := mk_header p v pv mk t bi nc |}, ev :: h)
  | LErr e => (Err e, h)
  end.
Proof.
  unfold visit_header. rewrite s_len_lt_spec. unfold s_len. cbn [bytes sl].
  destruct (l_header b) as [[[[[[v pv] mk] t] bi] nc] r|e] eqn:L.
  2:{ destruct (l_header_short _ _ L) as [-> Hs]. destruct (N.ltb_spec (lenN b) 80); [reflexivity|lia]. }
  destruct (l_header_ok _ _ _ _ _ _ _ _ L) as [Hb [Lv [Lpv [Lmk [Lt [Lbi Lnc]]]]]].
  assert (Hlen : lenN b = 80 + lenN r). { rewrite Hb, !lenN_app. lia. }
  destruct (N.ltb_spec (lenN b) 80); [lia|].
  (* the four field reads *)
  assert (R1 : s_range (sl p b) 0 4 = Ok (sl p v)).
  { rewrite Hb, <- app_assoc. pose proof (s_range_mid p [] v ((pv ++ mk ++ t ++ bi ++ nc) ++ r)) as G.
    cbn [app] in G. change (lenN (@nil byte)) with 0 in G. rewrite Lv, N.add_0_r in G. exact G. }
  assert (R2 : s_range (sl p b) 68 72 = Ok (sl (p + 68) t)).
  { rewrite Hb. pose proof (s_range_mid p (v ++ pv ++ mk) t ((bi ++ nc) ++ r)) as G.
    rewrite !lenN_app, Lv, Lpv, Lmk, Lt in G. change (4 + (32 + 32)) with 68 in G. change (68 + 4) with 72 in G.
    rewrite <- G. f_equal. f_equal. rewrite <- !app_assoc. reflexivity. }
  assert (R3 : s_range (sl p b) 72 76 = Ok (sl (p + 72) bi)).
  { rewrite Hb. pose proof (s_range_mid p (v ++ pv ++ mk ++ t) bi (nc ++ r)) as G.
    rewrite !lenN_app, Lv, Lpv, Lmk, Lt, Lbi in G. change (4 + (32 + (32 + 4))) with 72 in G. change (72 + 4) with 76 in G.
    rewrite <- G. f_equal. f_equal. rewrite <- !app_assoc. reflexivity. }
  assert (R4 : s_range (sl p b) 76 80 = Ok (sl (p + 76) nc)).
  { rewrite Hb. pose proof (s_range_mid p (v ++ pv ++ mk ++ t ++ bi) nc r) as G.
    rewrite !lenN_app, Lv, Lpv, Lmk, Lt, Lbi, Lnc in G. change (4 + (32 + (32 + (4 + 4)))) with 76 in G. change (76 + 4) with 80 in G.
    rewrite <- G. f_equal. f_equal. rewrite <- !app_assoc. reflexivity. }
  unfold mbind at 1. unfold lift at 1. rewrite R1.
  unfold mbind at 1. unfold lift at 1. unfold read_i32. rewrite (read_le_exact 4 p v Lv). cbn [obind expect].
  unfold mbind at 1. unfold lift at 1. rewrite R2.
  unfold mbind at 1. unfold lift at 1. unfold read_u32. rewrite (read_le_exact 4 _ t Lt). cbn [expect].
  unfold mbind at 1. unfold lift at 1. rewrite R3.
  unfold mbind at 1. unfold lift at 1. rewrite (read_le_exact 4 _ bi Lbi). cbn [expect].
  unfold mbind at 1. unfold lift at 1. rewrite R4.
  unfold mbind at 1. unfold lift at 1. rewrite (read_le_exact 4 _ nc Lnc). cbn [expect].
  set (hb := v ++ pv ++ mk ++ t ++ bi ++ nc) in *.
  assert (Lhb : lenN hb = 80). { unfold hb. rewrite !lenN_app. lia. }
  unfold mbind at 1. unfold lift at 1. rewrite Hb. rewrite <- Lhb. unfold sl at 1. rewrite s_to_app. fold (sl p hb).
  (* the event: prev_blockhash and merkle_root *)
  unfold mbind at 1. unfold lift at 1. unfold header_event, header_prev_blockhash, header_merkle_root. cbn [h_slice h_version h_time h_nonce].
  assert (P1 : s_range (sl p hb) 4 36 = Ok (sl (p + 4) pv)).
  { unfold hb. pose proof (s_range_mid p v pv (mk ++ t ++ bi ++ nc)) as G. rewrite Lv, Lpv in G. exact G. }
  assert (P2 : s_range (sl p hb) 36 68 = Ok (sl (p + 36) mk)).
  { unfold hb. pose proof (s_range_mid p (v ++ pv) mk (t ++ bi ++ nc)) as G. rewrite !lenN_app, Lv, Lpv, Lmk in G.
    change (4 + 32) with 36 in G. change (36 + 32) with 68 in G. rewrite <- G. f_equal. f_equal. rewrite <- !app_assoc. reflexivity. }
  rewrite P1, P2. cbn [obind]. unfold win, s_len, sl. cbn [off bytes]. rewrite Lhb, Lpv, Lmk.
  unfold mbind at 1. unfold emit at 1. cbn [breakable andb]. cbn zeta. unfold ev_of_header.
  destruct (brk h _); [reflexivity|].
  unfold mbind at 1. unfold lift at 1. rewrite <- Lhb at 1. rewrite s_from_app.
  unfold mret, mk_header. fold hb. rewrite Lhb. reflexivity.
Qed.
