(* Proofs/Entries.v — the twelve parse/visit entry points as instances of
   [Transfer.entry]: each packages the refinement Impl = embed(Ref) with the
   metatheory of its reference decoder.  The existence of these definitions is
   the statement that every entry point is covered by the generic theorems. *)
From BS Require Import Impl.Visit Ref.Grammar Ref.MetaDefs Ref.Meta1 Ref.Meta2 Proofs.SliceLemmas Proofs.CsDec
  Proofs.ImplRefLeaf Proofs.ImplRefLists Proofs.ImplRefWitness Proofs.ImplRefTx Proofs.ImplRefBlock Proofs.Transfer.
From Coq Require Import ZifyN ZifyNat ZifyBool.
Open Scope N_scope.

Lemma In63_prefix b x : In63 (b ++ x) -> In63 b.
Proof. unfold In63. rewrite lenN_app. lia. Qed.
Lemma InLen_prefix b x : InLen (b ++ x) -> InLen b.
Proof. unfold InLen. rewrite lenN_app. lia. Qed.

Lemma BreakLaw_of {A} (p : P A) : Breaks p -> NoStuck p -> BreakLaw p.
Proof. intros HB HN brk s. apply HB. apply HN. Qed.

Lemma Bounded01 {A} (p : P A) : Bounded 0 p -> Bounded 1 p.
Proof. apply Bounded_weaken. lia. Qed.

(* ---------------- visit types ---------------- *)
Definition mk_txins (v : slice) (a : list a_txin) (_ : hist) : txins := {| tis_slice := v; tis_n := lenN a |}.
Definition mk_txouts (v : slice) (a : list a_txout) (_ : hist) : txouts := {| tos_slice := v; tos_n := lenN a |}.
Definition mk_witness (v : slice) (a : a_witness) (_ : hist) : witness := {| w_slice := v |}.
Definition mk_witnesses (v : slice) (a : list a_witness) (_ : hist) : witnesses :=
  {| ws_slice := v; ws_all_empty := forallb list_empty a |}.
Definition mk_tx (v : slice) (a : a_tx) (hh : hist) : transaction := {| tx_slice := v; tx_io_len := io_of_hist hh |}.
Definition mk_hdr (v : slice) (a : a_header) (_ : hist) : header :=
  {| h_slice := v; h_version := ah_version a; h_time := ah_time a; h_bits := ah_bits a; h_nonce := ah_nonce a |}.
Definition mk_block (v : slice) (a : a_block) (_ : hist) : block :=
  {| b_slice := v;
     b_header := {| h_slice := sl (off v) (firstn 80 (bytes v));
                    h_version := ah_version (ab_header a); h_time := ah_time (ab_header a);
                    h_bits := ah_bits (ab_header a); h_nonce := ah_nonce (ab_header a) |};
     b_total := lenN (ab_txs a) |}.

Lemma ref_txins brk p b h : In63 b -> visit_txins brk (sl p b) h = embedG mk_txins p b (r_txins brk (st0 p b h)).
Proof.
  intros HD. destruct (visit_txins_ref brk p b h HD) as [_ [_ E]]. rewrite E.
  destruct (r_txins brk (st0 p b h)); reflexivity.
Qed.
Lemma ref_txouts brk p b h : In63 b -> visit_txouts brk (sl p b) h = embedG mk_txouts p b (r_txouts brk (st0 p b h)).
Proof.
  intros HD. destruct (visit_txouts_ref brk p b h HD) as [_ [_ E]]. rewrite E.
  destruct (r_txouts brk (st0 p b h)); reflexivity.
Qed.
Lemma ref_witness brk p b h : In63 b -> visit_witness brk (sl p b) h = embedG mk_witness p b (r_witness brk (st0 p b h)).
Proof.
  intros HD. destruct (visit_witness_ref brk p b h HD) as [_ [_ E]]. rewrite E.
  destruct (r_witness brk (st0 p b h)); reflexivity.
Qed.
Lemma ref_witnesses n brk p b h : In63 b ->
  visit_witnesses brk (sl p b) n h = embedG mk_witnesses p b (r_witnesses n brk (st0 p b h)).
Proof.
  intros HD. destruct (visit_witnesses_ref brk p b n h HD) as [_ [_ E]]. rewrite E.
  destruct (r_witnesses n brk (st0 p b h)); reflexivity.
Qed.
Lemma ref_tx brk p b h : InLen b -> visit_transaction brk (sl p b) h = embedG mk_tx p b (r_tx brk (st0 p b h)).
Proof.
  intros HD. rewrite (visit_transaction_ref brk p b h HD). destruct (r_tx brk (st0 p b h)); reflexivity.
Qed.
Lemma ref_block brk p b h : InLen b -> visit_block brk (sl p b) h = embedG mk_block p b (r_block brk (st0 p b h)).
Proof.
  intros HD. destruct (visit_block_ref brk p b h HD) as [_ E]. rewrite E.
  destruct (r_block brk (st0 p b h)); reflexivity.
Qed.
Lemma ref_header brk p b h : In63 b -> visit_header brk (sl p b) h = embedG mk_hdr p b (r_header brk (st0 p b h)).
Proof.
  intros _. rewrite visit_header_l, r_header_l.
  destruct (l_header b) as [[[[[[v pv] mk] t] bi] nc] r|e] eqn:L; [|reflexivity].
  destruct (l_header_ok _ _ _ _ _ _ _ _ L) as [Hb [Lv [Lpv [Lmk [Lt [Lbi Lnc]]]]]].
  cbn zeta. destruct (brk h _); [reflexivity|]. cbn [embedG pos inp hi st0].
  set (hb := v ++ pv ++ mk ++ t ++ bi ++ nc) in *.
  assert (Lhb : lenN hb = 80). { unfold hb. rewrite !lenN_app. lia. }
  assert (Hv : forall hh, view p b {| pos := p + 80; inp := r; hi := hh |} = sl p hb).
  { intros hh. rewrite Hb. apply (view_app p hb {| pos := p + 80; inp := r; hi := hh |}). cbn [pos]. lia. }
  unfold st0. rewrite Hv. reflexivity.
Qed.

Definition E_txins : entry :=
  {| e_D := In63; e_D_prefix := In63_prefix; e_visit := visit_txins; e_r := r_txins; e_mk := mk_txins; e_sl := tis_slice;
     e_sl_mk := fun _ _ _ => eq_refl; e_ref := ref_txins; e_good := r_txins_Good; e_breaks := r_txins_BreakLaw;
     e_ext := r_txins_OracleExt; e_nsb := r_txins_NSB; e_bound := Bounded01 _ r_txins_Bounded |}.
Definition E_txouts : entry :=
  {| e_D := In63; e_D_prefix := In63_prefix; e_visit := visit_txouts; e_r := r_txouts; e_mk := mk_txouts; e_sl := tos_slice;
     e_sl_mk := fun _ _ _ => eq_refl; e_ref := ref_txouts; e_good := r_txouts_Good; e_breaks := r_txouts_BreakLaw;
     e_ext := r_txouts_OracleExt; e_nsb := r_txouts_NSB; e_bound := Bounded01 _ r_txouts_Bounded |}.
Definition E_witness : entry :=
  {| e_D := In63; e_D_prefix := In63_prefix; e_visit := visit_witness; e_r := r_witness; e_mk := mk_witness; e_sl := w_slice;
     e_sl_mk := fun _ _ _ => eq_refl; e_ref := ref_witness; e_good := r_witness_Good; e_breaks := r_witness_BreakLaw;
     e_ext := r_witness_OracleExt; e_nsb := r_witness_NSB; e_bound := Bounded01 _ r_witness_Bounded |}.
Definition E_witnesses (n : N) : entry :=
  {| e_D := In63; e_D_prefix := In63_prefix; e_visit := fun brk s => visit_witnesses brk s n; e_r := r_witnesses n;
     e_mk := mk_witnesses; e_sl := ws_slice;
     e_sl_mk := fun _ _ _ => eq_refl; e_ref := ref_witnesses n; e_good := r_witnesses_Good n; e_breaks := r_witnesses_BreakLaw n;
     e_ext := r_witnesses_OracleExt n; e_nsb := r_witnesses_NSB n; e_bound := r_witnesses_Bounded n |}.
Definition E_transaction : entry :=
  {| e_D := InLen; e_D_prefix := InLen_prefix; e_visit := visit_transaction; e_r := r_tx; e_mk := mk_tx; e_sl := tx_slice;
     e_sl_mk := fun _ _ _ => eq_refl; e_ref := ref_tx; e_good := r_tx_Good; e_breaks := r_tx_BreakLaw;
     e_ext := r_tx_OracleExt; e_nsb := r_tx_NSB; e_bound := Bounded01 _ r_tx_Bounded |}.
Definition E_header : entry :=
  {| e_D := In63; e_D_prefix := In63_prefix; e_visit := visit_header; e_r := r_header; e_mk := mk_hdr; e_sl := h_slice;
     e_sl_mk := fun _ _ _ => eq_refl; e_ref := ref_header; e_good := r_header_Good; e_breaks := r_header_BreakLaw;
     e_ext := r_header_OracleExt; e_nsb := r_header_NSB; e_bound := Bounded01 _ r_header_Bounded |}.
Definition E_block : entry :=
  {| e_D := InLen; e_D_prefix := InLen_prefix; e_visit := visit_block; e_r := r_block; e_mk := mk_block; e_sl := b_slice;
     e_sl_mk := fun _ _ _ => eq_refl; e_ref := ref_block; e_good := r_block_Good; e_breaks := r_block_BreakLaw;
     e_ext := r_block_OracleExt; e_nsb := r_block_NSB; e_bound := Bounded01 _ r_block_Bounded |}.

(* ---------------- Parse-only types (the visitor is never called) ---------------- *)
Definition mk_script (v : slice) (a : N * list byte) (_ : hist) : script :=
  {| sc_slice := v; sc_from := s_len v - lenN (snd a) |}.
Definition mk_outpoint (v : slice) (a : list byte * N) (_ : hist) : outpoint := {| op_slice := v |}.

Lemma ref_script brk p b h : In63 b ->
  lift (parse_script (sl p b)) h = embedG mk_script p b (r_script_pos brk (st0 p b h)).
Proof.
  intros HD. unfold lift. rewrite (parse_script_l p b HD), r_script_pos_l.
  destruct (l_script b) as [[cb d] r|e] eqn:L; [|reflexivity].
  destruct (l_script_ok _ _ _ _ L) as [Hb _].
  cbn [embedG pos inp hi st0]. unfold st0.
  assert (Hv : view p b {| pos := p + lenN cb + lenN d; inp := r; hi := h |} = sl p (cb ++ d)).
  { rewrite Hb, app_assoc. apply (view_app p (cb ++ d) {| pos := p + lenN cb + lenN d; inp := r; hi := h |}).
    cbn [pos]. rewrite lenN_app. lia. }
  rewrite Hv. unfold mk_script. cbn [snd]. unfold s_len, sl. cbn [bytes]. rewrite lenN_app.
  replace (lenN cb + lenN d - lenN d) with (lenN cb) by lia. reflexivity.
Qed.

Lemma ref_outpoint brk p b h : In63 b ->
  lift (parse_outpoint (sl p b)) h = embedG mk_outpoint p b (r_outpoint brk (st0 p b h)).
Proof.
  intros HD. unfold lift. rewrite parse_outpoint_spec, r_outpoint_spec, splitN_36.
  destruct (splitN b 32) as [[t r1]|] eqn:S1; [|reflexivity].
  destruct (splitN r1 4) as [[v r2]|] eqn:S2; [|reflexivity].
  apply splitN_Some in S1, S2. destruct S1 as [Hb Lt], S2 as [Hr Lv].
  cbn [embedG pos inp hi st0]. unfold st0.
  assert (Hv : view p b {| pos := p + 36; inp := r2; hi := h |} = sl p (t ++ v)).
  { rewrite Hb, Hr, app_assoc. apply (view_app p (t ++ v) {| pos := p + 36; inp := r2; hi := h |}).
    cbn [pos]. rewrite lenN_app. lia. }
  rewrite Hv. reflexivity.
Qed.

Definition E_script : entry :=
  {| e_D := In63; e_D_prefix := In63_prefix; e_visit := fun _ s => lift (parse_script s); e_r := r_script_pos;
     e_mk := mk_script; e_sl := sc_slice;
     e_sl_mk := fun _ _ _ => eq_refl; e_ref := ref_script; e_good := r_script_pos_Good;
     e_breaks := BreakLaw_of _ r_script_pos_Breaks r_script_pos_NoStuck;
     e_ext := r_script_pos_OracleExt; e_nsb := r_script_pos_NSB; e_bound := Bounded01 _ r_script_pos_Bounded |}.
Definition E_outpoint : entry :=
  {| e_D := In63; e_D_prefix := In63_prefix; e_visit := fun _ s => lift (parse_outpoint s); e_r := r_outpoint;
     e_mk := mk_outpoint; e_sl := op_slice;
     e_sl_mk := fun _ _ _ => eq_refl; e_ref := ref_outpoint; e_good := r_outpoint_Good;
     e_breaks := BreakLaw_of _ r_outpoint_Breaks r_outpoint_NoStuck;
     e_ext := r_outpoint_OracleExt; e_nsb := r_outpoint_NSB; e_bound := Bounded01 _ r_outpoint_Bounded |}.

(* txin / txout: the parsed object is rebuilt from the view and the abstract syntax *)
Definition mk_txin' (v : slice) (ae : a_txin * event) (_ : hist) : txin :=
  let bs := bytes v in
  {| ti_slice := v;
     ti_prevout := {| op_slice := sl (off v) (firstn 36 bs) |};
     ti_script_sig := {| sc_slice := sl (off v + 36) (firstn (length bs - 40) (skipn 36 bs));
                         sc_from := lenN bs - 40 - lenN (ai_sig (fst ae)) |};
     ti_sequence := ai_seq (fst ae) |}.
Definition mk_txout' (v : slice) (ae : a_txout * event) (_ : hist) : txout :=
  let bs := bytes v in
  {| to_slice := v; to_value := ao_value (fst ae);
     to_spk := {| sc_slice := sl (off v + 8) (skipn 8 bs); sc_from := lenN bs - 8 - lenN (ao_spk (fst ae)) |} |}.

Lemma firstn_app_exact {A} (a b : list A) n : length a = n -> firstn n (a ++ b) = a.
Proof. intros <-. rewrite firstn_app, Nat.sub_diag, firstn_all. cbn. apply app_nil_r. Qed.
Lemma skipn_app_exact {A} (a b : list A) n : length a = n -> skipn n (a ++ b) = b.
Proof. intros <-. rewrite skipn_app, Nat.sub_diag, skipn_all. reflexivity. Qed.
Lemma len_nat {A} (l : list A) n : lenN l = N.of_nat n -> length l = n.
Proof. unfold lenN. lia. Qed.

Lemma mk_txin_eq p t v cb sg q hh ev : lenN t = 32 -> lenN v = 4 -> lenN q = 4 ->
  mk_txin p t v cb sg q = mk_txin' (sl p (t ++ v ++ cb ++ sg ++ q)) (a_of_txin t v sg q, ev) hh.
Proof.
  intros Lt Lv Lq.
  assert (Nt : length t = 32%nat) by (unfold lenN in Lt; lia).
  assert (Nv : length v = 4%nat) by (unfold lenN in Lv; lia).
  assert (Nq : length q = 4%nat) by (unfold lenN in Lq; lia).
  unfold mk_txin, mk_txin', a_of_txin. cbn [bytes off sl fst ai_sig ai_seq].
  f_equal.
  - f_equal. f_equal. replace (t ++ v ++ cb ++ sg ++ q) with ((t ++ v) ++ cb ++ sg ++ q) by (rewrite <- app_assoc; reflexivity).
    symmetry. apply firstn_app_exact. rewrite app_length. lia.
  - replace (t ++ v ++ cb ++ sg ++ q) with ((t ++ v) ++ (cb ++ sg) ++ q) by (rewrite <- !app_assoc; reflexivity).
    rewrite (skipn_app_exact (t ++ v)) by (rewrite app_length; lia).
    f_equal.
    + f_equal. symmetry. apply firstn_app_exact. rewrite !app_length. lia.
    + rewrite !lenN_app. lia.
Qed.

Lemma mk_txout_eq p v cb spk hh ev : lenN v = 8 ->
  mk_txout p v cb spk = mk_txout' (sl p (v ++ cb ++ spk)) (a_of_txout v spk, ev) hh.
Proof.
  intros Lv. assert (Nv : length v = 8%nat) by (unfold lenN in Lv; lia).
  unfold mk_txout, mk_txout', a_of_txout. cbn [bytes off sl fst ao_value ao_spk].
  f_equal. rewrite (skipn_app_exact v) by lia.
  f_equal. rewrite !lenN_app. lia.
Qed.

Lemma ref_txin i brk p b h : In63 b ->
  lift (parse_txin (sl p b)) h = embedG mk_txin' p b (r_txin_ev i brk (st0 p b h)).
Proof.
  intros HD. unfold lift. rewrite (parse_txin_l p b HD), r_txin_ev_l.
  destruct (l_txin b) as [[[[[t v] cb] sg] q] r|e] eqn:L; [|reflexivity].
  destruct (l_txin_ok _ _ _ _ _ _ _ L) as [Hb [Lt [Lv [Hc Lq]]]].
  cbn [embedG pos inp hi st0]. unfold st0.
  assert (Hv : view p b {| pos := p + txin_len cb sg; inp := r; hi := h |} = sl p (t ++ v ++ cb ++ sg ++ q)).
  { rewrite Hb. apply (view_app p _ {| pos := p + txin_len cb sg; inp := r; hi := h |}).
    cbn [pos]. unfold txin_len. rewrite !lenN_app. lia. }
  rewrite Hv. rewrite <- (mk_txin_eq p t v cb sg q h _ Lt Lv Lq). reflexivity.
Qed.

Lemma ref_txout i brk p b h : In63 b ->
  lift (parse_txout (sl p b)) h = embedG mk_txout' p b (r_txout_ev i brk (st0 p b h)).
Proof.
  intros HD. unfold lift. rewrite (parse_txout_l p b HD), r_txout_ev_l.
  destruct (l_txout b) as [[[v cb] spk] r|e] eqn:L; [|reflexivity].
  destruct (l_txout_ok _ _ _ _ _ L) as [Hb [Lv Hc]].
  cbn [embedG pos inp hi st0]. unfold st0.
  assert (Hv : view p b {| pos := p + txout_len cb spk; inp := r; hi := h |} = sl p (v ++ cb ++ spk)).
  { rewrite Hb. apply (view_app p _ {| pos := p + txout_len cb spk; inp := r; hi := h |}).
    cbn [pos]. unfold txout_len. rewrite !lenN_app. lia. }
  rewrite Hv. rewrite <- (mk_txout_eq p v cb spk h _ Lv). reflexivity.
Qed.

Definition E_txin : entry :=
  {| e_D := In63; e_D_prefix := In63_prefix; e_visit := fun _ s => lift (parse_txin s); e_r := r_txin_ev 0;
     e_mk := mk_txin'; e_sl := ti_slice;
     e_sl_mk := fun _ _ _ => eq_refl; e_ref := ref_txin 0; e_good := r_txin_ev_Good 0;
     e_breaks := BreakLaw_of _ (r_txin_ev_Breaks 0) (r_txin_ev_NoStuck 0);
     e_ext := r_txin_ev_OracleExt 0; e_nsb := r_txin_ev_NSB 0; e_bound := Bounded01 _ (r_txin_ev_Bounded 0) |}.
Definition E_txout : entry :=
  {| e_D := In63; e_D_prefix := In63_prefix; e_visit := fun _ s => lift (parse_txout s); e_r := r_txout_ev 0;
     e_mk := mk_txout'; e_sl := to_slice;
     e_sl_mk := fun _ _ _ => eq_refl; e_ref := ref_txout 0; e_good := r_txout_ev_Good 0;
     e_breaks := BreakLaw_of _ (r_txout_ev_Breaks 0) (r_txout_ev_NoStuck 0);
     e_ext := r_txout_ev_OracleExt 0; e_nsb := r_txout_ev_NSB 0; e_bound := Bounded01 _ (r_txout_ev_Bounded 0) |}.

(* every bsl entry point *)
Inductive covered : entry -> Prop :=
| cov_script : covered E_script | cov_outpoint : covered E_outpoint | cov_txin : covered E_txin | cov_txout : covered E_txout
| cov_txins : covered E_txins | cov_txouts : covered E_txouts | cov_witness : covered E_witness
| cov_witnesses : forall n, covered (E_witnesses n)
| cov_transaction : covered E_transaction | cov_header : covered E_header | cov_block : covered E_block.
