(* Proofs/Interop.v — conversions to rust-bitcoin shaped values and the FindTransaction visitor (C19). *)
From BS Require Import Impl.Visit Impl.Access Ref.Grammar Ref.MetaDefs Proofs.SliceLemmas Proofs.Numbers Proofs.CsDec
  Proofs.ImplRefLeaf Proofs.Transfer Proofs.Entries Proofs.SpecLemmas Proofs.RefSpec Proofs.SpecTransfer Proofs.ObjSpec.
From Coq Require Import ZifyN ZifyNat ZifyBool.
Open Scope N_scope.

(* Into<bitcoin::TxOut>: amount and script bytes without their length prefix *)
Theorem to_rb_txout_spec p b pr : In63 b -> parse_txout (sl p b) = Ok pr ->
  exists a, wf_txout a /\ b = enc_txout a ++ bytes (remaining pr) /\ bytes (to_slice (parsed pr)) = enc_txout a /\
            to_rb_txout (parsed pr) = Ok (ao_value a, ao_spk a).
Proof.
  intros HD HP. destruct (txout_parsed_is_spec 0 p b pr HD HP) as [a [Hwf [Hb [Hs [_ [Hv Hk]]]]]].
  exists a. split; [exact Hwf|split; [exact Hb|split]].
  - rewrite Hs. reflexivity.
  - unfold to_rb_txout. rewrite Hk. cbn [obind bytes sl]. rewrite Hv. reflexivity.
Qed.

(* Into<bitcoin::OutPoint>: the 32 id bytes and the little-endian index *)
Theorem to_rb_outpoint_spec p b pr : In63 b -> parse_outpoint (sl p b) = Ok pr ->
  exists t v, b = (t ++ v) ++ bytes (remaining pr) /\ lenN t = 32 /\ lenN v = 4 /\
              op_slice (parsed pr) = sl p (t ++ v) /\ to_rb_outpoint (parsed pr) = Ok (t, le_dec v).
Proof.
  intros _. rewrite parse_outpoint_spec, splitN_36.
  destruct (splitN b 32) as [[t r1]|] eqn:S1; [|discriminate].
  destruct (splitN r1 4) as [[v r2]|] eqn:S2; [|discriminate].
  apply splitN_Some in S1, S2. destruct S1 as [Hb Lt], S2 as [Hr Lv].
  intros HH. injection HH as <-. cbn [parsed remaining bytes sl].
  exists t, v. split; [rewrite Hb, Hr, app_assoc; reflexivity|split; [exact Lt|split; [exact Lv|split; [reflexivity|]]]].
  unfold to_rb_outpoint. destruct (outpoint_acc p t v Lt Lv) as [A1 A2]. rewrite A1, A2. cbn [obind].
  unfold s_len, sl. cbn [bytes]. rewrite Lt. reflexivity.
Qed.

(* FindTransaction: a visitor that answers Break exactly on the transaction callbacks [m] selects
   (in the crate: those whose double hash of the preimage equals the wanted id) *)
Definition brk_find (m : event -> bool) : oracle :=
  fun _ e => match e with ETransaction _ _ _ _ _ _ _ => m e | _ => false end.

Definition is_tx (e : event) : bool := match e with ETransaction _ _ _ _ _ _ _ => true | _ => false end.

(* the callbacks up to and including the first transaction selected by m *)
Fixpoint upto_first (m : event -> bool) (d : list event) : option (list event) :=
  match d with
  | [] => None
  | e :: t => if is_tx e && m e then Some [e]
              else match upto_first m t with Some l => Some (e :: l) | None => None end
  end.

Lemma cut_find m h d :
  cut (brk_find m) h d = match upto_first m d with Some l => Some (rev l ++ h) | None => None end.
Proof.
  revert h; induction d as [|e t IH]; intros h; cbn [cut upto_first]; [reflexivity|].
  assert (E : breakable e && brk_find m h e = is_tx e && m e).
  { destruct e; cbn; reflexivity. }
  rewrite E. destruct (is_tx e && m e); [reflexivity|].
  rewrite IH. destruct (upto_first m t) as [l|]; [|reflexivity].
  cbn [rev]. rewrite <- app_assoc. reflexivity.
Qed.

Lemma upto_first_spec m d l : upto_first m d = Some l ->
  exists pre e, l = pre ++ [e] /\ is_tx e = true /\ m e = true /\
                (forall x, In x pre -> is_tx x && m x = false) /\ exists post, d = l ++ post.
Proof.
  revert l; induction d as [|e t IH]; intros l; cbn [upto_first]; [discriminate|].
  destruct (is_tx e && m e) eqn:E.
  - intros HH. injection HH as <-. apply andb_prop in E. destruct E as [E1 E2].
    exists [], e. repeat split; try assumption. { intros x []. } exists t. reflexivity.
  - destruct (upto_first m t) as [l'|] eqn:U; [|discriminate]. intros HH. injection HH as <-.
    destruct (IH l' eq_refl) as [pre [e' [Hl [A [B [C [post Hd]]]]]]].
    exists (e :: pre), e'. repeat split; try assumption.
    + rewrite Hl. reflexivity.
    + intros x [<-|Hx]; [exact E|exact (C x Hx)].
    + exists post. rewrite Hd. reflexivity.
Qed.

Lemma upto_first_none m d : upto_first m d = None -> forall x, In x d -> is_tx x && m x = false.
Proof.
  induction d as [|e t IH]; cbn [upto_first]; [intros _ x []|].
  destruct (is_tx e && m e) eqn:E; [discriminate|].
  destruct (upto_first m t) eqn:U; [discriminate|]. intros _ x [<-|Hx]; [exact E|exact (IH eq_refl x Hx)].
Qed.
