(* Proofs/CacheRing.v — part C: ring layout, contents and space
   (C06, C12, C13) for histories in which no zero-length value was stored. *)
From BS Require Import Spec.CacheSpec Proofs.CacheWF Proofs.CacheFifo.
From Coq Require Import Lia ZifyN ZifyNat ZifyBool.
Open Scope N_scope.

(* ------------------------------------------------------------------ *)
(* sizes / maxsize / latest                                            *)
(* ------------------------------------------------------------------ *)

Lemma sizes_nil : sizes [] = 0.
Proof. reflexivity. Qed.
Lemma sizes_cons kv (l : list ins) : sizes (kv :: l) = lenN (snd kv) + sizes l.
Proof. reflexivity. Qed.
Lemma sizes_app (l1 l2 : list ins) : sizes (l1 ++ l2) = sizes l1 + sizes l2.
Proof.
  induction l1 as [|kv l1 IH]; cbn [app]; [rewrite sizes_nil; lia|].
  rewrite !sizes_cons, IH. lia.
Qed.
Lemma sizes_one kv : sizes [kv] = lenN (snd kv).
Proof. rewrite sizes_cons, sizes_nil. lia. Qed.

Lemma maxsize_nil : maxsize [] = 0.
Proof. reflexivity. Qed.
Lemma maxsize_cons kv (l : list ins) : maxsize (kv :: l) = N.max (lenN (snd kv)) (maxsize l).
Proof. reflexivity. Qed.
Lemma maxsize_app (l1 l2 : list ins) : maxsize (l1 ++ l2) = N.max (maxsize l1) (maxsize l2).
Proof.
  induction l1 as [|kv l1 IH]; cbn [app]; [rewrite maxsize_nil; lia|].
  rewrite !maxsize_cons, IH. lia.
Qed.
Lemma maxsize_one kv : maxsize [kv] = lenN (snd kv).
Proof. rewrite maxsize_cons, maxsize_nil. lia. Qed.

Lemma latest_None (l : list ins) k : ~ In k (map fst l) -> latest l k = None.
Proof.
  induction l as [|[k' v'] t IH]; cbn [latest map fst In]; intros H; [reflexivity|].
  rewrite IH by (intros Hin; apply H; right; exact Hin).
  destruct (N.eqb_spec k k') as [E|E]; [|reflexivity].
  exfalso. apply H. left. symmetry. exact E.
Qed.

Lemma latest_NoDup_In (l : list ins) k v : NoDup (map fst l) -> In (k, v) l -> latest l k = Some v.
Proof.
  induction l as [|[k' v'] t IH]; cbn [latest map fst In]; intros Hnd Hin; [destruct Hin|].
  inversion Hnd as [|x xs Hnin Hnd']; subst.
  destruct Hin as [E|Hin].
  - injection E as -> ->. rewrite latest_None by exact Hnin. rewrite N.eqb_refl. reflexivity.
  - rewrite IH by assumption. reflexivity.
Qed.

Lemma latest_app (l1 l2 : list ins) k :
  latest (l1 ++ l2) k = match latest l2 k with Some v => Some v | None => latest l1 k end.
Proof.
  induction l1 as [|[k' v'] t IH]; cbn [app latest].
  - destruct (latest l2 k); reflexivity.
  - rewrite IH. destruct (latest l2 k); reflexivity.
Qed.

(* ------------------------------------------------------------------ *)
(* chains: consecutive non-empty entries laid out from [lo]            *)
(* ------------------------------------------------------------------ *)

Fixpoint chain (idx : list (N * range)) (buf : list byte) (lo : N) (s : list ins) : Prop :=
  match s with
  | [] => True
  | kv :: s' =>
      lookup (fst kv) idx = Some {| r_begin := lo; r_end := lo + lenN (snd kv) |} /\
      0 < lenN (snd kv) /\
      slice buf lo (lenN (snd kv)) = snd kv /\
      chain idx buf (lo + lenN (snd kv)) s'
  end.

Lemma chain_app idx buf lo s1 s2 :
  chain idx buf lo (s1 ++ s2) <-> chain idx buf lo s1 /\ chain idx buf (lo + sizes s1) s2.
Proof.
  revert lo. induction s1 as [|kv s1 IH]; intros lo; cbn [app chain].
  - rewrite sizes_nil, N.add_0_r. tauto.
  - rewrite IH, sizes_cons, N.add_assoc. tauto.
Qed.

Lemma chain_pos idx buf lo s : chain idx buf lo s -> s <> [] -> 0 < sizes s.
Proof.
  destruct s as [|kv s]; [intros _ H; contradiction|].
  cbn [chain]. intros (_ & Hp & _) _. rewrite sizes_cons. lia.
Qed.

Lemma chain_In idx buf lo s kv :
  chain idx buf lo s -> In kv s ->
  exists x, lookup (fst kv) idx = Some {| r_begin := x; r_end := x + lenN (snd kv) |} /\
            0 < lenN (snd kv) /\ slice buf x (lenN (snd kv)) = snd kv /\
            lo <= x /\ x + lenN (snd kv) <= lo + sizes s.
Proof.
  revert lo. induction s as [|kv' s IH]; intros lo Hc Hin; [destruct Hin|].
  cbn [chain] in Hc. destruct Hc as (Hl & Hp & Hs & Hc). rewrite sizes_cons.
  destruct Hin as [E|Hin].
  - subst kv'. exists lo. repeat split; try assumption; lia.
  - destruct (IH _ Hc Hin) as (x & Hl' & Hp' & Hs' & H1 & H2).
    exists x. repeat split; try assumption; lia.
Qed.

Lemma chain_ext idx buf idx' buf' lo s :
  (forall k, In k (map fst s) -> lookup k idx' = lookup k idx) ->
  (forall x n, lo <= x -> x + n <= lo + sizes s -> slice buf' x n = slice buf x n) ->
  chain idx buf lo s -> chain idx' buf' lo s.
Proof.
  revert lo. induction s as [|kv s IH]; intros lo Hi Hb Hc; [exact I|].
  cbn [chain] in *. destruct Hc as (Hl & Hp & Hs & Hc). rewrite sizes_cons in Hb.
  split; [rewrite Hi; [exact Hl|left; reflexivity]|]. split; [exact Hp|]. split.
  - rewrite Hb; [exact Hs|lia|lia].
  - apply IH; [intros k Hk; apply Hi; right; exact Hk| |exact Hc].
    intros x n H1 H2. apply Hb; lia.
Qed.

Lemma chain_idx_ext idx idx' buf lo s :
  (forall k, In k (map fst s) -> lookup k idx' = lookup k idx) ->
  chain idx buf lo s -> chain idx' buf lo s.
Proof. intros Hi. apply chain_ext; [exact Hi|reflexivity]. Qed.

(* entries of a chain are pairwise disjoint *)
Lemma chain_disjoint idx buf lo s kv1 kv2 r1 r2 :
  chain idx buf lo s -> In kv1 s -> In kv2 s -> fst kv1 <> fst kv2 ->
  lookup (fst kv1) idx = Some r1 -> lookup (fst kv2) idx = Some r2 ->
  r_end r1 <= r_begin r2 \/ r_end r2 <= r_begin r1.
Proof.
  revert lo. induction s as [|kv s IH]; intros lo Hc H1 H2 Hne Hl1 Hl2; [destruct H1|].
  cbn [chain] in Hc. destruct Hc as (Hl & Hp & Hs & Hc).
  destruct H1 as [E1|H1]; destruct H2 as [E2|H2].
  - subst. contradiction.
  - subst kv. rewrite Hl in Hl1. injection Hl1 as <-.
    destruct (chain_In _ _ _ _ _ Hc H2) as (x & Hl' & _ & _ & Hx & _).
    rewrite Hl' in Hl2. injection Hl2 as <-. cbn [r_begin r_end]. left. exact Hx.
  - subst kv. rewrite Hl in Hl2. injection Hl2 as <-.
    destruct (chain_In _ _ _ _ _ Hc H1) as (x & Hl' & _ & _ & Hx & _).
    rewrite Hl' in Hl1. injection Hl1 as <-. cbn [r_begin r_end]. right. exact Hx.
  - eapply IH; eassumption.
Qed.

(* ------------------------------------------------------------------ *)
(* KEY LEMMA: on a ring layout the eviction walk removes exactly a     *)
(* prefix of the old generation — every entry overlapping the range    *)
(* ------------------------------------------------------------------ *)

Lemma rr_chain r sn buf : forall so idx a,
  NoDup (map fst (so ++ sn)) ->
  chain idx buf a so -> chain idx buf 0 sn ->
  sizes sn <= r_begin r -> (so <> [] -> r_begin r <= a) -> r_begin r < r_end r ->
  exists so1 so2, so = so1 ++ so2 /\
    remove_range idx (map fst (so ++ sn)) r =
      Some (remove_keys (map fst so1) idx, map fst (so2 ++ sn), lenN so1) /\
    (so2 <> [] -> r_end r <= a + sizes so1) /\
    (so1 = [] \/ exists s e, so1 = s ++ [e] /\ a + sizes s < r_end r).
Proof.
  induction so as [|kv so IH]; intros idx a Hnd Hco Hcn Hsn Ha Hr.
  - exists [], []. split; [reflexivity|]. split; [|split; [intros H; contradiction|left; reflexivity]].
    cbn [app map]. destruct sn as [|kv sn']; [reflexivity|].
    cbn [map remove_range]. cbn [chain] in Hcn. destruct Hcn as (Hl & Hp & _).
    rewrite Hl. unfold overlaps. cbn [r_begin r_end].
    rewrite sizes_cons in Hsn.
    destruct (N.ltb_spec (r_begin r) (0 + lenN (snd kv))); [lia|]. reflexivity.
  - cbn [chain] in Hco. destruct Hco as (Hl & Hp & Hs & Hco).
    cbn [app map] in Hnd. inversion Hnd as [|x xs Hnin Hnd']; subst.
    assert (Ha' : r_begin r <= a) by (apply Ha; discriminate).
    destruct (N.ltb_spec a (r_end r)) as [Hov|Hov].
    + (* overlaps: popped *)
      assert (Hext : forall s : list ins, (forall k, In k (map fst s) -> In k (map fst (so ++ sn))) ->
                forall k, In k (map fst s) -> lookup k (remove_key (fst kv) idx) = lookup k idx).
      { intros s Hsub k Hk. apply lookup_remove_key_other. intros E. subst k. apply Hnin. apply Hsub. exact Hk. }
      destruct (IH (remove_key (fst kv) idx) (a + lenN (snd kv)) Hnd') as (so1 & so2 & Hso & Hrr & Hstop & Hlast).
      * eapply chain_idx_ext; [|exact Hco]. apply Hext. intros k Hk. rewrite map_app. apply in_or_app. left. exact Hk.
      * eapply chain_idx_ext; [|exact Hcn]. apply Hext. intros k Hk. rewrite map_app. apply in_or_app. right. exact Hk.
      * exact Hsn.
      * intros _. lia.
      * exact Hr.
      * exists (kv :: so1), so2. split; [cbn [app]; f_equal; exact Hso|]. split; [|split].
        -- cbn [app map remove_range]. rewrite Hl. unfold overlaps. cbn [r_begin r_end].
           destruct (N.ltb_spec (r_begin r) (a + lenN (snd kv))); [|lia].
           destruct (N.ltb_spec a (r_end r)); [|lia]. cbn [andb].
           rewrite Hrr. rewrite remove_keys_cons, lenN_cons. do 2 f_equal. lia.
        -- intros H2. specialize (Hstop H2). rewrite sizes_cons. lia.
        -- right. destruct Hlast as [->|(s & e & -> & Hlt)].
           ++ exists [], kv. split; [reflexivity|]. change (sizes []) with 0. lia.
           ++ exists (kv :: s), e. split; [reflexivity|]. rewrite sizes_cons. lia.
    + (* first old entry does not overlap: stop *)
      exists [], (kv :: so). split; [reflexivity|]. split; [|split].
      * cbn [app map remove_range]. rewrite Hl. unfold overlaps. cbn [r_begin r_end].
        destruct (N.ltb_spec a (r_end r)); [lia|]. rewrite andb_false_r. reflexivity.
      * intros _. change (sizes []) with 0. lia.
      * left. reflexivity.
Qed.

(* ------------------------------------------------------------------ *)
(* the layout invariant of one state                                   *)
(*   queue = old generation [so] (laid out from [a]) ++ new generation *)
(*   [sn] (laid out from 0 up to the write position)                   *)
(* ------------------------------------------------------------------ *)

(* [ins] and [N * list byte] are convertible but not syntactically equal:
   rewrite with a [remove_range] equation up to conversion *)
Ltac rewrite_rr H :=
  match type of H with
  | remove_range _ _ _ = ?rhs =>
      match goal with
      | |- context [remove_range ?i ?q ?r] =>
          replace (remove_range i q r) with rhs by (symmetry; exact H)
      end
  end.

Record Core (c : cache) (so sn : list ins) (a : N) : Prop := {
  co_wf : WF c;
  co_queue : c_queue c = map fst (so ++ sn);
  co_new : chain (c_indexes c) (c_buffer c) 0 sn;
  co_fp : c_fp c = sizes sn;
  co_old : chain (c_indexes c) (c_buffer c) a so;
  co_a : so <> [] -> c_fp c <= a /\ a + sizes so <= cap c /\ c_full c = true }.

Lemma Core_nodup c so sn a : Core c so sn a -> NoDup (map fst (so ++ sn)).
Proof. intros H. rewrite <- (co_queue _ _ _ _ H). apply (co_wf _ _ _ _ H). Qed.

Lemma NoDup_app_notin {A} (p q : list A) k : NoDup (p ++ q) -> In k q -> ~ In k p.
Proof. intros Hnd Hq Hp. exact (NoDup_app_disj _ _ _ Hnd Hp Hq). Qed.

(* the wrap phase, when it wraps: the whole old generation is evicted,
   the new generation becomes the old one *)
Lemma wrap_core c so sn a v :
  Core c so sn a -> lenN v <= cap c -> cap c < lenN v + c_fp c ->
  exists c1, wrap_phase c v = Some (lenN so, c1) /\ Core c1 sn [] 0 /\
    c_full c1 = true /\ cap c1 = cap c /\ c_fp c1 = 0 /\
    c_indexes c1 = remove_keys (map fst so) (c_indexes c).
Proof.
  intros H Hv Hw. pose proof (co_wf _ _ _ _ H) as W.
  pose proof (Core_nodup _ _ _ _ H) as Hnd.
  destruct (wrap_phase_WF c v W Hv) as (n1 & c1 & Hwrap & W1 & Hcap1 & Hbuf1 & Hfit1 & p & Hq & Hn1 & Hidx1).
  assert (Hgoal : wrap_phase c v = Some (lenN so,
            {| c_buffer := c_buffer c; c_fp := 0; c_indexes := remove_keys (map fst so) (c_indexes c);
               c_queue := map fst sn; c_full := true |})).
  { unfold wrap_phase. destruct (N.ltb_spec (cap c) (lenN v + c_fp c)) as [_|]; [|lia].
    unfold from_begin_end. destruct (N.ltb_spec (c_fp c) (cap c)) as [Hfp|Hfp].
    - destruct (rr_chain {| r_begin := c_fp c; r_end := cap c |} sn (c_buffer c) so (c_indexes c) a)
        as (so1 & so2 & Hso & Hrr & Hstop & _); cbn [r_begin r_end]; try assumption.
      + apply H. + apply H. + rewrite (co_fp _ _ _ _ H). lia.
      + intros Hne. apply (co_a _ _ _ _ H Hne).
      + assert (so2 = []) as ->.
        { destruct so2 as [|kv so2]; [reflexivity|exfalso].
          assert (Hne : so <> []) by (rewrite Hso; destruct so1; discriminate).
          destruct (co_a _ _ _ _ H Hne) as (_ & Hb & _).
          assert (Hc2 : chain (c_indexes c) (c_buffer c) (a + sizes so1) (kv :: so2)).
          { pose proof (co_old _ _ _ _ H) as Hc. rewrite Hso in Hc. apply chain_app in Hc. apply Hc. }
          apply chain_pos in Hc2; [|discriminate].
          rewrite Hso, sizes_app in Hb. specialize (Hstop ltac:(discriminate)). cbn [r_end] in Hstop. lia. }
        rewrite app_nil_r in Hso. subst so1. rewrite (co_queue _ _ _ _ H). rewrite_rr Hrr. reflexivity.
    - assert (so = []) as ->.
      { destruct so as [|kv so]; [reflexivity|exfalso].
        destruct (co_a _ _ _ _ H ltac:(discriminate)) as (Ha & Hb & _).
        pose proof (chain_pos _ _ _ _ (co_old _ _ _ _ H) ltac:(discriminate)). lia. }
      cbn [map remove_keys fold_left lenN length]. rewrite (co_queue _ _ _ _ H). reflexivity. }
  rewrite Hgoal in Hwrap. injection Hwrap as <- <-.
  eexists. split; [exact Hgoal|]. split; [|cbn [c_full c_fp c_indexes]; repeat split; exact Hcap1].
  constructor; cbn [c_queue c_indexes c_buffer c_fp c_full].
  - exact W1.
  - rewrite app_nil_r. reflexivity.
  - exact I.
  - reflexivity.
  - eapply chain_idx_ext; [|apply (co_new _ _ _ _ H)].
    intros k Hk. apply lookup_remove_keys_notin.
    apply NoDup_app_notin with (q := map fst sn); [rewrite <- map_app; exact Hnd|exact Hk].
  - intros Hne. split; [lia|]. split; [|reflexivity].
    unfold cap. cbn [c_buffer]. fold (cap c). rewrite <- (co_fp _ _ _ _ H). pose proof (wf_fp c W). lia.
Qed.

(* the write phase: a prefix [so1] of the old generation is evicted, the
   new entry is appended to the new generation *)
Lemma write_core c so sn a k v :
  Core c so sn a -> 0 < lenN v -> lookup k (c_indexes c) = None -> c_fp c + lenN v <= cap c ->
  exists so1 so2 c2, so = so1 ++ so2 /\
    write_phase c k v = Some (lenN so1, c2) /\
    Core c2 so2 (sn ++ [(k, v)]) (a + sizes so1) /\
    c_full c2 = c_full c /\ cap c2 = cap c /\
    (so2 <> [] -> c_fp c + lenN v <= a + sizes so1) /\
    (so1 = [] \/ exists s e, so1 = s ++ [e] /\ a + sizes s < c_fp c + lenN v).
Proof.
  intros H Hp Hk Hfit. pose proof (co_wf _ _ _ _ H) as W.
  pose proof (Core_nodup _ _ _ _ H) as Hnd.
  destruct (write_phase_WF c k v W Hk Hfit)
    as (n2 & c2 & Hwrite & W2 & Hcap2 & Hfp2 & Hfull2 & Hbuf2 & p & q' & Hq & Hn2 & Hq' & Hidx2).
  destruct (rr_chain {| r_begin := c_fp c; r_end := c_fp c + lenN v |} sn (c_buffer c) so (c_indexes c) a)
    as (so1 & so2 & Hso & Hrr & Hstop & Hlast); cbn [r_begin r_end]; try assumption.
  { apply H. } { apply H. } { rewrite (co_fp _ _ _ _ H). lia. }
  { intros Hne. apply (co_a _ _ _ _ H Hne). } { lia. }
  cbn [r_end] in Hstop, Hlast.
  destruct (write_at (c_buffer c) (c_fp c) (c_fp c + lenN v) v) as [buf2|] eqn:Hwa; [|discriminate].
  injection Hbuf2 as Hbuf2.
  assert (Hgoal : write_phase c k v = Some (lenN so1,
            {| c_buffer := buf2; c_fp := c_fp c + lenN v;
               c_indexes := (k, {| r_begin := c_fp c; r_end := c_fp c + lenN v |})
                            :: remove_keys (map fst so1) (c_indexes c);
               c_queue := map fst (so2 ++ sn) ++ [k]; c_full := c_full c |})).
  { unfold write_phase. rewrite Hwa. rewrite (co_queue _ _ _ _ H). rewrite_rr Hrr. reflexivity. }
  rewrite Hgoal in Hwrite. injection Hwrite as <- <-.
  exists so1, so2. eexists. split; [exact Hso|]. split; [exact Hgoal|].
  split; [|split; [reflexivity|]; split; [exact Hcap2|]; split; [exact Hstop|exact Hlast]].
  (* facts about keys *)
  assert (Hknot : ~ In k (map fst (so ++ sn))).
  { rewrite <- (co_queue _ _ _ _ H). intros Hin. apply W in Hin. contradiction. }
  assert (Hnd' : NoDup (map fst so1 ++ map fst (so2 ++ sn))).
  { rewrite <- map_app, app_assoc, <- Hso. exact Hnd. }
  assert (Hlk : forall k', In k' (map fst (so2 ++ sn)) ->
            lookup k' ((k, {| r_begin := c_fp c; r_end := c_fp c + lenN v |})
                       :: remove_keys (map fst so1) (c_indexes c)) = lookup k' (c_indexes c)).
  { intros k' Hk'. cbn [lookup]. destruct (N.eqb_spec k' k) as [E|E].
    - exfalso. subst k'. apply Hknot. rewrite Hso, <- app_assoc, map_app. apply in_or_app. right. exact Hk'.
    - apply lookup_remove_keys_notin. eapply NoDup_app_notin; [exact Hnd'|exact Hk']. }
  pose proof (co_fp _ _ _ _ H) as Hfp.
  constructor; cbn [c_queue c_indexes c_buffer c_fp c_full].
  - exact W2.
  - rewrite !map_app. cbn [map fst]. rewrite app_assoc. reflexivity.
  - apply chain_app. split.
    + eapply chain_ext; [| |apply (co_new _ _ _ _ H)].
      * intros k' Hk'. apply Hlk. rewrite map_app. apply in_or_app. right. exact Hk'.
      * intros x n _ Hx. eapply slice_write_left; [exact Hwa|lia].
    + cbn [chain fst snd]. rewrite N.add_0_l, <- Hfp.
      split; [cbn [lookup]; rewrite N.eqb_refl; reflexivity|].
      split; [exact Hp|]. split; [|exact I].
      eapply slice_write_same. exact Hwa.
  - rewrite sizes_app, sizes_one. cbn [snd]. lia.
  - pose proof (co_old _ _ _ _ H) as Hc. rewrite Hso in Hc. apply chain_app in Hc. destruct Hc as [_ Hc].
    destruct so2 as [|kv so2]; [exact I|].
    eapply chain_ext; [| |exact Hc].
    + intros k' Hk'. apply Hlk. rewrite map_app. apply in_or_app. left. exact Hk'.
    + intros x n Hx _. eapply slice_write_right; [exact Hwa|].
      specialize (Hstop ltac:(discriminate)). lia.
  - intros Hne. specialize (Hstop Hne).
    assert (Hne0 : so <> []).
    { rewrite Hso. destruct so1; [exact Hne|discriminate]. }
    destruct (co_a _ _ _ _ H Hne0) as (Ha & Hb & Hf).
    rewrite Hso, sizes_app in Hb. unfold cap in *. cbn [c_buffer].
    rewrite (write_at_len _ _ _ _ _ Hwa). split; [lia|]. split; [lia|exact Hf].
Qed.

(* ------------------------------------------------------------------ *)
(* the invariant relating a state to its history                       *)
(* ------------------------------------------------------------------ *)

Definition Ring (c : cache) (hist : list ins) : Prop :=
  exists (pre so sn : list ins) (a : N),
    hist = pre ++ so ++ sn /\
    Core c so sn a /\
    (c_full c = false -> pre = []) /\
    (c_full c = true -> pre <> []) /\
    (sizes hist <= cap c -> c_full c = false) /\
    (* the dead space left at the end of the buffer by the last wrap is < maxsize *)
    (so <> [] -> cap c < a + sizes so + maxsize hist) /\
    (* the last evicted entry plus everything live nearly fills the buffer *)
    (forall pre' e, pre = pre' ++ [e] -> cap c + 1 < lenN (snd e) + sizes (so ++ sn) + maxsize hist).

Lemma Ring_new n : Ring (cache_new n) [].
Proof.
  exists [], [], [], 0. split; [reflexivity|]. split; [|repeat split].
  - constructor; cbn [cache_new c_queue c_indexes c_buffer c_fp c_full app map chain]; try reflexivity; try exact I.
    + apply WF_new.
    + intros H; contradiction.
  - intros H. discriminate.
  - intros H; contradiction.
  - intros pre' e H. destruct pre'; discriminate.
Qed.

Lemma Ring_insert c hist k v n c' :
  Ring c hist -> v <> [] -> insert c k v = (COk n, c') -> Ring c' (hist ++ [(k, v)]).
Proof.
  intros (pre & so & sn & a & Hh & HC & Hff & Hft & Hfit & HP1 & HP2) Hv E.
  assert (Hp : 0 < lenN v).
  { destruct v; [contradiction|]. rewrite lenN_cons. lia. }
  pose proof (co_wf _ _ _ _ HC) as W.
  destruct (insert_ok_inv _ _ _ _ _ E) as (Hk & Hvc & n1 & c1 & n2 & Hwrap & Hwrite & Hn).
  pose proof (co_fp _ _ _ _ HC) as Hfp.
  assert (Hms : maxsize (hist ++ [(k, v)]) = N.max (maxsize hist) (lenN v)).
  { rewrite maxsize_app, maxsize_one. reflexivity. }
  assert (Hsz : sizes (hist ++ [(k, v)]) = sizes hist + lenN v).
  { rewrite sizes_app, sizes_one. reflexivity. }
  assert (Hsh : sizes hist = sizes pre + sizes so + sizes sn).
  { rewrite Hh, !sizes_app. lia. }
  destruct (N.ltb_spec (cap c) (lenN v + c_fp c)) as [Hw|Hw].
  - (* the insertion wraps *)
    destruct (wrap_core c so sn a v HC Hvc Hw) as (c1' & Hwrap' & HC1 & Hfull1 & Hcap1 & Hfp1 & Hidx1).
    rewrite Hwrap in Hwrap'. injection Hwrap' as -> <-.
    assert (Hk1 : lookup k (c_indexes c1) = None).
    { rewrite Hidx1. apply lookup_remove_keys_None. exact Hk. }
    destruct (write_core c1 sn [] 0 k v HC1 Hp Hk1 ltac:(lia))
      as (s1 & s2 & c2 & Hsn & Hwrite' & HC2 & Hfull2 & Hcap2 & Hstop & Hlast).
    rewrite Hwrite in Hwrite'. injection Hwrite' as -> <-.
    rewrite Hfp1 in Hstop, Hlast. rewrite N.add_0_l in *.
    assert (Hs1 : s1 <> []).
    { intros ->. cbn [app] in Hsn. subst s2.
      assert (Hne : sn <> []) by (intros ->; change (sizes []) with 0 in Hfp; lia).
      specialize (Hstop Hne). change (sizes []) with 0 in Hstop. lia. }
    assert (Hssn : sizes sn = sizes s1 + sizes s2) by (rewrite Hsn, sizes_app; reflexivity).
    exists (pre ++ so ++ s1), s2, [(k, v)], (sizes s1).
    split; [rewrite Hh, Hsn, <- !app_assoc; reflexivity|].
    split; [exact HC2|].
    rewrite Hfull2, Hfull1, Hcap2, Hcap1.
    split; [discriminate|]. split; [intros _ H0; apply app_eq_nil in H0; destruct H0 as [_ H0];
                                    apply app_eq_nil in H0; destruct H0 as [_ H0]; contradiction|].
    split; [intros H0; lia|]. split; [intros _; lia|].
    intros pre' e Hpre'.
    destruct Hlast as [->|(s & e0 & -> & Hlt)]; [contradiction|].
    rewrite !app_assoc in Hpre'. apply app_inj_tail in Hpre'. destruct Hpre' as [_ <-].
    rewrite ?sizes_app, ?sizes_one in *. cbn [snd]. lia.
  - (* no wrap *)
    assert (Hwrap' : wrap_phase c v = Some (0, c)).
    { unfold wrap_phase. destruct (N.ltb_spec (cap c) (lenN v + c_fp c)); [lia|reflexivity]. }
    rewrite Hwrap in Hwrap'. injection Hwrap' as -> ->.
    destruct (write_core c so sn a k v HC Hp Hk ltac:(lia))
      as (so1 & so2 & c2 & Hso & Hwrite' & HC2 & Hfull2 & Hcap2 & Hstop & Hlast).
    rewrite Hwrite in Hwrite'. injection Hwrite' as -> <-.
    assert (Hsso : sizes so = sizes so1 + sizes so2) by (rewrite Hso, sizes_app; reflexivity).
    exists (pre ++ so1), so2, (sn ++ [(k, v)]), (a + sizes so1).
    split; [rewrite Hh, Hso, <- !app_assoc; reflexivity|].
    split; [exact HC2|].
    rewrite Hfull2, Hcap2.
    assert (Hso1ne : so1 <> [] -> so <> []).
    { intros H1 H0. rewrite H0 in Hso. destruct so1; [contradiction|discriminate]. }
    assert (Hso2ne : so2 <> [] -> so <> []).
    { intros H1 H0. rewrite H0 in Hso. destruct so1; [cbn in Hso; subst so2; contradiction|discriminate]. }
    split.
    { intros Hf. rewrite (Hff Hf). destruct so1 as [|x so1]; [reflexivity|exfalso].
      destruct (co_a _ _ _ _ HC (Hso1ne ltac:(discriminate))) as (_ & _ & Hf'). congruence. }
    split.
    { intros Hf H0. apply app_eq_nil in H0. destruct H0 as [H0 _]. exact (Hft Hf H0). }
    split; [intros H0; apply Hfit; lia|].
    split.
    { intros Hne. specialize (HP1 (Hso2ne Hne)). lia. }
    intros pre' e Hpre'.
    destruct Hlast as [->|(s & e0 & -> & Hlt)].
    + rewrite app_nil_r in Hpre'. specialize (HP2 _ _ Hpre').
      cbn [app] in Hso. subst so2. rewrite ?sizes_app, ?sizes_one in *. cbn [snd]. lia.
    + rewrite !app_assoc in Hpre'. apply app_inj_tail in Hpre'. destruct Hpre' as [_ <-].
      specialize (HP1 (Hso1ne ltac:(destruct s; discriminate))).
      destruct (co_a _ _ _ _ HC (Hso1ne ltac:(destruct s; discriminate))) as (Ha & Hb & _).
      rewrite ?sizes_app, ?sizes_one in *. cbn [snd]. lia.
Qed.

Lemma NoEmptyStored_app h1 h2 : NoEmptyStored (h1 ++ h2) <-> NoEmptyStored h1 /\ NoEmptyStored h2.
Proof. unfold NoEmptyStored. apply Forall_app. Qed.

Lemma exec_Ring ops c hist c' hist' :
  (NoEmptyStored hist -> Ring c hist) -> exec c hist ops = Some (c', hist') ->
  NoEmptyStored hist' -> Ring c' hist'.
Proof.
  intros H E.
  apply (exec_ind_inv (fun c h => NoEmptyStored h -> Ring c h)) with (ops := ops) (c := c) (hist := hist);
    [|exact H|exact E].
  intros c0 h0 k v n c0' IH Hi Hne. apply NoEmptyStored_app in Hne. destruct Hne as [Hne Hv].
  inversion Hv as [|x l Hx _]; subst. cbn [snd] in Hx.
  eapply Ring_insert; [apply IH; exact Hne|exact Hx|exact Hi].
Qed.

Theorem run_Ring capacity ops c hist :
  run capacity ops = Some (c, hist) -> NoEmptyStored hist -> Ring c hist.
Proof. intros E. eapply exec_Ring; [|exact E]. intros _. apply Ring_new. Qed.

(* the [m] of C11_suffix picks exactly the live part of the history *)
Lemma live_lastn c (pre live : list ins) m :
  c_queue c = map fst live ->
  (m <= length (pre ++ live))%nat -> c_queue c = map fst (lastn m (pre ++ live)) ->
  lastn m (pre ++ live) = live /\ m = length live.
Proof.
  intros Hq Hm Hq'. pose proof (C11_m_unique _ _ _ Hm Hq') as Hlen.
  rewrite Hq, map_length in Hlen. subst m. split; [apply lastn_app_length|reflexivity].
Qed.

(* ------------------------------------------------------------------ *)
(* C06: contents                                                       *)
(* ------------------------------------------------------------------ *)

Lemma Ring_get c hist k v : Ring c hist -> get c k = COk (Some v) -> latest hist k = Some v.
Proof.
  intros (pre & so & sn & a & Hh & HC & _) Hg.
  pose proof (co_wf _ _ _ _ HC) as W. pose proof (Core_nodup _ _ _ _ HC) as Hnd.
  assert (Hin : In k (map fst (so ++ sn))).
  { rewrite <- (co_queue _ _ _ _ HC). apply retrievable_iff_queue; [exact W|]. exists v. exact Hg. }
  apply in_map_iff in Hin. destruct Hin as ([k0 v0] & Hk0 & Hin). cbn [fst] in Hk0. subst k0.
  assert (Hent : exists x, lookup k (c_indexes c) = Some {| r_begin := x; r_end := x + lenN v0 |} /\
                           slice (c_buffer c) x (lenN v0) = v0).
  { apply in_app_or in Hin. destruct Hin as [Hin|Hin].
    - destruct (chain_In _ _ _ _ _ (co_old _ _ _ _ HC) Hin) as (x & Hl & _ & Hs & _). exists x. split; assumption.
    - destruct (chain_In _ _ _ _ _ (co_new _ _ _ _ HC) Hin) as (x & Hl & _ & Hs & _). exists x. split; assumption. }
  destruct Hent as (x & Hl & Hs).
  destruct (wf_ranges c W k _ Hl) as [H1 H2]. cbn [r_begin r_end] in H1, H2.
  erewrite get_slice in Hg; [|exact Hl|exact H1|exact H2]. cbn [r_begin r_end] in Hg.
  replace (x + lenN v0 - x) with (lenN v0) in Hg by lia. rewrite Hs in Hg. injection Hg as <-.
  rewrite Hh, latest_app. erewrite latest_NoDup_In; [reflexivity|exact Hnd|exact Hin].
Qed.

Theorem C06_get_latest capacity ops c hist :
  run capacity ops = Some (c, hist) -> NoEmptyStored hist ->
  forall k v, get c k = COk (Some v) -> latest hist k = Some v.
Proof. intros E Hne k v Hg. eapply Ring_get; [eapply run_Ring; eassumption|exact Hg]. Qed.

(* every retrievable key returns the value of its latest successful insertion
   (the converse direction: retrievable -> the bytes are the recorded ones) *)
Corollary C06_retrievable_latest capacity ops c hist k :
  run capacity ops = Some (c, hist) -> NoEmptyStored hist -> retrievable c k ->
  exists v, latest hist k = Some v /\ get c k = COk (Some v).
Proof.
  intros E Hne (v & Hg). exists v. split; [eapply C06_get_latest; eassumption|exact Hg].
Qed.

(* a successful insertion is immediately retrievable with its bytes; this
   needs neither NoEmptyStored nor v <> [] *)
Theorem C06_fresh capacity ops c0 hist0 k v :
  run capacity ops = Some (c0, hist0) ->
  forall n c, insert c0 k v = (COk n, c) ->
  run capacity (ops ++ [(k, v)]) = Some (c, hist0 ++ [(k, v)]) /\ get c k = COk (Some v).
Proof.
  intros E n c Hi. split.
  - unfold run in *. rewrite exec_app, E. cbn [exec]. rewrite Hi. reflexivity.
  - eapply insert_ok_get; [|exact Hi]. eapply reachable_WF. exists capacity, ops. exact E.
Qed.

Lemma Ring_disjoint c hist k1 k2 r1 r2 :
  Ring c hist -> k1 <> k2 ->
  lookup k1 (c_indexes c) = Some r1 -> lookup k2 (c_indexes c) = Some r2 ->
  (r_end r1 <= r_begin r2 \/ r_end r2 <= r_begin r1) /\
  r_begin r1 < r_end r1 /\ r_end r1 <= cap c.
Proof.
  intros (pre & so & sn & a & Hh & HC & _) Hne Hl1 Hl2.
  pose proof (co_wf _ _ _ _ HC) as W.
  assert (Hkey : forall k r, lookup k (c_indexes c) = Some r -> exists v, In (k, v) (so ++ sn)).
  { intros k r Hl. assert (Hin : In k (map fst (so ++ sn))).
    { rewrite <- (co_queue _ _ _ _ HC). apply W. rewrite Hl. discriminate. }
    apply in_map_iff in Hin. destruct Hin as ([k0 v0] & Hk0 & Hin). cbn [fst] in Hk0. subst k0.
    exists v0. exact Hin. }
  destruct (Hkey _ _ Hl1) as (v1 & Hin1). destruct (Hkey _ _ Hl2) as (v2 & Hin2).
  pose proof (co_old _ _ _ _ HC) as Hco. pose proof (co_new _ _ _ _ HC) as Hcn.
  pose proof (co_fp _ _ _ _ HC) as Hfp.
  apply in_app_or in Hin1. apply in_app_or in Hin2.
  split.
  - destruct Hin1 as [Hin1|Hin1]; destruct Hin2 as [Hin2|Hin2].
    + exact (chain_disjoint _ _ _ _ (k1, v1) (k2, v2) r1 r2 Hco Hin1 Hin2 Hne Hl1 Hl2).
    + destruct (chain_In _ _ _ _ _ Hco Hin1) as (x1 & Hx1 & _ & _ & Hlo1 & Hhi1).
      destruct (chain_In _ _ _ _ _ Hcn Hin2) as (x2 & Hx2 & _ & _ & Hlo2 & Hhi2).
      cbn [fst snd] in *. rewrite Hl1 in Hx1. injection Hx1 as ->. rewrite Hl2 in Hx2. injection Hx2 as ->.
      cbn [r_begin r_end].
      destruct (co_a _ _ _ _ HC ltac:(intros ->; destruct Hin1)) as (Ha & _). right. lia.
    + destruct (chain_In _ _ _ _ _ Hcn Hin1) as (x1 & Hx1 & _ & _ & Hlo1 & Hhi1).
      destruct (chain_In _ _ _ _ _ Hco Hin2) as (x2 & Hx2 & _ & _ & Hlo2 & Hhi2).
      cbn [fst snd] in *. rewrite Hl1 in Hx1. injection Hx1 as ->. rewrite Hl2 in Hx2. injection Hx2 as ->.
      cbn [r_begin r_end].
      destruct (co_a _ _ _ _ HC ltac:(intros ->; destruct Hin2)) as (Ha & _). left. lia.
    + exact (chain_disjoint _ _ _ _ (k1, v1) (k2, v2) r1 r2 Hcn Hin1 Hin2 Hne Hl1 Hl2).
  - destruct (wf_ranges c W _ _ Hl1) as [_ Hcap]. split; [|exact Hcap].
    destruct Hin1 as [Hin1|Hin1].
    + destruct (chain_In _ _ _ _ _ Hco Hin1) as (x1 & Hx1 & Hp1 & _).
      cbn [fst snd] in *. rewrite Hl1 in Hx1. injection Hx1 as ->. cbn [r_begin r_end]. lia.
    + destruct (chain_In _ _ _ _ _ Hcn Hin1) as (x1 & Hx1 & Hp1 & _).
      cbn [fst snd] in *. rewrite Hl1 in Hx1. injection Hx1 as ->. cbn [r_begin r_end]. lia.
Qed.

Theorem C06_disjoint capacity ops c hist :
  run capacity ops = Some (c, hist) -> NoEmptyStored hist ->
  forall k1 k2 r1 r2, In k1 (c_queue c) -> In k2 (c_queue c) -> k1 <> k2 ->
    lookup k1 (c_indexes c) = Some r1 -> lookup k2 (c_indexes c) = Some r2 ->
    overlaps r1 r2 = false /\ r_begin r1 < r_end r1 /\ r_end r1 <= capacity.
Proof.
  intros E Hne k1 k2 r1 r2 _ _ Hk Hl1 Hl2.
  destruct (Ring_disjoint c hist k1 k2 r1 r2 (run_Ring _ _ _ _ E Hne) Hk Hl1 Hl2) as (Hd & Hp & Hc).
  rewrite (cap_const _ _ _ _ E) in Hc. split; [|split; assumption].
  unfold overlaps. destruct (N.ltb_spec (r_begin r1) (r_end r2)); destruct (N.ltb_spec (r_begin r2) (r_end r1));
    try reflexivity. lia.
Qed.

(* ------------------------------------------------------------------ *)
(* C12 / C13: space                                                    *)
(* ------------------------------------------------------------------ *)

Lemma Ring_total c (so sn : list ins) a : Core c so sn a -> sizes (so ++ sn) <= cap c.
Proof.
  intros HC. rewrite sizes_app. pose proof (co_fp _ _ _ _ HC) as Hfp.
  pose proof (wf_fp c (co_wf _ _ _ _ HC)) as Hle.
  destruct so as [|kv so]; [change (sizes []) with 0; lia|].
  destruct (co_a _ _ _ _ HC ltac:(discriminate)) as (Ha & Hb & _). lia.
Qed.

Theorem C12_total capacity ops c hist m :
  run capacity ops = Some (c, hist) -> NoEmptyStored hist ->
  (m <= length hist)%nat -> c_queue c = map fst (lastn m hist) ->
  sizes (lastn m hist) <= capacity.
Proof.
  intros E Hne Hm Hq.
  destruct (run_Ring _ _ _ _ E Hne) as (pre & so & sn & a & Hh & HC & _).
  subst hist. destruct (live_lastn c pre (so ++ sn) m (co_queue _ _ _ _ HC) Hm Hq) as [-> _].
  rewrite <- (cap_const _ _ _ _ E). eapply Ring_total. exact HC.
Qed.

Theorem C13_full capacity ops c hist m :
  run capacity ops = Some (c, hist) -> NoEmptyStored hist ->
  (m <= length hist)%nat -> c_queue c = map fst (lastn m hist) ->
  (cfull c = true <-> (m < length hist)%nat).
Proof.
  intros E Hne Hm Hq.
  destruct (run_Ring _ _ _ _ E Hne) as (pre & so & sn & a & Hh & HC & Hff & Hft & _).
  subst hist. destruct (live_lastn c pre (so ++ sn) m (co_queue _ _ _ _ HC) Hm Hq) as [_ ->].
  unfold cfull. rewrite !app_length. split.
  - intros Hf. specialize (Hft Hf). destruct pre; [contradiction|cbn [length]; lia].
  - intros Hlt. destruct (c_full c); [reflexivity|]. rewrite Hff in Hlt by reflexivity. cbn [length] in Hlt. lia.
Qed.

Theorem C12_fits capacity ops c hist m :
  run capacity ops = Some (c, hist) -> NoEmptyStored hist ->
  (m <= length hist)%nat -> c_queue c = map fst (lastn m hist) ->
  sizes hist <= capacity -> m = length hist.
Proof.
  intros E Hne Hm Hq Hsz.
  destruct (run_Ring _ _ _ _ E Hne) as (pre & so & sn & a & Hh & HC & Hff & _ & Hfit & _).
  rewrite <- (cap_const _ _ _ _ E) in Hsz. specialize (Hff (Hfit Hsz)).
  subst hist pre. destruct (live_lastn c [] (so ++ sn) m (co_queue _ _ _ _ HC) Hm Hq) as [_ ->].
  reflexivity.
Qed.

(* consequently: while everything fits, every inserted key is retrievable *)
Corollary C12_fits_all capacity ops c hist :
  run capacity ops = Some (c, hist) -> NoEmptyStored hist -> sizes hist <= capacity ->
  c_queue c = map fst hist /\ forall k, In k (map fst hist) -> retrievable c k.
Proof.
  intros E Hne Hsz.
  destruct (C11_suffix _ _ _ _ E) as (m & Hm & Hq & _ & Hret).
  pose proof (C12_fits _ _ _ _ _ E Hne Hm Hq Hsz) as ->.
  unfold lastn in *. rewrite Nat.sub_diag in *. cbn [skipn] in *.
  split; [exact Hq|]. intros k Hk. apply Hret. exact Hk.
Qed.

(* ------------------------------------------------------------------ *)
(* C12 (stretch): eviction only happens under pressure, and recent     *)
(* insertions that fit are kept                                        *)
(* ------------------------------------------------------------------ *)

(* additive form (no truncated subtraction): if anything is evicted then
   live bytes + new bytes + maxsize exceed capacity + 1 *)
Theorem C12_pressure_add capacity ops c hist k v n c' m :
  run capacity ops = Some (c, hist) -> NoEmptyStored (hist ++ [(k, v)]) ->
  insert c k v = (COk n, c') -> 0 < n ->
  (m <= length hist)%nat -> c_queue c = map fst (lastn m hist) ->
  capacity + 1 < sizes (lastn m hist) + lenN v + maxsize (hist ++ [(k, v)]).
Proof.
  intros E Hne Hi Hn Hm Hq.
  apply NoEmptyStored_app in Hne. destruct Hne as [Hne Hv].
  inversion Hv as [|x l Hx _]; subst. cbn [snd] in Hx.
  assert (Hp : 0 < lenN v).
  { destruct v; [contradiction|]. rewrite lenN_cons. lia. }
  destruct (run_Ring _ _ _ _ E Hne) as (pre & so & sn & a & Hh & HC & Hff & Hft & Hfit & HP1 & HP2).
  rewrite <- (cap_const _ _ _ _ E).
  rewrite Hh in Hm, Hq.
  destruct (live_lastn c pre (so ++ sn) m (co_queue _ _ _ _ HC) Hm Hq) as [Hlive _].
  rewrite Hh at 1. rewrite Hlive. clear Hlive Hm Hq.
  rewrite maxsize_app, maxsize_one, sizes_app. cbn [snd].
  pose proof (co_fp _ _ _ _ HC) as Hfp.
  destruct (insert_ok_inv _ _ _ _ _ Hi) as (Hk & Hvc & n1 & c1 & n2 & Hwrap & Hwrite & Hnn).
  destruct (N.ltb_spec (cap c) (lenN v + c_fp c)) as [Hw|Hw].
  - lia.
  - assert (Hwrap' : wrap_phase c v = Some (0, c)).
    { unfold wrap_phase. destruct (N.ltb_spec (cap c) (lenN v + c_fp c)); [lia|reflexivity]. }
    rewrite Hwrap in Hwrap'. injection Hwrap' as -> ->.
    destruct (write_core c so sn a k v HC Hp Hk ltac:(lia))
      as (so1 & so2 & c2 & Hso & Hwrite' & HC2 & Hfull2 & Hcap2 & Hstop & Hlast).
    rewrite Hwrite in Hwrite'. injection Hwrite' as -> <-.
    destruct Hlast as [->|(s & e0 & -> & Hlt)].
    + change (lenN []) with 0 in Hnn. lia.
    + assert (Hso_ne : so <> []) by (rewrite Hso; destruct s; discriminate).
      specialize (HP1 Hso_ne). lia.
Qed.

Theorem C12_pressure capacity ops c hist k v n c' m :
  run capacity ops = Some (c, hist) -> NoEmptyStored (hist ++ [(k, v)]) ->
  insert c k v = (COk n, c') -> 0 < n ->
  (m <= length hist)%nat -> c_queue c = map fst (lastn m hist) ->
  capacity - (maxsize (hist ++ [(k, v)]) - 1) < sizes (lastn m hist) + lenN v.
Proof.
  intros E Hne Hi Hn Hm Hq.
  pose proof (C12_pressure_add _ _ _ _ _ _ _ _ _ E Hne Hi Hn Hm Hq) as H.
  apply NoEmptyStored_app in Hne. destruct Hne as [_ Hv].
  inversion Hv as [|x l Hx _]; subst. cbn [snd] in Hx.
  assert (Hp : 0 < lenN v).
  { destruct v; [contradiction|]. rewrite lenN_cons. lia. }
  lia.
Qed.

(* contrapositive: an insertion that leaves maxsize-1 bytes of slack evicts nothing *)
Corollary C12_no_pressure capacity ops c hist k v n c' m :
  run capacity ops = Some (c, hist) -> NoEmptyStored (hist ++ [(k, v)]) ->
  insert c k v = (COk n, c') ->
  (m <= length hist)%nat -> c_queue c = map fst (lastn m hist) ->
  sizes (lastn m hist) + lenN v + maxsize (hist ++ [(k, v)]) <= capacity + 1 -> n = 0.
Proof.
  intros E Hne Hi Hm Hq Hsz. destruct (N.eq_dec n 0) as [H0|H0]; [exact H0|].
  pose proof (C12_pressure_add _ _ _ _ _ _ _ _ _ E Hne Hi ltac:(lia) Hm Hq). lia.
Qed.

(* a suffix [s] of the history is either entirely live, or (with the last
   evicted entry) too big *)
Lemma Ring_keep_core c hist (p s : list ins) :
  Ring c hist -> NoEmptyStored hist -> hist = p ++ s ->
  (exists l, c_queue c = map fst (l ++ s)) \/
  (cap c + 1 < sizes s + maxsize hist /\ 0 < sizes s).
Proof.
  intros (pre & so & sn & a & Hh & HC & Hff & Hft & Hfit & HP1 & HP2) Hne Hps.
  rewrite Hps in Hh. apply app_eq_app in Hh. destruct Hh as (l & [[Hp Hl]|[Hp Hl]]).
  - left. exists l. rewrite (co_queue _ _ _ _ HC), Hl. reflexivity.
  - destruct l as [|x l0].
    { left. exists []. rewrite (co_queue _ _ _ _ HC). cbn [app] in *. rewrite Hl. reflexivity. }
    right.
    destruct (exists_last (l := x :: l0)) as (l' & e & Hle); [discriminate|].
    rewrite Hle in Hp, Hl. rewrite app_assoc in Hp. specialize (HP2 _ _ Hp).
    assert (He : 0 < lenN (snd e)).
    { assert (Hin : In e hist).
      { rewrite Hps, Hl. apply in_or_app. right. apply in_or_app. left. apply in_or_app. right. left. reflexivity. }
      unfold NoEmptyStored in Hne. rewrite Forall_forall in Hne. specialize (Hne _ Hin).
      destruct (snd e); [contradiction|]. rewrite lenN_cons. lia. }
    rewrite Hl. rewrite ?sizes_app, ?sizes_one in *. lia.
Qed.

Lemma Ring_keep c hist (p s : list ins) :
  Ring c hist -> NoEmptyStored hist -> hist = p ++ s ->
  (sizes s + maxsize hist <= cap c + 1 \/ sizes s <= cap c - (maxsize hist - 1)) ->
  exists l, c_queue c = map fst (l ++ s).
Proof.
  intros R Hne Hps Hsz.
  destruct (Ring_keep_core c hist p s R Hne Hps) as [H|[H1 H2]]; [exact H|exfalso; lia].
Qed.

(* additive form: a suffix with  sizes + maxsize <= capacity + 1  is entirely retrievable *)
Theorem C12_keep_add capacity ops c hist :
  run capacity ops = Some (c, hist) -> NoEmptyStored hist ->
  forall p s, hist = p ++ s -> sizes s + maxsize hist <= capacity + 1 ->
  forall k, In k (map fst s) -> retrievable c k.
Proof.
  intros E Hne p s Hps Hsz k Hk.
  rewrite <- (cap_const _ _ _ _ E) in Hsz.
  destruct (Ring_keep c hist p s (run_Ring _ _ _ _ E Hne) Hne Hps (or_introl Hsz)) as (l & Hq).
  apply retrievable_iff_queue; [eapply reachable_WF; exists capacity, ops; exact E|].
  rewrite Hq, map_app. apply in_or_app. right. exact Hk.
Qed.

(* stronger than the target: slack (L-1) instead of 2*(L-1) *)
Theorem C12_keep_strong capacity ops c hist :
  run capacity ops = Some (c, hist) -> NoEmptyStored hist ->
  forall p s, hist = p ++ s -> sizes s <= capacity - (maxsize hist - 1) ->
  forall k, In k (map fst s) -> retrievable c k.
Proof.
  intros E Hne p s Hps Hsz k Hk.
  rewrite <- (cap_const _ _ _ _ E) in Hsz.
  destruct (Ring_keep c hist p s (run_Ring _ _ _ _ E Hne) Hne Hps (or_intror Hsz)) as (l & Hq).
  apply retrievable_iff_queue; [eapply reachable_WF; exists capacity, ops; exact E|].
  rewrite Hq, map_app. apply in_or_app. right. exact Hk.
Qed.

Theorem C12_keep capacity ops c hist :
  run capacity ops = Some (c, hist) -> NoEmptyStored hist ->
  forall p s, hist = p ++ s -> sizes s <= capacity - 2 * (maxsize hist - 1) ->
  forall k, In k (map fst s) -> retrievable c k.
Proof.
  intros E Hne p s Hps Hsz. eapply C12_keep_strong; [exact E|exact Hne|exact Hps|lia].
Qed.

(* the same, counted with the m of C11_suffix *)
Corollary C12_keep_m capacity ops c hist m :
  run capacity ops = Some (c, hist) -> NoEmptyStored hist ->
  (m <= length hist)%nat -> c_queue c = map fst (lastn m hist) ->
  forall p s, hist = p ++ s -> sizes s <= capacity - (maxsize hist - 1) -> (length s <= m)%nat.
Proof.
  intros E Hne Hm Hq p s Hps Hsz.
  rewrite <- (cap_const _ _ _ _ E) in Hsz.
  destruct (Ring_keep c hist p s (run_Ring _ _ _ _ E Hne) Hne Hps (or_intror Hsz)) as (l & Hq').
  rewrite (C11_m_unique _ _ _ Hm Hq), Hq', map_length, app_length. lia.
Qed.

(* ------------------------------------------------------------------ *)
(* F2: without NoEmptyStored the content/space theorems are false      *)
(* ------------------------------------------------------------------ *)

Definition f2_ops : list ins :=
  [(1, [x01; x01; x01; x01]); (2, []); (3, [x03; x03]); (4, [x04; x04]); (5, [x05])].

(* C06_get_latest fails: key 3 returns bytes overwritten by key 5 *)
Example F2_refuted :
  exists c hist, run 4 f2_ops = Some (c, hist) /\
    get c 3 = COk (Some [x05; x03]) /\ latest hist 3 = Some [x03; x03].
Proof. eexists _, _. split; [vm_compute; reflexivity|]. split; vm_compute; reflexivity. Qed.

Example F2_refuted' :
  ~ (forall capacity ops c hist, run capacity ops = Some (c, hist) ->
       forall k v, get c k = COk (Some v) -> latest hist k = Some v).
Proof.
  intros H. destruct F2_refuted as (c & hist & E & Hg & Hl).
  specialize (H _ _ _ _ E _ _ Hg). rewrite Hl in H. discriminate.
Qed.

(* C12_total fails too: 5 retrievable bytes in a cache of capacity 4 *)
Example F2_refutes_total :
  exists c hist, run 4 f2_ops = Some (c, hist) /\
    c_queue c = map fst (lastn 4 hist) /\ sizes (lastn 4 hist) = 5.
Proof. eexists _, _. split; [vm_compute; reflexivity|]. split; vm_compute; reflexivity. Qed.

(* and C06_disjoint: keys 3 and 5 have overlapping ranges *)
Example F2_refutes_disjoint :
  exists c hist r3 r5, run 4 f2_ops = Some (c, hist) /\
    lookup 3 (c_indexes c) = Some r3 /\ lookup 5 (c_indexes c) = Some r5 /\ overlaps r3 r5 = true.
Proof. eexists _, _, _, _. split; [vm_compute; reflexivity|]. repeat split; vm_compute; reflexivity. Qed.

(* ------------------------------------------------------------------ *)
(* sanity: the hypotheses are satisfiable (a wrapping history with no  *)
(* empty value), evaluated by vm_compute                               *)
(* ------------------------------------------------------------------ *)

Definition ex_ops : list ins :=
  [(1, [x01; x01; x01]); (2, [x02; x02]); (3, [x03; x03; x03]); (4, [x04]); (2, [x0a; x0a]); (1, [x0b; x0b])].

Example ring_sanity :
  exists c hist, run 6 ex_ops = Some (c, hist) /\ NoEmptyStored hist /\
    length hist = 6%nat /\ c_queue c = [4; 2; 1] /\ cfull c = true /\ c_fp c = 2 /\
    get c 2 = COk (Some [x0a; x0a]) /\ get c 3 = COk None /\
    get c 1 = COk (Some [x0b; x0b]) /\ latest hist 1 = Some [x0b; x0b] /\
    sizes (lastn 3 hist) = 5.
Proof.
  eexists _, _. split; [vm_compute; reflexivity|].
  split; [repeat constructor; discriminate|]. repeat split; vm_compute; reflexivity.
Qed.
