(* Proofs/ImplRefLists.v — refinement Impl = Ref for the input list and the
   output list: the fuelled Rust-faithful loops indexing from the base slice
   against the streaming counted loop. *)
From BS Require Import Impl.Visit Ref.Grammar Proofs.SliceLemmas Proofs.Numbers Proofs.Len Proofs.CsDec Proofs.ImplRefLeaf.
From Coq Require Import ZifyN ZifyNat ZifyBool.
Open Scope N_scope.

(* embedding of a reference outcome into the result type of a Rust-faithful loop:
   the loop returns the number of bytes consumed so far, relative to the base offset [p] *)
Definition embed_loop {A} (p : N) (o : outcome A) : out N * hist :=
  match o with
  | Done _ s' => (Ok (pos s' - p), hi s')
  | Fail e h' => (Err e, h')
  | Stuck => (OutOfFuel, [])
  end.

(* what a successful reference run guarantees about its final state *)
Definition consumed_from {A} (q : N) (cur : list byte) (o : outcome A) : Prop :=
  match o with
  | Done _ s' => exists c, cur = c ++ inp s' /\ pos s' = q + lenN c
  | _ => True
  end.

Definition list_empty {A} (l : list A) : bool := match l with [] => true | _ => false end.

Lemma list_empty_len {A} (l : list A) : list_empty l = (lenN l =? 0).
Proof. destruct l; [reflexivity|]. rewrite lenN_cons. cbn [list_empty]. symmetry. apply N.eqb_neq. lia. Qed.

Lemma cs_dec_first b n cb rest : cs_dec b = CsOk n cb rest ->
  exists b0 t, cb = b0 :: t /\ (b2n b0 =? 0) = (n =? 0).
Proof.
  unfold cs_dec, cs_wide. destruct b as [|b0 t]; [discriminate|]. cbn zeta.
  pose proof (b2n_lt b0) as Hb.
  destruct (N.eqb_spec (b2n b0) 255) as [E1|N1].
  { destruct (splitN t 8) as [[m r]|]; [|discriminate]. unfold U32MAX.
    destruct (N.ltb_spec 4294967295 (le_dec m)); [|discriminate]. intros HH. injection HH as <- <- <-.
    exists b0, m. split; [reflexivity|]. rewrite E1.
    destruct (N.eqb_spec (le_dec m) 0); [lia|reflexivity]. }
  destruct (N.eqb_spec (b2n b0) 254) as [E2|N2].
  { destruct (splitN t 4) as [[m r]|]; [|discriminate]. unfold U16MAX.
    destruct (N.ltb_spec 65535 (le_dec m)); [|discriminate]. intros HH. injection HH as <- <- <-.
    exists b0, m. split; [reflexivity|]. rewrite E2.
    destruct (N.eqb_spec (le_dec m) 0); [lia|reflexivity]. }
  destruct (N.eqb_spec (b2n b0) 253) as [E3|N3].
  { destruct (splitN t 2) as [[m r]|]; [|discriminate].
    destruct (N.leb_spec 253 (le_dec m)); [|discriminate]. intros HH. injection HH as <- <- <-.
    exists b0, m. split; [reflexivity|]. rewrite E3.
    destruct (N.eqb_spec (le_dec m) 0); [lia|reflexivity]. }
  intros HH. injection HH as <- <- <-. exists b0, []. split; reflexivity.
Qed.

Lemma cs_dec_zero b cb rest : cs_dec b = CsOk 0 cb rest -> lenN cb = 1.
Proof.
  unfold cs_dec, cs_wide. destruct b as [|b0 t]; [discriminate|]. cbn zeta.
  destruct (b2n b0 =? 255).
  { destruct (splitN t 8) as [[m r]|]; [|discriminate]. unfold U32MAX.
    destruct (N.ltb_spec 4294967295 (le_dec m)); [|discriminate]. intros HH. injection HH as HH _ _. lia. }
  destruct (b2n b0 =? 254).
  { destruct (splitN t 4) as [[m r]|]; [|discriminate]. unfold U16MAX.
    destruct (N.ltb_spec 65535 (le_dec m)); [|discriminate]. intros HH. injection HH as HH _ _. lia. }
  destruct (b2n b0 =? 253).
  { destruct (splitN t 2) as [[m r]|]; [|discriminate].
    destruct (N.leb_spec 253 (le_dec m)); [|discriminate]. intros HH. injection HH as HH _ _. lia. }
  intros HH. injection HH as _ <- _. reflexivity.
Qed.

(* [self.slice[0] == 0] on a view that starts with the compact size of the count *)
Lemma first_byte_zero p (cb c2 : list byte) b0 t n : cb = b0 :: t -> (b2n b0 =? 0) = (n =? 0) ->
  obind (s_index (sl p (cb ++ c2)) 0) (fun x => Ok (b2n x =? 0)) = Ok (n =? 0).
Proof.
  intros -> HH. unfold s_index, sl. cbn [bytes app]. rewrite splitN_0. cbn [obind]. rewrite HH. reflexivity.
Qed.

Lemma emit_emitp brk e h p b :
  emit brk e h = match emitp e brk (st0 p b h) with
                 | Done _ s' => (Ok tt, hi s')
                 | Fail er h' => (Err er, h')
                 | Stuck => (OutOfFuel, [])
                 end.
Proof. unfold emit, emitp, st0. cbn [hi]. destruct (breakable e && brk h e); reflexivity. Qed.

Lemma length_lt_app {A} (c r : list A) : 1 <= lenN c -> (length r < length (c ++ r))%nat.
Proof. rewrite app_length. unfold lenN. lia. Qed.

(* ---- inputs ---- *)
Definition txins_body (i : N) : P a_txin :=
  bind (r_txin_ev i) (fun xe => match xe with (x, e) => bind (emitp e) (fun _ => ret x) end).

(* one unrolling of the reference loop *)
Lemma ref_txins_step f i total brk q cur h :
  loop_fuel (S f) txins_body i total brk (st0 q cur h) =
  if i <? total then
    match l_txin cur with
    | LErr e => Fail e h
    | LOk (t, v, cb, sg, ql) r =>
        let ev := ev_of_txin i q v cb sg ql in
        if breakable ev && brk h ev then Fail VisitBreak (ev :: h)
        else match loop_fuel f txins_body (i + 1) total brk (st0 (q + txin_len cb sg) r (ev :: h)) with
             | Done l s' => Done (a_of_txin t v sg ql :: l) s'
             | Fail e h' => Fail e h'
             | Stuck => Stuck
             end
    end
  else Done [] (st0 q cur h).
Proof.
  cbn [loop_fuel]. destruct (i <? total); [|reflexivity].
  unfold bind at 1. unfold txins_body at 1. unfold bind at 1. rewrite r_txin_ev_l.
  destruct (l_txin cur) as [[[[[t v] cb] sg] ql] r|e]; [|reflexivity].
  cbn zeta. unfold bind at 1. unfold emitp at 1. unfold st0 at 1 2. cbn [hi pos inp].
  destruct (breakable _ && brk h _); [reflexivity|].
  unfold ret at 1. unfold bind at 1.
  change {| pos := q + txin_len cb sg; inp := r; hi := ev_of_txin i q v cb sg ql :: h |}
    with (st0 (q + txin_len cb sg) r (ev_of_txin i q v cb sg ql :: h)).
  destruct (loop_fuel f txins_body (i + 1) total brk _); reflexivity.
Qed.

(* one unrolling of the Rust-faithful loop *)
Lemma impl_txins_step f i total brk p pre cur h :
  In63 (pre ++ cur) ->
  txins_loop (S f) brk (sl p (pre ++ cur)) i total (lenN pre) h =
  if i <? total then
    match l_txin cur with
    | LErr e => (Err e, h)
    | LOk (t, v, cb, sg, ql) r =>
        let ev := ev_of_txin i (p + lenN pre) v cb sg ql in
        if breakable ev && brk h ev then (Err VisitBreak, ev :: h)
        else txins_loop f brk (sl p (pre ++ cur)) (i + 1) total (lenN pre + txin_len cb sg) (ev :: h)
    end
  else (Ok (lenN pre), h).
Proof.
  intros H63. cbn [txins_loop]. destruct (i <? total); [|reflexivity].
  unfold mbind at 1. unfold lift at 1. unfold sl at 1. rewrite s_from_app. fold (sl (p + lenN pre) cur).
  unfold mbind at 1. unfold lift at 1.
  assert (H63c : In63 cur). { apply In63_suffix in H63. exact H63. }
  rewrite (parse_txin_l _ _ H63c).
  destruct (l_txin cur) as [[[[[t v] cb] sg] ql] r|e] eqn:L; [|reflexivity].
  destruct (l_txin_ok _ _ _ _ _ _ _ L) as [Hcur [Lt [Lv [Hc Lq]]]].
  set (c := t ++ v ++ cb ++ sg ++ ql) in *.
  assert (Lc : lenN c = txin_len cb sg). { unfold c, txin_len. rewrite !lenN_app. lia. }
  unfold mbind at 1. unfold lift at 1. unfold consumed_of. cbn [parsed remaining]. unfold mk_txin at 1. cbn [ti_slice].
  unfold s_len, sl at 1. cbn [bytes]. fold c. unfold uadd.
  unfold In63, TWO63 in H63. rewrite Hcur, !lenN_app in H63.
  destruct (N.ltb_spec (lenN pre + lenN c) TWO64) as [_|Hbad]; [|unfold TWO64 in Hbad; lia].
  unfold mbind at 1. unfold lift at 1. rewrite (txin_event_ok i _ t v cb sg ql Lt Lv Lq).
  unfold mbind at 1. unfold emit at 1. cbn zeta.
  destruct (breakable _ && brk h _); [reflexivity|].
  rewrite Lc. reflexivity.
Qed.

Lemma txins_loop_ref brk p b total :
  In63 b ->
  forall fuelI fuelR pre cur i h,
  b = pre ++ cur -> (length cur < fuelI)%nat -> (length cur < fuelR)%nat ->
  loop_fuel fuelR txins_body i total brk (st0 (p + lenN pre) cur h) <> Stuck /\
  consumed_from (p + lenN pre) cur (loop_fuel fuelR txins_body i total brk (st0 (p + lenN pre) cur h)) /\
  txins_loop fuelI brk (sl p b) i total (lenN pre) h
  = embed_loop p (loop_fuel fuelR txins_body i total brk (st0 (p + lenN pre) cur h)).
Proof.
  intros H63. induction fuelI as [|fuelI IH]; intros fuelR pre cur i h Hb HfI HfR; [lia|].
  destruct fuelR as [|fuelR]; [lia|].
  subst b. rewrite (impl_txins_step _ _ _ _ _ _ _ _ H63), ref_txins_step.
  destruct (i <? total).
  2:{ cbn [embed_loop consumed_from st0 pos hi inp]. repeat split; try discriminate.
      - exists []. split; [reflexivity|change (lenN (@nil byte)) with 0; lia].
      - repeat f_equal. lia. }
  destruct (l_txin cur) as [[[[[t v] cb] sg] ql] r|e] eqn:L.
  2:{ cbn [embed_loop consumed_from]. repeat split; discriminate. }
  destruct (l_txin_ok _ _ _ _ _ _ _ L) as [Hcur [Lt [Lv [Hc Lq]]]].
  set (c := t ++ v ++ cb ++ sg ++ ql) in *.
  assert (Lc : lenN c = txin_len cb sg). { unfold c, txin_len. rewrite !lenN_app. lia. }
  cbn zeta. destruct (breakable _ && brk h _).
  { cbn [embed_loop consumed_from]. repeat split; discriminate. }
  assert (Hb' : pre ++ cur = (pre ++ c) ++ r). { rewrite Hcur, app_assoc. reflexivity. }
  assert (Hlt : (length r < length cur)%nat).
  { rewrite Hcur. apply length_lt_app. rewrite Lc. unfold txin_len. lia. }
  assert (HfI' : (length r < fuelI)%nat) by lia.
  assert (HfR' : (length r < fuelR)%nat) by lia.
  specialize (IH fuelR (pre ++ c) r (i + 1) (ev_of_txin i (p + lenN pre) v cb sg ql :: h) Hb' HfI' HfR').
  rewrite lenN_app, Lc in IH. replace (p + (lenN pre + txin_len cb sg)) with (p + lenN pre + txin_len cb sg) in IH by lia.
  destruct IH as [IH1 [IH2 IH3]].
  rewrite IH3.
  destruct (loop_fuel fuelR txins_body (i + 1) total brk _) as [l s2|e2 h2|]; [|cbn; repeat split; discriminate|contradiction].
  cbn [embed_loop consumed_from] in *. repeat split; [discriminate|].
  destruct IH2 as [c2 [Hr Hp2]]. exists (c ++ c2).
  split; [rewrite Hcur, Hr, app_assoc; reflexivity|rewrite lenN_app, Lc; lia].
Qed.

(* ---- embedding of a visit outcome ---- *)
Definition view (p : N) (b : list byte) (s' : st) : slice := sl p (firstn (N.to_nat (pos s' - p)) b).

Definition embed_visit {A B} (mk : A -> st -> B) (o : outcome A) : out (presult B) * hist :=
  match o with
  | Done a s' => (Ok {| remaining := sl (pos s') (inp s'); parsed := mk a s' |}, hi s')
  | Fail e h' => (Err e, h')
  | Stuck => (OutOfFuel, [])
  end.

Lemma firstn_lenN_app {A} (c r : list A) : firstn (N.to_nat (lenN c)) (c ++ r) = c.
Proof.
  unfold lenN. rewrite Nat2N.id, firstn_app, Nat.sub_diag, firstn_all. cbn. apply app_nil_r.
Qed.

Lemma view_app p c s' : pos s' = p + lenN c -> view p (c ++ inp s') s' = sl p c.
Proof.
  intros H. unfold view. rewrite H. replace (p + lenN c - p) with (lenN c) by lia.
  rewrite firstn_lenN_app. reflexivity.
Qed.

Lemma loop_fuel_len {A} (body : N -> P A) f : forall i n brk s l s',
  i <= n -> loop_fuel f body i n brk s = Done l s' -> lenN l = n - i.
Proof.
  induction f as [|f IH]; intros i n brk s l s' Hi; cbn [loop_fuel].
  - destruct (N.ltb_spec i n) as [Hlt|Hge]; [discriminate|]. unfold ret. intros HH. injection HH as <- _.
    change (lenN (@nil A)) with 0. lia.
  - destruct (N.ltb_spec i n) as [Hlt|Hge].
    + unfold bind at 1. destruct (body i brk s) as [x s1| |]; try discriminate.
      unfold bind at 1. destruct (loop_fuel f body (i + 1) n brk s1) as [l1 s2| |] eqn:E; try discriminate.
      unfold ret. intros HH. injection HH as <- _. rewrite lenN_cons.
      assert (Hi' : i + 1 <= n) by lia. rewrite (IH _ _ _ _ _ _ Hi' E). lia.
    + unfold ret. intros HH. injection HH as <- _. change (lenN (@nil A)) with 0. lia.
Qed.

Lemma emit_nonbreakable brk e h : breakable e = false -> emit brk e h = (Ok tt, e :: h).
Proof. intros H. unfold emit. rewrite H. reflexivity. Qed.
Lemma emitp_nonbreakable brk e s : breakable e = false ->
  emitp e brk s = Done tt {| pos := pos s; inp := inp s; hi := e :: hi s |}.
Proof. intros H. unfold emitp. rewrite H. reflexivity. Qed.

Lemma r_txins_eq brk p b h :
  r_txins brk (st0 p b h) =
  match cs_dec b with
  | CsOk n cb rest => loop_fuel (S (length rest)) txins_body 0 n brk (st0 (p + lenN cb) rest (ETxIns n :: h))
  | CsMore => Fail MoreBytesNeeded h
  | CsNonMin => Fail NonMinimalVarInt h
  end.
Proof.
  unfold r_txins. unfold bind at 1. rewrite r_compact_cs.
  destruct (cs_dec b) as [n cb rest| |]; reflexivity.
Qed.

Definition finish_txins (p : N) (b : list byte) (total : N) (r : out N * hist) : out (presult txins) * hist :=
  match r with
  | (Ok consumed, h') =>
      match s_from (sl p b) consumed with
      | Ok rm => match s_to (sl p b) consumed with
                 | Ok v => (Ok {| remaining := rm; parsed := {| tis_slice := v; tis_n := total |} |}, h')
                 | Err e => (Err e, h') | Panic w => (Panic w, h') | OutOfFuel => (OutOfFuel, h')
                 end
      | Err e => (Err e, h') | Panic w => (Panic w, h') | OutOfFuel => (OutOfFuel, h')
      end
  | (Err e, h') => (Err e, h')
  | (Panic w, h') => (Panic w, h')
  | (OutOfFuel, h') => (OutOfFuel, h')
  end.

Lemma visit_txins_eq brk p b h :
  visit_txins brk (sl p b) h =
  match cs_dec b with
  | CsOk n cb rest => finish_txins p b n (txins_loop (S (length b)) brk (sl p b) 0 n (lenN cb) (ETxIns n :: h))
  | CsMore => (Err MoreBytesNeeded, h)
  | CsNonMin => (Err NonMinimalVarInt, h)
  end.
Proof.
  unfold visit_txins, scan_len0. rewrite scan_len_spec, scan_result_cs. cbn [bytes sl].
  destruct (cs_dec b) as [n cb rest| |] eqn:E; try reflexivity.
  destruct (cs_dec_ok _ _ _ _ E) as [Hb [Hc Hn]].
  rewrite N.add_0_l.
  destruct (N.ltb_spec (lenN cb) TWO64) as [_|Hbad]; [|unfold TWO64 in Hbad; lia].
  unfold mbind at 1. unfold lift at 1.
  unfold mbind at 1. rewrite emit_nonbreakable by reflexivity.
  unfold mbind at 1. unfold finish_txins.
  destruct (txins_loop (S (length b)) brk (sl p b) 0 n (lenN cb) (ETxIns n :: h)) as [[c| | |] h']; reflexivity.
Qed.

Theorem visit_txins_ref brk p b h : In63 b ->
  r_txins brk (st0 p b h) <> Stuck /\
  (forall a s', r_txins brk (st0 p b h) = Done a s' ->
     exists c, b = c ++ inp s' /\ pos s' = p + lenN c /\ 1 <= lenN c /\
               txins_is_empty {| tis_slice := sl p c; tis_n := lenN a |} = Ok (list_empty a) /\
               (a = [] -> lenN c = 1)) /\
  visit_txins brk (sl p b) h
  = embed_visit (fun a s' => {| tis_slice := view p b s'; tis_n := lenN a |}) (r_txins brk (st0 p b h)).
Proof.
  intros H63. rewrite visit_txins_eq, r_txins_eq.
  destruct (cs_dec b) as [n cb rest| |] eqn:E.
  2:{ cbn. repeat split; try discriminate. }
  2:{ cbn. repeat split; try discriminate. }
  destruct (cs_dec_ok _ _ _ _ E) as [Hb [Hc Hn]].
  assert (F1 : (length rest < S (length b))%nat). { rewrite Hb, app_length. lia. }
  assert (F2 : (length rest < S (length rest))%nat) by lia.
  destruct (txins_loop_ref brk p b n H63 _ _ cb rest 0 (ETxIns n :: h) Hb F1 F2) as [L1 [L2 L3]].
  rewrite L3.
  destruct (loop_fuel (S (length rest)) txins_body 0 n brk (st0 (p + lenN cb) rest (ETxIns n :: h))) as [l s'|e h'|] eqn:LF.
  3:{ contradiction. }
  2:{ cbn. repeat split; try discriminate. }
  cbn [embed_loop consumed_from] in *. destruct L2 as [c2 [Hrest Hpos2]].
  set (c := cb ++ c2).
  assert (Hbc : b = c ++ inp s'). { unfold c. rewrite Hb, Hrest, app_assoc. reflexivity. }
  assert (Hpos : pos s' = p + lenN c). { unfold c. rewrite lenN_app. lia. }
  assert (H0n : 0 <= n) by lia.
  pose proof (loop_fuel_len _ _ _ _ _ _ _ _ H0n LF) as Hlen. rewrite N.sub_0_r in Hlen.
  repeat split; [discriminate| |].
  { intros a s2 HD. injection HD as <- <-. exists c. repeat split; try assumption.
    - unfold c. rewrite lenN_app. lia.
    - destruct (cs_dec_first _ _ _ _ E) as [b0 [t [Hcb Hz]]].
      unfold txins_is_empty. cbn [tis_slice]. unfold c. rewrite (first_byte_zero p cb c2 b0 t n Hcb Hz).
      rewrite list_empty_len, Hlen. reflexivity.
    - intros ->. change (lenN (@nil a_txin)) with 0 in Hlen. subst n.
      cbn [loop_fuel] in LF. change (0 <? 0) with false in LF. unfold ret in LF. injection LF as <-.
      cbn [pos st0] in Hpos2. assert (lenN c2 = 0) by lia.
      unfold c. rewrite lenN_app. rewrite (cs_dec_zero _ _ _ E). lia. }
  unfold finish_txins. rewrite Hpos. replace (p + lenN c - p) with (lenN c) by lia.
  rewrite Hbc. unfold sl at 1 2. rewrite s_from_app, s_to_app.
  cbn [embed_visit]. rewrite (view_app p c s' Hpos).
  rewrite Hlen, Hpos. reflexivity.
Qed.

(* ---- outputs (same structure) ---- *)
Definition txouts_body (i : N) : P a_txout :=
  bind (r_txout_ev i) (fun xe => match xe with (x, e) => bind (emitp e) (fun _ => ret x) end).

Lemma ref_txouts_step f i total brk q cur h :
  loop_fuel (S f) txouts_body i total brk (st0 q cur h) =
  if i <? total then
    match l_txout cur with
    | LErr e => Fail e h
    | LOk (v, cb, spk) r =>
        let ev := ev_of_txout i q v cb spk in
        if breakable ev && brk h ev then Fail VisitBreak (ev :: h)
        else match loop_fuel f txouts_body (i + 1) total brk (st0 (q + txout_len cb spk) r (ev :: h)) with
             | Done l s' => Done (a_of_txout v spk :: l) s'
             | Fail e h' => Fail e h'
             | Stuck => Stuck
             end
    end
  else Done [] (st0 q cur h).
Proof.
  cbn [loop_fuel]. destruct (i <? total); [|reflexivity].
  unfold bind at 1. unfold txouts_body at 1. unfold bind at 1. rewrite r_txout_ev_l.
  destruct (l_txout cur) as [[[v cb] spk] r|e]; [|reflexivity].
  cbn zeta. unfold bind at 1. unfold emitp at 1. unfold st0 at 1 2. cbn [hi pos inp].
  destruct (breakable _ && brk h _); [reflexivity|].
  unfold ret at 1. unfold bind at 1.
  change {| pos := q + txout_len cb spk; inp := r; hi := ev_of_txout i q v cb spk :: h |}
    with (st0 (q + txout_len cb spk) r (ev_of_txout i q v cb spk :: h)).
  destruct (loop_fuel f txouts_body (i + 1) total brk _); reflexivity.
Qed.

Lemma impl_txouts_step f i total brk p pre cur h :
  In63 (pre ++ cur) ->
  txouts_loop (S f) brk (sl p (pre ++ cur)) i total (lenN pre) h =
  if i <? total then
    match l_txout cur with
    | LErr e => (Err e, h)
    | LOk (v, cb, spk) r =>
        let ev := ev_of_txout i (p + lenN pre) v cb spk in
        if breakable ev && brk h ev then (Err VisitBreak, ev :: h)
        else txouts_loop f brk (sl p (pre ++ cur)) (i + 1) total (lenN pre + txout_len cb spk) (ev :: h)
    end
  else (Ok (lenN pre), h).
Proof.
  intros H63. cbn [txouts_loop]. destruct (i <? total); [|reflexivity].
  unfold mbind at 1. unfold lift at 1. unfold sl at 1. rewrite s_from_app. fold (sl (p + lenN pre) cur).
  unfold mbind at 1. unfold lift at 1.
  assert (H63c : In63 cur). { apply In63_suffix in H63. exact H63. }
  rewrite (parse_txout_l _ _ H63c).
  destruct (l_txout cur) as [[[v cb] spk] r|e] eqn:L; [|reflexivity].
  destruct (l_txout_ok _ _ _ _ _ L) as [Hcur [Lv Hc]].
  set (c := v ++ cb ++ spk) in *.
  assert (Lc : lenN c = txout_len cb spk). { unfold c, txout_len. rewrite !lenN_app. lia. }
  unfold mbind at 1. unfold lift at 1. unfold consumed_of. cbn [parsed remaining]. unfold mk_txout at 1. cbn [to_slice].
  unfold s_len, sl at 1. cbn [bytes]. fold c. unfold uadd.
  unfold In63, TWO63 in H63. rewrite Hcur, !lenN_app in H63.
  destruct (N.ltb_spec (lenN pre + lenN c) TWO64) as [_|Hbad]; [|unfold TWO64 in Hbad; lia].
  unfold mbind at 1. unfold lift at 1. rewrite (txout_event_ok i _ v cb spk Lv).
  unfold mbind at 1. unfold emit at 1. cbn zeta.
  destruct (breakable _ && brk h _); [reflexivity|].
  rewrite Lc. reflexivity.
Qed.

Lemma txouts_loop_ref brk p b total :
  In63 b ->
  forall fuelI fuelR pre cur i h,
  b = pre ++ cur -> (length cur < fuelI)%nat -> (length cur < fuelR)%nat ->
  loop_fuel fuelR txouts_body i total brk (st0 (p + lenN pre) cur h) <> Stuck /\
  consumed_from (p + lenN pre) cur (loop_fuel fuelR txouts_body i total brk (st0 (p + lenN pre) cur h)) /\
  txouts_loop fuelI brk (sl p b) i total (lenN pre) h
  = embed_loop p (loop_fuel fuelR txouts_body i total brk (st0 (p + lenN pre) cur h)).
Proof.
  intros H63. induction fuelI as [|fuelI IH]; intros fuelR pre cur i h Hb HfI HfR; [lia|].
  destruct fuelR as [|fuelR]; [lia|].
  subst b. rewrite (impl_txouts_step _ _ _ _ _ _ _ _ H63), ref_txouts_step.
  destruct (i <? total).
  2:{ cbn [embed_loop consumed_from st0 pos hi inp]. repeat split; try discriminate.
      - exists []. split; [reflexivity|change (lenN (@nil byte)) with 0; lia].
      - repeat f_equal. lia. }
  destruct (l_txout cur) as [[[v cb] spk] r|e] eqn:L.
  2:{ cbn [embed_loop consumed_from]. repeat split; discriminate. }
  destruct (l_txout_ok _ _ _ _ _ L) as [Hcur [Lv Hc]].
  set (c := v ++ cb ++ spk) in *.
  assert (Lc : lenN c = txout_len cb spk). { unfold c, txout_len. rewrite !lenN_app. lia. }
  cbn zeta. destruct (breakable _ && brk h _).
  { cbn [embed_loop consumed_from]. repeat split; discriminate. }
  assert (Hb' : pre ++ cur = (pre ++ c) ++ r). { rewrite Hcur, app_assoc. reflexivity. }
  assert (Hlt : (length r < length cur)%nat).
  { rewrite Hcur. apply length_lt_app. rewrite Lc. unfold txout_len. lia. }
  assert (HfI' : (length r < fuelI)%nat) by lia.
  assert (HfR' : (length r < fuelR)%nat) by lia.
  specialize (IH fuelR (pre ++ c) r (i + 1) (ev_of_txout i (p + lenN pre) v cb spk :: h) Hb' HfI' HfR').
  rewrite lenN_app, Lc in IH. replace (p + (lenN pre + txout_len cb spk)) with (p + lenN pre + txout_len cb spk) in IH by lia.
  destruct IH as [IH1 [IH2 IH3]].
  rewrite IH3.
  destruct (loop_fuel fuelR txouts_body (i + 1) total brk _) as [l s2|e2 h2|]; [|cbn; repeat split; discriminate|contradiction].
  cbn [embed_loop consumed_from] in *. repeat split; [discriminate|].
  destruct IH2 as [c2 [Hr Hp2]]. exists (c ++ c2).
  split; [rewrite Hcur, Hr, app_assoc; reflexivity|rewrite lenN_app, Lc; lia].
Qed.

Lemma r_txouts_eq brk p b h :
  r_txouts brk (st0 p b h) =
  match cs_dec b with
  | CsOk n cb rest => loop_fuel (S (length rest)) txouts_body 0 n brk (st0 (p + lenN cb) rest (ETxOuts n :: h))
  | CsMore => Fail MoreBytesNeeded h
  | CsNonMin => Fail NonMinimalVarInt h
  end.
Proof.
  unfold r_txouts. unfold bind at 1. rewrite r_compact_cs.
  destruct (cs_dec b) as [n cb rest| |]; reflexivity.
Qed.

Definition finish_txouts (p : N) (b : list byte) (total : N) (r : out N * hist) : out (presult txouts) * hist :=
  match r with
  | (Ok consumed, h') =>
      match s_from (sl p b) consumed with
      | Ok rm => match s_to (sl p b) consumed with
                 | Ok v => (Ok {| remaining := rm; parsed := {| tos_slice := v; tos_n := total |} |}, h')
                 | Err e => (Err e, h') | Panic w => (Panic w, h') | OutOfFuel => (OutOfFuel, h')
                 end
      | Err e => (Err e, h') | Panic w => (Panic w, h') | OutOfFuel => (OutOfFuel, h')
      end
  | (Err e, h') => (Err e, h')
  | (Panic w, h') => (Panic w, h')
  | (OutOfFuel, h') => (OutOfFuel, h')
  end.

Lemma visit_txouts_eq brk p b h :
  visit_txouts brk (sl p b) h =
  match cs_dec b with
  | CsOk n cb rest => finish_txouts p b n (txouts_loop (S (length b)) brk (sl p b) 0 n (lenN cb) (ETxOuts n :: h))
  | CsMore => (Err MoreBytesNeeded, h)
  | CsNonMin => (Err NonMinimalVarInt, h)
  end.
Proof.
  unfold visit_txouts, scan_len0. rewrite scan_len_spec, scan_result_cs. cbn [bytes sl].
  destruct (cs_dec b) as [n cb rest| |] eqn:E; try reflexivity.
  destruct (cs_dec_ok _ _ _ _ E) as [Hb [Hc Hn]].
  rewrite N.add_0_l.
  destruct (N.ltb_spec (lenN cb) TWO64) as [_|Hbad]; [|unfold TWO64 in Hbad; lia].
  unfold mbind at 1. unfold lift at 1.
  unfold mbind at 1. rewrite emit_nonbreakable by reflexivity.
  unfold mbind at 1. unfold finish_txouts.
  destruct (txouts_loop (S (length b)) brk (sl p b) 0 n (lenN cb) (ETxOuts n :: h)) as [[c| | |] h']; reflexivity.
Qed.

Theorem visit_txouts_ref brk p b h : In63 b ->
  r_txouts brk (st0 p b h) <> Stuck /\
  (forall a s', r_txouts brk (st0 p b h) = Done a s' ->
     exists c, b = c ++ inp s' /\ pos s' = p + lenN c /\ 1 <= lenN c /\
               txouts_is_empty {| tos_slice := sl p c; tos_n := lenN a |} = Ok (list_empty a)) /\
  visit_txouts brk (sl p b) h
  = embed_visit (fun a s' => {| tos_slice := view p b s'; tos_n := lenN a |}) (r_txouts brk (st0 p b h)).
Proof.
  intros H63. rewrite visit_txouts_eq, r_txouts_eq.
  destruct (cs_dec b) as [n cb rest| |] eqn:E.
  2:{ cbn. repeat split; try discriminate. }
  2:{ cbn. repeat split; try discriminate. }
  destruct (cs_dec_ok _ _ _ _ E) as [Hb [Hc Hn]].
  assert (F1 : (length rest < S (length b))%nat). { rewrite Hb, app_length. lia. }
  assert (F2 : (length rest < S (length rest))%nat) by lia.
  destruct (txouts_loop_ref brk p b n H63 _ _ cb rest 0 (ETxOuts n :: h) Hb F1 F2) as [L1 [L2 L3]].
  rewrite L3.
  destruct (loop_fuel (S (length rest)) txouts_body 0 n brk (st0 (p + lenN cb) rest (ETxOuts n :: h))) as [l s'|e h'|] eqn:LF.
  3:{ contradiction. }
  2:{ cbn. repeat split; try discriminate. }
  cbn [embed_loop consumed_from] in *. destruct L2 as [c2 [Hrest Hpos2]].
  set (c := cb ++ c2).
  assert (Hbc : b = c ++ inp s'). { unfold c. rewrite Hb, Hrest, app_assoc. reflexivity. }
  assert (Hpos : pos s' = p + lenN c). { unfold c. rewrite lenN_app. lia. }
  assert (H0n : 0 <= n) by lia.
  pose proof (loop_fuel_len _ _ _ _ _ _ _ _ H0n LF) as Hlen. rewrite N.sub_0_r in Hlen.
  repeat split; [discriminate| |].
  { intros a s2 HD. injection HD as <- <-. exists c. repeat split; try assumption.
    - unfold c. rewrite lenN_app. lia.
    - destruct (cs_dec_first _ _ _ _ E) as [b0 [t [Hcb Hz]]].
      unfold txouts_is_empty. cbn [tos_slice]. unfold c. rewrite (first_byte_zero p cb c2 b0 t n Hcb Hz).
      rewrite list_empty_len, Hlen. reflexivity. }
  unfold finish_txouts. rewrite Hpos. replace (p + lenN c - p) with (lenN c) by lia.
  rewrite Hbc. unfold sl at 1 2. rewrite s_from_app, s_to_app.
  cbn [embed_visit]. rewrite (view_app p c s' Hpos).
  rewrite Hlen, Hpos. reflexivity.
Qed.
