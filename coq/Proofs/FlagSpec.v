(* Proofs/FlagSpec.v — element counts and emptiness flags of the list objects, in terms of the
   abstract syntax: the count a successful parse stores is the length of the decoded list, and
   [is_empty()] (first byte of the object's slice == 0) holds exactly for the empty list. *)
From BS Require Import Impl.Visit Spec.Wire Ref.MetaDefs Proofs.SliceLemmas Proofs.ImplRefLeaf Proofs.ImplRefLists
  Proofs.ImplRefTx Proofs.Transfer Proofs.Entries Proofs.SpecLemmas Proofs.RefSpec Proofs.SpecTransfer.
From Coq Require Import ZifyN ZifyNat ZifyBool.
Open Scope N_scope.

Definition is_nil {A} (l : list A) : bool := match l with [] => true | _ => false end.

Lemma is_nil_len {A} (l : list A) : is_nil l = (lenN l =? 0).
Proof.
  destruct l as [|x t]; [reflexivity|]. rewrite lenN_cons. cbn [is_nil]. symmetry. apply N.eqb_neq. lia.
Qed.

Lemma forallb_list_empty_is_nil {A} (ws : list (list A)) : forallb list_empty ws = forallb is_nil ws.
Proof. reflexivity. Qed.

(* the first byte of a compact size is 0 exactly for the value 0 *)
Lemma cs_enc_head_zero : forall n, n < TWO64 -> exists b rest, cs_enc n = b :: rest /\ (b2n b =? 0) = (n =? 0).
Proof.
  intros n _. unfold cs_enc.
  destruct (N.ltb_spec n 253) as [Hs|Hl].
  - exists (n2b (n mod 256)), []. split; [reflexivity|].
    rewrite b2n_n2b by (apply N.mod_lt; lia). rewrite N.mod_small by lia. reflexivity.
  - assert (Hn : (n =? 0) = false) by (apply N.eqb_neq; lia).
    destruct (n <=? 65535); [|destruct (n <=? 4294967295)]; eexists; eexists; (split; [reflexivity|]);
      rewrite Hn; reflexivity.
Qed.

(* [self.slice[0] == 0] on the slice of an encoded list *)
Lemma enc_list_first_byte {A} (f : A -> list byte) p (a : list A) : lenN a < TWO64 ->
  obind (s_index (sl p (enc_list f a)) 0) (fun x => Ok (b2n x =? 0)) = Ok (is_nil a).
Proof.
  intros Hn. destruct (cs_enc_head_zero (lenN a) Hn) as [b0 [t [Hcb Hz]]].
  unfold enc_list. rewrite (first_byte_zero p (cs_enc (lenN a)) (flat_map f a) b0 t (lenN a) Hcb Hz).
  rewrite is_nil_len. reflexivity.
Qed.

Theorem txins_flags : forall brk p b h pr h', In63 b -> visit_txins brk (sl p b) h = (Ok pr, h') ->
  exists a, wf_txins a /\ b = enc_txins a ++ bytes (remaining pr) /\ tis_n (parsed pr) = lenN a /\
            txins_is_empty (parsed pr) = Ok (is_nil a).
Proof.
  intros brk p b h pr h' HD HV.
  destruct (T_ok_is_encoding_any E_txins S_txins brk p b h pr h' HD HV) as [a [Hwf [Hb [_ [_ [_ [x [Hx Hp]]]]]]]].
  cbn [s_proj S_txins spec_of_decodes] in Hx. subst x. exists a. split; [exact Hwf|split; [exact Hb|]].
  change (parsed pr = mk_txins (sl p (enc_txins a)) a h') in Hp. rewrite Hp.
  split; [reflexivity|].
  unfold txins_is_empty, mk_txins. cbn [tis_slice]. unfold enc_txins.
  apply enc_list_first_byte. exact (proj1 Hwf).
Qed.

Theorem txouts_flags : forall brk p b h pr h', In63 b -> visit_txouts brk (sl p b) h = (Ok pr, h') ->
  exists a, wf_txouts a /\ b = enc_txouts a ++ bytes (remaining pr) /\ tos_n (parsed pr) = lenN a /\
            txouts_is_empty (parsed pr) = Ok (is_nil a).
Proof.
  intros brk p b h pr h' HD HV.
  destruct (T_ok_is_encoding_any E_txouts S_txouts brk p b h pr h' HD HV) as [a [Hwf [Hb [_ [_ [_ [x [Hx Hp]]]]]]]].
  cbn [s_proj S_txouts spec_of_decodes] in Hx. subst x. exists a. split; [exact Hwf|split; [exact Hb|]].
  change (parsed pr = mk_txouts (sl p (enc_txouts a)) a h') in Hp. rewrite Hp.
  split; [reflexivity|].
  unfold txouts_is_empty, mk_txouts. cbn [tos_slice]. unfold enc_txouts.
  apply enc_list_first_byte. exact (proj1 Hwf).
Qed.

Theorem witness_flags : forall brk p b h pr h', In63 b -> visit_witness brk (sl p b) h = (Ok pr, h') ->
  exists a, wf_witness a /\ b = enc_witness a ++ bytes (remaining pr) /\
            witness_is_empty (parsed pr) = Ok (is_nil a).
Proof.
  intros brk p b h pr h' HD HV.
  destruct (T_ok_is_encoding_any E_witness S_witness brk p b h pr h' HD HV) as [a [Hwf [Hb [_ [_ [_ [x [Hx Hp]]]]]]]].
  cbn [s_proj S_witness spec_of_decodes] in Hx. subst x. exists a. split; [exact Hwf|split; [exact Hb|]].
  change (parsed pr = mk_witness (sl p (enc_witness a)) a h') in Hp. rewrite Hp.
  unfold witness_is_empty, mk_witness. cbn [w_slice]. unfold enc_witness.
  apply enc_list_first_byte. exact (proj1 Hwf).
Qed.

Theorem witnesses_flags : forall n brk p b h pr h', In63 b -> visit_witnesses brk (sl p b) n h = (Ok pr, h') ->
  exists ws, lenN ws = n /\ b = enc_witnesses ws ++ bytes (remaining pr) /\
             ws_all_empty (parsed pr) = forallb is_nil ws.
Proof.
  intros n brk p b h pr h' HD HV.
  destruct (T_ok_is_encoding_any (E_witnesses n) (S_witnesses n) brk p b h pr h' HD HV)
    as [ws [[_ Hlen] [Hb [_ [_ [_ [x [Hx Hp]]]]]]]].
  cbn [s_proj S_witnesses] in Hx. subst x. exists ws. split; [exact Hlen|split; [exact Hb|]].
  change (parsed pr = mk_witnesses (sl p (enc_witnesses ws)) ws h') in Hp. rewrite Hp.
  unfold mk_witnesses. cbn [ws_all_empty]. apply forallb_list_empty_is_nil.
Qed.

Theorem block_total : forall brk p b h pr h', InLen b -> visit_block brk (sl p b) h = (Ok pr, h') ->
  exists a, wf_block a /\ b = enc_block a ++ bytes (remaining pr) /\ b_total (parsed pr) = lenN (ab_txs a).
Proof.
  intros brk p b h pr h' HD HV.
  destruct (T_ok_is_encoding_any E_block S_block brk p b h pr h' HD HV) as [a [Hwf [Hb [_ [_ [_ [x [Hx Hp]]]]]]]].
  cbn [s_proj S_block spec_of_decodes] in Hx. subst x. exists a. split; [exact Hwf|split; [exact Hb|]].
  change (parsed pr = mk_block (sl p (enc_block a)) a h') in Hp. rewrite Hp. reflexivity.
Qed.
