(* Proofs/ImplRefBlock.v — refinement Impl = Ref for Block. *)
From BS Require Import Impl.Visit Ref.Grammar Ref.MetaDefs Ref.Meta1 Proofs.SliceLemmas Proofs.Numbers Proofs.Len Proofs.CsDec
  Proofs.ImplRefLeaf Proofs.ImplRefLists Proofs.ImplRefWitness Proofs.ImplRefTx.
From Coq Require Import ZifyN ZifyNat ZifyBool.
Open Scope N_scope.

Lemma InLen_suffix a b : InLen (a ++ b) -> InLen b.
Proof. unfold InLen. rewrite lenN_app. lia. Qed.

Definition block_body (i : N) : P a_tx := r_tx.

Lemma ref_block_step f i total brk s :
  loop_fuel (S f) block_body i total brk s =
  if i <? total then
    match r_tx brk s with
    | Done t s1 =>
        match loop_fuel f block_body (i + 1) total brk s1 with
        | Done l s' => Done (t :: l) s'
        | Fail e h' => Fail e h'
        | Stuck => Stuck
        end
    | Fail e h' => Fail e h'
    | Stuck => Stuck
    end
  else Done [] s.
Proof.
  cbn [loop_fuel]. destruct (i <? total); [|reflexivity].
  unfold bind, block_body, ret. destruct (r_tx brk s) as [t s1| |]; reflexivity.
Qed.

Lemma block_loop_ref brk p b total :
  InLen b ->
  forall fuelI fuelR pre cur i h,
  b = pre ++ cur -> (length cur < fuelI)%nat -> (length cur < fuelR)%nat ->
  loop_fuel fuelR block_body i total brk (st0 (p + lenN pre) cur h) <> Stuck /\
  consumed_from (p + lenN pre) cur (loop_fuel fuelR block_body i total brk (st0 (p + lenN pre) cur h)) /\
  block_loop fuelI brk (sl p b) i total (lenN pre) h
  = embed_loop p (loop_fuel fuelR block_body i total brk (st0 (p + lenN pre) cur h)).
Proof.
  intros HL. induction fuelI as [|fuelI IH]; intros fuelR pre cur i h Hb HfI HfR; [lia|].
  destruct fuelR as [|fuelR]; [lia|].
  rewrite ref_block_step. cbn [block_loop]. destruct (i <? total).
  2:{ unfold mret. cbn [embed_loop consumed_from st0 pos hi inp]. repeat split; try discriminate.
      - exists []. split; [reflexivity|change (lenN (@nil byte)) with 0; lia].
      - repeat f_equal. lia. }
  unfold mbind at 1. unfold lift at 1. rewrite Hb at 1. unfold sl at 1. rewrite s_from_app. fold (sl (p + lenN pre) cur).
  assert (HLc : InLen cur). { rewrite Hb in HL. apply InLen_suffix in HL. exact HL. }
  unfold mbind at 1. rewrite (visit_transaction_ref brk (p + lenN pre) cur h HLc).
  destruct (r_tx brk (st0 (p + lenN pre) cur h)) as [t s1|e h1|] eqn:RT.
  3:{ exfalso. exact (r_tx_NoStuck brk _ RT). }
  2:{ cbn [embed_tx embed_loop consumed_from]. repeat split; discriminate. }
  destruct (Consumes_done r_tx r_tx_Consumes brk _ t s1 RT) as [c [Hcur [Hpos _]]].
  pose proof (r_tx_Progress brk _ t s1 RT) as Hprog. cbn [inp pos st0] in Hcur, Hpos, Hprog.
  cbn [embed_tx]. unfold mbind at 1. unfold lift at 1. unfold consumed_of. cbn [parsed remaining tx_slice].
  assert (Hview : view (p + lenN pre) cur s1 = sl (p + lenN pre) c). { rewrite Hcur. apply view_app. exact Hpos. }
  rewrite Hview. unfold s_len, sl at 1. cbn [bytes]. unfold uadd.
  assert (Hlen : lenN b = lenN pre + lenN c + lenN (inp s1)). { rewrite Hb, Hcur, !lenN_app. lia. }
  unfold InLen in HL.
  destruct (N.ltb_spec (lenN pre + lenN c) TWO64) as [_|Hbad]; [|unfold TWO64 in Hbad; lia].
  assert (Hb' : b = (pre ++ c) ++ inp s1). { rewrite Hb, Hcur, app_assoc. reflexivity. }
  assert (HfI' : (length (inp s1) < fuelI)%nat) by lia.
  assert (HfR' : (length (inp s1) < fuelR)%nat) by lia.
  specialize (IH fuelR (pre ++ c) (inp s1) (i + 1) (hi s1) Hb' HfI' HfR').
  rewrite lenN_app in IH. replace (p + (lenN pre + lenN c)) with (pos s1) in IH by lia.
  replace (st0 (pos s1) (inp s1) (hi s1)) with s1 in IH by (destruct s1; reflexivity).
  destruct IH as [IH1 [IH2 IH3]].
  rewrite IH3.
  destruct (loop_fuel fuelR block_body (i + 1) total brk s1) as [l s2|e2 h2|]; [|cbn; repeat split; discriminate|contradiction].
  cbn [embed_loop consumed_from] in *. repeat split; [discriminate|].
  destruct IH2 as [c2 [Hr Hp2]]. exists (c ++ c2).
  split; [rewrite Hcur, Hr, app_assoc; reflexivity|rewrite lenN_app; lia].
Qed.

Definition embed_block (p : N) (b : list byte) (o : outcome a_block) : out (presult block) * hist :=
  match o with
  | Done a s' =>
      (Ok {| remaining := sl (pos s') (inp s');
             parsed := {| b_slice := view p b s';
                          b_header := {| h_slice := sl p (firstn 80 (bytes (view p b s')));
                                         h_version := ah_version (ab_header a); h_time := ah_time (ab_header a);
                                         h_bits := ah_bits (ab_header a); h_nonce := ah_nonce (ab_header a) |};
                          b_total := lenN (ab_txs a) |} |}, hi s')
  | Fail e h' => (Err e, h')
  | Stuck => (OutOfFuel, [])
  end.

Lemma r_block_eq brk p b h :
  r_block brk (st0 p b h) =
  match l_header b with
  | LErr e => Fail e h
  | LOk (v, pv, mk, t, bi, nc) r =>
      let ev := ev_of_header p v t nc in
      if brk h ev then Fail VisitBreak (ev :: h)
      else match cs_dec r with
           | CsOk n cb rest =>
               match loop_fuel (S (length rest)) block_body 0 n brk (st0 (p + 80 + lenN cb) rest (EBlockBegin n :: ev :: h)) with
               | Done l s' => Done {| ab_header := a_of_header v pv mk t bi nc; ab_txs := l |} s'
               | Fail e h' => Fail e h'
               | Stuck => Stuck
               end
           | CsMore => Fail MoreBytesNeeded (ev :: h)
           | CsNonMin => Fail NonMinimalVarInt (ev :: h)
           end
  end.
Proof.
  unfold r_block. unfold bind at 1. rewrite r_header_l.
  destruct (l_header b) as [[[[[[v pv] mk] t] bi] nc] r|e]; [|reflexivity].
  cbn zeta. destruct (brk h (ev_of_header p v t nc)); [reflexivity|].
  unfold bind at 1. rewrite r_compact_cs.
  destruct (cs_dec r) as [n cb rest| |]; reflexivity.
Qed.

Theorem visit_block_ref brk p b h : InLen b ->
  r_block brk (st0 p b h) <> Stuck /\
  visit_block brk (sl p b) h = embed_block p b (r_block brk (st0 p b h)).
Proof.
  intros HL. pose proof (InLen_In63 b HL) as H63.
  rewrite r_block_eq. unfold visit_block.
  unfold mbind at 1. rewrite visit_header_l.
  destruct (l_header b) as [[[[[[v pv] mk] t] bi] nc] r|e] eqn:L.
  2:{ cbn. split; [discriminate|reflexivity]. }
  destruct (l_header_ok _ _ _ _ _ _ _ _ L) as [Hb [Lv [Lpv [Lmk [Lt [Lbi Lnc]]]]]].
  cbn zeta. destruct (brk h (ev_of_header p v t nc)).
  { cbn. split; [discriminate|reflexivity]. }
  set (hb := v ++ pv ++ mk ++ t ++ bi ++ nc) in *.
  assert (Lhb : lenN hb = 80). { unfold hb. rewrite !lenN_app. lia. }
  set (h0 := ev_of_header p v t nc :: h).
  unfold mbind at 1. unfold lift at 1. cbn [remaining parsed].
  unfold scan_len0. rewrite scan_len_spec, scan_result_cs. cbn [bytes sl].
  destruct (cs_dec r) as [n cb rest| |] eqn:E.
  2:{ cbn. split; [discriminate|reflexivity]. }
  2:{ cbn. split; [discriminate|reflexivity]. }
  destruct (cs_dec_ok _ _ _ _ E) as [Hr [Hc Hn]].
  rewrite N.add_0_l.
  destruct (N.ltb_spec (lenN cb) TWO64) as [_|Hbad]; [|unfold TWO64 in Hbad; lia].
  unfold mbind at 1. unfold lift at 1. unfold uadd.
  destruct (N.ltb_spec (lenN cb + 80) TWO64) as [_|Hbad]; [|unfold TWO64 in Hbad; lia].
  unfold mbind at 1. rewrite emit_nonbreakable by reflexivity.
  set (pre := hb ++ cb).
  assert (Hbp : b = pre ++ rest). { unfold pre. rewrite Hb, Hr, <- !app_assoc. reflexivity. }
  assert (Lpre : lenN pre = lenN cb + 80). { unfold pre. rewrite lenN_app. lia. }
  assert (F1 : (length rest < S (length b))%nat). { rewrite Hbp, app_length. lia. }
  assert (F2 : (length rest < S (length rest))%nat) by lia.
  destruct (block_loop_ref brk p b n HL _ _ pre rest 0 (EBlockBegin n :: h0) Hbp F1 F2) as [B1 [B2 B3]].
  rewrite Lpre in B1, B2, B3.
  replace (p + (lenN cb + 80)) with (p + 80 + lenN cb) in B1, B2, B3 by lia.
  unfold mbind at 1. rewrite B3. fold h0.
  destruct (loop_fuel (S (length rest)) block_body 0 n brk (st0 (p + 80 + lenN cb) rest (EBlockBegin n :: h0))) as [l s'|e h'|] eqn:LF.
  3:{ contradiction. }
  2:{ cbn. split; [discriminate|reflexivity]. }
  cbn [embed_loop consumed_from] in *. destruct B2 as [c2 [Hrest Hpos2]].
  split; [discriminate|].
  set (c := pre ++ c2).
  assert (Hbc : b = c ++ inp s'). { unfold c. rewrite Hbp, Hrest, app_assoc. reflexivity. }
  assert (Hpos : pos s' = p + lenN c). { unfold c. rewrite lenN_app, Lpre. lia. }
  unfold mbind at 1. unfold lift at 1. rewrite Hpos. replace (p + lenN c - p) with (lenN c) by lia.
  rewrite Hbc at 1. unfold sl at 1. rewrite s_split_app.
  unfold mret. cbn [embed_block ab_header ab_txs].
  assert (Hview : view p b s' = sl p c). { rewrite Hbc. apply view_app. exact Hpos. }
  rewrite Hview.
  assert (H0n : 0 <= n) by lia.
  rewrite (loop_fuel_len _ _ _ _ _ _ _ _ H0n LF), N.sub_0_r.
  assert (Hf80 : firstn 80 (bytes (sl p c)) = hb).
  { cbn [bytes sl]. unfold c, pre. rewrite <- !app_assoc.
    replace 80%nat with (N.to_nat (lenN hb)) by (rewrite Lhb; reflexivity). apply firstn_lenN_app. }
  rewrite Hf80, Hpos. reflexivity.
Qed.
