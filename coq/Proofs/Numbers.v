(* Proofs/Numbers.v — src/number.rs and src/slice.rs: total characterisations
   (no panic) and the little-endian codec laws (C18). *)
From BS Require Import Impl.Leaf Proofs.SliceLemmas.
From Coq Require Import ZifyN ZifyNat ZifyBool.
Open Scope N_scope.

Lemma read_slice_spec s n :
  read_slice s n = match splitN (bytes s) n with
                   | Some (a, b) => Ok {| remaining := {| off := off s + n; bytes := b |};
                                          parsed := {| off := off s; bytes := a |} |}
                   | None => Err MoreBytesNeeded
                   end.
Proof.
  unfold read_slice, s_len_lt, s_split. destruct (splitN (bytes s) n) as [[a b]|]; reflexivity.
Qed.

Lemma split_at_checked_spec s n :
  split_at_checked s n = match splitN (bytes s) n with
                         | Some (a, b) => Ok ({| off := off s; bytes := a |}, {| off := off s + n; bytes := b |})
                         | None => Err MoreBytesNeeded
                         end.
Proof.
  unfold split_at_checked, s_len_lt, s_split. destruct (splitN (bytes s) n) as [[a b]|]; reflexivity.
Qed.

Lemma parse_num_spec w s :
  parse_num w s = match splitN (bytes s) w with
                  | Some (a, b) => Ok {| remaining := {| off := off s + w; bytes := b |};
                                         parsed := {| num_bytes := a |} |}
                  | None => Err MoreBytesNeeded
                  end.
Proof.
  unfold parse_num. rewrite read_slice_spec.
  destruct (splitN (bytes s) w) as [[a b]|] eqn:E; [|reflexivity].
  apply splitN_Some in E. destruct E as [_ L].
  cbn [obind parsed remaining bytes]. unfold to_array. rewrite L, N.eqb_refl. reflexivity.
Qed.

Lemma parse_u8_spec s :
  parse_u8 s = match bytes s with
               | x :: b => Ok {| remaining := {| off := off s + 1; bytes := b |}; parsed := {| num_bytes := [x] |} |}
               | [] => Err MoreBytesNeeded
               end.
Proof.
  unfold parse_u8. rewrite read_slice_spec.
  destruct (bytes s) as [|x b]; [reflexivity|].
  pose proof (splitN_app [x] b) as E. change (lenN [x]) with 1 in E. cbn [app] in E.
  rewrite E. cbn [obind parsed remaining]. unfold s_index. cbn [bytes]. rewrite splitN_0. reflexivity.
Qed.

Lemma s_get_to_spec s w :
  s_get_to s w = match splitN (bytes s) w with
                 | Some (a, _) => Some {| off := off s; bytes := a |}
                 | None => None
                 end.
Proof.
  unfold s_get_to, s_get_range. destruct (N.ltb_spec w 0); [lia|].
  rewrite splitN_0. rewrite N.sub_0_r, N.add_0_r.
  destruct (splitN (bytes s) w) as [[a b]|]; reflexivity.
Qed.

Lemma read_le_spec w s :
  read_le w s = match splitN (bytes s) w with
                | Some (a, _) => Ok (le_dec a)
                | None => Err MoreBytesNeeded
                end.
Proof.
  unfold read_le. rewrite s_get_to_spec.
  destruct (splitN (bytes s) w) as [[a b]|] eqn:E; [|reflexivity].
  apply splitN_Some in E. destruct E as [_ L].
  cbn [bytes]. unfold to_array. rewrite L, N.eqb_refl. reflexivity.
Qed.

Lemma read_u8_spec s :
  read_u8 s = match bytes s with x :: _ => Ok (b2n x) | [] => Err MoreBytesNeeded end.
Proof. unfold read_u8, s_first. destruct (bytes s); reflexivity. Qed.

(* ---- C18: exact little-endian bijections ---- *)

Lemma wrap_unwrap (w : nat) v : v < 256 ^ N.of_nat w -> num_to_prim (num_from_prim w v) = v.
Proof. intros H. unfold num_to_prim, num_from_prim. cbn [num_bytes]. apply le_dec_enc. exact H. Qed.

Lemma unwrap_wrap (x : num) : num_from_prim (length (num_bytes x)) (num_to_prim x) = x.
Proof. destruct x as [b]. unfold num_from_prim, num_to_prim. cbn [num_bytes]. rewrite le_enc_dec. reflexivity. Qed.

Lemma wrap_unwrap_i32 z : (-2147483648 <= z < 2147483648)%Z -> num_to_i32 (num_from_i32 z) = z.
Proof.
  intros H. unfold num_to_i32, num_from_i32. cbn [num_bytes].
  rewrite le_dec_enc.
  - apply i32_of_n_of_i32. exact H.
  - pose proof (n_of_i32_range z H). change (256 ^ N.of_nat 4) with 4294967296. lia.
Qed.

Lemma as_ref_le (w : nat) v : num_as_ref (num_from_prim w v) = le_enc w v.
Proof. reflexivity. Qed.

Lemma parse_le (w : nat) v p rest :
  parse_num (N.of_nat w) {| off := p; bytes := le_enc w v ++ rest |}
  = Ok {| remaining := {| off := p + N.of_nat w; bytes := rest |}; parsed := num_from_prim w v |}.
Proof.
  rewrite parse_num_spec. cbn [bytes off].
  rewrite (splitN_app_exact (le_enc w v) rest) by (rewrite lenN_le_enc; reflexivity).
  reflexivity.
Qed.

Lemma read_le_ok (w : nat) v p rest : v < 256 ^ N.of_nat w ->
  read_le (N.of_nat w) {| off := p; bytes := le_enc w v ++ rest |} = Ok v.
Proof.
  intros H. rewrite read_le_spec. cbn [bytes].
  rewrite (splitN_app_exact (le_enc w v) rest) by (rewrite lenN_le_enc; reflexivity).
  rewrite le_dec_enc by exact H. reflexivity.
Qed.

Lemma parse_short w s : s_len s < w -> parse_num w s = Err MoreBytesNeeded.
Proof.
  intros H. rewrite parse_num_spec. unfold s_len in H.
  destruct (splitN (bytes s) w) as [[a b]|] eqn:E; [|reflexivity].
  apply splitN_Some in E. destruct E as [E L]. rewrite E, lenN_app in H. lia.
Qed.

Lemma read_short w s : s_len s < w -> read_le w s = Err MoreBytesNeeded.
Proof.
  intros H. rewrite read_le_spec. unfold s_len in H.
  destruct (splitN (bytes s) w) as [[a b]|] eqn:E; [|reflexivity].
  apply splitN_Some in E. destruct E as [E L]. rewrite E, lenN_app in H. lia.
Qed.

Lemma parse_unique w s r : parse_num w s = Ok r ->
  bytes s = le_enc (N.to_nat w) (num_to_prim (parsed r)) ++ bytes (remaining r) /\
  lenN (num_as_ref (parsed r)) = w /\ off (remaining r) = off s + w.
Proof.
  rewrite parse_num_spec. destruct (splitN (bytes s) w) as [[a b]|] eqn:E; [|discriminate].
  intros H. injection H as <-. cbn [parsed remaining bytes off num_bytes num_as_ref].
  apply splitN_Some in E. destruct E as [E L].
  unfold num_to_prim. cbn [num_bytes].
  replace (N.to_nat w) with (length a) by (unfold lenN in L; lia).
  rewrite le_enc_dec. repeat split; [exact E|exact L].
Qed.

(* parse and read never panic *)
Lemma parse_num_total w s : (exists r, parse_num w s = Ok r) \/ parse_num w s = Err MoreBytesNeeded.
Proof. rewrite parse_num_spec. destruct (splitN (bytes s) w) as [[a b]|]; [left; eexists; reflexivity|right; reflexivity]. Qed.
Lemma read_le_total w s : (exists v, read_le w s = Ok v) \/ read_le w s = Err MoreBytesNeeded.
Proof. rewrite read_le_spec. destruct (splitN (bytes s) w) as [[a b]|]; [left; eexists; reflexivity|right; reflexivity]. Qed.

(* ---- to_len: succeeds exactly when the width is the minimal one ---- *)
Definition cs_width_of (n : N) : N :=
  if n <? 253 then 1 else if n <=? 65535 then 3 else if n <=? 4294967295 then 5 else 9.

Lemma to_len_u16_spec v : v < 65536 ->
  to_len_u16 (num_from_prim 2 v) =
  if cs_width_of v =? 3 then Ok {| len_consumed := 3; len_n := v |} else Err NonMinimalVarInt.
Proof.
  intros H. unfold to_len_u16. rewrite wrap_unwrap by (change (256 ^ N.of_nat 2) with 65536; lia).
  unfold cs_width_of.
  destruct (N.leb_spec 253 v); destruct (N.ltb_spec v 253); try lia; [|reflexivity].
  destruct (N.leb_spec v 65535); [reflexivity|lia].
Qed.

Lemma to_len_u32_spec v : v < 4294967296 ->
  to_len_u32 (num_from_prim 4 v) =
  if cs_width_of v =? 5 then Ok {| len_consumed := 5; len_n := v |} else Err NonMinimalVarInt.
Proof.
  intros H. unfold to_len_u32, U16MAX. rewrite wrap_unwrap by (change (256 ^ N.of_nat 4) with 4294967296; lia).
  unfold cs_width_of.
  destruct (N.ltb_spec 65535 v); destruct (N.ltb_spec v 253); destruct (N.leb_spec v 65535); try lia; try reflexivity.
  destruct (N.leb_spec v 4294967295); [reflexivity|lia].
Qed.

Lemma to_len_u64_spec v : v < 18446744073709551616 ->
  to_len_u64 (num_from_prim 8 v) =
  if cs_width_of v =? 9 then Ok {| len_consumed := 9; len_n := v |} else Err NonMinimalVarInt.
Proof.
  intros H. unfold to_len_u64, U32MAX. rewrite wrap_unwrap by (change (256 ^ N.of_nat 8) with 18446744073709551616; lia).
  unfold cs_width_of.
  destruct (N.ltb_spec 4294967295 v); destruct (N.ltb_spec v 253); destruct (N.leb_spec v 65535);
    destruct (N.leb_spec v 4294967295); try lia; reflexivity.
Qed.
