(* Proofs/ObjSpec.v — what a successful parse returns, object by object, in terms of
   the abstract syntax (the values every accessor exposes). *)
From BS Require Import Impl.Visit Impl.Access Ref.Grammar Ref.MetaDefs Proofs.SliceLemmas Proofs.Numbers Proofs.CsDec
  Proofs.ImplRefLeaf Proofs.ImplRefLists Proofs.ImplRefTx Proofs.Transfer Proofs.Entries Proofs.SpecLemmas Proofs.RefSpec
  Proofs.SpecTransfer Proofs.TxSpec.
From Coq Require Import ZifyN ZifyNat ZifyBool.
Open Scope N_scope.

(* ---- transaction ---- *)
Theorem tx_parsed_is_obj brk p b h pr h' : InLen b -> visit_transaction brk (sl p b) h = (Ok pr, h') ->
  exists t, wf_tx t /\ b = enc_tx t ++ bytes (remaining pr) /\ parsed pr = obj_tx p t /\
            off (remaining pr) = p + lenN (enc_tx t) /\ h' = rev (trav_tx p t) ++ h.
Proof.
  intros HD HV.
  destruct (T_ok_is_encoding_any E_transaction S_transaction brk p b h pr h' HD HV) as [t [Hwf [Hb [_ [Ho [Hh [x [Hx Hp]]]]]]]].
  cbn [s_proj S_transaction spec_of_decodes] in Hx. subst x.
  exists t. split; [exact Hwf|split; [exact Hb|split; [|split; [exact Ho|exact Hh]]]].
  rewrite Hh in Hp. etransitivity; [exact Hp|]. apply mk_tx_obj.
Qed.

(* ---- inputs / outputs as delivered to the visitor: the callback for element i at offset q carries
   exactly the windows and values Spec/Wire.v defines ---- *)
Theorem txin_parsed_is_spec i p b pr : In63 b -> parse_txin (sl p b) = Ok pr ->
  exists a, wf_txin a /\ b = enc_txin a ++ bytes (remaining pr) /\ ti_slice (parsed pr) = sl p (enc_txin a) /\
            txin_event i (parsed pr) = Ok (ev_txin i p a) /\ ti_sequence (parsed pr) = ai_seq a.
Proof.
  intros HD. rewrite (parse_txin_l p b HD).
  pose proof (r_txin_ev_l i never p b []) as RL.
  destruct (l_txin b) as [[[[[t v] cb] sg] q] r|e] eqn:L; [|discriminate].
  destruct (l_txin_ok _ _ _ _ _ _ _ L) as [Hb [Lt [Lv [_ Lq]]]].
  intros HH. injection HH as <-. cbn [parsed remaining bytes sl].
  destruct (r_txin_ev_sound i never _ _ _ _ RL) as [Hwf [Hi [He [Hp _]]]]. cbn [inp pos st0] in Hi, He, Hp.
  exists (a_of_txin t v sg q). split; [exact Hwf|split; [exact Hi|split; [|split; [|reflexivity]]]].
  - unfold mk_txin. cbn [ti_slice]. f_equal.
    rewrite Hb in Hi. apply app_inv_len in Hi; [exact (proj1 Hi)|]. unfold txin_len in Hp. rewrite !lenN_app. lia.
  - rewrite (txin_event_ok i p t v cb sg q Lt Lv Lq). f_equal. exact He.
Qed.

Theorem txout_parsed_is_spec i p b pr : In63 b -> parse_txout (sl p b) = Ok pr ->
  exists a, wf_txout a /\ b = enc_txout a ++ bytes (remaining pr) /\ to_slice (parsed pr) = sl p (enc_txout a) /\
            txout_event i (parsed pr) = Ok (ev_txout i p a) /\ to_value (parsed pr) = ao_value a /\
            txout_script_pubkey (parsed pr) = Ok (sl (script_data_off (p + 8) (ao_spk a)) (ao_spk a)).
Proof.
  intros HD. rewrite (parse_txout_l p b HD).
  pose proof (r_txout_ev_l i never p b []) as RL.
  destruct (l_txout b) as [[[v cb] spk] r|e] eqn:L; [|discriminate].
  destruct (l_txout_ok _ _ _ _ _ L) as [Hb [Lv _]].
  intros HH. injection HH as <-. cbn [parsed remaining bytes sl].
  destruct (r_txout_ev_sound i never _ _ _ _ RL) as [Hwf [Hi [He [Hp _]]]]. cbn [inp pos st0] in Hi, He, Hp.
  exists (a_of_txout v spk). split; [exact Hwf|split; [exact Hi|split; [|split; [|split; [reflexivity|]]]]].
  - unfold mk_txout. cbn [to_slice]. f_equal.
    rewrite Hb in Hi. apply app_inv_len in Hi; [exact (proj1 Hi)|]. unfold txout_len in Hp. rewrite !lenN_app. lia.
  - rewrite (txout_event_ok i p v cb spk Lv). f_equal. exact He.
  - unfold txout_script_pubkey, mk_txout. cbn [to_spk]. rewrite script_script_ok. f_equal.
    unfold ev_of_txout, ev_txout in He. cbn [ao_spk a_of_txout] in *. injection He as _ Hd. rewrite Hd. reflexivity.
Qed.

(* ---- header ---- *)
Theorem header_parsed_is_spec brk p b h pr h' : In63 b -> visit_header brk (sl p b) h = (Ok pr, h') ->
  exists a, wf_header a /\ b = enc_header a ++ bytes (remaining pr) /\ h_slice (parsed pr) = sl p (enc_header a) /\
            lenN (enc_header a) = 80 /\
            h_version (parsed pr) = ah_version a /\ h_time (parsed pr) = ah_time a /\ h_nonce (parsed pr) = ah_nonce a /\
            header_prev_blockhash (parsed pr) = Ok (sl (p + 4) (ah_prev a)) /\
            header_merkle_root (parsed pr) = Ok (sl (p + 36) (ah_merkle a)).
Proof.
  intros HD HV.
  destruct (T_ok_is_encoding_any E_header S_header brk p b h pr h' HD HV) as [a [Hwf [Hb [Hs [_ [_ [x [Hx Hp]]]]]]]].
  cbn [s_proj S_header spec_of_decodes] in Hx. subst x.
  cbn [s_enc S_header spec_of_decodes e_sl E_header] in *.
  exists a. change (parsed pr = mk_hdr (sl p (enc_header a)) a h') in Hp. rewrite Hp. cbn [mk_hdr h_slice h_version h_time h_nonce].
  pose proof Hwf as Hwf'. destruct Hwf' as [Hv [Lp [Lm [Ht [Hbi Hn]]]]].
  assert (L80 : lenN (enc_header a) = 80). { rewrite lenN_enc_header, Lp, Lm. reflexivity. }
  split; [exact Hwf|split; [exact Hb|split; [reflexivity|split; [exact L80|split; [reflexivity|split; [reflexivity|split; [reflexivity|split]]]]]]].
  - unfold header_prev_blockhash. cbn [h_slice]. unfold enc_header.
    pose proof (s_range_mid p (enc_i32 (ah_version a)) (ah_prev a) (ah_merkle a ++ le_enc 4 (ah_time a) ++ le_enc 4 (ah_bits a) ++ le_enc 4 (ah_nonce a))) as G.
    rewrite lenN_enc_i32, Lp in G. exact G.
  - unfold header_merkle_root. cbn [h_slice]. unfold enc_header.
    pose proof (s_range_mid p (enc_i32 (ah_version a) ++ ah_prev a) (ah_merkle a) (le_enc 4 (ah_time a) ++ le_enc 4 (ah_bits a) ++ le_enc 4 (ah_nonce a))) as G.
    rewrite lenN_app, lenN_enc_i32, Lp, Lm in G. change (4 + 32) with 36 in G. change (36 + 32) with 68 in G.
    cbn [mk_hdr h_slice]. rewrite <- app_assoc in G. exact G.
Qed.
