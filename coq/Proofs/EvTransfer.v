(* Proofs/EvTransfer.v — event soundness and error propagation transferred to the Rust-faithful model. *)
From BS Require Import Impl.Visit Ref.Grammar Ref.MetaDefs Ref.Meta1 Proofs.CsDec Proofs.ImplRefLeaf Proofs.ImplRefLists Proofs.ImplRefTx
  Proofs.Transfer Proofs.Entries Proofs.SpecLemmas Proofs.RefSpec Proofs.EvSound Proofs.Propagation.
From Coq Require Import ZifyN ZifyNat ZifyBool.
Open Scope N_scope.

Lemma covered_EvSound E : covered E -> EvSound (e_r E).
Proof.
  intros Hc. destruct Hc; cbn [e_r E_script E_outpoint E_txin E_txout E_txins E_txouts E_witness E_witnesses E_transaction E_header E_block].
  - apply EvSound_silent, r_script_pos_Silent.
  - apply EvSound_silent, r_outpoint_Silent.
  - apply EvSound_silent, r_txin_ev_Silent.
  - apply EvSound_silent, r_txout_ev_Silent.
  - apply EvSound_r_txins.
  - apply EvSound_r_txouts.
  - apply EvSound_r_witness.
  - apply EvSound_r_witnesses.
  - apply EvSound_r_tx.
  - apply EvSound_r_header.
  - apply EvSound_r_block.
Qed.

(* on ANY input, valid or not, under ANY visitor: every callback delivered describes data really in the input *)
Theorem T_ev_sound E : covered E -> forall brk p b h, e_D E b ->
  exists d, snd (e_visit E brk (sl p b) h) = rev d ++ h /\ Forall (ev_sound p b) d.
Proof.
  intros Hc brk p b h HD. rewrite (e_ref E brk p b h HD).
  destruct (e_good E) as [_ [NS _]].
  destruct (EvSound_total (e_r E) (covered_EvSound E Hc) NS brk p b h) as [d [Ho Hs]].
  exists d. split; [|exact Hs]. unfold run_ref in Ho. change {| pos := p; inp := b; hi := h |} with (st0 p b h) in Ho.
  destruct (e_r E brk (st0 p b h)) as [a s'|e h'|]; cbn [out_hist embedG snd] in *; try discriminate; injection Ho as Ho; exact Ho.
Qed.

(* a non-minimal script length inside output j of (legacy) transaction i of a block: the block visit fails
   with NonMinimalVarInt having delivered exactly the traversal of everything before that output *)
Theorem nested_nonminimal_impl p h hdr pre post t opre opost o rest :
  wf_block {| ab_header := hdr; ab_txs := pre ++ t :: post |} -> at_form t = Legacy -> at_outs t = opre ++ o :: opost ->
  lenN (ao_spk o) < 253 ->
  let b := patched_block_legacy (xfd :: le_enc 2 (lenN (ao_spk o))) hdr pre t opre o opost post ++ rest in
  InLen b ->
  visit_block never (sl p b) h = (Err NonMinimalVarInt, rev (nn_before p hdr pre post t opre opost o) ++ h).
Proof.
  intros Hwf Hf Ho Hl b HD.
  pose proof (nested_nonminimal_fd p h hdr pre post t opre opost o Hwf Hf Ho rest Hl) as R.
  rewrite (ref_block never p b h HD). unfold b, st0. rewrite R. reflexivity.
Qed.

(* the output list fails with e exactly when the count fails with e, or after some complete well-formed
   outputs the next output fails with e at its offset *)
Theorem txouts_fail_iff_impl p b h e h' : In63 b ->
  (visit_txouts never (sl p b) h = (Err e, h') <->
   (r_compact never (st0 p b h) = Fail e h /\ h' = h) \/
   (exists n done rest, n < TWO64 /\ lenN done < n /\ Forall wf_txout done /\
      b = cs_enc n ++ flat_map enc_txout done ++ rest /\
      r_txout_ev (lenN done) never
        (st0 (p + cs_width n + lenN (flat_map enc_txout done)) rest (rev (trav_txouts_part p n done) ++ h)) = Fail e h' /\
      h' = rev (trav_txouts_part p n done) ++ h)).
Proof.
  intros HD. rewrite <- (r_txouts_fail_iff p b h e h').
  split.
  - intros HV. exact (visit_err_inv E_txouts never p b h e h' HD HV).
  - intros R. rewrite (ref_txouts never p b h HD). change {| pos := p; inp := b; hi := h |} with (st0 p b h) in R. rewrite R. reflexivity.
Qed.
