(* Proofs/Order.v — OutPoint key order: lexicographic comparison of byte strings is a total order
   consistent with equality (C20). *)
From BS Require Import Impl.Access.
From Coq Require Import ZifyN ZifyNat ZifyBool.
Open Scope N_scope.

Lemma lex_eq_iff a b : lex_compare a b = Eq <-> a = b.
Proof.
  revert b; induction a as [|x a IH]; intros [|y b]; cbn [lex_compare]; split; intros H; try discriminate; try reflexivity.
  - destruct (N.compare_spec (b2n x) (b2n y)) as [E| |]; try discriminate.
    apply b2n_inj in E. subst y. f_equal. apply IH. exact H.
  - injection H as -> ->. rewrite N.compare_refl. apply IH. reflexivity.
Qed.

Lemma lex_antisym a b : lex_compare b a = CompOpp (lex_compare a b).
Proof.
  revert b; induction a as [|x a IH]; intros [|y b]; cbn [lex_compare]; try reflexivity.
  rewrite (N.compare_antisym (b2n x) (b2n y)).
  destruct (N.compare (b2n x) (b2n y)); cbn [CompOpp]; [apply IH|reflexivity|reflexivity].
Qed.

Lemma lex_trans_lt a b c : lex_compare a b = Lt -> lex_compare b c = Lt -> lex_compare a c = Lt.
Proof.
  revert b c; induction a as [|x a IH]; intros [|y b] [|z c]; cbn [lex_compare]; intros H1 H2; try discriminate; try reflexivity.
  destruct (N.compare_spec (b2n x) (b2n y)) as [E1|L1|G1]; try discriminate;
  destruct (N.compare_spec (b2n y) (b2n z)) as [E2|L2|G2]; try discriminate.
  - rewrite E1, E2, N.compare_refl. exact (IH b c H1 H2).
  - rewrite E1. destruct (N.compare_spec (b2n y) (b2n z)); try lia. reflexivity.
  - rewrite <- E2. destruct (N.compare_spec (b2n x) (b2n y)); try lia. reflexivity.
  - destruct (N.compare_spec (b2n x) (b2n z)); try lia. reflexivity.
Qed.

Lemma lex_total a b : lex_compare a b = Lt \/ a = b \/ lex_compare b a = Lt.
Proof.
  destruct (lex_compare a b) eqn:E.
  - right. left. apply lex_eq_iff. exact E.
  - left. reflexivity.
  - right. right. rewrite lex_antisym, E. reflexivity.
Qed.

(* on equal-length keys (36 bytes) the order is the order of the first differing byte *)
Lemma lex_first_diff (p : list byte) x y s t : b2n x < b2n y -> lex_compare (p ++ x :: s) (p ++ y :: t) = Lt.
Proof.
  intros H. induction p as [|z p IH]; cbn [app lex_compare].
  - destruct (N.compare_spec (b2n x) (b2n y)); try lia. reflexivity.
  - rewrite N.compare_refl. exact IH.
Qed.
