(* Proofs/SpecLemmas.v — facts about the wire-format encoders ([cs_enc], [enc_*]),
   the parser monad of Ref/Stream.v, and the two leaf decoders [r_u], [r_compact]. *)
From BS Require Import Ref.Grammar.
From Coq Require Import Lia ZifyN ZifyNat ZifyBool.
Open Scope N_scope.

(* ------------------------------------------------------------------ *)
(** * Small helpers *)

Lemma st_eq p p' i i' h h' :
  p = p' -> i = i' -> h = h' ->
  {| pos := p; inp := i; hi := h |} = {| pos := p'; inp := i'; hi := h' |}.
Proof. intros -> -> ->. reflexivity. Qed.

Lemma st_eta s : s = {| pos := pos s; inp := inp s; hi := hi s |}.
Proof. destruct s; reflexivity. Qed.

Lemma Done_eq {A} (a a' : A) p p' i i' h h' :
  a = a' -> p = p' -> i = i' -> h = h' ->
  Done a {| pos := p; inp := i; hi := h |} = Done a' {| pos := p'; inp := i'; hi := h' |}.
Proof. intros -> -> -> ->. reflexivity. Qed.

Lemma lenN_le_enc_N w v : lenN (le_enc (N.to_nat w) v) = w.
Proof. rewrite lenN_le_enc. lia. Qed.

Lemma lenN_length {A} (a b : list A) : lenN a = lenN b -> length a = length b.
Proof. unfold lenN. lia. Qed.

Lemma app_inj_lenN {A} (a b x y : list A) :
  lenN a = lenN b -> a ++ x = b ++ y -> a = b /\ x = y.
Proof.
  intros Hl E.
  revert b Hl E; induction a as [|c a IH]; intros [|d b] Hl E.
  - split; [reflexivity | exact E].
  - rewrite lenN_cons in Hl. change (lenN (@nil A)) with 0 in Hl. lia.
  - rewrite lenN_cons in Hl. change (lenN (@nil A)) with 0 in Hl. lia.
  - rewrite !lenN_cons in Hl. cbn [app] in E. injection E as -> E.
    destruct (IH b) as [-> ->]; [lia | exact E | split; reflexivity].
Qed.

Lemma splitN_app_n {A} (a b : list A) n : lenN a = n -> splitN (a ++ b) n = Some (a, b).
Proof. intros <-. apply splitN_app. Qed.

Lemma le_dec_1 b : le_dec [b] = b2n b.
Proof. cbn [le_dec]. lia. Qed.

Lemma le_enc_1 v : le_enc 1 v = [n2b (v mod 256)].
Proof. reflexivity. Qed.

Lemma le_enc_dec_N l : le_enc (N.to_nat (lenN l)) (le_dec l) = l.
Proof. unfold lenN. rewrite Nat2N.id. apply le_enc_dec. Qed.

Lemma pow256_1 : 256 ^ 1 = 256. Proof. reflexivity. Qed.
Lemma pow256_2 : 256 ^ 2 = 65536. Proof. reflexivity. Qed.
Lemma pow256_4 : 256 ^ 4 = TWO32. Proof. reflexivity. Qed.
Lemma pow256_8 : 256 ^ 8 = TWO64. Proof. reflexivity. Qed.

(* ------------------------------------------------------------------ *)
(** * Compact size: the encoder *)

Lemma cs_cases n :
  (n < 253 /\ cs_enc n = le_enc 1 n /\ cs_width n = 1) \/
  (253 <= n <= 65535 /\ cs_enc n = xfd :: le_enc 2 n /\ cs_width n = 3) \/
  (65535 < n <= 4294967295 /\ cs_enc n = xfe :: le_enc 4 n /\ cs_width n = 5) \/
  (4294967295 < n /\ cs_enc n = xff :: le_enc 8 n /\ cs_width n = 9).
Proof.
  unfold cs_enc, cs_width.
  destruct (N.ltb_spec n 253) as [H1|H1]; [left; auto|].
  destruct (N.leb_spec n 65535) as [H2|H2]; [right; left; auto|].
  destruct (N.leb_spec n 4294967295) as [H3|H3]; [right; right; left; auto|].
  right; right; right; auto.
Qed.

Lemma cs_width_pos n : 1 <= cs_width n <= 9.
Proof. destruct (cs_cases n) as [H|[H|[H|H]]]; lia. Qed.

(* the width does not need the 2^64 bound: [le_enc] always has the requested length *)
Lemma cs_enc_length' n : lenN (cs_enc n) = cs_width n.
Proof.
  destruct (cs_cases n) as [(_ & -> & ->)|[(_ & -> & ->)|[(_ & -> & ->)|(_ & -> & ->)]]];
    rewrite ?lenN_cons, lenN_le_enc; lia.
Qed.

Lemma cs_enc_length n : n < TWO64 -> lenN (cs_enc n) = cs_width n.
Proof. intros _. apply cs_enc_length'. Qed.

Lemma cs_enc_nonempty n : cs_enc n <> [].
Proof.
  intros E. pose proof (cs_enc_length' n) as H. rewrite E in H.
  change (lenN (@nil byte)) with 0 in H. pose proof (cs_width_pos n). lia.
Qed.

Lemma cs_width_small n : n < 253 -> cs_width n = 1.
Proof. intros H. destruct (cs_cases n) as [?|[?|[?|?]]]; lia. Qed.

(* ------------------------------------------------------------------ *)
(** * The parser monad *)

Lemma bind_Done {A B} (p : P A) (f : A -> P B) brk s b s' :
  bind p f brk s = Done b s' ->
  exists a s1, p brk s = Done a s1 /\ f a brk s1 = Done b s'.
Proof.
  unfold bind. destruct (p brk s) as [a s1| |]; try discriminate.
  intros H. exists a, s1. split; [reflexivity | exact H].
Qed.

Lemma bind_Fail {A B} (p : P A) (f : A -> P B) brk s e h :
  bind p f brk s = Fail e h ->
  p brk s = Fail e h \/ exists a s1, p brk s = Done a s1 /\ f a brk s1 = Fail e h.
Proof.
  unfold bind. destruct (p brk s) as [a s1|e' h'|]; try discriminate.
  - intros H. right. exists a, s1. split; [reflexivity | exact H].
  - intros H. left. injection H as -> ->. reflexivity.
Qed.

Lemma bind_eq_Done {A B} (p : P A) (f : A -> P B) brk s a s1 :
  p brk s = Done a s1 -> bind p f brk s = f a brk s1.
Proof. unfold bind. intros ->. reflexivity. Qed.

Lemma bind_eq_Fail {A B} (p : P A) (f : A -> P B) brk s e h :
  p brk s = Fail e h -> bind p f brk s = Fail e h.
Proof. unfold bind. intros ->. reflexivity. Qed.

Lemma emitp_never e s :
  emitp e never s = Done tt {| pos := pos s; inp := inp s; hi := e :: hi s |}.
Proof. unfold emitp, never. rewrite andb_false_r. reflexivity. Qed.

Lemma take_app brk p a rest h n :
  lenN a = n ->
  take n brk {| pos := p; inp := a ++ rest; hi := h |} = Done a {| pos := p + n; inp := rest; hi := h |}.
Proof. intros H. unfold take. cbn [inp pos hi]. rewrite (splitN_app_n a rest n H). reflexivity. Qed.

Lemma take_Done brk n s a s' :
  take n brk s = Done a s' ->
  lenN a = n /\ inp s = a ++ inp s' /\ pos s' = pos s + n /\ hi s' = hi s.
Proof.
  unfold take. destruct (splitN (inp s) n) as [[x y]|] eqn:E; [|discriminate].
  intros H. injection H as <- <-. cbn [inp pos hi].
  apply splitN_Some in E. destruct E as [E1 E2]. auto.
Qed.

Lemma take_Fail brk n s e h :
  take n brk s = Fail e h -> e = MoreBytesNeeded /\ h = hi s /\ lenN (inp s) < n.
Proof.
  unfold take. destruct (splitN (inp s) n) as [[x y]|] eqn:E; [discriminate|].
  intros H. injection H as <- <-. apply splitN_None in E. auto.
Qed.

Lemma take_short brk n s : lenN (inp s) < n -> take n brk s = Fail MoreBytesNeeded (hi s).
Proof.
  intros H. unfold take. apply splitN_None in H. rewrite H. reflexivity.
Qed.

(* ------------------------------------------------------------------ *)
(** * Fixed-width little-endian integers *)

Lemma r_u_complete w brk p v rest h :
  v < 256 ^ w ->
  r_u w brk {| pos := p; inp := le_enc (N.to_nat w) v ++ rest; hi := h |}
  = Done v {| pos := p + w; inp := rest; hi := h |}.
Proof.
  intros Hv. unfold r_u.
  rewrite (bind_eq_Done _ _ _ _ _ _ (take_app brk p _ rest h w (lenN_le_enc_N w v))).
  unfold ret. rewrite le_dec_enc; [reflexivity|].
  rewrite N2Nat.id. exact Hv.
Qed.

Lemma r_u_sound w brk s v s' :
  r_u w brk s = Done v s' ->
  inp s = le_enc (N.to_nat w) v ++ inp s' /\ v < 256 ^ w /\ pos s' = pos s + w /\ hi s' = hi s.
Proof.
  unfold r_u. intros H. apply bind_Done in H. destruct H as (a & s1 & H1 & H2).
  unfold ret in H2. injection H2 as <- <-.
  apply take_Done in H1. destruct H1 as (Hl & Hi & Hp & Hh).
  subst w. rewrite le_enc_dec_N. repeat split; auto. apply le_dec_lt.
Qed.

Lemma r_u_Fail w brk s e h :
  r_u w brk s = Fail e h <-> e = MoreBytesNeeded /\ h = hi s /\ lenN (inp s) < w.
Proof.
  unfold r_u. split.
  - intros H. apply bind_Fail in H. destruct H as [H|(a & s1 & _ & H)].
    + apply take_Fail in H. exact H.
    + discriminate.
  - intros (-> & -> & H). apply bind_eq_Fail. apply take_short. exact H.
Qed.

(* the instances used by the grammar *)
Lemma r_u1_cons brk p b rest h :
  r_u 1 brk {| pos := p; inp := b :: rest; hi := h |} = Done (b2n b) {| pos := p + 1; inp := rest; hi := h |}.
Proof.
  pose proof (r_u_complete 1 brk p (b2n b) rest h) as H.
  change (N.to_nat 1) with 1%nat in H. rewrite le_enc_1 in H.
  pose proof (b2n_lt b) as Hb.
  rewrite N.mod_small, n2b_b2n in H by exact Hb. apply H. exact Hb.
Qed.

Lemma r_u4_complete brk p v rest h :
  v < TWO32 ->
  r_u 4 brk {| pos := p; inp := le_enc 4 v ++ rest; hi := h |} = Done v {| pos := p + 4; inp := rest; hi := h |}.
Proof. intros H. apply (r_u_complete 4). exact H. Qed.

Lemma r_u8_complete brk p v rest h :
  v < TWO64 ->
  r_u 8 brk {| pos := p; inp := le_enc 8 v ++ rest; hi := h |} = Done v {| pos := p + 8; inp := rest; hi := h |}.
Proof. intros H. apply (r_u_complete 8). exact H. Qed.

Lemma r_u4_sound brk s v s' :
  r_u 4 brk s = Done v s' ->
  inp s = le_enc 4 v ++ inp s' /\ v < TWO32 /\ pos s' = pos s + 4 /\ hi s' = hi s.
Proof. intros H. apply r_u_sound in H. exact H. Qed.

Lemma r_u8_sound brk s v s' :
  r_u 8 brk s = Done v s' ->
  inp s = le_enc 8 v ++ inp s' /\ v < TWO64 /\ pos s' = pos s + 8 /\ hi s' = hi s.
Proof. intros H. apply r_u_sound in H. exact H. Qed.

Lemma r_u1_sound brk s v s' :
  r_u 1 brk s = Done v s' ->
  inp s = n2b v :: inp s' /\ v < 256 /\ pos s' = pos s + 1 /\ hi s' = hi s.
Proof.
  intros H. apply r_u_sound in H. destruct H as (H1 & H2 & H3 & H4).
  change (N.to_nat 1) with 1%nat in H1. rewrite le_enc_1 in H1.
  change (256 ^ 1) with 256 in H2. rewrite N.mod_small in H1 by exact H2. auto.
Qed.

(* ------------------------------------------------------------------ *)
(** * Compact size: the decoder, as an explicit function of the input *)

Definition wide (p w : N) (minimal : N -> bool) (tl : list byte) (h : hist) : outcome N :=
  match splitN tl w with
  | None => Fail MoreBytesNeeded h
  | Some (a, r) =>
      if minimal (le_dec a) then Done (le_dec a) {| pos := p + 1 + w; inp := r; hi := h |}
      else Fail NonMinimalVarInt h
  end.

Lemma r_compact_eq brk s :
  r_compact brk s =
  match inp s with
  | [] => Fail MoreBytesNeeded (hi s)
  | b :: tl =>
      if b2n b <? 253 then Done (b2n b) {| pos := pos s + 1; inp := tl; hi := hi s |}
      else if b2n b =? 253 then wide (pos s) 2 (fun n => 253 <=? n) tl (hi s)
      else if b2n b =? 254 then wide (pos s) 4 (fun n => 65535 <? n) tl (hi s)
      else wide (pos s) 8 (fun n => 4294967295 <? n) tl (hi s)
  end.
Proof.
  destruct s as [p i h]. cbn [inp pos hi]. destruct i as [|b tl].
  - unfold r_compact. apply bind_eq_Fail. apply r_u_Fail. cbn [inp hi].
    change (lenN (@nil byte)) with 0. repeat split.
  - unfold r_compact. rewrite (bind_eq_Done _ _ _ _ _ _ (r_u1_cons brk p b tl h)).
    destruct (b2n b <? 253); [reflexivity|].
    unfold wide, r_u, bind, take, ret, fail.
    destruct (b2n b =? 253).
    { cbn [inp pos hi]. destruct (splitN tl 2) as [[a r]|]; [|reflexivity]. destruct (253 <=? le_dec a); reflexivity. }
    destruct (b2n b =? 254).
    { cbn [inp pos hi]. destruct (splitN tl 4) as [[a r]|]; [|reflexivity]. destruct (65535 <? le_dec a); reflexivity. }
    cbn [inp pos hi].
    destruct (splitN tl 8) as [[a r]|]; [|reflexivity]. destruct (4294967295 <? le_dec a); reflexivity.
Qed.

Lemma wide_Done p w m tl h n s' :
  wide p w m tl h = Done n s' ->
  m n = true /\ n < 256 ^ w /\ tl = le_enc (N.to_nat w) n ++ inp s' /\ pos s' = p + 1 + w /\ hi s' = h.
Proof.
  unfold wide. destruct (splitN tl w) as [[a r]|] eqn:E; [|discriminate].
  destruct (m (le_dec a)) eqn:Em; [|discriminate].
  intros H. injection H as <- <-. cbn [inp pos hi].
  apply splitN_Some in E. destruct E as [-> <-].
  rewrite le_enc_dec_N. repeat split; auto. apply le_dec_lt.
Qed.

Lemma wide_complete p w (m : N -> bool) n rest h :
  n < 256 ^ w -> m n = true ->
  wide p w m (le_enc (N.to_nat w) n ++ rest) h = Done n {| pos := p + 1 + w; inp := rest; hi := h |}.
Proof.
  intros Hn Hm. unfold wide. rewrite (splitN_app_n _ rest w (lenN_le_enc_N w n)).
  rewrite le_dec_enc by (rewrite N2Nat.id; exact Hn). rewrite Hm. reflexivity.
Qed.

Lemma wide_Fail p w m tl h e h' :
  wide p w m tl h = Fail e h' ->
  h' = h /\ ((e = MoreBytesNeeded /\ lenN tl < w) \/
             (e = NonMinimalVarInt /\ exists v rest, tl = le_enc (N.to_nat w) v ++ rest /\ v < 256 ^ w /\ m v = false)).
Proof.
  unfold wide. destruct (splitN tl w) as [[a r]|] eqn:E.
  - destruct (m (le_dec a)) eqn:Em; [discriminate|].
    intros H. injection H as <- <-. split; [reflexivity|]. right. split; [reflexivity|].
    apply splitN_Some in E. destruct E as [-> <-].
    exists (le_dec a), r. rewrite le_enc_dec_N. repeat split; auto. apply le_dec_lt.
  - intros H. injection H as <- <-. split; [reflexivity|]. left. split; [reflexivity|].
    apply splitN_None in E. exact E.
Qed.

Lemma wide_short p w m tl h : lenN tl < w -> wide p w m tl h = Fail MoreBytesNeeded h.
Proof. intros H. unfold wide. apply splitN_None in H. rewrite H. reflexivity. Qed.

Lemma wide_nonminimal p w (m : N -> bool) v rest h :
  v < 256 ^ w -> m v = false ->
  wide p w m (le_enc (N.to_nat w) v ++ rest) h = Fail NonMinimalVarInt h.
Proof.
  intros Hn Hm. unfold wide. rewrite (splitN_app_n _ rest w (lenN_le_enc_N w v)).
  rewrite le_dec_enc by (rewrite N2Nat.id; exact Hn). rewrite Hm. reflexivity.
Qed.

Lemma b2n_xfd : b2n xfd = 253. Proof. reflexivity. Qed.
Lemma b2n_xfe : b2n xfe = 254. Proof. reflexivity. Qed.
Lemma b2n_xff : b2n xff = 255. Proof. reflexivity. Qed.
Lemma b2n_x00 : b2n x00 = 0. Proof. reflexivity. Qed.
Lemma b2n_x01 : b2n x01 = 1. Proof. reflexivity. Qed.

Lemma b2n_eq_inv b n c : b2n c = n -> b2n b = n -> b = c.
Proof. intros H1 H2. apply b2n_inj. congruence. Qed.

Theorem r_compact_complete brk p n rest h :
  n < TWO64 ->
  r_compact brk {| pos := p; inp := cs_enc n ++ rest; hi := h |}
  = Done n {| pos := p + cs_width n; inp := rest; hi := h |}.
Proof.
  intros Hn. rewrite r_compact_eq. cbn [inp pos hi].
  destruct (cs_cases n) as [(Hr & -> & ->)|[(Hr & -> & ->)|[(Hr & -> & ->)|(Hr & -> & ->)]]].
  - rewrite le_enc_1. cbn [app]. rewrite N.mod_small by lia. rewrite b2n_n2b by lia.
    destruct (N.ltb_spec n 253); [reflexivity | lia].
  - cbn [app]. rewrite b2n_xfd. change (253 <? 253) with false. change (253 =? 253) with true. cbv iota.
    change 2%nat with (N.to_nat 2). rewrite wide_complete.
    + apply Done_eq; auto; lia.
    + rewrite pow256_2. lia.
    + apply N.leb_le. lia.
  - cbn [app]. rewrite b2n_xfe. change (254 <? 253) with false. change (254 =? 253) with false.
    change (254 =? 254) with true. cbv iota.
    change 4%nat with (N.to_nat 4). rewrite wide_complete.
    + apply Done_eq; auto; lia.
    + rewrite pow256_4. unfold TWO32. lia.
    + apply N.ltb_lt. lia.
  - cbn [app]. rewrite b2n_xff. change (255 <? 253) with false. change (255 =? 253) with false.
    change (255 =? 254) with false. cbv iota.
    change 8%nat with (N.to_nat 8). rewrite wide_complete.
    + apply Done_eq; auto; lia.
    + rewrite pow256_8. exact Hn.
    + apply N.ltb_lt. lia.
Qed.

Theorem r_compact_sound brk s n s' :
  r_compact brk s = Done n s' ->
  n < TWO64 /\ inp s = cs_enc n ++ inp s' /\ pos s' = pos s + cs_width n /\ hi s' = hi s.
Proof.
  rewrite r_compact_eq. destruct (inp s) as [|b tl]; [discriminate|].
  pose proof (b2n_lt b) as Hb.
  destruct (N.ltb_spec (b2n b) 253) as [H1|H1].
  { intros H. injection H as <- <-. cbn [inp pos hi].
    destruct (cs_cases (b2n b)) as [(Hr & -> & ->)|[?|[?|?]]]; try lia.
    rewrite le_enc_1, N.mod_small, n2b_b2n by lia. unfold TWO64. repeat split; auto. lia. }
  destruct (N.eqb_spec (b2n b) 253) as [H2|H2].
  { intros H. apply wide_Done in H. destruct H as (Hm & Hlt & -> & Hp & Hh).
    apply N.leb_le in Hm. rewrite pow256_2 in Hlt.
    destruct (cs_cases n) as [?|[(Hr & -> & ->)|[?|?]]]; try lia.
    rewrite (b2n_eq_inv b 253 xfd b2n_xfd H2). unfold TWO64. repeat split; auto; lia. }
  destruct (N.eqb_spec (b2n b) 254) as [H3|H3].
  { intros H. apply wide_Done in H. destruct H as (Hm & Hlt & -> & Hp & Hh).
    apply N.ltb_lt in Hm. rewrite pow256_4 in Hlt. unfold TWO32 in Hlt.
    destruct (cs_cases n) as [?|[?|[(Hr & -> & ->)|?]]]; try lia.
    rewrite (b2n_eq_inv b 254 xfe b2n_xfe H3). unfold TWO64. repeat split; auto; lia. }
  intros H. apply wide_Done in H. destruct H as (Hm & Hlt & -> & Hp & Hh).
  apply N.ltb_lt in Hm. rewrite pow256_8 in Hlt.
  destruct (cs_cases n) as [?|[?|[?|(Hr & -> & ->)]]]; try lia.
  assert (H4 : b2n b = 255) by lia.
  rewrite (b2n_eq_inv b 255 xff b2n_xff H4). repeat split; auto; lia.
Qed.

(* the first byte decides the form *)
Lemma first_byte_cases b :
  b2n b < 253 \/ b = xfd \/ b = xfe \/ b = xff.
Proof.
  pose proof (b2n_lt b) as Hb.
  destruct (N.ltb_spec (b2n b) 253) as [H|H]; [left; exact H|right].
  destruct (N.eqb_spec (b2n b) 253) as [H2|H2]; [left; apply b2n_inj; rewrite H2; reflexivity|right].
  destruct (N.eqb_spec (b2n b) 254) as [H3|H3]; [left; apply b2n_inj; rewrite H3; reflexivity|right].
  apply b2n_inj. rewrite b2n_xff. lia.
Qed.

Lemma r_compact_small brk p b tl h :
  b2n b < 253 ->
  r_compact brk {| pos := p; inp := b :: tl; hi := h |} = Done (b2n b) {| pos := p + 1; inp := tl; hi := h |}.
Proof.
  intros H. rewrite r_compact_eq. cbn [inp pos hi].
  destruct (N.ltb_spec (b2n b) 253); [reflexivity|lia].
Qed.
Lemma r_compact_fd brk p tl h :
  r_compact brk {| pos := p; inp := xfd :: tl; hi := h |} = wide p 2 (fun n => 253 <=? n) tl h.
Proof. rewrite r_compact_eq. reflexivity. Qed.
Lemma r_compact_fe brk p tl h :
  r_compact brk {| pos := p; inp := xfe :: tl; hi := h |} = wide p 4 (fun n => 65535 <? n) tl h.
Proof. rewrite r_compact_eq. reflexivity. Qed.
Lemma r_compact_ff brk p tl h :
  r_compact brk {| pos := p; inp := xff :: tl; hi := h |} = wide p 8 (fun n => 4294967295 <? n) tl h.
Proof. rewrite r_compact_eq. reflexivity. Qed.

Theorem r_compact_Fail brk s e h :
  r_compact brk s = Fail e h -> h = hi s /\ (e = MoreBytesNeeded \/ e = NonMinimalVarInt).
Proof.
  destruct s as [p i h0]. cbn [hi]. destruct i as [|b tl].
  - rewrite r_compact_eq. cbn [inp hi]. intros H. injection H as <- <-. auto.
  - destruct (first_byte_cases b) as [Hb | [ -> | [ -> | -> ]]].
    + rewrite r_compact_small by exact Hb. discriminate.
    + rewrite r_compact_fd. intros H. apply wide_Fail in H. destruct H as [-> [[-> _]|[-> _]]]; auto.
    + rewrite r_compact_fe. intros H. apply wide_Fail in H. destruct H as [-> [[-> _]|[-> _]]]; auto.
    + rewrite r_compact_ff. intros H. apply wide_Fail in H. destruct H as [-> [[-> _]|[-> _]]]; auto.
Qed.

Theorem r_compact_nonminimal brk s h :
  r_compact brk s = Fail NonMinimalVarInt h <->
  h = hi s /\
  ((exists v rest, inp s = xfd :: le_enc 2 v ++ rest /\ v < 253) \/
   (exists v rest, inp s = xfe :: le_enc 4 v ++ rest /\ v <= 65535) \/
   (exists v rest, inp s = xff :: le_enc 8 v ++ rest /\ v <= 4294967295)).
Proof.
  destruct s as [p i h0]. cbn [hi inp]. split.
  - destruct i as [|b tl].
    { rewrite r_compact_eq. cbn [inp hi]. discriminate. }
    destruct (first_byte_cases b) as [Hb | [ -> | [ -> | -> ]]].
    + rewrite r_compact_small by exact Hb. discriminate.
    + rewrite r_compact_fd. intros H. apply wide_Fail in H.
      destruct H as [-> [[H _]|[_ (v & rest & -> & Hv & Hm)]]]; [discriminate|].
      split; [reflexivity|]. left. exists v, rest. split; [reflexivity|]. apply N.leb_gt in Hm. exact Hm.
    + rewrite r_compact_fe. intros H. apply wide_Fail in H.
      destruct H as [-> [[H _]|[_ (v & rest & -> & Hv & Hm)]]]; [discriminate|].
      split; [reflexivity|]. right; left. exists v, rest. split; [reflexivity|]. apply N.ltb_ge in Hm. exact Hm.
    + rewrite r_compact_ff. intros H. apply wide_Fail in H.
      destruct H as [-> [[H _]|[_ (v & rest & -> & Hv & Hm)]]]; [discriminate|].
      split; [reflexivity|]. right; right. exists v, rest. split; [reflexivity|]. apply N.ltb_ge in Hm. exact Hm.
  - intros [-> [(v & rest & -> & Hv)|[(v & rest & -> & Hv)|(v & rest & -> & Hv)]]].
    + rewrite r_compact_fd. change 2%nat with (N.to_nat 2). apply wide_nonminimal.
      * rewrite pow256_2. lia.
      * apply N.leb_gt. exact Hv.
    + rewrite r_compact_fe. change 4%nat with (N.to_nat 4). apply wide_nonminimal.
      * rewrite pow256_4. unfold TWO32. lia.
      * apply N.ltb_ge. exact Hv.
    + rewrite r_compact_ff. change 8%nat with (N.to_nat 8). apply wide_nonminimal.
      * rewrite pow256_8. unfold TWO64. lia.
      * apply N.ltb_ge. exact Hv.
Qed.

(* MoreBytesNeeded: exactly when the input is a strict prefix of a 1/3/5/9-byte form *)
Theorem r_compact_more brk s h :
  r_compact brk s = Fail MoreBytesNeeded h <->
  h = hi s /\
  (inp s = [] \/
   (exists tl, inp s = xfd :: tl /\ lenN tl < 2) \/
   (exists tl, inp s = xfe :: tl /\ lenN tl < 4) \/
   (exists tl, inp s = xff :: tl /\ lenN tl < 8)).
Proof.
  destruct s as [p i h0]. cbn [hi inp]. split.
  - destruct i as [|b tl].
    { rewrite r_compact_eq. cbn [inp hi]. intros H. injection H as <-. auto. }
    destruct (first_byte_cases b) as [Hb | [ -> | [ -> | -> ]]].
    + rewrite r_compact_small by exact Hb. discriminate.
    + rewrite r_compact_fd. intros H. apply wide_Fail in H.
      destruct H as [-> [[_ H]|[H _]]]; [|discriminate].
      split; [reflexivity|]. right; left. exists tl. auto.
    + rewrite r_compact_fe. intros H. apply wide_Fail in H.
      destruct H as [-> [[_ H]|[H _]]]; [|discriminate].
      split; [reflexivity|]. right; right; left. exists tl. auto.
    + rewrite r_compact_ff. intros H. apply wide_Fail in H.
      destruct H as [-> [[_ H]|[H _]]]; [|discriminate].
      split; [reflexivity|]. right; right; right. exists tl. auto.
  - intros [-> [ -> | [(tl & -> & H)|[(tl & -> & H)|(tl & -> & H)]]]].
    + rewrite r_compact_eq. reflexivity.
    + rewrite r_compact_fd. apply wide_short. exact H.
    + rewrite r_compact_fe. apply wide_short. exact H.
    + rewrite r_compact_ff. apply wide_short. exact H.
Qed.

(* ------------------------------------------------------------------ *)
(** * Injectivity / prefix-freeness of the compact size encoding *)

Theorem cs_enc_prefix_free a b x y :
  a < TWO64 -> b < TWO64 -> cs_enc a ++ x = cs_enc b ++ y -> a = b /\ x = y.
Proof.
  intros Ha Hb E.
  pose proof (r_compact_complete never 0 a x [] Ha) as H1.
  pose proof (r_compact_complete never 0 b y [] Hb) as H2.
  rewrite E in H1. rewrite H1 in H2. injection H2 as -> _ ->. split; reflexivity.
Qed.

Theorem cs_enc_inj a b : a < TWO64 -> b < TWO64 -> cs_enc a = cs_enc b -> a = b.
Proof.
  intros Ha Hb E. apply (cs_enc_prefix_free a b [] [] Ha Hb). rewrite E. reflexivity.
Qed.

(* ------------------------------------------------------------------ *)
(** * Lengths and non-emptiness of the encoders *)

Lemma lenN_enc_script s : lenN (enc_script s) = cs_width (lenN s) + lenN s.
Proof. unfold enc_script. rewrite lenN_app, cs_enc_length'. reflexivity. Qed.

Lemma lenN_le_enc4 v : lenN (le_enc 4 v) = 4. Proof. apply lenN_le_enc. Qed.
Lemma lenN_le_enc8 v : lenN (le_enc 8 v) = 8. Proof. apply lenN_le_enc. Qed.
Lemma lenN_enc_i32 z : lenN (enc_i32 z) = 4. Proof. apply lenN_le_enc. Qed.

Lemma lenN_enc_txin i :
  lenN (enc_txin i) = lenN (ai_txid i) + 4 + lenN (enc_script (ai_sig i)) + 4.
Proof. unfold enc_txin. rewrite !lenN_app, !lenN_le_enc4. lia. Qed.

Lemma lenN_enc_txout o : lenN (enc_txout o) = 8 + lenN (enc_script (ao_spk o)).
Proof. unfold enc_txout. rewrite !lenN_app, !lenN_le_enc8. lia. Qed.

Lemma lenN_enc_list {A} (f : A -> list byte) l :
  lenN (enc_list f l) = cs_width (lenN l) + lenN (flat_map f l).
Proof. unfold enc_list. rewrite lenN_app, cs_enc_length'. reflexivity. Qed.

Lemma lenN_enc_header h :
  lenN (enc_header h) = 4 + lenN (ah_prev h) + lenN (ah_merkle h) + 12.
Proof. unfold enc_header. rewrite !lenN_app, lenN_enc_i32, !lenN_le_enc4. lia. Qed.

Lemma enc_script_pos s : 1 <= lenN (enc_script s).
Proof. rewrite lenN_enc_script. pose proof (cs_width_pos (lenN s)). lia. Qed.
Lemma enc_txin_pos i : 1 <= lenN (enc_txin i).
Proof. rewrite lenN_enc_txin. lia. Qed.
Lemma enc_txout_pos o : 1 <= lenN (enc_txout o).
Proof. rewrite lenN_enc_txout. lia. Qed.
Lemma enc_list_pos {A} (f : A -> list byte) l : 1 <= lenN (enc_list f l).
Proof. rewrite lenN_enc_list. pose proof (cs_width_pos (lenN l)). lia. Qed.
Lemma enc_witness_pos w : 1 <= lenN (enc_witness w).
Proof. apply enc_list_pos. Qed.
Lemma enc_tx_pos t : 4 <= lenN (enc_tx t).
Proof. unfold enc_tx. rewrite lenN_app, lenN_enc_i32. lia. Qed.

Lemma flat_map_cons {A B} (f : A -> list B) x l : flat_map f (x :: l) = f x ++ flat_map f l.
Proof. reflexivity. Qed.

(* a list is no longer than the concatenation of its non-empty item encodings *)
Lemma lenN_flat_map_ge {A} (f : A -> list byte) l :
  (forall x, In x l -> 1 <= lenN (f x)) -> lenN l <= lenN (flat_map f l).
Proof.
  induction l as [|x l IH]; intros H.
  - unfold lenN. cbn [flat_map length]. lia.
  - rewrite flat_map_cons, lenN_app, lenN_cons.
    pose proof (H x (or_introl eq_refl)).
    assert (lenN l <= lenN (flat_map f l)) by (apply IH; intros y Hy; apply H; right; exact Hy).
    lia.
Qed.

Lemma enc_witnesses_repeat n : enc_witnesses (repeat [] n) = repeat x00 n.
Proof.
  induction n as [|n IH]; [reflexivity|].
  cbn [repeat]. unfold enc_witnesses in *. rewrite flat_map_cons, IH. reflexivity.
Qed.

Lemma all_empty_repeat ws : all_empty ws = true <-> ws = repeat [] (length ws).
Proof.
  induction ws as [|w ws IH]; cbn [all_empty forallb length repeat].
  - split; reflexivity.
  - destruct w as [|e w].
    + cbn [andb]. unfold all_empty in IH. rewrite IH. split.
      * intros H. f_equal. exact H.
      * intros H. injection H as H. exact H.
    + cbn [andb]. split; discriminate.
Qed.
