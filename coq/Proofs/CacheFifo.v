(* Proofs/CacheFifo.v — part B: FIFO behaviour (C11) and the result/state
   contract of insert (C13, C06 fresh key), for EVERY history. *)
From BS Require Import Spec.CacheSpec Proofs.CacheWF.
From Coq Require Import Lia ZifyN ZifyNat ZifyBool.
Open Scope N_scope.

(* ------------------------------------------------------------------ *)
(* how a successful insertion changes the queue                        *)
(* ------------------------------------------------------------------ *)

Lemma insert_ok_queue c k v n c' :
  WF c -> insert c k v = (COk n, c') ->
  WF c' /\ ~ In k (c_queue c) /\
  exists p q', c_queue c = p ++ q' /\ c_queue c' = q' ++ [k] /\ n = lenN p.
Proof.
  intros W E.
  destruct (insert_ok_inv _ _ _ _ _ E) as (Hk & Hv & n1 & c1 & n2 & Hwrap & Hwrite & Hn).
  destruct (wrap_phase_WF c v W Hv) as (n1' & c1' & Hwrap' & W1 & Hcap1 & Hbuf1 & Hfit1 & p1 & Hq1 & Hn1 & Hidx1).
  rewrite Hwrap in Hwrap'. injection Hwrap' as <- <-.
  assert (Hk1 : lookup k (c_indexes c1) = None).
  { rewrite Hidx1. apply lookup_remove_keys_None. exact Hk. }
  assert (Hfit1' : c_fp c1 + lenN v <= cap c1) by lia.
  destruct (write_phase_WF c1 k v W1 Hk1 Hfit1')
    as (n2' & c2 & Hwrite' & W2 & Hcap2 & Hfp2 & Hfull2 & Hbuf2 & p2 & q' & Hq2 & Hn2 & Hq' & Hidx2).
  rewrite Hwrite in Hwrite'. injection Hwrite' as <- <-.
  split; [exact W2|]. split.
  - intros Hin. apply W in Hin. contradiction.
  - exists (p1 ++ p2), q'. rewrite <- app_assoc, <- Hq2. split; [exact Hq1|]. split; [exact Hq'|].
    rewrite lenN_app. lia.
Qed.

(* ------------------------------------------------------------------ *)
(* lastn                                                               *)
(* ------------------------------------------------------------------ *)

Lemma lastn_app_length {A} (pre suf : list A) : lastn (length suf) (pre ++ suf) = suf.
Proof.
  unfold lastn. rewrite app_length.
  replace (length pre + length suf - length suf)%nat with (length pre + 0)%nat by lia.
  rewrite skipn_app, Nat.add_0_r, skipn_all. cbn [app].
  replace (length pre - length pre)%nat with 0%nat by lia. reflexivity.
Qed.

Lemma lastn_length {A} m (l : list A) : (m <= length l)%nat -> length (lastn m l) = m.
Proof. intros H. unfold lastn. rewrite skipn_length. lia. Qed.

Lemma lastn_split {A} m (l : list A) : (m <= length l)%nat ->
  exists pre, l = pre ++ lastn m l /\ length pre = (length l - m)%nat.
Proof.
  intros H. exists (firstn (length l - m) l). split.
  - unfold lastn. symmetry. apply firstn_skipn.
  - rewrite firstn_length. lia.
Qed.

(* ------------------------------------------------------------------ *)
(* C11: the queue is a suffix of the successful history                *)
(* ------------------------------------------------------------------ *)

Definition QSuffix (c : cache) (hist : list ins) : Prop :=
  exists pre suf, hist = pre ++ suf /\ c_queue c = map fst suf.

Lemma map_eq_app_inv {A B} (f : A -> B) l p q :
  map f l = p ++ q -> exists lp lq, l = lp ++ lq /\ map f lp = p /\ map f lq = q.
Proof.
  revert l. induction p as [|x p IH]; intros l H.
  - exists [], l. repeat split. exact H.
  - destruct l as [|a l]; [discriminate|]. cbn [map app] in H. injection H as Hx Hl.
    destruct (IH l Hl) as (lp & lq & -> & Hp & Hq).
    exists (a :: lp), lq. cbn [map app]. rewrite Hx, Hp. repeat split. exact Hq.
Qed.

Lemma QSuffix_insert c hist k v n c' :
  WF c -> QSuffix c hist -> insert c k v = (COk n, c') -> QSuffix c' (hist ++ [(k, v)]).
Proof.
  intros W (pre & suf & Hh & Hq) E.
  destruct (insert_ok_queue _ _ _ _ _ W E) as (_ & _ & p & q' & Hq1 & Hq2 & _).
  rewrite Hq in Hq1. apply map_eq_app_inv in Hq1.
  destruct Hq1 as (sp & sq & -> & Hsp & Hsq).
  exists (pre ++ sp), (sq ++ [(k, v)]). split.
  - rewrite Hh, <- !app_assoc. reflexivity.
  - rewrite Hq2, map_app, Hsq. reflexivity.
Qed.

Lemma exec_WF_QSuffix ops c hist c' hist' :
  WF c -> QSuffix c hist -> exec c hist ops = Some (c', hist') -> WF c' /\ QSuffix c' hist'.
Proof.
  intros W Q E.
  apply (exec_ind_inv (fun c h => WF c /\ QSuffix c h)) with (ops := ops) (c := c) (hist := hist); [|split; assumption|exact E].
  intros c0 h0 k v n c0' [W0 Q0] Hi. split.
  - pose proof (WF_insert c0 k v W0) as H. rewrite Hi in H. exact H.
  - eapply QSuffix_insert; eassumption.
Qed.

Lemma run_QSuffix capacity ops c hist : run capacity ops = Some (c, hist) -> WF c /\ QSuffix c hist.
Proof.
  intros E. eapply exec_WF_QSuffix; [apply WF_new| |exact E].
  exists [], []. split; reflexivity.
Qed.

Theorem C11_suffix : forall capacity ops c hist, run capacity ops = Some (c, hist) ->
  exists m, (m <= length hist)%nat /\ c_queue c = map fst (lastn m hist) /\
            NoDup (map fst (lastn m hist)) /\
            forall k, retrievable c k <-> In k (map fst (lastn m hist)).
Proof.
  intros capacity ops c hist E.
  destruct (run_QSuffix _ _ _ _ E) as [W (pre & suf & Hh & Hq)].
  exists (length suf). subst hist. rewrite lastn_app_length.
  split; [rewrite app_length; lia|]. split; [exact Hq|]. split.
  - rewrite <- Hq. apply W.
  - intros k. rewrite <- Hq. apply retrievable_iff_queue. exact W.
Qed.

(* the m of C11_suffix is unique: it is the length of the queue *)
Lemma C11_m_unique c (hist : list ins) m :
  (m <= length hist)%nat -> c_queue c = map (@fst N (list byte)) (lastn m hist) -> m = length (c_queue c).
Proof. intros Hm Hq. rewrite Hq, map_length, lastn_length by exact Hm. reflexivity. Qed.

(* once a key is gone it stays gone until it is inserted again *)
Lemma exec_stays_absent k more : forall c hist c' hist',
  WF c -> ~ In k (c_queue c) -> ~ In k (map fst more) ->
  exec c hist more = Some (c', hist') -> ~ In k (c_queue c').
Proof.
  induction more as [|[k1 v1] more IH]; intros c hist c' hist' W Hk Hm E; cbn [exec] in E.
  - injection E as <- <-. exact Hk.
  - cbn [map fst In] in Hm.
    destruct (insert c k1 v1) as [[n|e|] c1] eqn:Hi; [| |discriminate].
    + destruct (insert_ok_queue _ _ _ _ _ W Hi) as (W1 & _ & p & q' & Hq1 & Hq2 & _).
      eapply IH; [exact W1| |intros H; apply Hm; right; exact H|exact E].
      rewrite Hq2. intros Hin. apply in_app_or in Hin. destruct Hin as [Hin|[Hin|[]]].
      * apply Hk. rewrite Hq1. apply in_or_app. right. exact Hin.
      * apply Hm. left. exact Hin.
    + apply insert_err_inv in Hi. destruct Hi as [-> _].
      eapply IH; [exact W|exact Hk|intros H; apply Hm; right; exact H|exact E].
Qed.

Theorem C11_stays_absent : forall capacity ops more c hist c' hist' k,
  run capacity ops = Some (c, hist) -> ~ retrievable c k ->
  run capacity (ops ++ more) = Some (c', hist') -> ~ In k (map fst more) ->
  ~ retrievable c' k.
Proof.
  intros capacity ops more c hist c' hist' k E Hk E' Hm.
  unfold run in E'. rewrite exec_app in E'. unfold run in E. rewrite E in E'.
  assert (W : WF c) by (eapply reachable_WF; exists capacity, ops; exact E).
  assert (W' : WF c') by (eapply exec_WF; [exact W|exact E']).
  rewrite (retrievable_iff_queue c k W) in Hk. rewrite (retrievable_iff_queue c' k W').
  eapply exec_stays_absent; [exact W|exact Hk|exact Hm|exact E'].
Qed.

(* ------------------------------------------------------------------ *)
(* C13: the contract of insert                                         *)
(* ------------------------------------------------------------------ *)

Theorem C13_error_unchanged c k v e c' : insert c k v = (CErr e, c') -> c' = c.
Proof. intros E. apply insert_err_inv in E. apply E. Qed.

Theorem C13_present c k v : WF c -> retrievable c k -> insert c k v = (CErr ValueAlreadyPresent, c).
Proof.
  intros W R. apply retrievable_iff_lookup in R; [|exact W].
  rewrite insert_eq. destruct (lookup k (c_indexes c)); [reflexivity|contradiction].
Qed.

Theorem C13_large c k v :
  WF c -> ~ retrievable c k -> cap c < lenN v -> insert c k v = (CErr ValueLargerThanBuffer, c).
Proof.
  intros W R Hv. rewrite retrievable_iff_lookup in R by exact W.
  rewrite insert_eq. destruct (lookup k (c_indexes c)) as [r|] eqn:Hk.
  - exfalso. apply R. discriminate.
  - destruct (N.ltb_spec (cap c) (lenN v)); [reflexivity|lia].
Qed.

Theorem C13_reinsert c k v :
  WF c -> ~ retrievable c k -> lenN v <= cap c -> exists n c', insert c k v = (COk n, c').
Proof.
  intros W R Hv. rewrite retrievable_iff_lookup in R by exact W.
  destruct (lookup k (c_indexes c)) as [r|] eqn:Hk.
  - exfalso. apply R. discriminate.
  - destruct (insert_ok_spec c k v W Hk Hv) as (n1 & c1 & n2 & c2 & _ & _ & E & _).
    exists (n1 + n2), c2. exact E.
Qed.

(* the three outcomes are exhaustive and determined by the state *)
Corollary C13_outcomes c k v : WF c ->
  (retrievable c k /\ insert c k v = (CErr ValueAlreadyPresent, c)) \/
  (~ retrievable c k /\ cap c < lenN v /\ insert c k v = (CErr ValueLargerThanBuffer, c)) \/
  (~ retrievable c k /\ lenN v <= cap c /\ exists n c', insert c k v = (COk n, c')).
Proof.
  intros W. destruct (lookup k (c_indexes c)) as [r|] eqn:Hk.
  - assert (R : retrievable c k) by (apply retrievable_iff_lookup; [exact W|rewrite Hk; discriminate]).
    left. split; [exact R|apply C13_present; assumption].
  - assert (R : ~ retrievable c k) by (rewrite retrievable_iff_lookup by exact W; intros H; apply H; exact Hk).
    destruct (N.ltb_spec (cap c) (lenN v)) as [Hv|Hv].
    + right. left. split; [exact R|]. split; [exact Hv|apply C13_large; assumption].
    + right. right. split; [exact R|]. split; [exact Hv|apply C13_reinsert; assumption].
Qed.

Lemma NoDup_same_length {A} (l1 l2 : list A) :
  NoDup l1 -> NoDup l2 -> (forall x, In x l1 <-> In x l2) -> length l1 = length l2.
Proof.
  intros H1 H2 H. apply Nat.le_antisymm; apply NoDup_incl_length; try assumption;
    intros x Hx; apply H; exact Hx.
Qed.

Theorem C13_len c : WF c -> clen c = lenN (c_queue c).
Proof.
  intros W. unfold clen, lenN. f_equal.
  rewrite <- (map_length fst (c_indexes c)).
  apply NoDup_same_length; [apply W|apply W|].
  intros k. rewrite <- lookup_In_fst. symmetry. apply W.
Qed.

Theorem C13_contains c k : WF c -> (contains c k = COk true <-> retrievable c k).
Proof.
  intros W. unfold contains, retrievable.
  destruct (get c k) as [[v|]|e|] eqn:Hg.
  - split; [intros _; exists v; reflexivity|reflexivity].
  - split; [discriminate|intros [v Hv]; discriminate].
  - split; [discriminate|intros [v Hv]; discriminate].
  - split; [discriminate|intros [v Hv]; discriminate].
Qed.

Corollary C13_contains_false c k : WF c -> (contains c k = COk false <-> ~ retrievable c k).
Proof.
  intros W. unfold contains, retrievable. pose proof (get_no_panic c k W) as Hnp.
  destruct (get c k) as [[v|]|e|] eqn:Hg.
  - split; [discriminate|intros H; exfalso; apply H; exists v; reflexivity].
  - split; [intros _ [v Hv]; discriminate|reflexivity].
  - exfalso. unfold get in Hg. destruct (lookup k (c_indexes c)); [|discriminate].
    destruct (_ || _); discriminate.
  - contradiction.
Qed.

Theorem C13_count_queue c k v n c' :
  WF c -> insert c k v = (COk n, c') ->
  lenN (c_queue c) + 1 = lenN (c_queue c') + n /\
  (forall k', In k' (c_queue c) -> ~ In k' (c_queue c') -> ~ retrievable c' k') /\
  (exists q', c_queue c' = q' ++ [k]) /\
  (* and more precisely: the evicted keys are the [n] oldest ones *)
  (exists p q', c_queue c = p ++ q' /\ c_queue c' = q' ++ [k] /\ lenN p = n).
Proof.
  intros W E. destruct (insert_ok_queue _ _ _ _ _ W E) as (W' & _ & p & q' & Hq1 & Hq2 & Hn).
  split; [rewrite Hq1, Hq2, !lenN_app; change (lenN [k]) with 1; lia|]. split.
  - intros k' _ Hnin. rewrite retrievable_iff_queue by exact W'. exact Hnin.
  - split; [exists q'; exact Hq2|]. exists p, q'. repeat split; try assumption. symmetry; exact Hn.
Qed.

(* clen version of the count: len before + 1 = len after + evicted *)
Corollary C13_count_len c k v n c' :
  WF c -> insert c k v = (COk n, c') -> clen c + 1 = clen c' + n.
Proof.
  intros W E. destruct (insert_ok_queue _ _ _ _ _ W E) as (W' & _).
  rewrite !C13_len by assumption. eapply C13_count_queue; eassumption.
Qed.

(* ------------------------------------------------------------------ *)
(* buffer slices and write_at                                          *)
(* ------------------------------------------------------------------ *)

Definition slice (buf : list byte) (b n : N) : list byte :=
  firstn (N.to_nat n) (skipn (N.to_nat b) buf).

Lemma skipn_skipn' {A} x y (l : list A) : skipn x (skipn y l) = skipn (y + x) l.
Proof.
  revert l. induction y as [|y IH]; intros l; [reflexivity|].
  destruct l as [|a l]; [rewrite !skipn_nil; reflexivity|]. cbn [skipn Nat.add]. apply IH.
Qed.

Lemma get_slice c k r :
  lookup k (c_indexes c) = Some r -> r_begin r <= r_end r -> r_end r <= cap c ->
  get c k = COk (Some (slice (c_buffer c) (r_begin r) (r_end r - r_begin r))).
Proof.
  intros Hl H1 H2. unfold get. rewrite Hl.
  destruct (N.ltb_spec (r_end r) (r_begin r)); [lia|]. destruct (N.ltb_spec (cap c) (r_end r)); [lia|].
  reflexivity.
Qed.

Lemma lenN_slice buf b n : b + n <= lenN buf -> lenN (slice buf b n) = n.
Proof. intros H. unfold slice, lenN in *. rewrite firstn_length, skipn_length. lia. Qed.

Lemma slice_write_same buf b v buf' :
  write_at buf b (b + lenN v) v = Some buf' -> slice buf' b (lenN v) = v.
Proof.
  intros H. apply write_at_inv in H. destruct H as (H1 & H2 & H3 & ->). unfold slice.
  assert (Hl : length (firstn (N.to_nat b) buf) = N.to_nat b).
  { rewrite firstn_length. unfold lenN in H2. lia. }
  rewrite skipn_app, Hl, Nat.sub_diag. cbn [skipn].
  rewrite <- Hl at 1. rewrite skipn_all. cbn [app].
  rewrite firstn_app. unfold lenN. rewrite Nat2N.id, Nat.sub_diag, firstn_all. cbn [firstn].
  apply app_nil_r.
Qed.

Lemma slice_write_left buf b e v buf' x n :
  write_at buf b e v = Some buf' -> x + n <= b -> slice buf' x n = slice buf x n.
Proof.
  intros H Hx. apply write_at_inv in H. destruct H as (H1 & H2 & H3 & ->). unfold slice.
  assert (Hl : length (firstn (N.to_nat b) buf) = N.to_nat b).
  { rewrite firstn_length. unfold lenN in H2. lia. }
  rewrite skipn_app, Hl.
  replace (N.to_nat x - N.to_nat b)%nat with 0%nat by lia. cbn [skipn].
  rewrite firstn_app, skipn_length, Hl.
  replace (N.to_nat n - (N.to_nat b - N.to_nat x))%nat with 0%nat by lia. cbn [firstn].
  rewrite app_nil_r, skipn_firstn_comm, firstn_firstn. f_equal. lia.
Qed.

Lemma slice_write_right buf b e v buf' x n :
  write_at buf b e v = Some buf' -> e <= x -> slice buf' x n = slice buf x n.
Proof.
  intros H Hx. apply write_at_inv in H. destruct H as (H1 & H2 & H3 & ->). unfold slice.
  f_equal. rewrite app_assoc.
  assert (Hl : length (firstn (N.to_nat b) buf ++ v) = N.to_nat e).
  { rewrite app_length, firstn_length. unfold lenN in *. lia. }
  rewrite skipn_app, Hl, skipn_all2 by lia. cbn [app].
  rewrite skipn_skipn'. f_equal. lia.
Qed.

(* ------------------------------------------------------------------ *)
(* C06 (fresh key): a successful insertion is immediately retrievable, *)
(* with exactly the inserted bytes — for every history                 *)
(* ------------------------------------------------------------------ *)

Lemma insert_ok_get c k v n c' :
  WF c -> insert c k v = (COk n, c') -> get c' k = COk (Some v).
Proof.
  intros W E.
  destruct (insert_ok_inv _ _ _ _ _ E) as (Hk & Hv & n1 & c1 & n2 & Hwrap & Hwrite & Hn).
  destruct (wrap_phase_WF c v W Hv) as (n1' & c1' & Hwrap' & W1 & Hcap1 & Hbuf1 & Hfit1 & p1 & Hq1 & Hn1 & Hidx1).
  rewrite Hwrap in Hwrap'. injection Hwrap' as <- <-.
  assert (Hk1 : lookup k (c_indexes c1) = None).
  { rewrite Hidx1. apply lookup_remove_keys_None. exact Hk. }
  assert (Hfit1' : c_fp c1 + lenN v <= cap c1) by lia.
  destruct (write_phase_WF c1 k v W1 Hk1 Hfit1')
    as (n2' & c2 & Hwrite' & W2 & Hcap2 & Hfp2 & Hfull2 & Hbuf2 & p2 & q' & Hq2 & Hn2 & Hq' & Hidx2).
  rewrite Hwrite in Hwrite'. injection Hwrite' as <- <-.
  erewrite get_slice; [|rewrite Hidx2; cbn [lookup]; rewrite N.eqb_refl; reflexivity|cbn [r_begin r_end]; lia|cbn [r_begin r_end]; lia].
  cbn [r_begin r_end]. replace (c_fp c1 + lenN v - c_fp c1) with (lenN v) by lia.
  do 2 f_equal. eapply slice_write_same. exact Hbuf2.
Qed.

Theorem C06_fresh_key c k v n c' :
  WF c -> insert c k v = (COk n, c') -> exists v', get c' k = COk (Some v') /\ lenN v' = lenN v.
Proof. intros W E. exists v. split; [eapply insert_ok_get; eassumption|reflexivity]. Qed.

Corollary C06_fresh_key_retrievable c k v n c' :
  WF c -> insert c k v = (COk n, c') -> retrievable c' k.
Proof. intros W E. exists v. eapply insert_ok_get; eassumption. Qed.
