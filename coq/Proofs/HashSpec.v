(* Proofs/HashSpec.v — the hashing accessors of the model (Impl/Access.v tx_txid, tx_txid_sha2,
   header_block_hash, ...) compute the double SHA-256 (Base/Sha256.v, pinned to FIPS 180-4 by the test
   vectors of Proofs/Sha256Stream.v) of the witness-stripped serialization / of the 80 header bytes. *)
From BS Require Import Impl.Visit Impl.Access Spec.Wire Ref.MetaDefs Proofs.SliceLemmas Proofs.Sha256Stream
  Proofs.ImplRefLeaf Proofs.ImplRefTx Proofs.Transfer Proofs.Entries Proofs.SpecLemmas Proofs.RefSpec Proofs.SpecTransfer
  Proofs.TxSpec Proofs.ObjSpec Proofs.Examples.
From Coq Require Import ZifyN ZifyNat ZifyBool.
Open Scope N_scope.

(* both back ends are the same function of the preimage *)
Lemma tx_txid_sha2_eq t : tx_txid_sha2 t = tx_txid t.
Proof. reflexivity. Qed.
Lemma header_block_hash_sha2_eq h : header_block_hash_sha2 h = header_block_hash h.
Proof.
  unfold header_block_hash_sha2, header_block_hash, sha_finish_d.
  pose proof (sha_stream_chunks [bytes (h_slice h)]) as G. cbn [fold_left concat] in G.
  rewrite app_nil_r in G. rewrite G. reflexivity.
Qed.

Lemma tx_txid_of_preimage t x y z : tx_txid_preimage t = Ok (x, y, z) ->
  tx_txid t = Ok (sha256d (bytes x ++ bytes y ++ bytes z)).
Proof. intros HP. unfold tx_txid. rewrite HP. cbn [obind]. rewrite sha_stream3_d. reflexivity. Qed.

(* Transaction::txid / txid_sha2 of every successfully parsed transaction *)
Theorem tx_txid_spec brk p b h pr h' : InLen b -> visit_transaction brk (sl p b) h = (Ok pr, h') ->
  exists t, wf_tx t /\ b = enc_tx t ++ bytes (remaining pr) /\
            tx_txid (parsed pr) = Ok (sha256d (enc_stripped t)) /\ tx_txid_sha2 (parsed pr) = Ok (sha256d (enc_stripped t)).
Proof.
  intros HD HV. destruct (tx_parsed_is_obj brk p b h pr h' HD HV) as [t [Hwf [Hb [Hp _]]]].
  assert (HL : InLen (enc_tx t)). { rewrite Hb in HD. exact (InLen_prefix _ _ HD). }
  destruct (tx_preimage_spec p t Hwf HL) as [x [y [z [A [B _]]]]].
  exists t. split; [exact Hwf|split; [exact Hb|]]. change (tx_txid_sha2 (parsed pr)) with (tx_txid (parsed pr)).
  rewrite Hp, (tx_txid_of_preimage _ x y z A), B. split; reflexivity.
Qed.

(* BlockHeader::block_hash / block_hash_sha2 *)
Theorem header_block_hash_spec brk p b h pr h' : In63 b -> visit_header brk (sl p b) h = (Ok pr, h') ->
  exists c, b = c ++ bytes (remaining pr) /\ lenN c = 80 /\
            header_block_hash (parsed pr) = sha256d c /\ header_block_hash_sha2 (parsed pr) = sha256d c.
Proof.
  intros HD HV. destruct (header_parsed_is_spec brk p b h pr h' HD HV) as [a [_ [Hb [Hs [L _]]]]].
  exists (enc_header a). split; [exact Hb|split; [exact L|]].
  rewrite header_block_hash_sha2_eq. unfold header_block_hash. rewrite Hs. cbn [bytes sl].
  pose proof (sha_stream_chunks [enc_header a]) as G. cbn [fold_left concat] in G. rewrite app_nil_r in G.
  unfold sha_finish_d, sha256d. rewrite G. split; reflexivity.
Qed.

(* Block::block_hash / block_hash_sha2: the hash of the first 80 bytes of the block *)
Theorem block_block_hash_spec brk p b h pr h' : InLen b -> visit_block brk (sl p b) h = (Ok pr, h') ->
  exists a, wf_block a /\ b = enc_block a ++ bytes (remaining pr) /\
            block_block_hash (parsed pr) = sha256d (enc_header (ab_header a)) /\
            block_block_hash_sha2 (parsed pr) = sha256d (enc_header (ab_header a)) /\
            firstn 80 b = enc_header (ab_header a).
Proof.
  intros HD HV.
  destruct (T_ok_is_encoding_any E_block S_block brk p b h pr h' HD HV) as [a [Hwf [Hb [_ [_ [_ [x [Hx Hp]]]]]]]].
  cbn [s_proj S_block spec_of_decodes] in Hx. subst x.
  cbn [s_enc S_block spec_of_decodes] in Hb.
  change (parsed pr = mk_block (sl p (enc_block a)) a h') in Hp.
  assert (L80 : lenN (enc_header (ab_header a)) = 80).
  { destruct Hwf as [[_ [Lp [Lm _]]] _]. rewrite lenN_enc_header, Lp, Lm. reflexivity. }
  assert (F : forall r, firstn 80 (enc_header (ab_header a) ++ r) = enc_header (ab_header a)).
  { intros r. rewrite firstn_app. unfold lenN in L80.
    replace (80 - length (enc_header (ab_header a)))%nat with 0%nat by lia.
    rewrite firstn_O, app_nil_r. apply firstn_all2. lia. }
  exists a. split; [exact Hwf|split; [exact Hb|]].
  unfold block_block_hash_sha2, block_block_hash. rewrite header_block_hash_sha2_eq.
  unfold header_block_hash. rewrite Hp. cbn [mk_block b_header h_slice bytes sl off].
  unfold enc_block at 1 2. rewrite F.
  pose proof (sha_stream_chunks [enc_header (ab_header a)]) as G. cbn [fold_left concat] in G. rewrite app_nil_r in G.
  unfold sha_finish_d, sha256d. rewrite G. split; [reflexivity|split; [reflexivity|]].
  rewrite Hb. unfold enc_block. rewrite <- app_assoc. apply F.
Qed.

(* ---- the genesis block header, evaluated by the kernel through the model: its hash is the well-known
   000000000019d6689c085ae165831e934ff763ae46a2a6c172b3f1b60a8ce26f (displayed backwards) ---- *)
Definition genesis_header : a_header :=
  {| ah_version := 1; ah_prev := repeat x00 32;
     ah_merkle := [x3b;xa3;xed;xfd;x7a;x7b;x12;xb2;x7a;xc7;x2c;x3e;x67;x76;x8f;x61;
                   x7f;xc8;x1b;xc3;x88;x8a;x51;x32;x3a;x9f;xb8;xaa;x4b;x1e;x5e;x4a];
     ah_time := 1231006505; ah_bits := 486604799; ah_nonce := 2083236893 |}.

Example genesis_block_hash :
  match visit_header never (sl 0 (enc_header genesis_header ++ [x01])) [] with
  | (Ok pr, _) => hex_of (header_block_hash (parsed pr)) =
      [0x6f;0xe2;0x8c;0x0a;0xb6;0xf1;0xb3;0x72;0xc1;0xa6;0xa2;0x46;0xae;0x63;0xf7;0x4f;
       0x93;0x1e;0x83;0x65;0xe1;0x5a;0x08;0x9c;0x68;0xd6;0x19;0x00;0x00;0x00;0x00;0x00]
  | _ => False
  end.
Proof. vm_compute. reflexivity. Qed.

(* the segwit example transaction: its txid is the double hash of the stripped serialization, which differs
   from the double hash of the whole transaction (the wtxid) *)
Example ex_txid_is_not_wtxid :
  match visit_transaction never (sl 5 (ex_tx_bytes ++ ex_trailing)) [] with
  | (Ok pr, _) => tx_txid (parsed pr) = Ok (sha256d (enc_stripped ex_tx_segwit)) /\
                  tx_txid (parsed pr) <> Ok (sha256d ex_tx_bytes)
  | _ => False
  end.
Proof. vm_compute. split; [reflexivity|discriminate]. Qed.
