(* Proofs/CacheValue.v — the typed lookup SliceCache::get_value::<Transaction>: the cache theorems
   (Proofs/CacheRing.v) composed with the parser theorems (Proofs/SpecTransfer.v, TxSpec.v). *)
From BS Require Import Impl.Visit Impl.Access Impl.Cache Spec.Wire Spec.CacheSpec Ref.MetaDefs
  Proofs.Len Proofs.ImplRefLeaf Proofs.ImplRefTx Proofs.Transfer Proofs.Entries Proofs.SpecLemmas Proofs.RefSpec
  Proofs.SpecTransfer Proofs.TxSpec Proofs.ObjSpec Proofs.CacheWF Proofs.CacheFifo Proofs.CacheRing.
Open Scope N_scope.

(* get_value is from_bytes of what get returns, and nothing else *)
Lemma get_value_get {A} (F : list byte -> A) c k :
  get_value F c k = match get c k with
                    | COk (Some v) => COk (Some (F v)) | COk None => COk None
                    | CErr e => CErr e | CPanic => CPanic end.
Proof. reflexivity. Qed.

(* stored bytes that begin with a well-formed transaction encoding decode to that transaction's object *)
Lemma tx_from_stored_enc t rest : wf_tx t -> InLen (enc_tx t ++ rest) ->
  tx_from_stored (enc_tx t ++ rest) = Ok (obj_tx 0 t).
Proof.
  intros Hwf HD. unfold tx_from_stored, db_transaction_from_bytes.
  change (top (enc_tx t ++ rest)) with (sl 0 (enc_tx t ++ rest)).
  destruct (T_encoding_is_ok E_transaction S_transaction 0 t rest [] Hwf HD) as [x [Hx HV]].
  cbn [s_proj S_transaction spec_of_decodes] in Hx. subst x.
  change (e_visit E_transaction never (sl 0 (s_enc S_transaction t ++ rest)) [])
    with (visit_transaction never (sl 0 (enc_tx t ++ rest)) []) in HV.
  rewrite HV. cbn [expect parsed obind]. f_equal.
  change (e_mk E_transaction (sl 0 (s_enc S_transaction t)) t (rev (s_trav S_transaction 0 t) ++ []))
    with (mk_tx (sl 0 (enc_tx t)) t (rev (trav_tx 0 t) ++ [])).
  apply mk_tx_obj.
Qed.

(* and conversely: when from_bytes does not panic the stored bytes begin with a well-formed encoding,
   and the object is that transaction's *)
Lemma tx_from_stored_ok v x : InLen v -> tx_from_stored v = Ok x ->
  exists t rest, wf_tx t /\ v = enc_tx t ++ rest /\ x = obj_tx 0 t.
Proof.
  intros HD. unfold tx_from_stored, db_transaction_from_bytes.
  change (top v) with (sl 0 v).
  destruct (visit_transaction never (sl 0 v) []) as [r h'] eqn:HV.
  destruct r as [pr|e|m|]; cbn [expect obind]; try discriminate.
  intros HH. injection HH as <-.
  destruct (tx_parsed_is_obj never 0 v [] pr h' HD HV) as [t [Hwf [Hb [Hp _]]]].
  exists t, (bytes (remaining pr)). split; [exact Hwf|split; [exact Hb|exact Hp]].
Qed.

(* the typed lookup after any history without zero-length values: absent, or the object of the
   transaction whose encoding was most recently stored under that key *)
Theorem get_value_tx_latest capacity ops c hist :
  run capacity ops = Some (c, hist) -> NoEmptyStored hist ->
  forall k t rest, wf_tx t -> InLen (enc_tx t ++ rest) ->
  get c k = COk (Some (enc_tx t ++ rest)) ->
  latest hist k = Some (enc_tx t ++ rest) /\ get_value tx_from_stored c k = COk (Some (Ok (obj_tx 0 t))).
Proof.
  intros HR HN k t rest Hwf HD HG. split.
  - exact (C06_get_latest capacity ops c hist HR HN k _ HG).
  - rewrite get_value_get, HG, (tx_from_stored_enc t rest Hwf HD). reflexivity.
Qed.

(* what a typed lookup can return at all *)
Theorem get_value_tx_cases capacity ops c hist :
  run capacity ops = Some (c, hist) -> NoEmptyStored hist -> forall k,
  (get c k = COk None /\ get_value tx_from_stored c k = COk None) \/
  (exists v, get c k = COk (Some v) /\ latest hist k = Some v /\ get_value tx_from_stored c k = COk (Some (tx_from_stored v))).
Proof.
  intros HR HN k. rewrite get_value_get.
  assert (HP : get c k <> CPanic). { apply get_no_panic. apply (reachable_WF c hist). exists capacity, ops. exact HR. }
  destruct (get c k) as [[v|]|e|] eqn:HG.
  - right. exists v. split; [reflexivity|split; [exact (C06_get_latest capacity ops c hist HR HN k v HG)|reflexivity]].
  - left. split; reflexivity.
  - exfalso. unfold get in HG. destruct (lookup k (c_indexes c)); [|discriminate].
    destruct (_ || _); discriminate.
  - contradiction.
Qed.

(* immediately after storing a transaction's encoding, the typed lookup returns that transaction *)
Theorem get_value_tx_fresh capacity ops c0 hist0 k t :
  run capacity ops = Some (c0, hist0) -> wf_tx t -> InLen (enc_tx t) ->
  forall n c, insert c0 k (enc_tx t) = (COk n, c) ->
  get_value tx_from_stored c k = COk (Some (Ok (obj_tx 0 t))).
Proof.
  intros HR Hwf HD n c HI.
  destruct (C06_fresh capacity ops c0 hist0 k (enc_tx t) HR n c HI) as [_ HG].
  rewrite get_value_get, HG.
  pose proof (tx_from_stored_enc t [] Hwf) as H. rewrite app_nil_r in H. rewrite (H HD). reflexivity.
Qed.
