(* Proofs/EvSound.v — event soundness on ARBITRARY input.

   Whatever the input (valid or not) and whatever the visitor (break oracle), every
   callback a reference decoder delivers describes data that really is in the input:
   its windows lie inside the input, the bytes under the window are the encoding of
   a well-formed object, and the callback is exactly the callback of that object.

   Contents
     1. windows: [win_in], [sub], shifting lemmas
     2. [ev_sound], monotonicity [ev_sound_shift]
     3. [Silent] parsers (no callback at all)
     4. Section Ambient: soundness relative to a fixed ambient input (p0, b0) of which
        the current state is a suffix: [Suffix], [EvSAt], [EvS] and the closure lemmas
     5. instances for every decoder of Ref/Grammar.v
     6. [EvSound] (the ambient input is the current input), equivalence with [EvS],
        closure lemmas, and the final theorems [r_*_EvSound]. *)
From Coq Require Import Lia ZifyN ZifyNat ZifyBool.
From BS Require Import Ref.Meta1 Ref.Meta2 Proofs.SpecLemmas Proofs.RefSpec.
Open Scope N_scope.

(* ------------------------------------------------------------------ *)
(** * 1. Windows *)

(* the window [w] = (absolute offset, length) lies inside the buffer [b] located at
   absolute offset [p] *)
Definition win_in (p : N) (b : list byte) (w : window) : Prop :=
  p <= fst w /\ fst w + snd w <= p + lenN b.

(* the bytes of [b] under the window [w] *)
Definition sub (p : N) (b : list byte) (w : window) : list byte :=
  firstn (N.to_nat (snd w)) (skipn (N.to_nat (fst w - p)) b).

Lemma sub_win_bytes p b w : sub p b w = win_bytes p b w.
Proof. reflexivity. Qed.

Lemma sub_mid p (pre mid post : list byte) w :
  fst w = p + lenN pre -> snd w = lenN mid -> sub p (pre ++ mid ++ post) w = mid.
Proof.
  intros H1 H2. rewrite sub_win_bytes. apply win_bytes_mid; lia.
Qed.

Lemma win_in_mid p (pre mid post : list byte) w :
  fst w = p + lenN pre -> snd w = lenN mid -> win_in p (pre ++ mid ++ post) w.
Proof.
  intros H1 H2. unfold win_in. rewrite !lenN_app. lia.
Qed.

Lemma sub_length p b w : win_in p b w -> lenN (sub p b w) = snd w.
Proof.
  intros [H1 H2]. unfold sub, lenN in *. rewrite firstn_length, skipn_length. lia.
Qed.

Lemma skipn_app_ge {A} (c rest : list A) k : skipn (length c + k) (c ++ rest) = skipn k rest.
Proof. induction c as [|x c IH]; [reflexivity|]. cbn [length Nat.add app skipn]. exact IH. Qed.

(* a window of the rest of the input is a window of the whole input *)
Lemma win_in_shift p c rest q w :
  q = p + lenN c -> win_in q rest w -> win_in p (c ++ rest) w.
Proof. intros -> [H1 H2]. unfold win_in. rewrite lenN_app. lia. Qed.

Lemma sub_shift p c rest q w :
  q = p + lenN c -> q <= fst w -> sub p (c ++ rest) w = sub q rest w.
Proof.
  intros -> H. unfold sub. f_equal.
  replace (N.to_nat (fst w - p)) with (length c + N.to_nat (fst w - (p + lenN c)))%nat
    by (unfold lenN in *; lia).
  apply skipn_app_ge.
Qed.

(* ------------------------------------------------------------------ *)
(** * 2. Sound events *)

(* the announced count [n] is a (minimal) compact size that is really in the input *)
Definition count_in (p : N) (b : list byte) (n : N) : Prop :=
  exists q, win_in p b (q, cs_width n) /\ sub p b (q, cs_width n) = cs_enc n /\ n < TWO64.

(* a witness element: the window is the data part of a script (length prefix + data)
   that is really in the input *)
Definition script_in (p : N) (b : list byte) (w : window) : Prop :=
  exists x q, wf_script x /\ win_in p b (q, lenN (enc_script x)) /\
              sub p b (q, lenN (enc_script x)) = enc_script x /\
              w = (script_data_off q x, lenN x).

Definition ev_sound (p : N) (b : list byte) (e : event) : Prop :=
  match e with
  | ETxIn i w _ _ _ _ _ =>
      win_in p b w /\ exists a, wf_txin a /\ sub p b w = enc_txin a /\ e = ev_txin i (fst w) a
  | ETxOut i w _ _ =>
      win_in p b w /\ exists a, wf_txout a /\ sub p b w = enc_txout a /\ e = ev_txout i (fst w) a
  | EWitnessElem _ w => win_in p b w /\ script_in p b w
  | EHeader w _ _ _ _ _ =>
      win_in p b w /\ snd w = 80 /\
      exists a, wf_header a /\ sub p b w = enc_header a /\ e = ev_header (fst w) a
  | ETransaction w _ _ _ _ _ _ =>
      win_in p b w /\ exists t, wf_tx t /\ sub p b w = enc_tx t /\ e = ev_tx (fst w) t
  | ETxIns n | ETxOuts n | EWitnessTotal n | EBlockBegin n => count_in p b n
  | EWitness _ | EWitnessEnd => True
  end.

Lemma count_in_shift p c rest q n :
  q = p + lenN c -> count_in q rest n -> count_in p (c ++ rest) n.
Proof.
  intros Hq (o & Hw & Hs & Hn). exists o. split; [|split].
  - eapply win_in_shift; eassumption.
  - rewrite (sub_shift p c rest q _ Hq); [exact Hs|]. destruct Hw as [Hw _]. exact Hw.
  - exact Hn.
Qed.

Lemma script_in_shift p c rest q w :
  q = p + lenN c -> script_in q rest w -> script_in p (c ++ rest) w.
Proof.
  intros Hq (x & o & Hx & Hw & Hs & E). exists x, o. split; [exact Hx|]. split; [|split].
  - eapply win_in_shift; eassumption.
  - rewrite (sub_shift p c rest q _ Hq); [exact Hs|]. destruct Hw as [Hw _]. exact Hw.
  - exact E.
Qed.

(* monotonicity: an event that is sound for the rest of the input is sound for the input *)
Lemma ev_sound_shift p c rest q e :
  q = p + lenN c -> ev_sound q rest e -> ev_sound p (c ++ rest) e.
Proof.
  intros Hq H.
  destruct e; cbn [ev_sound] in *;
    try exact I;
    try (eapply count_in_shift; eassumption).
  - destruct H as (Hw & H80 & a & Ha & Hs & E). split; [|split; [exact H80|]].
    + eapply win_in_shift; eassumption.
    + exists a. split; [exact Ha|]. split; [|exact E].
      rewrite (sub_shift p c rest q _ Hq); [exact Hs|]. destruct Hw as [Hw _]. exact Hw.
  - destruct H as (Hw & a & Ha & Hs & E). split.
    + eapply win_in_shift; eassumption.
    + exists a. split; [exact Ha|]. split; [|exact E].
      rewrite (sub_shift p c rest q _ Hq); [exact Hs|]. destruct Hw as [Hw _]. exact Hw.
  - destruct H as (Hw & a & Ha & Hs & E). split.
    + eapply win_in_shift; eassumption.
    + exists a. split; [exact Ha|]. split; [|exact E].
      rewrite (sub_shift p c rest q _ Hq); [exact Hs|]. destruct Hw as [Hw _]. exact Hw.
  - destruct H as (Hw & Hs). split.
    + eapply win_in_shift; eassumption.
    + eapply script_in_shift; eassumption.
  - destruct H as (Hw & a & Ha & Hs & E). split.
    + eapply win_in_shift; eassumption.
    + exists a. split; [exact Ha|]. split; [|exact E].
      rewrite (sub_shift p c rest q _ Hq); [exact Hs|]. destruct Hw as [Hw _]. exact Hw.
Qed.

(* ------------------------------------------------------------------ *)
(** * 3. Silent parsers: no callback, whatever the outcome *)

Definition Silent {A} (p : P A) : Prop := forall brk s,
  match p brk s with
  | Done _ s' => hi s' = hi s
  | Fail _ h => h = hi s
  | Stuck => True
  end.

Lemma Silent_ret {A} (a : A) : Silent (ret a).
Proof. intros brk s. reflexivity. Qed.
Lemma Silent_fail {A} e : Silent (@fail A e).
Proof. intros brk s. reflexivity. Qed.
Lemma Silent_get_pos : Silent get_pos.
Proof. intros brk s. reflexivity. Qed.
Lemma Silent_take n : Silent (take n).
Proof. intros brk s. unfold take. destruct (splitN (inp s) n) as [[a b]|]; reflexivity. Qed.
Lemma Silent_bind {A B} (p : P A) (f : A -> P B) :
  Silent p -> (forall a, Silent (f a)) -> Silent (bind p f).
Proof.
  intros Hp Hf brk s. unfold bind. specialize (Hp brk s).
  destruct (p brk s) as [a s1|e h|]; [|exact Hp|exact I].
  specialize (Hf a brk s1). destruct (f a brk s1) as [b s2|e h|]; [| |exact I]; congruence.
Qed.
Lemma Silent_if {A} (c : bool) (p q : P A) : Silent p -> Silent q -> Silent (if c then p else q).
Proof. destruct c; auto. Qed.
Lemma Silent_match_prod {A B C} (x : A * B) (f : A -> B -> P C) :
  (forall a b, Silent (f a b)) -> Silent (match x with (a, b) => f a b end).
Proof. destruct x; auto. Qed.

Ltac silent_tac :=
  repeat first
    [ assumption
    | apply Silent_ret | apply Silent_fail | apply Silent_get_pos | apply Silent_take
    | apply Silent_bind | apply Silent_if | apply Silent_match_prod
    | intro
    | progress cbv beta ].

Lemma r_u_Silent w : Silent (r_u w).
Proof. unfold r_u. silent_tac. Qed.
Lemma r_compact_Silent : Silent r_compact.
Proof. pose proof r_u_Silent. unfold r_compact. silent_tac. Qed.
Lemma r_script_pos_Silent : Silent r_script_pos.
Proof. pose proof r_compact_Silent. unfold r_script_pos. silent_tac. Qed.
Lemma r_outpoint_Silent : Silent r_outpoint.
Proof. pose proof r_u_Silent. unfold r_outpoint. silent_tac. Qed.
Lemma r_txin_ev_Silent i : Silent (r_txin_ev i).
Proof.
  pose proof r_u_Silent. pose proof r_outpoint_Silent. pose proof r_script_pos_Silent.
  unfold r_txin_ev. silent_tac.
Qed.
Lemma r_txout_ev_Silent i : Silent (r_txout_ev i).
Proof.
  pose proof r_u_Silent. pose proof r_script_pos_Silent.
  unfold r_txout_ev. silent_tac.
Qed.

(* ------------------------------------------------------------------ *)
(** * 4. Soundness relative to an ambient input

   An event is emitted AFTER the bytes it describes were consumed, so soundness of
   a parser that runs in the middle of the input has to be stated relative to the
   whole (ambient) input (p0, b0), of which the current state is a suffix. *)

Section Ambient.
  Variable p0 : N.
  Variable b0 : list byte.

  (* the state [s] is a suffix of the ambient input: what has been consumed so far is [c] *)
  Definition Suffix (s : st) : Prop := exists c, b0 = c ++ inp s /\ pos s = p0 + lenN c.

  (* [h'] extends [h] by sound events only; [d] lists the new events oldest first *)
  Definition SExt (h h' : hist) : Prop := exists d, h' = rev d ++ h /\ Forall (ev_sound p0 b0) d.

  Lemma SExt_refl h : SExt h h.
  Proof. exists []. split; [reflexivity|constructor]. Qed.

  Lemma SExt_trans a b c : SExt a b -> SExt b c -> SExt a c.
  Proof.
    intros (d1 & -> & F1) (d2 & -> & F2). exists (d1 ++ d2). split.
    - rewrite rev_app_distr, app_assoc. reflexivity.
    - apply Forall_app. split; assumption.
  Qed.

  Lemma SExt_cons e h : ev_sound p0 b0 e -> SExt h (e :: h).
  Proof. intros He. exists [e]. split; [reflexivity|]. constructor; [exact He|constructor]. Qed.

  (* soundness of one run *)
  Definition EvSAt {A} (r : P A) (brk : oracle) (s : st) : Prop :=
    match r brk s with
    | Done _ s' => SExt (hi s) (hi s')
    | Fail _ h' => SExt (hi s) h'
    | Stuck => True
    end.

  (* soundness of a parser: every run from a suffix of the ambient input, under every visitor *)
  Definition EvS {A} (r : P A) : Prop := forall brk s, Suffix s -> EvSAt r brk s.

  (** ** suffixes *)

  Lemma Suffix_init h : Suffix {| pos := p0; inp := b0; hi := h |}.
  Proof. exists []. cbn [pos inp app]. split; [reflexivity|]. rewrite lenN_nil. lia. Qed.

  Lemma Suffix_step {A} (p : P A) brk s a s' :
    Consumes p -> p brk s = Done a s' -> Suffix s -> Suffix s'.
  Proof.
    intros Cp E (c & Eb & Ep).
    destruct (Consumes_done p Cp brk s a s' E) as (c1 & E1 & P1 & _).
    exists (c ++ c1). rewrite <- app_assoc, <- E1, lenN_app. split; [exact Eb|lia].
  Qed.

  (* bytes [x] at the head of the current input are located at [pos s] in the ambient input *)
  Lemma Suffix_located s x rest :
    Suffix s -> inp s = x ++ rest ->
    win_in p0 b0 (pos s, lenN x) /\ sub p0 b0 (pos s, lenN x) = x.
  Proof.
    intros (c & Eb & Ep) Ei. rewrite Ei in Eb. subst b0. split.
    - apply win_in_mid; [exact Ep|reflexivity].
    - apply sub_mid; [exact Ep|reflexivity].
  Qed.

  (** ** closure lemmas, for one run *)

  Lemma EvSAt_ret {A} (a : A) brk s : EvSAt (ret a) brk s.
  Proof. apply SExt_refl. Qed.

  Lemma EvSAt_fail {A} e brk s : EvSAt (@fail A e) brk s.
  Proof. apply SExt_refl. Qed.

  Lemma EvSAt_silent {A} (p : P A) brk s : Silent p -> EvSAt p brk s.
  Proof.
    intros Hp. unfold EvSAt. specialize (Hp brk s).
    destruct (p brk s) as [a s1|e h|]; [| |exact I]; rewrite Hp; apply SExt_refl.
  Qed.

  Lemma EvSAt_emitp e brk s : ev_sound p0 b0 e -> EvSAt (emitp e) brk s.
  Proof.
    intros He. unfold EvSAt, emitp.
    destruct (breakable e && brk (hi s) e); cbn [hi]; apply SExt_cons; exact He.
  Qed.

  (* the continuation runs from a later suffix, and may use what the first parser returned *)
  Lemma EvSAt_bind {A B} (p : P A) (f : A -> P B) brk s :
    Consumes p -> Suffix s -> EvSAt p brk s ->
    (forall a s', p brk s = Done a s' -> Suffix s' -> EvSAt (f a) brk s') ->
    EvSAt (bind p f) brk s.
  Proof.
    intros Cp Hs Hp Hf. unfold EvSAt, bind in *.
    destruct (p brk s) as [a s1|e h|] eqn:E; [|exact Hp|exact I].
    specialize (Hf a s1 eq_refl (Suffix_step p brk s a s1 Cp E Hs)).
    destruct (f a brk s1) as [b s2|e h|]; [| |exact I]; eapply SExt_trans; eassumption.
  Qed.

  Lemma EvSAt_bind_silent {A B} (p : P A) (f : A -> P B) brk s :
    Consumes p -> Silent p -> Suffix s ->
    (forall a s', p brk s = Done a s' -> Suffix s' -> EvSAt (f a) brk s') ->
    EvSAt (bind p f) brk s.
  Proof.
    intros Cp Sp Hs Hf. apply EvSAt_bind; [exact Cp|exact Hs|apply EvSAt_silent; exact Sp|exact Hf].
  Qed.

  Lemma EvSAt_bind_get_pos {B} (f : N -> P B) brk s :
    EvSAt (f (pos s)) brk s -> EvSAt (bind get_pos f) brk s.
  Proof. intros H. exact H. Qed.

  (* emit a sound event, then continue from the same place *)
  Lemma EvSAt_bind_emitp {B} e (f : unit -> P B) brk s :
    ev_sound p0 b0 e -> Suffix s ->
    (forall s', Suffix s' -> pos s' = pos s -> inp s' = inp s -> EvSAt (f tt) brk s') ->
    EvSAt (bind (emitp e) f) brk s.
  Proof.
    intros He Hs Hf. apply EvSAt_bind; [apply Consumes_emitp|exact Hs|apply EvSAt_emitp; exact He|].
    intros [] s' E Hs'. unfold emitp in E.
    destruct (breakable e && brk (hi s) e); [discriminate|]. injection E as <-.
    apply Hf; [exact Hs'|reflexivity|reflexivity].
  Qed.

  (** ** closure lemmas, for parsers *)

  Lemma EvS_ret {A} (a : A) : EvS (ret a).
  Proof. intros brk s _. apply EvSAt_ret. Qed.

  Lemma EvS_fail {A} e : EvS (@fail A e).
  Proof. intros brk s _. apply EvSAt_fail. Qed.

  Lemma EvS_silent {A} (p : P A) : Silent p -> EvS p.
  Proof. intros Sp brk s _. apply EvSAt_silent. exact Sp. Qed.

  Lemma EvS_take n : EvS (take n).
  Proof. apply EvS_silent, Silent_take. Qed.

  Lemma EvS_get_pos : EvS get_pos.
  Proof. apply EvS_silent, Silent_get_pos. Qed.

  Lemma EvS_emitp e : ev_sound p0 b0 e -> EvS (emitp e).
  Proof. intros He brk s _. apply EvSAt_emitp. exact He. Qed.

  Lemma EvS_stuck {A} : EvS (fun _ _ => @Stuck A).
  Proof. intros brk s _. exact I. Qed.

  Lemma EvS_bind {A B} (p : P A) (f : A -> P B) :
    Consumes p -> EvS p -> (forall a, EvS (f a)) -> EvS (bind p f).
  Proof.
    intros Cp Hp Hf brk s Hs. apply EvSAt_bind; [exact Cp|exact Hs|apply Hp; exact Hs|].
    intros a s' _ Hs'. apply Hf. exact Hs'.
  Qed.

  Lemma EvS_if {A} (c : bool) (p q : P A) : EvS p -> EvS q -> EvS (if c then p else q).
  Proof. destruct c; auto. Qed.

  Lemma EvS_match_prod {A B C} (x : A * B) (f : A -> B -> P C) :
    (forall a b, EvS (f a b)) -> EvS (match x with (a, b) => f a b end).
  Proof. destruct x; auto. Qed.

  Lemma EvS_match_list {A C} (x : list A) (p : P C) (f : A -> list A -> P C) :
    EvS p -> (forall a l, EvS (f a l)) -> EvS (match x with [] => p | a :: l => f a l end).
  Proof. destruct x; auto. Qed.

  Lemma EvS_loop_fuel {A} (body : N -> P A) n :
    (forall i, Consumes (body i)) -> (forall i, EvS (body i)) ->
    forall fuel i, EvS (loop_fuel fuel body i n).
  Proof.
    intros Cb Hb fuel. induction fuel as [|f IH]; intros i.
    - rewrite loop_fuel_O. destruct (i <? n); [apply EvS_stuck|apply EvS_ret].
    - rewrite loop_fuel_S. destruct (i <? n); [|apply EvS_ret].
      apply EvS_bind; [apply Cb|apply Hb|]. intros x.
      apply EvS_bind; [apply Consumes_loop_fuel; exact Cb|apply IH|]. intros r. apply EvS_ret.
  Qed.

  Lemma EvS_loop {A} (body : N -> P A) n :
    (forall i, Consumes (body i)) -> (forall i, EvS (body i)) -> EvS (loop body n).
  Proof. intros Cb Hb brk s Hs. unfold EvSAt, loop. exact (EvS_loop_fuel body n Cb Hb _ 0 brk s Hs). Qed.

  (* ------------------------------------------------------------------ *)
  (** * 5. Instances *)

  (** ** the events of objects found at the head of the current input *)

  Lemma count_in_at s n rest :
    Suffix s -> n < TWO64 -> inp s = cs_enc n ++ rest -> count_in p0 b0 n.
  Proof.
    intros Hs Hn Hi. exists (pos s).
    destruct (Suffix_located s (cs_enc n) rest Hs Hi) as [Hw Hsub].
    rewrite cs_enc_length' in Hw, Hsub. auto.
  Qed.

  (* a compact size that was just decoded, under any visitor *)
  Lemma count_sound brk s n s' : Suffix s -> r_compact brk s = Done n s' -> count_in p0 b0 n.
  Proof.
    intros Hs H. apply r_compact_sound in H. destruct H as (Hn & Hi & _).
    eapply count_in_at; eassumption.
  Qed.

  Lemma ev_txin_at i s a rest :
    Suffix s -> wf_txin a -> inp s = enc_txin a ++ rest -> ev_sound p0 b0 (ev_txin i (pos s) a).
  Proof.
    intros Hs Hwf Hi. destruct (Suffix_located s _ rest Hs Hi) as [Hw Hsub].
    unfold ev_txin. cbn [ev_sound fst snd]. split; [exact Hw|]. exists a. auto.
  Qed.

  Lemma ev_txout_at i s a rest :
    Suffix s -> wf_txout a -> inp s = enc_txout a ++ rest -> ev_sound p0 b0 (ev_txout i (pos s) a).
  Proof.
    intros Hs Hwf Hi. destruct (Suffix_located s _ rest Hs Hi) as [Hw Hsub].
    unfold ev_txout. cbn [ev_sound fst snd]. split; [exact Hw|]. exists a. auto.
  Qed.

  Lemma ev_welem_at i s x rest :
    Suffix s -> wf_script x -> inp s = enc_script x ++ rest ->
    ev_sound p0 b0 (EWitnessElem i (script_data_off (pos s) x, lenN x)).
  Proof.
    intros Hs Hwf Hi. destruct (Suffix_located s _ rest Hs Hi) as [Hw Hsub].
    cbn [ev_sound]. split.
    - destruct Hw as [Hw1 Hw2]. cbn [fst snd] in Hw1, Hw2. rewrite lenN_enc_script in Hw2.
      unfold win_in, script_data_off. cbn [fst snd]. lia.
    - exists x, (pos s). auto.
  Qed.

  Lemma ev_header_at s a rest :
    Suffix s -> wf_header a -> inp s = enc_header a ++ rest -> ev_sound p0 b0 (ev_header (pos s) a).
  Proof.
    intros Hs Hwf Hi. destruct (Suffix_located s _ rest Hs Hi) as [Hw Hsub].
    rewrite (lenN_enc_header_wf a Hwf) in Hw, Hsub.
    unfold ev_header. cbn [ev_sound fst snd]. split; [exact Hw|]. split; [reflexivity|].
    exists a. auto.
  Qed.

  Lemma ev_tx_at s t rest :
    Suffix s -> wf_tx t -> inp s = enc_tx t ++ rest -> ev_sound p0 b0 (ev_tx (pos s) t).
  Proof.
    intros Hs Hwf Hi. destruct (Suffix_located s _ rest Hs Hi) as [Hw Hsub].
    unfold ev_tx. destruct (at_form t) as [|ws] eqn:Ef; cbn [ev_sound fst snd].
    - split; [exact Hw|]. exists t. split; [exact Hwf|]. split; [exact Hsub|].
      unfold ev_tx. rewrite Ef. reflexivity.
    - split; [exact Hw|]. exists t. split; [exact Hwf|]. split; [exact Hsub|].
      unfold ev_tx. rewrite Ef. reflexivity.
  Qed.

  (** ** list items *)

  Lemma body_txin_Consumes i : Consumes (body_txin i).
  Proof. unfold body_txin. apply Good_Consumes. good. Qed.
  Lemma body_txout_Consumes i : Consumes (body_txout i).
  Proof. unfold body_txout. apply Good_Consumes. good. Qed.
  Lemma body_welem_Consumes i : Consumes (body_welem i).
  Proof. unfold body_welem. apply Good_Consumes. good. Qed.
  Lemma body_wit_Consumes i : Consumes (body_wit i).
  Proof. unfold body_wit. apply Good_Consumes. good. Qed.

  Lemma body_txin_EvS i : EvS (body_txin i).
  Proof.
    intros brk s Hs. unfold body_txin.
    apply EvSAt_bind_silent; [apply r_txin_ev_Consumes|apply r_txin_ev_Silent|exact Hs|].
    intros [a e] s1 H1 Hs1.
    apply r_txin_ev_sound in H1. destruct H1 as (Hwf & Hi & He & _).
    apply EvSAt_bind_emitp; [|exact Hs1|intros; apply EvSAt_ret].
    subst e. eapply ev_txin_at; eassumption.
  Qed.

  Lemma body_txout_EvS i : EvS (body_txout i).
  Proof.
    intros brk s Hs. unfold body_txout.
    apply EvSAt_bind_silent; [apply r_txout_ev_Consumes|apply r_txout_ev_Silent|exact Hs|].
    intros [a e] s1 H1 Hs1.
    apply r_txout_ev_sound in H1. destruct H1 as (Hwf & Hi & He & _).
    apply EvSAt_bind_emitp; [|exact Hs1|intros; apply EvSAt_ret].
    subst e. eapply ev_txout_at; eassumption.
  Qed.

  Lemma body_welem_EvS i : EvS (body_welem i).
  Proof.
    intros brk s Hs. unfold body_welem.
    apply EvSAt_bind_silent; [apply r_script_pos_Consumes|apply r_script_pos_Silent|exact Hs|].
    intros [d x] s1 H1 Hs1.
    apply r_script_pos_sound in H1. destruct H1 as (Hwf & Hi & Hd & _).
    apply EvSAt_bind_emitp; [|exact Hs1|intros; apply EvSAt_ret].
    subst d. eapply ev_welem_at; eassumption.
  Qed.

  (** ** count, announce the count, then the items *)

  Lemma EvS_counted {A} (body : N -> P A) (mk : N -> event) :
    (forall n, count_in p0 b0 n -> ev_sound p0 b0 (mk n)) ->
    (forall i, Consumes (body i)) -> (forall i, EvS (body i)) -> EvS (r_counted body mk).
  Proof.
    intros Hmk Cb Hb brk s Hs. unfold r_counted.
    apply EvSAt_bind_silent; [apply r_compact_Consumes|apply r_compact_Silent|exact Hs|].
    intros n s1 H1 Hs1.
    apply EvSAt_bind_emitp; [apply Hmk; exact (count_sound brk s n s1 Hs H1)|exact Hs1|].
    intros s2 Hs2 _ _. apply EvS_loop; assumption.
  Qed.

  Theorem r_txins_EvS : EvS r_txins.
  Proof.
    rewrite r_txins_counted. apply EvS_counted.
    - intros n H. exact H.
    - apply body_txin_Consumes.
    - apply body_txin_EvS.
  Qed.

  Theorem r_txouts_EvS : EvS r_txouts.
  Proof.
    rewrite r_txouts_counted. apply EvS_counted.
    - intros n H. exact H.
    - apply body_txout_Consumes.
    - apply body_txout_EvS.
  Qed.

  Theorem r_witness_EvS : EvS r_witness.
  Proof.
    rewrite r_witness_counted. apply EvS_counted.
    - intros n H. exact H.
    - apply body_welem_Consumes.
    - apply body_welem_EvS.
  Qed.

  Lemma body_wit_EvS i : EvS (body_wit i).
  Proof.
    unfold body_wit.
    apply EvS_bind; [apply Consumes_emitp|apply EvS_emitp; exact I|]. intros _.
    apply EvS_bind; [apply r_witness_Consumes|apply r_witness_EvS|]. intros w.
    apply EvS_bind; [apply Consumes_emitp|apply EvS_emitp; exact I|]. intros _.
    apply EvS_ret.
  Qed.

  Theorem r_witnesses_EvS n : EvS (r_witnesses n).
  Proof.
    rewrite r_witnesses_loop. apply EvS_loop; [apply body_wit_Consumes|apply body_wit_EvS].
  Qed.

  (** ** header *)

  (* a completed sub-run under any visitor is the same completed run under [never] *)
  Ltac nv H I := apply (Indep_Done _ I) in H.

  Theorem r_header_EvS : EvS r_header.
  Proof.
    intros brk s Hs. unfold r_header. apply EvSAt_bind_get_pos.
    apply EvSAt_bind_silent; [apply r_u_Consumes|apply r_u_Silent|exact Hs|]. intros ver s1 H1 Hs1.
    apply EvSAt_bind_silent; [apply Consumes_take|apply Silent_take|exact Hs1|]. intros prev s2 H2 Hs2.
    apply EvSAt_bind_silent; [apply Consumes_take|apply Silent_take|exact Hs2|]. intros merkle s3 H3 Hs3.
    apply EvSAt_bind_silent; [apply r_u_Consumes|apply r_u_Silent|exact Hs3|]. intros time s4 H4 Hs4.
    apply EvSAt_bind_silent; [apply r_u_Consumes|apply r_u_Silent|exact Hs4|]. intros bits s5 H5 Hs5.
    apply EvSAt_bind_silent; [apply r_u_Consumes|apply r_u_Silent|exact Hs5|]. intros nonce s6 H6 Hs6.
    apply EvSAt_bind_emitp; [|exact Hs6|intros; apply EvSAt_ret].
    nv H1 (r_u_Indep 4). nv H2 (Indep_take 32). nv H3 (Indep_take 32).
    nv H4 (r_u_Indep 4). nv H5 (r_u_Indep 4). nv H6 (r_u_Indep 4).
    match goal with |- ev_sound _ _ ?e => set (E := e) end.
    assert (Hn : r_header never s
                 = Done {| ah_version := i32_of_n ver; ah_prev := prev; ah_merkle := merkle;
                           ah_time := time; ah_bits := bits; ah_nonce := nonce |}
                        {| pos := pos s6; inp := inp s6; hi := E :: hi s6 |}).
    { unfold r_header. stepp. stepc H1. stepc H2. stepc H3. stepc H4. stepc H5. stepc H6.
      stepe. reflexivity. }
    apply r_header_sound in Hn. destruct Hn as (Hwf & Hi & _ & Hh).
    cbn [hi inp] in Hi, Hh. unfold trav_header in Hh. cbn [rev app] in Hh.
    apply (f_equal (hd E)) in Hh. cbn [hd] in Hh. rewrite Hh. eapply ev_header_at; eassumption.
  Qed.

  (** ** transaction *)

  (* the ETransaction callback comes last, after every part of the transaction completed:
     the completed parts give the completed never-breaking run, whose last callback is
     [ev_tx] of the decoded transaction ([r_tx_sound], [r_tx_emits_weight]) *)
  Lemma last_event_tx s t sf E h :
    Suffix s -> r_tx never s = Done t sf -> hi sf = E :: h -> ev_sound p0 b0 E.
  Proof.
    intros Hs Hn Hh.
    destruct (r_tx_emits_weight s t sf Hn) as (h' & Hh' & _).
    apply r_tx_sound in Hn. destruct Hn as (Hwf & Hi & _).
    rewrite Hh in Hh'. apply (f_equal (hd E)) in Hh'. cbn [hd] in Hh'. rewrite Hh'.
    eapply ev_tx_at; eassumption.
  Qed.

  Theorem r_tx_EvS : EvS r_tx.
  Proof.
    intros brk s Hs. unfold r_tx. apply EvSAt_bind_get_pos.
    apply EvSAt_bind_silent; [apply r_u_Consumes|apply r_u_Silent|exact Hs|]. intros ver s1 H1 Hs1.
    apply EvSAt_bind; [apply r_txins_Consumes|exact Hs1|apply r_txins_EvS; exact Hs1|].
    intros ins0 s2 H2 Hs2.
    nv H1 (r_u_Indep 4). nv H2 r_txins_Indep.
    destruct ins0 as [|i0 ins'].
    - (* segwit *)
      apply EvSAt_bind_silent; [apply r_u_Consumes|apply r_u_Silent|exact Hs2|]. intros flag s3 H3 Hs3.
      nv H3 (r_u_Indep 1).
      destruct (N.eqb_spec flag 1) as [->|Hf]; [|apply EvSAt_fail].
      apply EvSAt_bind_get_pos.
      apply EvSAt_bind; [apply r_txins_Consumes|exact Hs3|apply r_txins_EvS; exact Hs3|].
      intros ins s4 H4 Hs4. nv H4 r_txins_Indep.
      apply EvSAt_bind; [apply r_txouts_Consumes|exact Hs4|apply r_txouts_EvS; exact Hs4|].
      intros outs s5 H5 Hs5. nv H5 r_txouts_Indep.
      apply EvSAt_bind_get_pos.
      apply EvSAt_bind; [apply r_witnesses_Consumes|exact Hs5|apply r_witnesses_EvS; exact Hs5|].
      intros ws s6 H6 Hs6. nv H6 (r_witnesses_Indep (lenN ins)).
      destruct ((match ins with [] => false | _ :: _ => true end) && all_empty ws) eqn:Hc;
        [apply EvSAt_fail|].
      apply EvSAt_bind_silent; [apply r_u_Consumes|apply r_u_Silent|exact Hs6|]. intros lk s7 H7 Hs7.
      nv H7 (r_u_Indep 4).
      apply EvSAt_bind_get_pos.
      apply EvSAt_bind_emitp; [|exact Hs7|intros; apply EvSAt_ret].
      match goal with |- ev_sound _ _ ?e => set (E := e) end.
      apply (last_event_tx s {| at_version := i32_of_n ver; at_ins := ins; at_outs := outs;
                                at_form := Segwit ws; at_locktime := lk |}
                           {| pos := pos s7; inp := inp s7; hi := E :: hi s7 |} E (hi s7) Hs);
        [|reflexivity].
      unfold r_tx. stepp. stepc H1. stepc H2. stepc H3.
      change (1 =? 1) with true. cbv beta iota.
      stepp. stepc H4. stepc H5. stepp. stepc H6. rewrite Hc. stepc H7. stepp. stepe.
      reflexivity.
    - (* legacy *)
      apply EvSAt_bind; [apply r_txouts_Consumes|exact Hs2|apply r_txouts_EvS; exact Hs2|].
      intros outs s3 H3 Hs3. nv H3 r_txouts_Indep.
      apply EvSAt_bind_silent; [apply r_u_Consumes|apply r_u_Silent|exact Hs3|]. intros lk s4 H4 Hs4.
      nv H4 (r_u_Indep 4).
      apply EvSAt_bind_get_pos.
      apply EvSAt_bind_emitp; [|exact Hs4|intros; apply EvSAt_ret].
      match goal with |- ev_sound _ _ ?e => set (E := e) end.
      apply (last_event_tx s {| at_version := i32_of_n ver; at_ins := i0 :: ins'; at_outs := outs;
                                at_form := Legacy; at_locktime := lk |}
                           {| pos := pos s4; inp := inp s4; hi := E :: hi s4 |} E (hi s4) Hs);
        [|reflexivity].
      unfold r_tx. stepp. stepc H1. stepc H2. stepc H3. stepc H4. stepp. stepe.
      reflexivity.
  Qed.

  (** ** block *)

  Theorem r_block_EvS : EvS r_block.
  Proof.
    intros brk s Hs. unfold r_block.
    apply EvSAt_bind; [apply r_header_Consumes|exact Hs|apply r_header_EvS; exact Hs|].
    intros hd s1 _ Hs1.
    apply EvSAt_bind_silent; [apply r_compact_Consumes|apply r_compact_Silent|exact Hs1|].
    intros n s2 H2 Hs2.
    apply EvSAt_bind_emitp; [exact (count_sound brk s1 n s2 Hs1 H2)|exact Hs2|].
    intros s3 Hs3 _ _.
    apply EvSAt_bind; [| exact Hs3 | | intros; apply EvSAt_ret].
    - apply Consumes_loop. intros _. apply r_tx_Consumes.
    - apply EvS_loop; [intros _; apply r_tx_Consumes|intros _; apply r_tx_EvS|exact Hs3].
  Qed.
End Ambient.

(* ------------------------------------------------------------------ *)
(** * 6. [EvSound]: the ambient input is the input of the run *)

Definition EvSound {A} (r : P A) : Prop := forall brk s,
  match r brk s with
  | Done _ s' => exists d, hi s' = rev d ++ hi s /\ Forall (ev_sound (pos s) (inp s)) d
  | Fail _ h' => exists d, h' = rev d ++ hi s /\ Forall (ev_sound (pos s) (inp s)) d
  | Stuck => True
  end.

Lemma Suffix_self s : Suffix (pos s) (inp s) s.
Proof. exists []. split; [reflexivity|]. rewrite lenN_nil. lia. Qed.

(* the two formulations are equivalent: the ambient one is the one that composes *)
Lemma EvS_EvSound {A} (r : P A) : (forall p0 b0, EvS p0 b0 r) -> EvSound r.
Proof. intros H brk s. exact (H (pos s) (inp s) brk s (Suffix_self s)). Qed.

Lemma EvSound_EvS {A} (r : P A) : EvSound r -> forall p0 b0, EvS p0 b0 r.
Proof.
  intros H p0 b0 brk s (c & Eb & Ep). specialize (H brk s). unfold EvSAt, SExt.
  assert (Hmono : forall d, Forall (ev_sound (pos s) (inp s)) d -> Forall (ev_sound p0 b0) d).
  { intros d. apply Forall_impl. intros e He. rewrite Eb. eapply ev_sound_shift; eassumption. }
  destruct (r brk s) as [a s1|e h|]; [| |exact I];
    destruct H as (d & Hh & Hd); exists d; auto.
Qed.

Lemma EvSound_iff {A} (r : P A) : EvSound r <-> forall p0 b0, EvS p0 b0 r.
Proof. split; [apply EvSound_EvS|apply EvS_EvSound]. Qed.

(** ** closure lemmas *)

Lemma EvSound_ret {A} (a : A) : EvSound (ret a).
Proof. apply EvS_EvSound. intros. apply EvS_ret. Qed.
Lemma EvSound_fail {A} e : EvSound (@fail A e).
Proof. apply EvS_EvSound. intros. apply EvS_fail. Qed.
Lemma EvSound_take n : EvSound (take n).
Proof. apply EvS_EvSound. intros. apply EvS_take. Qed.
Lemma EvSound_get_pos : EvSound get_pos.
Proof. apply EvS_EvSound. intros. apply EvS_get_pos. Qed.
Lemma EvSound_silent {A} (p : P A) : Silent p -> EvSound p.
Proof. intros Sp. apply EvS_EvSound. intros. apply EvS_silent. exact Sp. Qed.
(* an event can be emitted out of the blue only if it is sound whatever the input *)
Lemma EvSound_emitp e : (forall p b, ev_sound p b e) -> EvSound (emitp e).
Proof. intros He. apply EvS_EvSound. intros. apply EvS_emitp. apply He. Qed.
Lemma EvSound_stuck {A} : EvSound (fun _ _ => @Stuck A).
Proof. intros brk s. exact I. Qed.
(* the continuation runs on the rest of the input, at a later position *)
Lemma EvSound_bind {A B} (p : P A) (f : A -> P B) :
  Consumes p -> EvSound p -> (forall a, EvSound (f a)) -> EvSound (bind p f).
Proof.
  intros Cp Hp Hf. apply EvS_EvSound. intros p0 b0.
  apply EvS_bind; [exact Cp|apply EvSound_EvS; exact Hp|]. intros a. apply EvSound_EvS, Hf.
Qed.
Lemma EvSound_if {A} (c : bool) (p q : P A) : EvSound p -> EvSound q -> EvSound (if c then p else q).
Proof. destruct c; auto. Qed.
Lemma EvSound_match_prod {A B C} (x : A * B) (f : A -> B -> P C) :
  (forall a b, EvSound (f a b)) -> EvSound (match x with (a, b) => f a b end).
Proof. destruct x; auto. Qed.
Lemma EvSound_match_list {A C} (x : list A) (p : P C) (f : A -> list A -> P C) :
  EvSound p -> (forall a l, EvSound (f a l)) -> EvSound (match x with [] => p | a :: l => f a l end).
Proof. destruct x; auto. Qed.
Lemma EvSound_loop {A} (body : N -> P A) n :
  (forall i, Consumes (body i)) -> (forall i, EvSound (body i)) -> EvSound (loop body n).
Proof.
  intros Cb Hb. apply EvS_EvSound. intros p0 b0.
  apply EvS_loop; [exact Cb|]. intros i. apply EvSound_EvS, Hb.
Qed.

(** ** the decoders, as instances of the predicate *)

Theorem EvSound_r_txins : EvSound r_txins.
Proof. apply EvS_EvSound. intros. apply r_txins_EvS. Qed.
Theorem EvSound_r_txouts : EvSound r_txouts.
Proof. apply EvS_EvSound. intros. apply r_txouts_EvS. Qed.
Theorem EvSound_r_witness : EvSound r_witness.
Proof. apply EvS_EvSound. intros. apply r_witness_EvS. Qed.
Theorem EvSound_r_witnesses n : EvSound (r_witnesses n).
Proof. apply EvS_EvSound. intros. apply r_witnesses_EvS. Qed.
Theorem EvSound_r_header : EvSound r_header.
Proof. apply EvS_EvSound. intros. apply r_header_EvS. Qed.
Theorem EvSound_r_tx : EvSound r_tx.
Proof. apply EvS_EvSound. intros. apply r_tx_EvS. Qed.
Theorem EvSound_r_block : EvSound r_block.
Proof. apply EvS_EvSound. intros. apply r_block_EvS. Qed.

(** ** the final statements: a run on the input [b] located at [p], after history [h] *)

Lemma EvSound_run {A} (r : P A) : EvSound r -> forall brk p b h,
  match r brk {| pos := p; inp := b; hi := h |} with
  | Done _ s' => exists d, hi s' = rev d ++ h /\ Forall (ev_sound p b) d
  | Fail _ h' => exists d, h' = rev d ++ h /\ Forall (ev_sound p b) d
  | Stuck => True
  end.
Proof. intros H brk p b h. exact (H brk {| pos := p; inp := b; hi := h |}). Qed.

Theorem r_txins_EvSound : forall brk p b h,
  match r_txins brk {| pos := p; inp := b; hi := h |} with
  | Done _ s' => exists d, hi s' = rev d ++ h /\ Forall (ev_sound p b) d
  | Fail _ h' => exists d, h' = rev d ++ h /\ Forall (ev_sound p b) d
  | Stuck => True
  end.
Proof. exact (EvSound_run r_txins EvSound_r_txins). Qed.

Theorem r_txouts_EvSound : forall brk p b h,
  match r_txouts brk {| pos := p; inp := b; hi := h |} with
  | Done _ s' => exists d, hi s' = rev d ++ h /\ Forall (ev_sound p b) d
  | Fail _ h' => exists d, h' = rev d ++ h /\ Forall (ev_sound p b) d
  | Stuck => True
  end.
Proof. exact (EvSound_run r_txouts EvSound_r_txouts). Qed.

Theorem r_witness_EvSound : forall brk p b h,
  match r_witness brk {| pos := p; inp := b; hi := h |} with
  | Done _ s' => exists d, hi s' = rev d ++ h /\ Forall (ev_sound p b) d
  | Fail _ h' => exists d, h' = rev d ++ h /\ Forall (ev_sound p b) d
  | Stuck => True
  end.
Proof. exact (EvSound_run r_witness EvSound_r_witness). Qed.

Theorem r_witnesses_EvSound : forall n brk p b h,
  match r_witnesses n brk {| pos := p; inp := b; hi := h |} with
  | Done _ s' => exists d, hi s' = rev d ++ h /\ Forall (ev_sound p b) d
  | Fail _ h' => exists d, h' = rev d ++ h /\ Forall (ev_sound p b) d
  | Stuck => True
  end.
Proof. intros n. exact (EvSound_run (r_witnesses n) (EvSound_r_witnesses n)). Qed.

Theorem r_header_EvSound : forall brk p b h,
  match r_header brk {| pos := p; inp := b; hi := h |} with
  | Done _ s' => exists d, hi s' = rev d ++ h /\ Forall (ev_sound p b) d
  | Fail _ h' => exists d, h' = rev d ++ h /\ Forall (ev_sound p b) d
  | Stuck => True
  end.
Proof. exact (EvSound_run r_header EvSound_r_header). Qed.

Theorem r_tx_EvSound : forall brk p b h,
  match r_tx brk {| pos := p; inp := b; hi := h |} with
  | Done _ s' => exists d, hi s' = rev d ++ h /\ Forall (ev_sound p b) d
  | Fail _ h' => exists d, h' = rev d ++ h /\ Forall (ev_sound p b) d
  | Stuck => True
  end.
Proof. exact (EvSound_run r_tx EvSound_r_tx). Qed.

Theorem r_block_EvSound : forall brk p b h,
  match r_block brk {| pos := p; inp := b; hi := h |} with
  | Done _ s' => exists d, hi s' = rev d ++ h /\ Forall (ev_sound p b) d
  | Fail _ h' => exists d, h' = rev d ++ h /\ Forall (ev_sound p b) d
  | Stuck => True
  end.
Proof. exact (EvSound_run r_block EvSound_r_block). Qed.

(* the [Stuck] branch is vacuous ([NoStuck]): every run has a history, and the callbacks it
   added are sound *)
Theorem EvSound_total {A} (r : P A) : EvSound r -> NoStuck r -> forall brk p b h,
  exists d, out_hist (run_ref r brk p b h) = Some (rev d ++ h) /\ Forall (ev_sound p b) d.
Proof.
  intros H NS brk p b h. unfold run_ref.
  pose proof (EvSound_run r H brk p b h) as Hr.
  specialize (NS brk {| pos := p; inp := b; hi := h |}).
  destruct (r brk {| pos := p; inp := b; hi := h |}) as [a s1|e h1|]; cbn [out_hist].
  - destruct Hr as (d & -> & Hd). exists d. auto.
  - destruct Hr as (d & -> & Hd). exists d. auto.
  - exfalso. apply NS. reflexivity.
Qed.

Corollary r_block_EvSound_total brk p b h :
  exists d, out_hist (run_ref r_block brk p b h) = Some (rev d ++ h) /\ Forall (ev_sound p b) d.
Proof. apply EvSound_total; [apply EvSound_r_block|apply r_block_NoStuck]. Qed.

Corollary r_tx_EvSound_total brk p b h :
  exists d, out_hist (run_ref r_tx brk p b h) = Some (rev d ++ h) /\ Forall (ev_sound p b) d.
Proof. apply EvSound_total; [apply EvSound_r_tx|apply r_tx_NoStuck]. Qed.

Corollary r_header_EvSound_total brk p b h :
  exists d, out_hist (run_ref r_header brk p b h) = Some (rev d ++ h) /\ Forall (ev_sound p b) d.
Proof. apply EvSound_total; [apply EvSound_r_header|apply r_header_NoStuck]. Qed.

(* ------------------------------------------------------------------ *)
(** * 7. No callback points outside the input

   Every window of a sound event, INCLUDING the sub-windows (previous output, txid,
   scripts, header hashes, the three preimage windows of a transaction), lies inside the
   input.  A preimage window may also be the absent window (0, 0). *)

Definition ev_windows (e : event) : list window :=
  match e with
  | EHeader w _ a b _ _ => [w; a; b]
  | ETxIn _ w a b _ c _ => [w; a; b; c]
  | ETxOut _ w _ a => [w; a]
  | EWitnessElem _ w => [w]
  | ETransaction w _ _ _ _ _ _ => [w]
  | _ => []
  end.

Definition ev_pre_windows (e : event) : list window :=
  match e with
  | ETransaction _ _ _ a b c _ => [a; b; c]
  | _ => []
  end.

Definition win_opt (p : N) (b : list byte) (w : window) : Prop := w = (0, 0) \/ win_in p b w.

Lemma Forall_1 {A} (Q : A -> Prop) a : Q a -> Forall Q [a].
Proof. intros H. constructor; [exact H|constructor]. Qed.

Theorem ev_sound_windows p b e :
  ev_sound p b e ->
  Forall (win_in p b) (ev_windows e) /\ Forall (win_opt p b) (ev_pre_windows e).
Proof.
  intros H. destruct e; cbn [ev_sound ev_windows ev_pre_windows] in *;
    try solve [split; constructor].
  - (* EHeader *)
    destruct H as (Hw & H80 & a & Ha & Hs & E). unfold ev_header in E. injection E as Ew _ -> -> _ _.
    destruct w as [q l]. cbn [fst snd] in *. subst l.
    destruct Hw as [Hw1 Hw2]. cbn [fst snd] in Hw1, Hw2.
    repeat constructor; cbn [fst snd]; lia.
  - (* ETxIn *)
    destruct H as (Hw & a & Ha & Hs & E). pose proof (sub_length p b w Hw) as Hl.
    rewrite Hs, (lenN_enc_txin_wf a Ha) in Hl.
    unfold ev_txin in E. injection E as _ -> -> _ -> _.
    destruct w as [q l]. cbn [fst snd] in *. subst l.
    destruct Hw as [Hw1 Hw2]. cbn [fst snd] in Hw1, Hw2.
    unfold script_data_off. repeat constructor; cbn [fst snd]; lia.
  - (* ETxOut *)
    destruct H as (Hw & a & Ha & Hs & E). pose proof (sub_length p b w Hw) as Hl.
    rewrite Hs, (lenN_enc_txout' a) in Hl.
    unfold ev_txout in E. injection E as _ _ ->.
    destruct w as [q l]. cbn [fst snd] in *. subst l.
    destruct Hw as [Hw1 Hw2]. cbn [fst snd] in Hw1, Hw2.
    unfold script_data_off. repeat constructor; cbn [fst snd]; lia.
  - (* EWitnessElem *)
    destruct H as (Hw & _). split; [apply Forall_1; exact Hw|constructor].
  - (* ETransaction *)
    destruct H as (Hw & t & Ht & Hs & E). pose proof (sub_length p b w Hw) as Hl.
    rewrite Hs in Hl. split; [apply Forall_1; exact Hw|].
    pose proof (lenN_enc_tx t) as Hlen.
    destruct w as [q l]. cbn [fst snd] in *. subst l.
    destruct Hw as [Hw1 Hw2]. cbn [fst snd] in Hw1, Hw2.
    unfold ev_tx in E. destruct (at_form t) as [|ws].
    + injection E as _ _ -> -> -> _. unfold pw. cbn [fst snd].
      apply Forall_cons; [|apply Forall_cons; [left; reflexivity|apply Forall_1; left; reflexivity]].
      destruct (lenN (enc_tx t) =? 0); [left; reflexivity|].
      right. split; cbn [fst snd]; lia.
    + injection E as _ _ -> -> -> _.
      apply Forall_cons; [|apply Forall_cons; [|apply Forall_1]];
        right; split; cbn [fst snd]; lia.
Qed.

(* the whole callback sequence of a run from an empty history: no window outside the input *)
Definition ev_in_bounds (p : N) (b : list byte) (e : event) : Prop :=
  Forall (win_in p b) (ev_windows e) /\ Forall (win_opt p b) (ev_pre_windows e).

Theorem EvSound_in_bounds {A} (r : P A) : EvSound r -> NoStuck r -> forall brk p b,
  exists h', out_hist (run_ref r brk p b []) = Some h' /\ Forall (ev_in_bounds p b) h'.
Proof.
  intros H NS brk p b. destruct (EvSound_total r H NS brk p b []) as (d & E & Hd).
  exists (rev d). rewrite app_nil_r in E. split; [exact E|].
  apply Forall_rev. revert Hd. apply Forall_impl. intros e. apply ev_sound_windows.
Qed.

Corollary r_block_in_bounds brk p b :
  exists h', out_hist (run_ref r_block brk p b []) = Some h' /\ Forall (ev_in_bounds p b) h'.
Proof. apply EvSound_in_bounds; [apply EvSound_r_block|apply r_block_NoStuck]. Qed.

Corollary r_tx_in_bounds brk p b :
  exists h', out_hist (run_ref r_tx brk p b []) = Some h' /\ Forall (ev_in_bounds p b) h'.
Proof. apply EvSound_in_bounds; [apply EvSound_r_tx|apply r_tx_NoStuck]. Qed.

(* ------------------------------------------------------------------ *)
(** * 8. [ev_sound] is not vacuous: events that do NOT describe the input are rejected *)

(* a count that is not in the input *)
Example ev_sound_rejects_count : ~ ev_sound 0 [x00] (ETxIns 1).
Proof.
  cbn [ev_sound]. intros (q & [H1 H2] & Hs & _). cbn [fst snd] in H1, H2.
  change (cs_width 1) with 1 in *. change (lenN [x00]) with 1 in H2.
  assert (q = 0) by lia. subst q. vm_compute in Hs. discriminate Hs.
Qed.

(* a window that leaves the input *)
Example ev_sound_rejects_window : ~ ev_sound 0 [x00; x00] (EWitnessElem 0 (1, 2)).
Proof.
  cbn [ev_sound]. intros ([H1 H2] & _). cbn [fst snd] in H1, H2.
  change (lenN [x00; x00]) with 2 in H2. lia.
Qed.

(* an input callback whose announced vout is not the one encoded in the input *)
Example ev_sound_rejects_field p b i w a c d s1 s2 :
  ev_sound p b (ETxIn i w a c d s1 s2) ->
  exists x, sub p b w = enc_txin x /\ d = ai_vout x /\ s2 = ai_seq x.
Proof.
  cbn [ev_sound]. intros (_ & x & _ & Hs & E). exists x. split; [exact Hs|].
  unfold ev_txin in E. injection E as _ _ _ -> _ ->. auto.
Qed.

(* a concrete INVALID input: a legacy transaction cut in the middle of its output list
   (version, one input with an empty script, then "2 outputs" and nothing more), located
   at offset 100.  The run fails with MoreBytesNeeded after three callbacks, all of which
   describe bytes that are in the input (instance of [r_tx_EvSound_total]). *)
Definition cut_tx : list byte :=
  [x01; x00; x00; x00] ++ [x01] ++ repeat x00 32 ++ [x07; x00; x00; x00] ++ [x00]
  ++ [xff; xff; xff; xff] ++ [x02].

Example cut_tx_run :
  run_ref r_tx never 100 cut_tx []
  = Fail MoreBytesNeeded
      [ETxOuts 2; ETxIn 0 (105, 41) (105, 36) (105, 32) 7 (142, 0) 4294967295; ETxIns 1].
Proof. vm_compute. reflexivity. Qed.

Example cut_tx_sound :
  Forall (ev_sound 100 cut_tx)
         [ETxIns 1; ETxIn 0 (105, 41) (105, 36) (105, 32) 7 (142, 0) 4294967295; ETxOuts 2].
Proof.
  destruct (r_tx_EvSound_total never 100 cut_tx []) as (d & E & Hd).
  rewrite cut_tx_run in E. cbn [out_hist] in E. rewrite app_nil_r in E.
  injection E as E. apply (f_equal (@rev event)) in E. rewrite rev_involutive in E.
  cbn [rev app] in E. rewrite <- E in Hd. exact Hd.
Qed.

Print Assumptions r_block_EvSound.
Print Assumptions r_tx_EvSound.
Print Assumptions r_header_EvSound.
Print Assumptions r_witnesses_EvSound.
Print Assumptions r_witness_EvSound.
Print Assumptions r_txins_EvSound.
Print Assumptions r_txouts_EvSound.
Print Assumptions EvSound_iff.
Print Assumptions r_block_EvSound_total.
Print Assumptions ev_sound_windows.
Print Assumptions r_block_in_bounds.
