(* Proofs/Examples.v — concrete, non-trivial objects that meet the hypotheses of the property theorems
   (a theorem whose hypotheses nothing satisfies says nothing): a legacy and a segwit transaction, a
   two-transaction block, evaluated through the Rust-faithful model with vm_compute. *)
From BS Require Import Impl.Visit Impl.Access Spec.Wire Ref.MetaDefs Proofs.Len Proofs.ImplRefLeaf Proofs.ImplRefTx
  Proofs.Transfer Proofs.Entries Proofs.SpecLemmas Proofs.RefSpec Proofs.SpecTransfer Proofs.TxSpec.
Open Scope N_scope.

Definition ex_in1 : a_txin := {| ai_txid := repeat x11 32; ai_vout := 1; ai_sig := [x51; x52]; ai_seq := 4294967294 |}.
Definition ex_in2 : a_txin := {| ai_txid := repeat xaa 32; ai_vout := 4294967295; ai_sig := []; ai_seq := 0 |}.
Definition ex_out1 : a_txout := {| ao_value := 5000000000; ao_spk := [x76; xa9; x14] |}.
Definition ex_out2 : a_txout := {| ao_value := 0; ao_spk := [] |}.
Definition ex_tx_segwit : a_tx :=
  {| at_version := 2; at_ins := [ex_in1; ex_in2]; at_outs := [ex_out1; ex_out2];
     at_form := Segwit [[[x01; x02]; []]; []]; at_locktime := 500000000 |}.
Definition ex_tx_legacy : a_tx :=
  {| at_version := (-1)%Z; at_ins := [ex_in2]; at_outs := [ex_out1]; at_form := Legacy; at_locktime := 0 |}.
(* the BIP144 form with no inputs at all *)
Definition ex_tx_noinputs : a_tx :=
  {| at_version := 1; at_ins := []; at_outs := [ex_out2]; at_form := Segwit []; at_locktime := 7 |}.
Definition ex_header : a_header :=
  {| ah_version := 536870912; ah_prev := repeat x00 32; ah_merkle := repeat x3b 32; ah_time := 1231006505;
     ah_bits := 486604799; ah_nonce := 2083236893 |}.
Definition ex_block : a_block := {| ab_header := ex_header; ab_txs := [ex_tx_legacy; ex_tx_segwit; ex_tx_noinputs] |}.

Definition ex_tx_bytes : list byte := enc_tx ex_tx_segwit.
Definition ex_block_bytes : list byte := enc_block ex_block.
Definition ex_trailing : list byte := [xde; xad].

Ltac wf_solve :=
  repeat match goal with
         | |- _ /\ _ => split
         | |- Forall _ _ => constructor
         | |- (_ <= _ < _)%Z => split
         | |- _ < _ => reflexivity
         | |- (_ <= _)%Z => discriminate
         | |- (_ < _)%Z => reflexivity
         | |- _ = _ => reflexivity
         | |- _ <> _ => discriminate
         | |- _ -> _ => intro
         end.

Lemma ex_tx_segwit_wf : wf_tx ex_tx_segwit.
Proof. unfold wf_tx, wf_i32, wf_txin, wf_txout, wf_witness, wf_script; cbn -[N.lt Z.le Z.lt TWO64 TWO32]. wf_solve. Qed.
Lemma ex_tx_legacy_wf : wf_tx ex_tx_legacy.
Proof. unfold wf_tx, wf_i32, wf_txin, wf_txout, wf_witness, wf_script; cbn -[N.lt Z.le Z.lt TWO64 TWO32]. wf_solve. Qed.
Lemma ex_tx_noinputs_wf : wf_tx ex_tx_noinputs.
Proof. unfold wf_tx, wf_i32, wf_txin, wf_txout, wf_witness, wf_script; cbn -[N.lt Z.le Z.lt TWO64 TWO32]. wf_solve. exfalso. apply H. reflexivity. Qed.
Lemma ex_header_wf : wf_header ex_header.
Proof. unfold wf_header, wf_i32; cbn -[N.lt Z.le Z.lt TWO32]. wf_solve. Qed.
Lemma ex_block_wf : wf_block ex_block.
Proof.
  unfold wf_block. split; [exact ex_header_wf|split; [reflexivity|]].
  apply Forall_cons; [exact ex_tx_legacy_wf|apply Forall_cons; [exact ex_tx_segwit_wf|apply Forall_cons; [exact ex_tx_noinputs_wf|apply Forall_nil]]].
Qed.

Lemma ex_tx_InLen : InLen (ex_tx_bytes ++ ex_trailing).
Proof. unfold InLen. vm_compute. reflexivity. Qed.
Lemma ex_block_InLen : InLen (ex_block_bytes ++ ex_trailing).
Proof. unfold InLen. vm_compute. reflexivity. Qed.

(* the Rust-faithful model, run on the bytes at a non-zero base offset: succeeds, leaves the two trailing
   bytes, delivers 16 callbacks for the transaction and 28 for the block *)
Example ex_tx_runs :
  match visit_transaction never (sl 5 (ex_tx_bytes ++ ex_trailing)) [] with
  | (Ok pr, h') => (bytes (remaining pr) = ex_trailing) /\ off (remaining pr) = 5 + lenN ex_tx_bytes /\ lenN h' = 16
  | _ => False
  end.
Proof. vm_compute. repeat split. Qed.

Example ex_block_runs :
  match visit_block never (sl 3 (ex_block_bytes ++ ex_trailing)) [] with
  | (Ok pr, h') => (bytes (remaining pr) = ex_trailing) /\ b_total (parsed pr) = 3 /\ lenN h' = 28
  | _ => False
  end.
Proof. vm_compute. repeat split. Qed.

(* a visitor that breaks at the fourth callback it is asked about *)
Definition ex_brk : oracle := fun h _ => lenN (filter breakable h) =? 3.
Example ex_block_break :
  match visit_block ex_brk (sl 3 (ex_block_bytes ++ ex_trailing)) [] with
  | (Err VisitBreak, h') => lenN (filter breakable h') = 4
  | _ => False
  end.
Proof. vm_compute. reflexivity. Qed.

(* malformed inputs: truncated, non-minimal count, unknown flag, no witnesses *)
Example ex_truncated : fst (visit_transaction never (sl 0 (firstn 40 ex_tx_bytes)) []) = Err MoreBytesNeeded.
Proof. vm_compute. reflexivity. Qed.
Example ex_nonminimal :
  fst (visit_transaction never (sl 0 ([x01; x00; x00; x00; xfd; x01; x00] ++ skipn 5 (enc_tx ex_tx_legacy))) []) = Err NonMinimalVarInt.
Proof. vm_compute. reflexivity. Qed.
Example ex_unknown_flag : fst (visit_transaction never (sl 0 [x01; x00; x00; x00; x00; x07; x00]) []) = Err (UnknownSegwitFlag 7).
Proof. vm_compute. reflexivity. Qed.
Example ex_no_witnesses :
  fst (visit_transaction never
         (sl 0 (enc_tx {| at_version := 2; at_ins := [ex_in2]; at_outs := []; at_form := Segwit [[]]; at_locktime := 0 |})) [])
  = Err SegwitFlagWithoutWitnesses.
Proof. vm_compute. reflexivity. Qed.

(* weights and preimages of the three example transactions, computed by the model, equal the specification *)
Example ex_weights :
  map (fun t => match visit_transaction never (sl 0 (enc_tx t)) [] with
                | (Ok pr, _) => match tx_weight (parsed pr) with Ok w => Some w | _ => None end
                | _ => None end) [ex_tx_legacy; ex_tx_segwit; ex_tx_noinputs]
  = map (fun t => Some (weight_spec t)) [ex_tx_legacy; ex_tx_segwit; ex_tx_noinputs].
Proof. vm_compute. reflexivity. Qed.

(* existence forms, from the theorems (no computation): what the property files instantiate *)
Lemma ex_tx_visit : exists pr h',
  visit_transaction never (sl 5 (ex_tx_bytes ++ ex_trailing)) [] = (Ok pr, h') /\ bytes (remaining pr) = ex_trailing.
Proof.
  destruct (T_encoding_is_ok E_transaction S_transaction 5 ex_tx_segwit ex_trailing [] ex_tx_segwit_wf ex_tx_InLen) as [x [_ HV]].
  eexists. eexists. split; [exact HV|reflexivity].
Qed.
Lemma ex_block_visit : exists pr h',
  visit_block never (sl 3 (ex_block_bytes ++ ex_trailing)) [] = (Ok pr, h') /\ bytes (remaining pr) = ex_trailing.
Proof.
  destruct (T_encoding_is_ok E_block S_block 3 ex_block ex_trailing [] ex_block_wf ex_block_InLen) as [x [_ HV]].
  eexists. eexists. split; [exact HV|reflexivity].
Qed.
