(* Proofs/TxSpec.v — accessors of a parsed transaction / header computed on the
   object the parser returns equal the values Spec/Wire.v defines (C10, C16). *)
From BS Require Import Impl.Visit Ref.Grammar Ref.MetaDefs Proofs.SliceLemmas Proofs.Numbers Proofs.CsDec
  Proofs.ImplRefLeaf Proofs.ImplRefLists Proofs.ImplRefTx Proofs.Transfer Proofs.Entries Proofs.SpecLemmas Proofs.RefSpec Proofs.SpecTransfer.
From Coq Require Import ZifyN ZifyNat ZifyBool.
Open Scope N_scope.

(* the three txid-preimage parts as slices *)
Lemma tx_preimage_legacy p c :
  tx_txid_preimage {| tx_slice := sl p c; tx_io_len := None |} = Ok (sl p c, sl 0 [], sl 0 []).
Proof. reflexivity. Qed.

Lemma tx_preimage_segwit p v mf io w lt : lenN v = 4 -> lenN mf = 2 -> lenN lt = 4 ->
  lenN io + 6 < TWO64 ->
  let c := v ++ mf ++ io ++ w ++ lt in
  tx_txid_preimage {| tx_slice := sl p c; tx_io_len := Some (lenN io) |} =
  Ok (sl p v, sl (p + 6) io, sl (p + (lenN c - 4)) lt).
Proof.
  intros Lv Lm Ll Hio c. unfold tx_txid_preimage. cbn [tx_io_len tx_slice].
  assert (Lc : lenN c = 4 + 2 + lenN io + lenN w + 4). { unfold c. rewrite !lenN_app. lia. }
  assert (A : s_to (sl p c) 4 = Ok (sl p v)). { unfold c. rewrite <- Lv. unfold sl. apply s_to_app. }
  rewrite A. cbn [obind]. unfold uadd.
  destruct (N.ltb_spec (lenN io + 6) TWO64) as [_|Hbad]; [|lia]. cbn [obind].
  assert (B : s_range (sl p c) 6 (lenN io + 6) = Ok (sl (p + 6) io)).
  { pose proof (s_range_mid p (v ++ mf) io (w ++ lt)) as G. rewrite lenN_app, Lv, Lm in G.
    change (4 + 2) with 6 in G. rewrite (N.add_comm (lenN io) 6). rewrite <- G. f_equal. f_equal.
    unfold c. rewrite <- !app_assoc. reflexivity. }
  rewrite B. cbn [obind]. unfold usub, s_len. cbn [bytes sl].
  destruct (N.leb_spec 4 (lenN c)); [|lia]. cbn [obind].
  assert (C : s_from (sl p c) (lenN c - 4) = Ok (sl (p + (lenN c - 4)) lt)).
  { replace c with ((v ++ mf ++ io ++ w) ++ lt) at 1 by (unfold c; rewrite <- !app_assoc; reflexivity).
    replace (lenN c - 4) with (lenN (v ++ mf ++ io ++ w)) by (rewrite Lc, !lenN_app; lia).
    unfold sl. apply s_from_app. }
  rewrite C. reflexivity.
Qed.

Definition io_spec (t : a_tx) : option N :=
  match at_form t with
  | Legacy => None
  | Segwit _ => Some (lenN (enc_txins (at_ins t) ++ enc_txouts (at_outs t)))
  end.

(* the object the parser returns for the transaction t located at offset p *)
Definition obj_tx (p : N) (t : a_tx) : transaction := {| tx_slice := sl p (enc_tx t); tx_io_len := io_spec t |}.

Lemma enc_list_nonempty {A} (f : A -> list byte) l : 1 <= lenN (enc_list f l).
Proof.
  unfold enc_list. rewrite lenN_app. pose proof (cs_enc_nonempty (lenN l)) as H.
  destruct (cs_enc (lenN l)); [contradiction|]. rewrite lenN_cons. lia.
Qed.

Lemma le_dec_enc_i32 z : wf_i32 z -> i32_of_n (le_dec (enc_i32 z)) = z.
Proof.
  intros H. unfold enc_i32. rewrite le_dec_enc.
  - apply i32_of_n_of_i32. exact H.
  - pose proof (n_of_i32_range z H). change (256 ^ N.of_nat 4) with 4294967296. lia.
Qed.

Lemma le_dec_enc4 v : v < TWO32 -> le_dec (le_enc 4 v) = v.
Proof. intros H. apply le_dec_enc. change (256 ^ N.of_nat 4) with 4294967296. unfold TWO32 in H. lia. Qed.

Lemma last_event_of_trav_tx p t : exists l, trav_tx p t = l ++ [ev_tx p t].
Proof.
  unfold trav_tx. destruct (at_form t).
  - eexists. rewrite app_assoc. reflexivity.
  - eexists. rewrite !app_assoc. reflexivity.
Qed.

Lemma io_of_hist_trav p t h : io_of_hist (rev (trav_tx p t) ++ h) = io_spec t.
Proof.
  destruct (last_event_of_trav_tx p t) as [l ->]. rewrite rev_unit. cbn [app].
  unfold io_of_hist, ev_tx, io_spec. destruct (at_form t); cbn [snd]; [reflexivity|].
  unfold nonzero. rewrite lenN_app.
  pose proof (enc_list_nonempty enc_txin (at_ins t)). pose proof (enc_list_nonempty enc_txout (at_outs t)).
  unfold enc_txins, enc_txouts.
  destruct (N.eqb_spec (lenN (enc_list enc_txin (at_ins t)) + lenN (enc_list enc_txout (at_outs t))) 0); [lia|reflexivity].
Qed.

Lemma mk_tx_obj p t h : mk_tx (sl p (enc_tx t)) t (rev (trav_tx p t) ++ h) = obj_tx p t.
Proof. unfold mk_tx, obj_tx. rewrite io_of_hist_trav. reflexivity. Qed.

(* version, lock time, preimage windows and weight, as the recording visitor reads them off the
   object, are exactly the event the specification defines *)
Theorem tx_event_spec p t : wf_tx t -> InLen (enc_tx t) -> tx_event (obj_tx p t) = Ok (ev_tx p t).
Proof.
  intros Hwf HL. destruct Hwf as [Hv [_ [_ [_ [_ [Hlt Hform]]]]]].
  unfold obj_tx, io_spec, ev_tx, enc_tx in *. destruct (at_form t) as [|ws] eqn:F.
  - pose proof (tx_event_legacy p (enc_i32 (at_version t)) (enc_txins (at_ins t) ++ enc_txouts (at_outs t)) (le_enc 4 (at_locktime t))
                  (lenN_enc_i32 _) (lenN_le_enc4 _)) as TE.
    cbn zeta in TE. rewrite TE by exact HL.
    rewrite (le_dec_enc_i32 _ Hv), (le_dec_enc4 _ Hlt).
    set (c := enc_i32 (at_version t) ++ (enc_txins (at_ins t) ++ enc_txouts (at_outs t)) ++ le_enc 4 (at_locktime t)).
    unfold pw. cbn [snd].
    assert (Hc : lenN c <> 0). { unfold c. rewrite lenN_app, lenN_enc_i32. lia. }
    destruct (N.eqb_spec (lenN c) 0); [contradiction|].
    rewrite (N.mul_comm (lenN c) 4). reflexivity.
  - set (io := enc_txins (at_ins t) ++ enc_txouts (at_outs t)).
    assert (Hio : 1 <= lenN io). { unfold io. rewrite lenN_app. pose proof (enc_list_nonempty enc_txin (at_ins t)). unfold enc_txins. lia. }
    assert (Henc : enc_i32 (at_version t) ++ ([x00; x01] ++ enc_txins (at_ins t) ++ enc_txouts (at_outs t) ++ enc_witnesses ws) ++ le_enc 4 (at_locktime t)
                   = enc_i32 (at_version t) ++ [x00; x01] ++ io ++ enc_witnesses ws ++ le_enc 4 (at_locktime t)).
    { unfold io. rewrite <- !app_assoc. reflexivity. }
    rewrite Henc in *.
    pose proof (tx_event_segwit p (enc_i32 (at_version t)) [x00; x01] io (enc_witnesses ws) (le_enc 4 (at_locktime t))
                  (lenN_enc_i32 _) eq_refl Hio (lenN_le_enc4 _) HL) as TE.
    cbn zeta in TE. rewrite TE.
    rewrite (le_dec_enc_i32 _ Hv), (le_dec_enc4 _ Hlt).
    unfold weight_spec, enc_stripped, enc_tx. rewrite F.
    f_equal. f_equal.
    + unfold io. rewrite lenN_app. reflexivity.
    + rewrite Henc. unfold io. rewrite !lenN_app, lenN_enc_i32, lenN_le_enc4. lia.
Qed.

Theorem tx_version_spec p t : wf_tx t -> tx_version (obj_tx p t) = Ok (at_version t).
Proof.
  intros Hwf. destruct Hwf as [Hv _]. unfold obj_tx, enc_tx.
  rewrite (tx_version_ok p (enc_i32 (at_version t)) _ _ (lenN_enc_i32 _)). rewrite (le_dec_enc_i32 _ Hv). reflexivity.
Qed.

Theorem tx_locktime_spec p t : wf_tx t -> tx_locktime (obj_tx p t) = Ok (at_locktime t).
Proof.
  intros Hwf. destruct Hwf as [_ [_ [_ [_ [_ [Hlt _]]]]]]. unfold obj_tx, enc_tx.
  rewrite app_assoc. rewrite (tx_locktime_ok p _ (le_enc 4 (at_locktime t)) _ (lenN_le_enc4 _)).
  rewrite (le_dec_enc4 _ Hlt). reflexivity.
Qed.

(* C10: the three preimage parts concatenate to the witness-stripped serialization *)
Theorem tx_preimage_spec p t : wf_tx t -> InLen (enc_tx t) ->
  exists x y z, tx_txid_preimage (obj_tx p t) = Ok (x, y, z) /\ bytes x ++ bytes y ++ bytes z = enc_stripped t /\
                (at_form t = Legacy -> enc_stripped t = enc_tx t).
Proof.
  intros Hwf HL. unfold obj_tx, io_spec, enc_stripped, enc_tx in *. destruct (at_form t) as [|ws].
  - rewrite tx_preimage_legacy. eexists. eexists. eexists. split; [reflexivity|].
    cbn [bytes sl]. rewrite !app_nil_r. split; [|intros _]; rewrite <- !app_assoc; reflexivity.
  - set (io := enc_txins (at_ins t) ++ enc_txouts (at_outs t)).
    assert (Henc : enc_i32 (at_version t) ++ ([x00; x01] ++ enc_txins (at_ins t) ++ enc_txouts (at_outs t) ++ enc_witnesses ws) ++ le_enc 4 (at_locktime t)
                   = enc_i32 (at_version t) ++ [x00; x01] ++ io ++ enc_witnesses ws ++ le_enc 4 (at_locktime t)).
    { unfold io. rewrite <- !app_assoc. reflexivity. }
    rewrite Henc in *.
    assert (Hlt : lenN io + 6 < TWO64).
    { unfold InLen in HL. rewrite !lenN_app in HL. unfold TWO64. lia. }
    pose proof (tx_preimage_segwit p (enc_i32 (at_version t)) [x00; x01] io (enc_witnesses ws) (le_enc 4 (at_locktime t))
                  (lenN_enc_i32 _) eq_refl (lenN_le_enc4 _) Hlt) as TP.
    cbn zeta in TP. rewrite TP. eexists. eexists. eexists. split; [reflexivity|].
    cbn [bytes sl]. split; [unfold io; rewrite <- !app_assoc; reflexivity|discriminate].
Qed.

(* C16: weight() = 3 * stripped size + total size; 4 * size for the non-segwit encoding *)
Theorem tx_weight_spec p t : wf_tx t -> InLen (enc_tx t) ->
  tx_weight (obj_tx p t) = Ok (weight_spec t) /\
  (at_form t = Legacy -> weight_spec t = 4 * lenN (enc_tx t)).
Proof.
  intros Hwf HL. pose proof (tx_event_spec p t Hwf HL) as TE.
  unfold tx_event in TE.
  destruct (tx_version (obj_tx p t)) as [v| | |]; try discriminate. cbn [obind] in TE.
  destruct (tx_locktime (obj_tx p t)) as [l| | |]; try discriminate. cbn [obind] in TE.
  destruct (tx_txid_preimage (obj_tx p t)) as [[[a b] c]| | |]; try discriminate. cbn [obind] in TE.
  destruct (tx_weight (obj_tx p t)) as [w| | |]; try discriminate. cbn [obind] in TE.
  injection TE as TE. split.
  - f_equal. pose proof (tx_weight_event p t) as HW. rewrite <- TE in HW. exact HW.
  - intros HF. unfold weight_spec, enc_stripped, enc_tx. rewrite HF. rewrite <- !app_assoc. lia.
Qed.
