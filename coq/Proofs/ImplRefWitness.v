(* Proofs/ImplRefWitness.v — refinement Impl = Ref for Witness and Witnesses. *)
From BS Require Import Impl.Visit Ref.Grammar Proofs.SliceLemmas Proofs.Numbers Proofs.Len Proofs.CsDec Proofs.ImplRefLeaf Proofs.ImplRefLists.
From Coq Require Import ZifyN ZifyNat ZifyBool.
Open Scope N_scope.

(* ---- witness elements ---- *)
Definition witness_body (i : N) : P (list byte) :=
  bind r_script_pos (fun de => match de with (d, e) => bind (emitp (EWitnessElem i (d, lenN e))) (fun _ => ret e) end).

Lemma ref_witness_step f i total brk q cur h :
  loop_fuel (S f) witness_body i total brk (st0 q cur h) =
  if i <? total then
    match l_script cur with
    | LErr e => Fail e h
    | LOk (cb, d) r =>
        let ev := EWitnessElem i (q + lenN cb, lenN d) in
        match loop_fuel f witness_body (i + 1) total brk (st0 (q + lenN cb + lenN d) r (ev :: h)) with
        | Done l s' => Done (d :: l) s'
        | Fail e h' => Fail e h'
        | Stuck => Stuck
        end
    end
  else Done [] (st0 q cur h).
Proof.
  cbn [loop_fuel]. destruct (i <? total); [|reflexivity].
  unfold bind at 1. unfold witness_body at 1. unfold bind at 1. rewrite r_script_pos_l.
  destruct (l_script cur) as [[cb d] r|e]; [|reflexivity].
  cbn zeta. unfold bind at 1. rewrite emitp_nonbreakable by reflexivity. cbn [pos inp hi st0].
  unfold ret at 1. unfold bind at 1.
  change {| pos := q + lenN cb + lenN d; inp := r; hi := EWitnessElem i (q + lenN cb, lenN d) :: h |}
    with (st0 (q + lenN cb + lenN d) r (EWitnessElem i (q + lenN cb, lenN d) :: h)).
  destruct (loop_fuel f witness_body (i + 1) total brk _); reflexivity.
Qed.

Lemma impl_witness_step f i total brk p pre cur h :
  In63 (pre ++ cur) ->
  witness_loop (S f) brk (sl p (pre ++ cur)) i total (lenN pre) h =
  if i <? total then
    match l_script cur with
    | LErr e => (Err e, h)
    | LOk (cb, d) r =>
        let ev := EWitnessElem i (p + lenN pre + lenN cb, lenN d) in
        witness_loop f brk (sl p (pre ++ cur)) (i + 1) total (lenN pre + lenN cb + lenN d) (ev :: h)
    end
  else (Ok (lenN pre), h).
Proof.
  intros H63. cbn [witness_loop]. destruct (i <? total); [|reflexivity].
  unfold mbind at 1. unfold lift at 1. unfold sl at 1. rewrite s_from_app. fold (sl (p + lenN pre) cur).
  unfold mbind at 1. unfold lift at 1. unfold scan_len0. rewrite scan_len_spec, scan_result_cs. cbn [bytes sl].
  unfold l_script.
  unfold In63, TWO63 in H63. rewrite lenN_app in H63.
  destruct (cs_dec cur) as [n cb rest| |] eqn:E; try reflexivity.
  destruct (cs_dec_ok _ _ _ _ E) as [Hcur [Hc Hn]].
  destruct (N.ltb_spec (lenN pre + lenN cb) TWO64) as [_|Hbad]; [|unfold TWO64 in Hbad; rewrite Hcur, lenN_app in H63; lia].
  unfold mbind at 1. unfold lift at 1.
  destruct (splitN rest n) as [[d r]|] eqn:S.
  - apply splitN_Some in S. destruct S as [Hrest Ln].
    assert (Hs : sat_add (lenN pre + lenN cb) n = lenN (pre ++ cb) + lenN d).
    { unfold sat_add, U64MAX. rewrite Hcur, Hrest, !lenN_app in H63. rewrite lenN_app. lia. }
    rewrite Hs. rewrite Hcur, Hrest.
    replace (pre ++ cb ++ d ++ r) with ((pre ++ cb) ++ d ++ r) by (rewrite <- app_assoc; reflexivity).
    replace (lenN pre + lenN cb) with (lenN (pre ++ cb)) by (rewrite lenN_app; reflexivity).
    unfold sl at 1. rewrite s_get_range_app.
    unfold mbind at 1. unfold lift at 1. unfold uadd.
    rewrite Hcur, Hrest, !lenN_app in H63.
    destruct (N.ltb_spec (lenN (pre ++ cb) + n) TWO64) as [_|Hbad]; [|unfold TWO64 in Hbad; rewrite lenN_app in Hbad; lia].
    unfold mbind at 1. rewrite emit_nonbreakable by reflexivity.
    cbn zeta. unfold win, s_len. cbn [off bytes]. rewrite lenN_app, Ln.
    replace (p + (lenN pre + lenN cb)) with (p + lenN pre + lenN cb) by lia. reflexivity.
  - apply splitN_None in S.
    rewrite s_get_range_short; [reflexivity|].
    unfold s_len, sl. cbn [bytes]. rewrite lenN_app, Hcur, lenN_app in *. unfold sat_add, U64MAX. lia.
Qed.

Lemma witness_loop_ref brk p b total :
  In63 b ->
  forall fuelI fuelR pre cur i h,
  b = pre ++ cur -> (length cur < fuelI)%nat -> (length cur < fuelR)%nat ->
  loop_fuel fuelR witness_body i total brk (st0 (p + lenN pre) cur h) <> Stuck /\
  consumed_from (p + lenN pre) cur (loop_fuel fuelR witness_body i total brk (st0 (p + lenN pre) cur h)) /\
  witness_loop fuelI brk (sl p b) i total (lenN pre) h
  = embed_loop p (loop_fuel fuelR witness_body i total brk (st0 (p + lenN pre) cur h)).
Proof.
  intros H63. induction fuelI as [|fuelI IH]; intros fuelR pre cur i h Hb HfI HfR; [lia|].
  destruct fuelR as [|fuelR]; [lia|].
  subst b. rewrite (impl_witness_step _ _ _ _ _ _ _ _ H63), ref_witness_step.
  destruct (i <? total).
  2:{ cbn [embed_loop consumed_from st0 pos hi inp]. repeat split; try discriminate.
      - exists []. split; [reflexivity|change (lenN (@nil byte)) with 0; lia].
      - repeat f_equal. lia. }
  destruct (l_script cur) as [[cb d] r|e] eqn:L.
  2:{ cbn [embed_loop consumed_from]. repeat split; discriminate. }
  destruct (l_script_ok _ _ _ _ L) as [Hcur [Hc _]].
  cbn zeta.
  assert (Hb' : pre ++ cur = (pre ++ cb ++ d) ++ r). { rewrite Hcur, <- !app_assoc. reflexivity. }
  assert (Hlt : (length r < length cur)%nat).
  { rewrite Hcur. rewrite app_assoc. apply length_lt_app. rewrite lenN_app. lia. }
  assert (HfI' : (length r < fuelI)%nat) by lia.
  assert (HfR' : (length r < fuelR)%nat) by lia.
  specialize (IH fuelR (pre ++ cb ++ d) r (i + 1) (EWitnessElem i (p + lenN pre + lenN cb, lenN d) :: h) Hb' HfI' HfR').
  rewrite !lenN_app in IH.
  replace (p + (lenN pre + (lenN cb + lenN d))) with (p + lenN pre + lenN cb + lenN d) in IH by lia.
  replace (lenN pre + (lenN cb + lenN d)) with (lenN pre + lenN cb + lenN d) in IH by lia.
  destruct IH as [IH1 [IH2 IH3]].
  rewrite IH3.
  destruct (loop_fuel fuelR witness_body (i + 1) total brk _) as [l s2|e2 h2|]; [|cbn; repeat split; discriminate|contradiction].
  cbn [embed_loop consumed_from] in *. repeat split; [discriminate|].
  destruct IH2 as [c2 [Hr Hp2]]. exists (cb ++ d ++ c2).
  split; [rewrite Hcur, Hr, <- !app_assoc; reflexivity|rewrite !lenN_app; lia].
Qed.

Lemma r_witness_eq brk p b h :
  r_witness brk (st0 p b h) =
  match cs_dec b with
  | CsOk n cb rest => loop_fuel (S (length rest)) witness_body 0 n brk (st0 (p + lenN cb) rest (EWitnessTotal n :: h))
  | CsMore => Fail MoreBytesNeeded h
  | CsNonMin => Fail NonMinimalVarInt h
  end.
Proof.
  unfold r_witness. unfold bind at 1. rewrite r_compact_cs.
  destruct (cs_dec b) as [n cb rest| |]; reflexivity.
Qed.

Definition finish_witness (p : N) (b : list byte) (r : out N * hist) : out (presult witness) * hist :=
  match r with
  | (Ok consumed, h') =>
      match s_to (sl p b) consumed with
      | Ok v => match s_from (sl p b) consumed with
                | Ok rm => (Ok {| remaining := rm; parsed := {| w_slice := v |} |}, h')
                | Err e => (Err e, h') | Panic w => (Panic w, h') | OutOfFuel => (OutOfFuel, h')
                end
      | Err e => (Err e, h') | Panic w => (Panic w, h') | OutOfFuel => (OutOfFuel, h')
      end
  | (Err e, h') => (Err e, h')
  | (Panic w, h') => (Panic w, h')
  | (OutOfFuel, h') => (OutOfFuel, h')
  end.

Lemma visit_witness_eq brk p b h :
  visit_witness brk (sl p b) h =
  match cs_dec b with
  | CsOk n cb rest => finish_witness p b (witness_loop (S (length b)) brk (sl p b) 0 n (lenN cb) (EWitnessTotal n :: h))
  | CsMore => (Err MoreBytesNeeded, h)
  | CsNonMin => (Err NonMinimalVarInt, h)
  end.
Proof.
  unfold visit_witness, scan_len0. rewrite scan_len_spec, scan_result_cs. cbn [bytes sl].
  destruct (cs_dec b) as [n cb rest| |] eqn:E; try reflexivity.
  destruct (cs_dec_ok _ _ _ _ E) as [Hb [Hc Hn]].
  rewrite N.add_0_l.
  destruct (N.ltb_spec (lenN cb) TWO64) as [_|Hbad]; [|unfold TWO64 in Hbad; lia].
  unfold mbind at 1. unfold lift at 1.
  unfold mbind at 1. rewrite emit_nonbreakable by reflexivity.
  unfold mbind at 1. unfold finish_witness.
  destruct (witness_loop (S (length b)) brk (sl p b) 0 n (lenN cb) (EWitnessTotal n :: h)) as [[c| | |] h']; reflexivity.
Qed.

Theorem visit_witness_ref brk p b h : In63 b ->
  r_witness brk (st0 p b h) <> Stuck /\
  (forall a s', r_witness brk (st0 p b h) = Done a s' ->
     exists c, b = c ++ inp s' /\ pos s' = p + lenN c /\ 1 <= lenN c /\
               witness_is_empty {| w_slice := sl p c |} = Ok (list_empty a)) /\
  visit_witness brk (sl p b) h
  = embed_visit (fun (a : a_witness) s' => {| w_slice := view p b s' |}) (r_witness brk (st0 p b h)).
Proof.
  intros H63. rewrite visit_witness_eq, r_witness_eq.
  destruct (cs_dec b) as [n cb rest| |] eqn:E.
  2:{ cbn. repeat split; try discriminate. }
  2:{ cbn. repeat split; try discriminate. }
  destruct (cs_dec_ok _ _ _ _ E) as [Hb [Hc Hn]].
  assert (F1 : (length rest < S (length b))%nat). { rewrite Hb, app_length. lia. }
  assert (F2 : (length rest < S (length rest))%nat) by lia.
  destruct (witness_loop_ref brk p b n H63 _ _ cb rest 0 (EWitnessTotal n :: h) Hb F1 F2) as [L1 [L2 L3]].
  rewrite L3.
  destruct (loop_fuel (S (length rest)) witness_body 0 n brk (st0 (p + lenN cb) rest (EWitnessTotal n :: h))) as [l s'|e h'|] eqn:LF.
  3:{ contradiction. }
  2:{ cbn. repeat split; try discriminate. }
  cbn [embed_loop consumed_from] in *. destruct L2 as [c2 [Hrest Hpos2]].
  set (c := cb ++ c2).
  assert (Hbc : b = c ++ inp s'). { unfold c. rewrite Hb, Hrest, app_assoc. reflexivity. }
  assert (Hpos : pos s' = p + lenN c). { unfold c. rewrite lenN_app. lia. }
  assert (H0n : 0 <= n) by lia.
  pose proof (loop_fuel_len _ _ _ _ _ _ _ _ H0n LF) as Hlen. rewrite N.sub_0_r in Hlen.
  repeat split; [discriminate| |].
  { intros a s2 HD. injection HD as <- <-. exists c. repeat split; try assumption.
    - unfold c. rewrite lenN_app. lia.
    - destruct (cs_dec_first _ _ _ _ E) as [b0 [t [Hcb Hz]]].
      unfold witness_is_empty. cbn [w_slice]. unfold c. rewrite (first_byte_zero p cb c2 b0 t n Hcb Hz).
      rewrite list_empty_len, Hlen. reflexivity. }
  unfold finish_witness. rewrite Hpos. replace (p + lenN c - p) with (lenN c) by lia.
  rewrite Hbc. unfold sl at 1 2. rewrite s_from_app, s_to_app.
  cbn [embed_visit]. rewrite (view_app p c s' Hpos). rewrite Hpos. reflexivity.
Qed.

(* ---- witnesses ---- *)
Definition witnesses_body (i : N) : P a_witness :=
  bind (emitp (EWitness i)) (fun _ => bind r_witness (fun w => bind (emitp EWitnessEnd) (fun _ => ret w))).

Lemma ref_witnesses_step f i total brk q cur h :
  loop_fuel (S f) witnesses_body i total brk (st0 q cur h) =
  if i <? total then
    if brk h (EWitness i) then Fail VisitBreak (EWitness i :: h)
    else match r_witness brk (st0 q cur (EWitness i :: h)) with
         | Done w s1 =>
             match loop_fuel f witnesses_body (i + 1) total brk (st0 (pos s1) (inp s1) (EWitnessEnd :: hi s1)) with
             | Done l s' => Done (w :: l) s'
             | Fail e h' => Fail e h'
             | Stuck => Stuck
             end
         | Fail e h' => Fail e h'
         | Stuck => Stuck
         end
  else Done [] (st0 q cur h).
Proof.
  cbn [loop_fuel]. destruct (i <? total); [|reflexivity].
  unfold st0. unfold bind at 1. unfold witnesses_body at 1. unfold bind at 1. unfold emitp at 1. cbn [breakable andb hi pos inp].
  destruct (brk h (EWitness i)); [reflexivity|].
  unfold bind at 1.
  destruct (r_witness brk {| pos := q; inp := cur; hi := EWitness i :: h |}) as [w s1|e h'|]; reflexivity.
Qed.

Definition embed_wloop {A} (p : N) (acc : bool) (o : outcome (list (list A))) : out (N * bool) * hist :=
  match o with
  | Done l s' => (Ok (pos s' - p, acc && forallb list_empty l), hi s')
  | Fail e h' => (Err e, h')
  | Stuck => (OutOfFuel, [])
  end.

Lemma witnesses_loop_ref brk p b total :
  In63 b ->
  forall fuelI fuelR pre cur i h acc,
  b = pre ++ cur -> (length cur < fuelI)%nat -> (length cur < fuelR)%nat ->
  loop_fuel fuelR witnesses_body i total brk (st0 (p + lenN pre) cur h) <> Stuck /\
  consumed_from (p + lenN pre) cur (loop_fuel fuelR witnesses_body i total brk (st0 (p + lenN pre) cur h)) /\
  witnesses_loop fuelI brk i total (sl (p + lenN pre) cur) (lenN pre) acc h
  = embed_wloop p acc (loop_fuel fuelR witnesses_body i total brk (st0 (p + lenN pre) cur h)).
Proof.
  intros H63. induction fuelI as [|fuelI IH]; intros fuelR pre cur i h acc Hb HfI HfR; [lia|].
  destruct fuelR as [|fuelR]; [lia|].
  rewrite ref_witnesses_step. cbn [witnesses_loop].
  destruct (i <? total).
  2:{ cbn [embed_wloop consumed_from st0 pos hi inp forallb]. unfold mret. repeat split; try discriminate.
      - exists []. split; [reflexivity|change (lenN (@nil byte)) with 0; lia].
      - rewrite andb_true_r. repeat f_equal. lia. }
  unfold mbind at 1. unfold emit at 1. cbn [breakable andb].
  destruct (brk h (EWitness i)).
  { cbn [embed_wloop consumed_from]. repeat split; discriminate. }
  assert (H63c : In63 cur). { rewrite Hb in H63. apply In63_suffix in H63. exact H63. }
  destruct (visit_witness_ref brk (p + lenN pre) cur (EWitness i :: h) H63c) as [W1 [W2 W3]].
  unfold mbind at 1. rewrite W3.
  destruct (r_witness brk (st0 (p + lenN pre) cur (EWitness i :: h))) as [w s1|e h'|] eqn:RW.
  3:{ contradiction. }
  2:{ cbn [embed_visit embed_wloop consumed_from]. repeat split; discriminate. }
  destruct (W2 w s1 eq_refl) as [c [Hcur [Hpos [Hc1 Hemp]]]].
  cbn [embed_visit]. unfold mbind at 1. rewrite emit_nonbreakable by reflexivity.
  unfold mbind at 1. unfold lift at 1. unfold consumed_of. cbn [parsed remaining].
  assert (Hview : view (p + lenN pre) cur s1 = sl (p + lenN pre) c).
  { rewrite Hcur. apply view_app. exact Hpos. }
  rewrite Hview. unfold s_len, sl at 1. cbn [w_slice bytes]. unfold uadd.
  assert (Hlen : lenN b = lenN pre + lenN c + lenN (inp s1)). { rewrite Hb, Hcur, !lenN_app. lia. }
  unfold In63, TWO63 in H63.
  destruct (N.ltb_spec (lenN pre + lenN c) TWO64) as [_|Hbad]; [|unfold TWO64 in Hbad; lia].
  unfold mbind at 1. unfold lift at 1. rewrite Hemp.
  assert (Hb' : b = (pre ++ c) ++ inp s1). { rewrite Hb, Hcur, app_assoc. reflexivity. }
  assert (Hlt : (length (inp s1) < length cur)%nat).
  { pose proof (length_lt_app c (inp s1) Hc1) as HH. rewrite <- Hcur in HH. exact HH. }
  assert (HfI' : (length (inp s1) < fuelI)%nat) by lia.
  assert (HfR' : (length (inp s1) < fuelR)%nat) by lia.
  specialize (IH fuelR (pre ++ c) (inp s1) (i + 1) (EWitnessEnd :: hi s1) (if list_empty w then acc else false) Hb' HfI' HfR').
  rewrite lenN_app in IH. replace (p + (lenN pre + lenN c)) with (pos s1) in IH by lia.
  destruct IH as [IH1 [IH2 IH3]].
  rewrite IH3.
  destruct (loop_fuel fuelR witnesses_body (i + 1) total brk _) as [l s2|e2 h2|]; [|cbn; repeat split; discriminate|contradiction].
  cbn [embed_wloop consumed_from forallb] in *. repeat split; [discriminate| |].
  - destruct IH2 as [c2 [Hr Hp2]]. exists (c ++ c2).
    split; [rewrite Hcur, Hr, app_assoc; reflexivity|rewrite lenN_app; lia].
  - destruct (list_empty w), acc; reflexivity.
Qed.

Lemma r_witnesses_eq n brk p b h :
  r_witnesses n brk (st0 p b h) = loop_fuel (S (length b)) witnesses_body 0 n brk (st0 p b h).
Proof. reflexivity. Qed.

Theorem visit_witnesses_ref brk p b n h : In63 b ->
  r_witnesses n brk (st0 p b h) <> Stuck /\
  (forall a s', r_witnesses n brk (st0 p b h) = Done a s' ->
     exists c, b = c ++ inp s' /\ pos s' = p + lenN c /\ lenN a = n) /\
  visit_witnesses brk (sl p b) n h
  = embed_visit (fun (a : list a_witness) s' => {| ws_slice := view p b s'; ws_all_empty := forallb list_empty a |})
                (r_witnesses n brk (st0 p b h)).
Proof.
  intros H63. rewrite r_witnesses_eq. unfold visit_witnesses. cbn [bytes sl].
  assert (F : (length b < S (length b))%nat) by lia.
  destruct (witnesses_loop_ref brk p b n H63 _ _ [] b 0 h true eq_refl F F) as [L1 [L2 L3]].
  change (lenN (@nil byte)) with 0 in *. rewrite N.add_0_r in *.
  unfold mbind at 1. rewrite L3.
  destruct (loop_fuel (S (length b)) witnesses_body 0 n brk (st0 p b h)) as [l s'|e h'|] eqn:LF.
  3:{ contradiction. }
  2:{ cbn. repeat split; try discriminate. }
  cbn [embed_wloop consumed_from] in *. destruct L2 as [c [Hbc Hpos]].
  assert (H0n : 0 <= n) by lia.
  pose proof (loop_fuel_len _ _ _ _ _ _ _ _ H0n LF) as Hlen. rewrite N.sub_0_r in Hlen.
  repeat split; [discriminate| |].
  { intros a s2 HD. injection HD as <- <-. exists c. repeat split; assumption. }
  rewrite Hpos. replace (p + lenN c - p) with (lenN c) by lia.
  unfold mbind at 1. unfold lift at 1. rewrite Hbc. unfold sl at 1. rewrite s_to_app.
  unfold mbind at 1. unfold lift at 1. unfold sl at 1. rewrite s_from_app.
  unfold mret. cbn [embed_visit andb]. rewrite (view_app p c s' Hpos). rewrite Hpos. reflexivity.
Qed.
